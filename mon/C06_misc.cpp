// C06 (part 2) — integer, half, small-float, shared-exponent and RGBM pack/unpack pairs of glm/packing.hpp and glm/gtc/packing.hpp:
//   Int/Uint 2x8 4x8 2x16 4x16 2x32, I3x10_1x2, U3x10_1x2, Double2x32   : exact against the monitor's own layout table
//   Half 1x16 2x16 4x16, packHalf<L>                                     : layout / consistency with packHalf1x16 / unpackHalf1x16
//                                                                          (the conversions themselves are monitored by C07), range clamping
//   F2x11_1x10 (unsigned 11/10-bit floats), F3x9_E1x5 (RGB9E5), RGBM      : round trips, quantisation, clamping, monotonicity, layout
// The layout table (first component = least significant bits) and all decoders below are written for this monitor (no glm code).
#include "vf.hpp"
#include "ref.hpp"
#include <glm/glm.hpp>
#include <glm/packing.hpp>
#include <glm/gtc/packing.hpp>
#include <glm/gtc/type_precision.hpp>
using namespace ref;

static const char* const COMP[4]={"x","y","z","w"};
// cheap per-thread class counters / ratio maxima keyed by the address of the string literal (vf::Ctx::cls/ratio build a std::string
// per call: too slow inside 2^32 sweeps); flushed into the Ctx after every chunk
enum { MAXOPS=128 };
static thread_local std::vector<std::pair<const char*,u64>> t_cls[MAXOPS];
static thread_local std::vector<std::pair<const char*,double>> t_rt[MAXOPS];
static inline void lcls(const char* name){ auto& v=t_cls[vf::g_crumb.op->id]; for(auto& p: v) if(p.first==name){ p.second++; return; } v.push_back({name,1}); }
static inline void lratio(const char* name,double r){ if(!(r==r)) return; auto& v=t_rt[vf::g_crumb.op->id]; for(auto& p: v) if(p.first==name){ if(r>p.second) p.second=r; return; } v.push_back({name,r}); }
static void flush(vf::Ctx& c){ for(size_t i=0;i<c.st.size()&&i<(size_t)MAXOPS;i++){ for(auto& p: t_cls[i]) c.st[i].classes[p.first]+=p.second; t_cls[i].clear(); for(auto& p: t_rt[i]){ double& m=c.st[i].ratios[p.first]; if(p.second>m) m=p.second; } t_rt[i].clear(); } }
static void SWEEP(const std::string& label,u64 total,u64 chunk,const std::function<void(vf::Ctx&,u64,u64)>& fn){ vf::sweep(label.c_str(),total,chunk,[&](vf::Ctx& c,u64 lo,u64 hi){ fn(c,lo,hi); flush(c); }); }
static void PAR(const std::string& label,const std::function<void(int,int,vf::Ctx&)>& fn){ vf::parallel(label.c_str(),[&](int t,int T,vf::Ctx& c){ fn(t,T,c); flush(c); }); }
// cheap failure path: the witness strings (snprintf) are only built while a class still lacks its 3 witnesses
#define LFAIL(C,CLS,GOT,WANT) do{ if(!vf::cfg().san_only){ std::string cls_=(CLS); vf::OpStat& s_=(C).cur(); auto it_=s_.viol.find(cls_); \
	if(it_!=s_.viol.end() && it_->second.wit.size()>=3) it_->second.count++; else (C).fail(cls_,GOT,WANT); } }while(0)
// optional extra stride for the 2^32 sweeps (used by reduced re-runs, e.g. under sanitizers): --x-stride N
static inline u64 xstride(){ auto it=vf::cfg().extra.find("stride"); if(it==vf::cfg().extra.end()) return 1; u64 s=strtoull(it->second.c_str(),0,10); return s<1? 1: s; }
static inline u64 mixseed(const std::string& label,u64 a){ return vf::cfg().seed*0x9e3779b97f4a7c15ULL ^ vf::hash_str(label.c_str()) ^ (a+1)*0xD6E8FEB86659FD93ULL; }
template<class T> static inline T stepulp(T x,int j){ typedef typename fp<T>::I I; I o=ord(x)+(I)j; T r=from_ord<T>(o); return isfinite_b(r)? r: x; }
static const std::vector<float>& finite_lattice(){ static const std::vector<float> L=[]{ std::vector<float> v; for(float x: float_lattice()) if(isfinite_b(x)) v.push_back(x); return v; }(); return L; }

struct InW { u32 code[4]; };      // per-field codes, field 0 = least significant bits
struct InXf { float x[4]; };
struct InMf { float a, b; };

// ================================================================ integer formats
#define IF(NAME,NN,SIGNED,W0,W1,W2,W3) \
	struct I_##NAME { enum{ N=NN, SGN=SIGNED }; static int width(int k){ static const int w[4]={W0,W1,W2,W3}; return w[k]; } \
		static u64 packw(const i64* v); static void unpackw(u64 w,i64* o); };
#define IPK(NAME,VT,ET,WT,UWT) \
	inline u64 I_##NAME::packw(const i64* v){ VT x; for(int i=0;i<N;i++) x[i]=(ET)v[i]; return (u64)(UWT)glm::pack##NAME(x); } \
	inline void I_##NAME::unpackw(u64 w,i64* o){ VT x=glm::unpack##NAME((WT)(UWT)w); for(int i=0;i<N;i++) o[i]=(i64)x[i]; }
IF(Int2x8,2,1,8,8,0,0)        IPK(Int2x8,glm::i8vec2,glm::int8,glm::int16,glm::uint16)
IF(Uint2x8,2,0,8,8,0,0)       IPK(Uint2x8,glm::u8vec2,glm::uint8,glm::uint16,glm::uint16)
IF(Int4x8,4,1,8,8,8,8)        IPK(Int4x8,glm::i8vec4,glm::int8,glm::int32,glm::uint32)
IF(Uint4x8,4,0,8,8,8,8)       IPK(Uint4x8,glm::u8vec4,glm::uint8,glm::uint32,glm::uint32)
IF(Int2x16,2,1,16,16,0,0)     IPK(Int2x16,glm::i16vec2,glm::int16,int,glm::uint32)
IF(Uint2x16,2,0,16,16,0,0)    IPK(Uint2x16,glm::u16vec2,glm::uint16,glm::uint,glm::uint32)
IF(Int4x16,4,1,16,16,16,16)   IPK(Int4x16,glm::i16vec4,glm::int16,glm::int64,glm::uint64)
IF(Uint4x16,4,0,16,16,16,16)  IPK(Uint4x16,glm::u16vec4,glm::uint16,glm::uint64,glm::uint64)
IF(Int2x32,2,1,32,32,0,0)     IPK(Int2x32,glm::i32vec2,glm::int32,glm::int64,glm::uint64)
IF(Uint2x32,2,0,32,32,0,0)    IPK(Uint2x32,glm::u32vec2,glm::uint32,glm::uint64,glm::uint64)
IF(I3x10_1x2,4,1,10,10,10,2)  IPK(I3x10_1x2,glm::ivec4,int,glm::uint32,glm::uint32)
IF(U3x10_1x2,4,0,10,10,10,2)  IPK(U3x10_1x2,glm::uvec4,glm::uint,glm::uint32,glm::uint32)
IF(Double2x32,2,0,32,32,0,0)
inline u64 I_Double2x32::packw(const i64* v){ glm::uvec2 x((glm::uint)v[0],(glm::uint)v[1]); return dbits(glm::packDouble2x32(x)); }
inline void I_Double2x32::unpackw(u64 w,i64* o){ glm::uvec2 x=glm::unpackDouble2x32(bitsd(w)); o[0]=(i64)x[0]; o[1]=(i64)x[1]; }

template<class F> static inline int foff(int k){ int o=0; for(int i=0;i<k;i++) o+=F::width(i); return o; }
template<class F> static inline int totalbits(){ return foff<F>(F::N); }
template<class F> static inline u64 fmask(int k){ int w=F::width(k); return w>=64? ~0ULL: ((1ULL<<w)-1); }
template<class F> static inline u64 join(const u32* code){ u64 w=0; for(int k=0;k<F::N;k++) w|=((u64)code[k]&fmask<F>(k))<<foff<F>(k); return w; }
template<class F> static inline void split(u64 w,u32* code){ for(int k=0;k<4;k++) code[k]= k<F::N? (u32)((w>>foff<F>(k))&fmask<F>(k)): 0u; }

// exact: pack(values of the codes) == word joined by our table; unpack(word) == values; hence both round trips and the layout
template<class F> static void k_int(const InW& in,vf::Ctx& c){
	const int N=F::N; u32 code[4]={0,0,0,0}; i64 val[4]={0,0,0,0};
	for(int k=0;k<N;k++){ code[k]=(u32)((u64)in.code[k]&fmask<F>(k)); i64 v=(i64)code[k]; int w=F::width(k); if(F::SGN && ((v>>(w-1))&1)) v-=(i64)1<<w; val[k]=v; }
	u64 w=join<F>(code); u64 got=F::packw(val); u32 gc[4]; split<F>(got,gc);
	for(int k=0;k<N;k++) if(gc[k]!=code[k]) LFAIL(c,std::string("pack:field-")+COMP[k]+":wrong-code",vf::show(gc[k]),vf::show(code[k]));
	if(got!=w && totalbits<F>()<64 && (got>>(totalbits<F>()&63))) LFAIL(c,"pack:bits-above-the-top-field",vf::show((unsigned long long)got),vf::show((unsigned long long)w));
	i64 o[4]={0,0,0,0}; F::unpackw(w,o);
	for(int k=0;k<N;k++) if(o[k]!=val[k]) LFAIL(c,std::string("unpack:component-")+COMP[k]+":wrong-value",vf::show((long long)o[k]),vf::show((long long)val[k]));
	// single-field words: explicit layout statement (field k only -> component k only)
	for(int k=0;k<N;k++){ u32 one[4]={0,0,0,0}; one[k]=code[k]; i64 s[4]={0,0,0,0}; F::unpackw(join<F>(one),s); for(int j=0;j<N;j++) if(j!=k && s[j]!=0) LFAIL(c,std::string("unpack:field-")+COMP[k]+"-only:component-"+COMP[j]+"-nonzero",vf::show((long long)s[j]),"0"); }
}
#define DEF_INT(NAME) VF_OP(NAME##_roundtrip, InW, "uuuu"){ k_int<I_##NAME>(in,c); }
DEF_INT(Int2x8) DEF_INT(Uint2x8) DEF_INT(Int4x8) DEF_INT(Uint4x8) DEF_INT(Int2x16) DEF_INT(Uint2x16) DEF_INT(Int4x16) DEF_INT(Uint4x16)
DEF_INT(Int2x32) DEF_INT(Uint2x32) DEF_INT(I3x10_1x2) DEF_INT(U3x10_1x2) DEF_INT(Double2x32)

// drive words: everything when <= 20 bits (thorough: <= 32 bits), else all codes per field in three contexts + boundary lattice + strided + random
template<class F> static void drive_words(const char* nm,vf::Op& RT){
	if(!vf::want(RT)) return;
	const int N=F::N, B=totalbits<F>(); const std::string L=nm; const bool th=vf::thorough(); const u64 seed=vf::cfg().seed;
	if(B<=20 || (th && B<=32)){ const u64 xs= B>20? xstride(): 1, ph= xs>1? (seed*2654435761ULL)%xs: 0;
		SWEEP(L+".all",(1ULL<<B)/xs,1u<<14,[&](vf::Ctx& c,u64 lo,u64 hi){ for(u64 i=lo;i<hi;i++){ InW in{}; split<F>(i*xs+ph,in.code); vf::run(c,RT,in);} }); return; }
	auto ctx_fill=[&](InW& in,int ctx,vf::Rng& r){ for(int j=0;j<N;j++) in.code[j]= ctx==0? 0u: ctx==1? (u32)fmask<F>(j): (u32)(r.u32_()&fmask<F>(j)); };
	for(int k=0;k<N;k++){
		const int wd=F::width(k); const std::string lk=L+".f"+std::to_string(k);
		if(wd<=16){ const u64 nc=1ULL<<wd;
			SWEEP(lk,nc*3,4096,[&](vf::Ctx& c,u64 lo,u64 hi){ vf::Rng r(mixseed(lk,lo)); for(u64 i=lo;i<hi;i++){ InW in{}; ctx_fill(in,(int)(i/nc),r); in.code[k]=(u32)(i%nc); vf::run(c,RT,in);} });
		} else {
			std::vector<u32> LT=int_lattice<u32>();
			SWEEP(lk+".lat",LT.size()*3,64,[&](vf::Ctx& c,u64 lo,u64 hi){ vf::Rng r(mixseed(lk,lo)); for(u64 i=lo;i<hi;i++){ InW in{}; ctx_fill(in,(int)(i/LT.size()),r); in.code[k]=LT[i%LT.size()]; vf::run(c,RT,in);} });
			const u64 stride= th? 63: 4099, phase=(seed*2654435761ULL)%stride, total=(1ULL<<32)/stride;
			SWEEP(lk+".str",total,1u<<14,[&](vf::Ctx& c,u64 lo,u64 hi){ vf::Rng r(mixseed(lk,lo)); for(u64 i=lo;i<hi;i++){ InW in{}; ctx_fill(in,2,r); in.code[k]=(u32)(i*stride+phase); vf::run(c,RT,in);} });
		}
	}
	const u64 n=vf::N(200000,10000000);
	PAR(L+".rnd",[&](int t,int TT,vf::Ctx& c){ for(u64 i=t;i<n;i+=TT){ InW in{}; for(int j=0;j<N;j++){ u32 m=(u32)fmask<F>(j), v=c.rng.u32_()&m; int md=(int)c.rng.below(6); if(md==0) v=m-(u32)c.rng.below(3); else if(md==1) v=(u32)c.rng.below(3); else if(md==2) v=((m>>1)+(u32)c.rng.below(4)-1)&m; in.code[j]=v; } vf::run(c,RT,in);} });
}

// ================================================================ half formats (layout / consistency / range clamping only)
#define HF(NAME,NN) struct H_##NAME { enum{ N=NN }; static int width(int k){ return k<NN? 16: 0; } static u64 packw(const float* x); static void unpackw(u64 w,float* o); };
HF(Half1x16,1) HF(Half2x16,2) HF(Half4x16,4) HF(HalfV1,1) HF(HalfV2,2) HF(HalfV3,3) HF(HalfV4,4)
inline u64 H_Half1x16::packw(const float* x){ return glm::packHalf1x16(x[0]); }
inline void H_Half1x16::unpackw(u64 w,float* o){ o[0]=glm::unpackHalf1x16((glm::uint16)w); }
inline u64 H_Half2x16::packw(const float* x){ return glm::packHalf2x16(glm::vec2(x[0],x[1])); }
inline void H_Half2x16::unpackw(u64 w,float* o){ glm::vec2 v=glm::unpackHalf2x16((glm::uint)w); o[0]=v.x; o[1]=v.y; }
inline u64 H_Half4x16::packw(const float* x){ return glm::packHalf4x16(glm::vec4(x[0],x[1],x[2],x[3])); }
inline void H_Half4x16::unpackw(u64 w,float* o){ glm::vec4 v=glm::unpackHalf4x16((glm::uint64)w); for(int i=0;i<4;i++) o[i]=v[i]; }
template<int L,glm::qualifier Q> static u64 halfv_pack(const float* x){ glm::vec<L,float,Q> v; for(int i=0;i<L;i++) v[i]=x[i]; glm::vec<L,glm::uint16,Q> p=glm::packHalf(v); u64 w=0; for(int i=0;i<L;i++) w|=(u64)p[i]<<(16*i); return w; }
template<int L,glm::qualifier Q> static void halfv_unpack(u64 w,float* o){ glm::vec<L,glm::uint16,Q> p; for(int i=0;i<L;i++) p[i]=(glm::uint16)(w>>(16*i)); glm::vec<L,float,Q> v=glm::unpackHalf(p); for(int i=0;i<L;i++) o[i]=v[i]; }
inline u64 H_HalfV1::packw(const float* x){ return halfv_pack<1,glm::highp>(x); }   inline void H_HalfV1::unpackw(u64 w,float* o){ halfv_unpack<1,glm::highp>(w,o); }
inline u64 H_HalfV2::packw(const float* x){ return halfv_pack<2,glm::mediump>(x); } inline void H_HalfV2::unpackw(u64 w,float* o){ halfv_unpack<2,glm::mediump>(w,o); }
inline u64 H_HalfV3::packw(const float* x){ return halfv_pack<3,glm::lowp>(x); }    inline void H_HalfV3::unpackw(u64 w,float* o){ halfv_unpack<3,glm::lowp>(w,o); }
inline u64 H_HalfV4::packw(const float* x){ return halfv_pack<4,glm::highp>(x); }   inline void H_HalfV4::unpackw(u64 w,float* o){ halfv_unpack<4,glm::highp>(w,o); }

// exact value of a finite half code (own decoder, IEEE binary16)
static inline double half_val(u32 h){ u32 e=(h>>10)&31, m=h&0x3ff; double v= e==0? std::ldexp((double)m,-24): std::ldexp((double)(1024+m),(int)e-25); return (h&0x8000)? -v: v; }
template<class F> static void k_half_roundtrip(const InW& in,vf::Ctx& c){
	const int N=F::N; u32 code[4]={0,0,0,0}; for(int k=0;k<N;k++) code[k]=in.code[k]&0xffffu;
	u64 w=join<F>(code); float v[4]={0,0,0,0}, v2[4]={0,0,0,0}; F::unpackw(w,v); u64 w2=F::packw(v); F::unpackw(w2,v2); u32 code2[4]; split<F>(w2,code2);
	for(int k=0;k<N;k++){
		u32 e=(code[k]>>10)&31, m=code[k]&0x3ff; bool fin=e<31; const char* cc= fin? (e==0? (m? "subnormal-code":"zero-code"):"normal-code"): (m? "nan-code":"inf-code");
		lcls(cc);
		float want=glm::unpackHalf1x16((glm::uint16)code[k]);      // consistency with the scalar function (itself monitored by C07)
		if(!same(v[k],want)) LFAIL(c,std::string(COMP[k])+":"+cc+":differs-from-unpackHalf1x16(field)",vf::show(v[k]),vf::show(want));
		if(fin && (double)v[k]!=half_val(code[k])) LFAIL(c,std::string(COMP[k])+":"+cc+":decode-wrong-value",vf::show(v[k]),vf::show(half_val(code[k])));
		if(!fin && m==0 && !(isinf_b(v[k]) && signbit_b(v[k])==(bool)(code[k]>>15))) LFAIL(c,std::string(COMP[k])+":inf-code:not-decoded-to-inf",vf::show(v[k]),"inf of the code's sign");
		if(!fin && m!=0 && !isnan_b(v[k])) LFAIL(c,std::string(COMP[k])+":nan-code:not-decoded-to-nan",vf::show(v[k]),"NaN");
		if(fin && code2[k]!=code[k]) LFAIL(c,std::string(COMP[k])+":finite:"+cc+":repack-changed-code",vf::show(code2[k]),vf::show(code[k]));
		if(!same(v2[k],v[k])) LFAIL(c,std::string(COMP[k])+":"+cc+":unpack-pack-unpack-differs",vf::show(v2[k]),vf::show(v[k]));
	}
}
// pack side: field k == packHalf1x16(component k); finite inputs: in range -> decoded within one mantissa step; out of range -> end of range (max finite or inf), never NaN / wrapped
template<class F> static void k_half_pack(const InXf& in,vf::Ctx& c){
	const int N=F::N; float x[4]={0,0,0,0}; for(int k=0;k<N;k++) x[k]=in.x[k];
	u64 w=F::packw(x); u32 code[4]; split<F>(w,code);
	if constexpr(N*16<64) if(w>>(N*16)) LFAIL(c,"pack:bits-above-the-top-field",vf::show((unsigned long long)w),"zero");
	for(int k=0;k<N;k++){
		u32 want=glm::packHalf1x16(x[k]);
		if(code[k]!=want) LFAIL(c,std::string(COMP[k])+":field-differs-from-packHalf1x16(component)",vf::show(code[k]),vf::show(want));
		if(!isfinite_b(x[k])) continue;
		u32 mag=code[k]&0x7fff; bool sgn=code[k]>>15; double ax=std::fabs((double)x[k]);
		if(ax>65504.0){ lcls("above-range");
			if(!(mag==0x7bff||mag==0x7c00)) LFAIL(c,std::string(COMP[k])+":above-range:"+(mag>0x7c00?"nan-code":"not-clamped-to-max-or-inf"),vf::show(code[k]),"0x7bff or 0x7c00 with the input's sign");
			else if(sgn!=signbit_b(x[k])) LFAIL(c,std::string(COMP[k])+":above-range:sign-wrong",vf::show(code[k]),"sign of the input");
		} else { lcls("in-range");
			int ex; std::frexp(ax,&ex); double step= ax<std::ldexp(1.0,-14)? std::ldexp(1.0,-24): std::ldexp(1.0,ex-1-10);
			if(mag>0x7c00){ LFAIL(c,std::string(COMP[k])+":in-range:nan-code",vf::show(code[k]),"finite code"); continue; }
			double d= mag==0x7c00? INFINITY: half_val(code[k]); double err=std::fabs(d-(double)x[k]);
			lratio("err/mantissa-step",err/step);
			if(!(err<=step)) LFAIL(c,std::string(COMP[k])+":in-range:decoded-beyond-one-mantissa-step",vf::show(d),vf::show(x[k]));
		}
	}
}
#define DEF_HALF(NAME) VF_OP(NAME##_roundtrip, InW, "uuuu"){ k_half_roundtrip<H_##NAME>(in,c); } VF_OP(NAME##_pack, InXf, "ffff"){ k_half_pack<H_##NAME>(in,c); }
DEF_HALF(Half1x16) DEF_HALF(Half2x16) DEF_HALF(Half4x16) DEF_HALF(HalfV1) DEF_HALF(HalfV2) DEF_HALF(HalfV3) DEF_HALF(HalfV4)

static float gen_half_in(vf::Rng& r){
	const std::vector<float>& L=finite_lattice(); float x;
	switch((int)r.below(8)){
		case 0: x=(float)r.logmag(-30,20); break;
		case 1: x=(float)r.uniform(-70000,70000); break;
		case 2: x=(float)r.uniform(65000,140000)*(r.coin()?1.f:-1.f); break;        // the band around and above the largest half
		case 3: { static const float b[8]={65504.f,65519.996f,65520.f,65536.f,131071.99f,131072.f,262144.f,1e6f}; x=stepulp(b[r.below(8)],r.range(-2,2))*(r.coin()?1.f:-1.f); } break;
		case 4: x=L[r.below(L.size())]; break;
		case 5: x=(float)half_val((u32)r.below(0x7c00))*(r.coin()?1.f:-1.f); x=stepulp(x,r.range(-1,1)); break;
		case 6: x=(float)r.logmag(-26,-13); break;
		default: x=r.fbits(); break;   // any pattern (non-finite ones only get the field-consistency check)
	}
	return x;
}
template<class F> static void drive_half(const char* nm,vf::Op& RT,vf::Op& PK){
	const int N=F::N; const std::string L=nm;
	if(vf::want(RT)){
		for(int k=0;k<N;k++){ const std::string lk=L+".rt.f"+std::to_string(k);
			SWEEP(lk,65536ULL*3,4096,[&](vf::Ctx& c,u64 lo,u64 hi){ vf::Rng r(mixseed(lk,lo)); for(u64 i=lo;i<hi;i++){ InW in{}; int ctx=(int)(i>>16); for(int j=0;j<N;j++) in.code[j]= ctx==0? 0u: ctx==1? 0xffffu: (r.u32_()&0xffffu); in.code[k]=(u32)(i&0xffff); vf::run(c,RT,in);} }); }
		const u64 n=vf::N(100000,5000000);
		PAR(L+".rt.rnd",[&](int t,int TT,vf::Ctx& c){ for(u64 i=t;i<n;i+=TT){ InW in{}; for(int j=0;j<N;j++) in.code[j]=c.rng.u32_()&0xffffu; vf::run(c,RT,in);} });
	}
	if(vf::want(PK)){
		const std::vector<float>& LT=finite_lattice();
		SWEEP(L+".pk.lat",LT.size()*N,64,[&](vf::Ctx& c,u64 lo,u64 hi){ vf::Rng r(mixseed(L+".pk.lat",lo)); for(u64 i=lo;i<hi;i++){ InXf in{}; for(int q=0;q<N;q++) in.x[q]=gen_half_in(r); in.x[i/LT.size()]=LT[i%LT.size()]; vf::run(c,PK,in);} });
		const u64 n=vf::N(300000,20000000);
		PAR(L+".pk.rnd",[&](int t,int TT,vf::Ctx& c){ for(u64 i=t;i<n;i+=TT){ InXf in{}; for(int q=0;q<N;q++) in.x[q]=gen_half_in(c.rng); vf::run(c,PK,in);} });
	}
}

// ================================================================ F2x11_1x10 : two unsigned 11-bit floats (5e6m) and one unsigned 10-bit float (5e5m)
struct SF3 { static int width(int k){ static const int w[4]={11,11,10,0}; return w[k]; } enum{ N=3 }; };
static inline int sf_mb(int k){ return k==2? 5: 6; }
// value of a finite code under the OpenGL definition (e==0: denormal) and under the "no denormals" reading (e==0: 2^-15*(1+m/2^mb))
static inline double sf_val_gl(int mb,u32 code){ u32 e=code>>mb, m=code&((1u<<mb)-1); return e==0? std::ldexp((double)m,-14-mb): std::ldexp((double)((1u<<mb)+m),(int)e-15-mb); }
static inline double sf_val_nd(int mb,u32 code){ u32 e=code>>mb, m=code&((1u<<mb)-1); return std::ldexp((double)((1u<<mb)+m),(int)e-15-mb); }
static inline double sf_maxfinite(int mb){ return sf_val_gl(mb,(30u<<mb)|((1u<<mb)-1)); }
static inline double sf_step(int mb,double ax){ if(ax<std::ldexp(1.0,-14)) return std::ldexp(1.0,-14-mb); int ex; std::frexp(ax,&ex); return std::ldexp(1.0,ex-1-mb); }
// is code c (finite) within one mantissa step of ax under either reading of the e==0 codes?
static inline bool sf_near(int mb,u32 c,double ax,double* errsteps){ if((c>>mb)==31) return false; double st=sf_step(mb,ax); double e1=std::fabs(sf_val_gl(mb,c)-ax), e2=std::fabs(sf_val_nd(mb,c)-ax); double e=std::min(e1,(c>>mb)==0&&c!=0? e2: e1); if(errsteps) *errsteps=e/st; return e<=st; }

VF_OP(F2x11_1x10_roundtrip, InW, "uuuu"){
	u32 code[4]={0,0,0,0}; for(int k=0;k<3;k++) code[k]=in.code[k]&(u32)fmask<SF3>(k);
	u32 w=(u32)join<SF3>(code); glm::vec3 v=glm::unpackF2x11_1x10(w); u32 w2=glm::packF2x11_1x10(v); glm::vec3 v2=glm::unpackF2x11_1x10(w2); u32 code2[4]; split<SF3>(w2,code2);
	bool higher_nz[3]={ (code[1]|code[2])!=0, code[2]!=0, false };
	for(int k=0;k<3;k++){
		int mb=sf_mb(k); u32 e=code[k]>>mb, m=code[k]&((1u<<mb)-1); float g=v[k];
		const char* cc= e==31? (m? "nan-code":"inf-code"): e==0? (m? "e=0-code":"zero-code"): "normal-code"; lcls(cc);
		const char* ctx= higher_nz[k]? ":higher-fields-nonzero": ":higher-fields-zero";
		auto how=[&](float y)->std::string{ if(isnan_b(y)) return "decodes-to-nan"; if(isinf_b(y)) return "decodes-to-inf"; if(y==-1.0f) return "decodes-to-minus-one"; if(y==0.0f) return "decodes-to-zero"; return y<0? "decodes-to-negative": "decodes-to-finite-value"; };
		if(e==31 && m==0){ if(!(isinf_b(g)&&!signbit_b(g))) LFAIL(c,std::string(COMP[k])+":inf-code:"+how(g)+ctx,vf::show(g),"+inf"); }
		else if(e==31){ if(!isnan_b(g)) LFAIL(c,std::string(COMP[k])+":nan-code:"+how(g)+ctx,vf::show(g),"NaN"); }
		else if(e==0 && m==0){ if(!(g==0.0f)) LFAIL(c,std::string(COMP[k])+":zero-code:"+(g==std::ldexp(1.0f,-15)? "decodes-to-2^-15": how(g).c_str())+ctx,vf::show(g),"0"); }
		else if(e==0){ if(!((double)g==sf_val_gl(mb,code[k])||(double)g==sf_val_nd(mb,code[k]))) LFAIL(c,std::string(COMP[k])+":e=0-code:wrong-value",vf::show(g),vf::show(sf_val_nd(mb,code[k]))+" or "+vf::show(sf_val_gl(mb,code[k]))); }
		else { if((double)g!=sf_val_gl(mb,code[k])) LFAIL(c,std::string(COMP[k])+":normal-code:wrong-value",vf::show(g),vf::show(sf_val_gl(mb,code[k]))); }
		if(e<31 && code2[k]!=code[k]) LFAIL(c,std::string(COMP[k])+":finite:"+cc+":repack-changed-code",vf::show(code2[k]),vf::show(code[k]));
		if(!same(v2[k],g)) LFAIL(c,std::string(COMP[k])+":"+cc+":unpack-pack-unpack-differs"+ctx,vf::show(v2[k]),vf::show(g));
	}
}
VF_OP(F2x11_1x10_quantise, InXf, "ffff"){
	glm::vec3 x(in.x[0],in.x[1],in.x[2]); u32 w=glm::packF2x11_1x10(x); u32 code[4]; split<SF3>(w,code);
	for(int k=0;k<3;k++){
		if(!isfinite_b(in.x[k])) continue;
		int mb=sf_mb(k); u32 cd=code[k], e=cd>>mb, maxc=(30u<<mb)|((1u<<mb)-1); double xv=(double)in.x[k], mx=sf_maxfinite(mb), r=0;
		std::string P=std::string(COMP[k])+":";
		if(xv<0){ lcls("negative"); if(!(cd<=1)) LFAIL(c,P+"negative:"+(sf_near(mb,cd,-xv,nullptr)? "encodes-the-magnitude":"neither-zero-nor-smallest-code"),vf::show(cd),"0 or 1"); }
		else if(xv==0){ lcls("zero"); if(!(cd<=1)) LFAIL(c,P+"zero:nonzero-code",vf::show(cd),"0"); }
		else if(xv<std::ldexp(1.0,-14)){ lcls("sub-minimum-normal"); if(!(cd<=1||sf_near(mb,cd,xv,&r))) LFAIL(c,P+"below-2^-14:"+(e==31?"inf-or-nan-code":"exponent-wrapped"),vf::show(cd)+" = "+vf::show(sf_val_gl(mb,cd)),"0, 1 or a code within 2^"+std::to_string(-14-mb)+" of x"); }
		else if(xv<=mx){ lcls("in-range"); bool ok=sf_near(mb,cd,xv,&r); lratio("err/mantissa-step(truncation<1)",r); if(!ok) LFAIL(c,P+"in-range:"+(e==31?"inf-or-nan-code":"beyond-one-mantissa-step"),vf::show(cd)+(e==31?"":" = "+vf::show(sf_val_gl(mb,cd))),"a finite code within one mantissa step of x"); }
		else { lcls("above-max"); if(cd!=maxc) LFAIL(c,P+"above-max:"+(e==31?"inf-or-nan-code":"exponent-wrapped"),vf::show(cd),vf::show(maxc)+" (largest finite code)"); }
	}
}
VF_OP(F2x11_1x10_monotone, InMf, "ff"){
	if(!isfinite_b(in.a)||!isfinite_b(in.b)) return; float a=std::min(in.a,in.b), b=std::max(in.a,in.b);
	for(int k=0;k<3;k++){
		int mb=sf_mb(k); glm::vec3 xa(0.f), xb(0.f); xa[k]=a; xb[k]=b; u32 ca[4],cb[4]; split<SF3>(glm::packF2x11_1x10(xa),ca); split<SF3>(glm::packF2x11_1x10(xb),cb);
		const char* reg= a<0? "negative-operand": (double)b>sf_maxfinite(mb)? "above-max-operand": (a!=0 && (double)a<std::ldexp(1.0,-14))? "below-2^-14-operand": "in-range";
		lcls(reg);
		if(ca[k]>cb[k]) LFAIL(c,std::string(COMP[k])+":"+reg+":order-reversed",vf::show(cb[k])+" for the larger input",">= "+vf::show(ca[k]));
	}
}
VF_OP(F2x11_1x10_layout, InXf, "ffff"){
	float x[3]; for(int k=0;k<3;k++) x[k]= (isfinite_b(in.x[k])&&in.x[k]>=0)? in.x[k]: 0.5f;
	u32 wall=glm::packF2x11_1x10(glm::vec3(x[0],x[1],x[2])), acc=0;
	for(int k=0;k<3;k++){ glm::vec3 s(0.f); s[k]=x[k]; u32 wk=glm::packF2x11_1x10(s), mk=(u32)(fmask<SF3>(k)<<foff<SF3>(k)); acc|=wk;
		if(wk&~mk) LFAIL(c,std::string(COMP[k])+":single-component:bits-outside-its-field",vf::show(wk),"only bits of mask "+vf::show(mk));
		if(x[k]>=std::ldexp(1.0f,-14) && x[k]<65024.f && (wk&mk)==0) LFAIL(c,std::string(COMP[k])+":single-component:its-field-empty",vf::show(wk),"non-zero bits in mask "+vf::show(mk)); }
	if(acc!=wall) LFAIL(c,"pack:word-differs-from-or-of-single-component-words",vf::show(wall),vf::show(acc));
}

static float gen_sf(vf::Rng& r,int k){
	const std::vector<float>& L=finite_lattice(); int mb=sf_mb(k); float x;
	switch((int)r.below(10)){
		case 0: case 1: { u32 cd=(u32)r.below(31u<<mb); x=stepulp((float)sf_val_gl(mb,cd<(1u<<mb)? cd|(1u<<mb): cd),r.range(-2,2)); } break;   // exact normal code values +- ulps
		case 2: x=(float)std::fabs(r.logmag(-14,16)); break;
		case 3: x=(float)std::fabs(r.logmag(-24,-13)); break;
		case 4: x=(float)std::fabs(r.logmag(-149,-14)); break;
		case 5: x=(float)std::fabs(r.logmag(15,127)); break;
		case 6: x=(float)r.logmag(-20,20); break;                       // either sign
		case 7: x=L[r.below(L.size())]; break;
		case 8: { static const float b[8]={65024.f,64512.f,65536.f,131072.f,6.1035156e-5f,3.0517578e-5f,1.f,0.f}; x=stepulp(b[r.below(8)],r.range(-2,2)); } break;
		default: x=(float)r.uniform(0.0,4.0); break;
	}
	return isfinite_b(x)? x: 1.0f;
}

// ================================================================ F3x9_E1x5 (RGB9E5): three 9-bit mantissas, shared 5-bit exponent (bias 15), value = m * 2^(e-15-9)
struct SE4 { static int width(int k){ static const int w[4]={9,9,9,5}; return w[k]; } enum{ N=4 }; };
static const double RGB9E5_MAX=65408.0;      // 511/512 * 2^16
VF_OP(F3x9_E1x5_roundtrip, InW, "uuuu"){
	u32 code[4]; for(int k=0;k<4;k++) code[k]=in.code[k]&(u32)fmask<SE4>(k);
	u32 w=(u32)join<SE4>(code); glm::vec3 v=glm::unpackF3x9_E1x5(w); u32 w2=glm::packF3x9_E1x5(v); glm::vec3 v2=glm::unpackF3x9_E1x5(w2);
	u32 mm=std::max(code[0],std::max(code[1],code[2])), e=code[3]; bool canon= e==0 || mm>=256; double vmax=std::ldexp((double)mm,(int)e-24);
	const char* cc= canon? (vmax>32768.0? "canonical:value>32768": "canonical"): "non-canonical"; lcls(cc);
	for(int k=0;k<3;k++){ double want=std::ldexp((double)code[k],(int)e-24); if((double)v[k]!=want) LFAIL(c,std::string(COMP[k])+":decode:differs-from-m*2^(e-24)",vf::show(v[k]),vf::show(want)); }
	if(canon && w2!=w){ u32 c2[4]; split<SE4>(w2,c2); LFAIL(c,std::string(cc)+":repack-changed-word"+(c2[3]!=e?"(exponent)":"(mantissa)"),vf::show(w2),vf::show(w)); }
	for(int k=0;k<3;k++) if(!same(v2[k],v[k])) LFAIL(c,std::string(COMP[k])+":"+(vmax>32768.0? "value>32768": "value<=32768")+":unpack-pack-unpack-differs",vf::show(v2[k]),vf::show(v[k]));
}
// exponent the format assigns to a maximum component mc (0 <= mc <= 65408): max(-16, floor(log2 mc)) + 16
static inline int rgb9e5_exp(double mc){ if(!(mc>0)) return 0; int ex; std::frexp(mc,&ex); int fl=ex-1; return std::max(-16,fl)+16; }
VF_OP(F3x9_E1x5_quantise, InXf, "ffff"){
	for(int k=0;k<3;k++) if(!isfinite_b(in.x[k])) return;
	u32 w=glm::packF3x9_E1x5(glm::vec3(in.x[0],in.x[1],in.x[2])); u32 code[4]; split<SE4>(w,code);
	double cl[3], mc=0; for(int k=0;k<3;k++){ double x=(double)in.x[k]; cl[k]= x<0? 0: x>RGB9E5_MAX? RGB9E5_MAX: x; mc=std::max(mc,cl[k]); }
	int ec=rgb9e5_exp(mc); double step=std::ldexp(1.0,ec-24);        // one mantissa step at the exponent of the largest component
	for(int k=0;k<3;k++){
		double x=(double)in.x[k], d=std::ldexp((double)code[k],(int)code[3]-24), err=std::fabs(d-cl[k]);
		const char* reg= x<0? "negative": x>RGB9E5_MAX? "above-65408": x>32768.0? "in-range:32768<x<=65408": "in-range"; lcls(reg);
		const double tol=1+std::ldexp(1.0,-10);       // float rounding of c/2^j+0.5f is < 2^-14 step; 2^-10 is a safety margin
		if(mc<=32768.0) lratio("err/mantissa-step",err/step);
		if(!(err<=step*tol)){
			std::string how= (x>32768.0 && d==32768.0)? "decodes-to-32768": x<0? "not-clamped-to-zero": (mc>32768.0 && cl[k]<=32768.0)? "beyond-one-mantissa-step(largest-component>32768)": "beyond-one-mantissa-step";
			LFAIL(c,std::string(COMP[k])+":"+reg+":"+how,vf::show(d),vf::show(cl[k])+" +- "+vf::show(step));
		}
	}
}
VF_OP(F3x9_E1x5_monotone, InMf, "ff"){
	if(!isfinite_b(in.a)||!isfinite_b(in.b)) return; float a=std::min(in.a,in.b), b=std::max(in.a,in.b);
	for(int k=0;k<3;k++){ glm::vec3 xa(0.f), xb(0.f); xa[k]=a; xb[k]=b; u32 ca[4],cb[4]; split<SE4>(glm::packF3x9_E1x5(xa),ca); split<SE4>(glm::packF3x9_E1x5(xb),cb);
		double da=std::ldexp((double)ca[k],(int)ca[3]-24), db=std::ldexp((double)cb[k],(int)cb[3]-24);
		if(da>db) LFAIL(c,std::string(COMP[k])+":"+(b>32768.f?"operand>32768":a<0?"negative-operand":"in-range")+":order-reversed",vf::show(db)+" for the larger input",">= "+vf::show(da)); }
}
VF_OP(F3x9_E1x5_layout, InXf, "ffff"){
	for(int k=0;k<3;k++){ float xv= (isfinite_b(in.x[k])&&in.x[k]>0)? std::min(in.x[k],32768.f): 0.5f; glm::vec3 s(0.f); s[k]=xv; u32 w=glm::packF3x9_E1x5(s); u32 code[4]; split<SE4>(w,code);
		for(int j=0;j<3;j++) if(j!=k && code[j]!=0) LFAIL(c,std::string(COMP[k])+":single-component:mantissa-field-"+COMP[j]+"-nonzero",vf::show(w),"only mantissa field "+std::string(COMP[k])+" and the exponent field");
		if(xv>=std::ldexp(1.0f,-24) && code[k]==0) LFAIL(c,std::string(COMP[k])+":single-component:its-mantissa-field-empty",vf::show(w),"non-zero mantissa "+std::string(COMP[k]));
		// unpack side
		u32 one[4]={0,0,0,code[3]}; one[k]=code[k]; glm::vec3 o=glm::unpackF3x9_E1x5((u32)join<SE4>(one)); for(int j=0;j<3;j++) if(j!=k && o[j]!=0.f) LFAIL(c,std::string("unpack:mantissa-")+COMP[k]+"-only:component-"+COMP[j]+"-nonzero",vf::show(o[j]),"0"); }
}
static float gen_se(vf::Rng& r){
	const std::vector<float>& L=finite_lattice(); float x;
	switch((int)r.below(10)){
		case 0: case 1: { int e=r.range(0,31); double m= r.coin()? (double)r.range(255,512): (double)r.range(1020,1024)/2.0+ (r.coin()?0.25:0.0); x=stepulp((float)std::ldexp(m,e-24),r.range(-2,2)); } break;  // mantissa boundaries 255.5 .. 512 of every binade
		case 2: x=(float)std::fabs(r.logmag(-17,16)); break;
		case 3: x=(float)std::fabs(r.logmag(-30,-15)); break;
		case 4: x=(float)r.uniform(0,70000); break;
		case 5: x=(float)r.logmag(-10,20); break;
		case 6: x=L[r.below(L.size())]; break;
		case 7: { int e=r.range(-17,16); x=stepulp((float)std::ldexp(1.0,e),r.range(-3,3)); } break;                     // powers of two +- ulps (log2 rounding)
		case 8: { int e=r.range(-16,15); x=(float)std::ldexp(1.0-r.unit()*0.002,e+1); } break;                         // just below a power of two: mantissa rounds to 512
		default: x=(float)r.uniform(0.0,2.0); break;
	}
	return isfinite_b(x)? x: 1.0f;
}

// ================================================================ RGBM (float vectors, not a bit format): unpackRGBM(packRGBM(c)) == c within rounding, M is a multiple of 1/255 in [1/255,1]
template<class T> struct InC { T x[4]; };
template<class T> static void k_rgbm(const InC<T>& in,vf::Ctx& c){
	glm::vec<3,T,glm::defaultp> rgb(in.x[0],in.x[1],in.x[2]); for(int k=0;k<3;k++) if(!isfinite_b(in.x[k])||in.x[k]<0) return;
	glm::vec<4,T,glm::defaultp> p=glm::packRGBM(rgb); glm::vec<3,T,glm::defaultp> back=glm::unpackRGBM(p);
	const long double u=uround<T>(); T mx=std::max(in.x[0],std::max(in.x[1],in.x[2]));
	lcls(mx>(T)6? "max>6(M saturates)": "max<=6");
	for(int k=0;k<3;k++){ long double err=fabsl((long double)back[k]-(long double)in.x[k]), bound=9*u*fabsl((long double)in.x[k]);   // 5 roundings (1/6 constant, *, /, *, *) + 4
		if(bound>0) lratio("err/bound(9u)",(double)(err/bound));
		if(!(err<=bound)) LFAIL(c,std::string(COMP[k])+":unpack(pack(c))-differs-from-c-beyond-rounding",vf::show(back[k]),vf::show(in.x[k])); }
	long double m255=(long double)p.w*255.0L, near=std::round((double)m255);
	if(!(fabsl(m255-near)<=4*u*255 && near>=1 && near<=255)) LFAIL(c,"M:not-a-multiple-of-1/255-in[1/255,1]",vf::show(p.w),"k/255, k=1..255");
	if(mx<=(T)6) for(int k=0;k<3;k++) if(!((long double)p[k]<=1+8*u)) LFAIL(c,std::string(COMP[k])+":max<=6:stored-colour-above-one",vf::show(p[k]),"<= 1");
}
VF_OP(RGBM_float, InC<float>, "ffff"){ k_rgbm<float>(in,c); }
VF_OP(RGBM_double, InC<double>, "dddd"){ k_rgbm<double>(in,c); }

// ================================================================ workload
static void workload(){
	if(vf::registry().size()>=(size_t)MAXOPS){ fprintf(stderr,"MAXOPS too small\n"); exit(2); }
	const bool th=vf::thorough(); const u64 seed=vf::cfg().seed;
#define DI(NAME) drive_words<I_##NAME>(#NAME,NAME##_roundtrip);
	DI(Int2x8) DI(Uint2x8) DI(Int4x8) DI(Uint4x8) DI(Int2x16) DI(Uint2x16) DI(Int4x16) DI(Uint4x16) DI(Int2x32) DI(Uint2x32) DI(I3x10_1x2) DI(U3x10_1x2) DI(Double2x32)
#define DH(NAME) drive_half<H_##NAME>(#NAME,NAME##_roundtrip,NAME##_pack);
	DH(Half1x16) DH(Half2x16) DH(Half4x16) DH(HalfV1) DH(HalfV2) DH(HalfV3) DH(HalfV4)
	// ---- F2x11_1x10
	drive_words<SF3>("F2x11_1x10",F2x11_1x10_roundtrip);
	const std::vector<float>& LT=finite_lattice();
	if(vf::want(F2x11_1x10_quantise)){
		for(int k=0;k<3;k++){ int mb=sf_mb(k); const std::string lk="F2x11.q.f"+std::to_string(k); u64 nc=32ULL<<mb;
			SWEEP(lk,nc,64,[&](vf::Ctx& c,u64 lo,u64 hi){ vf::Rng r(mixseed(lk,lo)); for(u64 i=lo;i<hi;i++){ double v0=sf_val_nd(mb,(u32)i);      // every code value incl. the e==0 and e==31 rows of the table, +- ulps, and midpoints
				for(int j=-2;j<=2;j++){ InXf in{}; for(int q=0;q<3;q++) in.x[q]=gen_sf(r,q); in.x[k]=stepulp((float)v0,j); vf::run(c,F2x11_1x10_quantise,in); }
				{ InXf in{}; for(int q=0;q<3;q++) in.x[q]=gen_sf(r,q); in.x[k]=(float)(v0*(1.0+0.5/(double)(1u<<mb))); vf::run(c,F2x11_1x10_quantise,in); }
				{ InXf in{}; for(int q=0;q<3;q++) in.x[q]=gen_sf(r,q); in.x[k]=-(float)v0; vf::run(c,F2x11_1x10_quantise,in); } } }); }
		SWEEP("F2x11.q.lat",LT.size()*3,64,[&](vf::Ctx& c,u64 lo,u64 hi){ vf::Rng r(mixseed("F2x11.q.lat",lo)); for(u64 i=lo;i<hi;i++){ InXf in{}; for(int q=0;q<3;q++) in.x[q]=gen_sf(r,q); in.x[i/LT.size()]=LT[i%LT.size()]; vf::run(c,F2x11_1x10_quantise,in);} });
		const u64 n=vf::N(400000,20000000);
		PAR("F2x11.q.rnd",[&](int t,int TT,vf::Ctx& c){ for(u64 i=t;i<n;i+=TT){ InXf in{}; for(int q=0;q<3;q++) in.x[q]=gen_sf(c.rng,q); vf::run(c,F2x11_1x10_quantise,in);} });
	}
	if(vf::want(F2x11_1x10_monotone)){
		SWEEP("F2x11.m.codes",32ULL<<6,64,[&](vf::Ctx& c,u64 lo,u64 hi){ for(u64 i=lo;i<hi;i++){ for(int mb=5;mb<=6;mb++){ if(i>=(32ULL<<mb)) continue; float v0=(float)sf_val_nd(mb,(u32)i);
			for(int j=-2;j<=1;j++){ InMf in{}; in.a=stepulp(v0,j); in.b=stepulp(v0,j+1); vf::run(c,F2x11_1x10_monotone,in); } } } });
		const u64 n=vf::N(200000,10000000);
		PAR("F2x11.m.rnd",[&](int t,int TT,vf::Ctx& c){ for(u64 i=t;i<n;i+=TT){ InMf in{}; in.a=gen_sf(c.rng,(int)c.rng.below(3)); in.b= c.rng.coin()? gen_sf(c.rng,(int)c.rng.below(3)): stepulp(in.a,c.rng.range(-64,64)); vf::run(c,F2x11_1x10_monotone,in);} });
	}
	if(vf::want(F2x11_1x10_layout)){ const u64 n=vf::N(100000,5000000);
		PAR("F2x11.lay",[&](int t,int TT,vf::Ctx& c){ for(u64 i=t;i<n;i+=TT){ InXf in{}; for(int q=0;q<3;q++) in.x[q]=gen_sf(c.rng,q); vf::run(c,F2x11_1x10_layout,in);} }); }
	// ---- F3x9_E1x5
	if(vf::want(F3x9_E1x5_roundtrip)){
		if(th){ const u64 xs=xstride(), ph= xs>1? (seed*2654435761ULL)%xs: 0;
			SWEEP("F3x9.rt.all",(1ULL<<32)/xs,1u<<16,[&](vf::Ctx& c,u64 lo,u64 hi){ for(u64 i=lo;i<hi;i++){ InW in{}; split<SE4>(i*xs+ph,in.code); vf::run(c,F3x9_E1x5_roundtrip,in);} }); }
		else {
			// every (mantissa code, exponent) of each mantissa field, other mantissas in {0, 511, random, random below this one}
			for(int k=0;k<3;k++){ const std::string lk="F3x9.rt.f"+std::to_string(k);
				SWEEP(lk,512ULL*32*4,4096,[&](vf::Ctx& c,u64 lo,u64 hi){ vf::Rng r(mixseed(lk,lo)); for(u64 i=lo;i<hi;i++){ InW in{}; u32 m=(u32)(i&511), e=(u32)((i>>9)&31); int ctx=(int)(i>>14);
					for(int j=0;j<3;j++) in.code[j]= ctx==0? 0u: ctx==1? 511u: ctx==2? (u32)r.below(512): (u32)r.below(m+1); in.code[k]=m; in.code[3]=e; vf::run(c,F3x9_E1x5_roundtrip,in);} }); }
			const u64 n=vf::N(1000000,1000000);
			PAR("F3x9.rt.rnd",[&](int t,int TT,vf::Ctx& c){ for(u64 i=t;i<n;i+=TT){ InW in{}; split<SE4>((u64)c.rng.u32_(),in.code); vf::run(c,F3x9_E1x5_roundtrip,in);} });
		}
	}
	if(vf::want(F3x9_E1x5_quantise)){
		// every canonical (mantissa, exponent) value and the midpoints to the next mantissa, +- ulps, in each position
		for(int k=0;k<3;k++){ const std::string lk="F3x9.q.f"+std::to_string(k);
			SWEEP(lk,512ULL*32,256,[&](vf::Ctx& c,u64 lo,u64 hi){ vf::Rng r(mixseed(lk,lo)); for(u64 i=lo;i<hi;i++){ int m=(int)(i&511), e=(int)(i>>9);
				for(int hlf=0;hlf<2;hlf++) for(int j=-1;j<=1;j++){ InXf in{}; float v0=stepulp((float)std::ldexp((double)m+0.5*hlf,e-24),j); for(int q=0;q<3;q++) in.x[q]= r.coin()? gen_se(r): (float)(r.unit()*v0); in.x[k]=v0; vf::run(c,F3x9_E1x5_quantise,in); } } }); }
		SWEEP("F3x9.q.lat",LT.size()*3,64,[&](vf::Ctx& c,u64 lo,u64 hi){ vf::Rng r(mixseed("F3x9.q.lat",lo)); for(u64 i=lo;i<hi;i++){ InXf in{}; for(int q=0;q<3;q++) in.x[q]=gen_se(r); in.x[i/LT.size()]=LT[i%LT.size()]; vf::run(c,F3x9_E1x5_quantise,in);} });
		const u64 n=vf::N(500000,30000000);
		PAR("F3x9.q.rnd",[&](int t,int TT,vf::Ctx& c){ for(u64 i=t;i<n;i+=TT){ InXf in{}; float a=gen_se(c.rng); int md=(int)c.rng.below(3); for(int q=0;q<3;q++) in.x[q]= md==0? gen_se(c.rng): md==1? (float)(c.rng.unit()*a): 0.f; in.x[c.rng.below(3)]=a; vf::run(c,F3x9_E1x5_quantise,in);} });
	}
	if(vf::want(F3x9_E1x5_monotone)){
		SWEEP("F3x9.m.codes",512ULL*32,256,[&](vf::Ctx& c,u64 lo,u64 hi){ for(u64 i=lo;i<hi;i++){ int m=(int)(i&511), e=(int)(i>>9); float t0=(float)std::ldexp((double)m+0.5,e-24);
			for(int j=-2;j<=1;j++){ InMf in{}; in.a=stepulp(t0,j); in.b=stepulp(t0,j+1); vf::run(c,F3x9_E1x5_monotone,in); } } });
		const u64 n=vf::N(200000,10000000);
		PAR("F3x9.m.rnd",[&](int t,int TT,vf::Ctx& c){ for(u64 i=t;i<n;i+=TT){ InMf in{}; in.a=gen_se(c.rng); in.b= c.rng.coin()? gen_se(c.rng): stepulp(in.a,c.rng.range(-64,64)); vf::run(c,F3x9_E1x5_monotone,in);} });
	}
	if(vf::want(F3x9_E1x5_layout)){ const u64 n=vf::N(100000,5000000);
		PAR("F3x9.lay",[&](int t,int TT,vf::Ctx& c){ for(u64 i=t;i<n;i+=TT){ InXf in{}; for(int q=0;q<3;q++) in.x[q]=gen_se(c.rng); vf::run(c,F3x9_E1x5_layout,in);} }); }
	// ---- RGBM
	{ const u64 n=vf::N(300000,20000000);
		if(vf::want(RGBM_float)) PAR("rgbm.f",[&](int t,int TT,vf::Ctx& c){ for(u64 i=t;i<n;i+=TT){ InC<float> in{}; int md=(int)c.rng.below(4); for(int q=0;q<3;q++) in.x[q]= md==0? (float)c.rng.uniform(0,6): md==1? (float)c.rng.uniform(0,1100): md==2? (float)std::fabs(c.rng.logmag(-60,60)): (c.rng.below(4)? (float)c.rng.uniform(0,8): 0.f); vf::run(c,RGBM_float,in);} });
		if(vf::want(RGBM_double)) PAR("rgbm.d",[&](int t,int TT,vf::Ctx& c){ for(u64 i=t;i<n;i+=TT){ InC<double> in{}; int md=(int)c.rng.below(4); for(int q=0;q<3;q++) in.x[q]= md==0? c.rng.uniform(0,6): md==1? c.rng.uniform(0,1100): md==2? std::fabs(c.rng.logmag(-300,300)): (c.rng.below(4)? c.rng.uniform(0,8): 0.0); vf::run(c,RGBM_double,in);} });
	}
	vf::note("oracle","integer formats: exact against the monitor's layout table (component 0 = least significant bits, little endian); half: own binary16 decoder + consistency with packHalf1x16/unpackHalf1x16 (their conversion accuracy is C07's subject); F2x11_1x10: OpenGL unsigned 11/10-bit float table, codes with e=0 accepted under both the denormal and the no-denormal reading; F3x9_E1x5: RGB9E5 definition (max 65408, exponent of the largest component)");
	vf::note("domain","only finite, non-NaN inputs are judged for quantisation / clamping / monotonicity; RGBM: non-negative finite colours, magnitudes 2^-60..2^60 (float) / 2^-300..2^300 (double) or zero");
	(void)th; (void)seed;
}
VF_MAIN("C06_misc")
