// C09 — translate / rotate / scale / shear (+ _slow twins), gtx/transform, transform2, rotate_vector, rotate_normalized_axis,
// matrix_transform_2d, lookAt/RH/LH, decompose/recompose, axisAngle/axisAngleMatrix.
//
// Oracle: every builder is compared with  M * E  where E is the documented elementary matrix evaluated element-wise in wide
// arithmetic (W = long double for float, __float128 for double; products of two T values are exact in W).  The tolerance of
// result[c][r] = sum_k M[k][r] E[c][k]  is   SF * sum_k |M[k][r]| (dE[c][k] + kU u |E[c][k]|) + 4 denormal quanta,
// dE = first-order rounding-error bound of the *computed* elementary entry (sin/cos within 1 ulp, normalize (L/2+3)u, each
// further operation u), kU = roundings of the product/sum (4-term sum: <= 4u, +1 safety).  SF = 2.
// lookAt: compared entry-wise with the unique rigid transform of the statement (rows s,u,-+f; conditioning 1/sin(angle(up,view))),
// the violation is named by the first statement-level predicate that fails (orthonormal block, eye->0, view->-+z, up in +y half plane).
// decompose/recompose: matrix composed in W as P*T*R*K*S, rounded to T; recompose(decompose(M)) must equal M/M[3][3]
// (homogeneous normalisation performed by decompose) within a bound conditioned by the Gram-Schmidt cancellation ratios.
#include "vf.hpp"
#include "ref.hpp"
#include <glm/glm.hpp>
#include <glm/ext/matrix_transform.hpp>
#include <glm/gtc/matrix_transform.hpp>
#include <glm/gtc/quaternion.hpp>
#include <glm/gtx/transform.hpp>
#include <glm/gtx/transform2.hpp>
#include <glm/gtx/rotate_vector.hpp>
#include <glm/gtx/rotate_normalized_axis.hpp>
#include <glm/gtx/matrix_transform_2d.hpp>
#include <glm/gtx/matrix_decompose.hpp>
#include <glm/gtx/matrix_interpolation.hpp>
using namespace ref;

#ifdef GLM_FORCE_LEFT_HANDED
static const bool CONFIG_LH = true;
#else
static const bool CONFIG_LH = false;
#endif

// ---------------------------------------------------------------- wide arithmetic
extern "C" { __float128 sqrtq(__float128); __float128 sinq(__float128); __float128 cosq(__float128); __float128 acosq(__float128); }
static inline long double w_sqrt(long double x){ return sqrtl(x); }
static inline __float128 w_sqrt(__float128 x){ return sqrtq(x); }
static inline long double w_sin(long double x){ return sinl(x); }
static inline __float128 w_sin(__float128 x){ return sinq(x); }
static inline long double w_cos(long double x){ return cosl(x); }
static inline __float128 w_cos(__float128 x){ return cosq(x); }
static inline long double w_acos(long double x){ return acosl(x); }
static inline __float128 w_acos(__float128 x){ return acosq(x); }
template<class W> static inline W w_abs(W x){ return x<0? -x: x; }
template<class W> static inline W w_max(W a,W b){ return a>b? a: b; }

template<class T> struct Tr;
template<> struct Tr<float>{ typedef long double W; enum{ E2=80, EG=20 };
	static W u(){ return ldexpl(1.0L,-24); } static W tiny(){ return ldexpl(1.0L,-149); } static W p2(int e){ return ldexpl(1.0L,e); } };
template<> struct Tr<double>{ typedef __float128 W; enum{ E2=600, EG=100 };
	static W u(){ return (W)ldexpl(1.0L,-53); } static W tiny(){ return (W)ldexpl(1.0L,-1074); } static W p2(int e){ return (W)ldexpl(1.0L,e); } };
#define TRT typedef typename Tr<T>::W W; const W u=Tr<T>::u(); const W tiny=Tr<T>::tiny(); (void)u; (void)tiny;
static const double SF = 2.0;

static inline void rat(vf::Ctx& c,const char* n,double r){ if(!(r==r)) return; if(r>1e30) r=1e30; c.ratio(n,r); }
#define SKIP(why) do{ c.cls("skipped:" why); return; }while(0)

// input record: m = base matrix (column-major, 4x4 or 3x3 in the first 9 slots), p = parameters, k = sub-function selector
template<class T> struct In { T m[16]; T p[16]; int mode; int k; };
typedef In<float> In_f; typedef In<double> In_d;

template<class T> static bool finN(const T* p,int n,int emax){ for(int i=0;i<n;i++){ if(!isfinite_b(p[i])) return false; if(p[i]!=0 && std::fabs((double)p[i])>std::ldexp(1.0,emax)) return false; if(p[i]!=0 && std::fabs((double)p[i])<std::ldexp(1.0,-emax)) return false; } return true; }
template<class T> static typename Tr<T>::W n2of3(const T* p){ typedef typename Tr<T>::W W; return (W)p[0]*(W)p[0]+(W)p[1]*(W)p[1]+(W)p[2]*(W)p[2]; }
template<class T> static bool okn2(typename Tr<T>::W n2){ return n2>=Tr<T>::p2(-Tr<T>::E2) && n2<=Tr<T>::p2(Tr<T>::E2); }
template<class T,int N> static std::string smat(const T* g){ std::string s="["; for(int c=0;c<N;c++){ s+= c?" | ":""; for(int r=0;r<N;r++){ if(r) s+=", "; s+=vf::show(g[c*N+r]); } } return s+"]"; }
template<class T,int N,class W> static std::string swmat(const W* g){ T t[16]; for(int i=0;i<N*N;i++) t[i]=(T)g[i]; return smat<T,N>(t); }
template<class T,int N> static std::string svec(const T* g){ std::string s="("; for(int r=0;r<N;r++){ if(r) s+=", "; s+=vf::show(g[r]); } return s+")"; }
template<class T,int N,class W> static std::string swvec(const W* g){ T t[4]; for(int i=0;i<N;i++) t[i]=(T)g[i]; return svec<T,N>(t); }

// elementary matrix: E[col][row] and the error bound dE[col][row] of its computed entries
template<class T,int N> struct EM { typedef typename Tr<T>::W W; W E[N][N], dE[N][N];
	EM(){ for(int c=0;c<N;c++) for(int r=0;r<N;r++){ E[c][r]= c==r? W(1): W(0); dE[c][r]=0; } } };

template<class T,int N,class G> static void getm(const G& g,T* o){ for(int c=0;c<N;c++) for(int r=0;r<N;r++) o[c*N+r]=g[c][r]; }
template<class T,int N> static glm::mat<N,N,T,glm::defaultp> mkm(const T* p){ glm::mat<N,N,T,glm::defaultp> g; for(int c=0;c<N;c++) for(int r=0;r<N;r++) g[c][r]=p[c*N+r]; return g; }
template<class T> static glm::vec<3,T,glm::defaultp> mk3(const T* p){ return glm::vec<3,T,glm::defaultp>(p[0],p[1],p[2]); }
template<class T> static glm::vec<2,T,glm::defaultp> mk2(const T* p){ return glm::vec<2,T,glm::defaultp>(p[0],p[1]); }

// judge  got == M * E
template<class T,int N> static void judge_ME(vf::Ctx& c,const std::string& name,const T* M,const EM<T,N>& e,const T* got,double kU,const char* rname,bool merge_nonfinite=false){ TRT
	W want[N*N]; bool bad=false,nonfin=false;
	for(int cc=0;cc<N;cc++) for(int r=0;r<N;r++){ W w=0,S=0; for(int k=0;k<N;k++){ W m=(W)M[k*N+r]; w+=m*e.E[cc][k]; S+=w_abs(m)*(e.dE[cc][k]+W(kU)*u*w_abs(e.E[cc][k])); }
		want[cc*N+r]=w; W bound=W(SF)*S+4*tiny; T g=got[cc*N+r]; if(!isfinite_b(g)){ nonfin=true; continue; } W err=w_abs((W)g-w); rat(c,rname,(double)(err/bound)); if(!(err<=bound)) bad=true; }
	if(nonfin&&!merge_nonfinite) c.fail(name+":non-finite-for-finite-input",smat<T,N>(got),swmat<T,N,W>(want));
	else if(bad||nonfin) c.fail(name+":differs-from-M*E",smat<T,N>(got),swmat<T,N,W>(want));
}
// judge  got == E * v
template<class T,int N> static void judge_Ev(vf::Ctx& c,const std::string& name,const T* v,const EM<T,N>& e,const T* got,double kU,const char* rname){ TRT
	W want[N]; bool bad=false,nonfin=false;
	for(int r=0;r<N;r++){ W w=0,S=0; for(int k=0;k<N;k++){ W x=(W)v[k]; w+=e.E[k][r]*x; S+=w_abs(x)*(e.dE[k][r]+W(kU)*u*w_abs(e.E[k][r])); }
		want[r]=w; W bound=W(SF)*S+4*tiny; T g=got[r]; if(!isfinite_b(g)){ nonfin=true; continue; } W err=w_abs((W)g-w); rat(c,rname,(double)(err/bound)); if(!(err<=bound)) bad=true; }
	if(nonfin) c.fail(name+":non-finite-for-finite-input",svec<T,N>(got),swvec<T,N,W>(want));
	else if(bad) c.fail(name+":differs-from-E*v",svec<T,N>(got),swvec<T,N,W>(want));
}

// Rodrigues rotation by angle a about n (3 wide components), written into the upper-left 3x3 of e.
//   E[i][j] (column i,row j) = delta_ij c + t n_i n_j + s * (+n_k if j==i+1 mod 3, -n_k if j==i-1 mod 3), k = 3-i-j, t = 1-c
// nu = relative error of the computed axis components (4.5u after glm::normalize of a vec3, 0 for an axis used as given),
// slack = extra absolute allowance (axis not exactly unit for the *NormalizedAxis functions).
// errors: c,s: 2u (libm within 1 ulp); t: 2u + u|t|; t n_i n_j: et|n_i n_j| + |t n_i n_j|(2nu+2u); s n_k: 2u|n_k| + |s n_k|(nu+u); final sum: u|E|
template<class T,int N> static void rodrigues(EM<T,N>& e,typename Tr<T>::W a,const typename Tr<T>::W* n,typename Tr<T>::W nu,typename Tr<T>::W slack){ TRT
	W cs=w_cos(a), sn=w_sin(a), t=1-cs, et=2*u+u*w_abs(t);
	for(int i=0;i<3;i++) for(int j=0;j<3;j++){ W nn=n[i]*n[j], v=t*nn, d=et*w_abs(nn)+w_abs(v)*(2*nu+2*u);
		if(i==j){ v+=cs; d+=2*u; } else { int k=3-i-j; W sg= (j==(i+1)%3)? W(1): W(-1); W sk=sn*n[k]; v+=sg*sk; d+=2*u*w_abs(n[k])+w_abs(sk)*(nu+u); }
		e.E[i][j]=v; e.dE[i][j]=d+u*w_abs(v)+slack+4*tiny; }
}
// axis handling: finite, squared norm in the domain; returns the wide unit axis
template<class T> static bool unit_axis(const T* v,typename Tr<T>::W* n){ typedef typename Tr<T>::W W; if(!isfinite_b(v[0])||!isfinite_b(v[1])||!isfinite_b(v[2])) return false; W n2=n2of3<T>(v); if(!okn2<T>(n2)) return false; W l=w_sqrt(n2); for(int i=0;i<3;i++) n[i]=(W)v[i]/l; return true; }
template<class T> static bool ok_angle(T a){ return isfinite_b(a) && std::fabs((double)a)<=1024.0; }
template<class T> static bool finU(const T* p,int n,int emax){ for(int i=0;i<n;i++){ if(!isfinite_b(p[i])) return false; if(std::fabs((double)p[i])>std::ldexp(1.0,emax)) return false; } return true; }
#define DOM_M(NN) if(!finU<T>(in.m,NN,Tr<T>::EG+2)) SKIP("base-matrix-out-of-domain")
#define DOM_P(NN,EM_) if(!finU<T>(in.p,NN,EM_)) SKIP("parameter-out-of-domain")
static const float IDF[16]={1,0,0,0, 0,1,0,0, 0,0,1,0, 0,0,0,1};
template<class T> static void ident(T* m,int N){ for(int c=0;c<N;c++) for(int r=0;r<N;r++) m[c*N+r]= c==r? (T)1: (T)0; }

// ================================================================ core builders: translate / rotate / scale / shear and _slow twins
template<class T> static void k_translate(const In<T>& in,vf::Ctx& c){ TRT DOM_M(16); DOM_P(3,Tr<T>::EG+2);
	EM<T,4> e; for(int i=0;i<3;i++) e.E[3][i]=in.p[i];
	T g[16]; getm<T,4>(glm::translate(mkm<T,4>(in.m),mk3<T>(in.p)),g); judge_ME<T,4>(c,"translate",in.m,e,g,5,"err/bound"); }
// which: 0 rotate, 1 rotate_slow, 2 rotateNormalizedAxis(mat4), 3 axisAngleMatrix (no base matrix)
template<class T> static void k_rotate(const In<T>& in,vf::Ctx& c,int which){ TRT
	T M[16]; if(which==3) ident(M,4); else { DOM_M(16); memcpy(M,in.m,sizeof M); }
	T a=in.p[0]; const T* v=in.p+1; if(!ok_angle(a)) SKIP("angle-out-of-domain");
	W n[3]; EM<T,4> e;
	if(which==2){ if(!finU<T>(v,3,1)) SKIP("axis-out-of-domain"); W n2=n2of3<T>(v); if(!(w_abs(n2-1)<=8*u)) SKIP("axis-not-normalised"); for(int i=0;i<3;i++) n[i]=v[i]; rodrigues<T,4>(e,(W)a,n,W(0),4*w_abs(n2-1)); }
	else { if(!unit_axis<T>(v,n)) SKIP("axis-out-of-domain"); rodrigues<T,4>(e,(W)a,n,W(4.5)*u,W(0)); }
	auto gm=mkm<T,4>(M); auto gv=mk3<T>(v); T g[16]; const char* nm;
	switch(which){ case 0: getm<T,4>(glm::rotate(gm,a,gv),g); nm="rotate"; break; case 1: getm<T,4>(glm::rotate_slow(gm,a,gv),g); nm="rotate_slow"; break;
		case 2: getm<T,4>(glm::rotateNormalizedAxis(gm,a,gv),g); nm="rotateNormalizedAxis"; break; default: getm<T,4>(glm::axisAngleMatrix(gv,a),g); nm="axisAngleMatrix"; }
	c.cls(a==0?"angle==0":(std::fabs((double)a)>6.2831853?"more-than-one-turn":"within-one-turn"));
	judge_ME<T,4>(c,nm,M,e,g,5,"err/bound"); }
template<class T> static void k_scale(const In<T>& in,vf::Ctx& c,bool slow){ TRT DOM_M(16); DOM_P(3,Tr<T>::EG+2);
	EM<T,4> e; for(int i=0;i<3;i++) e.E[i][i]=in.p[i];
	T g[16]; if(slow) getm<T,4>(glm::scale_slow(mkm<T,4>(in.m),mk3<T>(in.p)),g); else getm<T,4>(glm::scale(mkm<T,4>(in.m),mk3<T>(in.p)),g);
	judge_ME<T,4>(c,slow?"scale_slow":"scale",in.m,e,g,5,"err/bound"); }
// shear(m, p, l_x, l_y, l_z): documented elementary matrix (rows)  [1 l_xy l_xz -(l_xy+l_xz)p_x; l_yx 1 l_yz -(l_yx+l_yz)p_y; l_zx l_zy 1 -(l_zx+l_zy)p_z; 0 0 0 1]
// p[0..2] = point, p[3..4] = l_x = (l_xy,l_xz), p[5..6] = l_y = (l_yx,l_yz), p[7..8] = l_z = (l_zx,l_zy)
template<class T> static void k_shear(const In<T>& in,vf::Ctx& c,bool slow){ TRT DOM_M(16); DOM_P(3,Tr<T>::EG+2); if(!finU<T>(in.p+3,6,10)) SKIP("parameter-out-of-domain");
	const T *p=in.p,*lx=in.p+3,*ly=in.p+5,*lz=in.p+7; EM<T,4> e;
	e.E[1][0]=lx[0]; e.E[2][0]=lx[1]; e.E[0][1]=ly[0]; e.E[2][1]=ly[1]; e.E[0][2]=lz[0]; e.E[1][2]=lz[1];
	const T* ll[3]={lx,ly,lz}; for(int i=0;i<3;i++){ W v=-((W)ll[i][0]+(W)ll[i][1])*(W)p[i]; e.E[3][i]=v; e.dE[3][i]=2*u*w_abs(v)+2*tiny; }
	auto gm=mkm<T,4>(in.m); T g[16];
	if(slow) getm<T,4>(glm::shear_slow(gm,mk3<T>(p),mk2<T>(lx),mk2<T>(ly),mk2<T>(lz)),g); else getm<T,4>(glm::shear(gm,mk3<T>(p),mk2<T>(lx),mk2<T>(ly),mk2<T>(lz)),g);
	judge_ME<T,4>(c,slow?"shear_slow":"shear",in.m,e,g,5,"err/bound"); }
// gtx/transform: translate(v), rotate(a,v), scale(v) = the core builders applied to the identity.  p[0]=angle, p[1..3]=v
template<class T> static void k_gtx_transform(const In<T>& in,vf::Ctx& c){ TRT T M[16]; ident(M,4); const T* v=in.p+1; EM<T,4> e; T g[16]; auto gv=mk3<T>(v);
	switch(in.k){
	case 0: if(!finU<T>(v,3,Tr<T>::EG+2)) SKIP("parameter-out-of-domain"); for(int i=0;i<3;i++) e.E[3][i]=v[i]; getm<T,4>(glm::translate(gv),g); judge_ME<T,4>(c,"translate(v)",M,e,g,5,"err/bound"); break;
	case 1: { W n[3]; if(!ok_angle(in.p[0])||!unit_axis<T>(v,n)) SKIP("parameter-out-of-domain"); rodrigues<T,4>(e,(W)in.p[0],n,W(4.5)*u,W(0)); getm<T,4>(glm::rotate(in.p[0],gv),g); judge_ME<T,4>(c,"rotate(angle,v)",M,e,g,5,"err/bound"); } break;
	case 2: if(!finU<T>(v,3,Tr<T>::EG+2)) SKIP("parameter-out-of-domain"); for(int i=0;i<3;i++) e.E[i][i]=v[i]; getm<T,4>(glm::scale(gv),g); judge_ME<T,4>(c,"scale(v)",M,e,g,5,"err/bound"); break;
	default: SKIP("bad-selector"); } }

// ================================================================ gtx/matrix_transform_2d (mat3): k = 0 translate, 1 rotate, 2 scale, 3 shearX, 4 shearY.  p[0..1] = v / p[0] = angle or factor
// shearX(m,y): the x basis vector receives the y component `y` (E[0][1] = y); shearY(m,x): E[1][0] = x  (convention of the parameter names)
template<class T> static void k_2d(const In<T>& in,vf::Ctx& c){ TRT DOM_M(9); EM<T,3> e; T g[9]; auto gm=mkm<T,3>(in.m); const char* nm;
	switch(in.k){
	case 0: DOM_P(2,Tr<T>::EG+2); e.E[2][0]=in.p[0]; e.E[2][1]=in.p[1]; getm<T,3>(glm::translate(gm,mk2<T>(in.p)),g); nm="translate(mat3)"; break;
	case 1: { if(!ok_angle(in.p[0])) SKIP("angle-out-of-domain"); W cs=w_cos((W)in.p[0]), sn=w_sin((W)in.p[0]); e.E[0][0]=cs; e.E[0][1]=sn; e.E[1][0]=-sn; e.E[1][1]=cs; for(int i=0;i<2;i++) for(int j=0;j<2;j++) e.dE[i][j]=2*u;
		getm<T,3>(glm::rotate(gm,in.p[0]),g); nm="rotate(mat3)"; } break;
	case 2: DOM_P(2,Tr<T>::EG+2); e.E[0][0]=in.p[0]; e.E[1][1]=in.p[1]; getm<T,3>(glm::scale(gm,mk2<T>(in.p)),g); nm="scale(mat3)"; break;
	case 3: DOM_P(1,Tr<T>::EG+2); e.E[0][1]=in.p[0]; getm<T,3>(glm::shearX(gm,in.p[0]),g); nm="shearX(mat3)"; break;
	case 4: DOM_P(1,Tr<T>::EG+2); e.E[1][0]=in.p[0]; getm<T,3>(glm::shearY(gm,in.p[0]),g); nm="shearY(mat3)"; break;
	default: SKIP("bad-selector"); }
	judge_ME<T,3>(c,nm,in.m,e,g,5,"err/bound"); }

// ================================================================ gtx/transform2: k = 0 shearX2D, 1 shearY2D, 2 shearX3D, 3 shearY3D, 4 shearZ3D, 5 proj2D, 6 proj3D, 7 scaleBias(m,s,b)
// shearX2D(m,y): x += y_factor * y (E[1][0]); shearY2D(m,x): E[0][1]; shearX3D(m,y,z): the x basis vector receives (y,z) (E[0][1],E[0][2]), likewise Y3D, Z3D;
// proj: I - n n^T on the leading 2x2 / 3x3 block; scaleBias: diag(s,s,s,1) with last column (b,b,b,1).   p[0..2] = factors / normal / (scale,bias)
template<class T> static void k_transform2(const In<T>& in,vf::Ctx& c){ TRT const T* p=in.p;
	if(in.k==0||in.k==1||in.k==5){ DOM_M(9); EM<T,3> e; T g[9]; auto gm=mkm<T,3>(in.m); const char* nm;
		if(in.k==0){ DOM_P(1,Tr<T>::EG+2); e.E[1][0]=p[0]; getm<T,3>(glm::shearX2D(gm,p[0]),g); nm="shearX2D"; }
		else if(in.k==1){ DOM_P(1,Tr<T>::EG+2); e.E[0][1]=p[0]; getm<T,3>(glm::shearY2D(gm,p[0]),g); nm="shearY2D"; }
		else { DOM_P(3,4); for(int i=0;i<2;i++) for(int j=0;j<2;j++){ W nn=(W)p[i]*(W)p[j], v=(i==j?W(1):W(0))-nn; e.E[i][j]=v; e.dE[i][j]=u*w_abs(nn)+u*w_abs(v)+2*tiny; } getm<T,3>(glm::proj2D(gm,mk3<T>(p)),g); nm="proj2D"; }
		judge_ME<T,3>(c,nm,in.m,e,g,5,"err/bound"); return; }
	DOM_M(16); EM<T,4> e; T g[16]; auto gm=mkm<T,4>(in.m); const char* nm;
	switch(in.k){
	case 2: DOM_P(2,Tr<T>::EG+2); e.E[0][1]=p[0]; e.E[0][2]=p[1]; getm<T,4>(glm::shearX3D(gm,p[0],p[1]),g); nm="shearX3D"; break;
	case 3: DOM_P(2,Tr<T>::EG+2); e.E[1][0]=p[0]; e.E[1][2]=p[1]; getm<T,4>(glm::shearY3D(gm,p[0],p[1]),g); nm="shearY3D"; break;
	case 4: DOM_P(2,Tr<T>::EG+2); e.E[2][0]=p[0]; e.E[2][1]=p[1]; getm<T,4>(glm::shearZ3D(gm,p[0],p[1]),g); nm="shearZ3D"; break;
	case 6: DOM_P(3,4); for(int i=0;i<3;i++) for(int j=0;j<3;j++){ W nn=(W)p[i]*(W)p[j], v=(i==j?W(1):W(0))-nn; e.E[i][j]=v; e.dE[i][j]=u*w_abs(nn)+u*w_abs(v)+2*tiny; } getm<T,4>(glm::proj3D(gm,mk3<T>(p)),g); nm="proj3D"; break;
	case 7: DOM_P(2,Tr<T>::EG+2); for(int i=0;i<3;i++){ e.E[i][i]=p[0]; e.E[3][i]=p[1]; } getm<T,4>(glm::scaleBias(gm,p[0],p[1]),g); nm="scaleBias(m,scale,bias)"; break;
	default: SKIP("bad-selector"); }
	judge_ME<T,4>(c,nm,in.m,e,g,5,"err/bound",in.k==7); }
template<class T> static void k_scalebias(const In<T>& in,vf::Ctx& c){ TRT DOM_P(2,Tr<T>::EG+2); T M[16]; ident(M,4); EM<T,4> e; for(int i=0;i<3;i++){ e.E[i][i]=in.p[0]; e.E[3][i]=in.p[1]; }
	T g[16]; getm<T,4>(glm::scaleBias<T,glm::defaultp>(in.p[0],in.p[1]),g); judge_ME<T,4>(c,"scaleBias(scale,bias)",M,e,g,5,"err/bound",true); }

// ================================================================ gtx/rotate_vector: k = 0 rotate(vec2), 1 rotate(vec3,a,n), 2 rotate(vec4,a,n), 3..5 rotateX/Y/Z(vec3), 6..8 rotateX/Y/Z(vec4)
// p[0..3] = v, p[4] = angle, p[5..7] = normal
template<class T> static void k_rotvec(const In<T>& in,vf::Ctx& c){ TRT const T* v=in.p; T a=in.p[4]; if(!finU<T>(v,4,Tr<T>::EG+2)||!ok_angle(a)) SKIP("parameter-out-of-domain");
	W cs=w_cos((W)a), sn=w_sin((W)a); typedef glm::vec<4,T,glm::defaultp> V4;
	if(in.k==0){ EM<T,2> e; e.E[0][0]=cs; e.E[0][1]=sn; e.E[1][0]=-sn; e.E[1][1]=cs; for(int i=0;i<2;i++) for(int j=0;j<2;j++) e.dE[i][j]=2*u; auto r=glm::rotate(mk2<T>(v),a); T g[2]={r.x,r.y}; judge_Ev<T,2>(c,"rotate(vec2,angle)",v,e,g,4,"err/bound"); return; }
	if(in.k==1||in.k==2){ W n[3]; if(!unit_axis<T>(in.p+5,n)) SKIP("axis-out-of-domain"); EM<T,4> e; rodrigues<T,4>(e,(W)a,n,W(4.5)*u,W(0));
		if(in.k==1){ EM<T,3> e3; for(int i=0;i<3;i++) for(int j=0;j<3;j++){ e3.E[i][j]=e.E[i][j]; e3.dE[i][j]=e.dE[i][j]; } auto r=glm::rotate(mk3<T>(v),a,mk3<T>(in.p+5)); T g[3]={r.x,r.y,r.z}; judge_Ev<T,3>(c,"rotate(vec3,angle,normal)",v,e3,g,8,"err/bound"); }
		else { auto r=glm::rotate(V4(v[0],v[1],v[2],v[3]),a,mk3<T>(in.p+5)); T g[4]={r.x,r.y,r.z,r.w}; judge_Ev<T,4>(c,"rotate(vec4,angle,normal)",v,e,g,8,"err/bound"); }
		return; }
	if(in.k<3||in.k>8) SKIP("bad-selector");
	int ax=(in.k-3)%3, i1=(ax+1)%3, i2=(ax+2)%3; bool v4=in.k>=6; static const char* NM[6]={"rotateX(vec3)","rotateY(vec3)","rotateZ(vec3)","rotateX(vec4)","rotateY(vec4)","rotateZ(vec4)"};
	EM<T,4> e; e.E[i1][i1]=cs; e.E[i2][i2]=cs; e.E[i1][i2]=sn; e.E[i2][i1]=-sn; e.dE[i1][i1]=e.dE[i2][i2]=e.dE[i1][i2]=e.dE[i2][i1]=2*u;
	if(v4){ V4 x(v[0],v[1],v[2],v[3]); V4 r= ax==0? glm::rotateX(x,a): ax==1? glm::rotateY(x,a): glm::rotateZ(x,a); T g[4]={r.x,r.y,r.z,r.w}; judge_Ev<T,4>(c,NM[in.k-3],v,e,g,4,"err/bound"); }
	else { EM<T,3> e3; for(int i=0;i<3;i++) for(int j=0;j<3;j++){ e3.E[i][j]=e.E[i][j]; e3.dE[i][j]=e.dE[i][j]; } auto x=mk3<T>(v); auto r= ax==0? glm::rotateX(x,a): ax==1? glm::rotateY(x,a): glm::rotateZ(x,a); T g[3]={r.x,r.y,r.z}; judge_Ev<T,3>(c,NM[in.k-3],v,e3,g,4,"err/bound"); }
}
// orientation(Normal, Up) for unit vectors: the rotation about cross(Up,Normal) by acos(dot) — it maps Up to Normal and fixes the axis.
// acos conditioning 1/sin(theta): angle error (3u)/sin + 2u theta, axis direction error 7u sqrt3/sin, Rodrigues entries ~30u:  (30/sin + 40) u per component
template<class T> static void k_orientation(const In<T>& in,vf::Ctx& c){ TRT const T *N=in.p,*U=in.p+3; if(!finU<T>(in.p,6,1)) SKIP("parameter-out-of-domain");
	W nn=n2of3<T>(N), uu=n2of3<T>(U); if(!(w_abs(nn-1)<=8*u)||!(w_abs(uu-1)<=8*u)) SKIP("not-unit-vectors");
	W ax[3]={(W)U[1]*(W)N[2]-(W)N[1]*(W)U[2],(W)U[2]*(W)N[0]-(W)N[2]*(W)U[0],(W)U[0]*(W)N[1]-(W)N[0]*(W)U[1]}; W sth=w_sqrt(ax[0]*ax[0]+ax[1]*ax[1]+ax[2]*ax[2]);
	if(!(sth>=W(0.05))) SKIP("Normal-and-Up-nearly-(anti)parallel"); for(int i=0;i<3;i++) ax[i]/=sth;
	T g[16]; getm<T,4>(glm::orientation(mk3<T>(N),mk3<T>(U)),g); for(int i=0;i<16;i++) if(!isfinite_b(g[i])){ c.fail("orientation:non-finite-for-finite-input",smat<T,4>(g),"a rotation"); return; }
	W bound=W(SF)*(W(30)/sth+40)*u; bool b1=false,b2=false,b3=false; W r1[3],r2[3];
	for(int r=0;r<3;r++){ W a=0,b=0; for(int k=0;k<3;k++){ a+=(W)g[k*4+r]*(W)U[k]; b+=(W)g[k*4+r]*ax[k]; } r1[r]=a; r2[r]=b; rat(c,"orientation:err/bound",(double)(w_max(w_abs(a-(W)N[r]),w_abs(b-ax[r]))/bound)); if(!(w_abs(a-(W)N[r])<=bound)) b1=true; if(!(w_abs(b-ax[r])<=bound)) b2=true; }
	for(int i=0;i<3;i++) if(g[i*4+3]!=0||g[12+i]!=0) b3=true; if(g[15]!=1) b3=true;
	if(b1) c.fail("orientation:does-not-map-Up-to-Normal",swvec<T,3,W>(r1),svec<T,3>(N)); if(b2) c.fail("orientation:rotation-axis-cross(Up,Normal)-not-fixed",swvec<T,3,W>(r2),swvec<T,3,W>(ax)); if(b3) c.fail("orientation:not-a-pure-rotation-matrix",smat<T,4>(g),"last row and column (0,0,0,1)"); }
// rotateNormalizedAxis(quat q, angle, unit v) = q * quat(cos(a/2), v sin(a/2)).  p[0..3] = q (w,x,y,z), p[4] = angle, p[5..7] = v
// second factor components: 2u (trig) + u (product) = 3u; Hamilton product of 4 terms: 4u  => 7u sum|terms|
template<class T> static void k_rna_quat(const In<T>& in,vf::Ctx& c){ TRT const T* q=in.p; T a=in.p[4]; const T* v=in.p+5; if(!finU<T>(q,4,Tr<T>::EG)||!ok_angle(a)||!finU<T>(v,3,1)) SKIP("parameter-out-of-domain");
	W n2=n2of3<T>(v); if(!(w_abs(n2-1)<=8*u)) SKIP("axis-not-normalised");
	W h=(W)a/2, ch=w_cos(h), sh=w_sin(h), r[4]={ch,(W)v[0]*sh,(W)v[1]*sh,(W)v[2]*sh}, p[4]={q[0],q[1],q[2],q[3]};
	// (w,x,y,z): w = p0r0 - p1r1 - p2r2 - p3r3 ; x = p0r1 + p1r0 + p2r3 - p3r2 ; y = p0r2 - p1r3 + p2r0 + p3r1 ; z = p0r3 + p1r2 - p2r1 + p3r0
	static const int IDX[4][4]={{0,1,2,3},{1,0,3,2},{2,3,0,1},{3,2,1,0}}; static const int SG[4][4]={{1,-1,-1,-1},{1,1,1,-1},{1,-1,1,1},{1,1,-1,1}};
	auto gq=glm::rotateNormalizedAxis(glm::qua<T,glm::defaultp>::wxyz(q[0],q[1],q[2],q[3]),a,mk3<T>(v)); T g[4]={gq.w,gq.x,gq.y,gq.z}; W want[4]; bool bad=false,nf=false;
	for(int i=0;i<4;i++){ W w=0,S=0; for(int k=0;k<4;k++){ W t=p[k]*r[IDX[i][k]]; w+=SG[i][k]*t; S+=w_abs(t); } want[i]=w; W bound=W(SF*7)*u*S+3*tiny*(w_abs(p[0])+w_abs(p[1])+w_abs(p[2])+w_abs(p[3]))+4*tiny; /* underflow of a*0.5 and v*sin for denormal angles */ if(!isfinite_b(g[i])){ nf=true; continue; } W err=w_abs((W)g[i]-w); rat(c,"err/bound",(double)(err/bound)); if(!(err<=bound)) bad=true; }
	if(nf) c.fail("rotateNormalizedAxis(quat):non-finite-for-finite-input",svec<T,4>(g),swvec<T,4,W>(want)); else if(bad) c.fail("rotateNormalizedAxis(quat):differs-from-q*quat(cos(a/2),v*sin(a/2))",svec<T,4>(g)+" (w,x,y,z)",swvec<T,4,W>(want)+" (w,x,y,z)"); }
// ================================================================ lookAt / lookAtRH / lookAtLH      p[0..2] = eye, p[3..5] = center, p[6..8] = up
// The statement determines the matrix uniquely: rows (s, u, -+f | -s.eye, -u.eye, +-f.eye), f = view direction, s perpendicular to f and up
// (image of up has x = 0), det = +1, (L up).y > 0.   RH: s = f x up, u = s x f, third row -f;  LH: s = up x f, u = f x s, third row +f.
// Error model (norm-wise): |df| <= 5.5u (one subtraction + normalize); cross(f,up): 11u|up|; |ds| <= 2*11u/sin(phi) + 4.5u, phi = angle(up, view);
// |du| <= |ds| + |df| + 5u;  translation entries: |d(row)| |eye| + 3u sum|row_i eye_i|.
template<class T> static void k_lookat(const In<T>& in,vf::Ctx& c,int which){ TRT const T *eye=in.p,*cen=in.p+3,*up=in.p+6;
	if(!finU<T>(in.p,9,Tr<T>::EG+2)) SKIP("parameter-out-of-domain");
	W d[3]; for(int i=0;i<3;i++) d[i]=(W)cen[i]-(W)eye[i]; W d2=d[0]*d[0]+d[1]*d[1]+d[2]*d[2], u2=n2of3<T>(up);
	if(!okn2<T>(d2)) SKIP("eye==center-or-distance-out-of-domain"); if(!okn2<T>(u2)) SKIP("up-out-of-domain");
	W dl=w_sqrt(d2), ul=w_sqrt(u2), f[3]; for(int i=0;i<3;i++) f[i]=d[i]/dl;
	bool lh= which==2 || (which==0 && CONFIG_LH); const char* nm= which==0? (CONFIG_LH? "lookAt[LH-configured]":"lookAt[RH-configured]"): which==1? "lookAtRH":"lookAtLH";
	auto cross=[&](const W* a,const W* b,W* o){ o[0]=a[1]*b[2]-b[1]*a[2]; o[1]=a[2]*b[0]-b[2]*a[0]; o[2]=a[0]*b[1]-b[0]*a[1]; };
	W upw[3]={up[0],up[1],up[2]}, s[3], uu[3]; if(lh) cross(upw,f,s); else cross(f,upw,s); W sl=w_sqrt(s[0]*s[0]+s[1]*s[1]+s[2]*s[2]), sphi=sl/ul;
	if(!(sphi>=W(1e-3))) SKIP("up-nearly-parallel-to-view-direction"); for(int i=0;i<3;i++) s[i]/=sl; if(lh) cross(f,s,uu); else cross(s,f,uu);
	c.cls(sphi<W(0.05)?"up-within-3deg-of-view":"regular");
	typedef glm::vec<3,T,glm::defaultp> V3; V3 ge=mk3<T>(eye), gc=mk3<T>(cen), gu=mk3<T>(up); T g[16];
	if(which==0) getm<T,4>(glm::lookAt(ge,gc,gu),g); else if(which==1) getm<T,4>(glm::lookAtRH(ge,gc,gu),g); else getm<T,4>(glm::lookAtLH(ge,gc,gu),g);
	W want[16]; const W* rows[3]={s,uu,f}; W sg[3]={1,1,lh?W(1):W(-1)}; W el=w_sqrt(n2of3<T>(eye));
	W df=W(5.5)*u, ds=W(22)*u/sphi+W(4.5)*u, du=ds+df+5*u, dr[3]={ds,du,df}, bnd[16];
	for(int r=0;r<3;r++){ W t=0,S=0; for(int k=0;k<3;k++){ want[k*4+r]=sg[r]*rows[r][k]; bnd[k*4+r]=W(SF)*dr[r]+2*tiny; t+=rows[r][k]*(W)eye[k]; S+=w_abs(rows[r][k]*(W)eye[k]); }
		want[12+r]=-sg[r]*t; bnd[12+r]=W(SF)*(dr[r]*el+3*u*S)+4*tiny; }
	for(int k=0;k<4;k++){ want[k*4+3]= k==3? W(1): W(0); bnd[k*4+3]=0; }
	bool bad=false; for(int i=0;i<16;i++){ if(!isfinite_b(g[i])){ c.fail(std::string(nm)+":non-finite-for-finite-input",smat<T,4>(g),swmat<T,4,W>(want)); return; }
		W err=w_abs((W)g[i]-want[i]); if(bnd[i]>0) rat(c,"err/bound",(double)(err/bnd[i])); if(!(err<=bnd[i])) bad=true; }
	if(!bad) return;
	// name the violated clause of the statement (thresholds 4x the entry bounds; the entry-wise comparison above is what decides)
	std::string cl; W B=4*W(SF)*du+64*u;
	W G[3][3]; for(int r=0;r<3;r++) for(int k=0;k<3;k++) G[r][k]=g[k*4+r]; // G[r] = row r of the rotation block
	bool affine= g[3]==0&&g[7]==0&&g[11]==0&&g[15]==1, orth=true; for(int a=0;a<3;a++) for(int b=a;b<3;b++){ W x=0; for(int k=0;k<3;k++) x+=G[a][k]*G[b][k]; if(!(w_abs(x-(a==b?1:0))<=2*B)) orth=false; }
	W det=G[0][0]*(G[1][1]*G[2][2]-G[1][2]*G[2][1])-G[0][1]*(G[1][0]*G[2][2]-G[1][2]*G[2][0])+G[0][2]*(G[1][0]*G[2][1]-G[1][1]*G[2][0]);
	W ie[3],iv[3],iu[3]; for(int r=0;r<3;r++){ W a=0,b=0,e=0; for(int k=0;k<3;k++){ a+=G[r][k]*f[k]; b+=G[r][k]*upw[k]/ul; e+=G[r][k]*(W)eye[k]; } iv[r]=a; iu[r]=b; ie[r]=e+(W)g[12+r]; }
	W zexp= lh? W(1): W(-1);
	if(!affine) cl="last-row-not-(0,0,0,1)";
	else if(!orth) cl="rotation-block-not-orthonormal";
	else if(!(det>0)) cl="improper-rotation(det<0)";
	else if(!(w_abs(iv[2]-zexp)<=2*B)) cl= (w_abs(iv[2]+zexp)<=2*B)? (lh? "view-direction-mapped-to-minus-z(expected+z,LH)":"view-direction-mapped-to-plus-z(expected-z,RH)"): "view-direction-not-mapped-onto-z-axis";
	else if(!(w_abs(iv[0])<=2*B&&w_abs(iv[1])<=2*B)) cl="view-direction-not-mapped-onto-z-axis";
	else if(!(iu[1]>0)) cl="up-mapped-to-negative-y-half-plane";
	else if(!(w_abs(iu[0])<=2*B)) cl="up-not-mapped-into-yz-plane";
	else if(!(w_abs(ie[0])<=2*bnd[12]&&w_abs(ie[1])<=2*bnd[13]&&w_abs(ie[2])<=2*bnd[14])) cl="eye-not-mapped-to-origin";
	else cl="differs-from-reference-basis-beyond-rounding";
	c.fail(std::string(nm)+":"+cl,smat<T,4>(g),swmat<T,4,W>(want)); }

// ================================================================ decompose / recompose
// p[0..2] scale, p[3..5] rotation axis, p[6] angle, p[7..9] translation, p[10..12] skew (x,y,z as used by recompose), p[13..15] perspective xyz, m[0] perspective w;
// mode bit0: choose w so that M[3][3] = 1.  The matrix is composed in W as  P * T * R * Kx * Ky * Kz * S  and every entry rounded once to T.
template<class W> static void mul4(const W* a,const W* b,W* o){ W t[16]; for(int c=0;c<4;c++) for(int r=0;r<4;r++){ W s=0; for(int k=0;k<4;k++) s+=a[k*4+r]*b[c*4+k]; t[c*4+r]=s; } for(int i=0;i<16;i++) o[i]=t[i]; }
template<class W> static void id4(W* m){ for(int i=0;i<16;i++) m[i]= (i%5==0)? W(1): W(0); }
// documented recomposition in W:  q = (w,x,y,z)
template<class W> static void recompose_w(const W* sc,const W* q,const W* tr,const W* sk,const W* pe,W* out){ W m[16],t[16]; id4(m); m[3]=pe[0]; m[7]=pe[1]; m[11]=pe[2]; m[15]=pe[3];
	id4(t); t[12]=tr[0]; t[13]=tr[1]; t[14]=tr[2]; mul4(m,t,m);
	W w=q[0],x=q[1],y=q[2],z=q[3]; id4(t); t[0]=1-2*(y*y+z*z); t[1]=2*(x*y+w*z); t[2]=2*(x*z-w*y); t[4]=2*(x*y-w*z); t[5]=1-2*(x*x+z*z); t[6]=2*(y*z+w*x); t[8]=2*(x*z+w*y); t[9]=2*(y*z-w*x); t[10]=1-2*(x*x+y*y); mul4(m,t,m);
	id4(t); t[2*4+1]=sk[0]; mul4(m,t,m); id4(t); t[2*4+0]=sk[1]; mul4(m,t,m); id4(t); t[1*4+0]=sk[2]; mul4(m,t,m);
	id4(t); t[0]=sc[0]; t[5]=sc[1]; t[10]=sc[2]; mul4(m,t,m); for(int i=0;i<16;i++) out[i]=m[i]; }
template<class W> static W absperm3(const W* a /*3x3 row-major, absolute values*/){ return a[0]*(a[4]*a[8]+a[5]*a[7])+a[1]*(a[3]*a[8]+a[5]*a[6])+a[2]*(a[3]*a[7]+a[4]*a[6]); }
template<class W> static W det3(const W* a){ return a[0]*(a[4]*a[8]-a[5]*a[7])-a[1]*(a[3]*a[8]-a[5]*a[6])+a[2]*(a[3]*a[7]-a[4]*a[6]); }
template<class T> struct Rec { static bool glm_recompose(const glm::vec<3,T,glm::defaultp>&,const glm::qua<T,glm::defaultp>&,const glm::vec<3,T,glm::defaultp>&,const glm::vec<3,T,glm::defaultp>&,const glm::vec<4,T,glm::defaultp>&,T*){ return false; } };
template<> struct Rec<float> { static bool glm_recompose(const glm::vec3& s,const glm::quat& q,const glm::vec3& t,const glm::vec3& k,const glm::vec4& p,float* o){ getm<float,4>(glm::recompose(s,q,t,k,p),o); return true; } };

template<class T> static void k_decompose(const In<T>& in,vf::Ctx& c){ TRT const T* p=in.p;
	if(!finU<T>(p,3,7)||!finU<T>(p+7,3,6)||!finU<T>(p+10,3,2)||!finU<T>(p+13,3,0)||!ok_angle(p[6])||!finU<T>(in.m,1,3)) SKIP("parameter-out-of-domain");
	for(int i=0;i<3;i++) if(!(std::fabs((double)p[i])>=1.0/128)) SKIP("scale-out-of-domain");
	W n[3]; if(!unit_axis<T>(p+3,n)) SKIP("axis-out-of-domain");
	// compose
	W M[16],t[16]; id4(M); W pw= (in.mode&1)? 1-((W)p[13]*(W)p[7]+(W)p[14]*(W)p[8]+(W)p[15]*(W)p[9]): (W)in.m[0];
	M[3]=p[13]; M[7]=p[14]; M[11]=p[15]; M[15]=pw; id4(t); t[12]=p[7]; t[13]=p[8]; t[14]=p[9]; mul4(M,t,M);
	{ EM<T,4> e; rodrigues<T,4>(e,(W)p[6],n,W(0),W(0)); for(int cc=0;cc<4;cc++) for(int r=0;r<4;r++) t[cc*4+r]=e.E[cc][r]; mul4(M,t,M); }
	id4(t); t[2*4+1]=p[10]; mul4(M,t,M); id4(t); t[2*4+0]=p[11]; mul4(M,t,M); id4(t); t[1*4+0]=p[12]; mul4(M,t,M);
	id4(t); t[0]=p[0]; t[5]=p[1]; t[10]=p[2]; mul4(M,t,M);
	T Mt[16]; for(int i=0;i<16;i++) Mt[i]=(T)M[i];
	if(in.mode&8){ // perspective row with entries that cancel: x+y+z == 0 exactly (and M[3][3] = 1 so that they survive the normalisation unchanged)
		static const T PAT[4][3]={{(T)0.25,(T)-0.25,(T)0},{(T)0.5,(T)0.25,(T)-0.75},{(T)-0.5,(T)0.5,(T)0},{(T)0.125,(T)0.125,(T)-0.25}}; int k=(in.mode>>4)&3, rot=(in.mode>>6)%3;
		for(int i=0;i<3;i++) Mt[((i+rot)%3)*4+3]=PAT[k][i]; Mt[15]=(T)1; }
	W m33=Mt[15]; if(!(w_abs(m33)>=W(0.125)&&w_abs(m33)<=8)) SKIP("M[3][3]-out-of-domain");
	W A[16]; for(int i=0;i<16;i++) A[i]=(W)Mt[i]/m33;
	W pm=w_max(w_abs(A[3]),w_max(w_abs(A[7]),w_abs(A[11]))); bool persp= pm!=0; if(persp && !(pm>=W(1e-3))) SKIP("perspective-partition-near-the-epsilon-threshold");
	// exact Gram-Schmidt of the 3x3 block (columns a0,a1,a2)
	auto dot3=[&](const W* a,const W* b){ return a[0]*b[0]+a[1]*b[1]+a[2]*b[2]; };
	const W *a0=A,*a1=A+4,*a2=A+8; W sx=w_sqrt(dot3(a0,a0)); if(!(sx>0)) SKIP("singular"); W r0[3]; for(int i=0;i<3;i++) r0[i]=a0[i]/sx;
	W zr=dot3(r0,a1), w1[3]; for(int i=0;i<3;i++) w1[i]=a1[i]-zr*r0[i]; W sy=w_sqrt(dot3(w1,w1)); if(!(sy>0)) SKIP("singular"); W r1[3]; for(int i=0;i<3;i++) r1[i]=w1[i]/sy;
	W yr=dot3(r0,a2), w2[3]; for(int i=0;i<3;i++) w2[i]=a2[i]-yr*r0[i]; W xr=dot3(r1,w2); for(int i=0;i<3;i++) w2[i]-=xr*r1[i]; W sz=w_sqrt(dot3(w2,w2)); if(!(sz>0)) SKIP("singular");
	W na1=w_sqrt(dot3(a1,a1)), na2=w_sqrt(dot3(a2,a2)), k1=na1/sy, k2=na2/sz;
	if(!(sx*sy*sz>=W(1e-3))) SKIP("determinant-near-the-epsilon-threshold"); if(!(k1<=64&&k2<=64)) SKIP("columns-nearly-dependent");
	W b3[9]={A[0],A[4],A[8],A[1],A[5],A[9],A[2],A[6],A[10]}; W dt=det3(b3);
	{ W sg= dt<0? W(-1): W(1), d0=sg*r0[0], d1=sg*r1[1], d2=sg*w2[2]/sz, tr=d0+d1+d2; c.cls(tr>0? "quaternion-branch:trace>0": (d0>=d1&&d0>=d2)? "quaternion-branch:trace<=0,largest-diagonal-x": (d1>=d2? "quaternion-branch:trace<=0,largest-diagonal-y":"quaternion-branch:trace<=0,largest-diagonal-z")); }
	c.cls(persp? (dt<0?"perspective,flip":"perspective,no-flip"): (dt<0?"affine,flip":"affine,no-flip"));
	// bounds
	W dorth=u*(16*k1+30*k2+16*k1*w_abs(xr)/sz), errR=12*dorth+20*u, L[3]={sx,w_abs(zr)+sy,w_abs(yr)+w_abs(xr)+sz}, bnd[16];
	for(int cc=0;cc<3;cc++) for(int r=0;r<3;r++) bnd[cc*4+r]=W(SF)*(errR+20*u)*L[cc]+4*tiny; for(int r=0;r<3;r++) bnd[12+r]=W(SF)*4*u*w_abs(A[12+r])+4*tiny;
	if(!persp){ for(int cc=0;cc<3;cc++) bnd[cc*4+3]=0; bnd[15]=4*u; }
	else { // perspective = PM^-T rhs with PM = A (first three rows) over (0,0,0,1); cofactor inverse: d(cof) <= 12u absperm(minor), d(det) <= 16u absperm(PM)
		W P[16]; for(int i=0;i<16;i++) P[i]=A[i]; P[3]=P[7]=P[11]=0; P[15]=1; // column-major
		auto at=[&](int r,int cc){ return P[cc*4+r]; };
		W inv[4][4],dinv[4][4]; W det=0,adet=0; W cof[4][4],acof[4][4];
		for(int r=0;r<4;r++) for(int cc=0;cc<4;cc++){ W mn[9],am[9]; int q=0; for(int i=0;i<4;i++){ if(i==r) continue; for(int j=0;j<4;j++){ if(j==cc) continue; mn[q]=at(i,j); am[q]=w_abs(mn[q]); q++; } } cof[r][cc]=(((r+cc)&1)?-1:1)*det3(mn); acof[r][cc]=absperm3(am); }
		for(int cc=0;cc<4;cc++){ det+=at(0,cc)*cof[0][cc]; adet+=w_abs(at(0,cc))*acof[0][cc]; }
		for(int r=0;r<4;r++) for(int cc=0;cc<4;cc++){ inv[cc][r]=cof[r][cc]/det; dinv[cc][r]=(12*u*acof[r][cc]+w_abs(inv[cc][r])*16*u*adet)/w_abs(det); } // inv[i][j] = entry (row i, col j) of PM^-1
		W rhs[4]={A[3],A[7],A[11],1}, pe[4],dp[4]; for(int i=0;i<4;i++){ W s=0,e=0; for(int j=0;j<4;j++){ s+=inv[j][i]*rhs[j]; e+=dinv[j][i]*w_abs(rhs[j])+5*u*w_abs(inv[j][i]*rhs[j]); } pe[i]=s; dp[i]=e; } // p = (PM^-1)^T rhs
		for(int cc=0;cc<4;cc++){ W e=0; for(int j=0;j<4;j++){ W ajc= j<3? A[cc*4+j]: (cc==3? W(1): W(0)); W dA= (j<3)? bnd[cc*4+j]/W(SF): W(0); e+=dp[j]*w_abs(ajc)+w_abs(pe[j])*dA+8*u*w_abs(pe[j]*ajc); } bnd[cc*4+3]=W(SF)*e+4*tiny; }
	}
	typedef glm::vec<3,T,glm::defaultp> V3; V3 gs,gt,gk; glm::vec<4,T,glm::defaultp> gp; glm::qua<T,glm::defaultp> gq;
	bool ok=glm::decompose(mkm<T,4>(Mt),gs,gq,gt,gk,gp);
	if(!ok){ c.fail("decompose:returns-false-for-invertible-composed-matrix","false","true"); return; }
	T comp[17]={gs.x,gs.y,gs.z,gq.w,gq.x,gq.y,gq.z,gt.x,gt.y,gt.z,gk.x,gk.y,gk.z,gp.x,gp.y,gp.z,gp.w}; for(int i=0;i<17;i++) if(!isfinite_b(comp[i])){ c.fail("decompose:non-finite-component-for-finite-input",svec<T,3>(comp)+" q(w,x,y,z)="+svec<T,4>(comp+3)+" t="+svec<T,3>(comp+7)+" skew="+svec<T,3>(comp+10)+" persp="+svec<T,4>(comp+13),"finite components"); return; }
	W cw[17]; for(int i=0;i<17;i++) cw[i]=comp[i]; W Rw[16]; recompose_w<W>(cw,cw+3,cw+7,cw+10,cw+13,Rw);
	auto judge=[&](const char* what,auto get,const char* rn){ bool bad=false,blk=false,trn=false,row3=false; for(int i=0;i<16;i++){ W g=get(i); W err=w_abs(g-A[i]); if(bnd[i]>0) rat(c,(std::string(rn)+(i%4==3?":perspective-row":i>=12?":translation":":block")+":err/bound").c_str(),(double)(err/bnd[i])); if(!(err<=bnd[i])){ bad=true; if(i%4==3) row3=true; else if(i>=12) trn=true; else blk=true; } }
		if(!bad) return false; std::string cl=std::string(what)+":"+(persp?"perspective:":"affine:")+(blk?"rotation-scale-skew-block-not-rebuilt": trn?"translation-not-rebuilt":"perspective-row-not-rebuilt");
		T gm[16]; for(int i=0;i<16;i++) gm[i]=(T)get(i); c.fail(cl,smat<T,4>(gm),swmat<T,4,W>(A)+" (= M/M[3][3])"); return true; };
	judge("decompose(components-recomposed-by-reference-formula)",[&](int i){ return Rw[i]; },"decompose");
	T gr[16]; if(Rec<T>::glm_recompose(gs,gq,gt,gk,gp,gr)){ bool nf=false; for(int i=0;i<16;i++) if(!isfinite_b(gr[i])) nf=true;
		if(nf) c.fail("recompose(decompose(M)):non-finite-for-finite-input",smat<T,4>(gr),swmat<T,4,W>(A)); else judge("recompose(decompose(M))",[&](int i){ return (W)gr[i]; },"recompose"); }
}

// ================================================================ axisAngle(R) -> axisAngleMatrix(axis, angle) == R      p[0] = angle in [0.01, pi-0.01], p[1..3] = axis
// R = Rodrigues matrix rounded to T (entry perturbation u).  cos from the trace: 4u -> angle error 4u/sin + 2u*theta; axis from the antisymmetric part:
// 2u sqrt3/(2 sin) + 4.5u; input perturbation 4u/sin; rebuilt entries ~30u:   (12/sin + 50) u
template<class T> static void k_axisangle(const In<T>& in,vf::Ctx& c){ TRT T a=in.p[0]; W n[3]; const T PI_T=(T)3.14159265358979323846264338327950288L; bool special= a==(T)0 || a==PI_T; // exactly 0 / pi (rounded): the symmetric-matrix paths of axisAngle
	if(!isfinite_b(a)||!((a>=(T)0.01&&a<=(T)3.13)||special)||!unit_axis<T>(in.p+1,n)) SKIP("parameter-out-of-domain"); c.cls(a==0?"angle==0(identity-path)":a==PI_T?"angle==pi(symmetric-path)":"regular");
	EM<T,4> e; rodrigues<T,4>(e,(W)a,n,W(0),W(0)); T R[16]; for(int cc=0;cc<4;cc++) for(int r=0;r<4;r++) R[cc*4+r]=(T)e.E[cc][r];
	glm::vec<3,T,glm::defaultp> ax; T ang; glm::axisAngle(mkm<T,4>(R),ax,ang); T g[16]; getm<T,4>(glm::axisAngleMatrix(ax,ang),g);
	W sth=w_sin((W)a), bound= special? W(SF)*60*u: W(SF)*(W(12)/sth+50)*u; /* angle pi: axis from sqrt of the symmetric part (few u), neglected antisymmetric part 2 sin(fl(pi)) < 2u */ bool bad=false,nf=false; for(int cc=0;cc<3;cc++) for(int r=0;r<3;r++){ int i=cc*4+r; if(!isfinite_b(g[i])){ nf=true; continue; } W err=w_abs((W)g[i]-(W)R[i]); rat(c,"err/bound",(double)(err/bound)); if(!(err<=bound)) bad=true; }
	T aa[4]={ang,ax.x,ax.y,ax.z};
	if(nf||!isfinite_b(ang)) c.fail("axisAngle:non-finite-for-rotation-matrix",svec<T,4>(aa)+" (angle,axis)",smat<T,4>(R)); else if(bad) c.fail("axisAngleMatrix(axisAngle(R)):differs-from-R",smat<T,4>(g)+" from (angle,axis)="+svec<T,4>(aa),smat<T,4>(R)); }
// ================================================================ interpolate(m1, m2, delta) for rigid matrices (documented: rotation and/or translation only)
// p[0..2] axis1, p[3] angle1, p[4..6] t1, p[7..9] axis2, p[10] angle2, p[11..13] t2, p[14] delta.  m1, m2 = Rodrigues rotations rounded to T plus translation.
// documented behaviour: D = R2 R1^T, (axis, theta) = axisAngle(D), result rotation = R(axis, delta*theta) R1, translation = t1 + delta (t2 - t1).
// D entries 4u -> cos(theta) 8u -> theta 8u/sin; axis direction 8u/sin + 9u, entry sensitivity to the axis <= 5: ((12|delta| + 45)/sin + 80) u per entry
template<class T> static void k_interpolate(const In<T>& in,vf::Ctx& c){ TRT const T* p=in.p; W n1[3],n2[3]; T dl=p[14];
	if(!ok_angle(p[3])||!ok_angle(p[10])||!unit_axis<T>(p,n1)||!unit_axis<T>(p+7,n2)||!finU<T>(p+4,3,10)||!finU<T>(p+11,3,10)||!isfinite_b(dl)||!(std::fabs((double)dl)<=2)) SKIP("parameter-out-of-domain");
	EM<T,4> e1,e2; rodrigues<T,4>(e1,(W)p[3],n1,W(0),W(0)); rodrigues<T,4>(e2,(W)p[10],n2,W(0),W(0)); T m1[16],m2[16]; ident(m1,4); ident(m2,4);
	for(int cc=0;cc<3;cc++) for(int r=0;r<3;r++){ m1[cc*4+r]=(T)e1.E[cc][r]; m2[cc*4+r]=(T)e2.E[cc][r]; } for(int r=0;r<3;r++){ m1[12+r]=p[4+r]; m2[12+r]=p[11+r]; }
	W D[3][3]; for(int cc=0;cc<3;cc++) for(int r=0;r<3;r++){ W x=0; for(int k=0;k<3;k++) x+=(W)m2[k*4+r]*(W)m1[k*4+cc]; D[cc][r]=x; }
	W ct=(D[0][0]+D[1][1]+D[2][2]-1)/2; if(!(w_abs(ct)<=W(0.99875))) SKIP("relative-rotation-angle-within-0.05-of-0-or-pi"); W th=w_acos(ct), sth=w_sin(th);
	W ax[3]={D[1][2]-D[2][1],D[2][0]-D[0][2],D[0][1]-D[1][0]}, al=w_sqrt(ax[0]*ax[0]+ax[1]*ax[1]+ax[2]*ax[2]); for(int i=0;i<3;i++) ax[i]/=al;
	EM<T,4> ed; rodrigues<T,4>(ed,(W)dl*th,ax,W(0),W(0)); W want[16]; for(int i=0;i<16;i++) want[i]= i==15? W(1): W(0);
	for(int cc=0;cc<3;cc++) for(int r=0;r<3;r++){ W x=0; for(int k=0;k<3;k++) x+=ed.E[k][r]*(W)m1[cc*4+k]; want[cc*4+r]=x; }
	W bnd[16]; for(int i=0;i<16;i++) bnd[i]=0; W bb=W(SF)*((12*w_abs((W)dl)+45)/sth+80)*u; for(int cc=0;cc<3;cc++) for(int r=0;r<3;r++) bnd[cc*4+r]=bb;
	for(int r=0;r<3;r++){ W t1=p[4+r],t2=p[11+r]; want[12+r]=t1+(W)dl*(t2-t1); bnd[12+r]=W(SF)*3*u*(w_abs(t1)+w_abs((W)dl)*(w_abs(t1)+w_abs(t2)))+2*tiny; }
	T g[16]; getm<T,4>(glm::interpolate(mkm<T,4>(m1),mkm<T,4>(m2),dl),g); bool blk=false,trn=false,row=false;
	for(int i=0;i<16;i++){ if(!isfinite_b(g[i])){ c.fail("interpolate:non-finite-for-rigid-input",smat<T,4>(g),swmat<T,4,W>(want)); return; } W err=w_abs((W)g[i]-want[i]); if(bnd[i]>0) rat(c,i>=12?"translation:err/bound":"rotation:err/bound",(double)(err/bnd[i])); if(!(err<=bnd[i])){ if(i%4==3) row=true; else if(i>=12) trn=true; else blk=true; } }
	c.cls(dl==0?"delta==0":dl==1?"delta==1":(dl>0&&dl<1)?"0<delta<1":"extrapolation");
	if(blk) c.fail("interpolate:rotation-differs-from-R(axis,delta*angle)*R1",smat<T,4>(g),swmat<T,4,W>(want)); else if(trn) c.fail("interpolate:translation-differs-from-linear-interpolation",smat<T,4>(g),swmat<T,4,W>(want)); else if(row) c.fail("interpolate:last-row-not-(0,0,0,1)",smat<T,4>(g),swmat<T,4,W>(want)); }
// ---------------------------------------------------------------- op registration
#define F8(F) F F F F F F F F
#define FMT(F) F8(F) F8(F) F8(F) F8(F) "ii"
#define DEF_TYPE(T_,TN,F) \
	VF_OP(translate_##TN, In_##TN, FMT(F)){ k_translate<T_>(in,c); } \
	VF_OP(rotate_##TN, In_##TN, FMT(F)){ k_rotate<T_>(in,c,0); } \
	VF_OP(rotate_slow_##TN, In_##TN, FMT(F)){ k_rotate<T_>(in,c,1); } \
	VF_OP(scale_##TN, In_##TN, FMT(F)){ k_scale<T_>(in,c,false); } \
	VF_OP(scale_slow_##TN, In_##TN, FMT(F)){ k_scale<T_>(in,c,true); } \
	VF_OP(shear_##TN, In_##TN, FMT(F)){ k_shear<T_>(in,c,false); } \
	VF_OP(shear_slow_##TN, In_##TN, FMT(F)){ k_shear<T_>(in,c,true); } \
	VF_OP(gtx_transform_##TN, In_##TN, FMT(F)){ k_gtx_transform<T_>(in,c); } \
	VF_OP(matrix_transform_2d_##TN, In_##TN, FMT(F)){ k_2d<T_>(in,c); } \
	VF_OP(transform2_##TN, In_##TN, FMT(F)){ k_transform2<T_>(in,c); } \
	VF_OP(scaleBias_build_##TN, In_##TN, FMT(F)){ k_scalebias<T_>(in,c); } \
	VF_OP(rotate_vector_##TN, In_##TN, FMT(F)){ k_rotvec<T_>(in,c); } \
	VF_OP(orientation_##TN, In_##TN, FMT(F)){ k_orientation<T_>(in,c); } \
	VF_OP(rotateNormalizedAxis_mat_##TN, In_##TN, FMT(F)){ k_rotate<T_>(in,c,2); } \
	VF_OP(rotateNormalizedAxis_quat_##TN, In_##TN, FMT(F)){ k_rna_quat<T_>(in,c); } \
	VF_OP(axisAngleMatrix_##TN, In_##TN, FMT(F)){ k_rotate<T_>(in,c,3); } \
	VF_OP(axisAngle_roundtrip_##TN, In_##TN, FMT(F)){ k_axisangle<T_>(in,c); } \
	VF_OP(interpolate_##TN, In_##TN, FMT(F)){ k_interpolate<T_>(in,c); } \
	VF_OP(lookAt_##TN, In_##TN, FMT(F)){ k_lookat<T_>(in,c,0); } \
	VF_OP(lookAtRH_##TN, In_##TN, FMT(F)){ k_lookat<T_>(in,c,1); } \
	VF_OP(lookAtLH_##TN, In_##TN, FMT(F)){ k_lookat<T_>(in,c,2); } \
	VF_OP(decompose_recompose_##TN, In_##TN, FMT(F)){ k_decompose<T_>(in,c); }
DEF_TYPE(float,f,"f")
DEF_TYPE(double,d,"d")

struct Ops { vf::Op *translate,*rotate,*rotate_slow,*scale,*scale_slow,*shear,*shear_slow,*gtx,*t2d,*tr2,*sbias,*rotvec,*orient,*rna_m,*rna_q,*aam,*aart,*lookat,*lookrh,*looklh,*decomp,*interp; };
#define OPS(TN) Ops{&translate_##TN,&rotate_##TN,&rotate_slow_##TN,&scale_##TN,&scale_slow_##TN,&shear_##TN,&shear_slow_##TN,&gtx_transform_##TN,&matrix_transform_2d_##TN,&transform2_##TN,&scaleBias_build_##TN,&rotate_vector_##TN,&orientation_##TN,&rotateNormalizedAxis_mat_##TN,&rotateNormalizedAxis_quat_##TN,&axisAngleMatrix_##TN,&axisAngle_roundtrip_##TN,&lookAt_##TN,&lookAtRH_##TN,&lookAtLH_##TN,&decompose_recompose_##TN,&interpolate_##TN}

// ---------------------------------------------------------------- workload
template<class T> struct Gen { typedef typename Tr<T>::W W;
	vf::Rng& r; explicit Gen(vf::Rng& r_):r(r_){}
	T comp(int m){ switch(m){ case 0: case 1: case 2: return (T)r.uniform(-1,1); case 3: return (T)r.gauss(); case 4: return r.coin()? (T)0: (T)r.uniform(-1,1); case 5: return (T)r.logmag(-12,0); case 6: return (T)r.range(-8,8);
		default: { static const double S[]={0,1,-1,0.5,-0.5,2,-2,0.75,-0.25,3,-3,1.5,0.1,-0.1,1.0/3}; return (T)S[r.below(15)]; } } }
	int pickE(int emax){ return r.below(4)<2? 0: r.range(-emax,emax); }
	void vec(T* v,int L,int emax){ for(;;){ int m=(int)r.below(9); bool nz=false; if(m==8){ for(int i=0;i<L;i++) v[i]=0; v[r.below(L)]= r.coin()? (T)1: (T)-1; nz=true; } else for(int i=0;i<L;i++){ v[i]=comp(m); if(v[i]!=0) nz=true; }
		if(nz) break; } int e=pickE(emax); for(int i=0;i<L;i++) v[i]=std::ldexp(v[i],e); }
	void base(T* m,int N){ int kind=(int)r.below(10), e=pickE((int)Tr<T>::EG); for(int i=0;i<16;i++) m[i]=0;
		switch(kind){ case 0: ident(m,N); return; case 6: return;
		case 7: for(int i=0;i<N;i++) m[i*N+i]=std::ldexp((T)r.uniform(-2,2),e); return;
		case 2: for(int cc=0;cc<N;cc++) for(int q=0;q<N-1;q++) m[cc*N+q]=std::ldexp((T)r.uniform(-1,1),e); m[N*N-1]=1; return;
		case 8: for(int cc=0;cc<N;cc++){ int ec=pickE((int)Tr<T>::EG); for(int q=0;q<N;q++) m[cc*N+q]=std::ldexp((T)r.uniform(-1,1),ec); } return;
		default: { int cm= kind==3? 3: kind==4? 4: kind==5? 6: kind==9? 7: 0; for(int i=0;i<N*N;i++) m[i]=std::ldexp(comp(cm),e); } } }
	T angle(){ int m=(int)r.below(10); if(m<5) return (T)r.uniform(-25.2,25.2); if(m==5) return (T)r.uniform(-3.1415926,3.1415926);
		if(m==6){ static const double S[]={0,1.5707963267948966,3.141592653589793,6.283185307179586,0.7853981633974483,4.71238898038469,12.566370614359172,1e-3,1e-6,1,100,0.5,2.0943951023931953}; double a=S[r.below(13)]; return (T)(r.coin()? a: -a); }
		if(m==7) return (T)r.logmag(-20,0); if(m==8){ T a=(T)(r.range(-16,16)*1.5707963267948966); int k=r.range(-3,3); for(int i=0;i<std::abs(k);i++) a=std::nextafter(a,k>0?(T)INFINITY:(T)-INFINITY); return a; }
		return (T)r.uniform(-700,700); }
	void unit3(T* v){ for(;;){ double x[3]; long double n=0; for(int i=0;i<3;i++){ x[i]=r.gauss(); n+=(long double)x[i]*x[i]; } if(n<1e-6) continue; W wn=w_sqrt((W)n); for(int i=0;i<3;i++) v[i]=(T)((W)x[i]/wn); return; } }
	void unitize(T* v){ W n=w_sqrt(n2of3<T>(v)); for(int i=0;i<3;i++) v[i]=(T)((W)v[i]/n); }
	void axis(T* v){ int m=(int)r.below(8);
		switch(m){ default: vec(v,3,(int)Tr<T>::EG); return;
		case 3: { v[0]=v[1]=v[2]=0; v[r.below(3)]=std::ldexp((T)(r.coin()?1:-1),pickE((int)Tr<T>::EG)); return; }
		case 4: { int i=(int)r.below(3); for(int k=0;k<3;k++) v[k]=(T)r.logmag(-30,-3); v[i]=(T)(r.coin()?1:-1); return; }
		case 5: for(;;){ bool nz=false; for(int k=0;k<3;k++){ v[k]=comp(6); if(v[k]!=0) nz=true; } if(nz) return; }
		case 6: unit3(v); return;
		case 7: { vec(v,3,4); int i=(int)r.below(3); T keep=v[(i+1)%3]; v[i]=0; if(v[0]==0&&v[1]==0&&v[2]==0) v[(i+1)%3]= keep!=0? keep: (T)1; return; } } }
};

template<class T> static void run_type(const char* label,Ops o,u64 n){
	vf::parallel(label,[&](int t,int TT,vf::Ctx& c){ Gen<T> g(c.rng); vf::Rng& r=c.rng;
#define RUN(OP,IN) do{ if(vf::want(*o.OP)) vf::run(c,*o.OP,IN); }while(0)
		for(u64 it=t;it<n;it+=TT){ In<T> in; const int EG=(int)Tr<T>::EG;
			auto fresh=[&](int N){ memset(&in,0,sizeof in); if(N) g.base(in.m,N); };
			// translate / scale (shared input), shear
			fresh(4); g.vec(in.p,3,EG); if(r.below(16)==0) for(int i=0;i<3;i++) in.p[i]= r.coin()? (T)0: (T)1; RUN(translate,in); RUN(scale,in); RUN(scale_slow,in);
			fresh(4); g.vec(in.p,3,EG); if(r.below(8)==0) in.p[0]=in.p[1]=in.p[2]=0; for(int i=3;i<9;i++) in.p[i]= r.below(4)==0? (T)0: (T)(r.below(3)==0? r.logmag(-8,8): r.uniform(-2,2)); RUN(shear,in); RUN(shear_slow,in);
			// rotate family (shared input): p[0] = angle, p[1..3] = axis
			fresh(4); in.p[0]=g.angle(); g.axis(in.p+1); RUN(rotate,in); RUN(rotate_slow,in); RUN(aam,in);
			{ In<T> j=in; g.unitize(j.p+1); RUN(rna_m,j); }
			{ In<T> j=in; memset(j.m,0,sizeof j.m); j.k=(int)(it%3); if(j.k!=1){ g.vec(j.p+1,3,EG); } RUN(gtx,j); }
			// 2D helpers
			fresh(3); in.k=(int)(it%5); if(in.k==1) in.p[0]=g.angle(); else { g.vec(in.p,2,EG); if(r.below(8)==0) in.p[0]=0; } RUN(t2d,in);
			// transform2
			{ int k=(int)(it%8); fresh((k==0||k==1||k==5)?3:4); in.k=k; if(k==5||k==6){ g.unit3(in.p); if(r.below(4)==0){ T s=(T)r.uniform(0.25,2); for(int i=0;i<3;i++) in.p[i]*=s; } } else g.vec(in.p,3,EG); RUN(tr2,in);
			  fresh(0); g.vec(in.p,2,EG); RUN(sbias,in); }
			// rotate_vector
			fresh(0); in.k=(int)(it%9); g.vec(in.p,4,EG); in.p[4]=g.angle(); g.axis(in.p+5); RUN(rotvec,in);
			// orientation: Up = cos(th) N + sin(th) P  (P perpendicular to N), or two independent unit vectors
			fresh(0); { T N[3],P[3]; g.unit3(N); g.unit3(P); if(r.below(4)==0){ for(int i=0;i<3;i++){ in.p[i]=N[i]; in.p[3+i]=P[i]; } } else { long double d=0; for(int i=0;i<3;i++) d+=(long double)N[i]*P[i]; long double q[3],qn=0; for(int i=0;i<3;i++){ q[i]=P[i]-d*N[i]; qn+=q[i]*q[i]; } qn=sqrtl(qn);
				double th= r.coin()? r.uniform(0.06,3.08): (r.coin()? r.uniform(0.051,0.2): r.uniform(2.94,3.09)); T U[3]; for(int i=0;i<3;i++) U[i]=(T)(cosl(th)*N[i]+sinl(th)*(qn>0? q[i]/qn: 0)); g.unitize(U); for(int i=0;i<3;i++){ in.p[i]=N[i]; in.p[3+i]=U[i]; } } } RUN(orient,in);
			// quaternion rotateNormalizedAxis
			fresh(0); g.vec(in.p,4,4); if(r.coin()){ long double nn=0; for(int i=0;i<4;i++) nn+=(long double)in.p[i]*in.p[i]; nn=sqrtl(nn); for(int i=0;i<4;i++) in.p[i]=(T)(in.p[i]/nn); } in.p[4]=g.angle(); g.unit3(in.p+5); if(r.below(6)==0){ in.p[5]=in.p[6]=in.p[7]=0; in.p[5+r.below(3)]=(T)(r.coin()?1:-1); } RUN(rna_q,in);
			// axisAngle round trip
			fresh(0); { int m=(int)r.below(6); in.p[0]=(T)(m<4? r.uniform(0.01,3.13): m==4? r.uniform(0.0101,0.05): r.uniform(3.09,3.1299)); if(r.below(12)==0) in.p[0]= r.below(3)==0? (T)0: (T)3.14159265358979323846264338327950288L; g.axis(in.p+1); } RUN(aart,in);
			// interpolate: two rigid matrices, delta in [0,1] (mostly), the ends, and mild extrapolation
			fresh(0); g.axis(in.p); in.p[3]=(T)r.uniform(-3.1415926,3.1415926); g.axis(in.p+7); in.p[10]=(T)r.uniform(-3.1415926,3.1415926); if(r.below(8)==0){ for(int i=0;i<3;i++) in.p[7+i]=in.p[i]; in.p[10]=in.p[3]+(T)r.uniform(0.06,3.0)*(T)(r.coin()?1:-1); }
			for(int i=0;i<3;i++){ in.p[4+i]= r.below(6)==0? (T)0: (T)r.uniform(-8,8); in.p[11+i]= r.below(6)==0? (T)0: (T)r.uniform(-8,8); } { int m=(int)r.below(8); in.p[14]= m<5? (T)r.unit(): m==5? (T)(r.coin()?0:1): m==6? (T)0.5: (T)r.uniform(-0.5,1.5); } RUN(interp,in);
			// lookAt: eye, center = eye + distance * direction (or independent), up = world axis / random / nearly parallel to the view direction
			fresh(0); { T* eye=in.p; T* cen=in.p+3; T* up=in.p+6; int m=(int)r.below(8); if(m==0){ eye[0]=eye[1]=eye[2]=0; } else g.vec(eye,3,10);
				T dir[3]; g.unit3(dir); if(r.below(6)==0){ dir[0]=dir[1]=dir[2]=0; dir[r.below(3)]=(T)(r.coin()?1:-1); }
				if(r.below(5)==0) g.vec(cen,3,10); else { T dist=(T)std::exp2(r.uniform(-10,12)); for(int i=0;i<3;i++) cen[i]=eye[i]+dist*dir[i]; }
				int um=(int)r.below(6); if(um<2){ up[0]=up[1]=up[2]=0; up[um==0?1:(int)r.below(3)]=(T)((um==1&&r.coin())?-1:1); }
				else if(um<4) g.vec(up,3,EG);
				else { // up at angle phi to the actual view direction, phi log-uniform in [2e-3, pi/2], either side, random length
					long double f[3],fn=0; for(int i=0;i<3;i++){ f[i]=(long double)cen[i]-(long double)eye[i]; fn+=f[i]*f[i]; } fn=sqrtl(fn); T P[3]; g.unit3(P); long double d=0,q[3],qn=0; if(fn>0){ for(int i=0;i<3;i++){ f[i]/=fn; d+=f[i]*P[i]; } for(int i=0;i<3;i++){ q[i]=P[i]-d*f[i]; qn+=q[i]*q[i]; } qn=sqrtl(qn); }
					if(fn>0&&qn>1e-3){ double phi=std::exp(r.uniform(std::log(2e-3),std::log(1.5707))); long double sgn= r.coin()? 1: -1; T len=(T)std::exp2(r.uniform(-8,8)); for(int i=0;i<3;i++) up[i]=(T)((sgn*cosl(phi)*f[i]+sinl(phi)*q[i]/qn))*len; } else g.vec(up,3,4); } }
			RUN(lookat,in); RUN(lookrh,in); RUN(looklh,in);
			// decompose / recompose: all sign patterns of the scale, angles over the whole circle (trace <= 0 branches with every largest diagonal), optional skew and perspective
			fresh(0); { T* p=in.p; int sm=(int)r.below(20); for(int i=0;i<3;i++){ double mag= sm<10? r.uniform(0.5,2): sm<17? std::exp2(r.uniform(-3.3,3.3)): std::exp2(r.uniform(-6,6)); p[i]=(T)(r.coin()? mag: -mag); } if(r.below(10)==0) p[0]=p[1]=p[2]=(T)(r.coin()?1:-1);
				g.axis(p+3); int am=(int)r.below(10); p[6]= am<4? (T)r.uniform(-3.1415926,3.1415926): am<8? (T)(r.uniform(2.0,3.1415926)*(r.coin()?1:-1)): am==8? (T)0: g.angle();
				if(r.below(6)==0) p[7]=p[8]=p[9]=0; else for(int i=0;i<3;i++) p[7+i]=(T)r.uniform(-4,4)*(T)(r.below(4)==0? 8: 1);
				int km=(int)r.below(4); for(int i=0;i<3;i++) p[10+i]=0; if(km==1) p[10+r.below(3)]=(T)r.uniform(-1.5,1.5); else if(km>=2) for(int i=0;i<3;i++) p[10+i]=(T)r.uniform(-1,1);
				if(r.coin()){ for(int i=0;i<3;i++) p[13+i]=(T)r.uniform(-0.5,0.5); if(r.below(4)==0) p[13+r.below(3)]=0; }
				if(r.below(10)<7){ in.mode=1; in.m[0]=1; } else { in.mode=0; in.m[0]=(T)r.uniform(0.5,2); } if(r.below(8)==0) in.mode|= 8|((int)r.below(4)<<4)|((int)r.below(3)<<6); }
			RUN(decomp,in);
		}
#undef RUN
	});
}

static void workload(){
	vf::note("handedness", CONFIG_LH? "GLM_FORCE_LEFT_HANDED defined: lookAt must equal the left-handed transform (view direction to +z)":"default configuration: lookAt must equal the right-handed transform (view direction to -z)");
	vf::note("conventions", "2D/3D gtx shear helpers are checked against the placement implied by their parameter names (see comments in the monitor); recompose<double> does not compile, double decompositions are recomposed by the reference formula only");
	run_type<float>("float",OPS(f),vf::N(250000,12000000));
	run_type<double>("double",OPS(d),vf::N(80000,2500000));
}
VF_MAIN("C09_transform")
