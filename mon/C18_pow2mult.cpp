// C18 (part 1) — power-of-two family, multiple family (integer and floating), findNSB, integer log2 (gtc/integer),
// pow/sqrt/mod/factorial (gtx/integer), highest/lowestBitValue + powerOfTwoAbove/Below/Nearest (gtx/bit)
// versus loop / wide-integer reference models written from the documentation text and the property statement.
#include "vf.hpp"
#include "ref.hpp"
#include <glm/glm.hpp>
#include <glm/ext/scalar_integer.hpp>
#include <glm/ext/vector_integer.hpp>
#include <glm/gtc/round.hpp>
#include <glm/gtc/integer.hpp>
#include <glm/gtc/type_precision.hpp>
#if defined(__GNUC__)
#	pragma GCC diagnostic ignored "-Wdeprecated-declarations"   // gtx/bit powerOfTwoAbove/Below/Nearest are marked deprecated
#endif
#include <glm/gtx/integer.hpp>
#include <glm/gtx/bit.hpp>
using namespace ref;
typedef __int128 I;

// complete enumerations of the thorough tier are used by the main unit only; secondary builds (other compiler / flags) pass --x-light 1
static bool full_tier(){ return vf::thorough() && !vf::cfg().extra.count("light"); }
#define RUN(OP,IN) do{ if(vf::want(OP)) vf::run(c,OP,IN); }while(0)
static std::string L_(int L){ return "vec"+std::to_string(L); }
// Per-thread limiter: a defect that fires on most inputs would otherwise spend the run formatting witnesses. The class of every failure is
// still computed (as a small integer code); only the first LIMIT reports per (operation, vector length, overload form, class) and thread are recorded,
// so violation counts are lower bounds (capped at 16*LIMIT per class) while no class is ever dropped.
#include <unordered_map>
struct Throttle { enum { LIMIT=1500 }; std::unordered_map<u64,u32> n;
	bool ok(u32 L,u32 form,u32 code){ u64 k=((u64)vf::g_crumb.op->id<<44) ^ ((u64)L<<40) ^ ((u64)form<<36) ^ code; u32& v=n[k]; if(v>=LIMIT) return false; ++v; return true; } };
static thread_local Throttle g_thr;
#define TFAIL(L,CLS,GOT,WANT) do{ std::string cls_=(CLS); if(g_thr.ok(L,2,(u32)std::hash<std::string>()(cls_))) c.fail(cls_,GOT,WANT); }while(0)
// input-class histogram: same counts as Ctx::cls, but the map node is looked up once per (thread, operation, class literal)
struct ClsCache { struct Slot { const char* name[8]; u64* cnt[8]; int n; }; std::vector<Slot> slots; vf::Ctx* owner=nullptr;
	inline void hit(vf::Ctx& c,const char* name){ if(owner!=&c){ slots.assign(vf::registry().size(),Slot{}); owner=&c; } Slot& s=slots[vf::g_crumb.op->id];
		for(int i=0;i<s.n;i++) if(s.name[i]==name){ ++*s.cnt[i]; return; }
		u64* q=&c.cur().classes[name]; ++*q; if(s.n<8){ s.name[s.n]=name; s.cnt[s.n]=q; s.n++; } } };
static thread_local ClsCache g_cls;
#define CLS(NAME) g_cls.hit(c,NAME)
static std::string vpre(int L,int form){ std::string p; if(L) p=L_(L)+":"; if(form) p+="scalar-multiple-form:"; return p; }

// ---------------------------------------------------------------- type facts
template<class T> struct TI { enum { B=sizeof(T)*8, S=std::is_signed<T>::value };
	static I lo(){ return (I)std::numeric_limits<T>::min(); } static I hi(){ return (I)std::numeric_limits<T>::max(); }
	static I maxpow(){ return (I)1<<(S? B-2 : B-1); }   // largest power of two whose value (and, for signed, whose negation) is representable
	static bool is_min(T x){ return S && (I)x==lo(); } };

// ---------------------------------------------------------------- reference models (no glm code)
static bool r_ispow2(I a){ if(a<=0) return false; int n=0; for(int i=0;i<100;i++) n+=(int)((a>>i)&1); return n==1; }
static I r_ceilpow2(I a){ I p=1; while(p<a) p<<=1; return p; }          // a >= 1 : smallest power of two >= a
static I r_floorpow2(I a){ I p=1; while((p<<1)<=a) p<<=1; return p; }   // a >= 1 : largest power of two <= a
static inline I r_mod(I x,I m){ if(x==(I)(i32)x && m==(I)(i32)m) return (I)((i32)x%(i32)m); if(x==(I)(i64)x && m==(I)(i64)m) return (I)((i64)x%(i64)m); return x%m; }   // m > 0 (128-bit division only when needed)
static I r_floormul(I x,I m){ I r=r_mod(x,m); if(r<0) r+=m; return x-r; }      // m > 0 : largest multiple of m <= x
static I r_ceilmul(I x,I m){ I f=r_floormul(x,m); return f==x? x : f+m; }
static inline void r_floorceil(I x,I m,I& f,I& c){ f=r_floormul(x,m); c= f==x? x : f+m; }
template<class T> static int r_findNSB(T x,int n){ typedef typename std::make_unsigned<T>::type U; U u=(U)x; int cnt=0; for(int i=0;i<(int)TI<T>::B;i++) if((u>>i)&1){ if(++cnt==n) return i; } return -1; }

// ================================================================= power-of-two family
enum { PF_IS, PF_NEXT, PF_PREV, PF_CEIL, PF_FLOOR, PF_ROUND, PF_ABOVE, PF_BELOW, PF_NEAREST, PF_HBV, PF_LBV };
// domain (property statement + DESIGN "B"): x != 0; the answer must be representable; signed MIN has no representable magnitude.
// Negative x: glm's convention (pinned by its own tests: ceilPowerOfTwo(-3)==-4, (-8)==-8) is sign-symmetric, f(x) = -f(|x|);
// it is checked for isPowerOfTwo/next/ceil only. floor/prev/round/gtx-bit of negative x are not judged (no documented meaning).
template<class T,int F> static bool p_dom(T x){ I v=(I)x; if(v==0 || TI<T>::is_min(x)) return false; I a= v<0? -v: v;
	if(F==PF_IS) return true;
	if(F==PF_NEXT||F==PF_CEIL) return r_ceilpow2(a)<=TI<T>::maxpow();
	if(F==PF_ABOVE) return v>0 && r_ceilpow2(a)<=TI<T>::maxpow();
	if(F==PF_PREV||F==PF_FLOOR||F==PF_BELOW||F==PF_HBV) return v>0;
	if(F==PF_ROUND||F==PF_NEAREST){ if(v<0) return false; I f=r_floorpow2(a), c=r_ceilpow2(a); return c<=TI<T>::maxpow() || (a-f)<(c-a); }
	if(F==PF_LBV) return true;
	return false; }
// want: primary answer, alt = second acceptable answer (ties of "nearest"), or == want
template<class T,int F> static void p_want(T x,I& want,I& alt){ I v=(I)x; I a= v<0? -v: v; I s= v<0? -1: 1; I f=r_floorpow2(a), c=r_ceilpow2(a);
	if(F==PF_IS){ want=alt= r_ispow2(a)?1:0; return; }
	if(F==PF_NEXT||F==PF_CEIL||F==PF_ABOVE){ want=alt=s*c; return; }
	if(F==PF_PREV||F==PF_FLOOR||F==PF_BELOW||F==PF_HBV){ want=alt=f; return; }
	if(F==PF_ROUND||F==PF_NEAREST){ if(a-f<c-a) want=alt=f; else if(a-f>c-a) want=alt=c; else { want=f; alt=c; } return; }
	if(F==PF_LBV){ typedef typename std::make_unsigned<T>::type U; U u=(U)x; I r=0; for(int i=0;i<(int)TI<T>::B;i++) if((u>>i)&1){ r=(I)1<<i; break; } want=alt= (I)(T)(U)r; return; }   // value of the lowest set bit, as a T bit pattern
}
enum { PK_NONPOW_AS_POW, PK_POW_AS_NONPOW, PK_WRONG_BIT, PK_NOT_SINGLE_BIT, PK_POWER_INPUT_CHANGED, PK_WRAPPED, PK_NOT_POW2, PK_SIGN_FLIPPED, PK_BELOW, PK_ABOVE, PK_NEAR_UP_GOT_BELOW, PK_NEAR_LO_GOT_ABOVE, PK_WRONG_POWER };
template<class T,int F> static u32 p_code(T x,I got){ I v=(I)x; I a= v<0? -v: v; I f=r_floorpow2(a), c=r_ceilpow2(a); u32 neg= v<0? 16:0; I g= got<0? -got: got;
	if(F==PF_IS) return neg|(got? PK_NONPOW_AS_POW:PK_POW_AS_NONPOW);
	if(F==PF_HBV||F==PF_LBV) return neg|((r_ispow2(g)||got==TI<T>::lo())? PK_WRONG_BIT:PK_NOT_SINGLE_BIT);
	if(f==c) return neg|PK_POWER_INPUT_CHANGED;
	bool up=(F==PF_NEXT||F==PF_CEIL||F==PF_ABOVE), down=(F==PF_PREV||F==PF_FLOOR||F==PF_BELOW);
	if((I)c>TI<T>::maxpow() && !up && !down && got!=f) return neg|PK_WRAPPED;
	if(!r_ispow2(g)) return neg|PK_NOT_POW2;
	if(v<0 && got>0) return neg|PK_SIGN_FLIPPED;
	if(up && g==f) return neg|PK_BELOW;
	if(down && g==c) return neg|PK_ABOVE;
	if(!up && !down){ if(g==f) return neg|PK_NEAR_UP_GOT_BELOW; if(g==c) return neg|PK_NEAR_LO_GOT_ABOVE; }
	return neg|PK_WRONG_POWER; }
static std::string p_name(u32 code){ static const char* N[]={"non-power:reported-as-power","power:reported-as-non-power","wrong-bit","result-not-a-single-bit","power-input:not-returned-unchanged",
	"next-power-not-representable:returns-wrapped-value-instead-of-power-below","result-not-a-power-of-two","result-sign-flipped","returns-power-below","returns-power-above",
	"nearer-to-upper:returns-power-below","nearer-to-lower:returns-power-above","wrong-power"}; return std::string(code&16? "negative:":"")+N[code&15]; }
template<class T,int F> static T p_call(T x){
	if constexpr(F==PF_NEXT) return glm::nextPowerOfTwo(x); else if constexpr(F==PF_PREV) return glm::prevPowerOfTwo(x);
	else if constexpr(F==PF_CEIL) return glm::ceilPowerOfTwo(x); else if constexpr(F==PF_FLOOR) return glm::floorPowerOfTwo(x);
	else if constexpr(F==PF_ROUND) return glm::roundPowerOfTwo(x); else if constexpr(F==PF_ABOVE) return glm::powerOfTwoAbove(x);
	else if constexpr(F==PF_BELOW) return glm::powerOfTwoBelow(x); else if constexpr(F==PF_NEAREST) return glm::powerOfTwoNearest(x);
	else if constexpr(F==PF_HBV) return glm::highestBitValue(x); else if constexpr(F==PF_LBV) return glm::lowestBitValue(x);
	else return (T)glm::isPowerOfTwo(x); }
template<class T,int F,int L> static glm::vec<L,T,glm::highp> p_callv(glm::vec<L,T,glm::highp> const& v){
	if constexpr(F==PF_NEXT) return glm::nextPowerOfTwo(v); else if constexpr(F==PF_PREV) return glm::prevPowerOfTwo(v);
	else if constexpr(F==PF_CEIL) return glm::ceilPowerOfTwo(v); else if constexpr(F==PF_FLOOR) return glm::floorPowerOfTwo(v);
	else if constexpr(F==PF_ROUND) return glm::roundPowerOfTwo(v); else if constexpr(F==PF_ABOVE) return glm::powerOfTwoAbove(v);
	else if constexpr(F==PF_BELOW) return glm::powerOfTwoBelow(v); else if constexpr(F==PF_NEAREST) return glm::powerOfTwoNearest(v);
	else if constexpr(F==PF_HBV) return glm::highestBitValue(v); else if constexpr(F==PF_LBV) return glm::lowestBitValue(v);
	else { glm::vec<L,bool,glm::highp> b=glm::isPowerOfTwo(v); glm::vec<L,T,glm::highp> r; for(int i=0;i<L;i++) r[i]=(T)b[i]; return r; } }

template<class T> struct InP { T v[4]; };
template<class T,int F> static void kp(const InP<T>& in,vf::Ctx& c){ T x=in.v[0]; if(!p_dom<T,F>(x)){ CLS("out-of-domain:not-judged"); return; }
	I want,alt; p_want<T,F>(x,want,alt); if((I)x<0) CLS("negative"); if(want!=alt) CLS("tie:either-accepted"); if(r_ispow2((I)x<0? -(I)x:(I)x)) CLS("power-input");
	T got=p_call<T,F>(x); if((I)got!=want && (I)got!=alt){ u32 k=p_code<T,F>(x,(I)got); if(g_thr.ok(0,0,k)) c.fail(p_name(k),got,(T)want); } }
template<class T,int F,int L> static void kpv1(const InP<T>& in,vf::Ctx& c){ glm::vec<L,T,glm::highp> v(1); for(int i=0;i<L;i++){ if(!p_dom<T,F>(in.v[i])){ CLS("out-of-domain:not-judged"); return; } v[i]=in.v[i]; }
	glm::vec<L,T,glm::highp> g=p_callv<T,F,L>(v); for(int i=0;i<L;i++){ I want,alt; p_want<T,F>(in.v[i],want,alt); if((I)g[i]!=want && (I)g[i]!=alt){ u32 k=p_code<T,F>(in.v[i],(I)g[i]); if(g_thr.ok(L,0,k)) c.fail(vpre(L,0)+p_name(k),(T)g[i],(T)want); } } }
template<class T,int F> static void kpv(const InP<T>& in,vf::Ctx& c){ kpv1<T,F,1>(in,c); kpv1<T,F,2>(in,c); kpv1<T,F,3>(in,c); kpv1<T,F,4>(in,c); }

// ================================================================= multiple family (integers)
enum { MF_IS, MF_NEXT, MF_PREV, MF_CEIL, MF_FLOOR, MF_ROUND };
// domain: Multiple > 0 ("valid positive multiple"); the answer (for round: both neighbours) representable; for 32/64-bit signed types x != MIN
// (its negation does not exist; 8/16-bit types are computed in int, where it does).
template<class T,int F> static bool m_dom(T x,T m){ I X=(I)x, M=(I)m; if(M<=0) return false; if(F==MF_IS) return true; if(TI<T>::is_min(x) && sizeof(T)>=4) return false;
	I f,c; r_floorceil(X,M,f,c); if(F==MF_NEXT||F==MF_CEIL) return c<=TI<T>::hi(); if(F==MF_PREV||F==MF_FLOOR) return f>=TI<T>::lo(); return f>=TI<T>::lo() && c<=TI<T>::hi(); }
template<class T,int F> static void m_want(T x,T m,I& want,I& alt){ I X=(I)x, M=(I)m; I f,c; r_floorceil(X,M,f,c);
	if(F==MF_IS){ want=alt=(r_mod(X,M)==0)?1:0; return; } if(F==MF_NEXT||F==MF_CEIL){ want=alt=c; return; } if(F==MF_PREV||F==MF_FLOOR){ want=alt=f; return; }
	if(X-f<c-X) want=alt=f; else if(X-f>c-X) want=alt=c; else { want=f; alt=c; } }
// code: bits 0-2 observed behaviour, 3-4 nearer (0 none,1 lower,2 upper), 5 exact, 6-7 source sign (0 zero,1 negative,2 positive)
enum { MK_NONMULT_AS_MULT, MK_MULT_AS_NONMULT, MK_BELOW, MK_ABOVE, MK_TOO_LOW, MK_TOO_HIGH, MK_NOT_MULT, MK_WRONG_MULT };
template<class T,int F> static u32 m_code(T x,T m,I got){ I X=(I)x, M=(I)m; I f,c; r_floorceil(X,M,f,c);
	if(F==MF_IS) return got? MK_NONMULT_AS_MULT:MK_MULT_AS_NONMULT;
	u32 p= (X==0? 0u : X<0? 1u : 2u)<<6; if(f==c) p|=32; if(F==MF_ROUND && f!=c) p|= ((X-f<c-X)? 1u:2u)<<3;
	if(f!=c && got==f) return p|MK_BELOW;
	if(f!=c && got==c) return p|MK_ABOVE;
	if(got==f-M) return p|MK_TOO_LOW;
	if(got==c+M) return p|MK_TOO_HIGH;
	if(r_mod(got,M)!=0) return p|MK_NOT_MULT;
	return p|MK_WRONG_MULT; }
static std::string m_name(u32 code,bool is){ static const char* O[]={"non-multiple:reported-as-multiple","multiple:reported-as-non-multiple","returns-multiple-below","returns-multiple-above","returns-one-multiple-too-low","returns-one-multiple-too-high","result-not-a-multiple","wrong-multiple"};
	if(is) return O[code&7]; static const char* S[]={"zero-source:","negative-source:","positive-source:",""}; static const char* Nn[]={"","nearer-to-lower:","nearer-to-upper:",""};
	return std::string(S[(code>>6)&3])+(code&32? "exact-multiple:":"")+Nn[(code>>3)&3]+O[code&7]; }
template<class T,int F> static T m_call(T x,T m){
	if constexpr(F==MF_NEXT) return glm::nextMultiple(x,m); else if constexpr(F==MF_PREV) return glm::prevMultiple(x,m);
	else if constexpr(F==MF_CEIL) return glm::ceilMultiple(x,m); else if constexpr(F==MF_FLOOR) return glm::floorMultiple(x,m);
	else if constexpr(F==MF_ROUND) return glm::roundMultiple(x,m); else return (T)glm::isMultiple(x,m); }
template<class T,int F,int L> static glm::vec<L,T,glm::highp> m_callvv(glm::vec<L,T,glm::highp> const& x,glm::vec<L,T,glm::highp> const& m){
	if constexpr(F==MF_NEXT) return glm::nextMultiple(x,m); else if constexpr(F==MF_PREV) return glm::prevMultiple(x,m);
	else if constexpr(F==MF_CEIL) return glm::ceilMultiple(x,m); else if constexpr(F==MF_FLOOR) return glm::floorMultiple(x,m);
	else if constexpr(F==MF_ROUND) return glm::roundMultiple(x,m);
	else { glm::vec<L,bool,glm::highp> b=glm::isMultiple(x,m); glm::vec<L,T,glm::highp> r; for(int i=0;i<L;i++) r[i]=(T)b[i]; return r; } }
template<class T,int F,int L> static glm::vec<L,T,glm::highp> m_callvs(glm::vec<L,T,glm::highp> const& x,T m){   // (vec, scalar) overloads exist for isMultiple / nextMultiple / prevMultiple
	if constexpr(F==MF_NEXT) return glm::nextMultiple(x,m); else if constexpr(F==MF_PREV) return glm::prevMultiple(x,m);
	else { glm::vec<L,bool,glm::highp> b=glm::isMultiple(x,m); glm::vec<L,T,glm::highp> r; for(int i=0;i<L;i++) r[i]=(T)b[i]; return r; } }

template<class T> struct InM { T x[4]; T m[4]; };
template<class T,int F> static void km(const InM<T>& in,vf::Ctx& c){ T x=in.x[0], m=in.m[0]; if(!m_dom<T,F>(x,m)){ CLS("out-of-domain:not-judged"); return; }
	I want,alt; m_want<T,F>(x,m,want,alt); if((I)x<0) CLS("negative-source"); if((I)x==0) CLS("zero-source"); if(r_mod((I)x,(I)m)==0) CLS("exact-multiple"); if(want!=alt) CLS("tie:either-accepted");
	T got=m_call<T,F>(x,m); if((I)got!=want && (I)got!=alt){ u32 k=m_code<T,F>(x,m,(I)got); if(g_thr.ok(0,0,k)) c.fail(m_name(k,F==MF_IS),got,(T)want); } }
template<class T,int F,int L> static void kmv1(const InM<T>& in,vf::Ctx& c){ glm::vec<L,T,glm::highp> x(0),m(1); for(int i=0;i<L;i++){ if(!m_dom<T,F>(in.x[i],in.m[i])){ CLS("out-of-domain:not-judged"); return; } x[i]=in.x[i]; m[i]=in.m[i]; }
	glm::vec<L,T,glm::highp> g=m_callvv<T,F,L>(x,m); for(int i=0;i<L;i++){ I want,alt; m_want<T,F>(in.x[i],in.m[i],want,alt); if((I)g[i]!=want && (I)g[i]!=alt){ u32 k=m_code<T,F>(in.x[i],in.m[i],(I)g[i]); if(g_thr.ok(L,0,k)) c.fail(vpre(L,0)+m_name(k,F==MF_IS),(T)g[i],(T)want); } }
	if constexpr(F==MF_IS||F==MF_NEXT||F==MF_PREV){ for(int i=0;i<L;i++) if(!m_dom<T,F>(in.x[i],in.m[0])){ CLS("scalar-multiple-form:out-of-domain:not-judged"); return; }
		glm::vec<L,T,glm::highp> h=m_callvs<T,F,L>(x,in.m[0]); for(int i=0;i<L;i++){ I want,alt; m_want<T,F>(in.x[i],in.m[0],want,alt); if((I)h[i]!=want && (I)h[i]!=alt){ u32 k=m_code<T,F>(in.x[i],in.m[0],(I)h[i]); if(g_thr.ok(L,1,k)) c.fail(vpre(L,1)+m_name(k,F==MF_IS),(T)h[i],(T)want); } } } }
template<class T,int F> static void kmv(const InM<T>& in,vf::Ctx& c){ kmv1<T,F,1>(in,c); kmv1<T,F,2>(in,c); kmv1<T,F,3>(in,c); kmv1<T,F,4>(in,c); }

// ================================================================= findNSB
template<class T> struct InN { T x[4]; int n[4]; };
template<class T> static u32 n_code(T x,int n,int got,int want){ u32 p= (TI<T>::S && (I)x<0)? 8:0; if(want<0) return p|0; if(got<0) return p|1;
	typedef typename std::make_unsigned<T>::type U; if(got>=0 && got<(int)TI<T>::B && !(((U)x>>got)&1)) return p|2; if(got>=(int)TI<T>::B) return p|2; return p|(got<want? 3:4); }
static std::string n_name(u32 code){ static const char* N[]={"fewer-set-bits-than-n:not-minus-one","enough-set-bits:returns-minus-one","returned-position-is-not-a-set-bit","returns-an-earlier-set-bit","returns-a-later-set-bit"}; return std::string(code&8? "negative-signed:":"")+N[code&7]; }
template<class T> static void kn(const InN<T>& in,vf::Ctx& c){ int n=in.n[0]; if(n<1||n>(int)TI<T>::B+1){ CLS("out-of-domain:not-judged"); return; } int got=glm::findNSB(in.x[0],n), want=r_findNSB(in.x[0],n);
	if(want<0) CLS("fewer-set-bits-than-n");
	if(TI<T>::S && (I)in.x[0]<0) CLS("negative");
	if(got!=want){ u32 k=n_code(in.x[0],n,got,want); if(g_thr.ok(0,0,k)) c.fail(n_name(k),got,want); } }
template<class T,int L> static void knv1(const InN<T>& in,vf::Ctx& c){ glm::vec<L,T,glm::highp> x(0); glm::vec<L,int,glm::highp> n(1); for(int i=0;i<L;i++){ if(in.n[i]<1||in.n[i]>(int)TI<T>::B+1){ CLS("out-of-domain:not-judged"); return; } x[i]=in.x[i]; n[i]=in.n[i]; }
	glm::vec<L,int,glm::highp> g=glm::findNSB(x,n); for(int i=0;i<L;i++){ int w=r_findNSB(in.x[i],in.n[i]); if(g[i]!=w){ u32 k=n_code(in.x[i],in.n[i],g[i],w); if(g_thr.ok(L,0,k)) c.fail(vpre(L,0)+n_name(k),g[i],w); } } }
template<class T> static void knv(const InN<T>& in,vf::Ctx& c){ knv1<T,1>(in,c); knv1<T,2>(in,c); knv1<T,3>(in,c); knv1<T,4>(in,c); }

// ================================================================= integer log2 (gtc/integer): floor(log2(x)), x > 0
template<class T> static void klog(const InP<T>& in,vf::Ctx& c){ if((I)in.v[0]<=0){ CLS("out-of-domain:not-judged"); return; } I a=(I)in.v[0]; int w=0; while(((I)1<<(w+1))<=a) w++;
	T got=glm::log2(in.v[0]); if(r_ispow2(a)) CLS("power-input"); if((I)got!=(I)w) TFAIL(0,r_ispow2(a)?"power-input:wrong-exponent":"wrong-exponent",got,(T)w); }
template<class T,int L> static void klogv1(const InP<T>& in,vf::Ctx& c){ glm::vec<L,T,glm::highp> v(1); for(int i=0;i<L;i++){ if((I)in.v[i]<=0){ CLS("out-of-domain:not-judged"); return; } v[i]=in.v[i]; }
	glm::vec<L,T,glm::highp> g=glm::log2(v); for(int i=0;i<L;i++){ I a=(I)in.v[i]; int w=0; while(((I)1<<(w+1))<=a) w++; if((I)g[i]!=(I)w) TFAIL(L,L_(L)+":wrong-exponent",(T)g[i],(T)w); } }
template<class T> static void klogv(const InP<T>& in,vf::Ctx& c){ klogv1<T,1>(in,c); klogv1<T,2>(in,c); klogv1<T,3>(in,c); klogv1<T,4>(in,c); }

// ---------------------------------------------------------------- registration per integer type
#define DEF_P(T,TN,F,NAME,FN) VF_OP(NAME##_##TN, InP<T>, F F F F){ kp<T,FN>(in,c);} VF_OP(NAME##_vec_##TN, InP<T>, F F F F){ kpv<T,FN>(in,c);}
#define DEF_M(T,TN,F,NAME,FN) VF_OP(NAME##_##TN, InM<T>, F F F F F F F F){ km<T,FN>(in,c);} VF_OP(NAME##_vec_##TN, InM<T>, F F F F F F F F){ kmv<T,FN>(in,c);}
#define DEF_TYPE(T,TN,F) \
	DEF_P(T,TN,F,isPowerOfTwo,PF_IS) DEF_P(T,TN,F,nextPowerOfTwo,PF_NEXT) DEF_P(T,TN,F,prevPowerOfTwo,PF_PREV) DEF_P(T,TN,F,ceilPowerOfTwo,PF_CEIL) DEF_P(T,TN,F,floorPowerOfTwo,PF_FLOOR) DEF_P(T,TN,F,roundPowerOfTwo,PF_ROUND) \
	DEF_P(T,TN,F,powerOfTwoAbove,PF_ABOVE) DEF_P(T,TN,F,powerOfTwoBelow,PF_BELOW) DEF_P(T,TN,F,powerOfTwoNearest,PF_NEAREST) DEF_P(T,TN,F,highestBitValue,PF_HBV) DEF_P(T,TN,F,lowestBitValue,PF_LBV) \
	DEF_M(T,TN,F,isMultiple,MF_IS) DEF_M(T,TN,F,nextMultiple,MF_NEXT) DEF_M(T,TN,F,prevMultiple,MF_PREV) DEF_M(T,TN,F,ceilMultiple,MF_CEIL) DEF_M(T,TN,F,floorMultiple,MF_FLOOR) DEF_M(T,TN,F,roundMultiple,MF_ROUND) \
	VF_OP(findNSB_##TN, InN<T>, F F F F "iiii"){ kn<T>(in,c);} VF_OP(findNSB_vec_##TN, InN<T>, F F F F "iiii"){ knv<T>(in,c);} \
	VF_OP(log2_##TN, InP<T>, F F F F){ klog<T>(in,c);} VF_OP(log2_vec_##TN, InP<T>, F F F F){ klogv<T>(in,c);} \
	static vf::Op* const PO_##TN[]={&isPowerOfTwo_##TN,&nextPowerOfTwo_##TN,&prevPowerOfTwo_##TN,&ceilPowerOfTwo_##TN,&floorPowerOfTwo_##TN,&roundPowerOfTwo_##TN,&powerOfTwoAbove_##TN,&powerOfTwoBelow_##TN,&powerOfTwoNearest_##TN,&highestBitValue_##TN,&lowestBitValue_##TN,&log2_##TN}; \
	static vf::Op* const PV_##TN[]={&isPowerOfTwo_vec_##TN,&nextPowerOfTwo_vec_##TN,&prevPowerOfTwo_vec_##TN,&ceilPowerOfTwo_vec_##TN,&floorPowerOfTwo_vec_##TN,&roundPowerOfTwo_vec_##TN,&powerOfTwoAbove_vec_##TN,&powerOfTwoBelow_vec_##TN,&powerOfTwoNearest_vec_##TN,&highestBitValue_vec_##TN,&lowestBitValue_vec_##TN,&log2_vec_##TN}; \
	static vf::Op* const MO_##TN[]={&isMultiple_##TN,&nextMultiple_##TN,&prevMultiple_##TN,&ceilMultiple_##TN,&floorMultiple_##TN,&roundMultiple_##TN}; \
	static vf::Op* const MV_##TN[]={&isMultiple_vec_##TN,&nextMultiple_vec_##TN,&prevMultiple_vec_##TN,&ceilMultiple_vec_##TN,&floorMultiple_vec_##TN,&roundMultiple_vec_##TN};
// The monitor is built in parts (compile time): C18_PART 1 = 8-bit, 2 = 16-bit, 3 = 32-bit, 4 = 64-bit integer types, 5 = floating multiples + gtx/integer; 0/undefined = everything
#ifndef C18_PART
#	define C18_PART 0
#endif
#define PART(N) (C18_PART==0 || C18_PART==N)
#if PART(1)
DEF_TYPE(i8,i8,"c") DEF_TYPE(u8,u8,"b")
#endif
#if PART(2)
DEF_TYPE(i16,i16,"s") DEF_TYPE(u16,u16,"h")
#endif
#if PART(3)
DEF_TYPE(i32,i32,"i") DEF_TYPE(u32,u32,"u")
#endif
#if PART(4)
DEF_TYPE(i64,i64,"l") DEF_TYPE(u64,u64,"q")
#endif
enum { NPO=12, NMO=6 };
// domain predicates in op order (used by the generators so that evaluations are in-domain)
template<class T> static bool pdom_k(int k,T x){ switch(k){ case 0: return p_dom<T,PF_IS>(x); case 1: return p_dom<T,PF_NEXT>(x); case 2: return p_dom<T,PF_PREV>(x); case 3: return p_dom<T,PF_CEIL>(x); case 4: return p_dom<T,PF_FLOOR>(x); case 5: return p_dom<T,PF_ROUND>(x);
	case 6: return p_dom<T,PF_ABOVE>(x); case 7: return p_dom<T,PF_BELOW>(x); case 8: return p_dom<T,PF_NEAREST>(x); case 9: return p_dom<T,PF_HBV>(x); case 10: return p_dom<T,PF_LBV>(x); default: return (I)x>0; } }
template<class T> static bool mdom_k(int k,T x,T m){ switch(k){ case 0: return m_dom<T,MF_IS>(x,m); case 1: return m_dom<T,MF_NEXT>(x,m); case 2: return m_dom<T,MF_PREV>(x,m); case 3: return m_dom<T,MF_CEIL>(x,m); case 4: return m_dom<T,MF_FLOOR>(x,m); default: return m_dom<T,MF_ROUND>(x,m); } }

// ================================================================= multiple family (floating point)
// Oracle: long double evaluation of the exact real answer (fmod is exact; inputs are exact binary values), compared with the
// derived bound 4*u*(|x|+m): the documented formula has at most 3 roundings, each of a quantity <= |x|+m.
// Domain: finite normal values, m > 0, 2^-40 <= m <= 2^40, |x| <= 2^20 * m (so that the bound stays below m/4 and a wrong multiple is visible).
template<class T> struct InF { T x[4]; T m[4]; };
template<class T> static bool f_dom(T x,T m){ if(!isfinite_b(x)||!isfinite_b(m)) return false; if(!(m>0)) return false; long double M=m, X=x; if(M<ldexpl(1,-40)||M>ldexpl(1,40)) return false; if(fabsl(X)>ldexpl(1,20)*M) return false; if(x!=0 && issubnormal_b(x)) return false; return true; }
template<class T> static void f_ref(T x,T m,long double& f,long double& c,bool& exact){ long double X=x, M=m; long double r=fmodl(X,M); if(r<0) r+=M; exact=(r==0); f=X-r; c= exact? X : f+M; }
template<class T,int F> static T f_call(T x,T m){ if constexpr(F==MF_CEIL) return glm::ceilMultiple(x,m); else if constexpr(F==MF_FLOOR) return glm::floorMultiple(x,m); else return glm::roundMultiple(x,m); }
template<class T,int F,int L> static glm::vec<L,T,glm::highp> f_callv(glm::vec<L,T,glm::highp> const& x,glm::vec<L,T,glm::highp> const& m){ if constexpr(F==MF_CEIL) return glm::ceilMultiple(x,m); else if constexpr(F==MF_FLOOR) return glm::floorMultiple(x,m); else return glm::roundMultiple(x,m); }
// returns empty string when acceptable, else the class
template<class T,int F> static std::string f_judge(T x,T m,T got,vf::Ctx& c,long double& want){ long double f,cl; bool exact; f_ref(x,m,f,cl,exact); long double X=x,M=m,G=got; long double bound=4*uround<T>()*(fabsl(X)+M);
	bool okf=false,okc=false; if(F==MF_FLOOR) okf=true; else if(F==MF_CEIL) okc=true; else { long double d1=X-f, d2=cl-X; if(fabsl(d1-d2)<=2*bound){ okf=okc=true; CLS("tie-within-rounding:either-accepted"); } else if(d1<d2) okf=true; else okc=true; }
	want= okf? f: cl; long double e= isnan_b(got)? INFINITY : std::min(okf? fabsl(G-f):(long double)INFINITY, okc? fabsl(G-cl):(long double)INFINITY);
	if(e<=bound){ c.ratio("err/bound(4u(|x|+m))",(double)(e/bound)); return ""; }
	std::string p= X==0? "zero-source:" : X<0? "negative-source:" : "positive-source:"; if(exact) p+="exact-multiple:";
	if(F==MF_ROUND && X<0) return p+(exact? "not-returned-unchanged":"not-the-nearest-multiple");   // glm's negative branch adds 1 to the source: the outcome varies with the values, one class
	if(F==MF_ROUND && !exact && !(okf&&okc)) p+= okf? "nearer-to-lower:":"nearer-to-upper:";
	if(isnan_b(got)) return p+"returns-nan";
	if(!exact && fabsl(G-f)<=bound) return p+"returns-multiple-below";
	if(!exact && fabsl(G-cl)<=bound) return p+"returns-multiple-above";
	if(fabsl(G-(f-M))<=bound) return p+"returns-one-multiple-too-low";
	if(fabsl(G-(cl+M))<=bound) return p+"returns-one-multiple-too-high"; return p+"not-near-an-adjacent-multiple"; }
template<class T,int F> static void kf(const InF<T>& in,vf::Ctx& c){ T x=in.x[0], m=in.m[0]; if(!f_dom(x,m)){ CLS("out-of-domain:not-judged"); return; } if(x<0) CLS("negative-source"); long double w; { long double f,cl; bool ex; f_ref(x,m,f,cl,ex); if(ex) CLS("exact-multiple"); }
	T got=f_call<T,F>(x,m); std::string k=f_judge<T,F>(x,m,got,c,w); if(!k.empty()) TFAIL(0,k,got,(T)w); }
template<class T,int F,int L> static void kfv1(const InF<T>& in,vf::Ctx& c){ glm::vec<L,T,glm::highp> x(0),m(1); for(int i=0;i<L;i++){ if(!f_dom(in.x[i],in.m[i])){ CLS("out-of-domain:not-judged"); return; } x[i]=in.x[i]; m[i]=in.m[i]; }
	glm::vec<L,T,glm::highp> g=f_callv<T,F,L>(x,m); for(int i=0;i<L;i++){ long double w; std::string k=f_judge<T,F>(in.x[i],in.m[i],(T)g[i],c,w); if(!k.empty()) TFAIL(L,L_(L)+":"+k,(T)g[i],(T)w); } }
template<class T,int F> static void kfv(const InF<T>& in,vf::Ctx& c){ kfv1<T,F,1>(in,c); kfv1<T,F,2>(in,c); kfv1<T,F,3>(in,c); kfv1<T,F,4>(in,c); }
#define DEF_F(T,TN,F) \
	VF_OP(ceilMultiple_##TN, InF<T>, F F F F F F F F){ kf<T,MF_CEIL>(in,c);} VF_OP(floorMultiple_##TN, InF<T>, F F F F F F F F){ kf<T,MF_FLOOR>(in,c);} VF_OP(roundMultiple_##TN, InF<T>, F F F F F F F F){ kf<T,MF_ROUND>(in,c);} \
	VF_OP(ceilMultiple_vec_##TN, InF<T>, F F F F F F F F){ kfv<T,MF_CEIL>(in,c);} VF_OP(floorMultiple_vec_##TN, InF<T>, F F F F F F F F){ kfv<T,MF_FLOOR>(in,c);} VF_OP(roundMultiple_vec_##TN, InF<T>, F F F F F F F F){ kfv<T,MF_ROUND>(in,c);} \
	static vf::Op* const FO_##TN[]={&ceilMultiple_##TN,&floorMultiple_##TN,&roundMultiple_##TN,&ceilMultiple_vec_##TN,&floorMultiple_vec_##TN,&roundMultiple_vec_##TN};
#if PART(5)
DEF_F(float,f32,"f") DEF_F(double,f64,"d")
#endif

// ================================================================= gtx/integer: pow, sqrt, mod, factorial (exact mathematical values)
#if PART(5)
struct InPowI { i32 x; u32 y; }; struct InPowU { u32 x; u32 y; }; struct InI1 { i32 x; }; struct InU1 { u32 x; }; struct InModI { i32 x,y; }; struct InModU { u32 x,y; };
static bool pow_exact(I x,u32 y,I lo,I hi,I& r){ r=1; for(u32 i=0;i<y;i++){ r*=x; if(r<lo||r>hi) return false; } return true; }   // false: not representable
VF_OP(pow_int, InPowI, "iu"){ I w; if(in.y>4096 || !pow_exact(in.x,in.y,TI<i32>::lo(),TI<i32>::hi(),w)){ CLS("out-of-domain:not-judged"); return; } if(in.y==0) CLS("exponent=0"); if(in.x<0) CLS("negative-base");
	int got=glm::pow(in.x,(glm::uint)in.y); if((I)got!=w) TFAIL(0,in.y==0? (in.x<0? "negative-base:exponent=0:returns-minus-one":"exponent=0:not-one") : (in.x<0? "negative-base:wrong-value":"wrong-value"),got,(int)w); }
VF_OP(pow_uint, InPowU, "uu"){ I w; if(in.y>4096 || !pow_exact(in.x,in.y,0,TI<u32>::hi(),w)){ CLS("out-of-domain:not-judged"); return; } if(in.y==0) CLS("exponent=0");
	glm::uint got=glm::pow((glm::uint)in.x,(glm::uint)in.y); if((I)got!=w) TFAIL(0,in.y==0? "exponent=0:not-one":"wrong-value",got,(u32)w); }
static u64 r_isqrt(u64 x){ u64 r=(u64)std::sqrt((double)x); while(r*r>x) r--; while((r+1)*(r+1)<=x) r++; return r; }
VF_OP(sqrt_int, InI1, "i"){ if(in.x<0){ CLS("out-of-domain:not-judged"); return; } int got=glm::sqrt(in.x); int w=(int)r_isqrt((u64)in.x); bool sq=(u64)w*(u64)w==(u64)in.x; if(sq) CLS("perfect-square");
	if(got!=w) TFAIL(0,std::string(sq?"perfect-square:":"")+(got==w+1?"returns-floor+1": got==w-1?"returns-floor-1":"wrong-root"),got,w); }
VF_OP(sqrt_uint, InU1, "u"){ glm::uint got=glm::sqrt((glm::uint)in.x); u32 w=(u32)r_isqrt(in.x); bool sq=(u64)w*(u64)w==(u64)in.x; if(sq) CLS("perfect-square");
	if(got!=w) TFAIL(0,std::string(sq?"perfect-square:":"")+(got==w+1?"returns-floor+1": got==w-1?"returns-floor-1":"wrong-root"),got,w); }
// mod: documented as x - y*floor(x/y); y != 0; (INT_MIN,-1) excluded (the quotient does not exist in int: hardware trap)
VF_OP(mod_int, InModI, "ii"){ if(in.y==0 || (in.x==INT32_MIN && in.y==-1)){ CLS("out-of-domain:not-judged"); return; } I X=in.x,Y=in.y; I q=X/Y; if((X%Y!=0) && ((X<0)!=(Y<0))) q-=1; I w=X-Y*q;
	if(in.x<0) CLS("negative-dividend");
	if(in.y<0) CLS("negative-divisor");
	I ay= Y<0? -Y:Y;
	if(ay>((I)1<<30)) CLS("abs(divisor)>2^30");
	int got=glm::mod(in.x,in.y); if((I)got!=w) TFAIL(0,ay>((I)1<<30)? std::string("abs(divisor)>2^30:(x%y)+y-overflows:wrong-remainder") : std::string(in.y<0?"negative-divisor:":"")+(in.x<0?"negative-dividend:":"")+"wrong-remainder",got,(int)w); }
VF_OP(mod_uint, InModU, "uu"){ if(in.y==0){ CLS("out-of-domain:not-judged"); return; } glm::uint got=glm::mod((glm::uint)in.x,(glm::uint)in.y); u32 w=(u32)((u64)in.x%(u64)in.y); if(got!=w) TFAIL(0,"wrong-remainder",got,w); }
template<class T> static bool fact_exact(I n,I& r){ r=1; for(I k=2;k<=n;k++){ r*=k; if(r>TI<T>::hi()) return false; } return true; }
template<class T> static void kfact(const InP<T>& in,vf::Ctx& c){ I w; if((I)in.v[0]<0 || (I)in.v[0]>25 || !fact_exact<T>((I)in.v[0],w)){ CLS("out-of-domain:not-judged"); return; } T got=glm::factorial(in.v[0]); if((I)got!=w) TFAIL(0,(I)in.v[0]<2? "n<2:not-one":"wrong-value",got,(T)w); }
template<class T,int L> static void kfactv1(const InP<T>& in,vf::Ctx& c){ glm::vec<L,T,glm::highp> v(0); I w[4]; for(int i=0;i<L;i++){ if((I)in.v[i]<0 || (I)in.v[i]>25 || !fact_exact<T>((I)in.v[i],w[i])){ CLS("out-of-domain:not-judged"); return; } v[i]=in.v[i]; }
	glm::vec<L,T,glm::highp> g=glm::factorial(v); for(int i=0;i<L;i++) if((I)g[i]!=w[i]) TFAIL(L,L_(L)+":wrong-value",(T)g[i],(T)w[i]); }
template<class T> static void kfactv(const InP<T>& in,vf::Ctx& c){ kfactv1<T,2>(in,c); kfactv1<T,3>(in,c); kfactv1<T,4>(in,c); }
VF_OP(factorial_i32, InP<i32>, "iiii"){ kfact<i32>(in,c);} VF_OP(factorial_u32, InP<u32>, "uuuu"){ kfact<u32>(in,c);} VF_OP(factorial_i64, InP<i64>, "llll"){ kfact<i64>(in,c);} VF_OP(factorial_u64, InP<u64>, "qqqq"){ kfact<u64>(in,c);}
VF_OP(factorial_vec_i32, InP<i32>, "iiii"){ kfactv<i32>(in,c);} VF_OP(factorial_vec_u32, InP<u32>, "uuuu"){ kfactv<u32>(in,c);} VF_OP(factorial_vec_i64, InP<i64>, "llll"){ kfactv<i64>(in,c);} VF_OP(factorial_vec_u64, InP<u64>, "qqqq"){ kfactv<u64>(in,c);}
#endif

// ================================================================= workloads
template<class T> static T rnd(vf::Rng& r){ u64 x=r.next(); int k=(int)(r.next()%8); if(k==0) x&=r.next(); else if(k==1) x|=r.next(); else if(k==2||k==3) x>>=(r.next()%64); else if(k==4) x=~(x>>(r.next()%64)); else if(k==5) x=(1ull<<(r.next()%64))+(r.next()%5)-2; else if(k==6) x=(1ull<<(r.next()%64))+(1ull<<(r.next()%64)); return (T)x; }
// values that stress the power-of-two ladders: 2^k, 2^k +- 1, 2^k + 2^j, 1.5*2^k +- 1, lattice, and their negations
template<class T> static std::vector<T> pow2_values(){ typedef typename std::make_unsigned<T>::type U; const int B=TI<T>::B; std::vector<T> v=int_lattice<T>();
	for(int k=0;k<B;k++){ U p=(U)((U)1<<k); v.push_back((T)p); v.push_back((T)(U)(p-1)); v.push_back((T)(U)(p+1)); v.push_back((T)(U)(p+(p>>1))); v.push_back((T)(U)(p+(p>>1)+1)); v.push_back((T)(U)(p+(p>>1)-1)); for(int j=0;j<k;j++) v.push_back((T)(U)(p|((U)1<<j))); }
	if(TI<T>::S){ size_t n=v.size(); for(size_t i=0;i<n;i++) v.push_back((T)(U)(0-(U)v[i])); }
	return v; }
template<class T> static std::vector<T> mult_values(bool all16){ const int B=TI<T>::B; std::vector<T> m; I hi=TI<T>::hi();
	if(B==8 || (B==16 && all16)){ for(I k=1;k<=hi;k++) m.push_back((T)k); return m; }
	for(I k=1;k<=70;k++) m.push_back((T)k);
	I extra[]={97,100,127,128,255,256,257,1000,1023,1024,1025,4095,4096,4097,10007,32749,32767,32768,65521,65535,65536,65537,1000003,16777216,16777259,1000000007};
	for(I e: extra) if(e<=hi) m.push_back((T)e);
	for(int k=7;k<B;k++){ I p=(I)1<<k; for(I d=-1;d<=1;d++) if(p+d>0 && p+d<=hi) m.push_back((T)(p+d)); if(p+(p>>1)<=hi) m.push_back((T)(p+(p>>1))); if(p/3>70) m.push_back((T)(p/3)); }
	m.push_back((T)hi); m.push_back((T)(hi-1)); m.push_back((T)(hi/2)); m.push_back((T)(hi/2+1)); m.push_back((T)(hi/3));
	std::sort(m.begin(),m.end()); m.erase(std::unique(m.begin(),m.end()),m.end()); return m; }

template<class T> static void run_int_type(const char* label,vf::Op* const* PO,vf::Op* const* PV,vf::Op* const* MO,vf::Op* const* MV,vf::Op& nsb,vf::Op& nsbv){
	const int B=TI<T>::B; typedef typename std::make_unsigned<T>::type U; const bool th=full_tier(); const int SB=B&31; const u64 NV= B<=16? ((u64)1<<SB) : 0;
	std::vector<T> PVs=pow2_values<T>(); std::vector<T> Ms=mult_values<T>(th); std::vector<T> Lt=int_lattice<T>();
	auto safe_p=[&](int k,T x)->T{ return pdom_k<T>(k,x)? x : (T)(1+((U)x&7)); };   // fallback keeps vectors in-domain (1..8 are in every op's domain)
	auto safe_m=[&](int k,T x,T m,T m0)->T{ return (mdom_k<T>(k,x,m) && mdom_k<T>(k,x,m0))? x : (T)1; };
	if(B<=16){
		// ---- every value through every power-of-two op (scalar) and a 4-tuple built from it (vector forms)
		vf::sweep(label,NV,256,[&](vf::Ctx& c,u64 lo,u64 hi){ for(u64 q=lo;q<hi;q++){ T x=(T)q; for(int k=0;k<NPO;k++){ if(!pdom_k<T>(k,x)) continue; InP<T> in{}; in.v[0]=x; RUN(*PO[k],in);
				for(int j=1;j<4;j++) in.v[j]=safe_p(k,(T)(q*(2*j+1)+j*0x3b));
				RUN(*PV[k],in); }
			for(int n=1;n<=B+1;n++){ InN<T> in{}; in.x[0]=x; in.n[0]=n; RUN(nsb,in); for(int j=1;j<4;j++){ in.x[j]=(T)(q*(2*j+1)+j*0x3b); in.n[j]=1+(n+j*5)%(B+1); } RUN(nsbv,in); } } });
		// ---- every value x every multiple (8-bit: all; 16-bit: all in the thorough tier, a boundary/prime/small list in the quick tier)
		vf::note(std::string("multiples_")+label, std::to_string(Ms.size())+(B==8||th? " (all positive values of the type)":" (1..70, powers of two +-1, primes, near-MAX)"));
		vf::sweep(label,NV*Ms.size(),1<<14,[&](vf::Ctx& c,u64 lo,u64 hi){ for(u64 q=lo;q<hi;q++){ T x=(T)(q%NV); size_t mi=(size_t)(q>>SB); T m=Ms[mi];
			for(int k=0;k<NMO;k++){ if(!mdom_k<T>(k,x,m)) continue; InM<T> in{}; in.x[0]=x; in.m[0]=m; RUN(*MO[k],in);
				if(B==8 || ((q*0x9e3779b97f4a7c15ULL)>>59)==0){ for(int j=1;j<4;j++){ in.m[j]=Ms[(mi*(j+1)+j*7)%Ms.size()]; in.x[j]=safe_m(k,(T)(x*(2*j+1)+j*0x3b),in.m[j],m); } RUN(*MV[k],in); } } } });
	} else {
		u64 n=vf::N(250000,8000000);
		vf::parallel(label,[&](int t,int TT,vf::Ctx& c){
			auto pone=[&](T x,bool vec){ for(int k=0;k<NPO;k++){ if(!pdom_k<T>(k,x)) continue; InP<T> in{}; in.v[0]=x; RUN(*PO[k],in); if(vec){ for(int j=1;j<4;j++){ T y= c.rng.coin()? PVs[c.rng.below(PVs.size())]: rnd<T>(c.rng); in.v[j]=safe_p(k,y); } RUN(*PV[k],in); } } };
			auto mone=[&](T x,T m,bool vec){ for(int k=0;k<NMO;k++){ if(!mdom_k<T>(k,x,m)) continue; InM<T> in{}; in.x[0]=x; in.m[0]=m; RUN(*MO[k],in);
				if(vec){ for(int j=1;j<4;j++){ in.m[j]=Ms[c.rng.below(Ms.size())]; I kk=(I)(i64)(c.rng.next()>>(c.rng.next()%64)); I cand=kk*(I)in.m[j]+(I)c.rng.range(-1,1); T y= (cand>=TI<T>::lo()&&cand<=TI<T>::hi())? (T)cand : rnd<T>(c.rng); in.x[j]=safe_m(k,y,in.m[j],m); } RUN(*MV[k],in); } } };
			auto none=[&](T x,int nn){ InN<T> in{}; in.x[0]=x; in.n[0]=nn; RUN(nsb,in); for(int j=1;j<4;j++){ in.x[j]=rnd<T>(c.rng); in.n[j]=c.rng.range(1,B+1); } RUN(nsbv,in); };
			for(size_t i=t;i<PVs.size();i+=TT){ pone(PVs[i],true); for(int nn=1;nn<=B+1;nn+=(i%3)+1) none(PVs[i],nn); }
			// structured multiples: lattice x values and k*m+d around every listed multiple
			for(size_t mi=t;mi<Ms.size();mi+=TT){ T m=Ms[mi]; for(size_t i=0;i<Lt.size();i++) mone(Lt[i],m,(i%8)==0);
				I ks[]={0,1,-1,2,-2,3,7,-7,100,-100,(TI<T>::hi()/(I)m),(TI<T>::hi()/(I)m)-1,(TI<T>::lo()/(I)m),(TI<T>::lo()/(I)m)+1,(TI<T>::hi()/(I)m)/2,(TI<T>::lo()/(I)m)/2};
				for(I kq: ks) for(I d=-2;d<=2;d++){ I cand=kq*(I)m+d; if(cand<TI<T>::lo()||cand>TI<T>::hi()) continue; mone((T)cand,m,d==0); } }
			for(u64 i=t;i<n;i+=TT){ T x= (c.rng.next()%4==0)? PVs[c.rng.below(PVs.size())]: rnd<T>(c.rng); pone(x,(i&3)==0); none(x,c.rng.range(1,B+1));
				T m; int mk=(int)(c.rng.next()%4); if(mk==0) m=Ms[c.rng.below(Ms.size())]; else { I mm=(I)(c.rng.next()>>(1+c.rng.next()%63)); if(mm>TI<T>::hi()) mm&=TI<T>::hi(); if(mm<1) mm=1; m=(T)mm; }
				T y; int xk=(int)(c.rng.next()%4); if(xk==0) y=rnd<T>(c.rng); else { I kk=(I)(i64)(c.rng.next()>>(c.rng.next()%64)); if(TI<T>::S && c.rng.coin()) kk=-kk; I cand=kk*(I)m+(I)c.rng.range(-1,1); if(cand<TI<T>::lo()||cand>TI<T>::hi()) cand=(I)c.rng.range(-3,3)*(I)(m<(T)(TI<T>::hi()/4)? m:(T)1); if(!TI<T>::S && cand<0) cand=-cand; y=(T)cand; }
				mone(y,m,(i&3)==1); }
		});
	}
}

template<class T> static void run_float_type(const char* label,vf::Op* const* FO){
	u64 n=vf::N(300000,12000000);
	// multiples with few mantissa bits (every k*m exactly representable) and arbitrary ones
	std::vector<T> Ms={(T)1,(T)2,(T)3,(T)4,(T)5,(T)7,(T)10,(T)0.5,(T)0.25,(T)0.75,(T)1.5,(T)2.5,(T)0.125,(T)100,(T)1024,(T)3e-3,(T)0.1,(T)0.3,(T)(1.0/3.0),(T)3.14159265358979,(T)1e-6,(T)65536,(T)1e6,(T)6.02e11,(T)9.5367431640625e-7};
	vf::parallel(label,[&](int t,int TT,vf::Ctx& c){
		auto one=[&](T x,T m,bool vec){ if(!f_dom(x,m)) return; InF<T> in{}; in.x[0]=x; in.m[0]=m; for(int k=0;k<3;k++) RUN(*FO[k],in);
			if(vec){ for(int j=1;j<4;j++){ T mj=Ms[c.rng.below(Ms.size())]; T xj=(T)((long double)mj*(long double)c.rng.range(-50,50)+ (c.rng.coin()? 0.0L : (long double)mj*(long double)c.rng.unit())); if(!f_dom(xj,mj)){ xj=mj; } in.x[j]=xj; in.m[j]=mj; } for(int k=3;k<6;k++) RUN(*FO[k],in); } };
		// lattice of exact multiples (both signs, zero), half-way points and neighbours
		for(size_t mi=t;mi<Ms.size();mi+=TT){ T m=Ms[mi]; for(int k=-40;k<=40;k++){ T xm=(T)((long double)m*k); one(xm,m,(k&3)==0); one((T)((long double)m*k+(long double)m/2),m,false); one((T)((long double)m*k+(long double)m/4),m,false); one((T)((long double)m*k+(long double)m*3/4),m,false);
				one(from_ord<T>(ord<T>(xm)+1),m,false); one(from_ord<T>(ord<T>(xm)-1),m,false); }
			for(int e=5;e<=19;e++){ long double k=ldexpl(1,e); one((T)(m*k),m,false); one((T)(-m*k),m,false); one((T)(m*(k+1)),m,false); one((T)(-m*(k-1)),m,true); } }
		for(u64 i=t;i<n;i+=TT){ T m; int mk=(int)(c.rng.next()%3); if(mk==0) m=Ms[c.rng.below(Ms.size())]; else if(mk==1) m=(T)std::fabs(c.rng.logmag(-38,38)); else m=(T)std::ldexp((double)(1+c.rng.below(255)),c.rng.range(-30,20));
			T x; int xk=(int)(c.rng.next()%4); long double q= (long double)c.rng.logmag(-6,19);
			if(xk==0) x=(T)((long double)m*q); else if(xk==1) x=(T)((long double)m*roundl(q)); else if(xk==2) x=(T)((long double)m*(roundl(q)+0.5L)); else { T e=(T)((long double)m*roundl(q)); x=from_ord<T>(ord<T>(e)+(typename fp<T>::I)c.rng.range(-2,2)); }
			one(x,m,(i&3)==0); }
	});
}

static void workload(){
	const bool th=full_tier(); (void)th;
#if PART(1)
	run_int_type<i8>("i8",PO_i8,PV_i8,MO_i8,MV_i8,findNSB_i8,findNSB_vec_i8); run_int_type<u8>("u8",PO_u8,PV_u8,MO_u8,MV_u8,findNSB_u8,findNSB_vec_u8);
#endif
#if PART(2)
	run_int_type<i16>("i16",PO_i16,PV_i16,MO_i16,MV_i16,findNSB_i16,findNSB_vec_i16); run_int_type<u16>("u16",PO_u16,PV_u16,MO_u16,MV_u16,findNSB_u16,findNSB_vec_u16);
#endif
#if PART(3)
	run_int_type<i32>("i32",PO_i32,PV_i32,MO_i32,MV_i32,findNSB_i32,findNSB_vec_i32); run_int_type<u32>("u32",PO_u32,PV_u32,MO_u32,MV_u32,findNSB_u32,findNSB_vec_u32);
#endif
#if PART(4)
	run_int_type<i64>("i64",PO_i64,PV_i64,MO_i64,MV_i64,findNSB_i64,findNSB_vec_i64); run_int_type<u64>("u64",PO_u64,PV_u64,MO_u64,MV_u64,findNSB_u64,findNSB_vec_u64);
#endif
#if PART(5)
	run_float_type<float>("f32",FO_f32); run_float_type<double>("f64",FO_f64);

	// ---- gtx/integer
	// sqrt: thorough = every non-negative int and every uint (2^31 + 2^32); quick = every value below 2^22, every perfect square +-1, boundary lattice, random
	if(th){ vf::sweep("sqrt",(u64)1<<32,1<<16,[&](vf::Ctx& c,u64 lo,u64 hi){ for(u64 q=lo;q<hi;q++){ InU1 u{(u32)q}; RUN(sqrt_uint,u); if(q<((u64)1<<31)){ InI1 s{(i32)q}; RUN(sqrt_int,s); } } }); vf::note("sqrt_coverage","complete: every uint, every non-negative int"); }
	else { vf::sweep("sqrt",(u64)1<<22,1<<12,[&](vf::Ctx& c,u64 lo,u64 hi){ for(u64 q=lo;q<hi;q++){ InU1 u{(u32)q}; RUN(sqrt_uint,u); InI1 s{(i32)q}; RUN(sqrt_int,s); } });
		vf::sweep("sqrt",65536,256,[&](vf::Ctx& c,u64 lo,u64 hi){ for(u64 r=lo;r<hi;r++) for(int d=-1;d<=1;d++){ i64 v=(i64)(r*r)+d; if(v<0||v>0xffffffffLL) continue; InU1 u{(u32)v}; RUN(sqrt_uint,u); if(v<=INT32_MAX){ InI1 s{(i32)v}; RUN(sqrt_int,s); } } });
		vf::note("sqrt_coverage","every value < 2^22, every r*r-1, r*r, r*r+1, lattice, random"); }
	std::vector<u32> L32=int_lattice<u32>(); u64 n=vf::N(300000,12000000);
	vf::parallel("gtxint",[&](int t,int TT,vf::Ctx& c){
		for(size_t i=t;i<L32.size();i+=TT){ InU1 u{L32[i]}; RUN(sqrt_uint,u); if((i32)L32[i]>=0){ InI1 s{(i32)L32[i]}; RUN(sqrt_int,s); }
			for(size_t j=0;j<L32.size();j++){ InModI mi{(i32)L32[i],(i32)L32[j]}; if(mi.y!=0 && !(mi.x==INT32_MIN&&mi.y==-1)) RUN(mod_int,mi); InModU mu{L32[i],L32[j]}; if(mu.y!=0) RUN(mod_uint,mu); } }
		// pow: every base in [-300,300] (and lattice bases) with every exponent whose result is representable (plus exponent 0 for every base)
		for(int b=-300+t;b<=300;b+=TT) for(u32 y=0;y<=40;y++){ I w; if(pow_exact(b,y,TI<i32>::lo(),TI<i32>::hi(),w)){ InPowI p{b,y}; RUN(pow_int,p); } if(b>=0 && pow_exact(b,y,0,TI<u32>::hi(),w)){ InPowU p{(u32)b,y}; RUN(pow_uint,p); } }
		for(size_t i=t;i<L32.size();i+=TT) for(u32 y=0;y<=3;y++){ I w; if(pow_exact((i32)L32[i],y,TI<i32>::lo(),TI<i32>::hi(),w)){ InPowI p{(i32)L32[i],y}; RUN(pow_int,p); } if(pow_exact(L32[i],y,0,TI<u32>::hi(),w)){ InPowU p{L32[i],y}; RUN(pow_uint,p); } }
		if(t==0){ for(u32 y: {0u,1u,2u,31u,32u,33u,100u,1000u,4096u}){ for(int b: {-1,0,1}){ InPowI p{b,y}; RUN(pow_int,p); if(b>=0){ InPowU q{(u32)b,y}; RUN(pow_uint,q); } } }
			for(int k=0;k<=21;k++){ InP<i32> a{}; InP<u32> b{}; InP<i64> d{}; InP<u64> e{}; for(int j=0;j<4;j++){ a.v[j]=(k+j*5)%13; b.v[j]=(u32)((k+j*5)%13); d.v[j]=(k+j*7)%21; e.v[j]=(u64)((k+j*7)%21); }
				if(k<=12){ a.v[0]=k; b.v[0]=(u32)k; RUN(factorial_i32,a); RUN(factorial_u32,b); RUN(factorial_vec_i32,a); RUN(factorial_vec_u32,b); } if(k<=20){ d.v[0]=k; e.v[0]=(u64)k; RUN(factorial_i64,d); RUN(factorial_u64,e); RUN(factorial_vec_i64,d); RUN(factorial_vec_u64,e); } } }
		for(u64 i=t;i<n;i+=TT){ u32 a=rnd<u32>(c.rng), b=rnd<u32>(c.rng); int k=(int)(c.rng.next()%6); if(k==0) b=a; else if(k==1) b=a+1; else if(k==2) b=(u32)(0-a); else if(k==3) b=(u32)c.rng.range(1,100);
			InModI mi{(i32)a,(i32)b}; if(mi.y!=0 && !(mi.x==INT32_MIN&&mi.y==-1)) RUN(mod_int,mi); InModU mu{a,b}; if(mu.y!=0) RUN(mod_uint,mu);
			InU1 u{a}; RUN(sqrt_uint,u); if((i32)a>=0){ InI1 s{(i32)a}; RUN(sqrt_int,s); }
			// random in-domain pow: pick exponent, then a base whose power fits
			u32 y=(u32)c.rng.range(0,31); i32 base; if(y<=1) base=(i32)rnd<u32>(c.rng); else { double lim=std::floor(std::pow(2147483647.0,1.0/y)); base=(i32)c.rng.range(-(int)lim,(int)lim); }
			I w; if(pow_exact(base,y,TI<i32>::lo(),TI<i32>::hi(),w)){ InPowI p{base,y}; RUN(pow_int,p); }
			u32 ub; if(y<=1) ub=rnd<u32>(c.rng); else { double lim=std::floor(std::pow(4294967295.0,1.0/y)); ub=(u32)c.rng.below((u64)lim+1); } if(pow_exact(ub,y,0,TI<u32>::hi(),w)){ InPowU p{ub,y}; RUN(pow_uint,p); } }
	});
#endif
	vf::note("violation_counts","capped: at most 1500 reports per (operation, vector length, overload form, class) and worker thread are recorded; every failure is still classified, so no class is dropped");
	vf::note("not_covered","gtx/integer floor_log2 is declared but has no definition (cannot be called); nlz, iround/uround are not part of the statement");
}
VF_MAIN("C18_pow2mult")
