// C01 — vector functions/operators equal the scalar overload applied per component.
// oracle = the scalar overload of the SAME glm function (that is the statement); builtin operators for operators/relationals.
// Built in parts (-DPART=n) so the template-heavy TUs compile in parallel.
#include "c01_engine.hpp"
#include <glm/gtc/integer.hpp>


#ifndef PART
#define PART 1
#endif

#define F12_f "ffffffffffff"
#define F12_d "dddddddddddd"
#define F12_i "iiiiiiiiiiii"
#define F12_u "uuuuuuuuuuuu"
#define F12_c "cccccccccccc"
#define F12_b "bbbbbbbbbbbb"
#define F12_s "ssssssssssss"
#define F12_h "hhhhhhhhhhhh"
#define F12_l "llllllllllll"
#define F12_q "qqqqqqqqqqqq"
#define F16_f "ffffffffffffffff"
#define F16_d "dddddddddddddddd"
#define F16_i "iiiiiiiiiiiiiiii"
#define F16_u "uuuuuuuuuuuuuuuu"

typedef QSet<float>::type QF; typedef QSet<double>::type QD;
struct QS_hm { template<class F> static void each(F&& f){ f(LQ<1,glm::highp>()); f(LQ<2,glm::highp>()); f(LQ<3,glm::highp>()); f(LQ<4,glm::highp>()); f(LQ<1,glm::mediump>()); f(LQ<2,glm::mediump>()); f(LQ<3,glm::mediump>()); f(LQ<4,glm::mediump>()); } };
// compound assignment with a vec1 right-hand side: vec3 += -= <<= vec1 and vec4 %= vec1 (and the binary operators built on them) do not compile on this tree; those lengths are left out for those operators
struct QS_124 { template<class F> static void each(F&& f){ f(LQ<1,glm::highp>()); f(LQ<2,glm::highp>()); f(LQ<4,glm::highp>()); f(LQ<2,glm::mediump>()); f(LQ<4,glm::lowp>()); } };
struct QS_123 { template<class F> static void each(F&& f){ f(LQ<1,glm::highp>()); f(LQ<2,glm::highp>()); f(LQ<3,glm::highp>()); f(LQ<2,glm::mediump>()); f(LQ<3,glm::lowp>()); } };
#define QALL(T) QSet<T>::type
struct QS_l { template<class F> static void each(F&& f){ f(LQ<1,glm::lowp>()); f(LQ<2,glm::lowp>()); f(LQ<3,glm::lowp>()); f(LQ<4,glm::lowp>()); } };

// ---- generic op makers: the same generic lambda GF(name) is applied to glm vectors and to scalars ------------------
#define OP1(name,T,TN,FMT,PREP) \
	VF_OP(name##_##TN, In3<T>, FMT){ chk<T,QSet<T>::type,'V','S','S','S',1>(in,c,GF(name),GF(name),Exact()); } static Reg<T> reg_##name##_##TN(&name##_##TN, PREP);
#define OP2(name,KA,KB,T,TN,FMT,PREP) \
	VF_OP(name##_##KA##KB##_##TN, In3<T>, FMT){ chk<T,QSet<T>::type,(#KA)[0],(#KB)[0],'S','S',2>(in,c,GF(name),GF(name),Exact()); } static Reg<T> reg_##name##_##KA##KB##_##TN(&name##_##KA##KB##_##TN, PREP);
#define OP3(name,KA,KB,KC,T,TN,FMT,PREP,CMP) \
	VF_OP(name##_##KA##KB##KC##_##TN, In3<T>, FMT){ chk<T,QSet<T>::type,(#KA)[0],(#KB)[0],(#KC)[0],'S',3>(in,c,GF(name),GF(name),CMP); } static Reg<T> reg_##name##_##KA##KB##KC##_##TN(&name##_##KA##KB##KC##_##TN, PREP);
#define OP4(name,T,TN,FMT,PREP) \
	VF_OP(name##_VVVV_##TN, In4x<T>, FMT){ chk<T,QSet<T>::type,'V','V','V','V',4>(in,c,GF(name),GF(name),Exact()); } static Reg<T> reg_##name##_VVVV_##TN(&name##_VVVV_##TN, PREP, 1);
#define FLT1(name,PREP) OP1(name,float,f32,F12_f,PREP) OP1(name,double,f64,F12_d,PREP)
#define FLT2(name,KA,KB,PREP) OP2(name,KA,KB,float,f32,F12_f,PREP) OP2(name,KA,KB,double,f64,F12_d,PREP)
#define FLT3(name,KA,KB,KC,PREP,CMP) OP3(name,KA,KB,KC,float,f32,F12_f,PREP,CMP) OP3(name,KA,KB,KC,double,f64,F12_d,PREP,CMP)
#define FLT4(name,PREP) OP4(name,float,f32,F16_f,PREP) OP4(name,double,f64,F16_d,PREP)
#define INT1(name,PREP) OP1(name,i32,i32,F12_i,PREP) OP1(name,u32,u32,F12_u,PREP)
#define INT2(name,KA,KB,PREP) OP2(name,KA,KB,i32,i32,F12_i,PREP) OP2(name,KA,KB,u32,u32,F12_u,PREP)
#define INT3(name,KA,KB,KC,PREP) OP3(name,KA,KB,KC,i32,i32,F12_i,PREP,Exact()) OP3(name,KA,KB,KC,u32,u32,F12_u,PREP,Exact())
#define INT4(name,PREP) OP4(name,i32,i32,F16_i,PREP) OP4(name,u32,u32,F16_u,PREP)

// ---- domain restrictions (applied to generated inputs before they are recorded) ------------------------------------
#define P_NONE nullptr
#define P_NONAN [](auto& x){ no_nan(x.a); no_nan(x.b); no_nan(x.c); no_nan(x.d); }
#define P_FINITE_A [](auto& x){ finite_only(x.a); }
// clamp(x,lo,hi): GLSL leaves lo>hi undefined
#define P_ORDER_BC [](auto& x){ no_nan(x.a); no_nan(x.b); no_nan(x.c); for(int i=0;i<4;i++) if(x.c[i]<x.b[i]) std::swap(x.b[i],x.c[i]); x.c[0]=std::max(x.c[0],x.b[0]); }
// smoothstep(e0,e1,x): undefined for e0>=e1. operands stored as a=e0,b=e1,c=x
#define P_EDGES_AB [](auto& x){ typedef typename std::remove_reference<decltype(x.a[0])>::type T; finite_only(x.a); finite_only(x.b); finite_only(x.c); for(int i=0;i<4;i++){ if(x.b[i]<x.a[i]) std::swap(x.a[i],x.b[i]); if(!(x.a[i]<x.b[i])){ x.a[i]=(T)0; x.b[i]=(T)1; } if(!isfinite_b((T)(x.b[i]-x.a[i]))){ x.a[i]=(T)-2; x.b[i]=(T)3; } } }
#define P_POS_SMALL_A [](auto& x){ typedef typename std::remove_reference<decltype(x.a[0])>::type T; for(int i=0;i<4;i++){ T v=(T)std::fabs((double)x.a[i]); if(!(v<(T)2147483000.0)) v=(T)(i+0.5); x.a[i]=v; } }
#define P_SMALL_A [](auto& x){ typedef typename std::remove_reference<decltype(x.a[0])>::type T; for(int i=0;i<4;i++) if(!(std::fabs((double)x.a[i])<2147483000.0)) x.a[i]=(T)(i+0.5); }
#define P_ORDER_BC_KEEPNAN [](auto& x){ no_nan(x.b); no_nan(x.c); for(int i=0;i<4;i++) if(x.c[i]<x.b[i]) std::swap(x.b[i],x.c[i]); x.c[0]=std::max(x.c[0],x.b[0]); }
// fma: finite operands whose product stays far from overflow (an unfused a*b may overflow where the fused one does not)
#define P_FMA [](auto& x){ typedef typename std::remove_reference<decltype(x.a[0])>::type T; finite_only(x.a); finite_only(x.b); finite_only(x.c); const double lim=sizeof(T)==4? 1e18:1e150; for(int i=0;i<4;i++){ if(std::fabs((double)x.a[i])>lim) x.a[i]=(T)(i+1.25); if(std::fabs((double)x.b[i])>lim) x.b[i]=(T)(i-2.5); if(std::fabs((double)x.c[i])>lim*lim) x.c[i]=(T)(i*3.0); } }
#define P_NONZERO_B [](auto& x){ nonzero(x.b); }

// ---- tolerance comparators for the composite formulas ("agree within the rounding error of the documented formula") ---
template<class T> static inline bool within(T g,T w,long double bound){ if(same(g,w)) return true; if(!isfinite_b(g)||!isfinite_b(w)) return false; return fabsl((long double)g-(long double)w)<=bound+2*ulp((T)0); }
struct CmpMix { template<class T,class I> bool operator()(T g,T w,const I& in,int i) const { long double x=in.a[i],y=in.b[i],a=in.c[i]; long double S=fabsl(x*(1-a))+fabsl(y*a)+fabsl(x)+fabsl(x*a); return within(g,w,8*uround<T>()*S); } };
struct CmpMixS { template<class T,class I> bool operator()(T g,T w,const I& in,int i) const { long double x=in.a[i],y=in.b[i],a=in.c[0]; long double S=fabsl(x*(1-a))+fabsl(y*a)+fabsl(x)+fabsl(x*a); return within(g,w,8*uround<T>()*S); } };
struct CmpUnit { template<class T,class I> bool operator()(T g,T w,const I&,int) const { return within(g,w,16*uround<T>()); } };
struct CmpMod { template<class T,class I> bool operator()(T g,T w,const I& in,int i) const { long double x=in.a[i]; return within(g,w,8*uround<T>()*(2*fabsl(x)+fabsl((long double)w))); } };
struct CmpFma { template<class T,class I> bool operator()(T g,T w,const I& in,int i) const { long double S=fabsl((long double)in.a[i]*in.b[i])+fabsl((long double)in.c[i]); return within(g,w,4*uround<T>()*S); } };

#if PART==1 // ================================================ unary float functions (common, exponential, trigonometric, reciprocal, ext)
FLT1(abs,P_NONE) FLT1(sign,P_NONAN) FLT1(floor,P_NONE) FLT1(trunc,P_NONE) FLT1(round,P_NONE) FLT1(ceil,P_NONE) FLT1(fract,P_NONE)
FLT1(roundEven,P_SMALL_A)   // |x| < 2^31: beyond that glm casts through int (that defect belongs to C11/C20)
FLT1(isnan,P_NONE) FLT1(isinf,P_NONE)
FLT1(exp,P_NONE) FLT1(log,P_NONE) FLT1(exp2,P_NONE) FLT1(log2,P_NONE) FLT1(sqrt,P_NONE)
FLT1(radians,P_NONE) FLT1(degrees,P_NONE) FLT1(sin,P_NONE) FLT1(cos,P_NONE) FLT1(tan,P_NONE) FLT1(asin,P_NONE) FLT1(acos,P_NONE) FLT1(atan,P_NONE)
FLT1(sinh,P_NONE) FLT1(cosh,P_NONE) FLT1(tanh,P_NONE) FLT1(asinh,P_NONE) FLT1(acosh,P_NONE) FLT1(atanh,P_NONE)
FLT1(sec,P_NONE) FLT1(csc,P_NONE) FLT1(cot,P_NONE) FLT1(asec,P_NONE) FLT1(acsc,P_NONE) FLT1(acot,P_NONE)
FLT1(sech,P_NONE) FLT1(csch,P_NONE) FLT1(coth,P_NONE) FLT1(asech,P_NONE) FLT1(acsch,P_NONE) FLT1(acoth,P_NONE)
FLT1(repeat,P_FINITE_A) FLT1(mirrorClamp,P_FINITE_A) FLT1(mirrorRepeat,P_FINITE_A)
FLT1(iround,P_POS_SMALL_A)
// uround: documented domain is 0 <= x with the nearest integer representable in uint, i.e. up to 2^32 (not 2^31)
#define P_POS_U32_A [](auto& x){ typedef typename std::remove_reference<decltype(x.a[0])>::type T; for(int i=0;i<4;i++){ T v=(T)std::fabs((double)x.a[i]); if(!(v<(T)4294967000.0)) v=(T)(3000000000.0+i*1e8); x.a[i]=v; } if(x.a[0]<(T)2147483648.0 && x.a[1]<(T)2147483648.0) x.a[1]=(T)(2147483648.0+0.5*(double)x.a[1]); /* stays below 2^31+2^30 */ }
FLT1(uround,P_POS_U32_A)
// bit casts (oracle: memcpy)
VF_OP(floatBitsToInt_f32, In3<float>, F12_f){ chk<float,QF,'V','S','S','S',1>(in,c,GF(floatBitsToInt),[](float x){ return (int)fbits(x); },Exact()); } static Reg<float> r_fbti(&floatBitsToInt_f32);
VF_OP(floatBitsToUint_f32, In3<float>, F12_f){ chk<float,QF,'V','S','S','S',1>(in,c,GF(floatBitsToUint),[](float x){ return fbits(x); },Exact()); } static Reg<float> r_fbtu(&floatBitsToUint_f32);
struct BitEq { template<class I> bool operator()(float g,float w,const I&,int) const { return fbits(g)==fbits(w); } };
VF_OP(intBitsToFloat_i32, In3<i32>, F12_i){ chk<i32,QSet<i32>::type,'V','S','S','S',1>(in,c,GF(intBitsToFloat),[](i32 x){ return bitsf((u32)x); },BitEq()); } static Reg<i32> r_ibtf(&intBitsToFloat_i32);
VF_OP(uintBitsToFloat_u32, In3<u32>, F12_u){ chk<u32,QSet<u32>::type,'V','S','S','S',1>(in,c,GF(uintBitsToFloat),[](u32 x){ return bitsf(x); },BitEq()); } static Reg<u32> r_ubtf(&uintBitsToFloat_u32);
// inversesqrt: highp/mediump identical to the scalar overload; lowp float within 2^-8 relative of 1/sqrt(x) on positive normal inputs
VF_OP(inversesqrt_f32, In3<float>, F12_f){ chk<float,QS_hm,'V','S','S','S',1>(in,c,GF(inversesqrt),GF(inversesqrt),Exact()); } static Reg<float> r_isq(&inversesqrt_f32);
VF_OP(inversesqrt_f64, In3<double>, F12_d){ chk<double,QD,'V','S','S','S',1>(in,c,GF(inversesqrt),GF(inversesqrt),Exact()); } static Reg<double> r_isqd(&inversesqrt_f64);
struct CmpLowp { template<class I> bool operator()(float g,long double w,const I&,int) const { return fabsl((long double)g-w)<=w*(1.0L/256); } };
VF_OP(inversesqrt_lowp_f32, In3<float>, F12_f){ chk<float,QS_l,'V','S','S','S',1>(in,c,GF(inversesqrt),[](float x){ return 1.0L/sqrtl((long double)x); },CmpLowp()); }
static Reg<float> r_isql(&inversesqrt_lowp_f32,[](In4x<float>& x){ for(int i=0;i<4;i++){ float v=std::fabs(x.a[i]); if(!(v>=1.17549435e-38f && v<=3.4e38f)) v=(float)(i+1.5); x.a[i]=v; } });
static void workload(){ run_jobs<float>("f32",3000,300000); run_jobs<double>("f64",3000,300000); run_jobs<i32>("i32",3000,300000); run_jobs<u32>("u32",3000,300000); }
#endif

#if PART==2 // ================================================ binary / ternary / quaternary float functions
FLT2(min,V,V,P_NONAN) FLT2(min,V,S,P_NONAN) FLT2(max,V,V,P_NONAN) FLT2(max,V,S,P_NONAN)
FLT2(step,V,V,P_NONAN) FLT2(step,S,V,P_NONAN)
FLT2(pow,V,V,P_NONE) FLT2(atan,V,V,P_NONE)
FLT3(clamp,V,V,V,P_ORDER_BC,Exact()) FLT3(clamp,V,S,S,P_ORDER_BC,Exact())
FLT3(fclamp,V,V,V,P_ORDER_BC_KEEPNAN,ExactZ()) FLT3(fclamp,V,S,S,P_ORDER_BC_KEEPNAN,ExactZ())
FLT3(min,V,V,V,P_NONAN,Exact()) FLT3(max,V,V,V,P_NONAN,Exact()) FLT3(fmin,V,V,V,P_NONE,ExactZ()) FLT3(fmax,V,V,V,P_NONE,ExactZ())
FLT4(min,P_NONAN) FLT4(max,P_NONAN)
#define OPZ(name,KA,KB,NA,T,TN,FMT,INT,N4) VF_OP(name##_##KA##KB##NA##_##TN, INT<T>, FMT){ chk<T,QSet<T>::type,(#KA)[0],(#KB)[0],'V','V',NA>(in,c,GF(name),GF(name),ExactZ()); } static Reg<T> reg_##name##_##KA##KB##NA##_##TN(&name##_##KA##KB##NA##_##TN, nullptr, N4);
OPZ(fmin,V,V,2,float,f32,F12_f,In3,0) OPZ(fmin,V,S,2,float,f32,F12_f,In3,0) OPZ(fmax,V,V,2,float,f32,F12_f,In3,0) OPZ(fmax,V,S,2,float,f32,F12_f,In3,0)
OPZ(fmin,V,V,2,double,f64,F12_d,In3,0) OPZ(fmin,V,S,2,double,f64,F12_d,In3,0) OPZ(fmax,V,V,2,double,f64,F12_d,In3,0) OPZ(fmax,V,S,2,double,f64,F12_d,In3,0)
OPZ(fmin,V,V,4,float,f32,F16_f,In4x,1) OPZ(fmax,V,V,4,float,f32,F16_f,In4x,1) OPZ(fmin,V,V,4,double,f64,F16_d,In4x,1) OPZ(fmax,V,V,4,double,f64,F16_d,In4x,1)
FLT3(mix,V,V,V,P_NONE,CmpMix()) FLT3(mix,V,V,S,P_NONE,CmpMixS())
FLT3(smoothstep,V,V,V,P_EDGES_AB,CmpUnit()) FLT3(smoothstep,S,S,V,P_EDGES_AB,CmpUnit())
FLT3(fma,V,V,V,P_FMA,CmpFma())
// mod(x,y): x - y*floor(x/y); y != 0, finite
#define P_MOD [](auto& x){ finite_only(x.a); finite_only(x.b); nonzero(x.b); }
VF_OP(mod_VV_f32, In3<float>, F12_f){ chk<float,QF,'V','V','S','S',2>(in,c,GF(mod),GF(mod),CmpMod()); } static Reg<float> r_modf1(&mod_VV_f32,P_MOD);
VF_OP(mod_VS_f32, In3<float>, F12_f){ chk<float,QF,'V','S','S','S',2>(in,c,GF(mod),GF(mod),CmpMod()); } static Reg<float> r_modf2(&mod_VS_f32,P_MOD);
VF_OP(mod_VV_f64, In3<double>, F12_d){ chk<double,QD,'V','V','S','S',2>(in,c,GF(mod),GF(mod),CmpMod()); } static Reg<double> r_modd1(&mod_VV_f64,P_MOD);
VF_OP(mod_VS_f64, In3<double>, F12_d){ chk<double,QD,'V','S','S','S',2>(in,c,GF(mod),GF(mod),CmpMod()); } static Reg<double> r_modd2(&mod_VS_f64,P_MOD);
// mix with a boolean selector: vector of bools built from the sign of operand c
template<class T,class QS> static void chk_mix_bool(const In3<T>& in,vf::Ctx& c){ QS::each([&](auto lq){ constexpr int L=decltype(lq)::L; constexpr glm::qualifier Q=decltype(lq)::Q;
	glm::vec<L,T,Q> x=mkv<T,L,Q>(in.a),y=mkv<T,L,Q>(in.b); glm::vec<L,bool,Q> s; for(int i=0;i<L;i++) s[i]=signbit_b(in.c[i]);
	auto r=glm::mix(x,y,s); auto r1=glm::mix(x,y,s[0]);
	for(int i=0;i<L;i++){ T w=glm::mix(in.a[i],in.b[i],(bool)s[i]); if(!same(r[i],w)) c.fail(vcls(L,Q,"component-differs-from-scalar-overload"),r[i],w); T w1=glm::mix(in.a[i],in.b[i],(bool)s[0]); if(!same(r1[i],w1)) c.fail(vcls(L,Q,"scalar-bool-selector:component-differs"),r1[i],w1);
		T sel= s[i]? in.b[i]: in.a[i]; if(!same(r[i],sel)) c.fail(vcls(L,Q,"bool-mix-is-not-a-selection"),r[i],sel); } }); }
VF_OP(mix_bool_f32, In3<float>, F12_f){ chk_mix_bool<float,QF>(in,c); } static Reg<float> r_mixb(&mix_bool_f32);
VF_OP(mix_bool_f64, In3<double>, F12_d){ chk_mix_bool<double,QD>(in,c); } static Reg<double> r_mixbd(&mix_bool_f64);
// out-parameter functions: modf, frexp, ldexp
template<class T,class QS> static void chk_modf(const In3<T>& in,vf::Ctx& c){ QS::each([&](auto lq){ constexpr int L=decltype(lq)::L; constexpr glm::qualifier Q=decltype(lq)::Q;
	glm::vec<L,T,Q> x=mkv<T,L,Q>(in.a), ip((T)99); auto r=glm::modf(x,ip); for(int i=0;i<L;i++){ T wi=(T)99; T w=glm::modf(in.a[i],wi); if(!same(r[i],w)) c.fail(vcls(L,Q,"fraction-differs-from-scalar-overload"),r[i],w); if(!same(ip[i],wi)) c.fail(vcls(L,Q,"integer-part-differs-from-scalar-overload"),ip[i],wi); } }); }
VF_OP(modf_f32, In3<float>, F12_f){ chk_modf<float,QF>(in,c); } static Reg<float> r_modf(&modf_f32);
VF_OP(modf_f64, In3<double>, F12_d){ chk_modf<double,QD>(in,c); } static Reg<double> r_modfd(&modf_f64);
template<class T,class QS> static void chk_frexp(const In3<T>& in,vf::Ctx& c){ QS::each([&](auto lq){ constexpr int L=decltype(lq)::L; constexpr glm::qualifier Q=decltype(lq)::Q;
	glm::vec<L,T,Q> x=mkv<T,L,Q>(in.a); glm::vec<L,int,Q> e(99); auto r=glm::frexp(x,e); for(int i=0;i<L;i++){ int we=99; T w=glm::frexp(in.a[i],we); if(!same(r[i],w)) c.fail(vcls(L,Q,"significand-differs-from-scalar-overload"),r[i],w); if(isfinite_b(in.a[i]) && e[i]!=we) c.fail(vcls(L,Q,"exponent-differs-from-scalar-overload"),e[i],we); }
	glm::vec<L,int,Q> ex; for(int i=0;i<L;i++) ex[i]=(int)std::max(-400.0,std::min(400.0,(double)in.b[i])); if(isnan_b(in.b[0])) return; auto l=glm::ldexp(x,ex); for(int i=0;i<L;i++){ if(isnan_b(in.b[i])) continue; T w=glm::ldexp(in.a[i],(int)ex[i]); if(!same(l[i],w)) c.fail(vcls(L,Q,"ldexp:differs-from-scalar-overload"),l[i],w); } }); }
VF_OP(frexp_ldexp_f32, In3<float>, F12_f){ chk_frexp<float,QF>(in,c); } static Reg<float> r_frexp(&frexp_ldexp_f32,[](auto& x){ no_nan(x.b); });
VF_OP(frexp_ldexp_f64, In3<double>, F12_d){ chk_frexp<double,QD>(in,c); } static Reg<double> r_frexpd(&frexp_ldexp_f64,[](auto& x){ no_nan(x.b); });
static void workload(){ run_jobs<float>("f32",3000,300000); run_jobs<double>("f64",3000,300000); }
#endif

#if PART==3 // ================================================ integer functions (common on ints, ext/vector_integer, relational, any/all/not)
INT1(abs,[](auto& x){ typedef typename std::remove_reference<decltype(x.a[0])>::type T; if(std::is_signed<T>::value) for(int i=0;i<4;i++) if(x.a[i]==std::numeric_limits<T>::min()) x.a[i]=(T)(-7-i); })
OP1(sign,i32,i32,F12_i,P_NONE)
INT2(min,V,V,P_NONE) INT2(min,V,S,P_NONE) INT2(max,V,V,P_NONE) INT2(max,V,S,P_NONE)
INT3(clamp,V,V,V,P_ORDER_BC) INT3(clamp,V,S,S,P_ORDER_BC) INT3(min,V,V,V,P_NONE) INT3(max,V,V,V,P_NONE) INT4(min,P_NONE) INT4(max,P_NONE)
#define P_POW2 [](auto& x){ typedef typename std::remove_reference<decltype(x.a[0])>::type T; for(int i=0;i<4;i++){ if(x.a[i]<=(T)0) x.a[i]=(T)(i+1); if(x.a[i]>(T)(std::numeric_limits<T>::max()/2)) x.a[i]=(T)(1000+i); } }
INT1(isPowerOfTwo,P_POW2) INT1(nextPowerOfTwo,P_POW2) INT1(prevPowerOfTwo,P_POW2)
#define P_MULT [](auto& x){ typedef typename std::remove_reference<decltype(x.a[0])>::type T; for(int i=0;i<4;i++){ T m=x.b[i]; if(m<=(T)0) m=(T)(i+2); if(m>(T)100000) m=(T)(m%1000+1); x.b[i]=m; T v=x.a[i]; T lim=(T)(std::numeric_limits<T>::max()/2-200000); if(v>lim) v=(T)(v%1000000); if(std::is_signed<T>::value && v<(T)0 && v<(T)(-(lim))) v=(T)(-(v%1000000+1)); x.a[i]=v; } }
INT2(isMultiple,V,V,P_MULT) INT2(isMultiple,V,S,P_MULT) INT2(nextMultiple,V,V,P_MULT) INT2(nextMultiple,V,S,P_MULT) INT2(prevMultiple,V,V,P_MULT) INT2(prevMultiple,V,S,P_MULT)
template<class T> static void chk_findNSB(const In3<T>& in,vf::Ctx& c){ QSet<T>::type::each([&](auto lq){ constexpr int L=decltype(lq)::L; constexpr glm::qualifier Q=decltype(lq)::Q;
	glm::vec<L,T,Q> x=mkv<T,L,Q>(in.a); glm::vec<L,int,Q> n; for(int i=0;i<L;i++) n[i]=1+(int)((u32)in.b[i]%32u); auto r=glm::findNSB(x,n); for(int i=0;i<L;i++){ int w=glm::findNSB(in.a[i],(int)n[i]); if(r[i]!=w) c.fail(vcls(L,Q,"component-differs-from-scalar-overload"),r[i],w); } }); }
VF_OP(findNSB_i32, In3<i32>, F12_i){ chk_findNSB<i32>(in,c); } static Reg<i32> r_nsb(&findNSB_i32);
VF_OP(findNSB_u32, In3<u32>, F12_u){ chk_findNSB<u32>(in,c); } static Reg<u32> r_nsbu(&findNSB_u32);
// relational functions vs builtin comparison operators (NaN included: IEEE comparisons are defined)
template<class T,class QS> static void chk_rel(const In3<T>& in,vf::Ctx& c){ QS::each([&](auto lq){ constexpr int L=decltype(lq)::L; constexpr glm::qualifier Q=decltype(lq)::Q;
	glm::vec<L,T,Q> x=mkv<T,L,Q>(in.a),y=mkv<T,L,Q>(in.b); auto lt=glm::lessThan(x,y), le=glm::lessThanEqual(x,y), gt=glm::greaterThan(x,y), ge=glm::greaterThanEqual(x,y), eq=glm::equal(x,y), ne=glm::notEqual(x,y);
	bool an=false, al=true; for(int i=0;i<L;i++){ T a=in.a[i], b=in.b[i];
		if(lt[i]!=(a<b)) c.fail(vcls(L,Q,"lessThan:differs-from-operator"),(bool)lt[i],a<b); if(le[i]!=(a<=b)) c.fail(vcls(L,Q,"lessThanEqual:differs-from-operator"),(bool)le[i],a<=b);
		if(gt[i]!=(a>b)) c.fail(vcls(L,Q,"greaterThan:differs-from-operator"),(bool)gt[i],a>b); if(ge[i]!=(a>=b)) c.fail(vcls(L,Q,"greaterThanEqual:differs-from-operator"),(bool)ge[i],a>=b);
		if(eq[i]!=(a==b)) c.fail(vcls(L,Q,"equal:differs-from-operator"),(bool)eq[i],a==b); if(ne[i]!=(a!=b)) c.fail(vcls(L,Q,"notEqual:differs-from-operator"),(bool)ne[i],a!=b);
		an=an||(a<b); al=al&&(a<b); }
	if(glm::any(lt)!=an) c.fail(vcls(L,Q,"any:wrong"),glm::any(lt),an); if(glm::all(lt)!=al) c.fail(vcls(L,Q,"all:wrong"),glm::all(lt),al);
	auto nt=glm::not_(lt); for(int i=0;i<L;i++) if(nt[i]!=!(in.a[i]<in.b[i])) c.fail(vcls(L,Q,"not_:wrong"),(bool)nt[i],!(in.a[i]<in.b[i]));
	bool veq=(x==y), vne=(x!=y), weq=true; for(int i=0;i<L;i++) weq=weq&&(in.a[i]==in.b[i]); if(veq!=weq) c.fail(vcls(L,Q,"operator==:not-conjunction-of-components"),veq,weq); if(vne!=!weq) c.fail(vcls(L,Q,"operator!=:not-negation-of-=="),vne,!weq); }); }
// epsilon comparisons (ext/vector_relational): vector overloads with a scalar and with a per-component epsilon against the scalar overload
// equal(x,y,eps) / notEqual(x,y,eps) of ext/scalar_relational, NaN and infinities included (both scalar overloads are false on NaN)
template<class T,class QS> static void chk_rel_eps(const In3<T>& in,vf::Ctx& c){ QS::each([&](auto lq){ constexpr int L=decltype(lq)::L; constexpr glm::qualifier Q=decltype(lq)::Q;
	glm::vec<L,T,Q> x=mkv<T,L,Q>(in.a),y=mkv<T,L,Q>(in.b),e=mkv<T,L,Q>(in.c); const T e0=in.c[0];
	auto eqs=glm::equal(x,y,e0), nes=glm::notEqual(x,y,e0), eqv=glm::equal(x,y,e), nev=glm::notEqual(x,y,e);
	for(int i=0;i<L;i++){ bool w1=glm::equal(in.a[i],in.b[i],e0), w2=glm::notEqual(in.a[i],in.b[i],e0), w3=glm::equal(in.a[i],in.b[i],in.c[i]), w4=glm::notEqual(in.a[i],in.b[i],in.c[i]);
		if(eqs[i]!=w1) c.fail(vcls(L,Q,"equal(x,y,scalar-epsilon):component-differs-from-scalar-overload"),(bool)eqs[i],w1); if(nes[i]!=w2) c.fail(vcls(L,Q,"notEqual(x,y,scalar-epsilon):component-differs-from-scalar-overload"),(bool)nes[i],w2);
		if(eqv[i]!=w3) c.fail(vcls(L,Q,"equal(x,y,vector-epsilon):component-differs-from-scalar-overload"),(bool)eqv[i],w3); if(nev[i]!=w4) c.fail(vcls(L,Q,"notEqual(x,y,vector-epsilon):component-differs-from-scalar-overload"),(bool)nev[i],w4);
		c.cls(isnan_b(in.a[i])||isnan_b(in.b[i])? "NaN-operand": isnan_b((T)(in.a[i]-in.b[i]))? "inf-inf": "ordered"); } }); }
#define P_EPS [](auto& x){ typedef typename std::remove_reference<decltype(x.a[0])>::type T; for(int i=0;i<4;i++){ if(isnan_b(x.c[i])||x.c[i]<0) x.c[i]=(T)std::fabs((double)(isnan_b(x.c[i])? (T)0.5: x.c[i])); if((i&1) && isfinite_b(x.a[i]) && isfinite_b(x.c[i])) x.b[i]=(T)(x.a[i]+x.c[i]*(T)((i&2)? 1: 0.5)); } }
VF_OP(relational_epsilon_f32, In3<float>, F12_f){ chk_rel_eps<float,QF>(in,c); } static Reg<float> r_rele1(&relational_epsilon_f32,P_EPS);
VF_OP(relational_epsilon_f64, In3<double>, F12_d){ chk_rel_eps<double,QD>(in,c); } static Reg<double> r_rele2(&relational_epsilon_f64,P_EPS);
VF_OP(relational_f32, In3<float>, F12_f){ chk_rel<float,QF>(in,c); } static Reg<float> r_rel1(&relational_f32);
VF_OP(relational_f64, In3<double>, F12_d){ chk_rel<double,QD>(in,c); } static Reg<double> r_rel2(&relational_f64);
VF_OP(relational_i32, In3<i32>, F12_i){ chk_rel<i32,QSet<i32>::type>(in,c); } static Reg<i32> r_rel3(&relational_i32);
VF_OP(relational_u32, In3<u32>, F12_u){ chk_rel<u32,QSet<u32>::type>(in,c); } static Reg<u32> r_rel4(&relational_u32);
VF_OP(relational_i8, In3<i8>, F12_c){ chk_rel<i8,QS_h>(in,c); } static Reg<i8> r_rel5(&relational_i8);
VF_OP(relational_u16, In3<u16>, F12_h){ chk_rel<u16,QS_h>(in,c); } static Reg<u16> r_rel6(&relational_u16);
VF_OP(relational_i64, In3<i64>, F12_l){ chk_rel<i64,QS_h>(in,c); } static Reg<i64> r_rel7(&relational_i64);
VF_OP(relational_u64, In3<u64>, F12_q){ chk_rel<u64,QS_h>(in,c); } static Reg<u64> r_rel8(&relational_u64);
static void workload(){ run_jobs<float>("f32",3000,300000); run_jobs<double>("f64",3000,300000); run_jobs<i32>("i32",3000,300000); run_jobs<u32>("u32",3000,300000);
	run_jobs<i8>("i8",3000,300000); run_jobs<u16>("u16",3000,300000); run_jobs<i64>("i64",3000,300000); run_jobs<u64>("u64",3000,300000); }
#endif

// ---- operators: oracle = builtin operator on the element type (result converted back to the element type) -------------------
#define LV(EXPR) [](auto const& a_,auto const& b_){ return EXPR; }
#define LC(OPEQ) [](auto a_,auto const& b_){ a_ OPEQ b_; return a_; }
#define BINOPS(nm,OP,T,TN,FMT,PREP,QV1) \
	VF_OP(op_##nm##_VV_##TN, In3<T>, FMT){ chk<T,QSet<T>::type,'V','V','S','S',2>(in,c,LV(a_ OP b_),[](T a,T b){ return (T)(a OP b); },Exact()); } static Reg<T> r_##nm##_VV_##TN(&op_##nm##_VV_##TN,PREP); \
	VF_OP(op_##nm##_VS_##TN, In3<T>, FMT){ chk<T,QSet<T>::type,'V','S','S','S',2>(in,c,LV(a_ OP b_),[](T a,T b){ return (T)(a OP b); },Exact()); } static Reg<T> r_##nm##_VS_##TN(&op_##nm##_VS_##TN,PREP); \
	VF_OP(op_##nm##_SV_##TN, In3<T>, FMT){ chk<T,QSet<T>::type,'S','V','S','S',2>(in,c,LV(a_ OP b_),[](T a,T b){ return (T)(a OP b); },Exact()); } static Reg<T> r_##nm##_SV_##TN(&op_##nm##_SV_##TN,PREP); \
	VF_OP(op_##nm##_V1_##TN, In3<T>, FMT){ chk<T,QV1,'V','1','S','S',2>(in,c,LV(a_ OP b_),[](T a,T b){ return (T)(a OP b); },Exact()); } static Reg<T> r_##nm##_V1_##TN(&op_##nm##_V1_##TN,PREP); \
	VF_OP(op_##nm##_1V_##TN, In3<T>, FMT){ chk<T,QSet<T>::type,'1','V','S','S',2>(in,c,LV(a_ OP b_),[](T a,T b){ return (T)(a OP b); },Exact()); } static Reg<T> r_##nm##_1V_##TN(&op_##nm##_1V_##TN,PREP); \
	VF_OP(op_##nm##_assign_VV_##TN, In3<T>, FMT){ chk<T,QSet<T>::type,'V','V','S','S',2>(in,c,LC(OP##=),[](T a,T b){ return (T)(a OP b); },Exact()); } static Reg<T> r_##nm##_aVV_##TN(&op_##nm##_assign_VV_##TN,PREP); \
	VF_OP(op_##nm##_assign_VS_##TN, In3<T>, FMT){ chk<T,QSet<T>::type,'V','S','S','S',2>(in,c,LC(OP##=),[](T a,T b){ return (T)(a OP b); },Exact()); } static Reg<T> r_##nm##_aVS_##TN(&op_##nm##_assign_VS_##TN,PREP); \
	VF_OP(op_##nm##_assign_V1_##TN, In3<T>, FMT){ chk<T,QV1,'V','1','S','S',2>(in,c,LC(OP##=),[](T a,T b){ return (T)(a OP b); },Exact()); } static Reg<T> r_##nm##_aV1_##TN(&op_##nm##_assign_V1_##TN,PREP);
#define BINOPS_LITE(nm,OP,T,TN,FMT,PREP) \
	VF_OP(op_##nm##_VV_##TN, In3<T>, FMT){ chk<T,QSet<T>::type,'V','V','S','S',2>(in,c,LV(a_ OP b_),[](T a,T b){ return (T)(a OP b); },Exact()); } static Reg<T> r_##nm##_VV_##TN(&op_##nm##_VV_##TN,PREP); \
	VF_OP(op_##nm##_VS_##TN, In3<T>, FMT){ chk<T,QSet<T>::type,'V','S','S','S',2>(in,c,LV(a_ OP b_),[](T a,T b){ return (T)(a OP b); },Exact()); } static Reg<T> r_##nm##_VS_##TN(&op_##nm##_VS_##TN,PREP); \
	VF_OP(op_##nm##_SV_##TN, In3<T>, FMT){ chk<T,QSet<T>::type,'S','V','S','S',2>(in,c,LV(a_ OP b_),[](T a,T b){ return (T)(a OP b); },Exact()); } static Reg<T> r_##nm##_SV_##TN(&op_##nm##_SV_##TN,PREP); \
	VF_OP(op_##nm##_assign_VV_##TN, In3<T>, FMT){ chk<T,QSet<T>::type,'V','V','S','S',2>(in,c,LC(OP##=),[](T a,T b){ return (T)(a OP b); },Exact()); } static Reg<T> r_##nm##_aVV_##TN(&op_##nm##_assign_VV_##TN,PREP);
#define UNOPS(T,TN,FMT,PREP) \
	VF_OP(op_neg_##TN, In3<T>, FMT){ chk<T,QSet<T>::type,'V','S','S','S',1>(in,c,[](auto const& a_){ return -a_; },[](T a){ return (T)(-a); },Exact()); } static Reg<T> r_neg_##TN(&op_neg_##TN,PREP); \
	VF_OP(op_preinc_##TN, In3<T>, FMT){ chk<T,QSet<T>::type,'V','S','S','S',1>(in,c,[](auto a_){ auto r_=++a_; return r_; },[](T a){ return (T)(a+1); },Exact()); } static Reg<T> r_pri_##TN(&op_preinc_##TN,PREP); \
	VF_OP(op_predec_##TN, In3<T>, FMT){ chk<T,QSet<T>::type,'V','S','S','S',1>(in,c,[](auto a_){ auto r_=--a_; return r_; },[](T a){ return (T)(a-1); },Exact()); } static Reg<T> r_prd_##TN(&op_predec_##TN,PREP); \
	VF_OP(op_postinc_##TN, In3<T>, FMT){ chk<T,QSet<T>::type,'V','S','S','S',1>(in,c,[](auto a_){ auto r_=a_++; return r_; },[](T a){ return a; },Exact()); chk<T,QSet<T>::type,'V','S','S','S',1>(in,c,[](auto a_){ a_++; return a_; },[](T a){ return (T)(a+1); },Exact()); } static Reg<T> r_poi_##TN(&op_postinc_##TN,PREP); \
	VF_OP(op_postdec_##TN, In3<T>, FMT){ chk<T,QSet<T>::type,'V','S','S','S',1>(in,c,[](auto a_){ auto r_=a_--; return r_; },[](T a){ return a; },Exact()); chk<T,QSet<T>::type,'V','S','S','S',1>(in,c,[](auto a_){ a_--; return a_; },[](T a){ return (T)(a-1); },Exact()); } static Reg<T> r_pod_##TN(&op_postdec_##TN,PREP);
// signed 32/64-bit operands are kept small enough that + - * ++ -- cannot overflow (signed overflow is outside any documented domain)
#define P_ARITH [](auto& x){ typedef typename std::remove_reference<decltype(x.a[0])>::type T; if constexpr(std::is_integral<T>::value && std::is_signed<T>::value && sizeof(T)>=4){ const T lim=(T)((T)1<<(sizeof(T)*4-2)); for(int i=0;i<4;i++){ x.a[i]=(T)(x.a[i]%lim); x.b[i]=(T)(x.b[i]%lim); } } }
#define P_DIV [](auto& x){ typedef typename std::remove_reference<decltype(x.a[0])>::type T; nonzero(x.b); if constexpr(std::is_integral<T>::value && std::is_signed<T>::value) for(int i=0;i<4;i++) if(x.a[i]==std::numeric_limits<T>::min()) x.a[i]=(T)(std::numeric_limits<T>::min()+1+i); }
#define P_DIVF [](auto& x){ }
#define P_SHIFT [](auto& x){ typedef typename std::remove_reference<decltype(x.a[0])>::type T; typedef typename std::make_unsigned<T>::type U; for(int i=0;i<4;i++) x.b[i]=(T)((U)x.b[i]%(U)(sizeof(T)*8)); if constexpr(std::is_signed<T>::value && sizeof(T)>=4) for(int i=0;i<4;i++){ /* left shift of a signed value: keep the result representable */ int sh=(int)x.b[i]; if(sh>0){ const int rem=(int)(sizeof(T)*8)-2-sh; T lim=(T)((T)1<<(rem>0? rem:0)); if(lim<1) lim=1; x.a[i]=(T)(x.a[i]%lim); if(x.a[i]<0) x.a[i]=(T)-x.a[i]; } } }
#define P_SHIFTR [](auto& x){ typedef typename std::remove_reference<decltype(x.a[0])>::type T; typedef typename std::make_unsigned<T>::type U; for(int i=0;i<4;i++) x.b[i]=(T)((U)x.b[i]%(U)(sizeof(T)*8)); }
#define P_NEG [](auto& x){ typedef typename std::remove_reference<decltype(x.a[0])>::type T; if constexpr(std::is_integral<T>::value && std::is_signed<T>::value) for(int i=0;i<4;i++) if(x.a[i]==std::numeric_limits<T>::min()||x.a[i]==std::numeric_limits<T>::max()) x.a[i]=(T)(i+5); }
#define INTOPS(T,TN,FMT) BINOPS(add,+,T,TN,FMT,P_ARITH,QS_124) BINOPS(sub,-,T,TN,FMT,P_ARITH,QS_124) BINOPS(mul,*,T,TN,FMT,P_ARITH,QALL(T)) BINOPS(div,/,T,TN,FMT,P_DIV,QALL(T)) BINOPS(mod,%,T,TN,FMT,P_DIV,QS_123) \
	BINOPS(and,&,T,TN,FMT,P_NONE,QALL(T)) BINOPS(or,|,T,TN,FMT,P_NONE,QALL(T)) BINOPS(xor,^,T,TN,FMT,P_NONE,QALL(T)) BINOPS(shl,<<,T,TN,FMT,P_SHIFT,QS_124) BINOPS(shr,>>,T,TN,FMT,P_SHIFTR,QALL(T)) UNOPS(T,TN,FMT,P_NEG) \
	VF_OP(op_not_##TN, In3<T>, FMT){ chk<T,QSet<T>::type,'V','S','S','S',1>(in,c,[](auto const& a_){ return ~a_; },[](T a){ return (T)(~a); },Exact()); } static Reg<T> r_not_##TN(&op_not_##TN);
#define INTOPS_LITE(T,TN,FMT) BINOPS_LITE(add,+,T,TN,FMT,P_ARITH) BINOPS_LITE(sub,-,T,TN,FMT,P_ARITH) BINOPS_LITE(mul,*,T,TN,FMT,P_ARITH) BINOPS_LITE(div,/,T,TN,FMT,P_DIV) BINOPS_LITE(mod,%,T,TN,FMT,P_DIV) \
	BINOPS_LITE(and,&,T,TN,FMT,P_NONE) BINOPS_LITE(or,|,T,TN,FMT,P_NONE) BINOPS_LITE(xor,^,T,TN,FMT,P_NONE) BINOPS_LITE(shl,<<,T,TN,FMT,P_SHIFT) BINOPS_LITE(shr,>>,T,TN,FMT,P_SHIFTR) UNOPS(T,TN,FMT,P_NEG) \
	VF_OP(op_not_##TN, In3<T>, FMT){ chk<T,QSet<T>::type,'V','S','S','S',1>(in,c,[](auto const& a_){ return ~a_; },[](T a){ return (T)(~a); },Exact()); } static Reg<T> r_not_##TN(&op_not_##TN);
#define FLTOPS(T,TN,FMT) BINOPS(add,+,T,TN,FMT,P_NONE,QS_124) BINOPS(sub,-,T,TN,FMT,P_NONE,QS_124) BINOPS(mul,*,T,TN,FMT,P_NONE,QALL(T)) BINOPS(div,/,T,TN,FMT,P_NONE,QALL(T)) UNOPS(T,TN,FMT,P_NONE)

#if PART==4 // ================================================ operators: float, double
FLTOPS(float,f32,F12_f) FLTOPS(double,f64,F12_d)
static void workload(){ run_jobs<float>("f32",3000,300000); run_jobs<double>("f64",3000,300000); }
#endif
#if PART==5 // ================================================ operators: int, uint
INTOPS(i32,i32,F12_i) INTOPS(u32,u32,F12_u)
static void workload(){ run_jobs<i32>("i32",3000,300000); run_jobs<u32>("u32",3000,300000); }
#endif
#if PART==6 // ================================================ operators: sized integers (8, 16, 64 bit)
INTOPS_LITE(i8,i8,F12_c) INTOPS_LITE(u8,u8,F12_b) INTOPS_LITE(i16,i16,F12_s) INTOPS_LITE(u16,u16,F12_h) INTOPS_LITE(i64,i64,F12_l) INTOPS_LITE(u64,u64,F12_q)
static void workload(){ run_jobs<i8>("i8",3000,300000); run_jobs<u8>("u8",3000,300000); run_jobs<i16>("i16",3000,300000); run_jobs<u16>("u16",3000,300000); run_jobs<i64>("i64",3000,300000); run_jobs<u64>("u64",3000,300000); }
#endif

#if PART==7 // ================================================ matrix versions: abs, mix, equal/notEqual act per element
template<class T> struct InM { T a[16]; T b[16]; T c[16]; };
template<class T,int C,int R,glm::qualifier Q> static void chk_mat(const InM<T>& in,vf::Ctx& c){
	glm::mat<C,R,T,Q> A,B,W; for(int i=0;i<C;i++) for(int j=0;j<R;j++){ A[i][j]=in.a[i*4+j]; B[i][j]=in.b[i*4+j]; W[i][j]=in.c[i*4+j]; }
	std::string tag="mat"+std::to_string(C)+"x"+std::to_string(R)+":"+qname(Q)+":";
	auto ab=glm::abs(A); auto mxs=glm::mix(A,B,in.c[0]); glm::mat<C,R,T,Q> mxm; if constexpr(C==R) mxm=glm::mix(A,B,W); /* mix(mat,mat,mat) only compiles for square shapes (needs scalar - mat) */ auto eq=glm::equal(A,B); auto ne=glm::notEqual(A,B);
	for(int i=0;i<C;i++){ bool alleq=true;
		for(int j=0;j<R;j++){ T x=A[i][j], y=B[i][j], w=W[i][j]; alleq=alleq&&(x==y);
			if(!same(ab[i][j],glm::abs(x))) c.fail(tag+"abs:element-differs-from-scalar-overload",ab[i][j],glm::abs(x));
			{ T want=glm::mix(x,y,in.c[0]); long double S=fabsl((long double)x*(1-(long double)in.c[0]))+fabsl((long double)y*in.c[0])+fabsl((long double)x)+fabsl((long double)x*in.c[0]); if(!within(mxs[i][j],want,8*uround<T>()*S)) c.fail(tag+"mix(scalar a):element-differs-from-scalar-overload",mxs[i][j],want); }
			if constexpr(C==R){ T want=glm::mix(x,y,w); long double S=fabsl((long double)x*(1-(long double)w))+fabsl((long double)y*w)+fabsl((long double)x)+fabsl((long double)x*w); if(!within(mxm[i][j],want,8*uround<T>()*S)) c.fail(tag+"mix(matrix a):element-differs-from-scalar-overload",mxm[i][j],want); }
		}
		if((bool)eq[i]!=alleq) c.fail(tag+"equal:column-result-is-not-conjunction-of-element-equality",(bool)eq[i],alleq);
		if((bool)ne[i]!=!alleq) c.fail(tag+"notEqual:column-result-is-not-negation-of-equal",(bool)ne[i],!alleq);
	}
}
template<class T,glm::qualifier Q> static void chk_mat_all(const InM<T>& in,vf::Ctx& c){ chk_mat<T,2,2,Q>(in,c); chk_mat<T,2,3,Q>(in,c); chk_mat<T,2,4,Q>(in,c); chk_mat<T,3,2,Q>(in,c); chk_mat<T,3,3,Q>(in,c); chk_mat<T,3,4,Q>(in,c); chk_mat<T,4,2,Q>(in,c); chk_mat<T,4,3,Q>(in,c); chk_mat<T,4,4,Q>(in,c); }
#define F48(x) x x x x x x x x x x x x x x x x x x x x x x x x x x x x x x x x x x x x x x x x x x x x x x x x
VF_OP(matrix_elementwise_f32, InM<float>, F48("f")){ chk_mat_all<float,glm::highp>(in,c); chk_mat_all<float,glm::mediump>(in,c); chk_mat_all<float,glm::lowp>(in,c); }
VF_OP(matrix_elementwise_f64, InM<double>, F48("d")){ chk_mat_all<double,glm::highp>(in,c); chk_mat_all<double,glm::lowp>(in,c); }
template<class T> static void run_mat(const char* label,vf::Op& op){ std::vector<T> L=lat<T>(); u64 n=vf::N(3000,300000);
	vf::parallel(label,[&](int t,int TT,vf::Ctx& c){ for(u64 i=t;i<n+L.size();i+=TT){ InM<T> x; T* p=x.a; for(int k=0;k<48;k++){ T v= i<L.size()? L[(i+k*7)%L.size()] : Gen<T>::any(c.rng,L); if(isnan_b(v)) v=fp<T>::make(fp<T>::raw(v)|((typename fp<T>::U)1<<(fp<T>::MANT-1))); p[k]=v; }
		for(int k=0;k<16;k++) if(c.rng.next()%3==0) x.b[k]=x.a[k]; if(vf::want(op)) vf::run(c,op,x); } }); }
static void workload(){ run_mat<float>("mf32",matrix_elementwise_f32); run_mat<double>("mf64",matrix_elementwise_f64); }
#endif

#define VF_STR2(x) #x
#define VF_STR(x) VF_STR2(x)
VF_MAIN("C01_vec.part" VF_STR(PART))
