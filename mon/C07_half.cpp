// C07 — float <-> half conversion: exhaustive monitors (2^16 half patterns, 2^32 float patterns)
// oracle: bit-level software model written from IEEE-754, cross-checked against the CPU's F16C instructions.
#include "vf.hpp"
#include "ref.hpp"
#include <glm/glm.hpp>
#include <glm/gtc/packing.hpp>
#include <immintrin.h>
#include <cpuid.h>
using namespace ref;

// ---- software model -------------------------------------------------------
// exact value of the positive half pattern h in 0..0x7c00 (0x7c00 stands for 65536 = the next grid point, used only for rounding)
static inline double half_grid_value(unsigned h){ unsigned e=h>>10, m=h&0x3ff; if(e==0) return std::ldexp((double)m,-24); return std::ldexp((double)(1024+m),(int)e-25); }
static inline float ref_half_to_float(u16 h){ unsigned s=h>>15, e=(h>>10)&31, m=h&0x3ff; if(e==31){ return bitsf((s<<31)|0x7f800000u|(m<<13)); } double v=half_grid_value(h&0x7fff); float f=(float)v; return s? -f: f; }
// largest positive pattern lo (0..0x7bff) with value(lo) <= ax, for finite ax>=0
static inline unsigned half_floor(double ax){
	if(ax>=65504.0) return 0x7bff; if(ax<std::ldexp(1.0,-14)) return (unsigned)std::floor(std::ldexp(ax,24));
	int e; double m=std::frexp(ax,&e); int E=e-1; // ax = (2m) * 2^E, 2m in [1,2)
	unsigned frac=(unsigned)std::floor((2*m-1.0)*1024.0); return (unsigned)((E+15)<<10)+frac;
}
// set of acceptable results for float->half of x (non-NaN): returns lo/hi acceptable magnitudes (equal when unique)
static inline void ref_float_to_half(float x,u16& a,u16& b,bool& tie){
	unsigned s=fbits(x)>>31; double ax=std::fabs((double)x); tie=false;
	if(isinf_b(x)||ax>=65520.0){ a=b=(u16)((s<<15)|0x7c00); return; }
	unsigned lo=half_floor(ax), hi=lo+1; double dl=ax-half_grid_value(lo), dh=half_grid_value(hi)-ax;
	if(dl<dh) a=b=(u16)lo; else if(dh<dl) a=b=(u16)hi; else { a=(u16)lo; b=(u16)hi; tie=true; }
	a|=(u16)(s<<15); b|=(u16)(s<<15);
}
static inline int half_ord(u16 h){ int m=h&0x7fff; return (h&0x8000)? -m: m; }

static bool g_f16c=false;
static std::atomic<unsigned long long> g_oracle_disagree(0);

struct InH { u16 h; };
struct InF { float x; };

VF_OP(unpackHalf1x16_all, InH, "h"){
	float got=glm::unpackHalf1x16(in.h); float want=ref_half_to_float(in.h);
	unsigned e=(in.h>>10)&31, m=in.h&0x3ff;
	if(e==31&&m){ c.cls("nan"); if(!isnan_b(got)) c.fail("nan-code:not-nan",got,want); else if((fbits(got)>>31)!=(unsigned)(in.h>>15)) c.fail("nan-code:sign-lost",got,want); }
	else { c.cls(e==31?"inf":(e==0?(m?"subnormal":"zero"):"normal")); if(fbits(got)!=fbits(want)) c.fail(e==31?"inf:wrong":(e==0?(m?"subnormal:wrong-value":"zero:wrong"):"normal:wrong-value"),got,want); }
	if(g_f16c && !(e==31&&m)){ float hw=_cvtsh_ss(in.h); if(fbits(hw)!=fbits(want)) g_oracle_disagree++; }
}
VF_OP(packHalf_of_unpackHalf_all, InH, "h"){
	float f=glm::unpackHalf1x16(in.h); u16 back=glm::packHalf1x16(f);
	unsigned e=(in.h>>10)&31, m=in.h&0x3ff; bool nan=(e==31&&m);
	if(back!=in.h) c.fail(nan?"roundtrip:nan-code-changed":"roundtrip:code-changed",vf::show((unsigned)back),vf::show((unsigned)in.h));
}
// the same two enumerations with the SSE control register set to flush-to-zero + denormals-are-zero (what -ffast-math start-up code,
// audio and game engines run with): the conversions are specified on bit patterns, so the floating-point environment of the caller
// must not matter.  No hardware cross-check here (the oracle is the integer model only); the control register is restored afterwards.
struct FtzDaz { unsigned old; FtzDaz(){ old=_mm_getcsr(); _mm_setcsr(old|0x8040u); } ~FtzDaz(){ _mm_setcsr(old); } };
VF_OP(unpackHalf1x16_all_ftz_daz, InH, "h"){
	u32 gb; { FtzDaz env; float got=glm::unpackHalf1x16(in.h); memcpy(&gb,&got,4); }
	float want=ref_half_to_float(in.h); unsigned e=(in.h>>10)&31, m=in.h&0x3ff; float got=bitsf(gb);
	if(e==31&&m){ if(!isnan_b(got)) c.fail("ftz+daz:nan-code:not-nan",got,want); }
	else { c.cls(e==0&&m? "subnormal":"other"); if(gb!=fbits(want)) c.fail(e==0&&m? "ftz+daz:subnormal:wrong-value":"ftz+daz:wrong-value",got,want); }
}
VF_OP(packHalf_of_unpackHalf_all_ftz_daz, InH, "h"){
	u16 back; { FtzDaz env; float f=glm::unpackHalf1x16(in.h); back=glm::packHalf1x16(f); }
	if(back!=in.h) c.fail("ftz+daz:roundtrip:code-changed",vf::show((unsigned)back),vf::show((unsigned)in.h));
}
VF_OP(packHalf1x16_all, InF, "f"){
	u16 got=glm::packHalf1x16(in.x);
	if(isnan_b(in.x)){ c.cls("nan"); if(!((got&0x7c00)==0x7c00&&(got&0x3ff))) c.fail("nan:not-kept",vf::show((unsigned)got),"a half NaN"); return; }
	u16 a,b; bool tie; ref_float_to_half(in.x,a,b,tie);
	double ax=std::fabs((double)in.x);
	const char* k = isinf_b(in.x)?"inf": ax>=65520.0?"overflow": ax==0?"zero": ax<std::ldexp(1.0,-25)?"underflow-to-zero": ax<std::ldexp(1.0,-14)?"half-subnormal-range": tie?"tie":"normal";
	if(tie) c.cls("tie"); c.cls(k);
	if(got!=a&&got!=b){
		std::string cls=std::string(k)+":";
		if((got^a)&0x8000) cls+="sign-wrong"; else if((got&0x7fff)==0x7c00) cls+="inf-instead-of-finite"; else if((got&0x7c00)==0x7c00) cls+="nan-instead-of-number"; else { int d=half_ord(got)-half_ord(a); cls+= (d>0? (got&0x8000?"not-nearest":"not-nearest"):"not-nearest"); }
		c.fail(cls,vf::show((unsigned)got),tie? vf::show((unsigned)a)+" or "+vf::show((unsigned)b): vf::show((unsigned)a));
	}
	// sign symmetry
	u16 neg=glm::packHalf1x16(-in.x); if((u16)(neg^0x8000)!=got) c.fail("sign-asymmetric",vf::show((unsigned)neg),vf::show((unsigned)(got^0x8000)));
	if(g_f16c){ u16 hw=(u16)_cvtss_sh(in.x,_MM_FROUND_TO_NEAREST_INT|_MM_FROUND_NO_EXC); if(hw!=a&&hw!=b) g_oracle_disagree++; }
}
// monotonicity along the increasing sweep of positive floats: input = the lower float of an adjacent pair
VF_OP(packHalf1x16_monotone, InF, "f"){
	u32 b=fbits(in.x); float nx=bitsf(b+1); if(isnan_b(in.x)||isnan_b(nx)) return;
	u16 h0=glm::packHalf1x16(in.x), h1=glm::packHalf1x16(nx);
	bool neg=b>>31; // for negative patterns increasing bits = decreasing value
	int o0=half_ord(h0), o1=half_ord(h1); bool nan0=(h0&0x7c00)==0x7c00&&(h0&0x3ff), nan1=(h1&0x7c00)==0x7c00&&(h1&0x3ff);
	if(nan0||nan1){ c.fail("monotone:nan-from-number",vf::show((unsigned)h1),"ordered half"); return; }
	if(neg? (o1>o0):(o1<o0)) c.fail("monotone:order-reversed",vf::show((unsigned)h1),std::string(neg?"<= ":">= ")+vf::show((unsigned)h0));
}

struct In4F { float v[4]; };
struct In4H { u16 h[4]; };
static inline u16 ref_pack_rne_or_got(float x,u16 got){ // acceptable? return got if acceptable else the reference
	if(isnan_b(x)) return ((got&0x7c00)==0x7c00&&(got&0x3ff))? got: (u16)0x7e00;
	u16 a,b; bool t; ref_float_to_half(x,a,b,t); return (got==a||got==b)? got: a; }
VF_OP(packHalf2x16_vec, In4F, "ffff"){
	glm::uint p=glm::packHalf2x16(glm::vec2(in.v[0],in.v[1])); u16 g0=(u16)(p&0xffff), g1=(u16)(p>>16);
	u16 w0=ref_pack_rne_or_got(in.v[0],g0), w1=ref_pack_rne_or_got(in.v[1],g1);
	if(g0!=w0) c.fail("component0(low16):wrong",vf::show((unsigned)g0),vf::show((unsigned)w0));
	if(g1!=w1) c.fail("component1(high16):wrong",vf::show((unsigned)g1),vf::show((unsigned)w1));
}
VF_OP(packHalf4x16_vec, In4F, "ffff"){
	glm::uint64 p=glm::packHalf4x16(glm::vec4(in.v[0],in.v[1],in.v[2],in.v[3]));
	for(int i=0;i<4;i++){ u16 g=(u16)(p>>(16*i)); u16 w=ref_pack_rne_or_got(in.v[i],g); if(g!=w) c.fail("component"+std::to_string(i)+":wrong",vf::show((unsigned)g),vf::show((unsigned)w)); }
}
template<int L,glm::qualifier Q> static void chk_packHalfL(const In4F& in,vf::Ctx& c){
	glm::vec<L,float,Q> v; for(int i=0;i<L;i++) v[i]=in.v[i]; glm::vec<L,glm::uint16,Q> p=glm::packHalf(v);
	for(int i=0;i<L;i++){ u16 g=p[i]; u16 w=ref_pack_rne_or_got(in.v[i],g); if(g!=w) c.fail("component"+std::to_string(i)+":wrong",vf::show((unsigned)g),vf::show((unsigned)w)); }
	glm::vec<L,float,Q> back=glm::unpackHalf(p);
	for(int i=0;i<L;i++){ float want=ref_half_to_float(p[i]); if(!same(back[i],want)) c.fail("unpackHalf component"+std::to_string(i)+":wrong",back[i],want); }
}
VF_OP(packHalf_vec1, In4F, "ffff"){ chk_packHalfL<1,glm::highp>(in,c); }
VF_OP(packHalf_vec2, In4F, "ffff"){ chk_packHalfL<2,glm::mediump>(in,c); }
VF_OP(packHalf_vec3, In4F, "ffff"){ chk_packHalfL<3,glm::lowp>(in,c); }
VF_OP(packHalf_vec4, In4F, "ffff"){ chk_packHalfL<4,glm::highp>(in,c); }
VF_OP(unpackHalf2x16_vec, In4H, "hhhh"){
	glm::vec2 g=glm::unpackHalf2x16((glm::uint)in.h[0]|((glm::uint)in.h[1]<<16));
	for(int i=0;i<2;i++){ float w=ref_half_to_float(in.h[i]); if(!same(g[i],w)) c.fail("component"+std::to_string(i)+":wrong",g[i],w); }
}
VF_OP(unpackHalf4x16_vec, In4H, "hhhh"){
	glm::uint64 p=0; for(int i=0;i<4;i++) p|=(glm::uint64)in.h[i]<<(16*i); glm::vec4 g=glm::unpackHalf4x16(p);
	for(int i=0;i<4;i++){ float w=ref_half_to_float(in.h[i]); if(!same(g[i],w)) c.fail("component"+std::to_string(i)+":wrong",g[i],w); }
}
template<int L> static void chk_unpackHalfL(const In4H& in,vf::Ctx& c){
	glm::vec<L,glm::uint16,glm::highp> p; for(int i=0;i<L;i++) p[i]=in.h[i]; glm::vec<L,float,glm::highp> g=glm::unpackHalf(p);
	for(int i=0;i<L;i++){ float w=ref_half_to_float(in.h[i]); if(!same(g[i],w)) c.fail("component"+std::to_string(i)+":wrong",g[i],w); }
}
VF_OP(unpackHalf_vec1, In4H, "hhhh"){ chk_unpackHalfL<1>(in,c); }
VF_OP(unpackHalf_vec2, In4H, "hhhh"){ chk_unpackHalfL<2>(in,c); }
VF_OP(unpackHalf_vec3, In4H, "hhhh"){ chk_unpackHalfL<3>(in,c); }
VF_OP(unpackHalf_vec4, In4H, "hhhh"){ chk_unpackHalfL<4>(in,c); }

static void workload(){
	{ unsigned a=0,b=0,c2=0,d=0; g_f16c= __get_cpuid(1,&a,&b,&c2,&d) && ((c2>>29)&1); } // CPUID.1:ECX.F16C (clang 14 has no "f16c" string for __builtin_cpu_supports)
	vf::note("f16c_cross_check", g_f16c?"CPU F16C available: software oracle compared against _cvtsh_ss/_cvtss_sh on every input":"F16C not available: software oracle only");
	// stride: the sanitizer re-run (C20) strides the float sweep by a seed-dependent odd stride
	u64 stride=1; { auto it=vf::cfg().extra.find("stride"); if(it!=vf::cfg().extra.end()) stride=strtoull(it->second.c_str(),0,10)|1; }
	u64 phase=stride>1? (vf::cfg().seed*2654435761ULL)%stride : 0;
	vf::sweep("h16",1u<<16,1u<<10,[&](vf::Ctx& c,u64 lo,u64 hi){ for(u64 h=lo;h<hi;h++){ InH in{(u16)h}; if(vf::want(unpackHalf1x16_all)) vf::run(c,unpackHalf1x16_all,in); if(vf::want(packHalf_of_unpackHalf_all)) vf::run(c,packHalf_of_unpackHalf_all,in); if(vf::want(unpackHalf1x16_all_ftz_daz)) vf::run(c,unpackHalf1x16_all_ftz_daz,in); if(vf::want(packHalf_of_unpackHalf_all_ftz_daz)) vf::run(c,packHalf_of_unpackHalf_all_ftz_daz,in);} });
	u64 total=(1ULL<<32)/stride;
	if(vf::want(packHalf1x16_all)) vf::sweep("f32",total,1u<<18,[&](vf::Ctx& c,u64 lo,u64 hi){ for(u64 i=lo;i<hi;i++){ InF in{bitsf((u32)(i*stride+phase))}; vf::run(c,packHalf1x16_all,in);} });
	if(vf::want(packHalf1x16_monotone)) vf::sweep("f32m",total,1u<<18,[&](vf::Ctx& c,u64 lo,u64 hi){ for(u64 i=lo;i<hi;i++){ InF in{bitsf((u32)(i*stride+phase))}; vf::run(c,packHalf1x16_monotone,in);} });
	// vector overloads: lattice tuples + random
	std::vector<float> L=float_lattice();
	u64 n=vf::N(200000,20000000);
	vf::parallel("vec",[&](int t,int T,vf::Ctx& c){
		auto one=[&](const In4F& in){ if(vf::want(packHalf2x16_vec)) vf::run(c,packHalf2x16_vec,in); if(vf::want(packHalf4x16_vec)) vf::run(c,packHalf4x16_vec,in); if(vf::want(packHalf_vec1)) vf::run(c,packHalf_vec1,in); if(vf::want(packHalf_vec2)) vf::run(c,packHalf_vec2,in); if(vf::want(packHalf_vec3)) vf::run(c,packHalf_vec3,in); if(vf::want(packHalf_vec4)) vf::run(c,packHalf_vec4,in); };
		auto oneh=[&](const In4H& in){ if(vf::want(unpackHalf2x16_vec)) vf::run(c,unpackHalf2x16_vec,in); if(vf::want(unpackHalf4x16_vec)) vf::run(c,unpackHalf4x16_vec,in); if(vf::want(unpackHalf_vec1)) vf::run(c,unpackHalf_vec1,in); if(vf::want(unpackHalf_vec2)) vf::run(c,unpackHalf_vec2,in); if(vf::want(unpackHalf_vec3)) vf::run(c,unpackHalf_vec3,in); if(vf::want(unpackHalf_vec4)) vf::run(c,unpackHalf_vec4,in); };
		if(t==0) for(size_t i=0;i<L.size();i++){ In4F in; for(int k=0;k<4;k++) in.v[k]=L[(i+k*7)%L.size()]; one(in); for(int k=0;k<4;k++){ In4F s{}; s.v[k]=L[i]; one(s);} }
		for(u64 i=t;i<n;i+=T){ In4F in; for(int k=0;k<4;k++){ int m=c.rng.range(0,3); in.v[k]= m==0? c.rng.fbits(): m==1? (float)c.rng.logmag(-30,20): m==2? (float)c.rng.uniform(-70000,70000): L[c.rng.below(L.size())]; } one(in);
			In4H ih; for(int k=0;k<4;k++) ih.h[k]=(u16)c.rng.u32_(); oneh(ih); }
	});
	unsigned long long d=g_oracle_disagree.load(); vf::note("oracle_disagreements_software_vs_f16c",std::to_string(d));
	if(d){ fprintf(stderr,"oracle self-check failed: software model and F16C disagree on %llu inputs\n",d); vf::write_results("C07_half"); exit(4); }
}
VF_MAIN("C07_half")
