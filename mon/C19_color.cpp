// C19 — colour-space conversions: gtc convertLinearToSRGB / convertSRGBToLinear (default and gamma forms, vec3/vec4,
// float/double, all qualifiers incl. the lowp float vec3 specialisation), gtx rgbColor / hsvColor, rgb2YCoCg / YCoCg2rgb,
// rgb2YCoCgR / YCoCgR2rgb (float and every integer element type), saturation, luminosity.
//
// Oracles (no glm code): the property statement itself (monotone, fixes 0 and 1, [0,1] -> [0,1], alpha bit-identical,
// mutual inversion, integer losslessness, grey preservation, documented weights) evaluated with long-double models of the
// documented transfer curves (IEC 61966-2-1 constants as quoted in glm/gtc/color_space.inl / .hpp) that are used ONLY to
// derive the allowances: rounding bounds k*u*S, the "accuracy of the transfer-curve constants" allowance and the class of a
// failing input.  All tolerances are derived in the comments next to them; none is fitted.
#include "vf.hpp"
#include "ref.hpp"
#include <glm/glm.hpp>
#include <glm/gtc/color_space.hpp>
#include <glm/gtx/color_space.hpp>
#include <glm/gtx/color_space_YCoCg.hpp>
#include <glm/gtc/type_precision.hpp>
using namespace ref;
typedef long double LD;

template<class T> static inline LD U(){ return uround<T>(); }          // unit roundoff of T
template<class T> static inline LD tiny(){ return std::ldexp(1.0L,1-(int)fp<T>::BIAS-(int)fp<T>::MANT); } // smallest subnormal
template<class T> static inline bool in01(T x){ return x>=T(0) && x<=T(1); }
static inline LD absl_(LD x){ return x<0?-x:x; }
static inline LD maxl_(LD a,LD b){ return a>b?a:b; }
static inline LD minl_(LD a,LD b){ return a<b?a:b; }

// ================================================================================================ sRGB model
// documented curves (glm/gtc/color_space.inl; IEC 61966-2-1):
//   forward  F(x) = 12.92 x                         for x <  0.0031308,  1.055 x^e - 0.055   otherwise   (e = 0.41666 | 1/gamma)
//   inverse  I(y) = y / 12.92                       for y <= 0.04045,    ((y+0.055)/1.055)^g otherwise   (g = 2.4     | gamma)
static const LD TL=0.0031308L, TS=0.04045L;
static inline LD F_lin(LD x){ return 12.92L*x; }
static inline LD F_pow(LD x,LD e){ return 1.055L*powl(x,e)-0.055L; }
static inline LD I_lin(LD y){ return y/12.92L; }
static inline LD I_pow(LD y,LD g){ return powl((y+0.055L)/1.055L,g); }
// discontinuity of the *standard* curve (gamma 2.4) at its thresholds: the published constants are only consistent to
// about 3e-8, which is "the accuracy of the transfer-curve constants" for straddling comparisons.
static inline LD J_F_iec(){ static const LD j=absl_(F_pow(TL,1.0L/2.4L)-F_lin(TL)); return j; }
static inline LD J_I_iec(){ static const LD j=absl_(I_pow(TS,2.4L)-I_lin(TS)); return j; }
// allowance for the default pair (exponents 0.41666 and 2.4): I(F(x)) = x^(0.999984) -> |x^(1-eps)-x| <= eps/e, plus the
// upward jump of the default forward curve at 0.0031308 (the power branch with 0.41666 lies above the linear one there)
static inline LD EXP_EPS(){ return 1.0L-2.4L*0.41666L; }
static inline LD A_CAP(){ static const LD a=EXP_EPS()/expl(1.0L) + absl_(F_pow(TL,0.41666L)-F_lin(TL)) + J_F_iec() + J_I_iec(); return a; }

struct Curve { LD e, g; bool dflt; };               // exponents used by forward / inverse
template<class T> static inline Curve curve_default(){ return Curve{0.41666L,2.4L,true}; }
template<class T> static inline Curve curve_gamma(T gamma){ return Curve{1.0L/(LD)gamma,(LD)gamma,false}; }

template<class T> static inline bool fwd_is_pow(T x){ return !(x < static_cast<T>(0.0031308)); }
template<class T> static inline bool inv_is_pow(T y){ return !(y <= static_cast<T>(0.04045)); }
template<class T> static inline LD Fm(T x,const Curve& cv){ return fwd_is_pow(x)? F_pow((LD)x,cv.e):F_lin((LD)x); }
template<class T> static inline LD Im(T y,const Curve& cv){ return inv_is_pow(y)? I_pow((LD)y,cv.g):I_lin((LD)y); }

// ---- input records
template<class T> struct C4 { T c[4]; };
template<class T> struct C4G { T c[4]; T gamma; };
template<class T> struct C3 { T c[3]; };
template<class T> struct C2 { T s, g; };

static const char* QN(glm::qualifier Q){ return Q==glm::highp?"highp":(Q==glm::mediump?"mediump":"lowp"); }
template<int L,glm::qualifier Q> static std::string tag(const char* comp,int i){ return std::string("vec")+std::to_string(L)+"<"+QN(Q)+">."+comp[i]; }
template<class T> static std::string gv(const std::string& where,T v){ return where+"="+vf::show(v); }

// ---- evaluation of one overload: kind 0 = convertLinearToSRGB, 1 = convertSRGBToLinear; dflt: without gamma argument
template<int kind,bool dflt,int L,class T,glm::qualifier Q> static inline glm::vec<L,T,Q> call_srgb(const glm::vec<L,T,Q>& v,T gamma){
	if constexpr(kind==0){ if constexpr(dflt) return glm::convertLinearToSRGB(v); else return glm::convertLinearToSRGB(v,gamma); }
	else { if constexpr(dflt) return glm::convertSRGBToLinear(v); else return glm::convertSRGBToLinear(v,gamma); }
}
template<int L,class T,glm::qualifier Q> static inline glm::vec<L,T,Q> mk(const T* c){ glm::vec<L,T,Q> v; for(int i=0;i<L;i++) v[i]=c[i]; return v; }

// mediump / lowp instantiations share the highp template code (no qualifier-specific code except the lowp float vec3 forward
// approximation, which has its own op): they are evaluated for one input in eight, selected by a hash of the input itself so
// that a replay of a recorded input performs exactly the same evaluations.
template<class T> static inline bool all_qualifiers(const T* c){ vf::u64 h=(vf::u64)bits(c[0])*0x9e3779b97f4a7c15ULL ^ (vf::u64)bits(c[1])*0xc2b2ae3d27d4eb4fULL ^ (vf::u64)bits(c[2])*0x165667b19e3779f9ULL; h^=h>>29; h*=0xbf58476d1ce4e5b9ULL; return ((h>>40)&7)==0; }

// ---- single-function checks: alpha, fix 0/1, range, monotone (components of one colour are compared with each other)
template<int kind,bool dflt,int L,class T,glm::qualifier Q> static void chk_curve(const T* c,T gamma,vf::Ctx& ctx,bool first){
	const Curve cv= dflt? curve_default<T>():curve_gamma<T>(gamma);
	auto model=[&](int i)->LD{ return kind==0? Fm(c[i],cv):Im(c[i],cv); };   // documented formula; only evaluated to name the class of a failure
	glm::vec<L,T,Q> out=call_srgb<kind,dflt,L,T,Q>(mk<L,T,Q>(c),gamma);
	const LD u=U<T>();
	if constexpr(L==4){ if(!same(out[3],c[3])) ctx.fail("alpha:changed",gv(tag<L,Q>("rgba",3),out[3]),vf::show(c[3])); }
	bool pw[3];
	for(int i=0;i<3;i++){
		T x=c[i], y=out[i]; pw[i]= kind==0? fwd_is_pow(x):inv_is_pow(x);
		const char* br= pw[i]?"power-branch":"linear-branch";
		if(isnan_b(y)){ ctx.fail(std::string(br)+":output-is-NaN",gv(tag<L,Q>("rgba",i),y),"a number in [0,1]"); continue; }
		if(x==T(0)){ if(first) ctx.cls("x=0"); if(!(y==T(0))) ctx.fail("x=0:not-fixed",gv(tag<L,Q>("rgba",i),y),"0"); }
		if(x==T(1)){ if(first) ctx.cls("x=1");
			// f(1): forward 1.055*1-0.055 (const repr, product, difference: <=4 roundings at magnitude 1.055) -> 8u*1.055;
			// inverse ((1+0.055)*k)^g: base carries <=4u (sum, two constants, product), pow multiplies by g and adds 1u -> 2(4g+2)u
			LD bound= kind==0? 8*u*1.055L : 2*(4*cv.g+2)*u; LD err=absl_((LD)y-1.0L); ctx.ratio("f(1):err/bnd",(double)(err/bound));
			if(err>bound) ctx.fail("x=1:not-fixed",gv(tag<L,Q>("rgba",i),y),"1"); }
		if(y<T(0)){ // "inherent": the documented formula itself is negative (or within its rounding error of zero) at this input
			LD lnx= x>T(0)? absl_(logl((LD)x)):0; LD m=model(i); bool inherent= m < (8*u+4*u*(kind==0?cv.e:cv.g)*lnx)*(absl_(m)+0.055L); ctx.fail(std::string(br)+(inherent?":documented-formula-negative-for-this-gamma":"")+":output<0",gv(tag<L,Q>("rgba",i),y),">= 0"); }
		if(y>T(1)) ctx.fail(std::string(br)+":output>1",gv(tag<L,Q>("rgba",i),y),"<= 1");
	}
	bool anystraddle=false;
	for(int i=0;i<3;i++) for(int j=0;j<3;j++){
		if(!(c[i]<c[j])) continue;
		T yi=out[i], yj=out[j];
		if(isnan_b(yi)||isnan_b(yj)) continue;
		// rounded multiplication/addition by constants is monotone; only pow (<1ulp error) can invert neighbours by one ulp of
		// its result, i.e. <= 2u*(y+0.055) forward, 2u*x' inverse; allow 4x that.  Linear branch: exactly monotone.
		bool straddle= pw[i]!=pw[j]; if(straddle) anystraddle=true;
		if(!(yi>yj)) continue;
		LD slack=0;
		if(pw[i]||pw[j]) slack= kind==0? 8*u*(maxl_(absl_((LD)yi),absl_((LD)yj))+0.055L) : 8*u*maxl_(absl_((LD)yi),absl_((LD)yj));
		if(straddle) slack+= kind==0? J_F_iec():J_I_iec();
		if((LD)yi-(LD)yj>slack){
			bool inherent= straddle && model(i)-model(j) > 0;   // the documented formula itself steps down at the threshold (custom gamma != 2.4)
			std::string cl= straddle? "pair-straddles-threshold":(pw[i]?"pair-in-power-branch":"pair-in-linear-branch");
			if(inherent) cl+=":documented-formula-jumps-down-for-this-gamma";
			ctx.fail(cl+":decreasing",gv(tag<L,Q>("rgba",i),yi)+" > "+gv(tag<L,Q>("rgba",j),yj),"f(x1) <= f(x2) for x1 < x2");
		}
	}
	if(first) ctx.cls(anystraddle? "straddles-threshold": (pw[0]? "power-branch":"linear-branch"));
}
template<int kind,bool dflt,class T> static void chk_curve_all(const T* c,T gamma,vf::Ctx& ctx){
	chk_curve<kind,dflt,3,T,glm::highp>(c,gamma,ctx,true); chk_curve<kind,dflt,4,T,glm::highp>(c,gamma,ctx,false);
	if(!all_qualifiers(c)) return;
	chk_curve<kind,dflt,3,T,glm::mediump>(c,gamma,ctx,false); chk_curve<kind,dflt,4,T,glm::mediump>(c,gamma,ctx,false);
	chk_curve<kind,dflt,4,T,glm::lowp>(c,gamma,ctx,false);
	// vec<3,float,lowp> convertLinearToSRGB(v) is a separate approximation: its own op below
	if constexpr(!(kind==0 && dflt && std::is_same<T,float>::value)) chk_curve<kind,dflt,3,T,glm::lowp>(c,gamma,ctx,false);
}

// ---- round trips.  dir 0: inverse(forward(x)) ; dir 1: forward(inverse(y))
// Allowance = min(|model chain - x|, A_CAP) + propagated rounding, where the model chain follows the documented branch rules
// (both branches are accepted when the intermediate is within its rounding error of the second threshold).
static const char* const RT_KIND[8]={"linear->linear","linear->power","power->linear","power->power",
	"linear->linear:documented-formulas-not-inverse-for-this-gamma","linear->power:documented-formulas-not-inverse-for-this-gamma",
	"power->linear:documented-formulas-not-inverse-for-this-gamma","power->power:documented-formulas-not-inverse-for-this-gamma"};
struct RtCand { LD m2,A,R; int kind; };
struct RtPrep { RtCand c[4]; int n; };
template<int dir,class T> static void rt_prepare(T x,const Curve& cv,RtPrep& P){
	const LD u=U<T>(); LD X=(LD)x; LD lnx= X>0? absl_(logl(X)):0; P.n=0;
	for(int first=0; first<2; first++){            // first stage branch: the documented choice; the other one only at the threshold itself
		bool pw1= dir==0? fwd_is_pow(x):inv_is_pow(x);
		T thr= dir==0? static_cast<T>(0.0031308):static_cast<T>(0.04045);
		if(first==1){ if(ord(x)-ord(thr)>1 || ord(thr)-ord(x)>1) break; pw1=!pw1; }
		LD m1, e1;                                   // model intermediate and its absolute rounding bound
		if(dir==0){ m1= pw1? F_pow(X,cv.e):F_lin(X);
			// forward: pow 1u (+ exponent representation: e*(1+d), |d|<=2u -> relative e*2u*|ln x| on p), two constants, product, difference
			e1= pw1? (8*u+4*u*cv.e*lnx)*(absl_(m1)+0.055L) : 4*u*absl_(m1); }
		else { m1= pw1? I_pow(X,cv.g):I_lin(X);
			// inverse: base relative error 4u (sum, two constants, product), pow: *g + 1u, exponent representation 2u*g*|ln base|
			LD lnb= absl_(logl((X+0.055L)/1.055L)); e1= pw1? (2*(4*cv.g+2)*u+4*u*cv.g*lnb)*absl_(m1) : 4*u*absl_(m1); }
		e1+=2*tiny<T>();
		for(int second=0; second<2; second++){
			LD thr2= dir==0? TS:TL; bool pw2= dir==0? !(m1<=thr2):!(m1<thr2);
			if(second==1){ if(absl_(m1-thr2)>e1+u*thr2) break; pw2=!pw2; }
			LD m2, slope, e2;
			if(dir==0){ m2= pw2? I_pow(m1,cv.g):I_lin(m1); slope= pw2? cv.g*absl_(m2)/(absl_(m1)+0.055L) : 1/12.92L;
				LD lnb= absl_(logl(maxl_((m1+0.055L)/1.055L,1e-4000L))); e2= pw2? (2*(4*cv.g+2)*u+4*u*cv.g*lnb)*absl_(m2) : 4*u*absl_(m2); }
			else { m2= pw2? F_pow(maxl_(m1,0.0L),cv.e):F_lin(m1); slope= pw2? 1.055L*cv.e*powl(maxl_(m1,tiny<T>()),cv.e-1) : 12.92L;
				LD lnm= m1>0? absl_(logl(m1)):0; e2= pw2? (8*u+4*u*cv.e*lnm)*(absl_(m2)+0.055L) : 4*u*absl_(m2); }
			RtCand& k=P.c[P.n++]; k.m2=m2; k.R=slope*e1+e2+4*tiny<T>(); k.A=minl_(absl_(m2-X),A_CAP());
			k.kind=(pw1?2:0)+(pw2?1:0)+(absl_(m2-X)>A_CAP()?4:0);
		}
	}
}
// returns the index of the accepting model path, or -(1+index of the path closest to the observation) on failure
template<class T> static int rt_judge(T x,T got,const RtPrep& P,LD& excess_ratio){
	LD err=absl_((LD)got-(LD)x); int best=0; LD bd=-1; excess_ratio=0;
	for(int i=0;i<P.n;i++){ const RtCand& k=P.c[i]; if(err<=k.A+k.R){ excess_ratio= err>k.A? (err-k.A)/k.R:0; return i; } LD d=absl_((LD)got-k.m2); if(bd<0||d<bd){ bd=d; best=i; } }
	return -(1+best);
}
template<int dir,bool dflt,int L,class T,glm::qualifier Q> static void chk_rt(const T* c,T gamma,const RtPrep* P,vf::Ctx& ctx,bool first){
	glm::vec<L,T,Q> v=mk<L,T,Q>(c);
	glm::vec<L,T,Q> mid= dir==0? call_srgb<0,dflt,L,T,Q>(v,gamma):call_srgb<1,dflt,L,T,Q>(v,gamma);
	glm::vec<L,T,Q> back= dir==0? call_srgb<1,dflt,L,T,Q>(mid,gamma):call_srgb<0,dflt,L,T,Q>(mid,gamma);
	if constexpr(L==4){ if(!same(back[3],c[3])) ctx.fail("alpha:changed",gv(tag<L,Q>("rgba",3),back[3]),vf::show(c[3])); }
	for(int i=0;i<3;i++){
		LD exr; int r=rt_judge<T>(c[i],back[i],P[i],exr); const RtCand& k=P[i].c[r>=0? r:-(r+1)];
		if(first) ctx.cls(RT_KIND[k.kind]);
		if(isnan_b(back[i])){ ctx.fail(std::string(RT_KIND[k.kind])+":roundtrip-is-NaN",gv(tag<L,Q>("rgba",i),back[i]),vf::show(c[i])); continue; }
		if(r>=0) ctx.ratio("rt:excess/bound",(double)exr);
		else ctx.fail(std::string(RT_KIND[k.kind])+":roundtrip-wrong",gv(tag<L,Q>("rgba",i),back[i]),vf::show(c[i])+" +- "+vf::show(k.A+k.R));
	}
}
template<int dir,bool dflt,class T> static void chk_rt_all(const T* c,T gamma,vf::Ctx& ctx){
	const Curve cv= dflt? curve_default<T>():curve_gamma<T>(gamma); RtPrep P[3]; for(int i=0;i<3;i++) rt_prepare<dir,T>(c[i],cv,P[i]);
	chk_rt<dir,dflt,3,T,glm::highp>(c,gamma,P,ctx,true); chk_rt<dir,dflt,4,T,glm::highp>(c,gamma,P,ctx,false);
	if(!all_qualifiers(c)) return;
	chk_rt<dir,dflt,3,T,glm::mediump>(c,gamma,P,ctx,false); chk_rt<dir,dflt,4,T,glm::mediump>(c,gamma,P,ctx,false);
	chk_rt<dir,dflt,4,T,glm::lowp>(c,gamma,P,ctx,false);
	if constexpr(!(dflt && std::is_same<T,float>::value)) chk_rt<dir,dflt,3,T,glm::lowp>(c,gamma,P,ctx,false);
}

#define SRGB_OPS(T,TN,F) \
	VF_OP(linearToSRGB_##TN, C4<T>, F F F F){ chk_curve_all<0,true,T>(in.c,T(0),c); } \
	VF_OP(srgbToLinear_##TN, C4<T>, F F F F){ chk_curve_all<1,true,T>(in.c,T(0),c); } \
	VF_OP(linearToSRGB_gamma_##TN, C4G<T>, F F F F F){ chk_curve_all<0,false,T>(in.c,in.gamma,c); } \
	VF_OP(srgbToLinear_gamma_##TN, C4G<T>, F F F F F){ chk_curve_all<1,false,T>(in.c,in.gamma,c); } \
	VF_OP(roundtrip_linear_srgb_linear_##TN, C4<T>, F F F F){ chk_rt_all<0,true,T>(in.c,T(0),c); } \
	VF_OP(roundtrip_srgb_linear_srgb_##TN, C4<T>, F F F F){ chk_rt_all<1,true,T>(in.c,T(0),c); } \
	VF_OP(roundtrip_linear_srgb_linear_gamma_##TN, C4G<T>, F F F F F){ chk_rt_all<0,false,T>(in.c,in.gamma,c); } \
	VF_OP(roundtrip_srgb_linear_srgb_gamma_##TN, C4G<T>, F F F F F){ chk_rt_all<1,false,T>(in.c,in.gamma,c); }
SRGB_OPS(float,f32,"f") SRGB_OPS(double,f64,"d")

// ---- the lowp float vec3 specialisation (Ian Taylor's sqrt approximation): same statement-level checks.
VF_OP(linearToSRGB_lowp_vec3_f32, C3<float>, "fff"){
	typedef glm::vec<3,float,glm::lowp> V; V out=glm::convertLinearToSRGB(V(in.c[0],in.c[1],in.c[2])); const LD u=U<float>();
	// sum of four rounded products of magnitude <= 0.69: coefficients, sqrt chain (3 roundings), products, 3 additions -> 8u*sum|terms|
	auto mag=[&](float x)->LD{ LD s1=sqrtl((LD)x),s2=sqrtl(s1),s3=sqrtl(s2); return 0.662002687L*s1+0.684122060L*s2+0.323583601L*s3+0.0225411470L*x; };
	for(int i=0;i<3;i++){ float x=in.c[i], y=out[i];
		const char* zone= x<0.001f? "x<0.001":"x>=0.001";
		if(isnan_b(y)){ c.fail(std::string(zone)+":output-is-NaN",y,"a number in [0,1]"); continue; }
		if((fbits(x)&31u)==0){ LD truth= fwd_is_pow(x)? F_pow((LD)x,1.0L/2.4L):F_lin((LD)x); c.ratio("abs-dev-IEC",(double)absl_((LD)y-truth)); }   // record only (1/32 of the inputs)
		if(x==0.0f){ c.cls("x=0"); if(!(y==0.0f)) c.fail("x=0:not-fixed",y,0.0f); }
		if(x==1.0f){ c.cls("x=1"); LD b=8*u*mag(1.0f); c.ratio("f(1):err/bnd",(double)(absl_((LD)y-1)/b)); if(absl_((LD)y-1)>b) c.fail("x=1:not-fixed",y,1.0f); }
		if(y<0.0f){ // very frequent on the unchanged tree (every x below ~7.7e-4): format the witness only for the first few per worker
			static const std::string K_small="x<0.001:output<0", K_big="x>=0.001:output<0", none; static thread_local unsigned seen=0;
			if(seen<4){ seen++; c.fail(x<0.001f?K_small:K_big,gv(std::string("vec3<lowp>.")+"rgb"[i],y),">= 0"); } else c.fail(x<0.001f?K_small:K_big,none,none); }
		if(y>1.0f) c.fail(std::string(zone)+":output>1",gv(std::string("vec3<lowp>.")+"rgb"[i],y),"<= 1"); }
	for(int i=0;i<3;i++) for(int j=0;j<3;j++){ if(!(in.c[i]<in.c[j])) continue; float yi=out[i],yj=out[j]; if(isnan_b(yi)||isnan_b(yj)) continue;
		if(!(yi>yj)) continue;
		LD slack=8*u*(mag(in.c[i])+mag(in.c[j]));
		if((LD)yi-(LD)yj>slack) c.fail(std::string(in.c[j]<0.001f?"x<0.001":"x>=0.001")+":decreasing",gv(std::string("f(")+vf::show(in.c[i])+")",yi)+" > "+gv(std::string("f(")+vf::show(in.c[j])+")",yj),"f(x1) <= f(x2) for x1 < x2"); }
}

// ================================================================================================ HSV
struct HSVref { LD h,hraw,s,v,delta,mx; bool grey; int sector; };   // hraw: before the wrap of negative hues (can be -tiny)
static HSVref ref_hsv(LD r,LD g,LD b){
	HSVref o; LD mx=maxl_(maxl_(r,g),b), mn=minl_(minl_(r,g),b); o.mx=mx; o.delta=mx-mn; o.v=mx; o.grey= o.delta==0; o.s= mx>0? o.delta/mx:0; o.h=0; o.hraw=0; o.sector=0;
	if(!o.grey){ if(r==mx) o.h=60*((g-b)/o.delta); else if(g==mx) o.h=120+60*((b-r)/o.delta); else o.h=240+60*((r-g)/o.delta); o.hraw=o.h; if(o.h<0) o.h+=360; o.sector=(int)floorl(o.h/60); if(o.sector>5) o.sector=5; }
	return o;
}
static inline LD hue_dist(LD a,LD b){ LD d=fmodl(a-b,360.0L); if(d<-180) d+=360; if(d>180) d-=360; return absl_(d); }

template<class T> static void chk_hsvColor(const C3<T>& in,vf::Ctx& c){
	const LD u=U<T>(); const LD eps=std::numeric_limits<T>::epsilon();
	glm::vec<3,T,glm::highp> hsv=glm::hsvColor(glm::vec<3,T,glm::highp>(in.c[0],in.c[1],in.c[2]));
	HSVref rf=ref_hsv(in.c[0],in.c[1],in.c[2]);
	T h=hsv.x,s=hsv.y,v=hsv.z;
	if(!(s>=T(0)&&s<=T(1))) c.fail("saturation:outside[0,1]",s,"in [0,1]");
	if(!(v>=T(0)&&v<=T(1))) c.fail("value:outside[0,1]",v,"in [0,1]");
	if(rf.grey){ c.cls("grey(hue-unconstrained)"); return; }
	if(rf.mx<=2*eps){ c.cls("max<=2eps(treated-as-black)"); return; }
	// all channels within the absolute epsilon glm uses to find the maximum channel: any branch may be taken, the hue of
	// such a colour is decided by differences below that epsilon (accepted: the round trip stays within epsilon, checked there)
	if(rf.delta<=2*eps){ c.cls("delta<=2eps(hue-decided-below-abs-epsilon)"); if(!isnan_b(h)&&!(h>=T(0)&&h<=T(360))) c.fail("delta<=2eps:hue-outside[0,360]",h,"in [0,360)"); return; }
	std::string sec="sector"+std::to_string(rf.sector);
	c.cls(sec.c_str());
	// hue = base + 60*(a-b)/delta with exact inputs: difference, quotient, product, sum: 4 roundings at magnitude <= 360 -> 8u*360.
	// glm decides "which channel is the maximum" with an absolute epsilon; a channel within epsilon of the maximum may take
	// the neighbouring formula, which moves the hue by <= 60*eps/delta (accepted: rule 3, both branches); factor 2 safety.
	LD tol=8*u*360+120*eps/rf.delta;
	if(isnan_b(h)){ c.fail(sec+":hue-is-NaN",h,vf::show((T)rf.h)); return; }
	if(h<T(0)) c.fail(sec+":hue<0",h,"in [0,360)");
	else if(h>T(360)) c.fail(sec+":hue>360",h,"in [0,360)");
	else if(h==T(360)){
		// DESIGN 11: h+360 with h=-tiny rounds to 360.0; accepted only when the true hue is within the rounding tolerance below 360
		if(rf.hraw<0 && rf.hraw>=-tol) c.cls("hue==360-by-rounding(accepted)"); else c.fail(sec+":hue==360",h,vf::show((T)rf.h)+" (in [0,360))"); }
	LD d=hue_dist((LD)h,rf.h); c.ratio("hue:err/bound",(double)(d/tol));
	if(d>tol) c.fail(sec+":hue-differs-from-reference",h,vf::show((T)rf.h));
}
// rgbColor(hsvColor(c)) ~ c.  hsv->rgb evaluates v*(1-s*frac) with frac = h/60-floor(h/60): h (<=360) carries 4 roundings
// (8u*360 with safety, i.e. 48u in sector units incl. the product by 1/60), so each channel is off by <= v*s*48u, plus 4
// roundings of the channel formula itself (8u*v), plus the absolute epsilon glm uses to detect grey/black/maximum (eps=2u,
// bounds the error of every such shortcut, see chk_hsvColor).
template<class T> static void chk_rgb_hsv_rgb(const C3<T>& in,vf::Ctx& c){
	const LD u=U<T>(); const LD eps=std::numeric_limits<T>::epsilon();
	typedef glm::vec<3,T,glm::highp> V; V hsv=glm::hsvColor(V(in.c[0],in.c[1],in.c[2])); V rgb=glm::rgbColor(hsv);
	HSVref rf=ref_hsv(in.c[0],in.c[1],in.c[2]);
	std::string sec= rf.grey? "grey":"sector"+std::to_string(rf.sector); c.cls(sec.c_str());
	LD rel=rf.v*(8+48*rf.s)*u, bound=rel+eps;
	// "regular": no two channels closer than 4 eps without being equal, and not darker than 4 eps: none of glm's absolute-epsilon tests can misfire
	bool regular= rf.mx>4*eps; for(int i=0;i<3;i++){ LD d=absl_((LD)in.c[i]-(LD)in.c[(i+1)%3]); if(d!=0&&d<=4*eps) regular=false; }
	for(int i=0;i<3;i++){
		if(isnan_b(rgb[i])){ c.fail(sec+":roundtrip-is-NaN",gv(std::string("rgb.")+"rgb"[i],rgb[i]),vf::show(in.c[i])); continue; }
		LD err=absl_((LD)rgb[i]-(LD)in.c[i]); c.ratio("rt:err/bound",(double)(err/bound));
		if(regular) c.ratio("rt:err/rel-bound(regular)",(double)(err/rel));      // away from glm's absolute-epsilon shortcuts: rounding part alone
		else if(rel>0) c.ratio("rt:err/rel-bound(within-abs-eps;record-only)",(double)(err/rel));
		if(!(rgb[i]>=T(0)&&rgb[i]<=T(1))) c.fail(sec+":rgb-outside[0,1]",gv(std::string("rgb.")+"rgb"[i],rgb[i]),"in [0,1]");
		if(err>bound) c.fail(sec+":roundtrip-wrong",gv(std::string("rgb.")+"rgb"[i],rgb[i]),vf::show(in.c[i]));
	}
}
// hsvColor(rgbColor(hsv)) ~ hsv for well-conditioned hsv (s,v >= 1/64, h in [0,360)).  rgb error E = v*(8+48s)u + eps (above);
// delta = v*s, so hue moves by <= 60*2E/delta (+ its own 8u*360), saturation by <= 2E/v + 4u, value by <= E + 2u.
template<class T> static void chk_hsv_rgb_hsv(const C3<T>& in,vf::Ctx& c){
	const LD u=U<T>(); const LD eps=std::numeric_limits<T>::epsilon();
	typedef glm::vec<3,T,glm::highp> V; V rgb=glm::rgbColor(V(in.c[0],in.c[1],in.c[2])); V hsv=glm::hsvColor(rgb);
	LD h=in.c[0],s=in.c[1],v=in.c[2]; int sector=(int)floorl(h/60); if(sector>5) sector=5; std::string sec="sector"+std::to_string(sector); c.cls(sec.c_str());
	for(int i=0;i<3;i++) if(!(rgb[i]>=T(0)&&rgb[i]<=T(1))){ c.fail(sec+":rgb-outside[0,1]",gv(std::string("rgb.")+"rgb"[i],rgb[i]),"in [0,1]"); return; }
	LD E=v*(8+48*s)*u+eps, th=8*u*360+120*E/(v*s), ts=2*E/v+4*u, tv=E+2*u;
	if(isnan_b(hsv.x)||isnan_b(hsv.y)||isnan_b(hsv.z)){ c.fail(sec+":roundtrip-is-NaN",vf::show(hsv.x)+","+vf::show(hsv.y)+","+vf::show(hsv.z),"hsv"); return; }
	LD dh=hue_dist((LD)hsv.x,h), ds=absl_((LD)hsv.y-s), dv=absl_((LD)hsv.z-v);
	c.ratio("hue:err/bound",(double)(dh/th)); c.ratio("saturation:err/bound",(double)(ds/ts)); c.ratio("value:err/bound",(double)(dv/tv));
	if(dh>th) c.fail(sec+":hue-not-recovered",hsv.x,in.c[0]);
	if(ds>ts) c.fail(sec+":saturation-not-recovered",hsv.y,in.c[1]);
	if(dv>tv) c.fail(sec+":value-not-recovered",hsv.z,in.c[2]);
}

// ================================================================================================ YCoCg (float)
// forward: three sums of three exact quotients (2 roundings each, terms <= S = max|channel|); inverse: 2 additions -> every
// channel <= (3*2+2)u*S; k=16 with safety.
template<class T> static void chk_ycocg(const C3<T>& in,vf::Ctx& c){
	typedef glm::vec<3,T,glm::highp> V; const LD u=U<T>(); V rgb(in.c[0],in.c[1],in.c[2]);
	V back=glm::YCoCg2rgb(glm::rgb2YCoCg(rgb)); LD S=maxl_(maxl_(absl_(in.c[0]),absl_(in.c[1])),absl_(in.c[2])); LD bound=16*u*S+8*tiny<T>();
	for(int i=0;i<3;i++){ LD err=absl_((LD)back[i]-(LD)in.c[i]); c.ratio("roundtrip:err/bound",(double)(err/bound));
		if(isnan_b(back[i])||err>bound) c.fail(std::string("rgb->YCoCg->rgb:channel-")+"rgb"[i]+":roundtrip-wrong",back[i],in.c[i]); }
}
// inverse direction, on YCoCg triples that are images of cube colours (input = the rgb colour; its YCoCg image is formed
// with the documented matrix in long double and rounded to T)
template<class T> static void chk_ycocg_inv(const C3<T>& in,vf::Ctx& c){
	typedef glm::vec<3,T,glm::highp> V; const LD u=U<T>(); LD r=in.c[0],g=in.c[1],b=in.c[2];
	V y((T)(r/4+g/2+b/4),(T)(r/2-b/2),(T)(-r/4+g/2-b/4));
	V back=glm::rgb2YCoCg(glm::YCoCg2rgb(y)); LD S=maxl_(maxl_(r,g),b); LD bound=16*u*S+8*tiny<T>();
	for(int i=0;i<3;i++){ LD err=absl_((LD)back[i]-(LD)y[i]); c.ratio("roundtrip:err/bound",(double)(err/bound));
		if(isnan_b(back[i])||err>bound) c.fail(std::string("YCoCg->rgb->YCoCg:component-")+"YOG"[i]+":roundtrip-wrong",back[i],y[i]); }
}
// float YCoCg-R: intermediates up to r+b <= 2S; forward 2-3 roundings per component, inverse 4 chained additions -> 16u*2S
template<class T> static void chk_ycocgr_f(const C3<T>& in,vf::Ctx& c){
	typedef glm::vec<3,T,glm::highp> V; const LD u=U<T>(); V rgb(in.c[0],in.c[1],in.c[2]);
	V back=glm::YCoCgR2rgb(glm::rgb2YCoCgR(rgb)); LD S=maxl_(maxl_(absl_(in.c[0]),absl_(in.c[1])),absl_(in.c[2])); LD bound=32*u*S+8*tiny<T>();
	for(int i=0;i<3;i++){ LD err=absl_((LD)back[i]-(LD)in.c[i]); c.ratio("roundtrip:err/bound",(double)(err/bound));
		if(isnan_b(back[i])||err>bound) c.fail(std::string("rgb->YCoCgR->rgb:channel-")+"rgb"[i]+":roundtrip-wrong",back[i],in.c[i]); }
}

// ================================================================================================ saturation / luminosity
// grey preservation: out = g*sum_c((1-s)w_c) + g*s; weights, (1-s), products, +s, matrix-vector products and sums: <= 8
// roundings on terms whose magnitudes sum to g*(|1-s|+|s|) -> 16u*g*(|1-s|+|s|)
template<class T> static void chk_sat_grey(const C2<T>& in,vf::Ctx& c){
	const LD u=U<T>(); T s=in.s,g=in.g; LD bound=16*u*(LD)g*(absl_(1-(LD)s)+absl_((LD)s))+2*tiny<T>();
	glm::vec<3,T,glm::highp> o3=glm::saturation(s,glm::vec<3,T,glm::highp>(g,g,g));
	glm::vec<4,T,glm::highp> o4=glm::saturation(s,glm::vec<4,T,glm::highp>(g,g,g,T(1)));
	glm::vec<4,T,glm::defaultp> om=glm::saturation(s)*glm::vec<4,T,glm::defaultp>(g,g,g,T(1));
	for(int i=0;i<3;i++){
		LD e3=absl_((LD)o3[i]-(LD)g), e4=absl_((LD)o4[i]-(LD)g), em=absl_((LD)om[i]-(LD)g); c.ratio("grey:err/bound",(double)(maxl_(maxl_(e3,e4),em)/bound));
		if(isnan_b(o3[i])||e3>bound) c.fail("vec3-overload:grey-level-changed",gv(std::string("out.")+"rgb"[i],o3[i]),g);
		if(isnan_b(o4[i])||e4>bound) c.fail("vec4-overload:grey-level-changed",gv(std::string("out.")+"rgb"[i],o4[i]),g);
		if(isnan_b(om[i])||em>bound) c.fail("matrix-times-colour:grey-level-changed",gv(std::string("out.")+"rgb"[i],om[i]),g);
	}
}
// matrix entries: (1-s)*w_c (+ s on the diagonal) with the Rec.709 luma weights 0.2126/0.7152/0.0722 (the standard the sRGB
// functions of this library cite); weight, 1-s, product, sum: 4 roundings -> 8u*(|1-s|w+|s|); last row/column identity.
template<class T> static void chk_sat_matrix(const C2<T>& in,vf::Ctx& c){
	const LD u=U<T>(); T s=in.s; glm::mat<4,4,T,glm::defaultp> M=glm::saturation(s); static const LD w[3]={0.2126L,0.7152L,0.0722L};
	for(int col=0;col<4;col++) for(int row=0;row<4;row++){ LD want, bound;
		if(col<3&&row<3){ want=(1-(LD)s)*w[col]+(row==col?(LD)s:0); bound=8*u*(absl_(1-(LD)s)*w[col]+absl_((LD)s)); } else { want= row==col?1:0; bound=0; }
		LD err=absl_((LD)M[col][row]-want); if(bound>0) c.ratio("entry:err/bound",(double)(err/bound));
		if(isnan_b(M[col][row])||err>bound) c.fail((col<3&&row<3)? (row==col? "diagonal-entry:differs-from-(1-s)*w+s":"off-diagonal-entry:differs-from-(1-s)*w(rec709-weights)") : "fourth-row-or-column:not-identity",
			gv("M["+std::to_string(col)+"]["+std::to_string(row)+"]",M[col][row]),vf::show((T)want)); }
}
// luminosity: documented weights (0.33, 0.59, 0.11) (glm/gtx/color_space.hpp): 3 weights, 3 products, 2 sums -> 8u*sum|w*c|
template<class T> static void chk_luminosity(const C3<T>& in,vf::Ctx& c){
	const LD u=U<T>(); LD r=in.c[0],g=in.c[1],b=in.c[2]; LD want=0.33L*r+0.59L*g+0.11L*b, bound=8*u*(0.33L*absl_(r)+0.59L*absl_(g)+0.11L*absl_(b))+2*tiny<T>();
	T got=glm::luminosity(glm::vec<3,T,glm::highp>(in.c[0],in.c[1],in.c[2])); LD err=absl_((LD)got-want); c.ratio("err/bound",(double)(err/bound));
	if(in.c[0]==in.c[1]&&in.c[1]==in.c[2]&&in.c[0]>0){ c.cls("grey"); c.ratio("grey:luminosity/grey-level(record-only;documented-weights-sum-to-1.03)",(double)((LD)got/r)); }
	if(isnan_b(got)||err>bound) c.fail("differs-from-documented-weights(0.33,0.59,0.11)",got,(T)want);
}

#define GTX_OPS(T,TN,F) \
	VF_OP(hsvColor_##TN, C3<T>, F F F){ chk_hsvColor<T>(in,c); } \
	VF_OP(roundtrip_rgb_hsv_rgb_##TN, C3<T>, F F F){ chk_rgb_hsv_rgb<T>(in,c); } \
	VF_OP(roundtrip_hsv_rgb_hsv_##TN, C3<T>, F F F){ chk_hsv_rgb_hsv<T>(in,c); } \
	VF_OP(roundtrip_rgb_YCoCg_rgb_##TN, C3<T>, F F F){ chk_ycocg<T>(in,c); } \
	VF_OP(roundtrip_YCoCg_rgb_YCoCg_##TN, C3<T>, F F F){ chk_ycocg_inv<T>(in,c); } \
	VF_OP(roundtrip_rgb_YCoCgR_rgb_##TN, C3<T>, F F F){ chk_ycocgr_f<T>(in,c); } \
	VF_OP(saturation_grey_##TN, C2<T>, F F){ chk_sat_grey<T>(in,c); } \
	VF_OP(saturation_matrix_##TN, C2<T>, F F){ chk_sat_matrix<T>(in,c); } \
	VF_OP(luminosity_##TN, C3<T>, F F F){ chk_luminosity<T>(in,c); }
GTX_OPS(float,f32,"f") GTX_OPS(double,f64,"d")

// ================================================================================================ integer YCoCg-R: EXACT
template<class T> static void chk_ycocgr_int(const C3<T>& in,vf::Ctx& c){
	typedef glm::vec<3,T,glm::highp> V; V rgb(in.c[0],in.c[1],in.c[2]); V y=glm::rgb2YCoCgR(rgb); V back=glm::YCoCgR2rgb(y);
	if(back.x!=in.c[0]||back.y!=in.c[1]||back.z!=in.c[2]){
		std::string cl; if(back.x!=in.c[0]) cl+="r"; if(back.y!=in.c[1]) cl+="g"; if(back.z!=in.c[2]) cl+="b";
		const char* zone= in.c[0]<in.c[2]? "r<b":(in.c[0]==in.c[2]? "r==b":"r>b");
		c.fail(std::string(zone)+":not-lossless:channels-"+cl, vf::show(back.x)+","+vf::show(back.y)+","+vf::show(back.z)+" via YCoCgR "+vf::show(y.x)+","+vf::show(y.y)+","+vf::show(y.z),
			vf::show(in.c[0])+","+vf::show(in.c[1])+","+vf::show(in.c[2])); }
}
#define INT_OP(T,TN,F) VF_OP(YCoCgR_lossless_##TN, C3<T>, F F F){ chk_ycocgr_int<T>(in,c); }
INT_OP(u8,u8,"b") INT_OP(i8,i8,"c") INT_OP(u16,u16,"h") INT_OP(i16,i16,"s") INT_OP(i32,i32,"i") INT_OP(u32,u32,"u") INT_OP(i64,i64,"l") INT_OP(u64,u64,"q")

// ================================================================================================ workloads
#define RUN(OP,IN) do{ if(vf::want(OP)) vf::run(c,OP,IN); }while(0)
template<class T> static inline T nextf(T x,int k){ return from_ord<T>(ord(x)+k); }
template<class T> static inline T clamp01(T x){ return x<T(0)?T(0):(x>T(1)?T(1):x); }
// alpha values: arbitrary bit patterns (the statement: alpha untouched) — any float incl. NaN, Inf, -0
template<class T> static inline T rnd_alpha(vf::Rng& r){ switch(r.below(4)){ case 0: return (T)r.unit(); case 1: return T(1); default: if constexpr(sizeof(T)==4) return r.fbits(); else return r.dbits(); } }
// a random colour component in [0,1]: uniform, log-uniform (dark), grid point, near 0/1/thresholds
template<class T> static T rnd_comp(vf::Rng& r){
	switch(r.below(8)){
	case 0: case 1: case 2: return (T)r.unit();
	case 3: return clamp01<T>((T)std::fabs(r.logmag(-30,0)));
	case 4: return (T)((double)r.below(4097)/4096.0);
	case 5: return clamp01<T>(nextf<T>(static_cast<T>(0.0031308),r.range(-64,64)));
	case 6: return clamp01<T>(nextf<T>(static_cast<T>(0.04045),r.range(-64,64)));
	default: { int k=r.range(0,3); return k==0? T(0): k==1? T(1): k==2? nextf<T>(T(1),-r.range(1,8)) : nextf<T>(T(0),r.range(1,8)); }
	}
}
template<class T> static T gamma_grid(int i){ return (T)(1.0+0.1*i); }            // 21 points 1.0 .. 3.0
template<class T> static T rnd_gamma(vf::Rng& r){ switch(r.below(4)){ case 0: return gamma_grid<T>(r.range(0,20)); case 1: return static_cast<T>(2.4); case 2: return static_cast<T>(2.2); default: return (T)r.uniform(1.0,3.0); } }

template<class T,class OPS> static void srgb_workload(const char* tn,OPS& o){
	std::string lab=std::string("srgb-")+tn;
	// (1) thresholds, 0 and 1 with straddling neighbours; every gamma grid point
	vf::parallel((lab+"-edges").c_str(),[&](int tid,int nt,vf::Ctx& c){
		if(tid!=0) return;
		std::vector<T> centres={T(0),T(1),static_cast<T>(0.0031308),static_cast<T>(0.04045),(T)(0.04045L/12.92L),(T)(0.0031308L*12.92L),T(0.5),
			std::numeric_limits<T>::min(),std::numeric_limits<T>::denorm_min(),T(0.25),T(0.75),(T)0.0031306684425L,(T)0.0392857L};
		for(T ctr: centres) for(int k=0;k<=4;k++) for(int gi=-1;gi<=20;gi++){
			C4G<T> in; in.c[0]=clamp01<T>(nextf<T>(ctr,-k)); in.c[1]=clamp01<T>(ctr); in.c[2]=clamp01<T>(nextf<T>(ctr,k)); in.c[3]=rnd_alpha<T>(c.rng); in.gamma= gi<0? static_cast<T>(2.4):gamma_grid<T>(gi);
			C4<T> d; memcpy(d.c,in.c,sizeof d.c);
			if(gi<0){ RUN(*o.l2s,d); RUN(*o.s2l,d); RUN(*o.rt0,d); RUN(*o.rt1,d); }
			RUN(*o.l2sg,in); RUN(*o.s2lg,in); RUN(*o.rt0g,in); RUN(*o.rt1g,in);
			// mixed triples: 0, centre, 1
			C4G<T> m=in; m.c[0]=T(0); m.c[2]=T(1); C4<T> md; memcpy(md.c,m.c,sizeof md.c);
			if(gi<0){ RUN(*o.l2s,md); RUN(*o.s2l,md); }
			RUN(*o.l2sg,m); RUN(*o.s2lg,m);
		}
	});
	// (2) dense grid: 4097 points per channel, each with its two float neighbours (adjacent-pair monotonicity), crossed with the gamma grid
	vf::sweep((lab+"-grid4097").c_str(),4097,64,[&](vf::Ctx& c,vf::u64 lo,vf::u64 hi){
		for(vf::u64 i=lo;i<hi;i++){ T x=(T)((double)i/4096.0);
			C4<T> d; d.c[0]=clamp01<T>(nextf<T>(x,-1)); d.c[1]=x; d.c[2]=clamp01<T>(nextf<T>(x,1)); d.c[3]=(T)((double)(i%7)/6.0);
			RUN(*o.l2s,d); RUN(*o.s2l,d); RUN(*o.rt0,d); RUN(*o.rt1,d);
			for(int gi=0;gi<=20;gi++){ C4G<T> in; memcpy(in.c,d.c,sizeof d.c); in.gamma=gamma_grid<T>(gi);
				RUN(*o.l2sg,in); RUN(*o.s2lg,in); RUN(*o.rt0g,in); RUN(*o.rt1g,in); }
		}
	});
	// (3) 33^3 cross of channel values (monotonicity between far-apart components, vec lanes independent)
	vf::sweep((lab+"-cross33").c_str(),33*33*33,512,[&](vf::Ctx& c,vf::u64 lo,vf::u64 hi){
		for(vf::u64 i=lo;i<hi;i++){ C4<T> d; d.c[0]=(T)((double)(i%33)/32.0); d.c[1]=(T)((double)((i/33)%33)/32.0); d.c[2]=(T)((double)(i/1089)/32.0); d.c[3]=(T)((double)(i%5)/4.0);
			RUN(*o.l2s,d); RUN(*o.s2l,d); RUN(*o.rt0,d); RUN(*o.rt1,d);
			C4G<T> in; memcpy(in.c,d.c,sizeof d.c); in.gamma=gamma_grid<T>((int)(i%21));
			RUN(*o.l2sg,in); RUN(*o.s2lg,in); RUN(*o.rt0g,in); RUN(*o.rt1g,in);
		}
	});
	// (4) random colours (uniform / dark / grid / near thresholds), random alpha bit patterns, random gamma in [1,3]
	vf::u64 n=vf::N(1000000,12000000);
	vf::parallel((lab+"-random").c_str(),[&](int tid,int nt,vf::Ctx& c){
		for(vf::u64 i=tid;i<n;i+=nt){ C4G<T> in; for(int k=0;k<3;k++) in.c[k]=rnd_comp<T>(c.rng);
			if(c.rng.below(3)==0){ int k=(int)c.rng.below(3); in.c[(k+1)%3]=clamp01<T>(nextf<T>(in.c[k],c.rng.range(1,3))); }   // adjacent pair
			in.c[3]=rnd_alpha<T>(c.rng); in.gamma=rnd_gamma<T>(c.rng); C4<T> d; memcpy(d.c,in.c,sizeof d.c);
			RUN(*o.l2s,d); RUN(*o.s2l,d); RUN(*o.rt0,d); RUN(*o.rt1,d);
			RUN(*o.l2sg,in); RUN(*o.s2lg,in); RUN(*o.rt0g,in); RUN(*o.rt1g,in);
		}
	});
}
struct SrgbOps { vf::Op *l2s,*s2l,*l2sg,*s2lg,*rt0,*rt1,*rt0g,*rt1g; };

// every float in [0,1] as overlapping triples (2t,2t+1,2t+2) of consecutive floats: all adjacent pairs (thorough: complete)
static void float_sweeps(){
	const vf::u64 top=0x3f800000u; const vf::u64 triples=top/2;   // ordinals 0..top
	vf::u64 want=vf::N(12000000,triples); if(want>triples) want=triples; vf::u64 stride=triples/want; if(stride<1) stride=1;
	vf::u64 off= stride>1? (vf::cfg().seed*0x9e3779b9ULL)%stride : 0; vf::u64 count=(triples-off+stride-1)/stride;
	vf::note("float_sweep","triples of consecutive floats (2t,2t+1,2t+2), t = "+std::to_string(off)+" + k*"+std::to_string(stride)+", k < "+std::to_string(count)+(stride==1?" (every float in [0,1])":""));
	vf::sweep("srgb-f32-all-floats",count,1u<<16,[&](vf::Ctx& c,vf::u64 lo,vf::u64 hi){
		if(stride>1) c.enum_mode=false;
		for(vf::u64 k=lo;k<hi;k++){ vf::u64 t=off+k*stride; C4<float> d; d.c[0]=from_ord<float>((i32)(2*t)); d.c[1]=from_ord<float>((i32)(2*t+1)); d.c[2]=from_ord<float>((i32)(2*t+2)); d.c[3]=d.c[1];
			RUN(linearToSRGB_f32,d); RUN(srgbToLinear_f32,d);
			C3<float> l; memcpy(l.c,d.c,sizeof l.c); RUN(linearToSRGB_lowp_vec3_f32,l);
			if((k&15)==0){ RUN(roundtrip_linear_srgb_linear_f32,d); RUN(roundtrip_srgb_linear_srgb_f32,d); }
		}
	});
	// lowp: edges
	vf::parallel("srgb-lowp-edges",[&](int tid,int,vf::Ctx& c){ if(tid!=0||!vf::want(linearToSRGB_lowp_vec3_f32)) return;
		for(float ctr: {0.0f,1.0f,0.5f,0.001f,0.00077f,1e-6f,1e-4f}) for(int k=0;k<=4;k++){ C3<float> l; l.c[0]=clamp01<float>(nextf<float>(ctr,-k)); l.c[1]=ctr; l.c[2]=clamp01<float>(nextf<float>(ctr,k)); vf::run(c,linearToSRGB_lowp_vec3_f32,l); l.c[0]=0; l.c[2]=1; vf::run(c,linearToSRGB_lowp_vec3_f32,l); }
		for(int i=0;i<=4096;i++){ C3<float> l; float x=(float)(i/4096.0); l.c[0]=clamp01<float>(nextf<float>(x,-1)); l.c[1]=x; l.c[2]=clamp01<float>(nextf<float>(x,1)); vf::run(c,linearToSRGB_lowp_vec3_f32,l); }
	});
}

// ---- reference hsv -> rgb (used only to *generate* rgb inputs at chosen hues; never to judge)
template<class T> static void gen_rgb_from_hsv(LD h,LD s,LD v,T* out){
	LD hp=h/60; int i=(int)floorl(hp); LD f=hp-i; i=((i%6)+6)%6; LD p=v*(1-s),q=v*(1-s*f),t=v*(1-s*(1-f)); LD r,g,b;
	switch(i){ case 0:r=v;g=t;b=p;break; case 1:r=q;g=v;b=p;break; case 2:r=p;g=v;b=t;break; case 3:r=p;g=q;b=v;break; case 4:r=t;g=p;b=v;break; default:r=v;g=p;b=q;break; }
	out[0]=clamp01<T>((T)r); out[1]=clamp01<T>((T)g); out[2]=clamp01<T>((T)b);
}
template<class T,class OPS> static void gtx_workload(const char* tn,OPS& o){
	std::string lab=std::string("gtx-")+tn;
	auto rgb_ops=[&](vf::Ctx& c,const C3<T>& in){
		RUN(*o.hsv,in); RUN(*o.rhr,in); RUN(*o.yc,in); RUN(*o.yci,in);
		RUN(*o.ycr,in); RUN(*o.lum,in); };
	// (1) 33^3 grid of the cube, each point also with +-1ulp perturbation of one channel
	vf::sweep((lab+"-cube33").c_str(),33*33*33,256,[&](vf::Ctx& c,vf::u64 lo,vf::u64 hi){
		for(vf::u64 i=lo;i<hi;i++){ C3<T> in; in.c[0]=(T)((double)(i%33)/32.0); in.c[1]=(T)((double)((i/33)%33)/32.0); in.c[2]=(T)((double)(i/1089)/32.0); rgb_ops(c,in);
			for(int k=0;k<3;k++) for(int d=-1;d<=1;d+=2){ C3<T> p=in; p.c[k]=clamp01<T>(nextf<T>(p.c[k],d)); rgb_ops(c,p); } }
	});
	// (2) 4097 grid on one channel, others from a coarse grid
	vf::sweep((lab+"-grid4097").c_str(),4097*3*25,4096,[&](vf::Ctx& c,vf::u64 lo,vf::u64 hi){
		for(vf::u64 i=lo;i<hi;i++){ int ch=(int)(i%3); vf::u64 j=i/3; int a=(int)(j%5), b=(int)((j/5)%5); vf::u64 g=j/25; C3<T> in; in.c[ch]=(T)((double)g/4096.0); in.c[(ch+1)%3]=(T)(a/4.0); in.c[(ch+2)%3]=(T)(b/4.0); rgb_ops(c,in); }
	});
	// (3) hue at every sector boundary +- 0..4 ulp (and mid-sector), crossed with s, v grids: rgb generated from the reference, and the hsv triple itself for the other direction
	vf::parallel((lab+"-hue-boundaries").c_str(),[&](int tid,int,vf::Ctx& c){ if(tid!=0) return;
		static const double sv[]={1.0,0.75,0.5,0.3,0.1,1.0/64,0.999,1.0/3};
		for(int sector=0;sector<=6;sector++) for(int k=-4;k<=4;k++) for(double s: sv) for(double v: sv) for(int mid=0;mid<3;mid++){
			T h= mid==0? nextf<T>((T)(60.0*sector),k) : mid==1? nextf<T>((T)(60.0*sector+30.0),k) : (T)(60.0*sector+c.rng.uniform(0,60));
			if(h<T(0)) h=T(0);
			if(h<T(360)){ C3<T> q; q.c[0]=h; q.c[1]=(T)s; q.c[2]=(T)v; RUN(*o.hrh,q); }
			C3<T> in; gen_rgb_from_hsv<T>((LD)h,(LD)s,(LD)v,in.c); rgb_ops(c,in);
		}
	});
	// (4) random: uniform cube, dark (scaled by 2^-k), near-grey (base + tiny perturbation), exact greys, two equal channels, primaries
	vf::u64 n=vf::N(2000000,30000000);
	vf::parallel((lab+"-random").c_str(),[&](int tid,int nt,vf::Ctx& c){
		for(vf::u64 i=tid;i<n;i+=nt){ C3<T> in; vf::Rng& r=c.rng;
			switch(r.below(10)){
			case 0: case 1: case 2: case 3: for(int k=0;k<3;k++) in.c[k]=(T)r.unit(); break;
			case 4: { T sc=(T)std::ldexp(1.0,-r.range(1,40)); for(int k=0;k<3;k++) in.c[k]=(T)r.unit()*sc; } break;
			case 5: { T base=(T)r.unit(); if(r.coin()){ for(int k=0;k<3;k++) in.c[k]=clamp01<T>(nextf<T>(base,r.range(-6,6))); }      // near-grey: ulp-level ...
				else { T w=(T)std::ldexp(1.0,-r.range(6,24)); for(int k=0;k<3;k++) in.c[k]=clamp01<T>(base+(T)r.uniform(-1,1)*w); } } break;   // ... and small saturations
			case 6: { T g=rnd_comp<T>(r); in.c[0]=in.c[1]=in.c[2]=g; } break;
			case 7: { T a=(T)r.unit(), b=(T)r.unit(); int k=(int)r.below(3); in.c[k]=a; in.c[(k+1)%3]=a; in.c[(k+2)%3]=b; } break;
			case 8: for(int k=0;k<3;k++) in.c[k]= r.coin()? T(1):(r.coin()? T(0):(T)r.unit()); break;
			default: gen_rgb_from_hsv<T>((LD)r.uniform(0,360),(LD)r.unit(),(LD)r.unit(),in.c); break; }
			rgb_ops(c,in);
			C3<T> q; q.c[0]= r.below(4)==0? nextf<T>((T)(60.0*r.range(0,5)),r.range(0,8)) : (T)r.uniform(0,360); if(!(q.c[0]<T(360))) q.c[0]=T(0);
			q.c[1]=(T)r.uniform(1.0/64,1.0); q.c[2]=(T)r.uniform(1.0/64,1.0); if(r.below(8)==0) q.c[1]=T(1); if(r.below(8)==0) q.c[2]=T(1);
			RUN(*o.hrh,q);
		}
	});
	// (5) saturation: s on a 0..2 grid x grey levels, random
	vf::sweep((lab+"-saturation").c_str(),201*257,1024,[&](vf::Ctx& c,vf::u64 lo,vf::u64 hi){
		for(vf::u64 i=lo;i<hi;i++){ C2<T> in; in.s=(T)((double)(i%201)/100.0); in.g=(T)((double)(i/201)/256.0); RUN(*o.sg,in); RUN(*o.sm,in); }
	});
	vf::u64 ns=vf::N(200000,5000000);
	vf::parallel((lab+"-saturation-random").c_str(),[&](int tid,int nt,vf::Ctx& c){
		for(vf::u64 i=tid;i<ns;i+=nt){ C2<T> in; in.s=(T)c.rng.uniform(0,2); if(c.rng.below(8)==0) in.s= c.rng.coin()? T(0):T(1); in.g=rnd_comp<T>(c.rng); RUN(*o.sg,in); RUN(*o.sm,in); }
	});
}
struct GtxOps { vf::Op *hsv,*rhr,*hrh,*yc,*yci,*ycr,*sg,*sm,*lum; };

// ---- integer YCoCg-R
template<class T> static void int_all24(const char* label,vf::Op& op){      // every triple of 8-bit values (as u8, i8, or 0..255 in a wider type)
	if(!vf::want(op)) return;
	vf::sweep(label,1u<<24,1u<<16,[&](vf::Ctx& c,vf::u64 lo,vf::u64 hi){ for(vf::u64 i=lo;i<hi;i++){ C3<T> in; in.c[0]=(T)(u8)(i&255); in.c[1]=(T)(u8)((i>>8)&255); in.c[2]=(T)(u8)(i>>16);
		vf::run(c,op,in); } });
}
template<class T> static std::vector<T> depth_lattice(int depth_bits,bool is_signed){     // 65 values spanning the colour depth
	std::vector<T> v; i64 lo= is_signed? -(i64(1)<<(depth_bits-1)):0, hi= is_signed? (i64(1)<<(depth_bits-1))-1:(i64(1)<<depth_bits)-1;
	auto add=[&](i64 x){ if(x>=lo&&x<=hi) v.push_back((T)x); };
	for(int k=0;k<depth_bits;k++){ i64 p=i64(1)<<k; add(p); add(p-1); add(p+1); add(-p); add(-p+1); add(-p-1); add(hi-p); add(lo+p); }
	add(0); add(lo); add(hi); add(lo+1); add(hi-1); add(hi/2); add(hi/3); add(lo/3);
	std::sort(v.begin(),v.end()); v.erase(std::unique(v.begin(),v.end()),v.end()); return v;
}
template<class T> static void int_lattice_random(const char* label,vf::Op& op,int depth_bits,bool is_signed,bool fullwidth_random){
	if(!vf::want(op)) return;
	std::vector<T> L=depth_lattice<T>(depth_bits,is_signed); vf::u64 m=L.size();
	vf::sweep((std::string(label)+"-lattice").c_str(),m*m*m,4096,[&](vf::Ctx& c,vf::u64 lo,vf::u64 hi){ for(vf::u64 i=lo;i<hi;i++){ C3<T> in; in.c[0]=L[i%m]; in.c[1]=L[(i/m)%m]; in.c[2]=L[i/(m*m)]; vf::run(c,op,in); } });
	vf::u64 n=vf::N(2000000,30000000); i64 lo= is_signed? -(i64(1)<<(depth_bits-1)):0; vf::u64 span= depth_bits>=64? 0:(vf::u64(1)<<depth_bits);
	vf::parallel((std::string(label)+"-random").c_str(),[&](int tid,int nt,vf::Ctx& c){ for(vf::u64 i=tid;i<n;i+=nt){ C3<T> in; for(int k=0;k<3;k++){ vf::u64 x=c.rng.next(); if(fullwidth_random) in.c[k]=(T)x; else in.c[k]=(T)(lo+(i64)(span? x%span:x)); }
		if(c.rng.below(4)==0){ in.c[2]=in.c[0]; }
		vf::run(c,op,in); } });
}

static void workload(){
	SrgbOps sf={&linearToSRGB_f32,&srgbToLinear_f32,&linearToSRGB_gamma_f32,&srgbToLinear_gamma_f32,&roundtrip_linear_srgb_linear_f32,&roundtrip_srgb_linear_srgb_f32,&roundtrip_linear_srgb_linear_gamma_f32,&roundtrip_srgb_linear_srgb_gamma_f32};
	SrgbOps sd={&linearToSRGB_f64,&srgbToLinear_f64,&linearToSRGB_gamma_f64,&srgbToLinear_gamma_f64,&roundtrip_linear_srgb_linear_f64,&roundtrip_srgb_linear_srgb_f64,&roundtrip_linear_srgb_linear_gamma_f64,&roundtrip_srgb_linear_srgb_gamma_f64};
	srgb_workload<float>("f32",sf); srgb_workload<double>("f64",sd); float_sweeps();
	GtxOps gf={&hsvColor_f32,&roundtrip_rgb_hsv_rgb_f32,&roundtrip_hsv_rgb_hsv_f32,&roundtrip_rgb_YCoCg_rgb_f32,&roundtrip_YCoCg_rgb_YCoCg_f32,&roundtrip_rgb_YCoCgR_rgb_f32,&saturation_grey_f32,&saturation_matrix_f32,&luminosity_f32};
	GtxOps gd={&hsvColor_f64,&roundtrip_rgb_hsv_rgb_f64,&roundtrip_hsv_rgb_hsv_f64,&roundtrip_rgb_YCoCg_rgb_f64,&roundtrip_YCoCg_rgb_YCoCg_f64,&roundtrip_rgb_YCoCgR_rgb_f64,&saturation_grey_f64,&saturation_matrix_f64,&luminosity_f64};
	gtx_workload<float>("f32",gf); gtx_workload<double>("f64",gd);
	// integer YCoCg-R.  Colour depth = the full width for 8/16-bit element types and for unsigned 32/64-bit ones (wrapping
	// arithmetic is defined); signed 32/64-bit element types hold 8- and 16-bit colour (r-b must not overflow: documented domain).
	int_all24<u8>("ycocgr-u8-all",YCoCgR_lossless_u8); int_all24<i8>("ycocgr-i8-all",YCoCgR_lossless_i8);
	int_all24<u16>("ycocgr-u16-8bit",YCoCgR_lossless_u16); int_all24<i16>("ycocgr-i16-8bit",YCoCgR_lossless_i16);
	int_all24<i32>("ycocgr-i32-8bit",YCoCgR_lossless_i32); int_all24<u32>("ycocgr-u32-8bit",YCoCgR_lossless_u32);
	int_all24<i64>("ycocgr-i64-8bit",YCoCgR_lossless_i64); int_all24<u64>("ycocgr-u64-8bit",YCoCgR_lossless_u64);
	int_lattice_random<u16>("ycocgr-u16",YCoCgR_lossless_u16,16,false,true); int_lattice_random<i16>("ycocgr-i16",YCoCgR_lossless_i16,16,true,true);
	int_lattice_random<i32>("ycocgr-i32-16bit",YCoCgR_lossless_i32,16,false,false); int_lattice_random<i32>("ycocgr-i32-s16",YCoCgR_lossless_i32,16,true,false);
	int_lattice_random<u32>("ycocgr-u32",YCoCgR_lossless_u32,32,false,true);
	int_lattice_random<i64>("ycocgr-i64-16bit",YCoCgR_lossless_i64,16,false,false); int_lattice_random<i64>("ycocgr-i64-s32",YCoCgR_lossless_i64,32,true,false);
	int_lattice_random<u64>("ycocgr-u64",YCoCgR_lossless_u64,62,false,true);
	vf::note("A_CAP(accuracy-of-curve-constants allowance)",vf::show((double)A_CAP())); vf::note("J_F_iec",vf::show((double)J_F_iec())); vf::note("J_I_iec",vf::show((double)J_I_iec()));
}
VF_MAIN("C19_color")
