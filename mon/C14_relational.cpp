// C14 (part 2) — ULP and epsilon comparisons: equal/notEqual(x,y,maxULPs), equal/notEqual(x,y,epsilon),
// epsilonEqual/epsilonNotEqual for scalar, vec1..4, all nine matrix shapes and quaternions, float and double.
//
// oracle (no glm code):
//   ULP form     : |ord(x)-ord(y)| <= maxULPs with ref::ord = monotone integer index of the IEEE order (ord(+0)=ord(-0)=0),
//                  evaluated in 64/128-bit integers.  Domain: finite x,y; maxULPs >= 0.
//   epsilon form : "|x-y| <= epsilon" (equal, epsilonEqual) / "|x-y| > epsilon" (notEqual, epsilonNotEqual) as the statement says.
//                  d=fl(x-y) is computed in the type; if |d| != epsilon the exact and the rounded reading agree (rounding is monotone
//                  and epsilon is representable).  If |d| == epsilon the exact difference is recovered with TwoSum: exact -> "<=" holds;
//                  inexact with |x-y|exact < epsilon -> "<=" holds under both readings; inexact with |x-y|exact > epsilon -> the two
//                  readings differ and either answer is accepted.  Domain: finite x,y; finite epsilon >= +0.
#include "vf.hpp"
#include "ref.hpp"
#include <glm/glm.hpp>
#include <glm/ext/scalar_relational.hpp>
#include <glm/ext/vector_relational.hpp>
#include <glm/ext/matrix_relational.hpp>
#include <glm/ext/quaternion_relational.hpp>
#include <glm/ext/quaternion_float.hpp>
#include <glm/ext/quaternion_double.hpp>
#include <glm/gtc/quaternion.hpp>
#include <glm/gtc/epsilon.hpp>
#include <limits>
using namespace ref;
typedef __int128 i128;

// ---------------------------------------------------------------- oracle helpers
template<class T> struct K;
template<> struct K<float>{ typedef i32 I; typedef i64 Wd; };
template<> struct K<double>{ typedef i64 I; typedef i128 Wd; };
template<class T> static inline typename K<T>::Wd word(T x){ return (typename K<T>::Wd)ord(x); }
template<class T> static inline typename K<T>::Wd OMAX(){ return word(std::numeric_limits<T>::max()); }
template<class T> static inline T unord(typename K<T>::Wd o){ typename K<T>::Wd M=OMAX<T>(); if(o>M) o=M; if(o<-M) o=-M; return from_ord<T>((typename fp<T>::I)o); }  // clamps to +-max
template<class T> static inline T negzero(){ typedef typename fp<T>::U U; return fp<T>::make(U(1)<<(sizeof(U)*8-1)); }
template<class T> static inline typename K<T>::Wd udist(T x,T y){ typename K<T>::Wd d=word(x)-word(y); return d<0? -d: d; }
template<class T> static inline bool within(T x,T y,i64 n){ return udist(x,y)<=(typename K<T>::Wd)n; }

static const char* const PC[]={"same-signbit","+0/-0","x=-y","zero-vs-opposite-signbit","opposite-signs"};
template<class T> static inline int pair_i(T x,T y){ if(signbit_b(x)==signbit_b(y)) return 0; typename K<T>::Wd a=word(x), b=word(y); if(a==0&&b==0) return 1; if(a==-b) return 2; if(a==0||b==0) return 3; return 4; }
// class of one ULP comparison: sign relation of the pair, within/beyond maxULPs (same-sign pairs: beyond split at 2^31 to expose width truncation), observed answer of equal()
template<class T> static std::string ulp_class(T x,T y,i64 n,bool got_equal){ typename K<T>::Wd d=udist(x,y); bool w=d<=(typename K<T>::Wd)n;
	int pc=pair_i(x,y); return std::string(PC[pc])+(w? ":within" : (pc==0&&d>=((typename K<T>::Wd)1<<31)? ":beyond>=2^31":":beyond"))+(got_equal? ":equal-true":":equal-false"); }

// epsilon oracle: 1 = "|x-y|<=eps" holds, 0 = does not hold, 2 = readings differ (accept either); region = input class
enum { R_BELOW=0, R_BOUNDARY_EXACT=1, R_BOUNDARY_ROUNDED_BELOW=2, R_BOUNDARY_ROUNDED_ABOVE=3, R_ABOVE=4 };
// key names: both decided boundary cases share one name (the input predicate is "the rounded difference equals epsilon")
static const char* const RG[]={"|x-y|<eps","|fl(x-y)|==eps","|fl(x-y)|==eps","|fl(x-y)|==eps(exact-difference-larger:either-accepted)","|x-y|>eps"};
static const char* const RGC[]={"|x-y|<eps","|x-y|==eps(exact)","|fl(x-y)|==eps,exact-below","|fl(x-y)|==eps,exact-above(either-accepted)","|x-y|>eps"};
template<class T> static inline int le_oracle(T x,T y,T e,int& region){
	volatile T dv=x-y; T d=dv; T ad=d<0? -d: d;
	if(ad<e){ region=R_BELOW; return 1; } if(ad>e){ region=R_ABOVE; return 0; }
	// |fl(x-y)| == e (finite): exact difference = d + err (TwoSum, exact: no overflow since d is finite)
	T ny=-y; volatile T bbv=d-x; T bb=bbv; volatile T t1=d-bb; volatile T t2=x-t1; volatile T t3=ny-bb; T err=(T)t2+(T)t3;
	if(err==0){ region=R_BOUNDARY_EXACT; return 1; }
	bool grows=(err>0)==(d>0);  // |exact| > |d| ?
	if(d==0) grows=true;        // cannot happen (x-y rounds to 0 only if exact), kept for safety
	if(grows){ region=R_BOUNDARY_ROUNDED_ABOVE; return 2; }
	region=R_BOUNDARY_ROUNDED_BELOW; return 1;
}
// judge one epsilon comparison; strictNE: the function is the "not equal" flavour (true exactly when |x-y| > eps)
template<class T> static inline void judge_eps(vf::Ctx& c,const char* pre,T x,T y,T e,bool got,bool ne,const char* what=nullptr){
	int region; int le=le_oracle(x,y,e,region); if(!c.enum_mode) c.cls(RGC[region]);
	if(le==2) return; bool want=(le==1)!=ne; if(got==want) return;
	std::string k=std::string(pre)+RG[region]+(got?":returns-true":":returns-false");
	if(what) c.fail(k,std::string(what)+"="+vf::show(got)+" for x="+vf::show(x)+" y="+vf::show(y)+" eps="+vf::show(e),vf::show(want)); else c.fail(k,got,want);
}

template<class T> struct InU { T x,y; typename K<T>::I n; };
template<class T> struct InE { T x,y,e; };
template<class T> struct InVU { T x[4],y[4]; typename K<T>::I n[4]; };
template<class T> struct InVE { T x[4],y[4],e[4]; };
template<class T> struct InMU { T x[16],y[16]; typename K<T>::I n[4]; };
template<class T> struct InME { T x[16],y[16],e[4]; };

// ---------------------------------------------------------------- scalar checks
template<class T,bool NE> static void k_ulp(const InU<T>& in,vf::Ctx& c){
	int n=(int)in.n; if(n<0) return; bool got= NE? glm::notEqual(in.x,in.y,n) : glm::equal(in.x,in.y,n); bool w=within(in.x,in.y,n);
	c.cls(PC[pair_i(in.x,in.y)]); c.cls(w?"within":"beyond");
	if(got!=(w!=NE)) c.fail(ulp_class(in.x,in.y,n,NE? !got: got),got,w!=NE);
}
template<class T,int F> static void k_eps(const InE<T>& in,vf::Ctx& c){ // F: 0 equal, 1 notEqual, 2 epsilonEqual, 3 epsilonNotEqual
	bool got= F==0? glm::equal(in.x,in.y,in.e) : F==1? glm::notEqual(in.x,in.y,in.e) : F==2? glm::epsilonEqual(in.x,in.y,in.e) : glm::epsilonNotEqual(in.x,in.y,in.e);
	judge_eps<T>(c,"",in.x,in.y,in.e,got,(F&1)!=0);
}

// ---------------------------------------------------------------- vector checks (lengths 1..4; component k takes input k)
// class = overload tag + scalar class; length and component index go into the witness text
template<class T,int L,bool NE> static void kv_ulp(const InVU<T>& in,vf::Ctx& c){
	typedef glm::vec<L,T,glm::defaultp> V; typedef glm::vec<L,int,glm::defaultp> IV; typedef glm::vec<L,bool,glm::defaultp> BV;
	V x,y; IV nv; bool dom=in.n[0]>=0, domv=true; for(int i=0;i<L;i++){ x[i]=in.x[i]; y[i]=in.y[i]; nv[i]=(int)in.n[i]; if(in.n[i]<0) domv=false; }
	auto rep=[&](const char* tag,int i,i64 n,bool got){ bool w=within(in.x[i],in.y[i],n); if(got==(w!=NE)) return;
		c.fail(std::string("vec:")+tag+":"+ulp_class(in.x[i],in.y[i],n,NE? !got: got),"vec"+std::to_string(L)+"["+std::to_string(i)+"]="+vf::show(got)+" for x="+vf::show(in.x[i])+" y="+vf::show(in.y[i])+" maxULPs="+std::to_string(n),vf::show(w!=NE)); };
	if(dom){ int n0=(int)in.n[0]; BV g= NE? glm::notEqual(x,y,n0) : glm::equal(x,y,n0); for(int i=0;i<L;i++) rep("int",i,n0,g[i]); }
	if(domv){ BV g= NE? glm::notEqual(x,y,nv) : glm::equal(x,y,nv); for(int i=0;i<L;i++) rep("ivec",i,in.n[i],g[i]); }
}
template<class T,bool NE> static void kv_ulp_all(const InVU<T>& in,vf::Ctx& c){ kv_ulp<T,1,NE>(in,c); kv_ulp<T,2,NE>(in,c); kv_ulp<T,3,NE>(in,c); kv_ulp<T,4,NE>(in,c); }
template<class T,int L,int F> static void kv_eps(const InVE<T>& in,vf::Ctx& c){
	typedef glm::vec<L,T,glm::defaultp> V; typedef glm::vec<L,bool,glm::defaultp> BV;
	V x,y,ev; for(int i=0;i<L;i++){ x[i]=in.x[i]; y[i]=in.y[i]; ev[i]=in.e[i]; } T e0=in.e[0];
	BV g1= F==0? glm::equal(x,y,e0) : F==1? glm::notEqual(x,y,e0) : F==2? glm::epsilonEqual(x,y,e0) : glm::epsilonNotEqual(x,y,e0);
	BV g2= F==0? glm::equal(x,y,ev) : F==1? glm::notEqual(x,y,ev) : F==2? glm::epsilonEqual(x,y,ev) : glm::epsilonNotEqual(x,y,ev);
	std::string w="vec"+std::to_string(L);
	for(int i=0;i<L;i++){ std::string wi=w+"["+std::to_string(i)+"]"; judge_eps<T>(c,"vec:scalar-eps:",in.x[i],in.y[i],e0,g1[i],(F&1)!=0,wi.c_str()); judge_eps<T>(c,"vec:vec-eps:",in.x[i],in.y[i],in.e[i],g2[i],(F&1)!=0,wi.c_str()); }
}
template<class T,int F> static void kv_eps_all(const InVE<T>& in,vf::Ctx& c){ kv_eps<T,1,F>(in,c); kv_eps<T,2,F>(in,c); kv_eps<T,3,F>(in,c); kv_eps<T,4,F>(in,c); }

// ---------------------------------------------------------------- quaternion checks (components set and read by name)
template<class T,int F> static void kq_eps(const InVE<T>& in,vf::Ctx& c){
	glm::qua<T,glm::defaultp> a,b; a.x=in.x[0]; a.y=in.x[1]; a.z=in.x[2]; a.w=in.x[3]; b.x=in.y[0]; b.y=in.y[1]; b.z=in.y[2]; b.w=in.y[3]; T e=in.e[0];
	glm::vec<4,bool,glm::defaultp> g= F==0? glm::equal(a,b,e) : F==1? glm::notEqual(a,b,e) : F==2? glm::epsilonEqual(a,b,e) : glm::epsilonNotEqual(a,b,e);
	static const char* const nm[]={"quat.x","quat.y","quat.z","quat.w"};
	for(int i=0;i<4;i++) judge_eps<T>(c,"quat:",in.x[i],in.y[i],e,g[i],(F&1)!=0,nm[i]);
}

// ---------------------------------------------------------------- matrix checks: result[i] = all rows of column i equal (equal) / any row differs (notEqual)
template<class T,int C,int R,bool NE> static void km_ulp(const InMU<T>& in,vf::Ctx& c){
	typedef glm::mat<C,R,T,glm::defaultp> M; typedef glm::vec<C,int,glm::defaultp> IV; typedef glm::vec<C,bool,glm::defaultp> BV;
	M a,b; IV nv; bool dom=in.n[0]>=0, domv=true; for(int i=0;i<C;i++){ nv[i]=(int)in.n[i]; if(in.n[i]<0) domv=false; for(int j=0;j<R;j++){ a[i][j]=in.x[i*4+j]; b[i][j]=in.y[i*4+j]; } }
	// key: overload tag + column input class + verdict of equal().  Column input class:
	//   all-within        -> "same-signbits" / "some-signbits-differ" (does any element pair of the column differ in sign bit)
	//   some element beyond -> "same-signbit-element-beyond[>=2^31]" if a beyond element has equal sign bits, else "only-signbit-differing-elements-beyond"
	auto rep=[&](const char* tag,int i,i64 n,bool got){ bool allw=true, mixed=false; int bs=-1, bm=-1;
		for(int j=0;j<R;j++){ T x=in.x[i*4+j], y=in.y[i*4+j]; bool mx=pair_i(x,y)!=0; if(mx) mixed=true; if(!within(x,y,n)){ allw=false; if(mx){ if(bm<0) bm=j; } else if(bs<0) bs=j; } }
		if(got==(allw!=NE)) return;
		int j= allw? 0 : (bs>=0? bs: bm); std::string k;
		if(allw){ k= mixed? "some-signbits-differ:all-within":"same-signbits:all-within"; if(mixed) for(int q=0;q<R;q++) if(pair_i(in.x[i*4+q],in.y[i*4+q])!=0){ j=q; break; } }
		else if(bs>=0) k= udist(in.x[i*4+bs],in.y[i*4+bs])>=((typename K<T>::Wd)1<<31)? "same-signbit-element-beyond>=2^31":"same-signbit-element-beyond"; else k="only-signbit-differing-elements-beyond";
		T x=in.x[i*4+j], y=in.y[i*4+j];
		c.fail(std::string("mat:")+tag+":"+k+((NE? !got: got)?":equal-true":":equal-false"),
			"mat"+std::to_string(C)+"x"+std::to_string(R)+" column "+std::to_string(i)+" -> "+vf::show(got)+"; e.g. row "+std::to_string(j)+": x="+vf::show(x)+" y="+vf::show(y)+" maxULPs="+std::to_string(n),vf::show(allw!=NE)); };
	if(dom){ int n0=(int)in.n[0]; BV g= NE? glm::notEqual(a,b,n0) : glm::equal(a,b,n0); for(int i=0;i<C;i++) rep("int",i,n0,g[i]); }
	if(domv){ BV g= NE? glm::notEqual(a,b,nv) : glm::equal(a,b,nv); for(int i=0;i<C;i++) rep("ivec",i,in.n[i],g[i]); }
}
template<class T,bool NE> static void km_ulp_all(const InMU<T>& in,vf::Ctx& c){
	km_ulp<T,2,2,NE>(in,c); km_ulp<T,2,3,NE>(in,c); km_ulp<T,2,4,NE>(in,c); km_ulp<T,3,2,NE>(in,c); km_ulp<T,3,3,NE>(in,c); km_ulp<T,3,4,NE>(in,c); km_ulp<T,4,2,NE>(in,c); km_ulp<T,4,3,NE>(in,c); km_ulp<T,4,4,NE>(in,c); }
template<class T,int C,int R,bool NE> static void km_eps(const InME<T>& in,vf::Ctx& c){
	typedef glm::mat<C,R,T,glm::defaultp> M; typedef glm::vec<C,T,glm::defaultp> EV; typedef glm::vec<C,bool,glm::defaultp> BV;
	M a,b; EV ev; for(int i=0;i<C;i++){ ev[i]=in.e[i]; for(int j=0;j<R;j++){ a[i][j]=in.x[i*4+j]; b[i][j]=in.y[i*4+j]; } }
	auto rep=[&](const char* tag,int i,T e,bool got){ // column verdict: all elements "<=" ; elements whose two readings differ make the column undecided if they matter
		bool all_le=true, undecided=false; int first_gt=-1, first_b=-1; int reg_gt=R_ABOVE, reg_b=R_BELOW;
		for(int j=0;j<R;j++){ int region; int le=le_oracle(in.x[i*4+j],in.y[i*4+j],e,region); if(le==2) undecided=true; else if(le==0){ all_le=false; if(first_gt<0){ first_gt=j; reg_gt=region; } } if(region!=R_BELOW&&region!=R_ABOVE&&first_b<0){ first_b=j; reg_b=region; } }
		if(undecided && all_le) return;            // the undecided element decides the column: either answer accepted
		if(got==(all_le!=NE)) return;
		int j= !all_le? first_gt : (first_b>=0? first_b: 0); int reg= !all_le? reg_gt : (first_b>=0? reg_b: R_BELOW);
		c.fail(std::string("mat:")+tag+":"+RG[reg]+(all_le?":all-within":":some-beyond")+(got?":returns-true":":returns-false"),
			"mat"+std::to_string(C)+"x"+std::to_string(R)+" column "+std::to_string(i)+" -> "+vf::show(got)+"; deciding element row "+std::to_string(j)+": x="+vf::show(in.x[i*4+j])+" y="+vf::show(in.y[i*4+j])+" eps="+vf::show(e),vf::show(all_le!=NE)); };
	T e0=in.e[0];
	{ BV g= NE? glm::notEqual(a,b,e0) : glm::equal(a,b,e0); for(int i=0;i<C;i++) rep("scalar-eps",i,e0,g[i]); }
	{ BV g= NE? glm::notEqual(a,b,ev) : glm::equal(a,b,ev); for(int i=0;i<C;i++) rep("vec-eps",i,in.e[i],g[i]); }
}
template<class T,bool NE> static void km_eps_all(const InME<T>& in,vf::Ctx& c){
	km_eps<T,2,2,NE>(in,c); km_eps<T,2,3,NE>(in,c); km_eps<T,2,4,NE>(in,c); km_eps<T,3,2,NE>(in,c); km_eps<T,3,3,NE>(in,c); km_eps<T,3,4,NE>(in,c); km_eps<T,4,2,NE>(in,c); km_eps<T,4,3,NE>(in,c); km_eps<T,4,4,NE>(in,c); }

// ---------------------------------------------------------------- operations
#define OPS_FOR(T,SFX,FU,FE,FVU,FVE,FMU,FME) \
	VF_OP(equal_ulp_##SFX, InU<T>, FU){ k_ulp<T,false>(in,c); } \
	VF_OP(notEqual_ulp_##SFX, InU<T>, FU){ k_ulp<T,true>(in,c); } \
	VF_OP(equal_eps_##SFX, InE<T>, FE){ k_eps<T,0>(in,c); } \
	VF_OP(notEqual_eps_##SFX, InE<T>, FE){ k_eps<T,1>(in,c); } \
	VF_OP(epsilonEqual_##SFX, InE<T>, FE){ k_eps<T,2>(in,c); } \
	VF_OP(epsilonNotEqual_##SFX, InE<T>, FE){ k_eps<T,3>(in,c); } \
	VF_OP(equal_ulp_vec_##SFX, InVU<T>, FVU){ kv_ulp_all<T,false>(in,c); } \
	VF_OP(notEqual_ulp_vec_##SFX, InVU<T>, FVU){ kv_ulp_all<T,true>(in,c); } \
	VF_OP(equal_eps_vec_##SFX, InVE<T>, FVE){ kv_eps_all<T,0>(in,c); } \
	VF_OP(notEqual_eps_vec_##SFX, InVE<T>, FVE){ kv_eps_all<T,1>(in,c); } \
	VF_OP(epsilonEqual_vec_##SFX, InVE<T>, FVE){ kv_eps_all<T,2>(in,c); } \
	VF_OP(epsilonNotEqual_vec_##SFX, InVE<T>, FVE){ kv_eps_all<T,3>(in,c); } \
	VF_OP(equal_eps_quat_##SFX, InVE<T>, FVE){ kq_eps<T,0>(in,c); } \
	VF_OP(notEqual_eps_quat_##SFX, InVE<T>, FVE){ kq_eps<T,1>(in,c); } \
	VF_OP(epsilonEqual_quat_##SFX, InVE<T>, FVE){ kq_eps<T,2>(in,c); } \
	VF_OP(epsilonNotEqual_quat_##SFX, InVE<T>, FVE){ kq_eps<T,3>(in,c); } \
	VF_OP(equal_ulp_mat_##SFX, InMU<T>, FMU){ km_ulp_all<T,false>(in,c); } \
	VF_OP(notEqual_ulp_mat_##SFX, InMU<T>, FMU){ km_ulp_all<T,true>(in,c); } \
	VF_OP(equal_eps_mat_##SFX, InME<T>, FME){ km_eps_all<T,false>(in,c); } \
	VF_OP(notEqual_eps_mat_##SFX, InME<T>, FME){ km_eps_all<T,true>(in,c); }
OPS_FOR(float, f32, "ffi", "fff", "ffffffffiiii", "ffffffffffff", "ffffffffffffffffffffffffffffffffiiii", "ffffffffffffffffffffffffffffffffffff")
OPS_FOR(double, f64, "ddl", "ddd", "ddddddddllll", "dddddddddddd", "ddddddddddddddddddddddddddddddddllll", "dddddddddddddddddddddddddddddddddddd")

template<class T> struct Ops;
#define OPS_STRUCT(T,SFX) template<> struct Ops<T>{ \
	static std::vector<vf::Op*> su(){ return {&equal_ulp_##SFX,&notEqual_ulp_##SFX}; } \
	static std::vector<vf::Op*> se(){ return {&equal_eps_##SFX,&notEqual_eps_##SFX,&epsilonEqual_##SFX,&epsilonNotEqual_##SFX}; } \
	static std::vector<vf::Op*> vu(){ return {&equal_ulp_vec_##SFX,&notEqual_ulp_vec_##SFX}; } \
	static std::vector<vf::Op*> ve(){ return {&equal_eps_vec_##SFX,&notEqual_eps_vec_##SFX,&epsilonEqual_vec_##SFX,&epsilonNotEqual_vec_##SFX,&equal_eps_quat_##SFX,&notEqual_eps_quat_##SFX,&epsilonEqual_quat_##SFX,&epsilonNotEqual_quat_##SFX}; } \
	static std::vector<vf::Op*> mu(){ return {&equal_ulp_mat_##SFX,&notEqual_ulp_mat_##SFX}; } \
	static std::vector<vf::Op*> me(){ return {&equal_eps_mat_##SFX,&notEqual_eps_mat_##SFX}; } };
OPS_STRUCT(float,f32)
OPS_STRUCT(double,f64)
static std::vector<vf::Op*> wanted(std::vector<vf::Op*> v){ std::vector<vf::Op*> o; for(vf::Op* p: v) if(vf::want(*p)) o.push_back(p); return o; }

// ---------------------------------------------------------------- generators
// special points: every binade boundary +-2 steps (both signs), subnormal powers of two, +-0..+-70 denorm_min, +-max, shared lattice, mid-binade values
template<class T> static std::vector<T> points(){
	typedef typename K<T>::Wd Wd; std::vector<T> v; const int MANT=fp<T>::MANT; const Wd EMAX=((Wd(1)<<fp<T>::EXPB)-1); Wd M=OMAX<T>();
	auto addo=[&](Wd o){ if(o>M||o<-M) return; v.push_back(unord<T>(o)); if(o==0) v.push_back(negzero<T>()); };
	for(Wd e=0;e<EMAX;e++){ Wd b=e<<MANT; for(int k=-2;k<=2;k++){ addo(b+k); addo(-(b+k)); } Wd mid=b+(Wd(1)<<(MANT-1)); addo(mid); addo(-mid); }
	for(int j=0;j<MANT;j++){ Wd p=Wd(1)<<j; addo(p); addo(-p); }
	for(int k=0;k<=70;k++){ addo(k); addo(-k); }
	for(int k=0;k<=2;k++){ addo(M-k); addo(-(M-k)); }
	for(T x: lattice_of<T>::get()) if(isfinite_b(x)) v.push_back(x);
	return v;
}
template<class T> static T random_finite(vf::Rng& r){ for(;;){ typename fp<T>::U b=(typename fp<T>::U)r.next(); T x=fp<T>::make(b); if(isfinite_b(x)) return x; } }
template<class T> static T random_x(vf::Rng& r,const std::vector<T>& P){ typedef typename K<T>::Wd Wd;
	switch(r.below(6)){ case 0: return P[r.below(P.size())];
		case 1: { Wd o=word(P[r.below(P.size())])+(Wd)r.range(-80,80); return unord<T>(o); }
		case 2: return unord<T>((Wd)r.range(-150,150));
		case 3: return (T)r.logmag(-40,40);
		default: return random_finite<T>(r); } }
static inline i64 clampn(i128 n){ if(n<0) return 0; if(n>0x7fffffff) return 0x7fffffff; return (i64)n; }
// maxULPs candidates around the true distance D
template<class T> static i64 pick_n(vf::Rng& r,typename K<T>::Wd D){ i128 d=(i128)D;
	switch(r.below(12)){ case 0: return 0; case 1: return 1; case 2: return 2; case 3: return clampn(d-1); case 4: case 5: return clampn(d); case 6: return clampn(d+1); case 7: return 64;
		case 8: return clampn((i128)(d&0xffffffff)+r.range(-1,1));   // low 32 bits of the distance (exposes 64->32 bit truncation)
		case 9: return r.coin()? 0x7fffffff : 0x7ffffffe; case 10: return clampn((i128)(d&0x7fffffff)); default: return (i64)r.below(66); } }
// a ULP-comparison triple
template<class T> static void gen_ulp(vf::Rng& r,const std::vector<T>& P,T& x,T& y,i64& n){ typedef typename K<T>::Wd Wd; Wd M=OMAX<T>();
	switch(r.below(12)){
		case 0: case 1: case 2: x=random_x<T>(r,P); y=unord<T>(word(x)+(Wd)r.range(-66,66)); break;                 // ULP distance 0..66
		case 3: x=unord<T>((Wd)r.range(-70,70)); y=unord<T>((Wd)r.range(-70,70)); if(r.below(4)==0) x=r.coin()? (T)0: negzero<T>(); if(r.below(4)==0) y=r.coin()? (T)0: negzero<T>(); break;  // straddling zero
		case 4: x=P[r.below(P.size())]; y=P[r.below(P.size())]; break;                                                 // far special pairs
		case 5: { x=random_x<T>(r,P); int k=r.range(8,(int)sizeof(T)*8-2); Wd d=(Wd(1)<<k)+(Wd)r.range(-2,2); if(r.coin()) d=-d; y=unord<T>(word(x)+d); break; } // distance 2^k +- 2
		case 6: x=random_x<T>(r,P); y=-x; break;                                                                       // mirror pair
		case 7: x=random_finite<T>(r); y=random_finite<T>(r); break;
		case 8: { x=random_x<T>(r,P); Wd d=(Wd)(r.next()>>(r.below(40))); if(sizeof(T)==4) d&=0x7fffffff; if(r.coin()) d=-d; y=unord<T>(word(x)+d); break; }
		case 9: { x=random_x<T>(r,P); Wd d=((Wd)r.below(4)<<32)+((Wd)r.below(3)<<31)+(Wd)r.range(-70,70); if(r.coin()) d=-d; y=unord<T>(word(x)+d); break; } // multiples of 2^31/2^32 +- small
		default: x=random_finite<T>(r); y=unord<T>(word(x)+(Wd)r.range(-66,66)); break; }
	(void)M; n=pick_n<T>(r,udist(x,y)); if(r.coin()){ T t=x; x=y; y=t; } }
// an epsilon-comparison triple (eps finite, >= +0)
template<class T> static T step_mag(T a,int k){ typename K<T>::Wd o=word(a)+k; if(o<0) o=0; return unord<T>(o); }
template<class T> static void gen_eps(vf::Rng& r,const std::vector<T>& P,T& x,T& y,T& e){ typedef typename K<T>::Wd Wd;
	switch(r.below(10)){
		case 0: case 1: x=random_x<T>(r,P); y=unord<T>(word(x)+(Wd)r.range(-66,66)); break;                           // close: exact subtraction
		case 2: x=(T)r.logmag(-20,20); y=(T)r.logmag(-20,20); break;                                                  // unrelated magnitudes: inexact subtraction
		case 3: x=(T)((double)r.range(-50,50)/10.0); y=(T)((double)r.range(-50,50)/10.0); break;                      // decimal grid
		case 4: x=(T)r.uniform(-4,4); y=x+(T)r.uniform(-1,1)*(T)std::ldexp(1.0,-r.range(0,30)); break;
		case 5: x=P[r.below(P.size())]; y=P[r.below(P.size())]; break;
		case 6: x=random_finite<T>(r); y=random_finite<T>(r); break;
		case 7: x=(T)r.range(-1000,1000); y=(T)r.range(-1000,1000); break;                                            // small integers
		case 8: x=random_x<T>(r,P); y=x; break;
		default: x=(T)r.logmag(-10,10); y=x*(T)(1.0+r.uniform(-1,1)*std::ldexp(1.0,-r.range(1,40))); break; }
	volatile T dv=x-y; T ad=dv<0? -dv: (T)dv; if(!isfinite_b(ad)) ad=std::numeric_limits<T>::max();
	switch(r.below(12)){ case 0: case 1: case 2: e=ad; break; case 3: e=step_mag<T>(ad,-1); break; case 4: e=step_mag<T>(ad,+1); break; case 5: e=0; break;
		case 6: e=std::numeric_limits<T>::epsilon(); break; case 7: e=ad*(T)0.5; break; case 8: e=ad*(T)2; break; case 9: e=(T)std::ldexp(1.0,-r.range(0,40)); break;
		case 10: e=(T)((double)r.range(0,20)/10.0); break; default: e=step_mag<T>(ad,r.range(-3,3)); break; }
	if(!isfinite_b(e)) e=std::numeric_limits<T>::max(); if(e<0||e==0) e=0; // never -0, never negative
	if(r.coin()){ T t=x; x=y; y=t; } }

template<class T> static void run_type(const char* tag){
	typedef typename K<T>::I I; typedef typename K<T>::Wd Wd; typedef Ops<T> O;
	std::vector<T> P=points<T>();
	std::vector<vf::Op*> su=wanted(O::su()), se=wanted(O::se()), vu=wanted(O::vu()), ve=wanted(O::ve()), mu=wanted(O::mu()), me=wanted(O::me());
	// deterministic list of ULP triples: special point x, y at ULP offsets, maxULPs around the distance; adjacent binade boundaries and other far pairs
	struct Tr { T x,y; i64 n; }; std::vector<Tr> D;
	{ const int OFF[]={0,1,-1,2,-2,3,63,-63,64,-64,65,-65};
	  for(T x: P) for(int d: OFF){ Wd oy=word(x)+d; if(oy>OMAX<T>()||oy<-OMAX<T>()) continue; T y=unord<T>(oy); int ad=d<0?-d:d; int NS[]={0,1,2,ad-1,ad,ad+1,64};
		for(int n: NS){ if(n<0) continue; D.push_back(Tr{x,y,n}); } if(d==0&&word(x)==0){ D.push_back(Tr{x,negzero<T>(),0}); D.push_back(Tr{negzero<T>(),x,1}); } }
	  const Wd EMAX=((Wd(1)<<fp<T>::EXPB)-1); const int MANT=fp<T>::MANT; const int FN[]={0,1,5,64,0x7fffffff};
	  for(Wd e=1;e+1<EMAX;e++) for(int sg=0;sg<2;sg++){ T b=unord<T>(e<<MANT), b2=unord<T>((e+1)<<MANT), m=unord<T>((e<<MANT)+(Wd(1)<<(MANT-1))); if(sg){ b=-b; b2=-b2; m=-m; }
		for(int n: FN){ D.push_back(Tr{b,b2,n}); D.push_back(Tr{b2,b,n}); D.push_back(Tr{b,m,n}); D.push_back(Tr{b,(T)(sg?-1:1),n}); D.push_back(Tr{b,sg?-std::numeric_limits<T>::max():std::numeric_limits<T>::max(),n}); D.push_back(Tr{b,-b,n}); } }
	  // distances that are multiples of 2^31 / 2^32 from 1, min-normal and a subnormal (width truncation), with maxULPs = low bits
	  if(sizeof(T)==8){ T bases[]={(T)1,(T)-1,std::numeric_limits<T>::min(),unord<T>(5),(T)1.5,(T)1e300}; for(T x: bases) for(int hi=0;hi<=5;hi++) for(int lo=-2;lo<=2;lo++) for(int half=0;half<2;half++){ Wd d=((Wd)hi<<32)+((Wd)half<<31)+lo; T y=unord<T>(word(x)+d); for(int n: {0,1,2,3,64}){ D.push_back(Tr{x,y,n}); D.push_back(Tr{y,x,n}); } } }
	}
	vf::note(std::string("deterministic_ulp_triples_")+tag,std::to_string(D.size()));
	std::string lab=std::string("det-ulp-")+tag;
	vf::parallel(lab.c_str(),[&](int t,int TT,vf::Ctx& c){
		for(size_t i=t;i<D.size();i+=TT){ InU<T> in; memset(&in,0,sizeof in); in.x=D[i].x; in.y=D[i].y; in.n=(I)D[i].n; for(vf::Op* op: su) vf::run(c,*op,in); }
		// vectors: four consecutive triples per call; matrices: x=y everywhere except the triples placed on a moving diagonal-ish pattern
		for(size_t i=(size_t)t*4;i+3<D.size();i+=(size_t)TT*4){ InVU<T> iv; memset(&iv,0,sizeof iv); for(int k=0;k<4;k++){ iv.x[k]=D[i+k].x; iv.y[k]=D[i+k].y; iv.n[k]=(I)D[i+k].n; } for(vf::Op* op: vu) vf::run(c,*op,iv);
			// same triple in every component (so that the scalar-int overload sees a matching maxULPs in every lane)
			InVU<T> is; memset(&is,0,sizeof is); for(int k=0;k<4;k++){ is.x[k]=D[i].x; is.y[k]=D[i].y; is.n[k]=(I)D[i].n; } for(vf::Op* op: vu) vf::run(c,*op,is); }
		for(size_t i=(size_t)t;i<D.size();i+=(size_t)TT){ if(i%3) continue; InMU<T> im; memset(&im,0,sizeof im); for(int k=0;k<16;k++){ im.x[k]=im.y[k]=P[(i+k*37)%P.size()]; } for(int k=0;k<4;k++) im.n[k]=(I)D[i].n;
			int pos=(int)((i/3)%16); im.x[pos]=D[i].x; im.y[pos]=D[i].y; for(vf::Op* op: mu) vf::run(c,*op,im); }
	});
	// random ULP triples
	u64 ns=vf::N(3000000,100000000), nvv=vf::N(400000,10000000), nm=vf::N(100000,3000000);
	lab=std::string("rnd-ulp-")+tag;
	vf::parallel(lab.c_str(),[&](int t,int TT,vf::Ctx& c){
		for(u64 i=t;i<ns;i+=TT){ InU<T> in; memset(&in,0,sizeof in); i64 n; gen_ulp<T>(c.rng,P,in.x,in.y,n); in.n=(I)n; for(vf::Op* op: su) vf::run(c,*op,in); }
		for(u64 i=t;i<nvv;i+=TT){ InVU<T> iv; memset(&iv,0,sizeof iv); for(int k=0;k<4;k++){ i64 n; gen_ulp<T>(c.rng,P,iv.x[k],iv.y[k],n); iv.n[k]=(I)n; }
			if(c.rng.coin()){ for(int k=1;k<4;k++) iv.n[k]= c.rng.coin()? iv.n[0] : (I)pick_n<T>(c.rng,udist(iv.x[k],iv.y[k])); } for(vf::Op* op: vu) vf::run(c,*op,iv); }
		for(u64 i=t;i<nm;i+=TT){ InMU<T> im; memset(&im,0,sizeof im); for(int k=0;k<16;k++){ im.x[k]=im.y[k]=random_x<T>(c.rng,P); if(c.rng.below(3)==0) im.y[k]=unord<T>(word(im.x[k])+(Wd)c.rng.range(-2,2)); }
			int np=c.rng.range(0,3); i64 n=c.rng.below(4); for(int q=0;q<np;q++){ int pos=(int)c.rng.below(16); gen_ulp<T>(c.rng,P,im.x[pos],im.y[pos],n); }
			for(int k=0;k<4;k++) im.n[k]= c.rng.below(3)? (I)n : (I)pick_n<T>(c.rng,udist(im.x[k*4+c.rng.below(4)],im.y[k*4+c.rng.below(4)])); for(vf::Op* op: mu) vf::run(c,*op,im); }
	});
	// epsilon comparisons: deterministic lattice (special points x small offsets, eps at / just below / just above |fl(x-y)|, 0, machine epsilon) + random
	lab=std::string("eps-")+tag;
	u64 es=vf::N(3000000,100000000), ev=vf::N(400000,10000000), em=vf::N(100000,3000000);
	vf::parallel(lab.c_str(),[&](int t,int TT,vf::Ctx& c){
		const int OFF[]={0,1,-1,2,-3,64,-65};
		for(size_t i=t;i<P.size();i+=TT) for(int d: OFF){ T x=P[i], y=unord<T>(word(x)+d); volatile T dv=x-y; T ad=dv<0? -dv: (T)dv; if(!isfinite_b(ad)) continue;
			T E[]={ad,step_mag<T>(ad,-1),step_mag<T>(ad,1),(T)0,std::numeric_limits<T>::epsilon(),std::numeric_limits<T>::max(),std::numeric_limits<T>::denorm_min()};
			int q=0; for(T e: E){ if(e==0) e=0; /* never -0 */ InE<T> in{x,y,e}; for(vf::Op* op: se) vf::run(c,*op,in); InE<T> in2{y,x,e}; for(vf::Op* op: se) vf::run(c,*op,in2);
				InVE<T> iv; memset(&iv,0,sizeof iv); for(int k=0;k<4;k++){ iv.x[k]=P[(i+k*53)%P.size()]; iv.y[k]=iv.x[k]; iv.e[k]=e; } int pos=(int)((i+q)%4); iv.x[pos]=x; iv.y[pos]=y; iv.e[pos]=e; iv.e[0]=e; for(vf::Op* op: ve) vf::run(c,*op,iv);
				if((i+q)%4==0){ InME<T> im; memset(&im,0,sizeof im); for(int k=0;k<16;k++){ im.x[k]=im.y[k]=P[(i+k*37)%P.size()]; } for(int k=0;k<4;k++) im.e[k]=e; int mp=(int)((i/4+q)%16); im.x[mp]=x; im.y[mp]=y; for(vf::Op* op: me) vf::run(c,*op,im); }
				q++; } }
		for(u64 i=t;i<es;i+=TT){ InE<T> in; gen_eps<T>(c.rng,P,in.x,in.y,in.e); for(vf::Op* op: se) vf::run(c,*op,in); }
		for(u64 i=t;i<ev;i+=TT){ InVE<T> iv; for(int k=0;k<4;k++) gen_eps<T>(c.rng,P,iv.x[k],iv.y[k],iv.e[k]); if(c.rng.coin()) for(int k=1;k<4;k++) iv.e[k]=iv.e[0]; for(vf::Op* op: ve) vf::run(c,*op,iv); }
		for(u64 i=t;i<em;i+=TT){ InME<T> im; T e=0; for(int k=0;k<16;k++){ im.x[k]=im.y[k]=random_x<T>(c.rng,P); }
			int np=c.rng.range(0,3); for(int q=0;q<np;q++){ int pos=(int)c.rng.below(16); gen_eps<T>(c.rng,P,im.x[pos],im.y[pos],e); }
			for(int k=0;k<4;k++){ if(c.rng.below(3)) im.e[k]=e; else { T a,b; gen_eps<T>(c.rng,P,a,b,im.e[k]); } } for(vf::Op* op: me) vf::run(c,*op,im); }
	});
}

static void workload(){
	run_type<float>("f32");
	run_type<double>("f64");
}
VF_MAIN("C14_relational")
