// C17 (swizzle half) — every swizzle accessor returns / writes exactly the named components.
//
// The accessor space is enumerated by mon/gen_C17.py into C17_swz_gen.inc (build directory): an id -> name table and X-macro
// lists of the names valid per source length.  This wrapper turns each name into one `case` of a switch that performs the
// real glm access.  ORACLE: the indices are derived from the LETTERS of the name at run time (position of the letter in
// "xyzw" / "rgba" / "stpq"), every source component holds a distinct tag, results are compared bytewise.
//
// build-time configuration (from fw/props/C17.py):
//   C17_FORM   1 member functions  v.zyx()   (-DGLM_FORCE_SWIZZLE)
//              2 operator members  v.zyx     (-DGLM_FORCE_SWIZZLE -DGLM_FORCE_INTRINSICS; packed and aligned)
//              3 gtx/vec_swizzle free functions  zyx(v)
//   C17_TMASK  element types in this unit: 1 float, 2 double, 4 int, 8 uint, 16 int8, 32 bool
//   C17_QMASK  1 packed_highp, 2 aligned_highp (needs GLM_FORCE_INTRINSICS)
//   C17_SMASK  letter sets in this unit: 1 xyzw, 2 rgba, 4 stpq (default all)
#include "vf.hpp"
#include "ref.hpp"
#include <glm/glm.hpp>
#if C17_FORM==3
#	include <glm/gtx/vec_swizzle.hpp>
#endif
#if (C17_QMASK & 2)
#	include <glm/gtc/type_aligned.hpp>
#endif
#include <new>
#include <sys/wait.h>
#include "C17_swz_gen.inc"

#ifndef C17_TMASK
#	define C17_TMASK 15
#endif
#ifndef C17_QMASK
#	define C17_QMASK 1
#endif

using vf::u32; using vf::u64;

// ---------------------------------------------------------------- oracle: name -> indices (no glm code)
static int c17_decode(const char* name,int idx[4]){      // returns N, or 0 if the word is not over one letter set
	static const char* sets[3]={"xyzw","rgba","stpq"};
	int n=(int)strlen(name); if(n<2||n>4) return 0;
	for(int s=0;s<3;s++){ bool ok=true; for(int i=0;i<n&&ok;i++){ const char* p=strchr(sets[s],name[i]); if(!p) ok=false; else idx[i]=(int)(p-sets[s]); } if(ok) return n; }
	return 0;
}
static bool c17_norepeat(const int* idx,int n){ for(int i=0;i<n;i++) for(int j=i+1;j<n;j++) if(idx[i]==idx[j]) return false; return true; }

template<class T> static T mk(double tag){
	if constexpr(std::is_same<T,bool>::value) return tag!=0.0;
	else if constexpr(std::is_unsigned<T>::value) return (T)std::fabs(tag);
	else return (T)tag;
}
template<class T> static std::string showv(const T* p,int n){ std::string s="("; for(int i=0;i<n;i++){ if(i) s+=","; if constexpr(std::is_same<T,bool>::value) s+= p[i]?"1":"0"; else if constexpr(std::is_floating_point<T>::value){ char b[40]; snprintf(b,40,"%.9g",(double)p[i]); s+=b; } else s+=std::to_string((long long)p[i]); } return s+")"; }

template<class V> struct VT;
template<int L_,class T,glm::qualifier Q_> struct VT<glm::vec<L_,T,Q_> >{ enum{ len=L_ }; typedef T elem; static constexpr glm::qualifier q=Q_; };

// ---------------------------------------------------------------- detection of accessors (so that a missing accessor is an observation, not a build failure)
#if C17_FORM==1
#	define C17_ACC(v,NAME) (v).NAME()
#elif C17_FORM==2
#	define C17_ACC(v,NAME) (v).NAME
#else
#	define C17_ACC(v,NAME) NAME(v)
#endif
namespace det {
#define X(ID,NAME) \
	template<class V,class=void> struct m_##NAME : std::false_type{}; \
	template<class V> struct m_##NAME<V, std::void_t<decltype(C17_ACC(std::declval<const V&>(),NAME))> > : std::true_type{};
#if C17_FORM==3
C17_FREE_LIST_ALL(X)
#else
C17_LIST_ALL(X)
#endif
#undef X
// is an operator-swizzle proxy convertible to its vector (i.e. does it have operator()())
template<class S,class=void> struct callable : std::false_type{};
template<class S> struct callable<S, std::void_t<decltype(std::declval<const S&>()())> > : std::true_type{};
}

// ---------------------------------------------------------------- the generated accesses
enum { K_READ=0, K_SET=1, K_ADD=2, K_SUB=3, K_MUL=4, K_DIV=5, K_SCALAR=6, K_ALIAS_SET=7, K_ALIAS_ADD=8, K_ALIAS_SUB=9, K_ALIAS_MUL=10, K_ALIAS_DIV=11, K_SWZ_RHS=12 };
static const char* kind_name(int k){ static const char* n[]={"read","assign","+=","-=","*=","/=","assign-scalar","self-assign","self+=","self-=","self*=","self/=","assign-from-swizzle"}; return n[k]; }
// classes (aligned?, L, N) of operator-form reads whose instantiation is a hard compile error inside glm: established per unit by the
// compile probe in fw/props/C17.py (written to C17_AVAIL_INC as the body of this function); all other classes return true
template<class T> constexpr bool c17_read_ok(bool aligned,int L,int N){
#ifdef C17_AVAIL_INC
#	include C17_AVAIL_INC
#endif
	return true;
}
// rd: returns N (>0) on success, 0 accessor missing, -1 read does not compile (proxy without conversion to vec, or the compile
// probe of this unit found that instantiating the conversion is an error), -2 id not generated for this L
#if C17_FORM==2
#	define C17_RD(ID,NAME) case ID: { constexpr int N=(int)sizeof(#NAME)-1; typedef typename VT<V>::elem T; constexpr glm::qualifier Q=VT<V>::q; \
		if constexpr(!det::m_##NAME<V>::value) return 0; \
		else if constexpr(!det::callable<decltype(v.NAME)>::value) return -1; \
		else if constexpr(!c17_read_ok<T>(Q==glm::aligned_highp,VT<V>::len,N)) return -1; \
		else { glm::vec<N,T,Q> r = v.NAME; memcpy(out,&r,N*sizeof(T)); return N; } }
#else
#	define C17_RD(ID,NAME) case ID: { constexpr int N=(int)sizeof(#NAME)-1; typedef typename VT<V>::elem T; constexpr glm::qualifier Q=VT<V>::q; \
		if constexpr(!det::m_##NAME<V>::value) return 0; \
		else { glm::vec<N,T,Q> r = C17_ACC(v,NAME); memcpy(out,&r,N*sizeof(T)); return N; } }
#endif

#if C17_FORM==2
// wr: 1 done, 0 accessor missing, -1 not applicable (kind needs N==L), -2 id not generated, -3 proxy of a non-repeating word has no operator=(vec)
#	define C17_WR(ID,NAME) case ID: { constexpr int N=(int)sizeof(#NAME)-1; typedef typename VT<V>::elem T; constexpr glm::qualifier Q=VT<V>::q; constexpr int L=VT<V>::len; \
		constexpr bool arith=!std::is_same<T,bool>::value; typedef glm::vec<N,T,Q> R; \
		if constexpr(!det::m_##NAME<V>::value) return 0; \
		else if constexpr(!std::is_assignable<decltype((v.NAME)),const R&>::value) return -3; \
		else { R r; memset((void*)&r,0,sizeof r); memcpy((void*)&r,rhs,N*sizeof(T)); \
			switch(kind){ \
			case K_SET: v.NAME = r; return 1; \
			case K_ADD: if constexpr(arith){ v.NAME += r; return 1; } else return -1; \
			case K_SUB: if constexpr(arith){ v.NAME -= r; return 1; } else return -1; \
			case K_MUL: if constexpr(arith){ v.NAME *= r; return 1; } else return -1; \
			case K_DIV: if constexpr(arith){ v.NAME /= r; return 1; } else return -1; \
			case K_SCALAR: v.NAME = rhs[0]; return 1; \
			case K_ALIAS_SET: if constexpr(N==L){ v.NAME = v; return 1; } else return -1; \
			case K_ALIAS_ADD: if constexpr(N==L && arith){ v.NAME += v; return 1; } else return -1; \
			case K_ALIAS_SUB: if constexpr(N==L && arith){ v.NAME -= v; return 1; } else return -1; \
			case K_ALIAS_MUL: if constexpr(N==L && arith){ v.NAME *= v; return 1; } else return -1; \
			case K_ALIAS_DIV: if constexpr(N==L && arith){ v.NAME /= v; return 1; } else return -1; \
			case K_SWZ_RHS: { V u; memset((void*)&u,0,sizeof u); u.NAME = r; v.NAME = u.NAME; return 1; } /* the same swizzle of another vector on the right */ \
			default: return -1; } } }
#endif
#ifndef C17_SMASK
#	define C17_SMASK 7
#endif
#if C17_SMASK & 1
#	define C17_RD0(ID,NAME) C17_RD(ID,NAME)
#	define C17_WR0(ID,NAME) C17_WR(ID,NAME)
#else
#	define C17_RD0(ID,NAME)
#	define C17_WR0(ID,NAME)
#endif
#if C17_SMASK & 2
#	define C17_RD1(ID,NAME) C17_RD(ID,NAME)
#	define C17_WR1(ID,NAME) C17_WR(ID,NAME)
#else
#	define C17_RD1(ID,NAME)
#	define C17_WR1(ID,NAME)
#endif
#if C17_SMASK & 4
#	define C17_RD2(ID,NAME) C17_RD(ID,NAME)
#	define C17_WR2(ID,NAME) C17_WR(ID,NAME)
#else
#	define C17_RD2(ID,NAME)
#	define C17_WR2(ID,NAME)
#endif
#include "C17_swz_sw.inc"
template<class V> static int rd(const V& v,int id,typename VT<V>::elem* out){
	constexpr int L=VT<V>::len;
#if C17_FORM==3
	if constexpr(L==1) return c17_rd_L1<V>(v,id,out);
#endif
	if constexpr(L==2) return c17_rd_L2<V>(v,id,out);
	else if constexpr(L==3) return c17_rd_L3<V>(v,id,out);
	else if constexpr(L==4) return c17_rd_L4<V>(v,id,out);
	else return -2;
}
#if C17_FORM==2
template<class V> static int wr(V& v,int id,int kind,const typename VT<V>::elem* rhs){
	constexpr int L=VT<V>::len;
	if constexpr(L==2) return c17_wr_L2<V>(v,id,kind,rhs);
	else if constexpr(L==3) return c17_wr_L3<V>(v,id,kind,rhs);
	else if constexpr(L==4) return c17_wr_L4<V>(v,id,kind,rhs);
	else return -2;
}
#endif

// ---------------------------------------------------------------- input record
// code = L | Q<<4 | kind<<8 | heap<<16 | childdied<<17
struct In { double tag[4]; double rhs[4]; u32 id; u32 code; };
#define IN_FMT "dddddddduu"
static inline u32 mkcode(int L,int Q,int kind,int heap){ return (u32)L|((u32)Q<<4)|((u32)kind<<8)|((u32)heap<<16); }
static const char* qname(int Q){ return Q==0?"packed":"aligned"; }

template<class T> static void fill_poison(unsigned char* buf,size_t n){ for(size_t i=0;i+sizeof(T)<=n;i+=sizeof(T)){ T p=mk<T>(90.0+(double)((i/sizeof(T))%32)); memcpy(buf+i,&p,sizeof(T)); } }

// object placement: either inside a poisoned buffer (a lane read past the object yields a value that matches no tag) or in an
// exactly-sized heap block (a lane read past the object is visible to ASan)
template<class V> struct Place {
	typedef typename VT<V>::elem T;
	alignas(64) unsigned char buf[256]; void* heap; V* p;
	Place(bool useheap,const T* src):heap(nullptr){
		if(useheap){ heap=aligned_alloc(alignof(V),sizeof(V)); p=new(heap) V; fill_poison<T>((unsigned char*)heap,sizeof(V)); }
		else { fill_poison<T>(buf,sizeof buf); p=new((void*)buf) V; }
		memcpy((void*)p,src,VT<V>::len*sizeof(T));
	}
	~Place(){ if(heap) free(heap); }
};

template<class T,class V> static void check_read_T(const In& in,vf::Ctx& c){
	constexpr int L=VT<V>::len; const int Q=(in.code>>4)&15; const bool heap=(in.code>>16)&1;
	std::string pre=std::string(qname(Q))+":vec"+std::to_string(L)+":";
	if(in.id>=C17_NNAMES){ c.fail("harness:bad-id","",""); return; }
	const char* name=c17_names[in.id]; int idx[4]; int N=c17_decode(name,idx);
	bool valid=N>0; for(int i=0;i<N;i++) if(idx[i]>=L) valid=false;
	if(!valid){ c.fail("harness:name-not-valid-for-length",name,""); return; }
	if((in.code>>17)&1){ c.fail(pre+std::to_string(N)+"-letter:read-of-exactly-sized-heap-object-aborted-under-sanitizer",std::string(name)+": child process died","normal return"); return; }
	T src[4]; for(int i=0;i<L;i++) src[i]=mk<T>(in.tag[i]);
	Place<V> pl(heap,src);
	T out[4]; int r=rd<V>(*pl.p,(int)in.id,out);
	c.cls(N==2?"2-letter":N==3?"3-letter":"4-letter");
	if(r==-2){ c.fail("harness:id-not-generated",name,""); return; }
	if(r==0){ c.fail(pre+name+":accessor-missing(does-not-compile)",std::string(name)+": no such accessor","accessor exists"); return; }
	if(r==-1){ c.fail(pre+std::to_string(N)+"-letter:read-does-not-compile",std::string(name)+": conversion of the swizzle proxy to vec"+std::to_string(N)+" is missing or ill-formed","vec"+std::to_string(N)); return; }
	T want[4]; for(int i=0;i<N;i++) want[i]=src[idx[i]];
	if(r!=N || memcmp(out,want,N*sizeof(T))!=0)
		c.fail(pre+std::to_string(N)+"-letter:read:wrong-component",std::string(name)+" of "+showv(src,L)+" = "+showv(out,r>0?r:0),showv(want,N));
}

#if C17_FORM==2
template<class T> static void apply(int kind,T& e,T t){
	if constexpr(std::is_same<T,bool>::value){ e=t; }
	else switch(kind){ case K_SET: case K_ALIAS_SET: e=t; break; case K_ADD: case K_ALIAS_ADD: e+=t; break; case K_SUB: case K_ALIAS_SUB: e-=t; break;
		case K_MUL: case K_ALIAS_MUL: e*=t; break; case K_DIV: case K_ALIAS_DIV: e/=t; break; default: e=t; }
}
template<class T,class V> static void check_write_T(const In& in,vf::Ctx& c){
	constexpr int L=VT<V>::len; const int Q=(in.code>>4)&15; const int kind=(in.code>>8)&255;
	std::string pre=std::string(qname(Q))+":vec"+std::to_string(L)+":";
	if(in.id>=C17_NNAMES){ c.fail("harness:bad-id","",""); return; }
	const char* name=c17_names[in.id]; int idx[4]; int N=c17_decode(name,idx);
	bool valid=N>0 && kind>=K_SET && kind<=K_SWZ_RHS; const bool alias= kind>=K_ALIAS_SET && kind<=K_ALIAS_DIV; for(int i=0;i<N;i++) if(idx[i]>=L) valid=false;
	if(valid && !c17_norepeat(idx,N)) valid=false;
	if(valid && alias && N!=L) valid=false;
	if(!valid){ c.fail("harness:case-not-valid",name,""); return; }
	T src[4],rhs[4]; for(int i=0;i<L;i++) src[i]=mk<T>(in.tag[i]); for(int i=0;i<4;i++) rhs[i]=mk<T>(in.rhs[i]);
	// expected, from the name: component idx[i] <- op(component idx[i], rhs[i]); everything else keeps its tag
	T want[4]; for(int i=0;i<L;i++) want[i]=src[i];
	if(kind==K_SCALAR){ for(int i=0;i<N;i++) want[idx[i]]=rhs[0]; }
	else if(alias){ for(int i=0;i<N;i++) apply<T>(kind,want[idx[i]],src[i]); }
	else { for(int i=0;i<N;i++) apply<T>(kind,want[idx[i]],rhs[i]); }
	Place<V> pl(false,src);
	unsigned char before[256]; memcpy(before,pl.buf,sizeof before);
	int r=wr<V>(*pl.p,(int)in.id,kind,rhs);
	c.cls(kind_name(kind));
	if(r==-2){ c.fail("harness:id-not-generated",name,""); return; }
	if(r==-1){ c.fail("harness:kind-not-applicable",name,""); return; }
	if(r==0){ c.fail(pre+name+":accessor-missing(does-not-compile)",std::string(name)+": no such accessor","accessor exists"); return; }
	if(r==-3){ c.fail(pre+std::to_string(N)+"-letter:write:non-repeating-swizzle-is-not-assignable(does-not-compile)",std::string(name)+": proxy has no operator=(vec"+std::to_string(N)+")","assignable (no letter repeats)"); return; }
	T got[4]; memcpy(got,(void*)pl.p,L*sizeof(T));
	std::string k=std::string(kind_name(kind));
	if(memcmp(got,want,L*sizeof(T))!=0){
		bool named[4]={false,false,false,false}; for(int i=0;i<N;i++) named[idx[i]]=true;
		bool other=false; for(int i=0;i<L;i++) if(!named[i] && memcmp(&got[i],&want[i],sizeof(T))!=0) other=true;
		c.fail(pre+(alias? std::string("full-permutation:right-hand-side-is-the-vector-itself"):std::to_string(N)+"-letter:"+k)+(other?":component-not-named-was-changed":":named-component-holds-wrong-value"),
			std::string(name)+" "+k+" "+(alias? std::string("itself"):showv(rhs,kind==K_SCALAR?1:N))+" on "+showv(src,L)+" -> "+showv(got,L),showv(want,L));
	}
	// bytes behind the object (behind the storage, i.e. sizeof(V)) must be untouched
	if(memcmp(before+sizeof(V),pl.buf+sizeof(V),sizeof before-sizeof(V))!=0)
		c.fail(pre+std::to_string(N)+"-letter:"+k+":wrote-past-the-object",std::string(name),"bytes behind the vector unchanged");
}
#endif

// dispatch run-time (L,Q) -> vector type
template<class T,template<class,class> class F> struct Disp {
	static void go(const In& in,vf::Ctx& c){
		const int L=in.code&15, Q=(in.code>>4)&15;
#if (C17_QMASK & 1)
		if(Q==0){
#if C17_FORM==3
			if(L==1){ F<T,glm::vec<1,T,glm::packed_highp> >::call(in,c); return; }
#endif
			if(L==2){ F<T,glm::vec<2,T,glm::packed_highp> >::call(in,c); return; }
			if(L==3){ F<T,glm::vec<3,T,glm::packed_highp> >::call(in,c); return; }
			if(L==4){ F<T,glm::vec<4,T,glm::packed_highp> >::call(in,c); return; }
		}
#endif
#if (C17_QMASK & 2)
		if(Q==1){
#if C17_FORM==3
			if(L==1){ F<T,glm::vec<1,T,glm::aligned_highp> >::call(in,c); return; }
#endif
			if(L==2){ F<T,glm::vec<2,T,glm::aligned_highp> >::call(in,c); return; }
			if(L==3){ F<T,glm::vec<3,T,glm::aligned_highp> >::call(in,c); return; }
			if(L==4){ F<T,glm::vec<4,T,glm::aligned_highp> >::call(in,c); return; }
		}
#endif
		c.fail("harness:bad-code","","");
	}
};
template<class T,class V> struct FRead { static void call(const In& in,vf::Ctx& c){ check_read_T<T,V>(in,c); } };
#if C17_FORM==2
template<class T,class V> struct FWrite { static void call(const In& in,vf::Ctx& c){ check_write_T<T,V>(in,c); } };
#endif

// ---------------------------------------------------------------- ops
#if C17_FORM==1
#	define DEF_T(T,TN) VF_OP(swz_fn_read_##TN, In, IN_FMT){ Disp<T,FRead>::go(in,c); }
#	define OPS_OF(TN) { &swz_fn_read_##TN, nullptr, nullptr }
#elif C17_FORM==2
#	define DEF_T(T,TN) VF_OP(swz_op_read_##TN, In, IN_FMT){ Disp<T,FRead>::go(in,c); } \
		VF_OP(swz_op_write_##TN, In, IN_FMT){ Disp<T,FWrite>::go(in,c); } \
		VF_OP(swz_op_selfassign_##TN, In, IN_FMT){ Disp<T,FWrite>::go(in,c); }
#	define OPS_OF(TN) { &swz_op_read_##TN, &swz_op_write_##TN, &swz_op_selfassign_##TN }
#else
#	define DEF_T(T,TN) VF_OP(swz_free_read_##TN, In, IN_FMT){ Disp<T,FRead>::go(in,c); }
#	define OPS_OF(TN) { &swz_free_read_##TN, nullptr, nullptr }
#endif
struct TypeOps { vf::Op* read; vf::Op* write; vf::Op* alias; int tcode; };
static std::vector<TypeOps> g_types;
#define REG_T(TN,TC) { vf::Op* o[3]=OPS_OF(TN); g_types.push_back(TypeOps{o[0],o[1],o[2],TC}); }
#if C17_TMASK & 1
DEF_T(float,f32)
#endif
#if C17_TMASK & 2
DEF_T(double,f64)
#endif
#if C17_TMASK & 4
DEF_T(int,i32)
#endif
#if C17_TMASK & 8
DEF_T(glm::uint,u32)
#endif
#if C17_TMASK & 16
DEF_T(glm::int8,i8)
#endif
#if C17_TMASK & 32
DEF_T(bool,b)
#endif

// ---------------------------------------------------------------- workload
// tag assignments (every component distinct; small so that every element type holds them; assignment 1 has negative and
// fractional values; assignment 2 is drawn from the seed).  For bool vectors the assignments are bit patterns instead.
struct TagSet { double t[4]; double r[4]; };
static std::vector<TagSet> tagsets(int tcode){
	std::vector<TagSet> v;
	if(tcode==32){ // bool: each pair of components differs in some assignment
		for(int k=0;k<4;k++){ TagSet s; for(int i=0;i<4;i++){ s.t[i]=(double)(((i+1)>>(k%3))&1); s.r[i]=(double)(((i+2+k)>>1)&1); } if(k==3) for(int i=0;i<4;i++){ s.t[i]=(double)(i&1); s.r[i]=(double)((i+1)&1);} v.push_back(s); }
		return v;
	}
	v.push_back(TagSet{{2,3,5,7},{11,13,17,19}});
	v.push_back(TagSet{{-1.5,2.75,-3.25,4.5},{6.5,-7.25,8.75,-9.5}});
	vf::Rng g(vf::cfg().seed*0x9e3779b97f4a7c15ULL^0xC17);
	TagSet s; int used[64]={0};
	for(int i=0;i<8;i++){ int m; do{ m=1+(int)g.below(30);}while(used[m]); used[m]=1; double x=(double)m+0.25*(double)g.below(4); if(g.coin()) x=-x; (i<4? s.t[i]:s.r[i-4])=x; }
	v.push_back(s);
	return v;
}

struct Case { u32 id; u32 code; };
static void build_cases(std::vector<Case>& rd_cases,std::vector<Case>& wr_cases,std::vector<Case>& al_cases){
	for(int Q=0;Q<2;Q++){ if(!((C17_QMASK>>Q)&1)) continue;
		for(int L=(C17_FORM==3?1:2);L<=4;L++){
			for(u32 id=0;id<C17_NNAMES;id++){
				int idx[4]; int N=c17_decode(c17_names[id],idx); bool ok=N>0; for(int i=0;i<N;i++) if(idx[i]>=L) ok=false; if(!ok) continue;
				if(C17_FORM==3 && !strchr("xyzw",c17_names[id][0])) continue;
				if(!((C17_SMASK>>(id/336))&1)) continue;
				rd_cases.push_back(Case{id,mkcode(L,Q,K_READ,0)});
				rd_cases.push_back(Case{id,mkcode(L,Q,K_READ,1)});
				if(C17_FORM==2 && c17_norepeat(idx,N)){
					for(int k=K_SET;k<=K_SCALAR;k++) wr_cases.push_back(Case{id,mkcode(L,Q,k,0)}); wr_cases.push_back(Case{id,mkcode(L,Q,K_SWZ_RHS,0)});
					if(N==L) for(int k=K_ALIAS_SET;k<=K_ALIAS_DIV;k++) al_cases.push_back(Case{id,mkcode(L,Q,k,0)});
				}
			}
		}
	}
}

static void run_cases(const char* label,vf::Op* op,int tcode,const std::vector<Case>& cases,bool heap_only,bool noheap){
	if(!op || !vf::want(*op)) return;
	std::vector<TagSet> ts=tagsets(tcode);
	std::vector<Case> sel; for(const Case& k: cases){ bool h=(k.code>>16)&1; if(heap_only&&!h) continue; if(noheap&&h) continue; if(tcode==32 && ((k.code>>8)&255)>=K_ADD && ((k.code>>8)&255)<=K_DIV) continue; if(tcode==32 && ((k.code>>8)&255)>=K_ALIAS_ADD) continue; sel.push_back(k); }
	u64 total=(u64)sel.size()*ts.size();
	vf::sweep(label,total,64,[&](vf::Ctx& c,u64 lo,u64 hi){ for(u64 i=lo;i<hi;i++){ const Case& k=sel[i/ts.size()]; const TagSet& t=ts[i%ts.size()]; In in; memcpy(in.tag,t.t,sizeof in.tag); memcpy(in.rhs,t.r,sizeof in.rhs); in.id=k.id; in.code=k.code; vf::run(c,*op,in); } });
}

#if defined(VF_SAN)
// sanitizer build: the reads of exactly-sized heap objects of one (type, qualifier, length, word length) class are first made in a
// forked child (an ASan report ends the child, the breadcrumb line reaches the sanitizer log); only if the child survives does the
// parent evaluate and count them, otherwise it records one evaluation flagged `child died`.
static void run_heap_guarded(const char* label,vf::Op* op,int tcode,const std::vector<Case>& cases){
	if(!op || !vf::want(*op)) return;
	std::vector<TagSet> ts=tagsets(tcode);
	vf::Ctx c; c.enum_mode=true;
	std::map<u32,std::vector<Case> > groups;
	for(const Case& k: cases) if((k.code>>16)&1){ int idx[4]; int N=c17_decode(c17_names[k.id],idx); groups[(k.code&0xff)|((u32)N<<8)].push_back(k); }
	for(auto& g: groups){
		fflush(stdout); fflush(stderr);
		pid_t pid=fork();
		if(pid==0){
			for(const Case& k: g.second){ In in; memcpy(in.tag,ts[0].t,sizeof in.tag); memcpy(in.rhs,ts[0].r,sizeof in.rhs); in.id=k.id; in.code=k.code; vf::Ctx cc; vf::g_crumb.op=op; vf::g_crumb.in=&in; op->fn(&in,cc); }
			_exit(0);
		}
		int st=0; bool ok=false; if(pid>0 && waitpid(pid,&st,0)==pid && WIFEXITED(st) && WEXITSTATUS(st)==0) ok=true;
		if(ok){ for(const Case& k: g.second) for(const TagSet& t: ts){ In in; memcpy(in.tag,t.t,sizeof in.tag); memcpy(in.rhs,t.r,sizeof in.rhs); in.id=k.id; in.code=k.code; vf::run(c,*op,in); } }
		else { const Case& k=g.second[0]; In in; memcpy(in.tag,ts[0].t,sizeof in.tag); memcpy(in.rhs,ts[0].r,sizeof in.rhs); in.id=k.id; in.code=k.code|(1u<<17); vf::run(c,*op,in); }
	}
	vf::merge(c);
}
#endif

static void workload(){
#if C17_TMASK & 1
	REG_T(f32,1)
#endif
#if C17_TMASK & 2
	REG_T(f64,2)
#endif
#if C17_TMASK & 4
	REG_T(i32,4)
#endif
#if C17_TMASK & 8
	REG_T(u32,8)
#endif
#if C17_TMASK & 16
	REG_T(i8,16)
#endif
#if C17_TMASK & 32
	REG_T(b,32)
#endif
	std::vector<Case> rdc,wrc,alc; build_cases(rdc,wrc,alc);
	vf::note("names",std::to_string(C17_NNAMES)); vf::note("read_cases_per_type",std::to_string(rdc.size())); vf::note("write_cases_per_type",std::to_string(wrc.size())); vf::note("selfassign_cases_per_type",std::to_string(alc.size()));
	for(const TypeOps& t: g_types){
#if defined(VF_SAN)
		run_cases("read",t.read,t.tcode,rdc,false,true);
		run_heap_guarded("read-heap",t.read,t.tcode,rdc);
#else
		run_cases("read",t.read,t.tcode,rdc,false,false);
#endif
		run_cases("write",t.write,t.tcode,wrc,false,false);
		run_cases("alias",t.alias,t.tcode,alc,false,false);
	}
}
VF_MAIN("C17_swizzle")
