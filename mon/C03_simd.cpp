// C03 — SIMD-intrinsic (aligned) types return what the pure C++ path returns.
// Built with -DGLM_FORCE_INTRINSICS -m<isa>: every operation is evaluated twice in the same process on bit-identical
// inputs — once on aligned-qualified types (the SIMD specialisations) and once on packed_highp types (the generic C++
// code, which is what GLM_FORCE_PURE compiles for every type) — and compared under the class the statement gives.
// A second, independent observer (offline, see fw/props/C03.py) compares digests of the packed results with a real
// GLM_FORCE_PURE build of this same file.
#ifndef C03_AQ
#define C03_AQ aligned_highp
#endif
#include "vf.hpp"
#include "ref.hpp"
#include <glm/glm.hpp>
#include <glm/gtc/quaternion.hpp>
#include <glm/gtc/type_aligned.hpp>
#include <glm/ext/vector_common.hpp>
#include <glm/ext/scalar_common.hpp>
#include <new>
using namespace ref;

#ifdef C03_PURE_SIDE
static constexpr glm::qualifier AQ = glm::packed_highp;     // pure build: both sides packed (digest reference)
#else
static constexpr glm::qualifier AQ = glm::C03_AQ;
#endif
static constexpr glm::qualifier PQ = glm::packed_highp;
#define C03_STR2(x) #x
#define C03_STR(x) C03_STR2(x)
static const bool LOWP = std::string(C03_STR(C03_AQ)).find("lowp")!=std::string::npos;

template<class T> struct InV { T a[4]; T b[4]; T c[4]; T poison; u32 mode; };
template<class T> struct InM { T a[16]; T b[16]; T v[4]; T poison; u32 mode; };

// ---- construction: aligned vec3 objects get an adversarial hidden 4th lane when mode bit 0 is set -------------------
template<class T,int L,glm::qualifier Q> static inline glm::vec<L,T,Q> mk(const T* p,u32 mode,T poison){
	typedef glm::vec<L,T,Q> V;
	if(L==3 && (mode&1) && sizeof(V)>3*sizeof(T)){
		alignas(64) unsigned char buf[sizeof(V)]; T* raw=reinterpret_cast<T*>(buf); for(size_t i=0;i<sizeof(V)/sizeof(T);i++) raw[i]=poison;
		V* v=new(buf) V; for(int i=0;i<L;i++) (*v)[i]=p[i]; V r=*v; return r;
	}
	V v; for(int i=0;i<L;i++) v[i]=p[i]; return v;
}
static inline std::string tag(int L,const char* what){ return std::string("vec")+std::to_string(L)+":"+what; }

// comparison classes
template<class T> static inline long double uu(){ return uround<T>(); }
template<class T> static inline bool bits_same(T a,T b){ return same(a,b); }
enum Cls { EXACT, EXACTZ, FORMULA };
template<class T> static inline bool agree(T a,T p,Cls k,long double S,vf::Ctx& c,const char* rn){
	if(same(a,p)) return true;
	if constexpr(std::is_floating_point<T>::value){
		// 'identical values': +0 and -0 are the same value; a zero-sign difference is counted as an observation, not a violation (DESIGN Corrections)
		if(a==0 && p==0){ c.cls("observed:zero-sign-differs-from-pure"); return true; }
		if(k==FORMULA || (LOWP && k!=EXACTZ && S>0)){
			if(!isfinite_b(a)||!isfinite_b(p)) return false;
			long double err=fabsl((long double)a-(long double)p), bound= (k==FORMULA? 8*uu<T>()*S : 0)+2*ulp((T)0);
			if(LOWP && sizeof(T)==4){ /* up to three hardware approximations (rcp, rsqrt) may be composed in one lowp result */ long double ap=3*std::ldexp(1.0L,-11)*std::max(S,fabsl((long double)p)); if(ap>bound) bound=ap; }
			if(rn) c.ratio(rn,(double)(err/bound)); return err<=bound; }
	}
	return false;
}

template<class R,class T> static inline const char* vclass(R a,R p,T x,int na){
	if constexpr(std::is_floating_point<R>::value){ if(isnan_b(a)!=isnan_b(p)) return "component:nan-mismatch"; if(!isfinite_b(a)||!isfinite_b(p)) return "component:inf-mismatch"; }
	if constexpr(std::is_floating_point<T>::value){ if(na==1){ long double ax=fabsl((long double)x); if(ax>=std::ldexp(1.0L,fp<T>::MANT)) return "unary:|x|>=2^mantissa-bits:value-differs"; if(ax-floorl(ax)==0.5L) return "unary:tie(x.5):value-differs"; if(!isfinite_b(x)) return "unary:non-finite-input:value-differs"; } }
	return "component:value-differs"; }
// generic vector op: f applied to aligned operands and to packed operands, per-component comparison
template<class T,int NA,int MAXL=4,class F,class SC> static inline void vop(const InV<T>& in,vf::Ctx& c,F f,Cls k,SC scale,const char* rn=nullptr){
	auto one=[&](auto Lc){ constexpr int L=decltype(Lc)::value;
		auto A=f(mk<T,L,AQ>(in.a,in.mode,in.poison),mk<T,L,AQ>(in.b,in.mode>>1,in.poison),mk<T,L,AQ>(in.c,in.mode>>2,in.poison));
		auto P=f(mk<T,L,PQ>(in.a,0,in.poison),mk<T,L,PQ>(in.b,0,in.poison),mk<T,L,PQ>(in.c,0,in.poison));
		if constexpr(std::is_arithmetic<decltype(A)>::value){ long double S=scale(in,0,L); if(!agree(A,P,k,S,c,rn)) c.fail(tag(L,k==FORMULA?"scalar-result:beyond-rounding-of-largest-term":"scalar-result:not-identical"),A,P); }
		else for(int i=0;i<L;i++){ long double S=scale(in,i,L); auto a=A[i]; auto p=P[i]; if(!agree(a,p,k,S,c,rn)) c.fail(tag(L,k==FORMULA?"component:beyond-rounding-of-largest-term":vclass(a,p,in.a[i],NA)),vf::show(a)+" (component "+std::to_string(i)+", aligned)",vf::show(p)+" (packed/pure)"); }
	};
	one(std::integral_constant<int,1>()); one(std::integral_constant<int,2>()); one(std::integral_constant<int,3>()); if constexpr(MAXL>=4) one(std::integral_constant<int,4>());
}
struct NoScale { template<class I> long double operator()(const I&,int,int) const { return 0; } };
// S for lowp hardware-reciprocal results: magnitude of the exact quotient
struct DivScale { template<class I> long double operator()(const I& in,int i,int) const { return fabsl((long double)in.a[i]/(long double)in.b[i]); } };

#define F12_f "ffffffffffff" "fu"
#define F12_d "dddddddddddd" "du"
#define F12_i "iiiiiiiiiiii" "iu"
#define F12_u "uuuuuuuuuuuu" "uu"
#define VOPL(NAME,T,TN,FMT,NA,EXPR,K,SCALE,RN,MAXL) VF_OP(NAME##_##TN, InV<T>, FMT){ vop<T,NA,MAXL>(in,c,[](auto const& a_,auto const& b_,auto const& c_){ return EXPR; },K,SCALE,RN); }
#define VOP(NAME,T,TN,FMT,NA,EXPR,K,SCALE,RN) VF_OP(NAME##_##TN, InV<T>, FMT){ vop<T,NA>(in,c,[](auto const& a_,auto const& b_,auto const& c_){ return EXPR; },K,SCALE,RN); }
// helpers to name the operands inside EXPR
#define A_ a_
#define B_ b_
#define C_ c_

// ---------------------------------------------------------------- operators
// aligned ivec4/uvec4 min/max/clamp use SSE4.1 intrinsics unconditionally: below -msse4.1 they do not compile (not instantiable), lengths 1-3 only there
#if defined(__SSE4_1__) || defined(C03_PURE_SIDE)
#define IMM(T) 4
#else
#define IMM(T) (std::is_integral<T>::value?3:4)
#endif
#define ARITH(T,TN,FMT) \
	VOP(op_add,T,TN,FMT,2,A_+B_,EXACT,NoScale(),nullptr) VOP(op_sub,T,TN,FMT,2,A_-B_,EXACT,NoScale(),nullptr) VOP(op_mul,T,TN,FMT,2,A_*B_,EXACT,NoScale(),nullptr) \
	VOP(op_neg,T,TN,FMT,1,-A_,EXACT,NoScale(),nullptr) VOP(op_add_scalar,T,TN,FMT,2,A_+B_.x,EXACT,NoScale(),nullptr) VOP(op_mul_scalar,T,TN,FMT,2,A_*B_.x,EXACT,NoScale(),nullptr) VOP(op_scalar_sub,T,TN,FMT,2,B_.x-A_,EXACT,NoScale(),nullptr) \
	VOP(op_eq,T,TN,FMT,2,(int)(A_==B_),EXACT,NoScale(),nullptr) VOP(op_ne,T,TN,FMT,2,(int)(A_!=B_),EXACT,NoScale(),nullptr) \
	VOPL(fn_min,T,TN,FMT,2,glm::min(A_,B_),EXACT,NoScale(),nullptr,IMM(T)) VOPL(fn_max,T,TN,FMT,2,glm::max(A_,B_),EXACT,NoScale(),nullptr,IMM(T)) VOPL(fn_clamp,T,TN,FMT,3,glm::clamp(A_,B_,C_),EXACT,NoScale(),nullptr,IMM(T)) VOP(fn_abs,T,TN,FMT,1,glm::abs(A_),EXACT,NoScale(),nullptr)
ARITH(float,f32,F12_f) ARITH(double,f64,F12_d) ARITH(i32,i32,F12_i) ARITH(u32,u32,F12_u)
VOP(op_div,float,f32,F12_f,2,A_/B_,EXACT,DivScale(),"lowp-div-err/bound") VOP(op_div_scalar,float,f32,F12_f,2,A_/B_.x,EXACT,([](const InV<float>& in,int i,int){ return fabsl((long double)in.a[i]/(long double)in.b[0]); }),"lowp-div-err/bound")
VOP(op_div,double,f64,F12_d,2,A_/B_,EXACT,NoScale(),nullptr)
VOP(op_div,i32,i32,F12_i,2,A_/B_,EXACT,NoScale(),nullptr) VOP(op_div,u32,u32,F12_u,2,A_/B_,EXACT,NoScale(),nullptr) VOP(op_mod,i32,i32,F12_i,2,A_%B_,EXACT,NoScale(),nullptr) VOP(op_mod,u32,u32,F12_u,2,A_%B_,EXACT,NoScale(),nullptr)
#define BITS(T,TN,FMT) VOP(op_and,T,TN,FMT,2,A_&B_,EXACT,NoScale(),nullptr) VOP(op_or,T,TN,FMT,2,A_|B_,EXACT,NoScale(),nullptr) VOP(op_xor,T,TN,FMT,2,A_^B_,EXACT,NoScale(),nullptr) VOP(op_not,T,TN,FMT,1,~A_,EXACT,NoScale(),nullptr) \
	VOP(op_shl,T,TN,FMT,2,A_<<B_,EXACT,NoScale(),nullptr) VOP(op_shr,T,TN,FMT,2,A_>>B_,EXACT,NoScale(),nullptr) VOP(op_shl_scalar,T,TN,FMT,2,A_<<B_.x,EXACT,NoScale(),nullptr) VOP(op_shr_scalar,T,TN,FMT,2,A_>>B_.x,EXACT,NoScale(),nullptr) \
	VOPL(fn_bitCount,T,TN,FMT,1,glm::bitCount(A_),EXACT,NoScale(),nullptr,3) VOP(fn_findLSB,T,TN,FMT,1,glm::findLSB(A_),EXACT,NoScale(),nullptr) VOPL(fn_findMSB,T,TN,FMT,1,glm::findMSB(A_),EXACT,NoScale(),nullptr,3)
BITS(i32,i32,F12_i) BITS(u32,u32,F12_u)
// aligned uvec4 bitCount/bitfieldReverse/findMSB: the SSE2 specialisations in func_integer_simd.inl do not compile (not instantiable): lengths 1-3 only
VOPL(fn_bitfieldReverse,u32,u32,F12_u,1,glm::bitfieldReverse(A_),EXACT,NoScale(),nullptr,3)
VOP(fn_sign,i32,i32,F12_i,1,glm::sign(A_),EXACT,NoScale(),nullptr)

// ---------------------------------------------------------------- common functions (float, double)
struct MixScale { template<class I> long double operator()(const I& in,int i,int) const { long double x=in.a[i],y=in.b[i],a=in.c[i]; return fabsl(x*(1-a))+fabsl(y*a)+fabsl(x)+fabsl(x*a); } };
struct ModScale { template<class I> long double operator()(const I& in,int i,int) const { return 2*fabsl((long double)in.a[i])+fabsl((long double)in.b[i]); } };
struct FmaScale { template<class I> long double operator()(const I& in,int i,int) const { return fabsl((long double)in.a[i]*in.b[i])+fabsl((long double)in.c[i]); } };
struct One { template<class I> long double operator()(const I&,int,int) const { return 1; } };
#define COMMON(T,TN,FMT) \
	VOP(fn_floor,T,TN,FMT,1,glm::floor(A_),EXACT,NoScale(),nullptr) VOP(fn_ceil,T,TN,FMT,1,glm::ceil(A_),EXACT,NoScale(),nullptr) VOP(fn_round,T,TN,FMT,1,glm::round(A_),EXACT,NoScale(),nullptr) VOP(fn_trunc,T,TN,FMT,1,glm::trunc(A_),EXACT,NoScale(),nullptr) \
	VOP(fn_fract,T,TN,FMT,1,glm::fract(A_),EXACT,NoScale(),nullptr) VOP(fn_sign,T,TN,FMT,1,glm::sign(A_),EXACT,NoScale(),nullptr) VOP(fn_sqrt,T,TN,FMT,1,glm::sqrt(A_),EXACT,([](const InV<T>& in,int i,int){ return sqrtl(fabsl((long double)in.a[i])); }),"lowp-sqrt-err/bound") \
	VOP(fn_inversesqrt,T,TN,FMT,1,glm::inversesqrt(A_),EXACT,([](const InV<T>& in,int i,int){ return 1/sqrtl(fabsl((long double)in.a[i])); }),"lowp-rsqrt-err/bound") \
	VOP(fn_step,T,TN,FMT,2,glm::step(A_,B_),EXACT,NoScale(),nullptr) VOP(fn_mod,T,TN,FMT,2,glm::mod(A_,B_),FORMULA,ModScale(),"mod-err/bound") \
	VOP(fn_mix,T,TN,FMT,3,glm::mix(A_,B_,C_),FORMULA,MixScale(),"mix-err/bound") VOP(fn_smoothstep,T,TN,FMT,3,glm::smoothstep(A_,B_,C_),FORMULA,One(),"smoothstep-err/bound") VOP(fn_fma,T,TN,FMT,3,glm::fma(A_,B_,C_),FORMULA,FmaScale(),"fma-err/bound") \
	VOP(fn_mix_bool,T,TN,FMT,3,glm::mix(A_,B_,glm::lessThan(C_,std::decay_t<decltype(c_)>(0))),EXACT,NoScale(),nullptr) VOP(fn_isnan,T,TN,FMT,1,glm::isnan(A_),EXACT,NoScale(),nullptr) \
	VOP(rel_lessThan,T,TN,FMT,2,glm::lessThan(A_,B_),EXACT,NoScale(),nullptr) VOP(rel_equal,T,TN,FMT,2,glm::equal(A_,B_),EXACT,NoScale(),nullptr)
COMMON(float,f32,F12_f) COMMON(double,f64,F12_d)

// ---------------------------------------------------------------- geometric
struct DotScale { template<class I> long double operator()(const I& in,int,int L) const { long double s=0; for(int k=0;k<L;k++) s+=fabsl((long double)in.a[k]*in.b[k]); return s; } };
struct LenScale { template<class I> long double operator()(const I& in,int,int L) const { long double s=0; for(int k=0;k<L;k++) s+=(long double)in.a[k]*in.a[k]; return sqrtl(s); } };
struct DistScale { template<class I> long double operator()(const I& in,int,int L) const { long double s=0,m=0; for(int k=0;k<L;k++){ long double d=(long double)in.a[k]-in.b[k]; s+=d*d; m=std::max(m,std::max(fabsl((long double)in.a[k]),fabsl((long double)in.b[k]))); } return sqrtl(s)+m; } };
struct ReflScale { template<class I> long double operator()(const I& in,int i,int L) const { long double s=0; for(int k=0;k<L;k++) s+=fabsl((long double)in.a[k]*in.b[k]); return fabsl((long double)in.a[i])+4*s*fabsl((long double)in.b[i]); } };
struct RefrScale { template<class I> long double operator()(const I& in,int i,int L) const { long double s=0; for(int k=0;k<L;k++) s+=fabsl((long double)in.a[k]*in.b[k]); long double eta=fabsl((long double)in.c[0]); return 4*(eta*fabsl((long double)in.a[i])+(eta*s+1+eta)*fabsl((long double)in.b[i]))*(1+eta*eta*(1+s*s)); } };
#define GEOM(T,TN,FMT) \
	VOP(geo_dot,T,TN,FMT,2,glm::dot(A_,B_),FORMULA,DotScale(),"dot-err/bound") VOP(geo_length,T,TN,FMT,1,glm::length(A_),FORMULA,LenScale(),"length-err/bound") VOP(geo_distance,T,TN,FMT,2,glm::distance(A_,B_),FORMULA,DistScale(),"distance-err/bound") \
	VOP(geo_normalize,T,TN,FMT,1,glm::normalize(A_),FORMULA,One(),"normalize-err/bound") VOP(geo_reflect,T,TN,FMT,2,glm::reflect(A_,B_),FORMULA,ReflScale(),"reflect-err/bound")

GEOM(float,f32,F12_f) GEOM(double,f64,F12_d)
// faceforward: the sign decision on dot(Nref,I) must be the same in both builds unless the dot product is within the rounding error of
// its largest term of zero (the two builds may sum the products in a different order); the returned vector is N or -N exactly
template<class T> static void chk_faceforward(const InV<T>& in,vf::Ctx& c){
	auto one=[&](auto Lc){ constexpr int L=decltype(Lc)::value;
		auto A=glm::faceforward(mk<T,L,AQ>(in.a,in.mode,in.poison),mk<T,L,AQ>(in.b,in.mode>>1,in.poison),mk<T,L,AQ>(in.c,in.mode>>2,in.poison)); auto P=glm::faceforward(mk<T,L,PQ>(in.a,0,in.poison),mk<T,L,PQ>(in.b,0,in.poison),mk<T,L,PQ>(in.c,0,in.poison));
		long double d=0,S=0; for(int k=0;k<L;k++){ d+=(long double)in.c[k]*in.b[k]; S+=fabsl((long double)in.c[k]*in.b[k]); }
		bool same_all=true; for(int i=0;i<L;i++) if(!agree(A[i],P[i],EXACT,0,c,nullptr)) same_all=false;
		if(d==0 && S==0) c.cls("dot==0-exactly(all-products-zero)"); else if(fabsl(d)<=8*uu<T>()*S+2*ulp((T)0)){ c.cls("dot~0:sign-within-rounding-of-largest-term:either-branch-accepted"); bool neg=true,pos=true; for(int i=0;i<L;i++){ if(!agree(A[i],(T)(-P[i]),EXACT,0,c,nullptr)) neg=false; } (void)pos; if(!same_all && !neg) c.fail(tag(L,"faceforward:dot~0:result-is-neither-N-nor-minus-N"),A[0],P[0]); return; } else c.cls(d<0?"dot<0":"dot>0");
		if(!same_all) for(int i=0;i<L;i++) if(!agree(A[i],P[i],EXACT,0,c,nullptr)){ c.fail(tag(L,"faceforward:branch-differs-from-pure"),vf::show(A[i])+" (component "+std::to_string(i)+", aligned)",vf::show(P[i])+" (pure)"); break; } };
	one(std::integral_constant<int,1>()); one(std::integral_constant<int,2>()); one(std::integral_constant<int,3>()); one(std::integral_constant<int,4>());
}
VF_OP(geo_faceforward_f32, InV<float>, F12_f){ chk_faceforward<float>(in,c); }
VF_OP(geo_faceforward_f64, InV<double>, F12_d){ chk_faceforward<double>(in,c); }
// refract: zero-ness (total internal reflection) must agree unless k is within rounding of 0; values FORMULA
template<class T> static void chk_refract(const InV<T>& in,vf::Ctx& c){
	auto one=[&](auto Lc){ constexpr int L=decltype(Lc)::value; T eta=in.c[0];
		auto A=glm::refract(mk<T,L,AQ>(in.a,in.mode,in.poison),mk<T,L,AQ>(in.b,in.mode>>1,in.poison),eta); auto P=glm::refract(mk<T,L,PQ>(in.a,0,in.poison),mk<T,L,PQ>(in.b,0,in.poison),eta);
		long double d=0,sabs=0; for(int k=0;k<L;k++){ d+=(long double)in.b[k]*in.a[k]; sabs+=fabsl((long double)in.b[k]*in.a[k]); } long double k=1-(long double)eta*eta*(1-d*d); long double kerr=16*uu<T>()*(1+(long double)eta*eta*(1+sabs*sabs));
		bool az=true,pz=true; for(int i=0;i<L;i++){ az=az&&(A[i]==0); pz=pz&&(P[i]==0); }
		// at most one non-zero product: dot(N,I) is that one rounded product in both builds whatever the summation order, and k = 1 - eta*eta*(1 - d*d)
		// is the same sequence of correctly rounded operations in both -> the decision has nothing to differ by, however close k is to 0
		int nzp=0; for(int q=0;q<L;q++) if(in.a[q]!=0 && in.b[q]!=0) nzp++;
		if(nzp<=1){ c.cls(fabsl(k)<=kerr? "dot-exact-in-both-builds:k~0":"dot-exact-in-both-builds");
			if(az!=pz){ c.fail(tag(L,"refract:dot-exact-in-both-builds:total-internal-reflection-decision-differs-from-pure"),az?"zero vector (aligned)":"non-zero (aligned)",pz?"zero vector (pure)":"non-zero (pure)"); return; }
			if(az) return;
			for(int i=0;i<L;i++){ long double S=RefrScale()(in,i,L); if(!agree(A[i],P[i],FORMULA,S,c,"refract-exact-dot-err/bound")) c.fail(tag(L,"refract:dot-exact-in-both-builds:component:beyond-rounding-of-largest-term"),A[i],P[i]); }
			return; }
		if(fabsl(k)<=kerr){ c.cls("k~0:either-branch-accepted"); return; }
		c.cls(k<0?"total-internal-reflection":"refraction");
		if(az!=pz){ c.fail(tag(L,k<0?"refract:total-internal-reflection:branch-differs-from-pure":"refract:valid-refraction:branch-differs-from-pure"),az?"zero vector (aligned)":"non-zero (aligned)",pz?"zero vector (pure)":"non-zero (pure)"); return; }
		if(k<0) return;
		for(int i=0;i<L;i++){ long double S=RefrScale()(in,i,L)/sqrtl(std::max(k,kerr)); if(!agree(A[i],P[i],FORMULA,S,c,"refract-err/bound")) c.fail(tag(L,"refract:component:beyond-rounding-of-largest-term"),A[i],P[i]); } };
	one(std::integral_constant<int,2>()); one(std::integral_constant<int,3>()); one(std::integral_constant<int,4>());
}
VF_OP(geo_refract_f32, InV<float>, F12_f){ chk_refract<float>(in,c); }
VF_OP(geo_refract_f64, InV<double>, F12_d){ chk_refract<double>(in,c); }
template<class T> static void chk_cross(const InV<T>& in,vf::Ctx& c){
	auto A=glm::cross(mk<T,3,AQ>(in.a,in.mode,in.poison),mk<T,3,AQ>(in.b,in.mode>>1,in.poison)); auto P=glm::cross(mk<T,3,PQ>(in.a,0,in.poison),mk<T,3,PQ>(in.b,0,in.poison));
	for(int i=0;i<3;i++){ int j=(i+1)%3,k=(i+2)%3; long double S=fabsl((long double)in.a[j]*in.b[k])+fabsl((long double)in.a[k]*in.b[j]); if(!agree(A[i],P[i],FORMULA,S,c,"cross-err/bound")) c.fail("vec3:cross:component:beyond-rounding-of-largest-term",A[i],P[i]); }
}
VF_OP(geo_cross_f32, InV<float>, F12_f){ chk_cross<float>(in,c); }
VF_OP(geo_cross_f64, InV<double>, F12_d){ chk_cross<double>(in,c); }

// ---------------------------------------------------------------- conversions between aligned and packed, swizzle-free accessors
template<class T> static void chk_conv(const InV<T>& in,vf::Ctx& c){
	auto one=[&](auto Lc){ constexpr int L=decltype(Lc)::value; auto A=mk<T,L,AQ>(in.a,in.mode,in.poison); glm::vec<L,T,PQ> P(A); glm::vec<L,T,AQ> B(P);
		for(int i=0;i<L;i++){ if(!same(P[i],in.a[i])) c.fail(tag(L,"aligned->packed:component-changed"),P[i],in.a[i]); if(!same(B[i],in.a[i])) c.fail(tag(L,"packed->aligned:component-changed"),B[i],in.a[i]); }
		glm::vec<L,T,AQ> S1(in.a[0]); for(int i=0;i<L;i++) if(!same(S1[i],in.a[0])) c.fail(tag(L,"scalar-broadcast-ctor:component-wrong"),S1[i],in.a[0]);
		if constexpr(L==4){ glm::vec<3,T,AQ> t(A); glm::vec<4,T,AQ> e(t,in.b[0]); for(int i=0;i<3;i++) if(!same(e[i],in.a[i])) c.fail("vec4(vec3,s):component-wrong",e[i],in.a[i]); if(!same(e[3],in.b[0])) c.fail("vec4(vec3,s):w-wrong",e[3],in.b[0]);
			glm::vec<2,T,AQ> h(A); glm::vec<4,T,AQ> g(h,glm::vec<2,T,AQ>(in.b[0],in.b[1])); if(!same(g[0],in.a[0])||!same(g[1],in.a[1])||!same(g[2],in.b[0])||!same(g[3],in.b[1])) c.fail("vec4(vec2,vec2):component-wrong",g[2],in.b[0]); }
		if constexpr(std::is_same<T,float>::value){ bool inr=true; for(int i=0;i<L;i++) if(!(std::fabs(in.a[i])<2147483000.0f)) inr=false; /* out-of-range float->int conversion is outside every documented domain */ if(inr){ glm::vec<L,int,AQ> iv(A); glm::vec<L,int,PQ> ip(mk<T,L,PQ>(in.a,0,in.poison)); for(int i=0;i<L;i++) if(iv[i]!=ip[i]) c.fail(tag(L,"float->int conversion:differs-from-pure"),iv[i],ip[i]); } }
		if constexpr((std::is_same<T,i32>::value||std::is_same<T,u32>::value) && L>=2){ // float vector built from L integer scalars (values up to the full range of T)
			glm::vec<L,float,AQ> sv; glm::vec<L,float,PQ> sp;
			if constexpr(L==2){ sv=glm::vec<2,float,AQ>(in.a[0],in.a[1]); sp=glm::vec<2,float,PQ>(in.a[0],in.a[1]); } else if constexpr(L==3){ sv=glm::vec<3,float,AQ>(in.a[0],in.a[1],in.a[2]); sp=glm::vec<3,float,PQ>(in.a[0],in.a[1],in.a[2]); } else { sv=glm::vec<4,float,AQ>(in.a[0],in.a[1],in.a[2],in.a[3]); sp=glm::vec<4,float,PQ>(in.a[0],in.a[1],in.a[2],in.a[3]); }
			for(int i=0;i<L;i++){ if(!same(sv[i],sp[i])) c.fail(tag(L,"float-vector(int scalars...):differs-from-pure"),sv[i],sp[i]); if(!same(sv[i],(float)in.a[i])) c.fail(tag(L,"float-vector(int scalars...):component-is-not-static_cast<float>(argument)"),sv[i],(float)in.a[i]); } }
		if constexpr(std::is_same<T,i32>::value||std::is_same<T,u32>::value){ glm::vec<L,float,AQ> fv(A); glm::vec<L,float,PQ> fp(mk<T,L,PQ>(in.a,0,in.poison)); for(int i=0;i<L;i++) if(!same(fv[i],fp[i])) c.fail(tag(L,"int->float conversion:differs-from-pure"),fv[i],fp[i]); }
	};
	one(std::integral_constant<int,1>()); one(std::integral_constant<int,2>()); one(std::integral_constant<int,3>()); one(std::integral_constant<int,4>());
}
VF_OP(conv_f32, InV<float>, F12_f){ chk_conv<float>(in,c); } VF_OP(conv_f64, InV<double>, F12_d){ chk_conv<double>(in,c); } VF_OP(conv_i32, InV<i32>, F12_i){ chk_conv<i32>(in,c); } VF_OP(conv_u32, InV<u32>, F12_u){ chk_conv<u32>(in,c); }

// ---------------------------------------------------------------- matrices
template<class T,int C,int R,glm::qualifier Q> static inline glm::mat<C,R,T,Q> mkm(const T* p){ glm::mat<C,R,T,Q> m; for(int i=0;i<C;i++) for(int j=0;j<R;j++) m[i][j]=p[i*4+j]; return m; }
template<class T,int N> static void chk_sq(const InM<T>& in,vf::Ctx& c){
	std::string tg="mat"+std::to_string(N)+":";
	auto A=mkm<T,N,N,AQ>(in.a), B=mkm<T,N,N,AQ>(in.b); auto PA=mkm<T,N,N,PQ>(in.a), PB=mkm<T,N,N,PQ>(in.b);
	auto va=mk<T,N,AQ>(in.v,in.mode,in.poison); auto vp=mk<T,N,PQ>(in.v,0,in.poison);
	{ auto X=A*B; auto Y=PA*PB; for(int i=0;i<N;i++) for(int j=0;j<N;j++){ long double S=0; for(int k=0;k<N;k++) S+=fabsl((long double)PA[k][j]*PB[i][k]); if(!agree(X[i][j],Y[i][j],FORMULA,S,c,"mat*mat-err/bound")) c.fail(tg+"mat*mat:element:beyond-rounding-of-largest-term",X[i][j],Y[i][j]); } }
	{ auto X=A*va; auto Y=PA*vp; for(int j=0;j<N;j++){ long double S=0; for(int k=0;k<N;k++) S+=fabsl((long double)PA[k][j]*in.v[k]); if(!agree(X[j],Y[j],FORMULA,S,c,"mat*vec-err/bound")) c.fail(tg+"mat*vec:component:beyond-rounding-of-largest-term",X[j],Y[j]); } }
	{ auto X=va*A; auto Y=vp*PA; for(int i=0;i<N;i++){ long double S=0; for(int k=0;k<N;k++) S+=fabsl((long double)PA[i][k]*in.v[k]); if(!agree(X[i],Y[i],FORMULA,S,c,"vec*mat-err/bound")) c.fail(tg+"vec*mat:component:beyond-rounding-of-largest-term",X[i],Y[i]); } }
	{ auto X=glm::transpose(A); auto Y=glm::transpose(PA); for(int i=0;i<N;i++) for(int j=0;j<N;j++) if(!same(X[i][j],Y[i][j])) c.fail(tg+"transpose:element:not-identical",X[i][j],Y[i][j]); }
	{ auto X=glm::matrixCompMult(A,B); auto Y=glm::matrixCompMult(PA,PB); for(int i=0;i<N;i++) for(int j=0;j<N;j++) if(!same(X[i][j],Y[i][j])) c.fail(tg+"matrixCompMult:element:not-identical",X[i][j],Y[i][j]); }
	{ auto X=glm::outerProduct(va,mk<T,N,AQ>(in.b,in.mode>>1,in.poison)); auto Y=glm::outerProduct(vp,mk<T,N,PQ>(in.b,0,in.poison)); for(int i=0;i<N;i++) for(int j=0;j<N;j++) if(!same(X[i][j],Y[i][j])) c.fail(tg+"outerProduct:element:not-identical",X[i][j],Y[i][j]); }
	{ auto X=A+B; auto Y=PA+PB; auto X2=A-B; auto Y2=PA-PB; auto X3=A*in.v[0]; auto Y3=PA*in.v[0]; for(int i=0;i<N;i++) for(int j=0;j<N;j++){ if(!same(X[i][j],Y[i][j])) c.fail(tg+"mat+mat:element:not-identical",X[i][j],Y[i][j]); if(!same(X2[i][j],Y2[i][j])) c.fail(tg+"mat-mat:element:not-identical",X2[i][j],Y2[i][j]); if(!same(X3[i][j],Y3[i][j])) c.fail(tg+"mat*scalar:element:not-identical",X3[i][j],Y3[i][j]); } }
	// determinant / inverse: bound = 8 u * (sum of absolute Leibniz terms) ; inverse entries: rounding of cofactor/det
	long double M[4][4]; for(int i=0;i<N;i++) for(int j=0;j<N;j++) M[i][j]=PA[i][j];
	auto minor_abs=[&](auto&& self,int n,long double (*m)[4],bool absv)->long double{ if(n==1) return absv? fabsl(m[0][0]): m[0][0]; long double s=0; for(int cc=0;cc<n;cc++){ long double sub[4][4]; for(int i=1;i<n;i++){ int k=0; for(int j=0;j<n;j++){ if(j==cc) continue; sub[i-1][k++]=m[i][j]; } } long double t=self(self,n-1,sub,absv); if(absv) s+=fabsl(m[0][cc])*t; else s+=((cc&1)?-1:1)*m[0][cc]*t; } return s; };
	long double det=minor_abs(minor_abs,N,M,false), Sdet=minor_abs(minor_abs,N,M,true);
	{ T X=glm::determinant(A), Y=glm::determinant(PA); if(!agree(X,Y,FORMULA,Sdet,c,"determinant-err/bound")) c.fail(tg+"determinant:beyond-rounding-of-largest-term",X,Y); }
	if(fabsl(det)>1e-3L*Sdet){ auto X=glm::inverse(A); auto Y=glm::inverse(PA); for(int i=0;i<N;i++) for(int j=0;j<N;j++){
			long double sub[4][4]; int r=0; for(int a=0;a<N;a++){ if(a==j) continue; int k=0; for(int b=0;b<N;b++){ if(b==i) continue; sub[r][k++]=M[a][b]; } r++; }
			long double SC= N>1? minor_abs(minor_abs,N-1,sub,true):1, Cf= N>1? fabsl(minor_abs(minor_abs,N-1,sub,false)):1; long double S=SC/fabsl(det)+Cf*Sdet/(det*det);
			if(!agree(X[i][j],Y[i][j],FORMULA,2*S,c,"inverse-err/bound")) c.fail(tg+"inverse:element:beyond-rounding-of-cofactor-scheme",X[i][j],Y[i][j]); } c.cls("invertible"); }
}
VF_OP(mat2_f32, InM<float>, "ffffffffffffffffffffffffffffffffffff" "fu"){ chk_sq<float,2>(in,c); }
VF_OP(mat3_f32, InM<float>, "ffffffffffffffffffffffffffffffffffff" "fu"){ chk_sq<float,3>(in,c); }
VF_OP(mat4_f32, InM<float>, "ffffffffffffffffffffffffffffffffffff" "fu"){ chk_sq<float,4>(in,c); }
VF_OP(mat3_f64, InM<double>, "dddddddddddddddddddddddddddddddddddd" "du"){ chk_sq<double,3>(in,c); }
VF_OP(mat4_f64, InM<double>, "dddddddddddddddddddddddddddddddddddd" "du"){ chk_sq<double,4>(in,c); }
template<class T,int C,int R,int K> static void chk_rect(const InM<T>& in,vf::Ctx& c){ // (C x R) * (K x C) -> K x R
	auto A=mkm<T,C,R,AQ>(in.a); auto B=mkm<T,K,C,AQ>(in.b); auto PA=mkm<T,C,R,PQ>(in.a); auto PB=mkm<T,K,C,PQ>(in.b); auto X=A*B; auto Y=PA*PB;
	for(int i=0;i<K;i++) for(int j=0;j<R;j++){ long double S=0; for(int k=0;k<C;k++) S+=fabsl((long double)PA[k][j]*PB[i][k]); if(!agree(X[i][j],Y[i][j],FORMULA,S,c,"mat*mat-err/bound")) c.fail("rect:mat*mat:element:beyond-rounding-of-largest-term",X[i][j],Y[i][j]); }
	auto va=mk<T,C,AQ>(in.v,in.mode,in.poison); auto vp=mk<T,C,PQ>(in.v,0,in.poison); auto XV=A*va; auto YV=PA*vp; for(int j=0;j<R;j++){ long double S=0; for(int k=0;k<C;k++) S+=fabsl((long double)PA[k][j]*in.v[k]); if(!agree(XV[j],YV[j],FORMULA,S,c,"mat*vec-err/bound")) c.fail("rect:mat*vec:component:beyond-rounding-of-largest-term",XV[j],YV[j]); }
	auto XT=glm::transpose(A); auto YT=glm::transpose(PA); for(int i=0;i<R;i++) for(int j=0;j<C;j++) if(!same(XT[i][j],YT[i][j])) c.fail("rect:transpose:element:not-identical",XT[i][j],YT[i][j]);
}
VF_OP(mat_rect_f32, InM<float>, "ffffffffffffffffffffffffffffffffffff" "fu"){ chk_rect<float,4,3,2>(in,c); chk_rect<float,3,4,4>(in,c); chk_rect<float,2,4,3>(in,c); chk_rect<float,4,2,4>(in,c); chk_rect<float,3,2,3>(in,c); chk_rect<float,2,3,2>(in,c); }

// ---------------------------------------------------------------- quaternions (component access by name, so GLM_FORCE_QUAT_DATA_WXYZ builds use the same monitor)
template<class T,glm::qualifier Q> static inline glm::qua<T,Q> mkq(const T* p){ return glm::qua<T,Q>::wxyz(p[0],p[1],p[2],p[3]); }
template<class T> static void chk_quat(const InV<T>& in,vf::Ctx& c){
	auto A=mkq<T,AQ>(in.a), B=mkq<T,AQ>(in.b); auto PA=mkq<T,PQ>(in.a), PB=mkq<T,PQ>(in.b);
	auto cmpq=[&](const char* what,auto X,auto Y,Cls k,long double S,const char* rn){ T xs[4]={X.w,X.x,X.y,X.z}, ys[4]={Y.w,Y.x,Y.y,Y.z}; static const char* nm[4]={"w","x","y","z"}; for(int i=0;i<4;i++) if(!agree(xs[i],ys[i],k,S,c,rn)) c.fail(std::string("quat:")+what+(k==FORMULA?":component:beyond-rounding-of-largest-term":":component:not-identical"),vf::show(xs[i])+" ("+nm[i]+", aligned)",vf::show(ys[i])+" (pure)"); };
	long double S=0; for(int i=0;i<4;i++) for(int j=0;j<4;j++) S=std::max(S,fabsl((long double)in.a[i]*in.b[j])); S*=4;
	cmpq("q*q",A*B,PA*PB,FORMULA,S,"quat-mul-err/bound"); cmpq("q+q",A+B,PA+PB,EXACT,0,nullptr); cmpq("q-q",A-B,PA-PB,EXACT,0,nullptr);
	cmpq("q*s",A*in.c[0],PA*in.c[0],EXACT,0,nullptr); if(in.c[1]!=0) cmpq("q/s",A/in.c[1],PA/in.c[1],EXACT,0,nullptr); cmpq("-q",-A,-PA,EXACT,0,nullptr);
	{ T X=glm::dot(A,B), Y=glm::dot(PA,PB); long double Sd=0; for(int i=0;i<4;i++) Sd+=fabsl((long double)in.a[i]*in.b[i]); if(!agree(X,Y,FORMULA,Sd,c,"quat-dot-err/bound")) c.fail("quat:dot:beyond-rounding-of-largest-term",X,Y); }
	{ long double q2=0,vmax=0; for(int i=0;i<4;i++) q2+=(long double)in.a[i]*in.a[i]; for(int i=0;i<4;i++) vmax=std::max(vmax,fabsl((long double)in.c[i])); long double Sv=8*(1+q2+1/q2)*vmax;
		auto X=A*mk<T,3,AQ>(in.c,in.mode,in.poison); auto Y=PA*mk<T,3,PQ>(in.c,0,in.poison); for(int i=0;i<3;i++) if(!agree(X[i],Y[i],FORMULA,Sv,c,"quat*vec3-err/bound")) c.fail("quat:q*vec3:component:beyond-rounding-of-largest-term",X[i],Y[i]);
		auto X4=A*mk<T,4,AQ>(in.c,0,in.poison); auto Y4=PA*mk<T,4,PQ>(in.c,0,in.poison); for(int i=0;i<3;i++) if(!agree(X4[i],Y4[i],FORMULA,Sv,c,"quat*vec4-err/bound")) c.fail("quat:q*vec4:component:beyond-rounding-of-largest-term",X4[i],Y4[i]); if(!agree(X4[3],Y4[3],EXACT,0,c,nullptr)) c.fail("quat:q*vec4:w-component:not-identical",X4[3],Y4[3]);
		auto Z4=mk<T,4,AQ>(in.c,0,in.poison)*A; auto W4=mk<T,4,PQ>(in.c,0,in.poison)*PA; for(int i=0;i<3;i++) if(!agree(Z4[i],W4[i],FORMULA,Sv,c,"vec4*quat-err/bound")) c.fail("quat:vec4*q:component:beyond-rounding-of-largest-term",Z4[i],W4[i]); if(!agree(Z4[3],W4[3],EXACT,0,c,nullptr)) c.fail("quat:vec4*q:w-component:not-identical",Z4[3],W4[3]); }
	{ bool e1=(A==B), e2=(PA==PB); if(e1!=e2) c.fail("quat:operator==:differs-from-pure",e1,e2); }
	// compound forms (the SIMD compute_quat_* specialisations are only reached through them)
	{ auto X=A; auto Y=PA; X*=in.c[0]; Y*=in.c[0]; cmpq("q*=s",X,Y,EXACT,0,nullptr); } if(in.c[1]!=0){ auto X=A; auto Y=PA; X/=in.c[1]; Y/=in.c[1]; cmpq("q/=s",X,Y,EXACT,0,nullptr); }
	{ auto X=A; auto Y=PA; X+=B; Y+=PB; cmpq("q+=q",X,Y,EXACT,0,nullptr); } { auto X=A; auto Y=PA; X-=B; Y-=PB; cmpq("q-=q",X,Y,EXACT,0,nullptr); } { auto X=A; auto Y=PA; X*=B; Y*=PB; cmpq("q*=q",X,Y,FORMULA,S,"quat-mul-err/bound"); }
}
VF_OP(quat_f32, InV<float>, F12_f){ chk_quat<float>(in,c); }
VF_OP(quat_f64, InV<double>, F12_d){ chk_quat<double>(in,c); }

// ---------------------------------------------------------------- digest of packed results (offline comparison against a real GLM_FORCE_PURE build)
static std::atomic<u64> g_digest[8];
// ---------------------------------------------------------------- workload
template<class T> static T gen(vf::Rng& r,const std::vector<T>& L){ if constexpr(std::is_floating_point<T>::value){ int m=(int)(r.next()%8); T v= m<2? L[r.below(L.size())]: m==2? (T)r.logmag(-20,20): m==3? (T)(r.range(-40,40)*0.5): m==4? (T)(r.range(-9,9)+0.5*r.coin()): m==5? (T)r.logmag(20,30): (T)r.uniform(-3,3); if(isnan_b(v)) v=fp<T>::make(fp<T>::raw(v)|((typename fp<T>::U)1<<(fp<T>::MANT-1))); return v; } else { int m=(int)(r.next()%5); u64 x=r.next(); return m==0? L[r.below(L.size())]: m==1? (T)(x%41)-(std::is_signed<T>::value?20:0): m==2? (T)x: m==3? (T)(x>>(r.next()%33)): (T)(x&r.next()); } }
template<class T> static std::vector<T> latt(){ if constexpr(std::is_floating_point<T>::value) return lattice_of<T>::get(); else return int_lattice<T>(); }

template<class T> struct VJob { vf::Op* op; std::function<void(InV<T>&)> prep; };
template<class T> static std::vector<VJob<T>>& vjobs(){ static std::vector<VJob<T>> j; return j; }
template<class T> static void run_v(const char* label){
	std::vector<T> L=latt<T>(); u64 n=vf::N(40000,4000000); auto& J=vjobs<T>();
	static const u32 PV[6]={0x7fc00000u,0x7f800000u,0x00000000u,0x3f800000u,0xffffffffu,0x80000000u};
	vf::parallel(label,[&](int t,int TT,vf::Ctx& c){ for(u64 i=t;i<n+L.size();i+=TT){ InV<T> x; for(int q=0;q<4;q++){ if(i<L.size()){ x.a[q]=L[(i+q)%L.size()]; x.b[q]=L[(i*7+q*3+1)%L.size()]; x.c[q]=L[(i*13+q*5+2)%L.size()]; } else { x.a[q]=gen<T>(c.rng,L); x.b[q]=gen<T>(c.rng,L); x.c[q]=gen<T>(c.rng,L); } }
			if constexpr(std::is_floating_point<T>::value){ T* arrs[3]={x.a,x.b,x.c}; for(T* arr: arrs) for(int q=0;q<4;q++){ T& v=arr[q]; if(isnan_b(v)) v=fp<T>::make(fp<T>::raw(v)|((typename fp<T>::U)1<<(fp<T>::MANT-1))); } }
			x.mode=(u32)c.rng.next()&7; u32 pb=PV[c.rng.below(6)]; if constexpr(sizeof(T)==4) memcpy(&x.poison,&pb,4); else { u64 p64= pb==0x7fc00000u? 0x7ff8000000000000ULL: pb==0x7f800000u? 0x7ff0000000000000ULL: pb==0x3f800000u? 0x3ff0000000000000ULL: pb==0xffffffffu? ~0ULL: pb==0x80000000u? 0x8000000000000000ULL:0; memcpy(&x.poison,&p64,8); }
			for(auto& j: J){ if(!vf::want(*j.op)) continue; InV<T> y=x; if(j.prep) j.prep(y); vf::run(c,*j.op,y); } } });
}
template<class T> static void nonan(T* p,int n){ if constexpr(std::is_floating_point<T>::value) for(int i=0;i<n;i++) if(isnan_b(p[i])) p[i]=(T)(0.25+i); }
template<class T> static void fin(T* p,int n,double lim){ if constexpr(std::is_floating_point<T>::value) for(int i=0;i<n;i++) if(!isfinite_b(p[i])||std::fabs((double)p[i])>lim) p[i]=(T)(0.75*i-1); }
#define REG(T,OP,PREP) vjobs<T>().push_back(VJob<T>{&OP,PREP});
// ==/!= operands: half of the inputs are equal vectors that differ in at most one lane by a zero sign, a NaN, or one ulp
// (equality must be decided on values: +0 == -0, NaN != NaN), the other half are independent vectors
template<class T> static void eqprep(InV<T>& x){
	if(!(x.mode&1)) return; for(int i=0;i<4;i++) x.b[i]=x.a[i]; int lane=(x.mode>>1)&3; u32 variant; memcpy(&variant,&x.c[0],sizeof(T)<4?sizeof(T):4); variant%=5;
	if constexpr(std::is_floating_point<T>::value){ typedef typename fp<T>::U U;
		if(variant==1){ x.a[lane]=(T)0; x.b[lane]=fp<T>::make(U(1)<<(sizeof(U)*8-1)); }
		else if(variant==2){ T n=fp<T>::make((((U(1)<<fp<T>::EXPB)-1)<<fp<T>::MANT)|(U(1)<<(fp<T>::MANT-1))); x.a[lane]=n; x.b[lane]=n; }
		else if(variant==3){ x.b[lane]=fp<T>::make(fp<T>::raw(x.a[lane])^1); if(isnan_b(x.b[lane])) x.b[lane]=x.a[lane]; }
		else if(variant==4){ for(int i=0;i<4;i++) if(x.a[i]==0){ x.b[i]=(T)(-x.a[i]); } }
	} else { if(variant==3) x.b[lane]=(T)(x.a[lane]^1); }
}
template<class T> static void reg_arith(vf::Op& add,vf::Op& sub,vf::Op& mul,vf::Op& neg,vf::Op& adds,vf::Op& muls,vf::Op& ssub,vf::Op& eq,vf::Op& ne,vf::Op& mn,vf::Op& mx,vf::Op& cl,vf::Op& ab){
	auto small=[](InV<T>& x){ if constexpr(std::is_integral<T>::value && std::is_signed<T>::value) for(int i=0;i<4;i++){ x.a[i]%=30000; x.b[i]%=30000; x.c[i]%=30000; } };
	auto nn=[](InV<T>& x){ nonan(x.a,4); nonan(x.b,4); nonan(x.c,4); };
	REG(T,add,small) REG(T,sub,small) REG(T,mul,small) REG(T,neg,small) REG(T,adds,small) REG(T,muls,small) REG(T,ssub,small) vjobs<T>().push_back(VJob<T>{&eq,eqprep<T>}); vjobs<T>().push_back(VJob<T>{&ne,eqprep<T>}); REG(T,mn,nn) REG(T,mx,nn)
	vjobs<T>().push_back(VJob<T>{&cl,[](InV<T>& x){ nonan(x.a,4); nonan(x.b,4); nonan(x.c,4); for(int i=0;i<4;i++) if(x.c[i]<x.b[i]) std::swap(x.b[i],x.c[i]); }});
	vjobs<T>().push_back(VJob<T>{&ab,[](InV<T>& x){ if constexpr(std::is_integral<T>::value && std::is_signed<T>::value) for(int i=0;i<4;i++) if(x.a[i]==std::numeric_limits<T>::min()) x.a[i]=7; }});
}
template<class T> static void reg_bits(vf::Op& a,vf::Op& o,vf::Op& x_,vf::Op& n,vf::Op& sl,vf::Op& sr,vf::Op& sls,vf::Op& srs,vf::Op& bc,vf::Op& fl,vf::Op& fm){
	auto sh=[](InV<T>& x){ for(int i=0;i<4;i++){ x.b[i]=(T)((u32)x.b[i]%32u); if(std::is_signed<T>::value){ x.a[i]=(T)((u32)x.a[i]>>(((u32)x.b[i])+1>31?31:((u32)x.b[i])+1)); } } };
	REG(T,a,nullptr) REG(T,o,nullptr) REG(T,x_,nullptr) REG(T,n,nullptr) REG(T,sl,sh) REG(T,sr,([](InV<T>& x){ for(int i=0;i<4;i++) x.b[i]=(T)((u32)x.b[i]%32u); })) REG(T,sls,sh) REG(T,srs,([](InV<T>& x){ for(int i=0;i<4;i++) x.b[i]=(T)((u32)x.b[i]%32u); })) REG(T,bc,nullptr) REG(T,fl,nullptr) REG(T,fm,nullptr)
}
template<class T> static void reg_float(vf::Op** o){ // order = COMMON then GEOM then extra
	auto nn=[](InV<T>& x){ nonan(x.a,4); nonan(x.b,4); nonan(x.c,4); };
	auto mod=[](InV<T>& x){ fin(x.a,4,1e6); fin(x.b,4,1e6); for(int i=0;i<4;i++) if(std::fabs((double)x.b[i])<1e-3) x.b[i]=(T)(1.5+i);
		/* lowp division is a hardware reciprocal: quotients within 2^-9 of an integer may legitimately fall on either side of floor's discontinuity, not judged */ if(LOWP) for(int i=0;i<4;i++){ long double q=(long double)x.a[i]/(long double)x.b[i]; if(fabsl(q-roundl(q))<=fabsl(q)*std::ldexp(1.0L,-9)+1e-6L){ x.a[i]=(T)((roundl(q)+0.37L)*(long double)x.b[i]); } } };
	auto bounded=[](InV<T>& x){ fin(x.a,4,1e15); fin(x.b,4,1e15); fin(x.c,4,1e15); };
	auto edges=[](InV<T>& x){ fin(x.a,4,1e15); fin(x.b,4,1e15); fin(x.c,4,1e15); for(int i=0;i<4;i++){ if(x.b[i]<x.a[i]) std::swap(x.a[i],x.b[i]); if(!(x.a[i]<x.b[i])){ x.a[i]=0; x.b[i]=1; } /* lowp divides through a hardware reciprocal, which flushes subnormal divisors */ if(LOWP && !((double)x.b[i]-(double)x.a[i]>=1e-30)){ x.a[i]=(T)-0.5; x.b[i]=(T)1.5; } } };
	auto pos=[](InV<T>& x){ for(int i=0;i<4;i++){ T v=(T)std::fabs((double)x.a[i]); if(!(v>=(T)1e-30&&v<=(T)1e30)) v=(T)(1.5+i); x.a[i]=v; } };
	auto geo=[](InV<T>& x){ fin(x.a,4,1e15); fin(x.b,4,1e15); fin(x.c,4,1e15); for(int i=0;i<4;i++){ if(x.a[i]!=0&&std::fabs((double)x.a[i])<1e-15) x.a[i]=(T)0.5; if(x.b[i]!=0&&std::fabs((double)x.b[i])<1e-15) x.b[i]=(T)-0.5; } };
	auto nz=[](InV<T>& x){ fin(x.a,4,1e15); bool z=true; for(int i=0;i<4;i++){ if(x.a[i]!=0&&std::fabs((double)x.a[i])<1e-15) x.a[i]=(T)0.5; if(x.a[i]!=0) z=false; } if(z||x.a[0]==0) x.a[0]=(T)1.25; };
	int k=0; REG(T,*o[k],nullptr) k++; /*floor*/ REG(T,*o[k],nullptr) k++; /*ceil*/ REG(T,*o[k],nullptr) k++; /*round*/ REG(T,*o[k],nullptr) k++; /*trunc*/ REG(T,*o[k],([](InV<T>& x){ fin(x.a,4,1e30); })) k++; /*fract*/ REG(T,*o[k],nn) k++; /*sign*/
	vjobs<T>().push_back(VJob<T>{o[k],[](InV<T>& x){ if(LOWP) for(int i=0;i<4;i++){ T v=(T)std::fabs((double)x.a[i]); if(v!=0 && !(v>=(T)1e-30&&v<=(T)1e30)) v=(T)(2.5+i); x.a[i]=v; } }}); k++; /*sqrt: lowp = rsqrt-based, domain zero or normal positive*/ REG(T,*o[k],pos) k++; /*inversesqrt*/ REG(T,*o[k],nn) k++; /*step*/ REG(T,*o[k],mod) k++; /*mod*/ REG(T,*o[k],bounded) k++; /*mix*/ REG(T,*o[k],edges) k++; /*smoothstep*/ REG(T,*o[k],bounded) k++; /*fma*/
	REG(T,*o[k],nn) k++; /*mix_bool*/ REG(T,*o[k],nullptr) k++; /*isnan*/ REG(T,*o[k],nullptr) k++; /*lessThan*/ REG(T,*o[k],nullptr) k++; /*equal*/
	REG(T,*o[k],geo) k++; /*dot*/ REG(T,*o[k],geo) k++; /*length*/ REG(T,*o[k],geo) k++; /*distance*/ REG(T,*o[k],nz) k++; /*normalize*/ REG(T,*o[k],geo) k++; /*reflect*/
	vjobs<T>().push_back(VJob<T>{o[k],[](InV<T>& x){ fin(x.a,4,1e15); fin(x.b,4,1e15); fin(x.c,4,1e15); if(x.mode&4){ /* dot(Nref,I)==0 exactly */ x.b[0]=1; x.b[1]=0; x.b[2]=0; x.b[3]=0; x.c[0]=0; if(x.mode&2){ /* ... as a sum of negative zeros: dot == -0 */ for(int q=0;q<4;q++){ T m=(T)(std::fabs((double)x.c[q])+1+q); if(q&1){ x.c[q]=m; x.b[q]=(T)-0.0; } else { x.c[q]=(T)0; x.b[q]=(T)-m; } } } } }}); k++; /*faceforward: N=a, I=b, Nref=c */
	vjobs<T>().push_back(VJob<T>{o[k],[](InV<T>& x){ /* refract: unit-ish I,N; eta in (0,4] */ fin(x.a,4,4); fin(x.b,4,4); for(int L=0;L<1;L++){} T eta=(T)std::fabs((double)x.c[0]); if(!(eta>(T)1e-3&&eta<=(T)4)) eta=(T)1.5; x.c[0]=eta;
		long double na=0,nb=0; for(int i=0;i<4;i++){ na+=(long double)x.a[i]*x.a[i]; nb+=(long double)x.b[i]*x.b[i]; } if(na<1e-6){ x.a[0]=1; na=1+na; } if(nb<1e-6){ x.b[1]=1; nb=1+nb; } /* normalised for the 4-lane case; shorter lengths use a prefix (non-unit), which is still inside 'eta>0, finite' */ for(int i=0;i<4;i++){ x.a[i]=(T)(x.a[i]/sqrtl(na)); x.b[i]=(T)(x.b[i]/sqrtl(nb)); }
		if((x.mode&6)==6){ /* a quarter of the inputs: N = +-axis, I in a coordinate plane with cos = m/256, eta within +-200 ulps of the critical 1/sin */
			u64 h=0; { unsigned char by[sizeof x.c]; memcpy(by,x.c,sizeof by); for(unsigned char ch: by) h=(h^ch)*0x100000001b3ULL; h^=h>>29; h*=0x9e3779b97f4a7c15ULL; h^=h>>32; }
			int j=(int)(h&3), i2=(int)((j+1+((h>>2)%3))&3); T cth=(T)(1+((h>>4)%255))/(T)256, sn=(T)std::sqrt((double)1-(double)cth*(double)cth);
			for(int q=0;q<4;q++){ x.a[q]=0; x.b[q]=0; } x.b[j]=(h>>12)&1? (T)1:(T)-1; x.a[j]=(h>>13)&1? cth:(T)-cth; x.a[i2]=sn;
			T e=(T)1/sn; int steps=(int)((h>>16)%401)-200; for(int q=0;q<std::abs(steps);q++) e=std::nextafter(e,steps<0?(T)0:(T)100); if(e>(T)1e-3&&e<=(T)4) x.c[0]=e; } }}); k++;
	REG(T,*o[k],geo) k++; /*cross*/ REG(T,*o[k],nullptr) k++; /*conv*/
	vjobs<T>().push_back(VJob<T>{o[k],[](InV<T>& x){ fin(x.a,4,1e6); fin(x.b,4,1e6); fin(x.c,4,1e6); if(x.c[1]==0) x.c[1]=(T)2; /* quaternion norms stay in the normal range (vec*quat divides by dot(q,q)) */ long double n=0; for(int i=0;i<4;i++) n+=(long double)x.a[i]*x.a[i]; if(n<1e-6L) x.a[0]=(T)(x.a[0]<0?-1.5:1.5); }}); k++; /*quat*/
}
template<class T> static void run_m(const char* label,std::vector<vf::Op*> ops){
	u64 n=vf::N(20000,2000000);
	vf::parallel(label,[&](int t,int TT,vf::Ctx& c){ for(u64 i=t;i<n;i+=TT){ InM<T> x; int m=(int)(c.rng.next()%4); for(int k=0;k<16;k++){ x.a[k]= m==0? (T)c.rng.range(-8,8): m==1? (T)c.rng.uniform(-2,2): (T)c.rng.gauss(); x.b[k]= m==0? (T)c.rng.range(-8,8): (T)c.rng.uniform(-3,3); }
			if(m>=2) for(int k=0;k<4;k++) x.a[k*4+k]+= (T)(c.rng.coin()?4:-4); for(int k=0;k<4;k++) x.v[k]= m==0? (T)c.rng.range(-8,8):(T)c.rng.uniform(-5,5); x.mode=(u32)c.rng.next()&7; x.poison=(T)NAN;
			if(i%6==5){ /* one row of A scaled to ~sqrt(max): the product of two entries of that row overflows, everything the operations need stays finite */ int row=(int)c.rng.below(4); T sc=(T)std::ldexp(1.0,(sizeof(T)==4? 59:508)+(int)c.rng.below(4)); for(int col=0;col<4;col++){ T& e=x.a[col*4+row]; if(e==0) e=(T)(1+col); e=(T)(e*sc); } } for(auto* o: ops) if(vf::want(*o)) vf::run(c,*o,x); } });
}
static void workload(){
	vf::note("aligned_qualifier",C03_STR(C03_AQ)); vf::note("lowp_approximation_allowed",LOWP?"yes (2^-11 relative for rcp/rsqrt based results)":"no");
	reg_arith<float>(op_add_f32,op_sub_f32,op_mul_f32,op_neg_f32,op_add_scalar_f32,op_mul_scalar_f32,op_scalar_sub_f32,op_eq_f32,op_ne_f32,fn_min_f32,fn_max_f32,fn_clamp_f32,fn_abs_f32);
	reg_arith<double>(op_add_f64,op_sub_f64,op_mul_f64,op_neg_f64,op_add_scalar_f64,op_mul_scalar_f64,op_scalar_sub_f64,op_eq_f64,op_ne_f64,fn_min_f64,fn_max_f64,fn_clamp_f64,fn_abs_f64);
	reg_arith<i32>(op_add_i32,op_sub_i32,op_mul_i32,op_neg_i32,op_add_scalar_i32,op_mul_scalar_i32,op_scalar_sub_i32,op_eq_i32,op_ne_i32,fn_min_i32,fn_max_i32,fn_clamp_i32,fn_abs_i32);
	reg_arith<u32>(op_add_u32,op_sub_u32,op_mul_u32,op_neg_u32,op_add_scalar_u32,op_mul_scalar_u32,op_scalar_sub_u32,op_eq_u32,op_ne_u32,fn_min_u32,fn_max_u32,fn_clamp_u32,fn_abs_u32);
	reg_bits<i32>(op_and_i32,op_or_i32,op_xor_i32,op_not_i32,op_shl_i32,op_shr_i32,op_shl_scalar_i32,op_shr_scalar_i32,fn_bitCount_i32,fn_findLSB_i32,fn_findMSB_i32);
	reg_bits<u32>(op_and_u32,op_or_u32,op_xor_u32,op_not_u32,op_shl_u32,op_shr_u32,op_shl_scalar_u32,op_shr_scalar_u32,fn_bitCount_u32,fn_findLSB_u32,fn_findMSB_u32);
	auto divp=[](auto& x){ typedef typename std::remove_reference<decltype(x.a[0])>::type T; for(int i=0;i<4;i++){ if(x.b[i]==(T)0) x.b[i]=(T)(i+1); if constexpr(std::is_integral<T>::value&&std::is_signed<T>::value) if(x.a[i]==std::numeric_limits<T>::min()) x.a[i]=(T)(-77-i); if constexpr(std::is_floating_point<T>::value){ if(LOWP){ fin(x.a,4,1e15); fin(x.b,4,1e15); if(std::fabs((double)x.b[i])<1e-15) x.b[i]=(T)(i+0.5); } } } };
	vjobs<float>().push_back({&op_div_f32,divp}); vjobs<float>().push_back({&op_div_scalar_f32,divp}); vjobs<double>().push_back({&op_div_f64,divp}); vjobs<i32>().push_back({&op_div_i32,divp}); vjobs<u32>().push_back({&op_div_u32,divp}); vjobs<i32>().push_back({&op_mod_i32,divp}); vjobs<u32>().push_back({&op_mod_u32,divp});
	vjobs<u32>().push_back({&fn_bitfieldReverse_u32,nullptr}); vjobs<i32>().push_back({&fn_sign_i32,nullptr}); vjobs<i32>().push_back({&conv_i32,nullptr}); vjobs<u32>().push_back({&conv_u32,nullptr});
	{ vf::Op* o[]={&fn_floor_f32,&fn_ceil_f32,&fn_round_f32,&fn_trunc_f32,&fn_fract_f32,&fn_sign_f32,&fn_sqrt_f32,&fn_inversesqrt_f32,&fn_step_f32,&fn_mod_f32,&fn_mix_f32,&fn_smoothstep_f32,&fn_fma_f32,&fn_mix_bool_f32,&fn_isnan_f32,&rel_lessThan_f32,&rel_equal_f32,&geo_dot_f32,&geo_length_f32,&geo_distance_f32,&geo_normalize_f32,&geo_reflect_f32,&geo_faceforward_f32,&geo_refract_f32,&geo_cross_f32,&conv_f32,&quat_f32}; reg_float<float>(o); }
	{ vf::Op* o[]={&fn_floor_f64,&fn_ceil_f64,&fn_round_f64,&fn_trunc_f64,&fn_fract_f64,&fn_sign_f64,&fn_sqrt_f64,&fn_inversesqrt_f64,&fn_step_f64,&fn_mod_f64,&fn_mix_f64,&fn_smoothstep_f64,&fn_fma_f64,&fn_mix_bool_f64,&fn_isnan_f64,&rel_lessThan_f64,&rel_equal_f64,&geo_dot_f64,&geo_length_f64,&geo_distance_f64,&geo_normalize_f64,&geo_reflect_f64,&geo_faceforward_f64,&geo_refract_f64,&geo_cross_f64,&conv_f64,&quat_f64}; reg_float<double>(o); }
	run_v<float>("f32"); run_v<double>("f64"); run_v<i32>("i32"); run_v<u32>("u32");
	run_m<float>("mf32",{&mat2_f32,&mat3_f32,&mat4_f32,&mat_rect_f32}); run_m<double>("mf64",{&mat3_f64,&mat4_f64});
}
VF_MAIN("C03_simd")
