// C11 — every constant of ext/scalar_constants and gtc/constants is the correctly rounded value of the quantity it names
// (float and double).  Oracle: the named quantity computed by MPFR at 256 bits (and again at 320 bits as a self-check),
// rounded to nearest to binary32 / binary64, compared bit for bit.
#include "vf.hpp"
#include "ref.hpp"
#include <glm/glm.hpp>
#include <glm/ext/scalar_constants.hpp>
#include <glm/gtc/constants.hpp>
#include <mpfr.h>
using namespace ref;

enum Q { Q_ZERO, Q_ONE, Q_PI, Q_TWO_PI, Q_ROOT_PI, Q_HALF_PI, Q_THREE_HALF_PI, Q_QUARTER_PI, Q_ONE_OVER_PI, Q_ONE_OVER_TWO_PI, Q_TWO_OVER_PI, Q_FOUR_OVER_PI,
	Q_TWO_OVER_ROOT_PI, Q_ONE_OVER_ROOT_TWO, Q_ROOT_HALF_PI, Q_ROOT_TWO_PI, Q_ROOT_LN_FOUR, Q_E, Q_EULER, Q_ROOT_TWO, Q_ROOT_THREE, Q_ROOT_FIVE, Q_LN_TWO, Q_LN_TEN,
	Q_LN_LN_TWO, Q_THIRD, Q_TWO_THIRDS, Q_GOLDEN, Q_COS_HALF, Q_EPS_F, Q_EPS_D };

// the quantity named by the constant, from its documentation in gtc/constants.hpp / ext/scalar_constants.hpp
static void quantity(mpfr_t r, int q){
	mpfr_prec_t p = mpfr_get_prec(r); mpfr_t t; mpfr_init2(t, p);
	switch(q){
		case Q_ZERO: mpfr_set_ui(r, 0, MPFR_RNDN); break;
		case Q_ONE: mpfr_set_ui(r, 1, MPFR_RNDN); break;
		case Q_PI: mpfr_const_pi(r, MPFR_RNDN); break;
		case Q_TWO_PI: mpfr_const_pi(r, MPFR_RNDN); mpfr_mul_ui(r, r, 2, MPFR_RNDN); break;
		case Q_ROOT_PI: mpfr_const_pi(r, MPFR_RNDN); mpfr_sqrt(r, r, MPFR_RNDN); break;
		case Q_HALF_PI: mpfr_const_pi(r, MPFR_RNDN); mpfr_div_ui(r, r, 2, MPFR_RNDN); break;
		case Q_THREE_HALF_PI: mpfr_const_pi(r, MPFR_RNDN); mpfr_mul_ui(r, r, 3, MPFR_RNDN); mpfr_div_ui(r, r, 2, MPFR_RNDN); break;
		case Q_QUARTER_PI: mpfr_const_pi(r, MPFR_RNDN); mpfr_div_ui(r, r, 4, MPFR_RNDN); break;
		case Q_ONE_OVER_PI: mpfr_const_pi(r, MPFR_RNDN); mpfr_ui_div(r, 1, r, MPFR_RNDN); break;
		case Q_ONE_OVER_TWO_PI: mpfr_const_pi(r, MPFR_RNDN); mpfr_mul_ui(r, r, 2, MPFR_RNDN); mpfr_ui_div(r, 1, r, MPFR_RNDN); break;
		case Q_TWO_OVER_PI: mpfr_const_pi(r, MPFR_RNDN); mpfr_ui_div(r, 2, r, MPFR_RNDN); break;
		case Q_FOUR_OVER_PI: mpfr_const_pi(r, MPFR_RNDN); mpfr_ui_div(r, 4, r, MPFR_RNDN); break;
		case Q_TWO_OVER_ROOT_PI: mpfr_const_pi(r, MPFR_RNDN); mpfr_sqrt(r, r, MPFR_RNDN); mpfr_ui_div(r, 2, r, MPFR_RNDN); break;
		case Q_ONE_OVER_ROOT_TWO: mpfr_sqrt_ui(r, 2, MPFR_RNDN); mpfr_ui_div(r, 1, r, MPFR_RNDN); break;
		case Q_ROOT_HALF_PI: mpfr_const_pi(r, MPFR_RNDN); mpfr_div_ui(r, r, 2, MPFR_RNDN); mpfr_sqrt(r, r, MPFR_RNDN); break;
		case Q_ROOT_TWO_PI: mpfr_const_pi(r, MPFR_RNDN); mpfr_mul_ui(r, r, 2, MPFR_RNDN); mpfr_sqrt(r, r, MPFR_RNDN); break;
		case Q_ROOT_LN_FOUR: mpfr_set_ui(t, 4, MPFR_RNDN); mpfr_log(r, t, MPFR_RNDN); mpfr_sqrt(r, r, MPFR_RNDN); break;
		case Q_E: mpfr_set_ui(t, 1, MPFR_RNDN); mpfr_exp(r, t, MPFR_RNDN); break;
		case Q_EULER: mpfr_const_euler(r, MPFR_RNDN); break;
		case Q_ROOT_TWO: mpfr_sqrt_ui(r, 2, MPFR_RNDN); break;
		case Q_ROOT_THREE: mpfr_sqrt_ui(r, 3, MPFR_RNDN); break;
		case Q_ROOT_FIVE: mpfr_sqrt_ui(r, 5, MPFR_RNDN); break;
		case Q_LN_TWO: mpfr_const_log2(r, MPFR_RNDN); break;
		case Q_LN_TEN: mpfr_set_ui(t, 10, MPFR_RNDN); mpfr_log(r, t, MPFR_RNDN); break;
		case Q_LN_LN_TWO: mpfr_const_log2(t, MPFR_RNDN); mpfr_log(r, t, MPFR_RNDN); break;
		case Q_THIRD: mpfr_set_ui(r, 1, MPFR_RNDN); mpfr_div_ui(r, r, 3, MPFR_RNDN); break;
		case Q_TWO_THIRDS: mpfr_set_ui(r, 2, MPFR_RNDN); mpfr_div_ui(r, r, 3, MPFR_RNDN); break;
		case Q_GOLDEN: mpfr_sqrt_ui(r, 5, MPFR_RNDN); mpfr_add_ui(r, r, 1, MPFR_RNDN); mpfr_div_ui(r, r, 2, MPFR_RNDN); break;
		case Q_COS_HALF: mpfr_set_d(t, 0.5, MPFR_RNDN); mpfr_cos(r, t, MPFR_RNDN); break;
		case Q_EPS_F: mpfr_set_ui_2exp(r, 1, -23, MPFR_RNDN); break;
		case Q_EPS_D: mpfr_set_ui_2exp(r, 1, -52, MPFR_RNDN); break;
	}
	mpfr_clear(t);
}
struct Entry { const char* name; int qf, qd; float (*f)(); double (*d)(); };
#define E(NAME, Q_) { #NAME, Q_, Q_, &glm::NAME<float>, &glm::NAME<double> }
static const Entry TABLE[] = {
	E(zero, Q_ZERO), E(one, Q_ONE), E(pi, Q_PI), E(two_pi, Q_TWO_PI), E(tau, Q_TWO_PI), E(root_pi, Q_ROOT_PI), E(half_pi, Q_HALF_PI), E(three_over_two_pi, Q_THREE_HALF_PI),
	E(quarter_pi, Q_QUARTER_PI), E(one_over_pi, Q_ONE_OVER_PI), E(one_over_two_pi, Q_ONE_OVER_TWO_PI), E(two_over_pi, Q_TWO_OVER_PI), E(four_over_pi, Q_FOUR_OVER_PI),
	E(two_over_root_pi, Q_TWO_OVER_ROOT_PI), E(one_over_root_two, Q_ONE_OVER_ROOT_TWO), E(root_half_pi, Q_ROOT_HALF_PI), E(root_two_pi, Q_ROOT_TWO_PI), E(root_ln_four, Q_ROOT_LN_FOUR),
	E(e, Q_E), E(euler, Q_EULER), E(root_two, Q_ROOT_TWO), E(root_three, Q_ROOT_THREE), E(root_five, Q_ROOT_FIVE), E(ln_two, Q_LN_TWO), E(ln_ten, Q_LN_TEN), E(ln_ln_two, Q_LN_LN_TWO),
	E(third, Q_THIRD), E(two_thirds, Q_TWO_THIRDS), E(golden_ratio, Q_GOLDEN), E(cos_one_over_two, Q_COS_HALF),
	{ "epsilon", Q_EPS_F, Q_EPS_D, &glm::epsilon<float>, &glm::epsilon<double> },
};
static const int NTABLE = (int)(sizeof(TABLE) / sizeof(TABLE[0]));
static std::atomic<int> g_selfcheck_fail(0);

struct InC { i32 index; };
template<class T> static T rounded(int q, mpfr_prec_t prec){ mpfr_t r; mpfr_init2(r, prec); quantity(r, q); T v = sizeof(T) == 4 ? (T)mpfr_get_flt(r, MPFR_RNDN) : (T)mpfr_get_d(r, MPFR_RNDN); mpfr_clear(r); return v; }
template<class T> static void k_const(const InC& in, vf::Ctx& c){
	if(in.index < 0 || in.index >= NTABLE) return; const Entry& e = TABLE[in.index]; int q = sizeof(T) == 4 ? e.qf : e.qd;
	volatile T gotv = sizeof(T) == 4 ? (T)e.f() : (T)e.d(); T got = gotv;
	T want = rounded<T>(q, 256), want2 = rounded<T>(q, 320); if(!same(want, want2)) g_selfcheck_fail++;
	c.cls(e.name);
	if(!same(got, want)){
		long long d = isnan_b(got) ? 0 : (long long)(ord(got) - ord(want)); long long ad = d < 0 ? -d : d;
		std::string k = std::string(e.name) + (isnan_b(got) ? ":nan" : ad == 1 ? ":off-by-1ulp" : ad <= 64 ? ":off-by-2..64ulp" : ":off-by->64ulp");
		c.fail(k, got, want);
	}
}
VF_OP(constant_f, InC, "i"){ k_const<float>(in, c); }
VF_OP(constant_d, InC, "i"){ k_const<double>(in, c); }

static void workload(){
	vf::Ctx c; c.enum_mode = true;
	for(int i = 0; i < NTABLE; i++){ InC in{ i }; if(vf::want(constant_f)) vf::run(c, constant_f, in); if(vf::want(constant_d)) vf::run(c, constant_d, in); }
	vf::merge(c);
	vf::note("constants_checked", std::to_string(NTABLE) + " constants x {float,double}");
	if(g_selfcheck_fail.load()){ fprintf(stderr, "oracle self-check failed: 256-bit and 320-bit references round differently\n"); vf::write_results("C11_constants"); exit(4); }
}
VF_MAIN("C11_constants")
