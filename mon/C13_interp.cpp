// C13 — quaternion interpolation: slerp(x,y,t), slerp(x,y,t,k), mix, lerp (ext/quaternion_common), gtx shortMix / fastMix / squad /
// intermediate, gtx dual-quaternion lerp and the gtx/compatibility lerp aliases, judged against a wide-precision evaluation of the
// great-arc point   R = cos(psi) x + sin(psi) w,  psi = t (theta + k pi),  w = unit tangent at x towards z = +-y.
//
// Oracle arithmetic: W = long double for float inputs, __float128 for double inputs (products of two inputs are exact);
// the arc reference is cross-checked against a 256-bit MPFR evaluation on a sample at start-up (exit 2 on disagreement).
//
// Tolerance (derived, see arc_eval): the documented formula (sin((1-t)theta) x + sin(t theta) z)/sin(theta) evaluated in T is a
// backward-stable evaluation of the arc point for a perturbed cosine c* = c + dc, |dc| <= Ec = u (4 S + 2 nu |c| + 4 theta sin theta)
// (4-term dot product, inputs unit only within nu*u, acos/atan within 2 ulp), followed by a fixed number of roundings:
//   |got_i - R_i| <= SF u [ argument roundings + (11 + 2 nu)(|k0 x_i| + |k1 z_i|) ] + (SF Ec + Efb) |dR_i/dc|
// with dR/dc = (t-1) sin(psi)/s x + (sin(psi) c - t cos(psi) s)/s^2 w (first-order, exact derivative of the formula).  For k = 0
// the coefficients are analytic in c at c = 1 (d/dc sin(t theta)/sin(theta) -> t(t^2-1)/3), so the linear fallback that glm takes for
// cos(theta) > 1 - epsilon is simply the value at c* = 1: Efb = 1 - c whenever the computed dot product can exceed 1 - epsilon.
// Where the formula is ill-conditioned (spin count k != 0 or obtuse mix with Ec/sin^2(theta) > 1/16) only finiteness is demanded;
// mix is not judged for separations above pi - 1e-2 (the oriented arc is ill-defined there).
// Every componentwise bound carries an absolute underflow slack of a few denormal quanta (divided by sin(theta) where glm divides).
// Decisions (negate y when dot < 0, fallback, dual-quaternion sign) are demanded only when the deciding quantity is farther from
// its threshold than its own rounding-error bound; otherwise either branch is accepted.
#include "vf.hpp"
#include "ref.hpp"
// libquadmath entry points declared by hand: clang++ does not ship <quadmath.h>
extern "C" { __float128 sqrtq(__float128); __float128 sinq(__float128); __float128 cosq(__float128); __float128 logq(__float128); __float128 atanq(__float128); __float128 atan2q(__float128,__float128); }
#include <mpfr.h>
#include <glm/glm.hpp>
#include <glm/gtc/quaternion.hpp>
#include <glm/gtx/quaternion.hpp>
#include <glm/gtx/dual_quaternion.hpp>
#include <glm/gtx/compatibility.hpp>
using namespace ref;

#ifndef C13_Q
#define C13_Q glm::defaultp
#endif
static const glm::qualifier Q = C13_Q;

// ---------------------------------------------------------------- wide arithmetic
static inline long double w_sqrt(long double x){ return sqrtl(x); }   static inline __float128 w_sqrt(__float128 x){ return sqrtq(x); }
static inline long double w_sin(long double x){ return sinl(x); }     static inline __float128 w_sin(__float128 x){ return sinq(x); }
static inline long double w_cos(long double x){ return cosl(x); }     static inline __float128 w_cos(__float128 x){ return cosq(x); }
static inline long double w_log(long double x){ return logl(x); }     static inline __float128 w_log(__float128 x){ return logq(x); }
static inline long double w_atan2(long double y,long double x){ return atan2l(y,x); } static inline __float128 w_atan2(__float128 y,__float128 x){ return atan2q(y,x); }
template<class W> static inline W w_abs(W x){ return x<0? -x: x; }
template<class W> static inline W w_max(W a,W b){ return a>b? a: b; }
template<class W> static inline W w_min(W a,W b){ return a<b? a: b; }

template<class T> struct Tr;
template<> struct Tr<float>{ typedef long double W; static W u(){ return ldexpl(1.0L,-24); } static W tiny(){ return ldexpl(1.0L,-149); } static W eps(){ return ldexpl(1.0L,-23); }
	static W pi(){ return 3.14159265358979323846264338327950288L; } static W p2(int e){ return ldexpl(1.0L,e); } };
template<> struct Tr<double>{ typedef __float128 W; static W u(){ return (W)ldexpl(1.0L,-53); } static W tiny(){ return (W)ldexpl(1.0L,-1074); } static W eps(){ return (W)ldexpl(1.0L,-52); }
	static W pi(){ static const W p=4*atanq((W)1); return p; } static W p2(int e){ return (W)ldexpl(1.0L,e); } };
#define TRT typedef typename Tr<T>::W W; const W u=Tr<T>::u(); const W tiny=Tr<T>::tiny(); const W PI=Tr<T>::pi(); (void)u; (void)tiny; (void)PI;
static const double SF = 2.0; // safety factor applied to every first-order rounding-error count

// ---------------------------------------------------------------- input records, glm operand construction (layout independent)
template<class T> struct In  { T x[4]; T y[4]; T t; int k; int mode; };          // quaternions in (w,x,y,z) order
template<class T> struct In4 { T q[4][4]; T h; int k; int mode; };
template<class T> static inline glm::qua<T,Q> mkq(const T* p){ return glm::qua<T,Q>::wxyz(p[0],p[1],p[2],p[3]); }
template<class T> static inline void outq(const glm::qua<T,Q>& q,T* o){ o[0]=q.w; o[1]=q.x; o[2]=q.y; o[3]=q.z; }
template<class T> static std::string sq(const T* p,int L=4){ std::string s="("; for(int i=0;i<L;i++){ if(i) s+=", "; s+=vf::show(p[i]); } return s+")"; }
template<class T,class W> static std::string swq(const W* p,int L=4){ T t[4]; for(int i=0;i<L;i++) t[i]=(T)p[i]; return sq<T>(t,L); }
static inline void rat(vf::Ctx& c,const char* n,double r){ if(!(r==r)) return; if(r>1e30) r=1e30; c.ratio(n,r); }
#define SKIP(why) do{ c.cls("skipped:" why); return; }while(0)
template<class T> static inline bool fin4(const T* p){ for(int i=0;i<4;i++) if(!isfinite_b(p[i])) return false; return true; }
template<class T> static inline typename Tr<T>::W norm4(const T* p){ typename Tr<T>::W s=0; for(int i=0;i<4;i++) s+=(typename Tr<T>::W)p[i]*(typename Tr<T>::W)p[i]; return w_sqrt(s); }
// unit within 4u; nu = max(1, | |p|-1 | / u) is the measured departure from unit length used by the bounds
template<class T> static inline bool unit_ok(const T* p,typename Tr<T>::W& nu){ if(!fin4(p)) return false; typename Tr<T>::W d=w_abs(norm4<T>(p)-1)/Tr<T>::u(); if(!(d<=4)) return false; if(d>nu) nu=d; return true; }
static const char* tcls(double t){ return t==0? "t=0": t==1? "t=1": (t>0&&t<1)? "0<t<1": "t-outside[0,1]"; }
static const char* kcls(int k){ return k==0? "k=0": k>0? "k>0": "k<0"; }

// ---------------------------------------------------------------- the arc reference and its error bound
enum { KIND_SLERP=0, KIND_SPIN=1, KIND_MIX=2, KIND_SHORT=3 };
template<class T> struct Arc { typedef typename Tr<T>::W W; W R[4],bd[4],xh[4],wv[4],theta,s,c,ctrue,Edot,psi,En,k0,k1,rho; bool ill,fb,plane; int sgn; };

// | d/dc [ sin(t theta)/sin(theta) ] | = | t cos(t theta) sin(theta) - sin(t theta) cos(theta) | / sin^3(theta);  -> |t(t^2-1)|/3 for theta -> 0
template<class W> static W Dfun(W t,W th,W s,W c){ if(th<ldexpl(1.0L,-10)) return W(1.01)*w_abs(t*(t*t-1))/3; return w_abs(t*w_cos(t*th)*s-w_sin(t*th)*c)/(s*s*s); }

template<class T> static void arc_eval(const T* x,const T* y,int sgn,T tt,int k,int kind,typename Tr<T>::W nu,Arc<T>& A){ TRT
	W xs[4],zs[4],zh[4],nx=0,nz=0,ct=0,S=0;
	for(int i=0;i<4;i++){ xs[i]=x[i]; zs[i]=sgn<0? -(W)y[i]: (W)y[i]; nx+=xs[i]*xs[i]; nz+=zs[i]*zs[i]; ct+=xs[i]*zs[i]; S+=w_abs(xs[i]*zs[i]); }
	nx=w_sqrt(nx); nz=w_sqrt(nz); W dm=0,dp=0; for(int i=0;i<4;i++){ A.xh[i]=xs[i]/nx; zh[i]=zs[i]/nz; W a=A.xh[i]-zh[i], b=A.xh[i]+zh[i]; dm+=a*a; dp+=b*b; }
	W th=2*w_atan2(w_sqrt(dm),w_sqrt(dp)), s=w_sin(th), cc=w_cos(th), t=tt, phi=th+W(k)*PI, psi=t*phi;
	A.sgn=sgn; A.theta=th; A.s=s; A.c=cc; A.ctrue=ct; A.Edot=4*u*S; A.psi=psi; A.ill=false; A.plane=false;
	A.fb= ct+W(SF)*A.Edot > 1-Tr<T>::eps();
	// equivalent perturbation of the cosine: dot product (4 products, 3 additions), inputs unit within nu*u, acos/atan within 2 ulp,
	// shortMix: sqrt(1-c*c) carries an absolute error u in 1-c*c -> at most 1.5u in the equivalent cosine, doubled
	W Ec=u*(4*S+2*nu*w_abs(cc)+4*th*w_abs(s)+(kind==KIND_SHORT? W(3): W(0)));
	W dcb=W(SF)*Ec+(A.fb? w_max(W(0),1-cc): W(0));
	W k0,k1; if(th==0||s==0){ if(k!=0||th!=0) A.ill=true; k0=1-t; k1=t; } else { k0=w_sin(th-psi)/s; k1=w_sin(psi)/s; }
	A.k0=k0; A.k1=k1; A.rho= s==0? W(1e30): dcb/(s*s);
	W dR[4];
	if(k==0 && th<Tr<T>::p2(-8)){ W D1=Dfun<W>(t,th,s,cc), D0=Dfun<W>(1-t,th,s,cc); for(int i=0;i<4;i++) dR[i]=D0*w_abs(xs[i])+D1*w_abs(zs[i]); }
	else if(s==0){ A.ill=true; for(int i=0;i<4;i++) dR[i]=0; }
	else { if((k!=0||th>PI/2) && !(A.rho<=W(1)/16)) A.ill=true;
		W a_=(t-1)*w_sin(psi)/s, b_=(w_sin(psi)*cc-t*w_cos(psi)*s)/(s*s); A.plane=true;
		for(int i=0;i<4;i++){ A.wv[i]=(zh[i]-cc*A.xh[i])/s; dR[i]=w_abs(a_)*w_abs(A.xh[i])+w_abs(b_)*w_abs(A.wv[i]); } }
	// argument roundings: 3-argument forms  sin(fl(fl(1-t) theta)), sin(fl(t theta));  spin form  phi = fl(theta + fl(k pi_T)), sin(fl(theta - fl(t phi))), sin(fl(t phi))
	W tos= (th==0||s==0)? W(1): th/w_abs(s), g0,g1;
	if(kind==KIND_SPIN){ if(th==0||s==0){ g1=2*w_abs(t); g0=g1+w_abs(1-t); } else { g1=w_abs(t)*(2*w_abs(phi)+2*W(k<0?-k:k)*PI)/w_abs(s); g0=g1+w_abs(th-psi)/w_abs(s); } }
	else { g0=2*w_abs(1-t)*tos; g1=2*w_abs(t)*tos; }
	// underflow slack: the products sin(..)*x_i may underflow (half a denormal quantum each) before the division by sin(theta') >= ~sqrt(2 epsilon)
	W US=tiny*(4+4/w_max(w_abs(s),w_sqrt(Tr<T>::eps())));
	W rc=W(kind==KIND_SHORT? 14: 11)+2*nu, e2=0;
	for(int i=0;i<4;i++){ W M=w_abs(k0*xs[i])+w_abs(k1*zs[i]); A.R[i]=k0*xs[i]+k1*zs[i]; A.bd[i]=W(SF)*u*(g0*w_abs(xs[i])+g1*w_abs(zs[i])+rc*M)+dcb*dR[i]+US; e2+=A.bd[i]*A.bd[i]; }
	A.En=w_sqrt(e2);
}

// MPFR evaluation of the same arc point (independent code path, 256 bits)
template<class T> static void arc_mpfr(const T* x,const T* y,int sgn,T tt,int k,long double* out){
	const mpfr_prec_t P=256; mpfr_t xs[4],zs[4],nx,nz,dm,dp,a,b,th,s,phi,psi,k0,k1,t;
	for(int i=0;i<4;i++){ mpfr_init2(xs[i],P); mpfr_init2(zs[i],P); mpfr_set_d(xs[i],(double)x[i],MPFR_RNDN); mpfr_set_d(zs[i],sgn<0? -(double)y[i]: (double)y[i],MPFR_RNDN); }
	mpfr_inits2(P,nx,nz,dm,dp,a,b,th,s,phi,psi,k0,k1,t,(mpfr_ptr)0);
	mpfr_set_ui(nx,0,MPFR_RNDN); mpfr_set_ui(nz,0,MPFR_RNDN);
	for(int i=0;i<4;i++){ mpfr_sqr(a,xs[i],MPFR_RNDN); mpfr_add(nx,nx,a,MPFR_RNDN); mpfr_sqr(a,zs[i],MPFR_RNDN); mpfr_add(nz,nz,a,MPFR_RNDN); }
	mpfr_sqrt(nx,nx,MPFR_RNDN); mpfr_sqrt(nz,nz,MPFR_RNDN); mpfr_set_ui(dm,0,MPFR_RNDN); mpfr_set_ui(dp,0,MPFR_RNDN);
	for(int i=0;i<4;i++){ mpfr_div(a,xs[i],nx,MPFR_RNDN); mpfr_div(b,zs[i],nz,MPFR_RNDN); mpfr_sub(k0,a,b,MPFR_RNDN); mpfr_add(k1,a,b,MPFR_RNDN); mpfr_sqr(k0,k0,MPFR_RNDN); mpfr_sqr(k1,k1,MPFR_RNDN); mpfr_add(dm,dm,k0,MPFR_RNDN); mpfr_add(dp,dp,k1,MPFR_RNDN); }
	mpfr_sqrt(dm,dm,MPFR_RNDN); mpfr_sqrt(dp,dp,MPFR_RNDN); mpfr_atan2(th,dm,dp,MPFR_RNDN); mpfr_mul_2ui(th,th,1,MPFR_RNDN);
	mpfr_set_d(t,(double)tt,MPFR_RNDN); mpfr_const_pi(phi,MPFR_RNDN); mpfr_mul_si(phi,phi,k,MPFR_RNDN); mpfr_add(phi,phi,th,MPFR_RNDN); mpfr_mul(psi,t,phi,MPFR_RNDN);
	if(mpfr_zero_p(th)){ mpfr_ui_sub(k0,1,t,MPFR_RNDN); mpfr_set(k1,t,MPFR_RNDN); }
	else { mpfr_sin(s,th,MPFR_RNDN); mpfr_sub(a,th,psi,MPFR_RNDN); mpfr_sin(a,a,MPFR_RNDN); mpfr_div(k0,a,s,MPFR_RNDN); mpfr_sin(b,psi,MPFR_RNDN); mpfr_div(k1,b,s,MPFR_RNDN); }
	for(int i=0;i<4;i++){ mpfr_mul(a,k0,xs[i],MPFR_RNDN); mpfr_mul(b,k1,zs[i],MPFR_RNDN); mpfr_add(a,a,b,MPFR_RNDN); out[i]=mpfr_get_ld(a,MPFR_RNDN); }
	for(int i=0;i<4;i++){ mpfr_clear(xs[i]); mpfr_clear(zs[i]); } mpfr_clears(nx,nz,dm,dp,a,b,th,s,phi,psi,k0,k1,t,(mpfr_ptr)0);
}

template<class T> static std::string arc_zone(const Arc<T>& A,int kind,bool ambiguous){
	if(A.fb) return "near-parallel(linear-fallback-zone)";
	if(kind==KIND_MIX) return A.theta>Tr<T>::pi()/2? "obtuse": "acute";
	if(ambiguous) return "dot~0(negation-within-rounding)";
	return A.sgn<0? "dot<0(y-negated)": "dot>0";
}
// name the wrong behaviour of a result that is outside the componentwise bound
template<class T> static std::string arc_behaviour(const Arc<T>& A,const T* g,T t,int k,int kind){ TRT
	for(int i=0;i<4;i++) if(!isfinite_b(g[i])) return "returns-non-finite";
	bool zero=true; for(int i=0;i<4;i++) if(g[i]!=0) zero=false; if(zero) return "returns-zero-quaternion";
	if(t==0) return "differs-from-x";
	if(t==1&&k==0) return "differs-from-+-y";
	W n=norm4<T>(g); if(w_abs(n-1)>A.En+8*u) return "not-unit-length";
	if(!A.plane) return "differs-from-arc-point";
	W gx=0,gw=0; for(int i=0;i<4;i++){ gx+=(W)g[i]*A.xh[i]; gw+=(W)g[i]*A.wv[i]; }
	W r2=0; for(int i=0;i<4;i++){ W r=(W)g[i]-gx*A.xh[i]-gw*A.wv[i]; r2+=r*r; } if(w_sqrt(r2)>A.En+8*u) return "off-the-great-circle-through-x-and-y";
	W al=w_atan2(gw,gx); auto adiff=[&](W a,W b){ W d=a-b; d-=2*PI*(W)floorl((long double)((d+PI)/(2*PI))); return w_abs(d); };
	if(k==0 && kind!=KIND_MIX && adiff(al,-(W)t*(PI-A.theta))*4<adiff(al,A.psi)) return "takes-the-long-arc";
	return "wrong-angular-position";
}

// judge one slerp-like result g.  returns 0 = skipped / not judged componentwise, 1 = pass, -1 = fail; `best` is the accepted (or primary) analysis
template<class T> static int judge_arc(const T* x,const T* y,T t,int k,int kind,const T* g,vf::Ctx& c,Arc<T>& best,std::string& zone){ TRT
	W nu=1; if(!unit_ok<T>(x,nu)||!unit_ok<T>(y,nu)){ c.cls("skipped:not-unit-or-non-finite"); return 0; }
	if(!isfinite_b(t)||!(t>=-2&&t<=3)||k<-3||k>3){ c.cls("skipped:t-or-k-out-of-domain"); return 0; }
	W ct=0,S=0; for(int i=0;i<4;i++){ W p=(W)x[i]*(W)y[i]; ct+=p; S+=w_abs(p); }
	bool amb=false; int sg[2]={+1,-1}, ns=1;
	if(kind!=KIND_MIX){ if(w_abs(ct)<=W(SF)*4*u*S+tiny){ amb=true; ns=2; } else if(ct<0) sg[0]=-1; }
	Arc<T> A[2]; for(int j=0;j<ns;j++) arc_eval<T>(x,y,sg[j],t,k,kind,nu,A[j]);
	best=A[0]; zone=arc_zone<T>(A[0],kind,amb);
	std::string pre=zone+":"+tcls((double)t)+(kind==KIND_SPIN? std::string(":")+kcls(k): std::string(""))+":";
	bool finite=true; for(int i=0;i<4;i++) if(!isfinite_b(g[i])) finite=false;
	if(kind==KIND_MIX && A[0].theta>PI-W(1e-2)){ c.cls(finite? "not-judged:near-antipodal(oriented-arc-ill-defined)": "not-judged:near-antipodal(oriented-arc-ill-defined):non-finite-result-observed"); return 0; }
	if(!finite){ c.cls(zone.c_str()); c.fail(pre+"returns-non-finite",sq<T>(g),swq<T,W>(A[0].R)); return -1; }
	if(A[0].ill||(ns==2&&A[1].ill)){ c.cls((zone+":ill-conditioned(only-finiteness-judged)").c_str()); rat(c,"observed-only:ill-conditioned:abs(length-1)",(double)w_abs(norm4<T>(g)-1)); return 0; }
	c.cls(zone.c_str());
	double br=1e300; int bj=0; for(int j=0;j<ns;j++){ double r=0; for(int i=0;i<4;i++){ double q=(double)(w_abs((W)g[i]-A[j].R[i])/A[j].bd[i]); if(!(q<=r)) r=q; } if(r<br){ br=r; bj=j; } }
	best=A[bj]; rat(c,"err/bound",br); rat(c,"unit-length-err/bound",(double)(w_abs(norm4<T>(g)-1)/(best.En+nu*u)));
	if(br<=1) return 1;
	c.fail(pre+arc_behaviour<T>(best,g,t,k,kind),sq<T>(g),swq<T,W>(best.R)); return -1;
}

// ================================================================ slerp(x,y,t)
template<class T> static void k_slerp(const In<T>& in,vf::Ctx& c){ TRT
	T g[4]; Arc<T> A; std::string zone; W nu=1; if(!unit_ok<T>(in.x,nu)||!unit_ok<T>(in.y,nu)) SKIP("not-unit-or-non-finite"); if(!(in.t>=-2&&in.t<=3)) SKIP("t-or-k-out-of-domain");
	outq<T>(glm::slerp(mkq<T>(in.x),mkq<T>(in.y),in.t),g);
	int jr=judge_arc<T>(in.x,in.y,in.t,0,KIND_SLERP,g,c,A,zone);
	{ W d=(w_abs(A.ctrue)-(1-Tr<T>::eps()))/u; c.cls(d<-64? "reach:|dot|-(1-eps)<-64ulp": d<-2? "reach:|dot|-(1-eps)in[-64,-2)ulp": d<=2? "reach:|dot|-(1-eps)in[-2,2]ulp": d<=64? "reach:|dot|-(1-eps)in(2,64]ulp": "reach:|dot|-(1-eps)>64ulp");
	  W z=A.ctrue/u; if(w_abs(z)<=64) c.cls(z==0? "reach:dot==0-exactly": w_abs(z)<=2? "reach:|dot|<=2ulp": "reach:|dot|in(2,64]ulp"); }
	if(jr!=1) return;
	// slerp(x,y,t) = +-slerp(y,x,1-t): both sides are within their bound of the same arc point; fl(1-t) moves the point by at most u|1-t|theta
	T t1=(T)1-in.t, h[4]; outq<T>(glm::slerp(mkq<T>(in.y),mkq<T>(in.x),t1),h);
	double rp=0,rm=0; for(int i=0;i<4;i++){ W b=2*A.bd[i]+W(SF)*u*w_abs((W)t1)*A.theta+4*tiny; double p=(double)(w_abs((W)g[i]-(W)h[i])/b), m=(double)(w_abs((W)g[i]+(W)h[i])/b); if(!(p<=rp)) rp=p; if(!(m<=rm)) rm=m; }
	double r=std::min(rp,rm); rat(c,"symmetry-err/bound",r);
	if(!(r<=1)) c.fail(zone+":"+tcls((double)in.t)+":slerp(x,y,t)!=+-slerp(y,x,1-t)",sq<T>(g),sq<T>(h));
}
// ================================================================ slerp(x,y,t,k)
template<class T> static void k_spin(const In<T>& in,vf::Ctx& c){
	T g[4]; Arc<T> A; std::string zone; typename Tr<T>::W nu=1; if(!unit_ok<T>(in.x,nu)||!unit_ok<T>(in.y,nu)) SKIP("not-unit-or-non-finite"); if(!(in.t>=-2&&in.t<=3)||in.k<-3||in.k>3) SKIP("t-or-k-out-of-domain");
	outq<T>(glm::slerp(mkq<T>(in.x),mkq<T>(in.y),in.t,in.k),g);
	judge_arc<T>(in.x,in.y,in.t,in.k,KIND_SPIN,g,c,A,zone);
}
// ================================================================ mix(x,y,t): oriented arc
template<class T> static void k_mix(const In<T>& in,vf::Ctx& c){ TRT
	T g[4]; Arc<T> A; std::string zone; W nu=1; if(!unit_ok<T>(in.x,nu)||!unit_ok<T>(in.y,nu)) SKIP("not-unit-or-non-finite"); if(!(in.t>=-2&&in.t<=3)) SKIP("t-or-k-out-of-domain");
	outq<T>(glm::mix(mkq<T>(in.x),mkq<T>(in.y),in.t),g);
	if(judge_arc<T>(in.x,in.y,in.t,0,KIND_MIX,g,c,A,zone)!=1) return;
	T t1=(T)1-in.t, h[4]; outq<T>(glm::mix(mkq<T>(in.y),mkq<T>(in.x),t1),h);
	double r=0; for(int i=0;i<4;i++){ W b=2*A.bd[i]+W(SF)*u*w_abs((W)t1)*A.theta*w_max(W(1),w_max(w_abs(A.k0),w_abs(A.k1)))+4*tiny; double p=(double)(w_abs((W)g[i]-(W)h[i])/b); if(!(p<=r)) r=p; }
	rat(c,"symmetry-err/bound",r);
	if(!(r<=1)) c.fail(zone+":"+tcls((double)in.t)+":mix(x,y,t)!=mix(y,x,1-t)",sq<T>(g),sq<T>(h));
}
// ================================================================ lerp(x,y,t): exact affine blend, t in [0,1] (asserted by glm)
// fl(fl(x fl(1-t)) + fl(y t)): |err| <= u (3|x(1-t)| + 2|y t|)
template<class T> static void k_lerp(const In<T>& in,vf::Ctx& c){ TRT
	if(!fin4(in.x)||!fin4(in.y)||!(in.t>=0&&in.t<=1)) SKIP("out-of-domain");
	for(int i=0;i<4;i++) if(w_abs((W)in.x[i])>Tr<T>::p2(30)||w_abs((W)in.y[i])>Tr<T>::p2(30)) SKIP("magnitude-out-of-range");
	T g[4]; outq<T>(glm::lerp(mkq<T>(in.x),mkq<T>(in.y),in.t),g); W r[4],t=in.t; bool bad=false,nf=false;
	for(int i=0;i<4;i++){ W a=(W)in.x[i]*(1-t), b=(W)in.y[i]*t; r[i]=a+b; W bound=W(SF)*u*(3*w_abs(a)+2*w_abs(b))+4*tiny, err=w_abs((W)g[i]-r[i]); if(!isfinite_b(g[i])) nf=true; rat(c,"err/bound",(double)(err/bound)); if(!(err<=bound)) bad=true; }
	c.cls(tcls((double)in.t));
	if(bad) c.fail(std::string(tcls((double)in.t))+(nf? ":returns-non-finite": in.t==0? ":differs-from-x": in.t==1? ":differs-from-y": ":differs-from-x(1-t)+y*t"),sq<T>(g),swq<T,W>(r));
}
// ================================================================ gtx shortMix: end points and unit length (the statement promises no more)
template<class T> static void k_shortmix(const In<T>& in,vf::Ctx& c){ TRT
	W nu=1; if(!unit_ok<T>(in.x,nu)||!unit_ok<T>(in.y,nu)) SKIP("not-unit-or-non-finite"); if(!(in.t>=-2&&in.t<=3)) SKIP("t-or-k-out-of-domain");
	T g[4]; outq<T>(glm::shortMix(mkq<T>(in.x),mkq<T>(in.y),in.t),g);
	T tc= in.t<0? (T)0: in.t>1? (T)1: in.t; // documented clamping: a <= 0 -> x, a >= 1 -> y
	W ct=0,S=0; for(int i=0;i<4;i++){ W p=(W)in.x[i]*(W)in.y[i]; ct+=p; S+=w_abs(p); }
	bool amb= w_abs(ct)<=W(SF)*4*u*S+tiny; Arc<T> A; arc_eval<T>(in.x,in.y,(!amb&&ct<0)? -1: +1,tc,0,KIND_SHORT,nu,A);
	std::string zone=arc_zone<T>(A,KIND_SHORT,amb), pre=zone+":"+tcls((double)in.t)+":"; c.cls(zone.c_str());
	for(int i=0;i<4;i++) if(!isfinite_b(g[i])){ c.fail(pre+"returns-non-finite",sq<T>(g),"unit quaternion"); return; }
	W n=norm4<T>(g), nb=A.En+nu*u; rat(c,"unit-length-err/bound",(double)(w_abs(n-1)/nb));
	if(!(w_abs(n-1)<=nb)){ c.fail(pre+"not-unit-length",sq<T>(g)+" length "+vf::show((T)n),"length 1"); return; }
	if(in.t<=0){ bool ok=true; for(int i=0;i<4;i++) if(!(w_abs((W)g[i]-(W)in.x[i])<=A.bd[i])) ok=false; if(!ok) c.fail(pre+"differs-from-x",sq<T>(g),sq<T>(in.x)); }
	else if(in.t>=1){ bool p=true,m=true; for(int i=0;i<4;i++){ if(!(w_abs((W)g[i]-(W)in.y[i])<=A.bd[i])) p=false; if(!(w_abs((W)g[i]+(W)in.y[i])<=A.bd[i])) m=false; } if(!p&&!m) c.fail(pre+"differs-from-+-y",sq<T>(g),sq<T>(in.y)); }
}
// ================================================================ gtx fastMix = normalize(x(1-t) + y t): end points and unit length
// normalize: dot 4 terms (relative 4u), sqrt (2u+u), reciprocal u, product u: each component relative 5u, independent of the error of the blend
template<class T> static void k_fastmix(const In<T>& in,vf::Ctx& c){ TRT
	W nu=1; if(!unit_ok<T>(in.x,nu)||!unit_ok<T>(in.y,nu)) SKIP("not-unit-or-non-finite"); if(!(in.t>=-2&&in.t<=3)) SKIP("t-or-k-out-of-domain");
	W t=in.t,L[4],n2=0; for(int i=0;i<4;i++){ L[i]=(W)in.x[i]*(1-t)+(W)in.y[i]*t; n2+=L[i]*L[i]; } W n=w_sqrt(n2);
	if(!(n>=Tr<T>::p2(-6))){ // the direction of a (nearly) vanishing blend is ill-conditioned: only "no NaN / infinity comes back" is judged
		T g0[4]; outq<T>(glm::fastMix(mkq<T>(in.x),mkq<T>(in.y),in.t),g0); c.cls(n==0? "blend-exactly-zero(antipodal,t=1/2):finiteness-only":"blend-nearly-zero(antipodal):finiteness-only");
		for(int i=0;i<4;i++) if(!isfinite_b(g0[i])){ c.fail(std::string(n==0? "blend-exactly-zero(antipodal,t=1/2)":"blend-nearly-zero(antipodal)")+":returns-non-finite",sq<T>(g0),"finite quaternion"); break; }
		return; }
	T g[4]; outq<T>(glm::fastMix(mkq<T>(in.x),mkq<T>(in.y),in.t),g); std::string pre=std::string(tcls((double)in.t))+":"; c.cls(tcls((double)in.t));
	for(int i=0;i<4;i++) if(!isfinite_b(g[i])){ c.fail(pre+"returns-non-finite",sq<T>(g),"unit quaternion"); return; }
	W gl=norm4<T>(g), nb=W(SF*5)*u+4*tiny; rat(c,"unit-length-err/bound",(double)(w_abs(gl-1)/nb));
	if(!(w_abs(gl-1)<=nb)){ c.fail(pre+"not-unit-length",sq<T>(g)+" length "+vf::show((T)gl),"length 1"); return; }
	if(in.t==0||in.t==1){ const T* e= in.t==0? in.x: in.y; bool ok=true; for(int i=0;i<4;i++){ W b=W(SF)*(5+nu)*u*w_abs((W)e[i])+4*tiny; if(!(w_abs((W)g[i]-(W)e[i])<=b)) ok=false; }
		if(!ok) c.fail(pre+(in.t==0? "differs-from-x": "differs-from-y"),sq<T>(g),sq<T>(e)); }
}
// ================================================================ gtx squad end points: squad(q1,q2,s1,s2,0) = q1, squad(q1,q2,s1,s2,1) = q2
// inner mix at t in {0,1}: arc bound; outer mix(A,B,0) = fl(fl(sin(theta) A_i + 0)/sin(theta)): 2u |A_i|
template<class T> static void k_squad(const In4<T>& in,vf::Ctx& c){ TRT
	W nu=1; for(int j=0;j<4;j++) if(!unit_ok<T>(in.q[j],nu)) SKIP("not-unit-or-non-finite"); if(!(in.h==0||in.h==1)) SKIP("h-not-an-end-point");
	auto dt=[&](int a,int b){ W d=0; for(int i=0;i<4;i++) d+=(W)in.q[a][i]*(W)in.q[b][i]; return d; };
	if(dt(0,1)<W(-0.99)||dt(2,3)<W(-0.99)||dt(0,2)<W(-0.99)||dt(1,3)<W(-0.99)) SKIP("control-points-nearly-antipodal");
	T g[4]; outq<T>(glm::squad(mkq<T>(in.q[0]),mkq<T>(in.q[1]),mkq<T>(in.q[2]),mkq<T>(in.q[3]),in.h),g);
	Arc<T> A; arc_eval<T>(in.q[0],in.q[1],+1,in.h,0,KIND_MIX,nu,A); const T* e= in.h==0? in.q[0]: in.q[1]; const char* tc= in.h==0? "h=0": "h=1"; c.cls(tc);
	bool nf=false,bad=false; double r=0; for(int i=0;i<4;i++){ if(!isfinite_b(g[i])) nf=true; W b=A.bd[i]+W(SF*2)*u*(w_abs((W)e[i])+A.bd[i])+tiny*(4+4/w_sqrt(Tr<T>::eps())); double q=(double)(w_abs((W)g[i]-(W)e[i])/b); if(!(q<=r)) r=q; if(!(q<=1)) bad=true; }
	rat(c,"err/bound",r);
	if(bad) c.fail(std::string(tc)+(nf? ":returns-non-finite": in.h==0? ":differs-from-q1": ":differs-from-q2"),sq<T>(g),sq<T>(e));
}
// ================================================================ gtx intermediate(prev,curr,next) = exp(-(log(next curr^-1) + log(prev curr^-1))/4) curr
// Domain: neighbours within 1 rad (4D angle) of curr.  Error count (Euclidean norm, unit inputs): inverse 5u, Hamilton product 4u -> 9u per
// component (18u norm) into log, Lipschitz theta/sin(theta) <= 1.19, log's own roundings 8.5u: 30u each, sum 62u, /4: 15.5u, exp 6u + 2u
// (identity returned below epsilon), final product 4u: 28u, plus the ambiguity 4 nu u of not exactly unit inputs.
template<class T> static void k_intermediate(const In4<T>& in,vf::Ctx& c){ TRT
	W nu=1; for(int j=0;j<3;j++) if(!unit_ok<T>(in.q[j],nu)) SKIP("not-unit-or-non-finite");
	const T *pv=in.q[0],*cu=in.q[1],*nx=in.q[2]; W cc[4],n2=0,d1=0,d2=0; for(int i=0;i<4;i++){ cc[i]=cu[i]; n2+=cc[i]*cc[i]; d1+=(W)cu[i]*(W)nx[i]; d2+=(W)cu[i]*(W)pv[i]; }
	if(d1<W(0.5403)||d2<W(0.5403)) SKIP("neighbour-farther-than-1-rad");
	W inv[4]={cc[0]/n2,-cc[1]/n2,-cc[2]/n2,-cc[3]/n2};
	auto mul=[&](const W* p,const W* q,W* o){ o[0]=p[0]*q[0]-p[1]*q[1]-p[2]*q[2]-p[3]*q[3]; o[1]=p[0]*q[1]+p[1]*q[0]+p[2]*q[3]-p[3]*q[2]; o[2]=p[0]*q[2]+p[2]*q[0]+p[3]*q[1]-p[1]*q[3]; o[3]=p[0]*q[3]+p[3]*q[0]+p[1]*q[2]-p[2]*q[1]; };
	auto lg=[&](const W* r,W* o){ W n=w_sqrt(r[1]*r[1]+r[2]*r[2]+r[3]*r[3]); if(n==0){ o[1]=o[2]=o[3]=0; return; } W t=w_atan2(n,r[0])/n; o[1]=t*r[1]; o[2]=t*r[2]; o[3]=t*r[3]; };
	W a[4],b[4],r1[4],r2[4],l1[4],l2[4]; for(int i=0;i<4;i++){ a[i]=nx[i]; b[i]=pv[i]; } mul(a,inv,r1); mul(b,inv,r2); lg(r1,l1); lg(r2,l2);
	W E[4]={0,(l1[1]+l2[1])/-4,(l1[2]+l2[2])/-4,(l1[3]+l2[3])/-4}, An=w_sqrt(E[1]*E[1]+E[2]*E[2]+E[3]*E[3]), ex[4]={1,0,0,0};
	if(An>0){ W sn=w_sin(An)/An; ex[0]=w_cos(An); ex[1]=sn*E[1]; ex[2]=sn*E[2]; ex[3]=sn*E[3]; }
	W R[4]; mul(ex,cc,R);
	T g[4]; outq<T>(glm::intermediate(mkq<T>(pv),mkq<T>(cu),mkq<T>(nx)),g);
	const char* zone= An<16*Tr<T>::eps()? "uniform-key-spacing(|log-sum|/4<16eps)": "generic-keys"; c.cls(zone);
	bool nf=false,zero=true; W e2=0; for(int i=0;i<4;i++){ if(!isfinite_b(g[i])) nf=true; if(g[i]!=0) zero=false; W e=(W)g[i]-R[i]; e2+=e*e; }
	W bound=W(SF)*(28+4*nu)*u+8*tiny, err=w_sqrt(e2); if(!nf) rat(c,An<16*Tr<T>::eps()? "err/bound(uniform-key-spacing)": "err/bound(generic-keys)",(double)(err/bound));
	if(nf||!(err<=bound)){ W gl=norm4<T>(g); c.fail(std::string(zone)+(nf? ":returns-non-finite": zero? ":returns-zero-quaternion": w_abs(gl-1)>bound? ":not-unit-length": ":differs-from-exp(-(log+log)/4)*curr"),sq<T>(g),swq<T,W>(R)); }
}
// ================================================================ gtx dual-quaternion lerp (DLB): x(1-a) + y(+-a), sign from dot(x.real,y.real); a in [0,1]
// q[0]=x.real q[1]=x.dual q[2]=y.real q[3]=y.dual
template<class T> static void k_dqlerp(const In4<T>& in,vf::Ctx& c){ TRT
	W nu=1; if(!unit_ok<T>(in.q[0],nu)||!unit_ok<T>(in.q[2],nu)||!fin4(in.q[1])||!fin4(in.q[3])) SKIP("out-of-domain"); if(!(in.h>=0&&in.h<=1)) SKIP("out-of-domain");
	for(int i=0;i<4;i++) if(w_abs((W)in.q[1][i])>Tr<T>::p2(30)||w_abs((W)in.q[3][i])>Tr<T>::p2(30)) SKIP("magnitude-out-of-range");
	glm::tdualquat<T,Q> X(mkq<T>(in.q[0]),mkq<T>(in.q[1])), Y(mkq<T>(in.q[2]),mkq<T>(in.q[3])), G=glm::lerp(X,Y,in.h);
	T g[2][4]; outq<T>(G.real,g[0]); outq<T>(G.dual,g[1]);
	W ct=0,S=0; for(int i=0;i<4;i++){ W p=(W)in.q[0][i]*(W)in.q[2][i]; ct+=p; S+=w_abs(p); }
	bool amb= w_abs(ct)<=W(SF)*4*u*S+tiny; int sg[2]={ct<0? -1: +1, ct<0? +1: -1}; int ns= amb? 2: 1; W t=in.h;
	std::string zone= amb? "dot~0(sign-within-rounding)": (ct<0? "dot<0(y-negated)": "dot>=0"); c.cls(zone.c_str());
	bool nf=false; for(int p=0;p<2;p++) for(int i=0;i<4;i++) if(!isfinite_b(g[p][i])) nf=true;
	double br=1e300; W R[2][4];
	for(int j=0;j<ns;j++){ double r=0; W Rj[2][4]; for(int p=0;p<2;p++) for(int i=0;i<4;i++){ W a=(W)in.q[p][i]*(1-t), b=(W)in.q[2+p][i]*t*W(sg[j]); Rj[p][i]=a+b; W bound=W(SF)*u*(3*w_abs(a)+2*w_abs(b))+4*tiny; double q=(double)(w_abs((W)g[p][i]-Rj[p][i])/bound); if(!(q<=r)) r=q; }
		if(j==0||r<br){ br=r; memcpy(R,Rj,sizeof R); } }
	if(!nf) rat(c,"err/bound",br);
	if(nf||!(br<=1)){ const char* what= nf? "returns-non-finite": in.h==0? "differs-from-x": in.h==1? "differs-from-+-y": "differs-from-x(1-a)+-y*a";
		c.fail(zone+":"+tcls((double)in.h)+":"+what,"real "+sq<T>(g[0])+" dual "+sq<T>(g[1]),"real "+swq<T,W>(R[0])+" dual "+swq<T,W>(R[1])); }
}
// ================================================================ gtx/compatibility lerp aliases: x(1-a) + y a for scalars and vec2/3/4 (scalar and vector a, a unrestricted)
// q[0]=x q[1]=y q[2]=a (vector form), h = a (scalar form); k = length 1..4; mode bit0 = vector a
template<class T,int L> static void compat_call(const In4<T>& in,T* g){
	bool va=in.mode&1;
	if constexpr(L==1){ g[0]=glm::lerp(in.q[0][0],in.q[1][0],va? in.q[2][0]: in.h); }
	else { glm::vec<L,T,Q> X,Y,Av,G; for(int i=0;i<L;i++){ X[i]=in.q[0][i]; Y[i]=in.q[1][i]; Av[i]=in.q[2][i]; } G= va? glm::lerp(X,Y,Av): glm::lerp(X,Y,in.h); for(int i=0;i<L;i++) g[i]=G[i]; }
}
template<class T> static void k_compat(const In4<T>& in,vf::Ctx& c){ TRT
	int L=in.k; if(L<1||L>4) SKIP("bad-length"); bool va=in.mode&1;
	for(int i=0;i<L;i++){ W a= va? (W)in.q[2][i]: (W)in.h; if(!isfinite_b(in.q[0][i])||!isfinite_b(in.q[1][i])||!(a>=-2&&a<=3)||w_abs((W)in.q[0][i])>Tr<T>::p2(30)||w_abs((W)in.q[1][i])>Tr<T>::p2(30)) SKIP("out-of-domain"); }
	T g[4]={0,0,0,0}; switch(L){ case 1: compat_call<T,1>(in,g); break; case 2: compat_call<T,2>(in,g); break; case 3: compat_call<T,3>(in,g); break; default: compat_call<T,4>(in,g); }
	W r[4]; bool bad=false,nf=false; for(int i=0;i<L;i++){ W t= va? (W)in.q[2][i]: (W)in.h, a=(W)in.q[0][i]*(1-t), b=(W)in.q[1][i]*t; r[i]=a+b; W bound=W(SF)*u*(3*w_abs(a)+2*w_abs(b))+4*tiny, err=w_abs((W)g[i]-r[i]); if(!isfinite_b(g[i])) nf=true; rat(c,"err/bound",(double)(err/bound)); if(!(err<=bound)) bad=true; }
	std::string pre= std::string(L==1? "scalar": L==2? "vec2": L==3? "vec3": "vec4")+(va&&L>1? ":vector-a": ":scalar-a"); c.cls(pre.c_str());
	if(bad) c.fail(pre+(nf? ":returns-non-finite": ":differs-from-x(1-a)+y*a"),sq<T>(g,L),swq<T,W>(r,L));
}

// ---------------------------------------------------------------- op registration
#define F9(F)  F F F F F F F F F "ii"
#define F17(F) F F F F F F F F F F F F F F F F F "ii"
typedef In<float> In_f; typedef In<double> In_d; typedef In4<float> In4_f; typedef In4<double> In4_d;
#define DEF_TYPE(T_,TN,F) \
	VF_OP(slerp_##TN, In_##TN, F9(F)){ k_slerp<T_>(in,c); } \
	VF_OP(slerp_spin_##TN, In_##TN, F9(F)){ k_spin<T_>(in,c); } \
	VF_OP(mix_##TN, In_##TN, F9(F)){ k_mix<T_>(in,c); } \
	VF_OP(lerp_##TN, In_##TN, F9(F)){ k_lerp<T_>(in,c); } \
	VF_OP(shortMix_##TN, In_##TN, F9(F)){ k_shortmix<T_>(in,c); } \
	VF_OP(fastMix_##TN, In_##TN, F9(F)){ k_fastmix<T_>(in,c); } \
	VF_OP(squad_endpoints_##TN, In4_##TN, F17(F)){ k_squad<T_>(in,c); } \
	VF_OP(intermediate_##TN, In4_##TN, F17(F)){ k_intermediate<T_>(in,c); } \
	VF_OP(dualquat_lerp_##TN, In4_##TN, F17(F)){ k_dqlerp<T_>(in,c); } \
	VF_OP(compat_lerp_##TN, In4_##TN, F17(F)){ k_compat<T_>(in,c); }
DEF_TYPE(float,f,"f")
DEF_TYPE(double,d,"d")
struct Ops { vf::Op *slerp,*spin,*mix,*lerp,*shortmix,*fastmix,*squad,*inter,*dq,*compat; };
#define OPS(TN) Ops{&slerp_##TN,&slerp_spin_##TN,&mix_##TN,&lerp_##TN,&shortMix_##TN,&fastMix_##TN,&squad_endpoints_##TN,&intermediate_##TN,&dualquat_lerp_##TN,&compat_lerp_##TN}

// ---------------------------------------------------------------- workload
template<class T> struct Gen { typedef long double LD;
	vf::Rng& r; bool forceT; explicit Gen(vf::Rng& r_):r(r_),forceT(false){}
	// round a long double 4-vector to a unit quaternion of T: normalised in long double (|q| = 1 within u) or in T arithmetic (within ~3u)
	void finish(const LD* v,T* q){ LD n=0; for(int i=0;i<4;i++) n+=v[i]*v[i]; n=sqrtl(n);
		if(forceT||r.below(5)==0){ T f[4],d=0; for(int i=0;i<4;i++){ f[i]=(T)v[i]; d+=f[i]*f[i]; } T l=std::sqrt(d); for(int i=0;i<4;i++) q[i]=f[i]/l; }
		else for(int i=0;i<4;i++) q[i]=(T)(v[i]/n); }
	void rawdir(LD* v){ for(;;){ int m=(int)r.below(8); LD n=0;
			for(int i=0;i<4;i++){ switch(m){ case 0: case 1: case 2: case 3: v[i]=r.gauss(); break; case 4: v[i]= r.coin()? 0: r.uniform(-1,1); break; case 5: v[i]=r.logmag(-30,0); break; case 6: v[i]=(LD)r.range(-2,2); break; default: v[i]= r.coin()? 1: -1; } n+=v[i]*v[i]; }
			if(m==7 && r.coin()){ for(int i=0;i<4;i++) v[i]=0; v[r.below(4)]= r.coin()? 1: -1; n=1; }
			if(n>1e-30L){ n=sqrtl(n); for(int i=0;i<4;i++) v[i]/=n; return; } } }
	void unit(T* q){ LD v[4]; rawdir(v); finish(v,q); }
	// unit tangent at x (long double Gram-Schmidt)
	void tangent(const LD* x,LD* w){ for(;;){ LD v[4],d=0,n=0; rawdir(v); for(int i=0;i<4;i++) d+=v[i]*x[i]; for(int i=0;i<4;i++){ w[i]=v[i]-d*x[i]; n+=w[i]*w[i]; } if(n>1e-6L){ n=sqrtl(n); for(int i=0;i<4;i++) w[i]/=n; return; } } }
	static LD ulp1(){ return std::is_same<T,float>::value? ldexpl(1.0L,-24): ldexpl(1.0L,-53); } // spacing of T just below 1
	static LD epsT(){ return 2*ulp1(); }
	// a pair (x,y) of unit quaternions at a chosen 4D separation
	void pair(T* x,T* y){ LD xv[4],w[4]; int m=(int)r.below(16); rawdir(xv); forceT= m==10&&r.coin(); finish(xv,x); forceT=false; LD xn=0; for(int i=0;i<4;i++){ xv[i]=x[i]; xn+=xv[i]*xv[i]; } xn=sqrtl(xn); for(int i=0;i<4;i++) xv[i]/=xn; tangent(xv,w);
		static const int J[]={0,1,-1,2,-2,64,-64,3,-3,8,-8,1000,-1000}; const LD PI=3.14159265358979323846264338327950288L; LD th;
		switch(m){
		case 0: case 1: case 2: th=r.uniform(0,(double)PI); break;                                                       // anywhere
		case 3: case 4: th=powl(10.0L,(LD)r.uniform(-9,0.49)); if(r.coin()) th=PI-th; break;                                 // 1e-9 .. pi-1e-9, log spaced, both ends
		case 5: case 6: case 7: { LD cth=1-epsT()+J[r.below(13)]*ulp1()*(r.coin()? 1: (LD)r.uniform(0,1)); if(cth>1) cth=1; th=acosl(cth); if(r.below(3)==0) th=PI-th; } break; // around the fallback threshold (and its mirror image)
		case 8: case 9: th=PI/2+J[r.below(13)]*ulp1()*(r.coin()? 1: (LD)r.uniform(0,4)); break;                                // around dot = 0
		case 10: { int q=(int)r.below(4); if(q==0){ for(int i=0;i<4;i++) y[i]=x[i]; return; } if(q==1){ for(int i=0;i<4;i++) y[i]=-x[i]; return; }
			for(int i=0;i<4;i++){ y[i]= q==3? -x[i]: x[i]; } int i=(int)r.below(4); y[i]=std::nextafter(y[i],r.coin()? (T)4: (T)-4); return; }                               // identical, antipodal, 1-ulp neighbours
		case 11: { // exactly orthogonal in T arithmetic: sign-permuted copy (products cancel pairwise in any summation order), disjoint supports, half-turn pairs
			int q=(int)r.below(4); T sg= r.coin()? (T)1: (T)-1;
			if(q==0){ y[0]=-x[1]*sg; y[1]=x[0]*sg; y[2]=-x[3]*sg; y[3]=x[2]*sg; return; }
			if(q==1){ y[0]=-x[2]*sg; y[2]=x[0]*sg; y[1]=-x[3]*sg; y[3]=x[1]*sg; return; }
			if(q==2){ static const T H=(T)0.5; T a[4]={H,H,H,H}, b[4]={H,-H,H,-H}; if(r.coin()){ b[1]=H; b[2]=-H; } for(int i=0;i<4;i++){ x[i]=a[i]*sg; y[i]=b[i]; } return; }
			{ for(int i=0;i<4;i++){ x[i]=0; y[i]=0; } int i=(int)r.below(4), j=(int)r.below(3); if(j>=i) j++; x[i]=sg; y[j]= r.coin()? (T)1: (T)-1; if(r.coin()){ LD a=r.uniform(0,6.28); int k2=0; while(k2==i||k2==j) k2++; LD v[4]={0,0,0,0}; v[i]=cosl(a); v[k2]=sinl(a); finish(v,x); } return; } }
		case 12: th=powl(10.0L,(LD)r.uniform(-4.5,-2)); if(std::is_same<T,double>::value && r.coin()) th=powl(10.0L,(LD)r.uniform(-8.5,-6.5)); if(r.below(4)==0) th=PI-th; break; // just outside the fallback zone
		case 13: { static const LD A[]={0.5L,0.25L,1.0L/3,2.0L/3,0.75L,1.0L/6}; th=PI*A[r.below(6)]; } break;                   // rational multiples of pi
		default: th=r.uniform(0.05,1.5); if(r.coin()) th=PI-th; }
		LD yv[4],cs=cosl(th),sn=sinl(th); for(int i=0;i<4;i++) yv[i]=cs*xv[i]+sn*w[i]; finish(yv,y); }
	T tval(){ static const double TS[]={-2,-1,0,0.25,0.5,0.75,1,2,3}; int m=(int)r.below(10); if(m<6) return (T)TS[r.below(9)]; if(m<9) return (T)r.uniform(-2,3);
		double e=std::exp2(-r.uniform(1,30)); switch(r.below(4)){ case 0: return (T)e; case 1: return (T)-e; case 2: return (T)(1-e); default: return (T)(1+e); } }
	T t01(){ static const double TS[]={0,0.25,0.5,0.75,1,0,1}; int m=(int)r.below(10); if(m<5) return (T)TS[r.below(7)]; if(m<9) return (T)r.unit(); double e=std::exp2(-r.uniform(1,30)); return r.coin()? (T)e: (T)(1-e); }
	void anyq(T* q,int erange){ for(int i=0;i<4;i++){ int m=(int)r.below(6); q[i]= m<3? (T)r.uniform(-1,1): m==3? (T)r.range(-3,3): m==4? (T)0: (T)r.logmag(-erange,erange); } }
};
template<class T> static In<T> mkin(const T* x,const T* y,T t,int k){ In<T> in; memset(&in,0,sizeof in); for(int i=0;i<4;i++){ in.x[i]=x[i]; in.y[i]=y[i]; } in.t=t; in.k=k; in.mode=0; return in; }

template<class T> static void run_type(const char* label,Ops o,vf::u64 n){
	typedef typename Tr<T>::W W;
	{ // reference self-check: W evaluation of the arc point against 256-bit MPFR
		vf::Rng rr(vf::cfg().seed*0x9e3779b97f4a7c15ULL ^ vf::hash_str(label)); Gen<T> g(rr); double worst=0; int judged=0;
		for(int it=0;it<4000;it++){ T x[4],y[4]; g.pair(x,y); T t=g.tval(); int k= it%3? 0: rr.range(-3,3); W nu=1; if(!unit_ok<T>(x,nu)||!unit_ok<T>(y,nu)) continue;
			Arc<T> A; arc_eval<T>(x,y,+1,t,k,k? KIND_SPIN: KIND_MIX,nu,A); if(A.ill||A.theta>Tr<T>::pi()-W(1e-2)) continue; long double m[4]; arc_mpfr<T>(x,y,+1,t,k,m); judged++;
			for(int i=0;i<4;i++){ double d=(double)w_abs(A.R[i]-(W)m[i]); if(d>worst) worst=d; } }
		// the MPFR result is read back as long double (2^-64 relative); the W evaluation goes through theta = 2 atan2(..) and sin(t phi)/sin(theta),
		// up to ~10^3 W-ulps for the worst conditioned samples that are still judged: limits 2^-44 (long double oracle; float tolerance >= 2^-24) and 2^-58 (read-back limited, __float128 oracle)
		double lim= std::is_same<T,float>::value? std::ldexp(1.0,-44): std::ldexp(1.0,-58);
		char b[160]; snprintf(b,sizeof b,"%d samples, max |W - MPFR(256 bit)| = %.3g, limit %.3g",judged,worst,lim); vf::note(std::string("reference-crosscheck-")+label,b);
		if(!(worst<=lim)||judged<1000){ fprintf(stderr,"C13: reference cross-check failed for %s: %s\n",label,b); exit(2); }
	}
	vf::parallel(label,[&](int t,int TT,vf::Ctx& c){ Gen<T> g(c.rng); vf::Rng& r=c.rng;
#define RUN(OP,IN) do{ if(vf::want(*o.OP)) vf::run(c,*o.OP,IN); }while(0)
		for(vf::u64 it=t;it<n;it+=TT){ T x[4],y[4]; g.pair(x,y); T tv=g.tval(); int k= r.below(5)<2? 0: r.range(-3,3);
			if(r.below(8)==0){ T s[4]; memcpy(s,x,sizeof s); memcpy(x,y,sizeof s); memcpy(y,s,sizeof s); }
			In<T> a=mkin<T>(x,y,tv,0), b=mkin<T>(x,y,tv,k);
			RUN(slerp,a); RUN(spin,b); RUN(mix,a); RUN(shortmix,a); RUN(fastmix,a);
			{ // lerp: unit pairs and arbitrary finite quaternions, t in [0,1]
				T p[4],q[4]; if(r.coin()){ memcpy(p,x,sizeof p); memcpy(q,y,sizeof q); } else { g.anyq(p,20); g.anyq(q,20); } In<T> l=mkin<T>(p,q,g.t01(),0); RUN(lerp,l); }
			if(it%2==0){ // squad end points: control points around x
				In4<T> s; memset(&s,0,sizeof s); memcpy(s.q[0],x,sizeof x); memcpy(s.q[1],y,sizeof y); if(r.coin()){ g.unit(s.q[2]); g.unit(s.q[3]); } else { T d[4]; g.pair(s.q[2],d); memcpy(s.q[3], r.coin()? y: d, sizeof d); if(r.coin()) memcpy(s.q[2],x,sizeof x); }
				s.h= r.coin()? (T)0: (T)1; RUN(squad,s); }
			if(it%2==1){ // intermediate: uniformly spaced keys (prev = r^-1 curr, next = r curr, incl. r = identity), and generic neighbours
				typedef long double LD; In4<T> s; memset(&s,0,sizeof s); LD cv[4],rv[4],ax[3],an=0; T cu[4]; g.unit(cu); for(int i=0;i<4;i++) cv[i]=cu[i];
				for(int i=0;i<3;i++){ ax[i]=r.gauss(); an+=ax[i]*ax[i]; } an=sqrtl(an)+1e-30L; int m=(int)r.below(6); LD ang= m==0? 0: m==1? powl(10.0L,(LD)r.uniform(-9,-1)): r.uniform(0,0.9);
				rv[0]=cosl(ang); for(int i=0;i<3;i++) rv[i+1]=sinl(ang)*ax[i]/an;
				auto mul=[&](const LD* p,const LD* q,LD* ov){ ov[0]=p[0]*q[0]-p[1]*q[1]-p[2]*q[2]-p[3]*q[3]; ov[1]=p[0]*q[1]+p[1]*q[0]+p[2]*q[3]-p[3]*q[2]; ov[2]=p[0]*q[2]+p[2]*q[0]+p[3]*q[1]-p[1]*q[3]; ov[3]=p[0]*q[3]+p[3]*q[0]+p[1]*q[2]-p[2]*q[1]; };
				LD ri[4]={rv[0],-rv[1],-rv[2],-rv[3]},pv[4],nv[4]; mul(ri,cv,pv); mul(rv,cv,nv);
				memcpy(s.q[1],cu,sizeof cu); g.finish(pv,s.q[0]); g.finish(nv,s.q[2]);
				if(m>=4){ LD r2[4],a2[3],n2=0; for(int i=0;i<3;i++){ a2[i]=r.gauss(); n2+=a2[i]*a2[i]; } n2=sqrtl(n2)+1e-30L; LD g2=r.uniform(0,0.9); r2[0]=cosl(g2); for(int i=0;i<3;i++) r2[i+1]=sinl(g2)*a2[i]/n2; mul(r2,cv,nv); g.finish(nv,s.q[2]); }
				if(m==0 && r.coin()){ memcpy(s.q[0],cu,sizeof cu); memcpy(s.q[2],cu,sizeof cu); }
				RUN(inter,s); }
			{ // dual-quaternion lerp: real parts = the unit pair, dual parts arbitrary
				In4<T> s; memset(&s,0,sizeof s); memcpy(s.q[0],x,sizeof x); memcpy(s.q[2],y,sizeof y); g.anyq(s.q[1],10); g.anyq(s.q[3],10); s.h=g.t01(); RUN(dq,s); }
			{ // compatibility lerp aliases
				In4<T> s; memset(&s,0,sizeof s); g.anyq(s.q[0],20); g.anyq(s.q[1],20); for(int i=0;i<4;i++) s.q[2][i]=g.tval(); s.h=g.tval(); s.k=1+(int)(it%4); s.mode=(int)(r.next()&1); if(s.k==1) s.mode=0; RUN(compat,s); }
		}
#undef RUN
	});
}

static void workload(){
	vf::note("qualifier", Q==glm::defaultp? "packed (default) qualifier": "aligned_highp (SIMD specialisations of quaternion dot/add/mul/div for float when GLM_FORCE_INTRINSICS is set)");
#if defined(GLM_FORCE_QUAT_DATA_WXYZ)
	vf::note("quaternion-layout","GLM_FORCE_QUAT_DATA_WXYZ");
#elif defined(GLM_FORCE_QUAT_DATA_XYZW)
	vf::note("quaternion-layout","GLM_FORCE_QUAT_DATA_XYZW (constructor argument order x,y,z,w)");
#else
	vf::note("quaternion-layout","default");
#endif
	if(vf::cfg().only.empty()||vf::cfg().only.find("_f")!=std::string::npos||vf::cfg().only.find("_d")==std::string::npos) run_type<float>("float",OPS(f),vf::N(800000,12000000));
	if(vf::cfg().only.empty()||vf::cfg().only.find("_d")!=std::string::npos||vf::cfg().only.find("_f")==std::string::npos) run_type<double>("double",OPS(d),vf::N(250000,3000000));
}
VF_MAIN("C13_interp")
