// C11 — vec4<float> overloads of the common functions obey the same per-value definitions, lane by lane.
// Built three ways by fw/props/C11.py: pure, GLM_FORCE_INTRINSICS at SSE2 level (hand-written glm_vec4_floor/ceil/round
// fallbacks of glm/simd/common.h) and at AVX2 level (_mm_floor_ps ... ), with default-aligned vec4.
// Every lane carries a different value; NaN lanes are not judged but must not disturb their neighbours.
// In SIMD builds the arguments of the rounding family are kept within |x| <= 2^22 (the range the SSE2 add/subtract-2^23
// technique is designed for); the pure build sees the whole lattice.
#include "vf.hpp"
#include "ref.hpp"
#include <glm/glm.hpp>
#include <glm/ext/scalar_common.hpp>
#include <glm/ext/vector_common.hpp>
using namespace ref;
typedef long double LD;

#if GLM_CONFIG_SIMD == GLM_ENABLE
static const bool kSimd = true;
#else
static const bool kSimd = false;
#endif

// ---------------------------------------------------------------- bit-level references (binary32)
static inline int uexp(float x){ return (int)((fbits(x) >> 23) & 0xff) - 127; }
static inline float r_abs(float x){ return bitsf(fbits(x) & 0x7fffffffu); }
static inline float r_trunc(float x){ u32 b = fbits(x); int e = uexp(x); if(e < 0) return bitsf(b & 0x80000000u); if(e >= 23) return x; return bitsf(b & ~((1u << (23 - e)) - 1)); }
enum FracCmp { FC_INT, FC_BELOW, FC_TIE, FC_ABOVE };
static inline FracCmp r_fraccmp(float x, bool& odd){
	u32 b = fbits(x) & 0x7fffffffu; int e = uexp(x); odd = false; if(b == 0) return FC_INT; if(e < -1) return FC_BELOW; if(e == -1) return (b & 0x7fffff) ? FC_ABOVE : FC_TIE;
	u32 sig = (b & 0x7fffff) | 0x800000; if(e >= 23){ odd = e == 23 ? (sig & 1) : false; return FC_INT; }
	int fb = 23 - e; u32 frac = sig & ((1u << fb) - 1), half = 1u << (fb - 1); odd = (sig >> fb) & 1; return frac == 0 ? FC_INT : frac < half ? FC_BELOW : frac == half ? FC_TIE : FC_ABOVE; }
static inline float r_floor(float x){ float t = r_trunc(x); return (signbit_b(x) && t != x) ? t - 1.0f : t; }
static inline float r_ceil(float x){ float t = r_trunc(x); return (!signbit_b(x) && t != x) ? t + 1.0f : t; }
static inline float r_away(float x){ float t = r_trunc(x); return signbit_b(x) ? t - 1.0f : t + 1.0f; }
static inline bool veq(float a, float b){ return !isnan_b(a) && !isnan_b(b) && a == b; }
static inline bool fin(float x){ return isfinite_b(x); }
static const LD U32F = 5.9604644775390625e-8L;     // unit roundoff 2^-24
static const LD DEN = 1.401298464324817e-45L;      // min subnormal
static const LD MAXF = 3.4028234663852886e38L;

static std::string in_class(float x){
	if(isinf_b(x)) return "inf-lane"; bool odd; FracCmp f = r_fraccmp(x, odd); std::string s = signbit_b(x) ? "neg-" : "pos-";
	if(r_abs(x) == 0.0f) return s + "zero-lane";
	s += f == FC_INT ? "integer-lane" : f == FC_TIE ? (odd ? "tie-above-odd-lane" : "tie-above-even-lane") : f == FC_BELOW ? "frac<0.5-lane" : "frac>0.5-lane";
	return s + (uexp(x) >= 23 ? ":|x|>=2^23" : "");
}
static std::string obs_class(float got, float want){
	if(isnan_b(got)) return "returns-nan"; if(isinf_b(got)) return "returns-inf"; if(r_trunc(got) != got) return "returns-non-integer";
	if(got == want + 1.0f) return "returns-want+1"; if(got == want - 1.0f) return "returns-want-1"; if(got == -want) return "returns-sign-flipped"; return "returns-other-integer";
}
struct V1 { float x[4]; };
struct V2 { float x[4], y[4]; };
struct V3 { float x[4], y[4], z[4]; };
static inline glm::vec4 mk(const float* p){ return glm::vec4(p[0], p[1], p[2], p[3]); }
// domain of the rounding family in this build
static inline bool round_dom(float x){ return !isnan_b(x) && (!kSimd || (isfinite_b(x) && r_abs(x) <= 4194304.0f)); }

enum { K_FLOOR, K_CEIL, K_TRUNC, K_ROUND, K_ROUNDEVEN };
template<int K> static void k_rounding(const V1& in, vf::Ctx& c){
	glm::vec4 v = mk(in.x); glm::vec4 g = K == K_FLOOR ? glm::floor(v) : K == K_CEIL ? glm::ceil(v) : K == K_TRUNC ? glm::trunc(v) : K == K_ROUND ? glm::round(v) : glm::roundEven(v);
	for(int l = 0; l < 4; l++){ float x = in.x[l], got = g[l]; if(!round_dom(x)){ c.cls("lane-outside-domain:not-judged"); continue; }
		if(isinf_b(x)){ if(K == K_ROUNDEVEN) continue; /* scalar roundEven(inf) is judged by C11_common */ if(!veq(got, x)) c.fail(in_class(x) + ":" + obs_class(got, x), got, x); continue; }
		bool odd; FracCmp f = r_fraccmp(x, odd); float tr = r_trunc(x);
		float want = K == K_FLOOR ? r_floor(x) : K == K_CEIL ? r_ceil(x) : K == K_TRUNC ? tr : K == K_ROUNDEVEN ? ((f == FC_ABOVE || (f == FC_TIE && odd)) ? r_away(x) : tr) : ((f == FC_ABOVE || f == FC_TIE) ? r_away(x) : tr);
		c.cls(f == FC_INT ? "integer-lane" : f == FC_TIE ? "tie-lane" : "fraction-lane");
		bool ok = veq(got, want); if(!ok && K == K_ROUND && f == FC_TIE) ok = veq(got, tr);
		if(!ok) c.fail(in_class(x) + ":" + obs_class(got, want), got, want); }
}
static void k_fract(const V1& in, vf::Ctx& c){
	glm::vec4 g = glm::fract(mk(in.x));
	for(int l = 0; l < 4; l++){ float x = in.x[l], got = g[l]; if(!round_dom(x) || !fin(x)){ c.cls("lane-outside-domain:not-judged"); continue; }
		float want = x - r_floor(x); bool odd; FracCmp f = r_fraccmp(x, odd); c.cls(f == FC_INT ? "integer-lane" : "fraction-lane");
		std::string k = std::string(signbit_b(x) && x != 0.0f ? "neg-" : "nonneg-") + (f == FC_INT ? "integer-lane" : "fraction-lane");
		if(isnan_b(got) || got < 0.0f || got > 1.0f) c.fail(k + (isnan_b(got) ? ":returns-nan" : ":outside-[0,1]"), got, want);
		else if(!veq(got, want)) c.fail(k + ":not-x-minus-floor(x)", got, want); }
}
static void k_abs_sign(const V1& in, vf::Ctx& c){
	glm::vec4 v = mk(in.x); glm::vec4 ga = glm::abs(v), gs = glm::sign(v);
	for(int l = 0; l < 4; l++){ float x = in.x[l]; if(isnan_b(x)){ c.cls("nan-lane:not-judged"); continue; }
		float wa = r_abs(x), ws = wa == 0.0f ? 0.0f : signbit_b(x) ? -1.0f : 1.0f; const char* k = wa == 0.0f ? "zero-lane" : signbit_b(x) ? "neg-lane" : "pos-lane"; c.cls(k);
		if(!veq(ga[l], wa)) c.fail(std::string(k) + ":abs-wrong", ga[l], wa);
		if(!veq(gs[l], ws)) c.fail(std::string(k) + ":sign-wrong", gs[l], ws); }
}
// mod, lane by lane (same oracle as the scalar monitor); sc = vec-scalar overload
static void judge_mod(vf::Ctx& c, float x, float y, float got, const char* form){
	if(!fin(x) || !fin(y) || y == 0.0f){ c.cls("lane-outside-domain:not-judged"); return; }
	LD q = (LD)x / (LD)y; if(std::fabs(q) > (kSimd ? (LD)4194304 : MAXF / 4)){ c.cls("lane-outside-domain:not-judged"); return; }
	LD eq = 1.001L * U32F * std::fabs(q) + DEN, nlo = std::floor(q - eq), nhi = std::floor(q + eq);
	LD rlo = (LD)x - (LD)y * nlo, rhi = (LD)x - (LD)y * nhi; if(rlo > rhi) std::swap(rlo, rhi);
	LD S = std::max(std::fabs((LD)x), std::max(std::fabs((LD)y * nlo), std::fabs((LD)y * nhi))); if(S > MAXF / 4){ c.cls("lane-outside-domain:not-judged"); return; }
	LD bound = 6 * U32F * S + 2 * DEN, g = got, err = isnan_b(got) ? HUGE_VALL : g < rlo ? rlo - g : g > rhi ? g - rhi : 0; c.ratio("mod:err/bound", (double)std::min(err / bound, (LD)1e30));
	c.cls(nlo != nhi ? "quotient-near-integer-lane" : "generic-lane");
	if(!(err <= bound)) c.fail(std::string(form) + (nlo != nhi ? ":quotient-near-integer" : q == std::floor(q) ? ":integer-quotient" : ":generic") + (isnan_b(got) ? ":returns-nan" : ":error>bound"), vf::show(got), vf::show(rlo) + " .. " + vf::show(rhi) + " +- " + vf::show(bound));
}
static void k_mod(const V2& in, vf::Ctx& c){
	glm::vec4 g = glm::mod(mk(in.x), mk(in.y)), gs = glm::mod(mk(in.x), in.y[0]);
	for(int l = 0; l < 4; l++){ judge_mod(c, in.x[l], in.y[l], g[l], "vec,vec"); judge_mod(c, in.x[l], in.y[0], gs[l], "vec,scalar"); }
}
static void k_minmaxstep(const V2& in, vf::Ctx& c){
	glm::vec4 a = mk(in.x), b = mk(in.y); glm::vec4 gmin = glm::min(a, b), gmax = glm::max(a, b), gst = glm::step(a, b), gmin_s = glm::min(a, in.y[0]), gmax_s = glm::max(a, in.y[0]), gst_s = glm::step(in.x[0], b);
	for(int l = 0; l < 4; l++){ float x = in.x[l], y = in.y[l], y0 = in.y[0], x0 = in.x[0];
		if(!isnan_b(x) && !isnan_b(y)){ c.cls(x < y ? "x<y" : x == y ? "x=y" : "x>y");
			float wmin = y < x ? y : x, wmax = x < y ? y : x, wst = y < x ? 0.0f : 1.0f; const char* k = x < y ? "x<y" : x == y ? "x=y" : "x>y";
			if(!veq(gmin[l], wmin)) c.fail(std::string("min(vec,vec):") + k + ":wrong", gmin[l], wmin);
			if(!veq(gmax[l], wmax)) c.fail(std::string("max(vec,vec):") + k + ":wrong", gmax[l], wmax);
			if(!veq(gst[l], wst)) c.fail(std::string("step(edge=x,y):") + k + ":wrong", gst[l], wst); }
		else c.cls("nan-lane:not-judged");
		if(!isnan_b(x) && !isnan_b(y0)){ float wmin = y0 < x ? y0 : x, wmax = x < y0 ? y0 : x; const char* k = x < y0 ? "x<y" : x == y0 ? "x=y" : "x>y";
			if(!veq(gmin_s[l], wmin)) c.fail(std::string("min(vec,scalar):") + k + ":wrong", gmin_s[l], wmin);
			if(!veq(gmax_s[l], wmax)) c.fail(std::string("max(vec,scalar):") + k + ":wrong", gmax_s[l], wmax); }
		if(!isnan_b(x0) && !isnan_b(y)){ float wst = y < x0 ? 0.0f : 1.0f; if(!veq(gst_s[l], wst)) c.fail(std::string("step(scalar-edge,vec):") + (y < x0 ? "x<edge" : y == x0 ? "x=edge" : "x>edge") + ":wrong", gst_s[l], wst); }
	}
}
static void k_clamp(const V3& in, vf::Ctx& c){
	glm::vec4 g = glm::clamp(mk(in.x), mk(in.y), mk(in.z)); bool sok = !isnan_b(in.y[0]) && !isnan_b(in.z[0]) && in.y[0] <= in.z[0]; glm::vec4 gs = sok ? glm::clamp(mk(in.x), in.y[0], in.z[0]) : glm::vec4(0);
	for(int l = 0; l < 4; l++){ float x = in.x[l], lo = in.y[l], hi = in.z[l];
		if(isnan_b(x) || isnan_b(lo) || isnan_b(hi) || lo > hi) c.cls("lane-outside-domain:not-judged");
		else { const char* k = x < lo ? "x<minVal" : x > hi ? "x>maxVal" : "inside"; c.cls(k); float want = x < lo ? lo : x > hi ? hi : x; if(!veq(g[l], want)) c.fail(std::string("vec,vec,vec:") + k + ":wrong", g[l], want); }
		if(sok && !isnan_b(x)){ float l0 = in.y[0], h0 = in.z[0]; const char* k = x < l0 ? "x<minVal" : x > h0 ? "x>maxVal" : "inside"; float want = x < l0 ? l0 : x > h0 ? h0 : x; if(!veq(gs[l], want)) c.fail(std::string("vec,scalar,scalar:") + k + ":wrong", gs[l], want); }
	}
}
static void judge_tol(vf::Ctx& c, const std::string& k, const char* rname, float got, LD ref, LD bound){
	LD err = isnan_b(got) ? HUGE_VALL : std::fabs((LD)got - ref); c.ratio(rname, (double)std::min(err / bound, (LD)1e30));
	if(!(err <= bound)) c.fail(k + (isnan_b(got) ? ":returns-nan" : isinf_b(got) ? ":returns-inf" : ":error>bound"), vf::show(got), vf::show(ref) + " +- " + vf::show(bound));
}
static void k_mix(const V3& in, vf::Ctx& c){
	glm::vec4 x = mk(in.x), y = mk(in.y), a = mk(in.z); glm::vec4 g = glm::mix(x, y, a), gs = glm::mix(x, y, in.z[0]);
	glm::bvec4 sel(in.z[0] > 0.0f, in.z[1] > 0.0f, in.z[2] > 0.0f, in.z[3] > 0.0f); glm::vec4 gb = glm::mix(x, y, sel);
	for(int l = 0; l < 4; l++){
		float wb = sel[l] ? in.y[l] : in.x[l]; if(!same(gb[l], wb)) c.fail(std::string("vec,vec,bvec:") + (sel[l] ? "true-lane" : "false-lane") + ":wrong", gb[l], wb);
		for(int form = 0; form < 2; form++){ float X = in.x[l], Y = in.y[l], A = form ? in.z[0] : in.z[l], got = form ? gs[l] : g[l];
			if(!fin(X) || !fin(Y) || !fin(A)){ c.cls("lane-outside-domain:not-judged"); continue; }
			LD t1 = (LD)X * ((LD)1 - (LD)A), t2 = (LD)Y * (LD)A, S = std::fabs(t1) + std::fabs(t2); if(S > MAXF / 4){ c.cls("lane-outside-domain:not-judged"); continue; }
			c.cls("judged-lane"); judge_tol(c, form ? "vec,vec,scalar" : "vec,vec,vec", "mix:err/bound", got, t1 + t2, 8 * U32F * S + 4 * DEN); }
	}
}
static void k_smoothstep(const V3& in, vf::Ctx& c){
	glm::vec4 g = glm::smoothstep(mk(in.x), mk(in.y), mk(in.z)); bool sok = fin(in.x[0]) && fin(in.y[0]) && in.x[0] < in.y[0]; glm::vec4 gs = sok ? glm::smoothstep(in.x[0], in.y[0], mk(in.z)) : glm::vec4(0);
	for(int l = 0; l < 4; l++) for(int form = 0; form < 2; form++){ if(form && !sok) continue; float e0 = form ? in.x[0] : in.x[l], e1 = form ? in.y[0] : in.y[l], x = in.z[l], got = form ? gs[l] : g[l];
		if(!fin(e0) || !fin(e1) || !fin(x) || !(e0 < e1)){ c.cls("lane-outside-domain:not-judged"); continue; }
		LD num = (LD)x - (LD)e0, den = (LD)e1 - (LD)e0; if(std::fabs(num) > MAXF / 2 || den > MAXF / 2){ c.cls("lane-outside-domain:not-judged"); continue; }
		LD q = num / den; if(q != 0 && std::fabs(q) < 4 * 1.1754943508222875e-38L){ c.cls("lane-outside-domain:not-judged"); continue; }
		LD t = q < 0 ? 0 : q > 1 ? 1 : q, r = t * t * (3 - 2 * t); const char* k = x <= e0 ? "x<=edge0" : x >= e1 ? "x>=edge1" : "edge0<x<edge1"; c.cls(k);
		judge_tol(c, std::string(form ? "scalar-edges:" : "vec-edges:") + k, "smoothstep:err/bound", got, r, 32 * U32F * r + 4 * DEN); }
}

// ---- ext/vector_common: fmin/fmax (2-4 operands, vec and vec/scalar forms), min/max 3-4 operands, fclamp, texcoord helpers, iround/uround
struct V4 { float x[4], y[4], z[4], w[4]; };
static inline bool is_snan(float x){ return isnan_b(x) && !(fbits(x) & 0x00400000u); }
static void judge_fm(vf::Ctx& c, const char* form, bool MAX, const float* v, int N, float got){
	for(int i = 0; i < N; i++) if(is_snan(v[i])){ c.cls("signaling-nan-lane:not-judged"); return; }
	std::string mask = "nan@"; bool any = false; float want = 0; for(int i = 0; i < N; i++){ if(isnan_b(v[i])){ mask += (char)('a' + i); continue; } want = !any ? v[i] : MAX ? (want < v[i] ? v[i] : want) : (v[i] < want ? v[i] : want); any = true; }
	if(mask.size() == 4) mask = "no-nan"; c.cls(mask.c_str());
	if(!any){ if(!isnan_b(got)) c.fail(std::string(form) + ":all-nan:returns-number", vf::show(got), "NaN"); return; }
	if(isnan_b(got)) c.fail(std::string(form) + ":" + mask + ":returns-nan", got, want); else if(!veq(got, want)) c.fail(std::string(form) + ":" + mask + ":wrong-value", got, want);
}
static void judge_mm(vf::Ctx& c, const char* form, bool MAX, const float* v, int N, float got){
	for(int i = 0; i < N; i++) if(isnan_b(v[i])) return; float want = v[0]; for(int i = 1; i < N; i++) want = MAX ? (want < v[i] ? v[i] : want) : (v[i] < want ? v[i] : want);
	if(!veq(got, want)) c.fail(std::string(form) + ":wrong-value", got, want);
}
static void k_fminmax(const V4& in, vf::Ctx& c){
	glm::vec4 a = mk(in.x), b = mk(in.y), d = mk(in.z), e = mk(in.w);
	glm::vec4 f2 = glm::fmin(a, b), f2s = glm::fmin(a, in.y[0]), f3 = glm::fmin(a, b, d), f4 = glm::fmin(a, b, d, e), F2 = glm::fmax(a, b), F2s = glm::fmax(a, in.y[0]), F3 = glm::fmax(a, b, d), F4 = glm::fmax(a, b, d, e);
	glm::vec4 m3 = glm::min(a, b, d), m4 = glm::min(a, b, d, e), M3 = glm::max(a, b, d), M4 = glm::max(a, b, d, e);
	for(int l = 0; l < 4; l++){ float v[4] = { in.x[l], in.y[l], in.z[l], in.w[l] }, vs[2] = { in.x[l], in.y[0] };
		judge_fm(c, "fmin(vec,vec)", false, v, 2, f2[l]); judge_fm(c, "fmin(vec,scalar)", false, vs, 2, f2s[l]); judge_fm(c, "fmin(vec,vec,vec)", false, v, 3, f3[l]); judge_fm(c, "fmin(vec,vec,vec,vec)", false, v, 4, f4[l]);
		judge_fm(c, "fmax(vec,vec)", true, v, 2, F2[l]); judge_fm(c, "fmax(vec,scalar)", true, vs, 2, F2s[l]); judge_fm(c, "fmax(vec,vec,vec)", true, v, 3, F3[l]); judge_fm(c, "fmax(vec,vec,vec,vec)", true, v, 4, F4[l]);
		judge_mm(c, "min(vec,vec,vec)", false, v, 3, m3[l]); judge_mm(c, "min(vec,vec,vec,vec)", false, v, 4, m4[l]); judge_mm(c, "max(vec,vec,vec)", true, v, 3, M3[l]); judge_mm(c, "max(vec,vec,vec,vec)", true, v, 4, M4[l]); }
}
static void k_fclamp(const V3& in, vf::Ctx& c){
	glm::vec4 g = glm::fclamp(mk(in.x), mk(in.y), mk(in.z)), gs = glm::fclamp(mk(in.x), in.y[0], in.z[0]);
	for(int l = 0; l < 4; l++) for(int form = 0; form < 2; form++){ float x = in.x[l], lo = form ? in.y[0] : in.y[l], hi = form ? in.z[0] : in.z[l], got = form ? gs[l] : g[l]; const char* fn = form ? "vec,scalar,scalar" : "vec,vec,vec";
		if(is_snan(x) || is_snan(lo) || is_snan(hi)){ c.cls("signaling-nan-lane:not-judged"); continue; }
		std::string mask = "nan@"; if(isnan_b(x)) mask += 'x'; if(isnan_b(lo)) mask += 'l'; if(isnan_b(hi)) mask += 'h'; if(mask.size() == 4) mask = "no-nan"; c.cls(mask.c_str());
		if(mask == "nan@xlh"){ if(!isnan_b(got)) c.fail(std::string(fn) + ":all-nan:returns-number", vf::show(got), "NaN"); continue; }
		if(isnan_b(got)){ c.fail(std::string(fn) + ":" + mask + ":returns-nan", vf::show(got), "a number"); continue; }
		if(!isnan_b(lo) && !isnan_b(hi) && lo > hi) continue;
		float m = isnan_b(x) ? lo : isnan_b(lo) ? x : (x < lo ? lo : x); float want = isnan_b(m) ? hi : isnan_b(hi) ? m : (hi < m ? hi : m);
		if(!veq(got, want)) c.fail(std::string(fn) + ":" + mask + ":wrong-value", got, want); }
}
static void k_wrap_iround(const V1& in, vf::Ctx& c){
	glm::vec4 v = mk(in.x); glm::vec4 gc = glm::clamp(v), gr = glm::repeat(v), gmc = glm::mirrorClamp(v), gmr = glm::mirrorRepeat(v);
	bool dom = true; for(int l = 0; l < 4; l++) if(!(in.x[l] >= 0.0f) || !(in.x[l] <= 2147483520.0f)) dom = false;   // iround/uround: every lane >= 0 (asserted by glm) and representable
	glm::ivec4 gi(0); glm::uvec4 gu(0); if(dom){ gi = glm::iround(v); gu = glm::uround(v); c.cls("iround-domain"); }
	// uround alone is defined up to the largest float below 2^32: doubled lanes exercise [2^31, 2^32) (every lane is an exact integer there)
	{ bool udom = true; float d[4]; for(int l = 0; l < 4; l++){ d[l] = in.x[l] * 2.0f + 2147483648.0f; if(!(in.x[l] >= 0.0f) || !(d[l] <= 4294967040.0f)) udom = false; }
		if(udom){ glm::uvec4 g2 = glm::uround(glm::vec4(d[0], d[1], d[2], d[3])); c.cls("uround-domain[2^31,2^32)"); for(int l = 0; l < 4; l++){ unsigned w = (unsigned)d[l]; if(g2[l] != w) c.fail("uround:2^31<=x<2^32:returns-other", (unsigned)g2[l], w); } } }
	for(int l = 0; l < 4; l++){ float x = in.x[l]; if(!fin(x)) continue; const bool wrapdom = !(kSimd && r_abs(x) > 4194304.0f);
		bool odd; FracCmp f = r_fraccmp(x, odd); float a = r_abs(x), rest = a - r_trunc(a);
		float wc = x < 0.0f ? 0.0f : x > 1.0f ? 1.0f : x, wr = x - r_floor(x), wmr = odd ? 1.0f - rest : rest;
		struct { const char* n; float got, want; bool value; } t[4] = { { "clamp", gc[l], wc, true }, { "repeat", gr[l], wr, true }, { "mirrorClamp", gmc[l], 0, false }, { "mirrorRepeat", gmr[l], wmr, true } };
		if(wrapdom) for(auto& q : t){ if(isnan_b(q.got) || q.got < 0.0f || q.got > 1.0f) c.fail(std::string(q.n) + (isnan_b(q.got) ? ":returns-nan" : ":outside-[0,1]"), vf::show(q.got), "a value in [0,1]"); else if(q.value && !veq(q.got, q.want)) c.fail(std::string(q.n) + ":not-the-wrap-mode-value", q.got, q.want); }
		if(dom){ long long tr = (long long)r_trunc(x), w1 = (f == FC_ABOVE || f == FC_TIE) ? tr + 1 : tr, w2 = f == FC_TIE ? tr : w1;
			std::string k = x < 0.5f ? "0<x<0.5" : x < 1.0f ? "0.5<x<1" : std::string(f == FC_INT ? (odd ? "odd-integer" : "even-integer") : f == FC_BELOW ? "frac<0.5" : "frac>0.5") + (uexp(x) >= 23 ? ":x>=2^23" : ":x<2^23");
			long long i = gi[l], u = gu[l];
			if(i != w1 && i != w2) c.fail("iround:" + k + (i == w1 + 1 ? ":returns-nearest+1" : i == w1 - 1 ? ":returns-nearest-1" : ":returns-other"), i, w1);
			if(u != w1 && u != w2) c.fail("uround:" + k + (u == w1 + 1 ? ":returns-nearest+1" : u == w1 - 1 ? ":returns-nearest-1" : ":returns-other"), u, w1); }
	}
}

VF_OP(floor_vec4, V1, "ffff"){ k_rounding<K_FLOOR>(in, c); }
VF_OP(ceil_vec4, V1, "ffff"){ k_rounding<K_CEIL>(in, c); }
VF_OP(trunc_vec4, V1, "ffff"){ k_rounding<K_TRUNC>(in, c); }
VF_OP(round_vec4, V1, "ffff"){ k_rounding<K_ROUND>(in, c); }
VF_OP(roundEven_vec4, V1, "ffff"){ k_rounding<K_ROUNDEVEN>(in, c); }
VF_OP(fract_vec4, V1, "ffff"){ k_fract(in, c); }
VF_OP(abs_sign_vec4, V1, "ffff"){ k_abs_sign(in, c); }
VF_OP(mod_vec4, V2, "ffffffff"){ k_mod(in, c); }
VF_OP(min_max_step_vec4, V2, "ffffffff"){ k_minmaxstep(in, c); }
VF_OP(clamp_vec4, V3, "ffffffffffff"){ k_clamp(in, c); }
VF_OP(mix_vec4, V3, "ffffffffffff"){ k_mix(in, c); }
VF_OP(smoothstep_vec4, V3, "ffffffffffff"){ k_smoothstep(in, c); }
VF_OP(fclamp_vec4, V3, "ffffffffffff"){ k_fclamp(in, c); }
VF_OP(wrap_iround_vec4, V1, "ffff"){ k_wrap_iround(in, c); }
VF_OP(fmin_fmax_min_max_vec4, V4, "ffffffffffffffff"){ k_fminmax(in, c); }

static float rnd_lane(vf::Rng& r, const std::vector<float>& L){
	switch(r.below(7)){
		case 0: return L[r.below(L.size())];
		case 1: return (float)((double)r.range(-40, 40) + (double)r.range(0, 8) / 8.0);
		case 2: return (float)r.range(-4194304, 4194304);
		case 3: return (float)((double)r.range(-4194304, 4194303) + 0.5);
		case 4: return (float)r.logmag(-30, 22);
		case 5: return (float)r.uniform(-3, 3);
		default: return r.below(8) ? (float)r.logmag(-140, 126) : r.fbits();
	}
}
static void workload(){
	vf::note("simd", kSimd ? "GLM_CONFIG_SIMD enabled: aligned vec4 uses glm/simd/common.h" : "pure build");
#if GLM_CONFIG_SIMD == GLM_ENABLE
	vf::note("arch", (GLM_ARCH & GLM_ARCH_AVX2_BIT) ? "AVX2" : (GLM_ARCH & GLM_ARCH_SSE41_BIT) ? "SSE4.1+" : "below SSE4.1 (hand-written floor/ceil/round fallbacks)");
	vf::note("vec4_aligned", glm::detail::is_aligned<glm::defaultp>::value ? "yes" : "no");
#endif
	std::vector<float> L = float_lattice(); for(int i = -6; i <= 6; i++){ L.push_back((float)i); L.push_back((float)i + 0.25f); L.push_back((float)i - 0.125f); }
	for(float v : { 4194303.5f, 4194304.0f, 4194303.0f, 1234.5f, 2097151.5f, 2097152.5f, 1048577.0f }){ L.push_back(v); L.push_back(-v); }
	const u64 n = L.size();
	bool w[12]; vf::Op* ops[12] = { &floor_vec4, &ceil_vec4, &trunc_vec4, &round_vec4, &roundEven_vec4, &fract_vec4, &abs_sign_vec4, &mod_vec4, &min_max_step_vec4, &clamp_vec4, &mix_vec4, &smoothstep_vec4 };
	for(int i = 0; i < 12; i++) w[i] = vf::want(*ops[i]);
	const bool w_wrap = vf::want(wrap_iround_vec4), w_fclamp = vf::want(fclamp_vec4), w_fm = vf::want(fmin_fmax_min_max_vec4);
	auto un = [&](vf::Ctx& c, const V1& v){ for(int i = 0; i < 7; i++) if(w[i]) vf::run(c, *ops[i], v); if(w_wrap){ vf::run(c, wrap_iround_vec4, v); V1 p; for(int l = 0; l < 4; l++) p.x[l] = r_abs(v.x[l]); vf::run(c, wrap_iround_vec4, p); } };
	auto bi = [&](vf::Ctx& c, const V2& v){ for(int i = 7; i < 9; i++) if(w[i]) vf::run(c, *ops[i], v); };
	auto te = [&](vf::Ctx& c, const V3& v){ for(int i = 9; i < 12; i++) if(w[i]) vf::run(c, *ops[i], v); if(w_fclamp) vf::run(c, fclamp_vec4, v); };
	auto qu = [&](vf::Ctx& c, const V4& v){ if(w_fm) vf::run(c, fmin_fmax_min_max_vec4, v); };
	// lattice: every value in every lane, a different value in each lane; the same value in all four lanes
	vf::sweep("lat1", n * 4, 16, [&](vf::Ctx& c, u64 lo, u64 hi){ for(u64 i = lo; i < hi; i++){ u64 k = i / 4; int rot = (int)(i % 4); V1 v; for(int l = 0; l < 4; l++) v.x[(l + rot) % 4] = L[(k + 7 * l) % n]; un(c, v); if(rot == 0){ V1 s; for(int l = 0; l < 4; l++) s.x[l] = L[k]; un(c, s); } } });
	vf::sweep("lat2", n * n, 64, [&](vf::Ctx& c, u64 lo, u64 hi){ for(u64 i = lo; i < hi; i++){ u64 a = i / n, b = i % n; V2 v; for(int l = 0; l < 4; l++){ v.x[l] = L[(a + 5 * l) % n]; v.y[l] = L[(b + 11 * l) % n]; } bi(c, v);
		V3 t; for(int l = 0; l < 4; l++){ t.x[l] = v.x[l]; t.y[l] = v.y[l]; t.z[l] = L[(a * 31 + b * 17 + 3 * l) % n]; } if(t.x[0] > t.y[0]) std::swap(t.x[0], t.y[0]); te(c, t);
		V4 q; for(int l = 0; l < 4; l++){ q.x[l] = v.x[l]; q.y[l] = v.y[l]; q.z[l] = t.z[l]; q.w[l] = L[(a * 13 + b * 29 + 7 * l + 1) % n]; } qu(c, q); } });
	const u64 N = vf::N(1000000, 30000000);
	vf::parallel("rnd", [&](int tid, int T, vf::Ctx& c){ for(u64 i = tid; i < N; i += T){
		V1 v; for(int l = 0; l < 4; l++) v.x[l] = rnd_lane(c.rng, L); un(c, v);
		V2 b; for(int l = 0; l < 4; l++){ b.x[l] = rnd_lane(c.rng, L); b.y[l] = c.rng.below(4) ? rnd_lane(c.rng, L) : b.x[l]; }
		if(c.rng.coin()) for(int l = 0; l < 4; l++){ b.y[l] = (float)((double)c.rng.range(-8, 8) * 0.25); if(b.y[l] == 0.0f) b.y[l] = 1.5f; }   // simple divisors: integer quotients are common
		bi(c, b);
		V3 t; for(int l = 0; l < 4; l++){ t.x[l] = rnd_lane(c.rng, L); t.y[l] = rnd_lane(c.rng, L); t.z[l] = rnd_lane(c.rng, L); if(c.rng.coin() && !isnan_b(t.x[l]) && !isnan_b(t.y[l]) && t.x[l] > t.y[l]) std::swap(t.x[l], t.y[l]); }
		te(c, t);
		V4 q; float nanv = bitsf(0x7fc00000u); for(int l = 0; l < 4; l++){ float* f[4] = { &q.x[l], &q.y[l], &q.z[l], &q.w[l] }; unsigned m = (unsigned)c.rng.below(16); for(int k = 0; k < 4; k++) *f[k] = (c.rng.coin() && ((m >> k) & 1)) ? (c.rng.coin() ? nanv : -nanv) : rnd_lane(c.rng, L); }
		qu(c, q); } });
}
VF_MAIN("C11_vec4")
