// C20 — domain-edge monitor: drives the integer / conversion mechanisms the property names right up to the edge of their
// documented domains. It is meant to run under ASan+UBSan (the sanitizer is the oracle for C20); the value checks below are
// simple sanity oracles so that the monitor is also meaningful in a plain build.
#include "vf.hpp"
#include "ref.hpp"
#include <glm/glm.hpp>
#include <glm/gtc/packing.hpp>
#include <glm/gtc/type_precision.hpp>
#include <glm/gtc/integer.hpp>
#include <glm/gtc/bitfield.hpp>
#include <glm/gtc/round.hpp>
#include <glm/gtc/type_precision.hpp>
#include <glm/ext/scalar_common.hpp>
#include <glm/ext/vector_common.hpp>
#include <glm/gtc/type_ptr.hpp>
#include <glm/gtc/quaternion.hpp>
#include <memory>
using namespace ref;

template<class T> struct In4 { T v[4]; };
template<class T> struct InC { T v[4]; int a; int b; };

template<class T> static void k_abs_sign(const In4<T>& in,vf::Ctx& c){
	glm::vec<4,T,glm::highp> v(in.v[0],in.v[1],in.v[2],in.v[3]);
	auto s=glm::sign(v); for(int i=0;i<4;i++){ T w= in.v[i]>0? (T)1: in.v[i]<0? (T)-1: (T)0; if(s[i]!=w) c.fail("sign:wrong",s[i],w); if(glm::sign(in.v[i])!=w) c.fail("sign:scalar:wrong",glm::sign(in.v[i]),w); }
	bool hasmin=false; for(int i=0;i<4;i++) if(in.v[i]==std::numeric_limits<T>::min()) hasmin=true;
	if(!hasmin){ auto a=glm::abs(v); for(int i=0;i<4;i++){ T w= in.v[i]<0? (T)(-in.v[i]): in.v[i]; if(a[i]!=w) c.fail("abs:wrong",a[i],w); if(glm::abs(in.v[i])!=w) c.fail("abs:scalar:wrong",glm::abs(in.v[i]),w); } c.cls("abs:evaluated"); }
	else c.cls("abs:skipped(MIN is outside abs's domain)");
}
VF_OP(abs_sign_i8, In4<i8>, "cccc"){ k_abs_sign<i8>(in,c); }
VF_OP(abs_sign_i16, In4<i16>, "ssss"){ k_abs_sign<i16>(in,c); }
VF_OP(abs_sign_i32, In4<i32>, "iiii"){ k_abs_sign<i32>(in,c); }
VF_OP(abs_sign_i64, In4<i64>, "llll"){ k_abs_sign<i64>(in,c); }

// float -> integer conversions of vectors, restricted to representable results
template<class F,class I> static void k_conv(const In4<F>& in,vf::Ctx& c){
	glm::vec<4,F,glm::highp> v(in.v[0],in.v[1],in.v[2],in.v[3]); glm::vec<4,I,glm::highp> r(v); glm::vec<3,F,glm::highp> v3(v); glm::vec<2,F,glm::highp> v2(v); glm::vec<1,F,glm::highp> v1(v.x); glm::vec<3,I,glm::highp> r3(v3); glm::vec<2,I,glm::highp> r2(v2); glm::vec<1,I,glm::highp> r1(v1);
	for(int i=0;i<4;i++){ I w=(I)in.v[i]; if(r[i]!=w) c.fail("vec4:conversion:wrong",r[i],w); if(i<3&&r3[i]!=w) c.fail("vec3:conversion:wrong",r3[i],w); if(i<2&&r2[i]!=w) c.fail("vec2:conversion:wrong",r2[i],w); if(i<1&&r1[i]!=w) c.fail("vec1:conversion:wrong",r1[i],w); }
	glm::vec<4,F,glm::highp> back(r); for(int i=0;i<4;i++) if(back[i]!=(F)(I)in.v[i]) c.fail("int->float:wrong",back[i],(F)(I)in.v[i]);
}
VF_OP(conv_f32_i32, In4<float>, "ffff"){ k_conv<float,i32>(in,c); }
VF_OP(conv_f32_u32, In4<float>, "ffff"){ k_conv<float,u32>(in,c); }
VF_OP(conv_f32_i8, In4<float>, "ffff"){ k_conv<float,i8>(in,c); }
VF_OP(conv_f32_u16, In4<float>, "ffff"){ k_conv<float,u16>(in,c); }
VF_OP(conv_f64_i32, In4<double>, "dddd"){ k_conv<double,i32>(in,c); }
VF_OP(conv_f64_i64, In4<double>, "dddd"){ k_conv<double,i64>(in,c); }
VF_OP(conv_f64_u64, In4<double>, "dddd"){ k_conv<double,u64>(in,c); }

// rounding-to-integer helpers on their documented ranges
VF_OP(rounders_f32, In4<float>, "ffff"){
	glm::vec4 v(in.v[0],in.v[1],in.v[2],in.v[3]); glm::vec4 re=glm::roundEven(v), rd=glm::round(v), tr=glm::trunc(v), fl=glm::floor(v), ce=glm::ceil(v), fr=glm::fract(v);
	for(int i=0;i<4;i++){ float x=in.v[i]; if(!(std::fabs(re[i]-x)<=0.5f||std::fabs(x)>=8388608.f)) c.fail("roundEven:not-nearest",re[i],x); if(rd[i]!=std::round(x)) c.fail("round:wrong",rd[i],std::round(x)); if(tr[i]!=std::trunc(x)) c.fail("trunc:wrong",tr[i],std::trunc(x)); if(fl[i]!=std::floor(x)) c.fail("floor:wrong",fl[i],std::floor(x)); if(ce[i]!=std::ceil(x)) c.fail("ceil:wrong",ce[i],std::ceil(x)); (void)fr; }
	glm::vec4 p=glm::abs(v); bool ok=true; for(int i=0;i<4;i++) if(!(p[i]<2147483000.f)) ok=false; if(ok){ glm::ivec4 ir=glm::iround(p); glm::uvec4 ur=glm::uround(p); for(int i=0;i<4;i++){ if((float)ir[i]!=std::round(p[i])) c.fail("iround:wrong",ir[i],std::round(p[i])); if((float)ur[i]!=std::round(p[i])) c.fail("uround:wrong",ur[i],std::round(p[i])); } }
}
VF_OP(rounders_f64, In4<double>, "dddd"){
	glm::dvec4 v(in.v[0],in.v[1],in.v[2],in.v[3]); glm::dvec4 re=glm::roundEven(v), rd=glm::round(v);
	for(int i=0;i<4;i++){ double x=in.v[i]; if(!(std::fabs(re[i]-x)<=0.5||std::fabs(x)>=4503599627370496.0)) c.fail("roundEven:not-nearest",re[i],x); if(rd[i]!=std::round(x)) c.fail("round:wrong",rd[i],std::round(x)); }
	glm::dvec4 p=glm::abs(v); bool ok=true; for(int i=0;i<4;i++) if(!(p[i]<2147483000.0)) ok=false; if(ok){ glm::ivec4 ir=glm::iround(p); for(int i=0;i<4;i++) if((double)ir[i]!=std::round(p[i])) c.fail("iround:wrong",ir[i],std::round(p[i])); }
}

// shifts, masks and bit-field helpers over the whole count range [0, width] / [0, width)
template<class T> static void k_counts(const InC<T>& in,vf::Ctx& c){
	typedef typename std::make_unsigned<T>::type U; const int W=sizeof(T)*8; int a=in.a, b=in.b; // a in [0,W], b in [0,W-a]
	glm::vec<4,T,glm::highp> v(in.v[0],in.v[1],in.v[2],in.v[3]);
	{ T m=glm::mask((T)a); U w= a>=W? (U)~U(0): (U)(((U)1<<a)-1); if((U)m!=w) c.fail("mask:wrong",m,(T)w); auto mv=glm::mask(glm::vec<4,T,glm::highp>((T)a)); if((U)mv[2]!=w) c.fail("mask:vec:wrong",mv[2],(T)w); }
	if(a<W){ auto r=v>>(T)a; auto l=glm::vec<4,U,glm::highp>(v)<<(U)a; for(int i=0;i<4;i++){ if(r[i]!=(T)(in.v[i]>>a)) c.fail("shift-right:wrong",r[i],(T)(in.v[i]>>a)); if(l[i]!=(U)((U)in.v[i]<<a)) c.fail("shift-left:wrong",l[i],(U)((U)in.v[i]<<a)); }
		U x=(U)in.v[0]; U rr=glm::bitfieldRotateRight(x,a), rl=glm::bitfieldRotateLeft(x,a); (void)rr; (void)rl; c.cls("rotate:evaluated(values are judged by C18)"); }
	{ T e=glm::bitfieldExtract(in.v[0],a,b); T ins=glm::bitfieldInsert(in.v[0],in.v[1],a,b); (void)e; (void)ins; auto ev=glm::bitfieldExtract(v,a,b); auto iv=glm::bitfieldInsert(v,glm::vec<4,T,glm::highp>(in.v[1]),a,b); (void)ev; (void)iv; }
	if(a+b<=W && a<W){ T f1=glm::bitfieldFillOne(in.v[0],a,b), f0=glm::bitfieldFillZero(in.v[0],a,b); U m= b>=W? (U)~U(0): (U)((((U)1<<b)-1)<<a); if((U)f1!=(U)((U)in.v[0]|m)) c.fail("fillOne:wrong",f1,(T)((U)in.v[0]|m)); if((U)f0!=(U)((U)in.v[0]&(U)~m)) c.fail("fillZero:wrong",f0,(T)((U)in.v[0]&(U)~m)); }
	{ int fl=glm::findLSB(in.v[0]), fm=glm::findMSB(in.v[0]), bc=glm::bitCount(in.v[0]); (void)fl; (void)fm; (void)bc; auto vl=glm::findLSB(v); auto vm=glm::findMSB(v); (void)vl; (void)vm; }
}
#define K4I "ii"
VF_OP(counts_i32, InC<i32>, "iiii" K4I){ k_counts<i32>(in,c); }
VF_OP(counts_u32, InC<u32>, "uuuu" K4I){ k_counts<u32>(in,c); }
VF_OP(counts_i64, InC<i64>, "llll" K4I){ k_counts<i64>(in,c); }
VF_OP(counts_u64, InC<u64>, "qqqq" K4I){ k_counts<u64>(in,c); }

// integer division / modulo operators with in-domain divisors, power-of-two and multiple helpers at the type edges
template<class T> static void k_div(const In4<T>& in,vf::Ctx& c){
	glm::vec<2,T,glm::highp> a(in.v[0],in.v[1]), b(in.v[2],in.v[3]); auto q=a/b; auto r=a%b; for(int i=0;i<2;i++){ if(q[i]!=(T)(in.v[i]/in.v[2+i])) c.fail("div:wrong",q[i],(T)(in.v[i]/in.v[2+i])); if(r[i]!=(T)(in.v[i]%in.v[2+i])) c.fail("mod:wrong",r[i],(T)(in.v[i]%in.v[2+i])); }
	T x=in.v[0]; if(x>0 && x<=(T)(std::numeric_limits<T>::max()/2)){ T n=glm::ceilPowerOfTwo(x), f=glm::floorPowerOfTwo(x), rp=glm::roundPowerOfTwo(x); bool ip=glm::isPowerOfTwo(x); (void)n; (void)f; (void)rp; (void)ip; }
	T m=in.v[2]; if(m>0 && m<1000 && x>(T)(std::numeric_limits<T>::min()/2) && x<(T)(std::numeric_limits<T>::max()/2)){ T cm=glm::ceilMultiple(x,m), fm=glm::floorMultiple(x,m), rm=glm::roundMultiple(x,m); if(cm%m!=0||fm%m!=0||rm%m!=0) c.fail("multiple:not-a-multiple",cm,fm); }
}
VF_OP(div_i32, In4<i32>, "iiii"){ k_div<i32>(in,c); }
VF_OP(div_u32, In4<u32>, "uuuu"){ k_div<u32>(in,c); }
VF_OP(div_i64, In4<i64>, "llll"){ k_div<i64>(in,c); }
VF_OP(div_i16, In4<i16>, "ssss"){ k_div<i16>(in,c); }

// pointer builders on heap arrays that hold exactly the documented number of elements (ASan sees any over-read);
// matrices are fed through value_ptr of an object of the same type (the round trip the layout contract documents)
template<class T> static void k_ptr(const In4<T>& in,vf::Ctx& c){
	std::unique_ptr<T[]> a2(new T[2]), a3(new T[3]), a4(new T[4]); for(int i=0;i<2;i++) a2[i]=in.v[i]; for(int i=0;i<3;i++) a3[i]=in.v[i]; for(int i=0;i<4;i++) a4[i]=in.v[i];
	auto v2=glm::make_vec2(a2.get()); auto v3=glm::make_vec3(a3.get()); auto v4=glm::make_vec4(a4.get()); auto q=glm::make_quat(a4.get());
	for(int i=0;i<2;i++) if(!same(v2[i],in.v[i])) c.fail("make_vec2:component-wrong",v2[i],in.v[i]); for(int i=0;i<3;i++) if(!same(v3[i],in.v[i])) c.fail("make_vec3:component-wrong",v3[i],in.v[i]); for(int i=0;i<4;i++) if(!same(v4[i],in.v[i])) c.fail("make_vec4:component-wrong",v4[i],in.v[i]); for(int i=0;i<4;i++) if(!same(q[i],in.v[i])) c.fail("make_quat:component-wrong",q[i],in.v[i]);
	glm::mat<3,3,T,glm::defaultp> m(in.v[0],in.v[1],in.v[2],in.v[3],in.v[0],in.v[1],in.v[2],in.v[3],in.v[0]); auto m2=glm::make_mat3(glm::value_ptr(m)); if(!(m2==m)) c.fail("make_mat3(value_ptr(m)):round-trip-changed",m2[1][1],m[1][1]);
	glm::mat<4,3,T,glm::defaultp> n(m); auto n2=glm::make_mat4x3(glm::value_ptr(n)); if(!(n2==n)) c.fail("make_mat4x3(value_ptr(m)):round-trip-changed",n2[1][1],n[1][1]);
	// sources that are only aligned like a T (element 1, 2 or 3 of a heap array): the builders take a T const*, nothing promises more
	{ std::unique_ptr<T[]> buf(new T[24]); for(int off=1;off<=3;off++){ T* p=buf.get()+off; for(int i=0;i<16;i++) p[i]=in.v[(i*7+off)&3]; // exactly 16 elements are readable behind p only when off<=8; the array has 24
			auto u4=glm::make_vec4(p); auto u3=glm::make_vec3(p); auto u2=glm::make_vec2(p); auto uq=glm::make_quat(p); auto M4=glm::make_mat4(p); auto M3=glm::make_mat3(p); auto M43=glm::make_mat4x3(p); auto M2=glm::make_mat2(p); auto M34=glm::make_mat3x4(p);
			for(int i=0;i<4;i++) if(!same(u4[i],p[i])||!same(uq[i],p[i])) c.fail("make_vec4/make_quat(T-aligned pointer):component-wrong",u4[i],p[i]); for(int i=0;i<3;i++) if(!same(u3[i],p[i])) c.fail("make_vec3(T-aligned pointer):component-wrong",u3[i],p[i]); for(int i=0;i<2;i++) if(!same(u2[i],p[i])) c.fail("make_vec2(T-aligned pointer):component-wrong",u2[i],p[i]);
			for(int i=0;i<4;i++) for(int j=0;j<4;j++) if(!same(M4[i][j],p[i*4+j])) c.fail("make_mat4(T-aligned pointer):element-wrong",M4[i][j],p[i*4+j]); if(sizeof(M3)==9*sizeof(T)) /* padded (aligned) 3-row columns: the builder reads the padded layout, judged by C16 */ for(int i=0;i<3;i++) for(int j=0;j<3;j++) if(!same(M3[i][j],p[i*3+j])) c.fail("make_mat3(T-aligned pointer):element-wrong",M3[i][j],p[i*3+j]);
			if(sizeof(M43)==12*sizeof(T)) for(int i=0;i<4;i++) for(int j=0;j<3;j++) if(!same(M43[i][j],p[i*3+j])) c.fail("make_mat4x3(T-aligned pointer):element-wrong",M43[i][j],p[i*3+j]); for(int i=0;i<2;i++) for(int j=0;j<2;j++) if(!same(M2[i][j],p[i*2+j])) c.fail("make_mat2(T-aligned pointer):element-wrong",M2[i][j],p[i*2+j]);
			for(int i=0;i<3;i++) for(int j=0;j<4;j++) if(!same(M34[i][j],p[i*4+j])) c.fail("make_mat3x4(T-aligned pointer):element-wrong",M34[i][j],p[i*4+j]); } }
	std::unique_ptr<glm::vec<3,T,glm::defaultp>> hv(new glm::vec<3,T,glm::defaultp>(in.v[0],in.v[1],in.v[2])); glm::vec<4,T,glm::defaultp> w(*hv,in.v[3]); glm::vec<2,T,glm::defaultp> h2(*hv); if(!same(w[3],in.v[3])||!same(h2[1],in.v[1])) c.fail("vec4(vec3,s)/vec2(vec3):component-wrong",w[3],in.v[3]);
}
// qualifier conversions into destinations that are heap objects of exactly sizeof(destination) bytes: packed <-> aligned, vectors and matrices
// (the SIMD specialisations store whole registers; a packed 3-component destination is narrower than the register)
#if GLM_CONFIG_ALIGNED_GENTYPES == GLM_ENABLE
template<int L,class T> static void k_qconv_v(const In4<T>& in,vf::Ctx& c){
	typedef glm::vec<L,T,glm::packed_highp> P; typedef glm::vec<L,T,glm::aligned_highp> A;
	std::unique_ptr<A> a0(new A); for(int i=0;i<L;i++) (*a0)[i]=in.v[i];
	std::unique_ptr<P> p(new P(*a0));                      // packed(aligned) constructed in place in an exactly sized block
	std::unique_ptr<A> a(new A(*p));                       // aligned(packed): reads an exactly sized block
	std::unique_ptr<P> p2(new P); *p2=P(*a);               // assignment through a temporary
	std::unique_ptr<P[]> arr(new P[3]); arr[2]=P(*a0); arr[1]=P(*a); arr[0]=arr[2];   // array neighbours
	for(int i=0;i<L;i++) if(!same((*p)[i],in.v[i])||!same((*a)[i],in.v[i])||!same((*p2)[i],in.v[i])||!same(arr[0][i],in.v[i])||!same(arr[1][i],in.v[i])) c.fail("qualifier-conversion:vec"+std::to_string(L)+":component-wrong",(*p)[i],in.v[i]);
}
template<int C,int R,class T> static void k_qconv_m(const In4<T>& in,vf::Ctx& c){
	typedef glm::mat<C,R,T,glm::packed_highp> P; typedef glm::mat<C,R,T,glm::aligned_highp> A;
	std::unique_ptr<A> a0(new A); for(int i=0;i<C;i++) for(int j=0;j<R;j++) (*a0)[i][j]=in.v[(i*R+j)&3];
	std::unique_ptr<P> p(new P(*a0)); std::unique_ptr<A> a(new A(*p)); std::unique_ptr<P> p2(new P); *p2=P(*a);
	for(int i=0;i<C;i++) for(int j=0;j<R;j++) if(!same((*p)[i][j],in.v[(i*R+j)&3])||!same((*a)[i][j],in.v[(i*R+j)&3])||!same((*p2)[i][j],in.v[(i*R+j)&3])) c.fail("qualifier-conversion:mat"+std::to_string(C)+"x"+std::to_string(R)+":element-wrong",(*p)[i][j],in.v[(i*R+j)&3]);
}
template<class T> static void k_qconv(const In4<T>& in,vf::Ctx& c){
	k_qconv_v<1,T>(in,c); k_qconv_v<2,T>(in,c); k_qconv_v<3,T>(in,c); k_qconv_v<4,T>(in,c);
	k_qconv_m<2,2,T>(in,c); k_qconv_m<3,3,T>(in,c); k_qconv_m<4,3,T>(in,c); k_qconv_m<2,3,T>(in,c); k_qconv_m<4,4,T>(in,c); k_qconv_m<3,2,T>(in,c);
	c.cls("aligned-qualifiers-available");
}
#else
template<class T> static void k_qconv(const In4<T>&,vf::Ctx& c){ c.cls("skipped:no-aligned-qualifiers-in-this-configuration"); }
#endif
VF_OP(qualifier_conv_f32, In4<float>, "ffff"){ k_qconv<float>(in,c); }
VF_OP(qualifier_conv_f64, In4<double>, "dddd"){ k_qconv<double>(in,c); }
VF_OP(qualifier_conv_i32, In4<i32>, "iiii"){ k_qconv<i32>(in,c); }
VF_OP(qualifier_conv_u32, In4<u32>, "uuuu"){ k_qconv<u32>(in,c); }
// vector arguments that live at the weakest address their type allows (element 1 of a byte/short/int buffer): the pack/unpack helpers take
// them by reference and may not assume the alignment of the packed word
template<class V> static V* place_min_aligned(unsigned char* buf){ size_t al=alignof(V); unsigned char* p=buf; while(((uintptr_t)p % 64)!=0) p++; p+=al; /* aligned to alignof(V), misaligned for anything coarser */ return new (p) V; }
VF_OP(pack_from_min_aligned_objects, In4<i32>, "iiii"){
	alignas(64) unsigned char raw[8][192];
	auto* a=place_min_aligned<glm::i16vec4>(raw[0]); auto* b=place_min_aligned<glm::u16vec4>(raw[1]); auto* d=place_min_aligned<glm::i8vec4>(raw[2]); auto* e=place_min_aligned<glm::i32vec2>(raw[3]); auto* f=place_min_aligned<glm::u32vec2>(raw[4]); auto* g=place_min_aligned<glm::i16vec2>(raw[5]); auto* h=place_min_aligned<glm::u8vec2>(raw[6]); auto* v=place_min_aligned<glm::vec<4,float,glm::packed_highp> >(raw[7]);
	for(int i=0;i<4;i++){ (*a)[i]=(glm::int16)in.v[i]; (*b)[i]=(glm::uint16)in.v[i]; (*d)[i]=(glm::int8)in.v[i]; (*v)[i]=(float)(in.v[i]%1000)*0.001f; } for(int i=0;i<2;i++){ (*e)[i]=in.v[i]; (*f)[i]=(glm::uint32)in.v[i+2]; (*g)[i]=(glm::int16)in.v[i+1]; (*h)[i]=(glm::uint8)in.v[i]; }
	glm::int64 pa=glm::packInt4x16(*a); glm::uint64 pb=glm::packUint4x16(*b); glm::int32 pd=glm::packInt4x8(*d); glm::int64 pe=glm::packInt2x32(*e); glm::uint64 pf=glm::packUint2x32(*f); int pg=glm::packInt2x16(*g); glm::uint16 ph=glm::packUint2x8(*h);
	if(glm::unpackInt4x16(pa)!=*a) c.fail("packInt4x16(min-aligned):round-trip-changed",(i32)glm::unpackInt4x16(pa)[1],(i32)(*a)[1]); if(glm::unpackUint4x16(pb)!=*b) c.fail("packUint4x16(min-aligned):round-trip-changed",(i32)glm::unpackUint4x16(pb)[1],(i32)(*b)[1]);
	if(glm::unpackInt4x8(pd)!=*d) c.fail("packInt4x8(min-aligned):round-trip-changed",(i32)glm::unpackInt4x8(pd)[1],(i32)(*d)[1]); if(glm::unpackInt2x32(pe)!=*e) c.fail("packInt2x32(min-aligned):round-trip-changed",glm::unpackInt2x32(pe)[1],(*e)[1]);
	if(glm::unpackUint2x32(pf)!=*f) c.fail("packUint2x32(min-aligned):round-trip-changed",(i32)glm::unpackUint2x32(pf)[1],(i32)(*f)[1]); if(glm::unpackInt2x16(pg)!=*g) c.fail("packInt2x16(min-aligned):round-trip-changed",(i32)glm::unpackInt2x16(pg)[1],(i32)(*g)[1]); if(glm::unpackUint2x8(ph)!=*h) c.fail("packUint2x8(min-aligned):round-trip-changed",(i32)glm::unpackUint2x8(ph)[1],(i32)(*h)[1]);
	glm::uint64 h4=glm::packHalf4x16(*v); glm::uint64 u4=glm::packUnorm4x16(*v); glm::uint32 s4=glm::packSnorm4x8(*v); glm::uint32 f3=glm::packF2x11_1x10(glm::vec3(*v)); (void)h4; (void)u4; (void)s4; (void)f3;
	double dd=glm::packDouble2x32(*f); glm::uvec2 du=glm::unpackDouble2x32(dd); if(du!=glm::uvec2(*f)) c.fail("packDouble2x32(min-aligned):round-trip-changed",(i32)du[1],(i32)(*f)[1]);
}
// iround / uround over their whole documented domains (uround: 0 <= x with the nearest integer representable in uint, i.e. up to 2^32-1),
// scalar and every vector length
VF_OP(round_to_integer, In4<double>, "dddd"){
	double a[4]; for(int i=0;i<4;i++){ double x=std::fabs(in.v[i]); if(!(x<4294967295.49)) x=4294967295.0-(double)i; a[i]=x; }
	float fa[4]; for(int i=0;i<4;i++){ fa[i]=(float)a[i]; if(!(fa[i]<4294967296.0f)) fa[i]=4294967040.0f; }
	{ glm::dvec4 v(a[0],a[1],a[2],a[3]); auto r=glm::uround(v); auto r3=glm::uround(glm::dvec3(v)); auto r2=glm::uround(glm::dvec2(v)); auto r1=glm::uround(glm::dvec1(v.x)); for(int i=0;i<4;i++){ unsigned w=glm::uround(a[i]); if(r[i]!=w||(i<3&&r3[i]!=w)||(i<2&&r2[i]!=w)||(i<1&&r1[i]!=w)) c.fail("uround(dvec):component-differs-from-scalar",(double)r[i],(double)w); if((double)w!=std::round(a[i])) c.fail("uround(double):not-the-nearest-integer",(double)w,std::round(a[i])); } }
	{ glm::vec4 v(fa[0],fa[1],fa[2],fa[3]); auto r=glm::uround(v); auto r3=glm::uround(glm::vec3(v)); auto r2=glm::uround(glm::vec2(v)); for(int i=0;i<4;i++){ unsigned w=glm::uround(fa[i]); if(r[i]!=w||(i<3&&r3[i]!=w)||(i<2&&r2[i]!=w)) c.fail("uround(vec):component-differs-from-scalar",(double)r[i],(double)w); } }
	double b[4]; for(int i=0;i<4;i++){ double x=std::fabs(in.v[i]); /* iround is documented for x >= 0 */ if(!(x<2147483647.49)) x=2147483647.0-(double)i; b[i]=x; }
	{ glm::dvec4 v(b[0],b[1],b[2],b[3]); auto r=glm::iround(v); auto r3=glm::iround(glm::dvec3(v)); for(int i=0;i<4;i++){ int w=glm::iround(b[i]); if(r[i]!=w||(i<3&&r3[i]!=w)) c.fail("iround(dvec):component-differs-from-scalar",(double)r[i],(double)w); } }
	{ float fb[4]; for(int i=0;i<4;i++){ fb[i]=(float)b[i]; if(!(std::fabs(fb[i])<2147483648.0f)) fb[i]=2147483520.0f; } glm::vec4 v(fb[0],fb[1],fb[2],fb[3]); auto r=glm::iround(v); auto r2=glm::iround(glm::vec2(v)); for(int i=0;i<4;i++){ int w=glm::iround(fb[i]); if(r[i]!=w||(i<2&&r2[i]!=w)) c.fail("iround(vec):component-differs-from-scalar",(double)r[i],(double)w); } }
}
VF_OP(pointer_builders_f32, In4<float>, "ffff"){ k_ptr<float>(in,c); }
VF_OP(pointer_builders_f64, In4<double>, "dddd"){ k_ptr<double>(in,c); }
VF_OP(pointer_builders_i32, In4<i32>, "iiii"){ k_ptr<i32>(in,c); }

template<class T> static T rint_(vf::Rng& r,const std::vector<T>& L){ int m=(int)(r.next()%4); u64 x=r.next(); return m==0? L[r.below(L.size())]: m==1? (T)x: m==2? (T)(x>>(r.next()%64)): (T)((x%65)-32); }
static void workload(){
	// abs/sign: every value of the 8- and 16-bit types, lattice + random for 32/64
	vf::sweep("as8",256,16,[&](vf::Ctx& c,u64 lo,u64 hi){ for(u64 x=lo;x<hi;x++){ In4<i8> in{{(i8)x,(i8)(x*3),(i8)(x+128),(i8)~x}}; vf::run(c,abs_sign_i8,in);} });
	vf::sweep("as16",65536,256,[&](vf::Ctx& c,u64 lo,u64 hi){ for(u64 x=lo;x<hi;x++){ In4<i16> in{{(i16)x,(i16)(x*3),(i16)(x+32768),(i16)~x}}; vf::run(c,abs_sign_i16,in);} });
	u64 n=vf::N(400000,40000000);
	std::vector<i32> L32=int_lattice<i32>(); std::vector<i64> L64=int_lattice<i64>(); std::vector<u32> LU32=int_lattice<u32>(); std::vector<u64> LU64=int_lattice<u64>(); std::vector<i16> L16=int_lattice<i16>();
	std::vector<float> LF=float_lattice(); std::vector<double> LD=double_lattice();
	vf::parallel("edge",[&](int t,int TT,vf::Ctx& c){ for(u64 i=t;i<n;i+=TT){
		{ In4<i32> a; In4<i64> b; for(int k=0;k<4;k++){ a.v[k]=rint_<i32>(c.rng,L32); b.v[k]=rint_<i64>(c.rng,L64); } vf::run(c,abs_sign_i32,a); vf::run(c,abs_sign_i64,b); }
		{ // float -> int: values restricted to the target range (open interval, truncation must be representable)
			auto fr=[&](double lo,double hi)->double{ int m=(int)(c.rng.next()%5); double v= m==0? c.rng.uniform(lo,hi): m==1? c.rng.uniform(-300,300): m==2? (c.rng.coin()? lo:hi)*(1-c.rng.unit()*1e-6): m==3? std::round(c.rng.uniform(lo,hi))+0.5*(c.rng.coin()?1:-1): c.rng.logmag(-40,20); if(!(v>lo&&v<hi)) v=0.25; return v; };
			In4<float> f; In4<double> d;
			for(int k=0;k<4;k++) f.v[k]=(float)fr(-2147483000.0,2147483000.0); vf::run(c,conv_f32_i32,f);
			for(int k=0;k<4;k++){ f.v[k]=(float)fr(-0.99,4294967000.0); if(!(f.v[k]>-1.0f)) f.v[k]=0; } vf::run(c,conv_f32_u32,f);
			for(int k=0;k<4;k++) f.v[k]=(float)fr(-128.9,127.9); vf::run(c,conv_f32_i8,f);
			for(int k=0;k<4;k++) f.v[k]=(float)fr(-0.9,65535.9); vf::run(c,conv_f32_u16,f);
			for(int k=0;k<4;k++) d.v[k]=fr(-2147483648.9,2147483647.9); vf::run(c,conv_f64_i32,d);
			for(int k=0;k<4;k++) d.v[k]=fr(-9.2233720368e18,9.2233720368e18); vf::run(c,conv_f64_i64,d);
			for(int k=0;k<4;k++) d.v[k]=fr(-0.9,1.8446744073e19); vf::run(c,conv_f64_u64,d);
			for(int k=0;k<4;k++){ int m=(int)(c.rng.next()%4); f.v[k]= m==0? LF[c.rng.below(LF.size())]: m==1? c.rng.fbits(): m==2? (float)(c.rng.range(-100,100)+0.5): (float)c.rng.logmag(-10,40); if(isnan_b(f.v[k])) f.v[k]=1.5f; } vf::run(c,rounders_f32,f);
			for(int k=0;k<4;k++){ int m=(int)(c.rng.next()%4); d.v[k]= m==0? LD[c.rng.below(LD.size())]: m==1? c.rng.dbits(): m==2? (c.rng.range(-100,100)+0.5): c.rng.logmag(-10,70); if(isnan_b(d.v[k])) d.v[k]=2.5; } vf::run(c,rounders_f64,d);
		}
		{ InC<i32> a; InC<u32> b; InC<i64> e; InC<u64> g; for(int k=0;k<4;k++){ a.v[k]=rint_<i32>(c.rng,L32); b.v[k]=rint_<u32>(c.rng,LU32); e.v[k]=rint_<i64>(c.rng,L64); g.v[k]=rint_<u64>(c.rng,LU64); }
			a.a=(int)(i%33); a.b=(int)c.rng.below(33-a.a); b.a=a.a; b.b=a.b; e.a=(int)(i%65); e.b=(int)c.rng.below(65-e.a); g.a=e.a; g.b=e.b; vf::run(c,counts_i32,a); vf::run(c,counts_u32,b); vf::run(c,counts_i64,e); vf::run(c,counts_u64,g); }
		{ In4<float> pf; In4<double> pd; In4<i32> pi; for(int k=0;k<4;k++){ pf.v[k]=(float)(c.rng.range(-1000,1000)*0.25); pd.v[k]=c.rng.range(-1000,1000)*0.125; pi.v[k]=rint_<i32>(c.rng,L32); } vf::run(c,pointer_builders_f32,pf); vf::run(c,pointer_builders_f64,pd); vf::run(c,pointer_builders_i32,pi); { In4<double> rd; for(int k=0;k<4;k++){ int m=(int)(c.rng.next()%4); rd.v[k]= m==0? c.rng.uniform(0,4294967295.0): m==1? 2147483648.0+c.rng.uniform(-3,3): m==2? 4294967295.0-c.rng.uniform(0,600): c.rng.uniform(-2147483647.0,2147483647.0); } vf::run(c,round_to_integer,rd); } vf::run(c,pack_from_min_aligned_objects,pi);  vf::run(c,qualifier_conv_f32,pf); vf::run(c,qualifier_conv_f64,pd); vf::run(c,qualifier_conv_i32,pi); { In4<u32> pu; for(int k=0;k<4;k++) pu.v[k]=(u32)c.rng.next(); vf::run(c,qualifier_conv_u32,pu); } }
		{ In4<i32> a; In4<u32> b; In4<i64> e; In4<i16> h; for(int k=0;k<4;k++){ a.v[k]=rint_<i32>(c.rng,L32); b.v[k]=rint_<u32>(c.rng,LU32); e.v[k]=rint_<i64>(c.rng,L64); h.v[k]=rint_<i16>(c.rng,L16); }
			for(int k=2;k<4;k++){ if(a.v[k]==0) a.v[k]=3; if(b.v[k]==0) b.v[k]=5; if(e.v[k]==0) e.v[k]=-7; if(h.v[k]==0) h.v[k]=9; } for(int k=0;k<2;k++){ if(a.v[k]==std::numeric_limits<i32>::min()) a.v[k]++; if(e.v[k]==std::numeric_limits<i64>::min()) e.v[k]++; if(h.v[k]==std::numeric_limits<i16>::min()) h.v[k]++; }
			vf::run(c,div_i32,a); vf::run(c,div_u32,b); vf::run(c,div_i64,e); vf::run(c,div_i16,h); }
	} });
}
VF_MAIN("C20_edge")
