// C05 — GLSL integer and bitfield functions vs bit-by-bit reference models (written from the GLSL text in glm/integer.hpp).
#include "vf.hpp"
#include "ref.hpp"
#include <glm/glm.hpp>
#include <glm/integer.hpp>
#include <glm/gtc/integer.hpp>
#include <glm/gtc/type_precision.hpp>
using namespace ref;

// ---------------------------------------------------------------- reference models (no glm code)
template<class T> struct W { enum { bits = sizeof(T)*8 }; typedef typename std::make_unsigned<T>::type U; };
template<class T> static int r_bitCount(T x){ typename W<T>::U u=(typename W<T>::U)x; int n=0; for(int i=0;i<W<T>::bits;i++) n+=(int)((u>>i)&1); return n; }
template<class T> static int r_findLSB(T x){ typename W<T>::U u=(typename W<T>::U)x; for(int i=0;i<W<T>::bits;i++) if((u>>i)&1) return i; return -1; }
template<class T> static int r_findMSB(T x){ typename W<T>::U u=(typename W<T>::U)x; bool neg=std::is_signed<T>::value && ((u>>(W<T>::bits-1))&1);
	for(int i=W<T>::bits-1;i>=0;i--){ unsigned b=(unsigned)((u>>i)&1); if(neg? b==0: b==1) return i; } return -1; }
template<class T> static T r_reverse(T x){ typename W<T>::U u=(typename W<T>::U)x, r=0; for(int i=0;i<W<T>::bits;i++) if((u>>i)&1) r|=(typename W<T>::U)1<<(W<T>::bits-1-i); return (T)r; }
template<class T> static T r_extract(T v,int off,int bits){ typedef typename W<T>::U U; U u=(U)v, r=0; if(bits==0) return 0; for(int i=0;i<bits;i++) if((u>>(off+i))&1) r|=(U)1<<i;
	if(std::is_signed<T>::value && ((u>>(off+bits-1))&1)) for(int i=bits;i<W<T>::bits;i++) r|=(U)1<<i; return (T)r; }
template<class T> static T r_extract_zeroext(T v,int off,int bits){ typedef typename W<T>::U U; U u=(U)v, r=0; for(int i=0;i<bits;i++) if((u>>(off+i))&1) r|=(U)1<<i; return (T)r; }
template<class T> static T r_insert(T base,T ins,int off,int bits){ typedef typename W<T>::U U; U b=(U)base, n=(U)ins, r=b; for(int i=0;i<bits;i++){ U m=(U)1<<(off+i); r&=(U)~m; if((n>>i)&1) r|=m; } return (T)r; }

template<class T> struct In1 { T x; };
template<class T> struct In4 { T v[4]; };
template<class T> struct InExt { T v[4]; int off, bits; };
template<class T> struct InIns { T base[4], ins[4]; int off, bits; };

static std::string L_(int L){ return "vec"+std::to_string(L); }

// ---------------------------------------------------------------- checks (templates)
template<class T> static void k_bitCount(const In1<T>& in,vf::Ctx& c){ int got=glm::bitCount(in.x), want=r_bitCount(in.x); if(got!=want) c.fail("scalar:wrong-count",got,want); }
template<class T> static void k_findLSB(const In1<T>& in,vf::Ctx& c){ int got=glm::findLSB(in.x), want=r_findLSB(in.x); if(got!=want) c.fail(in.x==0?"zero:not-minus-one":"scalar:wrong-index",got,want); }
template<class T> static std::string msb_class(T x,int got){ bool neg=std::is_signed<T>::value && x<0; if(!neg) return x==0? "zero:not-minus-one":"nonnegative:wrong-index"; if(x==(T)-1) return got==W<T>::bits-1? "minus-one:returns-width-1":"minus-one:not-minus-one"; return got==W<T>::bits-1? "negative:returns-width-1(no-msb-zero-rule)":"negative:wrong-index"; }
template<class T> static void k_findMSB(const In1<T>& in,vf::Ctx& c){ int got=glm::findMSB(in.x), want=r_findMSB(in.x); if(std::is_signed<T>::value) c.cls(in.x<0?"negative":"nonnegative"); if(got!=want) c.fail("scalar:"+msb_class(in.x,got),got,want); }
template<class T> static std::string rev_class(T x){ return std::is_signed<T>::value? "signed-element-type:wrong-bits":"wrong-bits"; }
template<class T> static void k_reverse(const In1<T>& in,vf::Ctx& c){ T got=glm::bitfieldReverse(in.x), want=r_reverse(in.x); if(got!=want) c.fail("scalar:"+rev_class(in.x),got,want); }
template<class T> static std::string ext_class(T v,int off,int bits,T got){
	if(off>=W<T>::bits) return "offset=width:wrong";
	if(std::is_signed<T>::value && bits>0 && got==r_extract_zeroext(v,off,bits)) return "signed:no-sign-extension";
	if(sizeof(T)==8 && bits>=32 && bits<64){ typedef typename W<T>::U U; if(got==(T)((U)((std::is_signed<T>::value? (U)(v>>off):((U)v>>off))))) return "64bit:bits>=32:mask-not-applied"; }
	std::string p; if(bits==0) p="bits=0:"; else if(bits==W<T>::bits) p="bits=width:"; else if(off+bits==W<T>::bits) p="field-at-top:";
	return p+"wrong-bits"; }
template<class T> static void k_extract(const InExt<T>& in,vf::Ctx& c){ T got=glm::bitfieldExtract(in.v[0],in.off,in.bits), want=r_extract(in.v[0],in.off,in.bits); if(in.bits==0) c.cls("bits=0"); if(in.bits==W<T>::bits) c.cls("bits=width"); if(got!=want) c.fail("scalar:"+ext_class(in.v[0],in.off,in.bits,got),got,want); }
template<class T> static std::string ins_class(int off,int bits){ if(off>=W<T>::bits) return "offset=width:wrong"; if(bits==0) return "bits=0:base-changed"; if(bits==W<T>::bits) return "bits=width:wrong"; if(off+bits==W<T>::bits) return "field-at-top:wrong-bits"; return "wrong-bits"; }
template<class T> static void k_insert(const InIns<T>& in,vf::Ctx& c){ T got=glm::bitfieldInsert(in.base[0],in.ins[0],in.off,in.bits), want=r_insert(in.base[0],in.ins[0],in.off,in.bits); if(got!=want) c.fail("scalar:"+ins_class<T>(in.off,in.bits),got,want); }

// vector forms: every length 1..4, component k takes input k
template<class T,int L,int which> static void kv_unary(const In4<T>& in,vf::Ctx& c){
	glm::vec<L,T,glm::highp> v; for(int i=0;i<L;i++) v[i]=in.v[i];
	if constexpr(which==0){ glm::vec<L,int,glm::highp> g=glm::bitCount(v); for(int i=0;i<L;i++){ int w=r_bitCount(in.v[i]); if(g[i]!=w) c.fail(L_(L)+":wrong-count",g[i],w);} }
	if constexpr(which==1){ glm::vec<L,int,glm::highp> g=glm::findLSB(v); for(int i=0;i<L;i++){ int w=r_findLSB(in.v[i]); if(g[i]!=w) c.fail(L_(L)+(in.v[i]==0?":zero:not-minus-one":":wrong-index"),g[i],w);} }
	if constexpr(which==2){ glm::vec<L,int,glm::highp> g=glm::findMSB(v); for(int i=0;i<L;i++){ int w=r_findMSB(in.v[i]); if(g[i]!=w) c.fail(L_(L)+":"+msb_class(in.v[i],g[i]),g[i],w);} }
	if constexpr(which==3){ glm::vec<L,T,glm::highp> g=glm::bitfieldReverse(v); for(int i=0;i<L;i++){ T w=r_reverse(in.v[i]); if(g[i]!=w) c.fail(L_(L)+":"+rev_class(in.v[i]),g[i],w);} }
}
template<class T,int which> static void kv_unary_all(const In4<T>& in,vf::Ctx& c){ kv_unary<T,1,which>(in,c); kv_unary<T,2,which>(in,c); kv_unary<T,3,which>(in,c); kv_unary<T,4,which>(in,c); }
template<class T,int L> static void kv_extract(const InExt<T>& in,vf::Ctx& c){ glm::vec<L,T,glm::highp> v; for(int i=0;i<L;i++) v[i]=in.v[i]; glm::vec<L,T,glm::highp> g=glm::bitfieldExtract(v,in.off,in.bits);
	for(int i=0;i<L;i++){ T w=r_extract(in.v[i],in.off,in.bits); if(g[i]!=w) c.fail(L_(L)+":"+ext_class(in.v[i],in.off,in.bits,g[i]),g[i],w);} }
template<class T> static void kv_extract_all(const InExt<T>& in,vf::Ctx& c){ kv_extract<T,1>(in,c); kv_extract<T,2>(in,c); kv_extract<T,3>(in,c); kv_extract<T,4>(in,c); }
template<class T,int L> static void kv_insert(const InIns<T>& in,vf::Ctx& c){ glm::vec<L,T,glm::highp> b,n; for(int i=0;i<L;i++){ b[i]=in.base[i]; n[i]=in.ins[i]; } glm::vec<L,T,glm::highp> g=glm::bitfieldInsert(b,n,in.off,in.bits);
	for(int i=0;i<L;i++){ T w=r_insert(in.base[i],in.ins[i],in.off,in.bits); if(g[i]!=w) c.fail(L_(L)+":"+ins_class<T>(in.off,in.bits),g[i],w);} }
template<class T> static void kv_insert_all(const InIns<T>& in,vf::Ctx& c){ kv_insert<T,1>(in,c); kv_insert<T,2>(in,c); kv_insert<T,3>(in,c); kv_insert<T,4>(in,c); }

// ---------------------------------------------------------------- op registration per element type
// HAS_RI: bitfieldReverse / bitfieldInsert are instantiable for this type on the unchanged tree (8/16-bit are not: see DESIGN)
#define DEF_TYPE(T,TN,F) \
	VF_OP(bitCount_##TN, In1<T>, F){ k_bitCount<T>(in,c);} \
	VF_OP(findLSB_##TN, In1<T>, F){ k_findLSB<T>(in,c);} \
	VF_OP(findMSB_##TN, In1<T>, F){ k_findMSB<T>(in,c);} \
	VF_OP(bitfieldExtract_##TN, InExt<T>, F F F F "ii"){ k_extract<T>(in,c);} \
	VF_OP(bitCount_vec_##TN, In4<T>, F F F F){ kv_unary_all<T,0>(in,c);} \
	VF_OP(findLSB_vec_##TN, In4<T>, F F F F){ kv_unary_all<T,1>(in,c);} \
	VF_OP(findMSB_vec_##TN, In4<T>, F F F F){ kv_unary_all<T,2>(in,c);} \
	VF_OP(bitfieldExtract_vec_##TN, InExt<T>, F F F F "ii"){ kv_extract_all<T>(in,c);}
#define DEF_TYPE_RI(T,TN,F) \
	VF_OP(bitfieldReverse_##TN, In1<T>, F){ k_reverse<T>(in,c);} \
	VF_OP(bitfieldInsert_##TN, InIns<T>, F F F F F F F F "ii"){ k_insert<T>(in,c);} \
	VF_OP(bitfieldReverse_vec_##TN, In4<T>, F F F F){ kv_unary_all<T,3>(in,c);} \
	VF_OP(bitfieldInsert_vec_##TN, InIns<T>, F F F F F F F F "ii"){ kv_insert_all<T>(in,c);}

DEF_TYPE(i8,i8,"c") DEF_TYPE(u8,u8,"b") DEF_TYPE(i16,i16,"s") DEF_TYPE(u16,u16,"h")
DEF_TYPE(i32,i32,"i") DEF_TYPE(u32,u32,"u") DEF_TYPE(i64,i64,"l") DEF_TYPE(u64,u64,"q")
#ifdef C05_NARROW_RI
DEF_TYPE_RI(i8,i8,"c") DEF_TYPE_RI(u8,u8,"b") DEF_TYPE_RI(i16,i16,"s") DEF_TYPE_RI(u16,u16,"h")
#endif
DEF_TYPE_RI(i32,i32,"i") DEF_TYPE_RI(u32,u32,"u") DEF_TYPE_RI(i64,i64,"l") DEF_TYPE_RI(u64,u64,"q")

// ---------------------------------------------------------------- carry / extended multiply
struct InPair { u32 x[4], y[4]; };
struct InPairI { i32 x[4], y[4]; };
VF_OP(uaddCarry_scalar, InPair, "uuuuuuuu"){ glm::uint carry=77; glm::uint s=glm::uaddCarry(in.x[0],in.y[0],carry); u64 w=(u64)in.x[0]+in.y[0]; c.cls(w>>32?"carry":"no-carry");
	if(s!=(u32)w) c.fail("sum:wrong",s,(u32)w); if(carry!=(u32)(w>>32)) c.fail(w>>32?"carry:missing":"carry:spurious",carry,(u32)(w>>32)); }
static std::string borrow_class(u32 x,u32 y,u32 got){ if(x==y) return "x==y:difference-wrong"; std::string p= x<y? "x<y:":"x>y:"; if(got==(u32)(y-x)) return p+"returns(y-x)mod2^32"; return p+"difference-wrong"; }
VF_OP(usubBorrow_scalar, InPair, "uuuuuuuu"){ glm::uint b=77; glm::uint d=glm::usubBorrow(in.x[0],in.y[0],b); u32 wd=in.x[0]-in.y[0]; u32 wb=in.x[0]>=in.y[0]?0:1; c.cls(in.x[0]==in.y[0]?"x==y":(wb?"x<y":"x>y"));
	if(d!=wd) c.fail(borrow_class(in.x[0],in.y[0],d),d,wd); if(b!=wb) c.fail(in.x[0]==in.y[0]?"x==y:borrow-wrong":(wb?"x<y:borrow-missing":"x>y:borrow-spurious"),b,wb); }
VF_OP(umulExtended_scalar, InPair, "uuuuuuuu"){ glm::uint m=7,l=7; glm::umulExtended(in.x[0],in.y[0],m,l); u64 w=(u64)in.x[0]*in.y[0]; if(m!=(u32)(w>>32)) c.fail("msb:wrong",m,(u32)(w>>32)); if(l!=(u32)w) c.fail("lsb:wrong",l,(u32)w); }
VF_OP(imulExtended_scalar, InPairI, "iiiiiiii"){ int m=7,l=7; glm::imulExtended(in.x[0],in.y[0],m,l); i64 w=(i64)in.x[0]*(i64)in.y[0]; i32 wm=(i32)(u32)((u64)w>>32), wl=(i32)(u32)(u64)w; c.cls(w<0?"negative-product":"nonnegative-product");
	if(m!=wm) c.fail(w<0?"negative-product:msb-wrong":"msb:wrong",m,wm); if(l!=wl) c.fail("lsb:wrong",l,wl); }
template<int L> static void kv_carry(const InPair& in,vf::Ctx& c,int which){
	glm::vec<L,glm::uint,glm::highp> x,y,o1(77u),o2(77u); for(int i=0;i<L;i++){ x[i]=in.x[i]; y[i]=in.y[i]; }
	if(which==0){ auto s=glm::uaddCarry(x,y,o1); for(int i=0;i<L;i++){ u64 w=(u64)in.x[i]+in.y[i]; if(s[i]!=(u32)w) c.fail(L_(L)+":sum:wrong",s[i],(u32)w); if(o1[i]!=(u32)(w>>32)) c.fail(L_(L)+(w>>32?":carry:missing":":carry:spurious"),o1[i],(u32)(w>>32)); } }
	if(which==1){ auto d=glm::usubBorrow(x,y,o1); for(int i=0;i<L;i++){ u32 wd=in.x[i]-in.y[i], wb=in.x[i]>=in.y[i]?0:1; if(d[i]!=wd) c.fail(L_(L)+":"+borrow_class(in.x[i],in.y[i],d[i]),d[i],wd); if(o1[i]!=wb) c.fail(L_(L)+(in.x[i]==in.y[i]?":x==y:borrow-wrong":(wb?":x<y:borrow-missing":":x>y:borrow-spurious")),o1[i],wb); } }
	if(which==2){ glm::umulExtended(x,y,o1,o2); for(int i=0;i<L;i++){ u64 w=(u64)in.x[i]*in.y[i]; if(o1[i]!=(u32)(w>>32)) c.fail(L_(L)+":msb:wrong",o1[i],(u32)(w>>32)); if(o2[i]!=(u32)w) c.fail(L_(L)+":lsb:wrong",o2[i],(u32)w); } }
}
template<int L> static void kv_imul(const InPairI& in,vf::Ctx& c){ glm::vec<L,int,glm::highp> x,y,m(7),l(7); for(int i=0;i<L;i++){ x[i]=in.x[i]; y[i]=in.y[i]; } glm::imulExtended(x,y,m,l);
	for(int i=0;i<L;i++){ i64 w=(i64)in.x[i]*(i64)in.y[i]; i32 wm=(i32)(u32)((u64)w>>32), wl=(i32)(u32)(u64)w; if(m[i]!=wm) c.fail(L_(L)+(w<0?":negative-product:msb-wrong":":msb:wrong"),m[i],wm); if(l[i]!=wl) c.fail(L_(L)+":lsb:wrong",l[i],wl); } }
VF_OP(uaddCarry_vec, InPair, "uuuuuuuu"){ kv_carry<1>(in,c,0); kv_carry<2>(in,c,0); kv_carry<3>(in,c,0); kv_carry<4>(in,c,0); }
VF_OP(usubBorrow_vec, InPair, "uuuuuuuu"){ kv_carry<1>(in,c,1); kv_carry<2>(in,c,1); kv_carry<3>(in,c,1); kv_carry<4>(in,c,1); }
VF_OP(umulExtended_vec, InPair, "uuuuuuuu"){ kv_carry<1>(in,c,2); kv_carry<2>(in,c,2); kv_carry<3>(in,c,2); kv_carry<4>(in,c,2); }
VF_OP(imulExtended_vec, InPairI, "iiiiiiii"){ kv_imul<1>(in,c); kv_imul<2>(in,c); kv_imul<3>(in,c); kv_imul<4>(in,c); }

// ---------------------------------------------------------------- workloads
template<class T> static std::vector<T> structured(){ // single bits, runs of ones, complements, lattice
	typedef typename W<T>::U U; const int B=W<T>::bits; std::vector<T> v=int_lattice<T>();
	for(int s=0;s<B;s++) for(int l=1;s+l<=B;l++){ U run= (l==B)? (U)~U(0) : (U)(((U(1)<<l)-1)<<s); v.push_back((T)run); v.push_back((T)(U)~run); }
	return v; }
template<class T> static T rnd(vf::Rng& r){ u64 x=r.next(); int m=(int)(r.next()%6); if(m==0) x&=r.next(); else if(m==1) x|=r.next(); else if(m==2) x>>= (r.next()%64); else if(m==3) x=~(x>>(r.next()%64)); return (T)x; }

template<class T,class OPS> static void run_type(const char* label,OPS& o,bool has_ri){
	const int B=W<T>::bits; std::vector<T> S=structured<T>();
	std::vector<std::pair<int,int>> ob; for(int off=0;off<=B;off++) for(int b=0;off+b<=B;b++) ob.push_back({off,b});
	if(B<=16){ // complete enumeration of values (unary) and of values x (offset,bits) (extract)
		vf::sweep(label,(u64)1<<B,256,[&](vf::Ctx& c,u64 lo,u64 hi){ for(u64 x=lo;x<hi;x++){ In1<T> in{(T)x};
			if(vf::want(*o.bitCount)) vf::run(c,*o.bitCount,in); if(vf::want(*o.findLSB)) vf::run(c,*o.findLSB,in); if(vf::want(*o.findMSB)) vf::run(c,*o.findMSB,in); if(has_ri && vf::want(*o.reverse)) vf::run(c,*o.reverse,in);
			if(vf::want(*o.extract)) for(auto& p: ob){ InExt<T> e{}; e.v[0]=(T)x; e.off=p.first; e.bits=p.second; vf::run(c,*o.extract,e);} } });
		if(has_ri && B==8 && vf::want(*o.insert)) vf::sweep(label,65536,256,[&](vf::Ctx& c,u64 lo,u64 hi){ for(u64 x=lo;x<hi;x++) for(auto& p: ob){ InIns<T> e{}; e.base[0]=(T)(x&255); e.ins[0]=(T)(x>>8); e.off=p.first; e.bits=p.second; vf::run(c,*o.insert,e);} });
	}
	u64 n=vf::N(B<=16? 20000:300000, B<=16? 2000000: 30000000);
	vf::parallel(label,[&](int t,int TT,vf::Ctx& c){
		if(B>16){ for(size_t i=t;i<S.size();i+=TT){ In1<T> in{S[i]}; if(vf::want(*o.bitCount)) vf::run(c,*o.bitCount,in); if(vf::want(*o.findLSB)) vf::run(c,*o.findLSB,in); if(vf::want(*o.findMSB)) vf::run(c,*o.findMSB,in); if(has_ri&&vf::want(*o.reverse)) vf::run(c,*o.reverse,in); }
			for(size_t i=t;i<S.size();i+=TT) if(vf::want(*o.extract)) for(size_t k=(i*7)%5;k<ob.size();k+=5){ InExt<T> e{}; e.v[0]=S[i]; e.off=ob[k].first; e.bits=ob[k].second; vf::run(c,*o.extract,e);} }
		if(has_ri && !(B==8)) for(size_t i=t;i<S.size();i+=TT) if(vf::want(*o.insert)) for(size_t k=(i*3)%7;k<ob.size();k+=7){ InIns<T> e{}; e.base[0]=S[i]; e.ins[0]=S[(i*31+k)%S.size()]; e.off=ob[k].first; e.bits=ob[k].second; vf::run(c,*o.insert,e);}
		for(u64 i=t;i<n;i+=TT){
			In4<T> v4; for(int k=0;k<4;k++) v4.v[k]= (c.rng.next()%4==0)? S[c.rng.below(S.size())]: rnd<T>(c.rng);
			In1<T> in{v4.v[0]};
			if(B>16){ if(vf::want(*o.bitCount)) vf::run(c,*o.bitCount,in); if(vf::want(*o.findLSB)) vf::run(c,*o.findLSB,in); if(vf::want(*o.findMSB)) vf::run(c,*o.findMSB,in); if(has_ri&&vf::want(*o.reverse)) vf::run(c,*o.reverse,in); }
			if(vf::want(*o.bitCount_v)) vf::run(c,*o.bitCount_v,v4); if(vf::want(*o.findLSB_v)) vf::run(c,*o.findLSB_v,v4); if(vf::want(*o.findMSB_v)) vf::run(c,*o.findMSB_v,v4); if(has_ri&&vf::want(*o.reverse_v)) vf::run(c,*o.reverse_v,v4);
			auto p=ob[c.rng.below(ob.size())]; InExt<T> e; for(int k=0;k<4;k++) e.v[k]=v4.v[k]; e.off=p.first; e.bits=p.second;
			if(B>16 && vf::want(*o.extract)) vf::run(c,*o.extract,e); if(vf::want(*o.extract_v)) vf::run(c,*o.extract_v,e);
			if(has_ri){ InIns<T> q; for(int k=0;k<4;k++){ q.base[k]=v4.v[k]; q.ins[k]=rnd<T>(c.rng);} q.off=p.first; q.bits=p.second; if(!(B==8) && vf::want(*o.insert)) vf::run(c,*o.insert,q); if(vf::want(*o.insert_v)) vf::run(c,*o.insert_v,q); }
		}
	});
}
struct Ops { vf::Op *bitCount,*findLSB,*findMSB,*reverse,*extract,*insert,*bitCount_v,*findLSB_v,*findMSB_v,*reverse_v,*extract_v,*insert_v; };
#define OPS(TN) Ops{&bitCount_##TN,&findLSB_##TN,&findMSB_##TN,&bitfieldReverse_##TN,&bitfieldExtract_##TN,&bitfieldInsert_##TN,&bitCount_vec_##TN,&findLSB_vec_##TN,&findMSB_vec_##TN,&bitfieldReverse_vec_##TN,&bitfieldExtract_vec_##TN,&bitfieldInsert_vec_##TN}
#define OPS_NORI(TN) Ops{&bitCount_##TN,&findLSB_##TN,&findMSB_##TN,nullptr,&bitfieldExtract_##TN,nullptr,&bitCount_vec_##TN,&findLSB_vec_##TN,&findMSB_vec_##TN,nullptr,&bitfieldExtract_vec_##TN,nullptr}

static void workload(){
#ifdef C05_NARROW_RI
	{ Ops o=OPS(i8); run_type<i8>("i8",o,true);} { Ops o=OPS(u8); run_type<u8>("u8",o,true);} { Ops o=OPS(i16); run_type<i16>("i16",o,true);} { Ops o=OPS(u16); run_type<u16>("u16",o,true);}
	vf::note("narrow_reverse_insert","bitfieldReverse/bitfieldInsert instantiated for 8/16-bit types");
#else
	{ Ops o=OPS_NORI(i8); run_type<i8>("i8",o,false);} { Ops o=OPS_NORI(u8); run_type<u8>("u8",o,false);} { Ops o=OPS_NORI(i16); run_type<i16>("i16",o,false);} { Ops o=OPS_NORI(u16); run_type<u16>("u16",o,false);}
	vf::note("narrow_reverse_insert","bitfieldReverse/bitfieldInsert do not compile for 8/16-bit element types on this tree: not instantiated");
#endif
	{ Ops o=OPS(i32); run_type<i32>("i32",o,true);} { Ops o=OPS(u32); run_type<u32>("u32",o,true);} { Ops o=OPS(i64); run_type<i64>("i64",o,true);} { Ops o=OPS(u64); run_type<u64>("u64",o,true);}
	// carry family: all pairs of the 32-bit lattice + random
	std::vector<u32> Lt=int_lattice<u32>(); u64 n=vf::N(1000000,100000000);
	vf::parallel("carry",[&](int t,int TT,vf::Ctx& c){
		auto one=[&](const InPair& p){ InPairI q; memcpy(&q,&p,sizeof q);
			if(vf::want(uaddCarry_scalar)) vf::run(c,uaddCarry_scalar,p); if(vf::want(usubBorrow_scalar)) vf::run(c,usubBorrow_scalar,p); if(vf::want(umulExtended_scalar)) vf::run(c,umulExtended_scalar,p); if(vf::want(imulExtended_scalar)) vf::run(c,imulExtended_scalar,q);
			if(vf::want(uaddCarry_vec)) vf::run(c,uaddCarry_vec,p); if(vf::want(usubBorrow_vec)) vf::run(c,usubBorrow_vec,p); if(vf::want(umulExtended_vec)) vf::run(c,umulExtended_vec,p); if(vf::want(imulExtended_vec)) vf::run(c,imulExtended_vec,q); };
		for(size_t i=t;i<Lt.size();i+=TT) for(size_t j=0;j<Lt.size();j++){ InPair p; for(int k=0;k<4;k++){ p.x[k]=Lt[(i+k*5)%Lt.size()]; p.y[k]=Lt[(j+k*11)%Lt.size()]; } one(p); }
		for(u64 i=t;i<n;i+=TT){ InPair p; for(int k=0;k<4;k++){ p.x[k]=rnd<u32>(c.rng); int m=(int)(c.rng.next()%8); p.y[k]= m==0? p.x[k]: m==1? p.x[k]+1: m==2? p.x[k]-1: m==3? ~p.x[k]: m==4? (u32)(0-p.x[k]) : rnd<u32>(c.rng); } one(p); }
	});
}
VF_MAIN("C05_integer")
