// C18 (part 2) — gtc/bitfield: mask, bitfieldFillOne/Zero, bitfieldRotateLeft/Right, bitfieldInterleave (2,3,4 operands,
// every overload) and bitfieldDeinterleave versus bit-by-bit loop models written from the documentation text in
// glm/gtc/bitfield.hpp and the property statement ("bit i of the k-th of n arguments goes to bit n*i+k").
#include "vf.hpp"
#include "ref.hpp"
#include <glm/glm.hpp>
#include <glm/gtc/bitfield.hpp>
#include <glm/gtc/type_precision.hpp>
using namespace ref;

// ---------------------------------------------------------------- reference models (no glm code)
template<class T> struct W { enum { bits = sizeof(T)*8 }; typedef typename std::make_unsigned<T>::type U; };
template<class T> static T r_mask(int n){ typedef typename W<T>::U U; U r=0; for(int i=0;i<n && i<W<T>::bits;i++) r|=(U)((U)1<<i); return (T)r; }
template<class T> static T r_rotr(T x,int s){ typedef typename W<T>::U U; const int B=W<T>::bits; U u=(U)x, r=0; for(int i=0;i<B;i++) if((u>>i)&1) r|=(U)((U)1<<((i-s+B)%B)); return (T)r; }
template<class T> static T r_rotl(T x,int s){ typedef typename W<T>::U U; const int B=W<T>::bits; U u=(U)x, r=0; for(int i=0;i<B;i++) if((u>>i)&1) r|=(U)((U)1<<((i+s)%B)); return (T)r; }
template<class T> static T r_fill(T x,int first,int count,bool one){ typedef typename W<T>::U U; U r=(U)x; for(int i=first;i<first+count;i++){ U m=(U)((U)1<<i); if(one) r|=m; else r&=(U)~m; } return (T)r; }
// interleave: bit i of operand k (of n) -> bit n*i+k ; bits with no place in the result are dropped
static u64 r_interleave_loop(const u64* v,int n,int argBits,int retBits){ u64 r=0; for(int i=0;i<argBits;i++) for(int k=0;k<n;k++){ int pos=n*i+k; if(pos<retBits && pos<64) r|=((v[k]>>i)&1ull)<<pos; } return r; }
// byte tables derived from the loop model (for the 2^32 sweeps); every result is also spot-checked against the loop model
static u64 g_spread[5][256]; static u8 g_even[256];
static inline u64 lowmask(int n){ return n>=64? ~0ull : ((1ull<<n)-1); }
static void init_tables(){ for(int n=2;n<=4;n++) for(int b=0;b<256;b++){ u64 r=0; for(int i=0;i<8;i++) if((b>>i)&1) r|=1ull<<(n*i); g_spread[n][b]=r; }
	for(int b=0;b<256;b++){ u8 r=0; for(int i=0;i<4;i++) if((b>>(2*i))&1) r|=(u8)(1<<i); g_even[b]=r; } }
static inline u64 r_interleave(const u64* v,int n,int argBits,int retBits){ u64 r=0; for(int k=0;k<n;k++) for(int b=0;b*8<argBits;b++){ int sh=n*8*b+k; if(sh<64) r|=g_spread[n][(v[k]>>(8*b))&255]<<sh; }
	return r&lowmask(retBits); }
static inline u64 r_evenbits(u64 z){ u64 r=0; for(int b=0;b<8;b++) r|=(u64)g_even[(z>>(8*b))&255]<<(4*b); return r; }
static u64 r_evenbits_loop(u64 z){ u64 r=0; for(int i=0;i<32;i++) if((z>>(2*i))&1) r|=1ull<<i; return r; }
static void harness_abort(const char* what){ fprintf(stderr,"C18_bitfield: reference models disagree (%s): harness bug\n",what); _exit(3); }

static std::string L_(int L){ return "vec"+std::to_string(L); }
// Per-thread limiter (see C18_pow2mult.cpp): every failure is classified (integer code), only the first LIMIT reports per
// (operation, vector length, class) and worker thread are recorded: counts are lower bounds, no class is dropped.
#include <unordered_map>
struct Throttle { enum { LIMIT=1500 }; std::unordered_map<u64,u32> n;
	bool ok(u32 L,u32 code){ u64 k=((u64)vf::g_crumb.op->id<<44) ^ ((u64)L<<40) ^ code; u32& v=n[k]; if(v>=LIMIT) return false; ++v; return true; } };
static thread_local Throttle g_thr;
static std::string vpre(int L){ return L? L_(L)+":" : std::string(); }

template<class T> struct InV { T v[4]; };
template<class T> struct InRot { T v[4]; int shift; };
template<class T> struct InFill { T v[4]; int first, count; };

// ---------------------------------------------------------------- mask / rotate / fill checks
template<class T> static void k_mask(const InV<T>& in,vf::Ctx& c){ int n=(int)in.v[0]; T got=glm::mask(in.v[0]), want=r_mask<T>(n); if(n==W<T>::bits) c.cls("count=width"); if(n==0) c.cls("count=0");
	if(got!=want){ u32 k= n==W<T>::bits? 0: n==W<T>::bits-1? 1: 2; if(g_thr.ok(0,k)) c.fail(k==0?"count=width:wrong-bits":(k==1?"count=width-1:wrong-bits":"wrong-bits"),got,want); } }
template<class T,int L> static void kv_mask(const InV<T>& in,vf::Ctx& c){ glm::vec<L,T,glm::highp> v; for(int i=0;i<L;i++) v[i]=in.v[i]; glm::vec<L,T,glm::highp> g=glm::mask(v);
	for(int i=0;i<L;i++){ T w=r_mask<T>((int)in.v[i]); if(g[i]!=w && g_thr.ok(L,0)) c.fail(L_(L)+":wrong-bits",g[i],w);} }
template<class T> static void kv_mask_all(const InV<T>& in,vf::Ctx& c){ kv_mask<T,1>(in,c); kv_mask<T,2>(in,c); kv_mask<T,3>(in,c); kv_mask<T,4>(in,c); }

template<class T> static u32 rot_code(T x,int s,T got,bool right){ T opp= right? r_rotl(x,s): r_rotr(x,s); if(got==opp) return 0; if(std::is_signed<T>::value && x<0) return 1; if(s==0) return 2; return 3; }
static std::string rot_name(u32 k,bool right){ static const char* N[]={"","negative-signed:sign-bits-smeared-into-result","shift=0:wrong-bits","wrong-bits"}; if(k==0) return right? "rotates-left-instead-of-right":"rotates-right-instead-of-left"; return N[k]; }
template<class T> static void k_rotr(const InRot<T>& in,vf::Ctx& c){ T got=glm::bitfieldRotateRight(in.v[0],in.shift), want=r_rotr(in.v[0],in.shift); if(in.shift==0) c.cls("shift=0"); if(got!=want){ u32 k=rot_code(in.v[0],in.shift,got,true); if(g_thr.ok(0,k)) c.fail(rot_name(k,true),got,want); } }
template<class T> static void k_rotl(const InRot<T>& in,vf::Ctx& c){ T got=glm::bitfieldRotateLeft(in.v[0],in.shift), want=r_rotl(in.v[0],in.shift); if(in.shift==0) c.cls("shift=0"); if(got!=want){ u32 k=rot_code(in.v[0],in.shift,got,false); if(g_thr.ok(0,k)) c.fail(rot_name(k,false),got,want); } }
template<class T,int L,bool RIGHT> static void kv_rot(const InRot<T>& in,vf::Ctx& c){ glm::vec<L,T,glm::highp> v; for(int i=0;i<L;i++) v[i]=in.v[i];
	glm::vec<L,T,glm::highp> g= RIGHT? glm::bitfieldRotateRight(v,in.shift): glm::bitfieldRotateLeft(v,in.shift);
	for(int i=0;i<L;i++){ T w= RIGHT? r_rotr(in.v[i],in.shift): r_rotl(in.v[i],in.shift); if(g[i]!=w){ u32 k=rot_code(in.v[i],in.shift,(T)g[i],RIGHT); if(g_thr.ok(L,k)) c.fail(L_(L)+":"+rot_name(k,RIGHT),g[i],w);} } }
template<class T,bool RIGHT> static void kv_rot_all(const InRot<T>& in,vf::Ctx& c){ kv_rot<T,1,RIGHT>(in,c); kv_rot<T,2,RIGHT>(in,c); kv_rot<T,3,RIGHT>(in,c); kv_rot<T,4,RIGHT>(in,c); }

template<class T> static u32 fill_code(int first,int count){ const int B=W<T>::bits; if(B==64){ if(count>=32) return 1; if(first+count>=32) return 2; } if(count==0) return 3; if(count==B) return 4; if(first+count==B) return 5; return 0; }
static std::string fill_name(u32 k){ static const char* N[]={"wrong-bits","64bit:count>=32:wrong-bits","64bit:range-reaches-bit-31-or-above:wrong-bits","count=0:wrong-bits","count=width:wrong-bits","range-at-top:wrong-bits"}; return N[k]; }
template<class T,bool ONE> static void k_fill(const InFill<T>& in,vf::Ctx& c){ T got= ONE? glm::bitfieldFillOne(in.v[0],in.first,in.count): glm::bitfieldFillZero(in.v[0],in.first,in.count); T want=r_fill(in.v[0],in.first,in.count,ONE);
	if(in.count==0) c.cls("count=0");
	if(in.first+in.count==W<T>::bits) c.cls("range-at-top");
	if(got!=want){ u32 k=fill_code<T>(in.first,in.count); if(g_thr.ok(0,k)) c.fail(fill_name(k),got,want); } }
template<class T,int L,bool ONE> static void kv_fill(const InFill<T>& in,vf::Ctx& c){ glm::vec<L,T,glm::highp> v; for(int i=0;i<L;i++) v[i]=in.v[i];
	glm::vec<L,T,glm::highp> g= ONE? glm::bitfieldFillOne(v,in.first,in.count): glm::bitfieldFillZero(v,in.first,in.count);
	for(int i=0;i<L;i++){ T w=r_fill(in.v[i],in.first,in.count,ONE); if(g[i]!=w){ u32 k=fill_code<T>(in.first,in.count); if(g_thr.ok(L,k)) c.fail(L_(L)+":"+fill_name(k),g[i],w);} } }
template<class T,bool ONE> static void kv_fill_all(const InFill<T>& in,vf::Ctx& c){ kv_fill<T,1,ONE>(in,c); kv_fill<T,2,ONE>(in,c); kv_fill<T,3,ONE>(in,c); kv_fill<T,4,ONE>(in,c); }

#define DEF_TYPE(T,TN,F) \
	VF_OP(mask_##TN, InV<T>, F F F F){ k_mask<T>(in,c);} \
	VF_OP(mask_vec_##TN, InV<T>, F F F F){ kv_mask_all<T>(in,c);} \
	VF_OP(bitfieldRotateRight_##TN, InRot<T>, F F F F "i"){ k_rotr<T>(in,c);} \
	VF_OP(bitfieldRotateLeft_##TN, InRot<T>, F F F F "i"){ k_rotl<T>(in,c);} \
	VF_OP(bitfieldRotateRight_vec_##TN, InRot<T>, F F F F "i"){ kv_rot_all<T,true>(in,c);} \
	VF_OP(bitfieldRotateLeft_vec_##TN, InRot<T>, F F F F "i"){ kv_rot_all<T,false>(in,c);} \
	VF_OP(bitfieldFillOne_##TN, InFill<T>, F F F F "ii"){ k_fill<T,true>(in,c);} \
	VF_OP(bitfieldFillZero_##TN, InFill<T>, F F F F "ii"){ k_fill<T,false>(in,c);} \
	VF_OP(bitfieldFillOne_vec_##TN, InFill<T>, F F F F "ii"){ kv_fill_all<T,true>(in,c);} \
	VF_OP(bitfieldFillZero_vec_##TN, InFill<T>, F F F F "ii"){ kv_fill_all<T,false>(in,c);}
DEF_TYPE(i8,i8,"c") DEF_TYPE(u8,u8,"b") DEF_TYPE(i16,i16,"s") DEF_TYPE(u16,u16,"h")
DEF_TYPE(i32,i32,"i") DEF_TYPE(u32,u32,"u") DEF_TYPE(i64,i64,"l") DEF_TYPE(u64,u64,"q")
struct Ops { vf::Op *mask,*mask_v,*rotr,*rotl,*rotr_v,*rotl_v,*fill1,*fill0,*fill1_v,*fill0_v; };
#define OPS(TN) Ops{&mask_##TN,&mask_vec_##TN,&bitfieldRotateRight_##TN,&bitfieldRotateLeft_##TN,&bitfieldRotateRight_vec_##TN,&bitfieldRotateLeft_vec_##TN,&bitfieldFillOne_##TN,&bitfieldFillZero_##TN,&bitfieldFillOne_vec_##TN,&bitfieldFillZero_vec_##TN}

// ---------------------------------------------------------------- interleave checks
template<class A> struct In2 { A x,y; };
template<class A> struct In3 { A x,y,z; };
template<class A> struct In4 { A x,y,z,w; };
// class of a wrong interleave result: first operand whose bits are not where they belong, else spurious bits
static u32 il_code(u64 got,const u64* v,int n,int argBits,int retBits){
	for(int k=0;k<n;k++){ bool lo=false,hi=false; for(int i=0;i<argBits;i++){ int pos=n*i+k; if(pos>=retBits||pos>=64) continue; if(((got>>pos)&1)!=((v[k]>>i)&1)){ if(i<argBits/2) lo=true; else hi=true; } }
		if(lo||hi) return (u32)(k*4+(lo?1:0)+(hi?2:0)); }
	return 99; }
static std::string il_name(u32 k){ if(k==99) return "spurious-bits-outside-operand-positions"; return "operand"+std::to_string(k/4)+((k&3)==3?":bits-misplaced": (k&3)==1? ":low-half-bits-misplaced":":high-half-bits-misplaced"); }
static std::atomic<u64> g_spot(0);
static inline u64 want_il(const u64* v,int n,int argBits,int retBits,u64 salt){ u64 w=r_interleave(v,n,argBits,retBits); if(((salt*0x9e3779b97f4a7c15ULL)>>52)==0){ if(w!=r_interleave_loop(v,n,argBits,retBits)) harness_abort("interleave table vs loop"); g_spot++; } return w; }
static inline void il_check(vf::Ctx& c,u64 got,const u64* v,int n,int ab,int rb){ u64 g=got&lowmask(rb); u64 salt=0; for(int k=0;k<n;k++) salt=salt*31+v[k]; u64 w=want_il(v,n,ab,rb,salt);
	if(g!=w){ u32 k=il_code(g,v,n,ab,rb); if(g_thr.ok(0,k)) c.fail(il_name(k),vf::show((unsigned long long)g),vf::show((unsigned long long)w)); } }
#define IL_CHECK(GOT,N,AB,RB) { il_check(c,(u64)(GOT),v,N,AB,RB); }

// two operands
VF_OP(bitfieldInterleave2_u8, In2<u8>, "bb"){ u64 v[2]={in.x,in.y}; IL_CHECK(glm::bitfieldInterleave(in.x,in.y),2,8,16) }
VF_OP(bitfieldInterleave2_i8, In2<u8>, "bb"){ u64 v[2]={in.x,in.y}; IL_CHECK((u16)glm::bitfieldInterleave((glm::int8)in.x,(glm::int8)in.y),2,8,16) }
VF_OP(bitfieldInterleave2_u8vec2, In2<u8>, "bb"){ u64 v[2]={in.x,in.y}; IL_CHECK(glm::bitfieldInterleave(glm::u8vec2(in.x,in.y)),2,8,16) }
VF_OP(bitfieldInterleave2_u16, In2<u16>, "hh"){ u64 v[2]={in.x,in.y}; IL_CHECK(glm::bitfieldInterleave(in.x,in.y),2,16,32) }
VF_OP(bitfieldInterleave2_i16, In2<u16>, "hh"){ u64 v[2]={in.x,in.y}; IL_CHECK((u32)glm::bitfieldInterleave((glm::int16)in.x,(glm::int16)in.y),2,16,32) }
VF_OP(bitfieldInterleave2_u16vec2, In2<u16>, "hh"){ u64 v[2]={in.x,in.y}; IL_CHECK(glm::bitfieldInterleave(glm::u16vec2(in.x,in.y)),2,16,32) }
VF_OP(bitfieldInterleave2_u32, In2<u32>, "uu"){ u64 v[2]={in.x,in.y}; IL_CHECK(glm::bitfieldInterleave(in.x,in.y),2,32,64) }
VF_OP(bitfieldInterleave2_i32, In2<u32>, "uu"){ u64 v[2]={in.x,in.y}; IL_CHECK((u64)glm::bitfieldInterleave((glm::int32)in.x,(glm::int32)in.y),2,32,64) }
VF_OP(bitfieldInterleave2_u32vec2, In2<u32>, "uu"){ u64 v[2]={in.x,in.y}; IL_CHECK(glm::bitfieldInterleave(glm::u32vec2(in.x,in.y)),2,32,64) }
// three operands
VF_OP(bitfieldInterleave3_u8, In3<u8>, "bbb"){ u64 v[3]={in.x,in.y,in.z}; IL_CHECK(glm::bitfieldInterleave(in.x,in.y,in.z),3,8,32) }
VF_OP(bitfieldInterleave3_i8, In3<u8>, "bbb"){ u64 v[3]={in.x,in.y,in.z}; IL_CHECK((u32)glm::bitfieldInterleave((glm::int8)in.x,(glm::int8)in.y,(glm::int8)in.z),3,8,32) }
VF_OP(bitfieldInterleave3_u8vec3, In3<u8>, "bbb"){ u64 v[3]={in.x,in.y,in.z}; IL_CHECK(glm::bitfieldInterleave(glm::u8vec3(in.x,in.y,in.z)),3,8,32) }
VF_OP(bitfieldInterleave3_u16, In3<u16>, "hhh"){ u64 v[3]={in.x,in.y,in.z}; IL_CHECK(glm::bitfieldInterleave(in.x,in.y,in.z),3,16,64) }
VF_OP(bitfieldInterleave3_i16, In3<u16>, "hhh"){ u64 v[3]={in.x,in.y,in.z}; IL_CHECK((u64)glm::bitfieldInterleave((glm::int16)in.x,(glm::int16)in.y,(glm::int16)in.z),3,16,64) }
VF_OP(bitfieldInterleave3_u16vec3, In3<u16>, "hhh"){ u64 v[3]={in.x,in.y,in.z}; IL_CHECK(glm::bitfieldInterleave(glm::u16vec3(in.x,in.y,in.z)),3,16,64) }
// 32-bit x 3: only result bits 0..63 exist; operand bits whose place 3*i+k is >= 64 have nowhere to go (dropped by the model)
VF_OP(bitfieldInterleave3_u32, In3<u32>, "uuu"){ u64 v[3]={in.x,in.y,in.z}; IL_CHECK(glm::bitfieldInterleave(in.x,in.y,in.z),3,32,64) }
VF_OP(bitfieldInterleave3_i32, In3<u32>, "uuu"){ u64 v[3]={in.x,in.y,in.z}; IL_CHECK((u64)glm::bitfieldInterleave((glm::int32)in.x,(glm::int32)in.y,(glm::int32)in.z),3,32,64) }
VF_OP(bitfieldInterleave3_u32vec3, In3<u32>, "uuu"){ u64 v[3]={in.x,in.y,in.z}; IL_CHECK(glm::bitfieldInterleave(glm::u32vec3(in.x,in.y,in.z)),3,32,64) }
// four operands
VF_OP(bitfieldInterleave4_u8, In4<u8>, "bbbb"){ u64 v[4]={in.x,in.y,in.z,in.w}; IL_CHECK(glm::bitfieldInterleave(in.x,in.y,in.z,in.w),4,8,32) }
VF_OP(bitfieldInterleave4_i8, In4<u8>, "bbbb"){ u64 v[4]={in.x,in.y,in.z,in.w}; IL_CHECK((u32)glm::bitfieldInterleave((glm::int8)in.x,(glm::int8)in.y,(glm::int8)in.z,(glm::int8)in.w),4,8,32) }
VF_OP(bitfieldInterleave4_u8vec4, In4<u8>, "bbbb"){ u64 v[4]={in.x,in.y,in.z,in.w}; IL_CHECK(glm::bitfieldInterleave(glm::u8vec4(in.x,in.y,in.z,in.w)),4,8,32) }
VF_OP(bitfieldInterleave4_u16, In4<u16>, "hhhh"){ u64 v[4]={in.x,in.y,in.z,in.w}; IL_CHECK(glm::bitfieldInterleave(in.x,in.y,in.z,in.w),4,16,64) }
VF_OP(bitfieldInterleave4_i16, In4<u16>, "hhhh"){ u64 v[4]={in.x,in.y,in.z,in.w}; IL_CHECK((u64)glm::bitfieldInterleave((glm::int16)in.x,(glm::int16)in.y,(glm::int16)in.z,(glm::int16)in.w),4,16,64) }
VF_OP(bitfieldInterleave4_u16vec4, In4<u16>, "hhhh"){ u64 v[4]={in.x,in.y,in.z,in.w}; IL_CHECK(glm::bitfieldInterleave(glm::u16vec4(in.x,in.y,in.z,in.w)),4,16,64) }

// deinterleave: direct model (x = even bits, y = odd bits) on every z, which is the inverse of the interleave bijection
struct InZ16 { u16 z; }; struct InZ32 { u32 z; }; struct InZ64 { u64 z; };
static std::string de_class(bool xbad,bool ybad){ return xbad&&ybad? "both-components-wrong": xbad? "x-component(even-bits)-wrong":"y-component(odd-bits)-wrong"; }
static inline void de_spot(u64 z,u64 wx,u64 wy){ if(((z*0x9e3779b97f4a7c15ULL)>>52)==0){ if(wx!=r_evenbits_loop(z)||wy!=r_evenbits_loop(z>>1)) harness_abort("deinterleave table vs loop"); g_spot++; } }
VF_OP(bitfieldDeinterleave_u16, InZ16, "h"){ glm::u8vec2 g=glm::bitfieldDeinterleave((glm::uint16)in.z); u64 wx=r_evenbits(in.z)&0xff, wy=r_evenbits((u64)in.z>>1)&0xff; de_spot(in.z,wx,wy);
	if((g.x!=wx||g.y!=wy) && g_thr.ok(0,(g.x!=wx?1:0)+(g.y!=wy?2:0))) c.fail(de_class(g.x!=wx,g.y!=wy),vf::show((unsigned)g.x)+","+vf::show((unsigned)g.y),vf::show((unsigned)wx)+","+vf::show((unsigned)wy)); }
VF_OP(bitfieldDeinterleave_u32, InZ32, "u"){ glm::u16vec2 g=glm::bitfieldDeinterleave((glm::uint32)in.z); u64 wx=r_evenbits(in.z)&0xffff, wy=r_evenbits((u64)in.z>>1)&0xffff; de_spot(in.z,wx,wy);
	if((g.x!=wx||g.y!=wy) && g_thr.ok(0,(g.x!=wx?1:0)+(g.y!=wy?2:0))) c.fail(de_class(g.x!=wx,g.y!=wy),vf::show((unsigned)g.x)+","+vf::show((unsigned)g.y),vf::show((unsigned)wx)+","+vf::show((unsigned)wy)); }
VF_OP(bitfieldDeinterleave_u64, InZ64, "q"){ glm::u32vec2 g=glm::bitfieldDeinterleave((glm::uint64)in.z); u64 wx=r_evenbits(in.z), wy=r_evenbits(in.z>>1); de_spot(in.z,wx,wy);
	if((g.x!=wx||g.y!=wy) && g_thr.ok(0,(g.x!=wx?1:0)+(g.y!=wy?2:0))) c.fail(de_class(g.x!=wx,g.y!=wy),vf::show((unsigned)g.x)+","+vf::show((unsigned)g.y),vf::show((unsigned)wx)+","+vf::show((unsigned)wy)); }
// round trip as the statement words it: deinterleave(interleave(x,y)) == (x,y)
VF_OP(roundtrip_u8, In2<u8>, "bb"){ glm::u8vec2 g=glm::bitfieldDeinterleave(glm::bitfieldInterleave(in.x,in.y)); if((g.x!=in.x||g.y!=in.y) && g_thr.ok(0,0)) c.fail("deinterleave(interleave(x,y))!=(x,y)",vf::show((unsigned)g.x)+","+vf::show((unsigned)g.y),vf::show((unsigned)in.x)+","+vf::show((unsigned)in.y)); }
VF_OP(roundtrip_u16, In2<u16>, "hh"){ glm::u16vec2 g=glm::bitfieldDeinterleave(glm::bitfieldInterleave(in.x,in.y)); if((g.x!=in.x||g.y!=in.y) && g_thr.ok(0,0)) c.fail("deinterleave(interleave(x,y))!=(x,y)",vf::show((unsigned)g.x)+","+vf::show((unsigned)g.y),vf::show((unsigned)in.x)+","+vf::show((unsigned)in.y)); }
VF_OP(roundtrip_u32, In2<u32>, "uu"){ glm::u32vec2 g=glm::bitfieldDeinterleave(glm::bitfieldInterleave(in.x,in.y)); if((g.x!=in.x||g.y!=in.y) && g_thr.ok(0,0)) c.fail("deinterleave(interleave(x,y))!=(x,y)",vf::show((unsigned)g.x)+","+vf::show((unsigned)g.y),vf::show((unsigned)in.x)+","+vf::show((unsigned)in.y)); }

// complete enumerations of the thorough tier are used by the main unit only; secondary builds (other compiler / flags) pass --x-light 1
static bool full_tier(){ return vf::thorough() && !vf::cfg().extra.count("light"); }
#define RUN(OP,IN) do{ if(vf::want(OP)) vf::run(c,OP,IN); }while(0)
// ---------------------------------------------------------------- workloads
template<class T> static std::vector<T> structured(){ // lattice, single bits, runs of ones and complements
	typedef typename W<T>::U U; const int B=W<T>::bits; std::vector<T> v=int_lattice<T>();
	for(int s=0;s<B;s++) for(int l=1;s+l<=B;l++){ U run= (l==B)? (U)~U(0) : (U)(((U(1)<<l)-1)<<s); v.push_back((T)run); v.push_back((T)(U)~run); }
	return v; }
template<class T> static T rnd(vf::Rng& r){ u64 x=r.next(); int m=(int)(r.next()%6); if(m==0) x&=r.next(); else if(m==1) x|=r.next(); else if(m==2) x>>= (r.next()%64); else if(m==3) x=~(x>>(r.next()%64)); return (T)x; }

template<class T> static void run_type(const char* label,Ops o){
	const int B=W<T>::bits; std::vector<T> S=structured<T>();
	std::vector<std::pair<int,int>> fc; for(int f=0;f<B;f++) for(int n=0;f+n<=B;n++) fc.push_back({f,n});   // first in [0,width), first+count <= width
	// mask: every count 0..width, scalar; vector forms with all 4-tuples of a stride
	vf::sweep(label,(u64)B+1,1,[&](vf::Ctx& c,u64 lo,u64 hi){ for(u64 n=lo;n<hi;n++){ InV<T> in{}; in.v[0]=(T)n; for(int k=1;k<4;k++) in.v[k]=(T)((n*(k+2)+k)%(B+1));
		RUN(*o.mask,in); RUN(*o.mask_v,in); } });
	if(B<=16){ // every value x every shift ; every value x every (first,count)
		vf::sweep(label,(u64)1<<B,64,[&](vf::Ctx& c,u64 lo,u64 hi){ for(u64 x=lo;x<hi;x++){
			for(int s=0;s<B;s++){ InRot<T> in{}; in.v[0]=(T)x; for(int k=1;k<4;k++) in.v[k]=(T)(x*(2*k+1)+k*0x55); in.shift=s;
				RUN(*o.rotr,in); RUN(*o.rotl,in);
				if(B==8 || (x&15)==(u64)(s&15)){ RUN(*o.rotr_v,in); RUN(*o.rotl_v,in); } }
			for(size_t j=0;j<fc.size();j++){ InFill<T> in{}; in.v[0]=(T)x; for(int k=1;k<4;k++) in.v[k]=(T)(x*(2*k+1)+k*0x33); in.first=fc[j].first; in.count=fc[j].second;
				RUN(*o.fill1,in); RUN(*o.fill0,in);
				if(B==8 || (x%37)==(u64)(j%37)){ RUN(*o.fill1_v,in); RUN(*o.fill0_v,in); } }
		} });
	} else {
		u64 n=vf::N(150000,15000000);
		vf::parallel(label,[&](int t,int TT,vf::Ctx& c){
			auto rot=[&](const InRot<T>& in){ RUN(*o.rotr,in); RUN(*o.rotl,in); RUN(*o.rotr_v,in); RUN(*o.rotl_v,in); };
			auto fil=[&](const InFill<T>& in){ RUN(*o.fill1,in); RUN(*o.fill0,in); RUN(*o.fill1_v,in); RUN(*o.fill0_v,in); };
			for(size_t i=t;i<S.size();i+=TT){ for(int s=0;s<B;s++){ InRot<T> in{}; for(int k=0;k<4;k++) in.v[k]=S[(i+k*13)%S.size()]; in.shift=s; rot(in); }
				for(size_t j=(i*7)%3;j<fc.size();j+=3){ InFill<T> in{}; for(int k=0;k<4;k++) in.v[k]=S[(i+k*29)%S.size()]; in.first=fc[j].first; in.count=fc[j].second; fil(in); } }
			for(u64 i=t;i<n;i+=TT){ InRot<T> r{}; InFill<T> f{}; for(int k=0;k<4;k++){ r.v[k]=rnd<T>(c.rng); f.v[k]=rnd<T>(c.rng);} r.shift=(int)c.rng.below(B); auto p=fc[c.rng.below(fc.size())]; f.first=p.first; f.count=p.second; rot(r); fil(f); }
		});
	}
}

static void workload(){
	init_tables();
	run_type<i8>("i8",OPS(i8)); run_type<u8>("u8",OPS(u8)); run_type<i16>("i16",OPS(i16)); run_type<u16>("u16",OPS(u16));
	run_type<i32>("i32",OPS(i32)); run_type<u32>("u32",OPS(u32)); run_type<i64>("i64",OPS(i64)); run_type<u64>("u64",OPS(u64));

	const bool th=full_tier();
	// ---- 8-bit pairs: all 2^16 ; 16-bit word: all 2^16 deinterleave inputs
	vf::sweep("il2x8",65536,256,[&](vf::Ctx& c,u64 lo,u64 hi){ for(u64 p=lo;p<hi;p++){ In2<u8> in{(u8)(p&255),(u8)(p>>8)}; InZ16 z{(u16)p};
		RUN(bitfieldInterleave2_u8,in); RUN(bitfieldInterleave2_i8,in); RUN(bitfieldInterleave2_u8vec2,in);
		RUN(roundtrip_u8,in); RUN(bitfieldDeinterleave_u16,z); } });
	// ---- 16-bit pairs: thorough = all 2^32 (x,y) through every 2-operand 16-bit overload + round trip, and all 2^32 words through
	//      deinterleave. quick = every x with 4096 y values (y = 16*j + nibble varying with x and j), every 28-bit word prefix with a varying low nibble.
	vf::note("il2x16_coverage", th? "complete: 2^32 pairs, 2^32 words":"2^28 pairs (every x, 4096 y each), 2^28 words");
	vf::sweep("il2x16", th? (u64)1<<32 : (u64)1<<28, 1<<16,[&](vf::Ctx& c,u64 lo,u64 hi){ for(u64 q=lo;q<hi;q++){ u64 p= th? q : ((q<<4) | (((q*0x9e3779b97f4a7c15ULL)>>40)&15));
		In2<u16> in{(u16)(p&0xffff),(u16)(p>>16)}; InZ32 z{(u32)p}; if(!th){ in.x=(u16)(q&0xffff); in.y=(u16)((((q>>16)&0xfff)<<4) | (((q*0x9e3779b97f4a7c15ULL)>>44)&15)); }
		RUN(bitfieldInterleave2_u16,in); RUN(bitfieldDeinterleave_u32,z); RUN(bitfieldInterleave2_i16,in); RUN(bitfieldInterleave2_u16vec2,in); RUN(roundtrip_u16,in); } });
	// ---- 3 x 8-bit: all 2^24
	vf::sweep("il3x8",(u64)1<<24,1<<12,[&](vf::Ctx& c,u64 lo,u64 hi){ for(u64 p=lo;p<hi;p++){ In3<u8> in{(u8)(p&255),(u8)((p>>8)&255),(u8)(p>>16)};
		RUN(bitfieldInterleave3_u8,in); RUN(bitfieldInterleave3_i8,in); RUN(bitfieldInterleave3_u8vec3,in); } });
	// ---- 4 x 8-bit: all 2^32 in the thorough tier; quick: all (x,y,z) with 16 spread w (2^28) for the unsigned overload, 2^24 for the others
	{ const u64 total= th? (u64)1<<32 : (u64)1<<28; vf::note("il4x8_w_values", th? "256 (complete)":"16 per (x,y,z), varying with (x,y,z)");
	  vf::sweep("il4x8",total,1<<14,[&](vf::Ctx& c,u64 lo,u64 hi){ for(u64 p=lo;p<hi;p++){ u8 w= th? (u8)(p>>24) : (u8)((((p>>24)&15)<<4) | ((((p&0xffffff)*0x9e3779b1ull)>>20)&15)); In4<u8> in{(u8)(p&255),(u8)((p>>8)&255),(u8)((p>>16)&255),w};
		RUN(bitfieldInterleave4_u8,in);
		if(th || ((p>>24)&15)==((p>>4)&15)){ RUN(bitfieldInterleave4_i8,in); RUN(bitfieldInterleave4_u8vec4,in); } } }); }
	// ---- wider operands: single bits in every operand position, lattice tuples, random
	std::vector<u16> L16=int_lattice<u16>(); std::vector<u32> L32=int_lattice<u32>(); std::vector<u64> L64=int_lattice<u64>();
	u64 n=vf::N(400000,40000000);
	vf::parallel("ilwide",[&](int t,int TT,vf::Ctx& c){
		auto t3x16=[&](In3<u16> in){ RUN(bitfieldInterleave3_u16,in); RUN(bitfieldInterleave3_i16,in); RUN(bitfieldInterleave3_u16vec3,in); };
		auto t4x16=[&](In4<u16> in){ RUN(bitfieldInterleave4_u16,in); RUN(bitfieldInterleave4_i16,in); RUN(bitfieldInterleave4_u16vec4,in); };
		auto t2x32=[&](In2<u32> in){ RUN(bitfieldInterleave2_u32,in); RUN(bitfieldInterleave2_i32,in); RUN(bitfieldInterleave2_u32vec2,in); RUN(roundtrip_u32,in); };
		auto t3x32=[&](In3<u32> in){ RUN(bitfieldInterleave3_u32,in); RUN(bitfieldInterleave3_i32,in); RUN(bitfieldInterleave3_u32vec3,in); };
		auto tz64=[&](u64 z){ InZ64 in{z}; RUN(bitfieldDeinterleave_u64,in); };
		if(t==0){ for(int i=0;i<32;i++){ u32 b=1u<<i, nb=~b; u16 h=(u16)(i<16? 1u<<i:0), nh=(u16)~h;
			for(int k=0;k<4;k++){ u16 a[4]={0,0,0,0}, e[4]={0xffff,0xffff,0xffff,0xffff}; a[k]=h; e[k]=nh; if(i<16){ if(k<3){ t3x16({a[0],a[1],a[2]}); t3x16({e[0],e[1],e[2]}); } t4x16({a[0],a[1],a[2],a[3]}); t4x16({e[0],e[1],e[2],e[3]}); }
				u32 A[3]={0,0,0}, E[3]={~0u,~0u,~0u}; if(k<3){ A[k]=b; E[k]=nb; t3x32({A[0],A[1],A[2]}); t3x32({E[0],E[1],E[2]}); if(k<2){ t2x32({A[0],A[1]}); t2x32({E[0],E[1]}); } } } }
			for(int i=0;i<64;i++){ tz64(1ull<<i); tz64(~(1ull<<i)); } }
		for(size_t i=t;i<L16.size();i+=TT) for(size_t j=0;j<L16.size();j++){ size_t k=(i*7+j*3)%L16.size(), l=(i*11+j*5+1)%L16.size(); t3x16({L16[i],L16[j],L16[k]}); t4x16({L16[i],L16[j],L16[k],L16[l]}); t4x16({L16[l],L16[k],L16[j],L16[i]}); }
		for(size_t i=t;i<L32.size();i+=TT) for(size_t j=0;j<L32.size();j++){ size_t k=(i*7+j*3)%L32.size(); t2x32({L32[i],L32[j]}); t3x32({L32[i],L32[j],L32[k]}); t3x32({L32[k],L32[i],L32[j]}); }
		for(size_t i=t;i<L64.size();i+=TT) tz64(L64[i]);
		for(u64 i=t;i<n;i+=TT){ t3x16({rnd<u16>(c.rng),rnd<u16>(c.rng),rnd<u16>(c.rng)}); t4x16({rnd<u16>(c.rng),rnd<u16>(c.rng),rnd<u16>(c.rng),rnd<u16>(c.rng)});
			t2x32({rnd<u32>(c.rng),rnd<u32>(c.rng)}); t3x32({rnd<u32>(c.rng),rnd<u32>(c.rng),rnd<u32>(c.rng)}); tz64(rnd<u64>(c.rng)); }
	});
	vf::note("reference_spot_checks","table-driven reference compared with the pure bit-loop reference on "+std::to_string((unsigned long long)g_spot.load())+" evaluations (any disagreement aborts the run)");
	vf::note("violation_counts","capped: at most 1500 reports per (operation, vector length, class) and worker thread are recorded; every failure is still classified, so no class is dropped");
	vf::note("interleave3_u32_domain","result has 64 bits: operand bits whose destination 3*i+k >= 64 are dropped by the model (glm drops them too)");
}
VF_MAIN("C18_bitfield")
