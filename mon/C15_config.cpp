// C15 — non-semantic configuration macros and build settings never change results.
// One operation table, compiled once per configuration (-DGLM_FORCE_xxx, -O level, compiler). Every build evaluates the
// table on the SAME deterministic input stream (inputs are a pure function of (seed, operation, record index), built
// from integer arithmetic only) and records a 64-bit digest per (operation, chunk of 256 records) of the result bits.
// The driver compares digest files across builds offline and, for a chunk that differs, re-runs both builds with
// --x-dump op:chunk to decode the first differing record (input, default-build output, configured-build output).
// The source is written so that it compiles under every configuration: explicit constructors only, x/y/z/w only,
// quaternion components by name, length() widened.
#include "vf.hpp"
#include "ref.hpp"
#include <glm/glm.hpp>
#include <glm/ext/scalar_common.hpp>
#include <glm/ext/vector_common.hpp>
#include <glm/ext/scalar_ulp.hpp>
#include <glm/ext/vector_ulp.hpp>
#include <glm/ext/scalar_integer.hpp>
#include <glm/ext/scalar_relational.hpp>
#include <glm/ext/vector_relational.hpp>
#include <glm/ext/matrix_transform.hpp>
#include <glm/ext/matrix_clip_space.hpp>
#include <glm/ext/quaternion_common.hpp>
#include <glm/ext/quaternion_geometric.hpp>
#include <glm/ext/quaternion_trigonometric.hpp>
#include <glm/ext/quaternion_exponential.hpp>
#include <glm/ext/quaternion_float.hpp>
#include <glm/ext/quaternion_double.hpp>
#include <glm/gtc/quaternion.hpp>
#include <glm/gtc/packing.hpp>
#include <glm/gtc/round.hpp>
#include <glm/gtc/bitfield.hpp>
#include <glm/gtc/integer.hpp>
#include <glm/gtc/epsilon.hpp>
#include <glm/gtc/matrix_inverse.hpp>
#include <glm/gtc/type_ptr.hpp>
#include <glm/gtc/color_space.hpp>
#include <glm/gtc/reciprocal.hpp>
#include <glm/gtx/euler_angles.hpp>
#include <glm/gtx/norm.hpp>
#include <glm/gtx/matrix_decompose.hpp>
#include <glm/gtx/quaternion.hpp>
#include <glm/gtx/dual_quaternion.hpp>
#include <glm/gtx/matrix_interpolation.hpp>
#include <glm/gtx/rotate_vector.hpp>
#include <glm/gtx/transform.hpp>
#include <glm/gtx/compatibility.hpp>
#include <glm/gtx/common.hpp>
#include <glm/gtc/ulp.hpp>
#include <glm/ext/vector_integer.hpp>
#include <glm/ext/matrix_relational.hpp>
using namespace ref;

struct InC { float f[16]; double d[4]; i32 i[4]; u32 u[4]; };
#define FMT_C "ffffffffffffffff" "dddd" "iiii" "uuuu"

// ---- result recorder ----------------------------------------------------------------------------------------------
struct Rec { u64 h; std::string* dump; };
static thread_local Rec* g_rec=nullptr;
static inline void mixw(u64 w){ Rec* r=g_rec; if(!r) return; r->h=(r->h^w)*0x9fb21c651e98df25ULL; r->h^=r->h>>29; if(r->dump){ char b[20]; snprintf(b,20,"%016llx ",(unsigned long long)w); *r->dump+=b; } }
static inline void E(float x){ mixw(isnan_b(x)? 0x7fc00000u: fbits(x)); }          // any NaN == any NaN (EXACT class)
static inline void E(double x){ mixw(isnan_b(x)? 0x7ff8000000000000ULL: dbits(x)); }
static inline void E(bool x){ mixw(x?1:0); }
static inline void E(int x){ mixw((u64)(i64)x); } static inline void E(unsigned x){ mixw(x); }
static inline void E(long x){ mixw((u64)x); } static inline void E(unsigned long x){ mixw(x); }
static inline void E(long long x){ mixw((u64)x); } static inline void E(unsigned long long x){ mixw(x); }
static inline void E(short x){ mixw((u64)(i64)x); } static inline void E(unsigned short x){ mixw(x); } static inline void E(signed char x){ mixw((u64)(i64)x); } static inline void E(unsigned char x){ mixw(x); }
template<glm::length_t L,class T,glm::qualifier Q> static inline void E(glm::vec<L,T,Q> const& v){ for(glm::length_t i=0;i<L;i++) E(v[i]); }
template<glm::length_t C,glm::length_t R,class T,glm::qualifier Q> static inline void E(glm::mat<C,R,T,Q> const& m){ for(glm::length_t i=0;i<C;i++) E(m[i]); }
template<class T,glm::qualifier Q> static inline void E(glm::qua<T,Q> const& q){ E(q.w); E(q.x); E(q.y); E(q.z); }   // by name: independent of GLM_FORCE_QUAT_DATA_WXYZ

typedef glm::vec<2,float,glm::defaultp> V2; typedef glm::vec<3,float,glm::defaultp> V3; typedef glm::vec<4,float,glm::defaultp> V4;
typedef glm::vec<3,double,glm::defaultp> D3; typedef glm::vec<4,double,glm::defaultp> D4; typedef glm::vec<4,int,glm::defaultp> I4; typedef glm::vec<4,unsigned,glm::defaultp> U4;
typedef glm::mat<4,4,float,glm::defaultp> M4; typedef glm::mat<3,3,float,glm::defaultp> M3; typedef glm::mat<2,3,float,glm::defaultp> M23; typedef glm::mat<4,4,double,glm::defaultp> DM4;
typedef glm::qua<float,glm::defaultp> Qf; typedef glm::qua<double,glm::defaultp> Qd;
static inline V4 v4(const float* p){ return V4(p[0],p[1],p[2],p[3]); } static inline V3 v3(const float* p){ return V3(p[0],p[1],p[2]); } static inline V2 v2(const float* p){ return V2(p[0],p[1]); }
static inline M4 m4(const float* p){ return M4(v4(p),v4(p+4),v4(p+8),v4(p+12)); } static inline M3 m3(const float* p){ return M3(v3(p),v3(p+3),v3(p+6)); }
static inline Qf qf(const float* p){ return Qf::wxyz(p[0],p[1],p[2],p[3]); }
// Every literal that can reach a libm call goes through a volatile read, so that the compiler can never constant-fold a
// libm call (compile-time folding is correctly rounded, the run-time library is not: that would be a harness artefact).
static volatile double g_one=1.0;
static inline float K(float c){ return (float)(c*g_one); } static inline double K(double c){ return c*g_one; }
static inline float pos(float x){ x=std::fabs(x); return (x>1e-30f&&x<1e30f)? x: K(1.5f); }
static inline float fin(float x,float lim){ return (std::fabs(x)<=lim)? x: K(0.75f); }
static inline float unit(float x){ x=std::fabs(x); x=x-std::floor(x); return (x==x)? x: K(0.5f); }

#define OPC(NAME) VF_OP(NAME, InC, FMT_C)
#ifndef C15_PART
#define C15_PART 1
#endif
#if C15_PART!=2
// ---- scalar functions with pre-C++11 fallback bodies (std vs bundled implementations) --------------------------------
// one operation per function that has a bundled (pre-C++11) fallback body, so that a violation key names the function
#define OPF(NAME,FX,DX,VX) OPC(NAME){ for(int k=0;k<8;k++){ float x=in.f[k]; (void)x; E(FX); } for(int k=0;k<4;k++){ double x=in.d[k]; (void)x; E(DX); } { V4 x=v4(in.f+8); (void)x; E(VX); } }
#define SAFE(x,lim) ((std::fabs(x)<=(lim))? (x): decltype(x)(K(0.75)))
OPF(fn_round, glm::round(x), glm::round(x), glm::round(x))
OPF(fn_trunc, glm::trunc(x), glm::trunc(x), glm::trunc(x))
OPF(fn_floor_ceil, glm::floor(x)+glm::ceil(x)*0.5f, glm::floor(x)+glm::ceil(x)*0.5, glm::floor(x)+glm::ceil(x)*0.5f)
OPF(fn_fract, glm::fract(x), glm::fract(x), glm::fract(x))
OPF(fn_roundEven, glm::roundEven(SAFE(x,2e9f)), glm::roundEven(SAFE(x,4e15)), glm::roundEven(glm::clamp(glm::mix(x,V4(K(0.5f)),glm::isnan(x)),V4(K(-2e9f)),V4(K(2e9f)))))
OPF(fn_sign_abs, glm::sign(isnan_b(x)?1.0f:x)+glm::abs(x), glm::sign(isnan_b(x)?1.0:x)+glm::abs(x), glm::abs(x))
OPF(fn_isnan, glm::isnan(x), glm::isnan(x), glm::isnan(x))
OPF(fn_isinf, glm::isinf(x), glm::isinf(x), glm::isinf(x))
OPF(fn_log2, glm::log2(pos(x)), glm::log2(std::fabs(SAFE(x,1e300))+0.5), glm::log2(glm::abs(glm::mix(x,V4(K(2.0f)),glm::isnan(x)))+V4(K(0.5f))))
OPF(fn_exp2, glm::exp2(SAFE(x,80.0f)), glm::exp2(SAFE(x,500.0)), glm::exp2(glm::clamp(glm::mix(x,V4(K(1.0f)),glm::isnan(x)),V4(K(-60.0f)),V4(K(60.0f)))))
OPF(fn_exp_log, glm::exp(SAFE(x,80.0f))+glm::log(pos(x)), glm::exp(SAFE(x,500.0))+glm::log(std::fabs(SAFE(x,1e300))+0.5), glm::sqrt(glm::abs(x)))
OPF(fn_pow_sqrt, glm::pow(pos(x),SAFE(in.f[(k+5)&15],8.0f))+glm::inversesqrt(pos(x)), glm::sqrt(std::fabs(x)), glm::inversesqrt(glm::abs(glm::mix(x,V4(K(2.0f)),glm::isnan(x)))+V4(K(1e-3f))))
OPF(fn_asinh, glm::asinh(SAFE(x,1e20f)), glm::asinh(SAFE(x,1e300)), glm::asinh(glm::clamp(glm::mix(x,V4(K(1.0f)),glm::isnan(x)),V4(K(-1e20f)),V4(K(1e20f)))))
OPF(fn_acosh, glm::acosh(1.0f+pos(x)), glm::acosh(1.0+std::fabs(SAFE(x,1e300))), glm::acosh(V4(K(1.0f))+glm::abs(glm::clamp(glm::mix(x,V4(K(1.0f)),glm::isnan(x)),V4(K(-1e20f)),V4(K(1e20f))))))
OPF(fn_atanh, glm::atanh(unit(x)*1.98f-0.99f), glm::atanh((double)unit((float)SAFE(x,1e30))*1.98-0.99), glm::atanh(glm::fract(glm::abs(glm::clamp(glm::mix(x,V4(K(0.3f)),glm::isnan(x)),V4(K(-1e6f)),V4(K(1e6f)))))*1.98f-V4(K(0.99f))))
OPF(fn_trig, glm::sin(SAFE(x,1e4f))+glm::cos(SAFE(x,1e4f))+glm::tan(SAFE(x,1e4f))+glm::atan(x,in.f[(k+3)&15]), glm::sin(SAFE(x,1e6))+glm::atan(x), glm::sin(glm::clamp(glm::mix(x,V4(K(0.3f)),glm::isnan(x)),V4(K(-1e4f)),V4(K(1e4f)))))
OPF(fn_trig_inverse, glm::asin(unit(x)*2-1)+glm::acos(unit(x)*2-1)+glm::sinh(SAFE(x,60.0f))+glm::cosh(SAFE(x,60.0f))+glm::tanh(x)+glm::radians(x)+glm::degrees(x), glm::asin((double)unit((float)SAFE(x,1e30))), glm::atan(x))
OPF(fn_reciprocal_trig, glm::sec(SAFE(x,100.0f))+glm::acoth(2.0f+pos(x))+glm::csc(0.5f+unit(x)), glm::sec(SAFE(x,100.0)), glm::cot(V4(K(0.5f))+glm::fract(glm::abs(glm::clamp(glm::mix(x,V4(K(0.3f)),glm::isnan(x)),V4(K(-1e6f)),V4(K(1e6f)))))))
OPC(fn_fmin_fmax){ float a=in.f[0],b=in.f[1],c_=in.f[2],d=in.f[3]; /* zero-sign of fmin(+0,-0) is unspecified: results are compared as values through +0.0f */ E(glm::fmin(a,b)+0.0f); E(glm::fmax(a,b)+0.0f); E(glm::fmin(a,b,c_)+0.0f); E(glm::fmax(a,b,c_)+0.0f); E(glm::fmin(a,b,c_,d)+0.0f); E(glm::fmax(a,b,c_,d)+0.0f); E(glm::fmin(v4(in.f),v4(in.f+4))+V4(0.0f)); E(glm::fmax(v4(in.f),v4(in.f+4))+V4(0.0f)); E(glm::fmin(in.d[0],in.d[1])+0.0); E(glm::fmax(in.d[0],in.d[1])+0.0); E(glm::fclamp(a,glm::min(isnan_b(b)?0.0f:b,isnan_b(c_)?1.0f:c_),glm::max(isnan_b(b)?0.0f:b,isnan_b(c_)?1.0f:c_))+0.0f); }
OPC(fn_fma){ for(int k=0;k<4;k++){ float a=fin(in.f[k],1e15f),b=fin(in.f[k+4],1e15f),c_=fin(in.f[k+8],1e30f); E(glm::fma(a,b,c_)); } E(glm::fma(glm::clamp(glm::mix(v4(in.f),V4(K(1.0f)),glm::isnan(v4(in.f))),V4(K(-1e15f)),V4(K(1e15f))),glm::clamp(glm::mix(v4(in.f+4),V4(K(1.0f)),glm::isnan(v4(in.f+4))),V4(K(-1e15f)),V4(K(1e15f))),glm::clamp(glm::mix(v4(in.f+8),V4(K(1.0f)),glm::isnan(v4(in.f+8))),V4(K(-1e30f)),V4(K(1e30f))))); E(glm::fma(SAFE(in.d[0],1e100),SAFE(in.d[1],1e100),SAFE(in.d[2],1e200))); }
OPC(fn_frexp_ldexp_modf){ for(int k=0;k<4;k++){ float ip; E(glm::modf(in.f[k],ip)); E(ip); int ex=0; E(glm::frexp(fin(in.f[k+4],1e30f),ex)); E(ex); E(glm::ldexp(fin(in.f[k+8],1e10f),in.i[k]%40)); } double dip; E(glm::modf(in.d[0],dip)); E(dip); }
OPC(fn_mix_step_clamp_mod){ for(int k=0;k<4;k++){ float a=fin(in.f[k],1e15f),b=fin(in.f[k+4],1e15f); E(glm::mix(a,b,unit(in.f[k+12]))); E(glm::smoothstep(0.0f,1.0f+std::fabs(b),a)); E(glm::step(a,b)); E(glm::clamp(a,-std::fabs(b),std::fabs(b))); E(glm::mod(a,std::fabs(b)+0.5f)); } }
OPC(fn_gtc_next_prev_double){ for(int k=0;k<4;k++){ double d=in.d[k]; if(!isfinite_b(d)) d=K(3.5); double big=glm::ldexp(K(1.0)+unit(in.f[k])*K(0.5),(in.i[k]&1)? 200+(int)(in.u[k]%800): -200-(int)(in.u[k]%800)); if(in.i[k]&2) big=-big; E(glm::next_float(d)); E(glm::prev_float(d)); E(glm::next_float(big)); E(glm::prev_float(big)); E(glm::nextFloat(big)); E(glm::prevFloat(big)); E(glm::next_float(big,(int)(in.u[k]%4))); E(glm::float_distance(big,glm::next_float(big,2))); } }
OPC(fn_nextFloat_prevFloat){ for(int k=0;k<4;k++){ float x=fin(in.f[k],3e38f); E(glm::nextFloat(x)); E(glm::prevFloat(x)); E(glm::nextFloat(x,(int)(in.u[k]%5))); E(glm::floatDistance(x,in.f[k+4]==in.f[k+4]? fin(in.f[k+4],3e38f):0.0f)); double d=isfinite_b(in.d[k])? in.d[k]:1.0; E(glm::nextFloat(d)); E(glm::prevFloat(d)); } E(glm::nextFloat(v4(in.f+8)==v4(in.f+8)? glm::clamp(v4(in.f+8),V4(-1e38f),V4(1e38f)):V4(1.0f))); }
OPC(relational){ V4 a=v4(in.f), b=v4(in.f+4); E(glm::lessThan(a,b)); E(glm::equal(a,b)); E(glm::equal(a,b,1e-3f)); E(glm::notEqual(a,b,std::fabs(in.f[8]))); E(glm::equal(a,b,(int)(in.u[0]%8))); E(glm::any(glm::lessThan(a,b))); E(glm::all(glm::greaterThanEqual(a,b))); E(glm::not_(glm::lessThan(a,b))); E(glm::epsilonEqual(a,b,0.01f)); E(a==b); E(a!=b); }
// ---- integer / bitfield ------------------------------------------------------------------------------------------------
OPC(integer){ for(int k=0;k<4;k++){ unsigned u=in.u[k]; int s=in.i[k]; E(glm::bitCount(u)); E(glm::findLSB(u)); E(glm::findMSB(u)); E(glm::findMSB(s)); E(glm::bitfieldReverse(u)); int off=(int)(in.u[(k+1)&3]%32), bits=(int)(in.u[(k+2)&3]%(33-off)); E(glm::bitfieldExtract(u,off,bits)); E(glm::bitfieldExtract(s,off,bits)); E(glm::bitfieldInsert(u,in.u[(k+3)&3],off,bits)); }
	unsigned carry=0,msb=0,lsb=0; E(glm::uaddCarry(in.u[0],in.u[1],carry)); E(carry); E(glm::usubBorrow(in.u[0],in.u[1],carry)); E(carry); glm::umulExtended(in.u[2],in.u[3],msb,lsb); E(msb); E(lsb); int im=0,il=0; glm::imulExtended(in.i[0],in.i[1],im,il); E(im); E(il);
	E(glm::bitCount(U4(in.u[0],in.u[1],in.u[2],in.u[3]))); E(glm::findMSB(I4(in.i[0],in.i[1],in.i[2],in.i[3]))); }
OPC(integer_ext){ for(int k=0;k<4;k++){ unsigned u=(in.u[k]>>1)|1u; int s=in.i[k]; int sp= (s==INT32_MIN)? 1: (s<0? -s: s); sp=(sp>>2)|1; E(glm::isPowerOfTwo(u)); E(glm::nextPowerOfTwo(u>>1)); E(glm::prevPowerOfTwo(u)); unsigned m=(in.u[(k+1)&3]%1000)+1; E(glm::isMultiple(u,m)); E(glm::nextMultiple(u>>1,m)); E(glm::prevMultiple(u,m)); E(glm::ceilMultiple(sp,(int)m)); E(glm::floorMultiple(-sp,(int)m)); E(glm::roundMultiple(sp,(int)m)); E(glm::findNSB(u,1+(int)(in.u[(k+2)&3]%8))); E(glm::mask(in.u[(k+3)&3]%33)); E(glm::bitfieldFillOne(u,(int)(m%16),(int)(m%17))); E(glm::bitfieldRotateLeft(u,1+(int)(m%31))); E(glm::log2(sp)); E(glm::iround(std::fabs(fin(in.f[k],1e9f)))); E(glm::uround(std::fabs(fin(in.f[k+4],1e9f)))); }
	E(glm::bitfieldInterleave(in.u[0],in.u[1])); E(glm::bitfieldInterleave((glm::uint16)in.u[0],(glm::uint16)in.u[1],(glm::uint16)in.u[2],(glm::uint16)in.u[3])); E(glm::ceilMultiple(fin(in.f[8],1e6f),1.0f+unit(in.f[9]))); E(glm::ceilPowerOfTwo(u32((in.u[2]>>2)|1u))); }
// ---- vectors: operators, common, geometric -----------------------------------------------------------------------------
OPC(vec_operators){ V4 a=v4(in.f), b=v4(in.f+4); float s=in.f[8]; E(a+b); E(a-b); E(a*b); E(a/b); E(a*s); E(s-a); E(-a); V4 c_=a; c_+=b; c_*=s; c_-=V4(s); E(c_); ++c_; E(c_); E(c_--); V3 p=v3(in.f+9); E(p*s+v3(in.f)); V2 q=v2(in.f+12); E(q/v2(in.f+14));
	I4 x(in.i[0],in.i[1],in.i[2],in.i[3]); I4 y((in.i[3]|1),(in.i[2]|1),(in.i[1]|1),(in.i[0]|1)); I4 xs=x>>2, ys=(y>>2)|I4(1); E(xs+ys); E(xs-ys); E((xs>>14)*(ys>>14)); E(xs/ys); E(xs%ys); E(x&y); E(x|y); E(x^y); E(~x); U4 ux(in.u[0],in.u[1],in.u[2],in.u[3]); E(ux<<(in.u[0]%32)); E(ux>>U4(in.u[1]%32,in.u[2]%32,in.u[3]%32,1u)); E(ux*ux); E(ux+U4(7u)); }
OPC(vec_common){ V4 a=v4(in.f), b=v4(in.f+4), c_=v4(in.f+8); V4 an=glm::mix(a,V4(1.0f),glm::isnan(a)), bn=glm::mix(b,V4(2.0f),glm::isnan(b)), cn=glm::mix(c_,V4(0.5f),glm::isnan(c_)); E(glm::abs(a)); E(glm::sign(an)); E(glm::floor(a)); E(glm::ceil(a)); E(glm::round(a)); E(glm::trunc(a)); E(glm::fract(a)); E(glm::min(an,bn)); E(glm::max(an,bn)); E(glm::min(an,1.0f)); E(glm::clamp(an,glm::min(bn,cn),glm::max(bn,cn))); E(glm::mix(a,b,c_)); E(glm::mix(a,b,glm::lessThan(c_,V4(0.0f)))); E(glm::step(an,bn)); E(glm::sqrt(glm::abs(a))); E(glm::inversesqrt(glm::abs(an)+V4(1e-3f)));
	E(glm::floatBitsToInt(a)); E(glm::floatBitsToUint(b)); E(glm::intBitsToFloat(I4(in.i[0],in.i[1],in.i[2],in.i[3]))); E(glm::uintBitsToFloat(U4(in.u[0],in.u[1],in.u[2],in.u[3]))); E(glm::min(an,bn,cn)); E(glm::max(an,bn,cn,V4(0.25f))); E(glm::repeat(glm::clamp(an,V4(-1e6f),V4(1e6f)))); E(glm::mirrorRepeat(glm::clamp(bn,V4(-1e6f),V4(1e6f)))); }
OPC(vec_geometric){ V4 a=glm::clamp(glm::mix(v4(in.f),V4(1.0f),glm::isnan(v4(in.f))),V4(-1e15f),V4(1e15f)), b=glm::clamp(glm::mix(v4(in.f+4),V4(2.0f),glm::isnan(v4(in.f+4))),V4(-1e15f),V4(1e15f)); V3 p(a.x,a.y,a.z), q(b.x,b.y,b.z); E(glm::dot(a,b)); E(glm::length(a)); E(glm::distance(a,b)); E(glm::cross(p,q)); E(glm::normalize(a+V4(0.0f,0.0f,0.0f,1e-20f))); E(glm::reflect(p,q)); E(glm::refract(p,q,std::fabs(fin(in.f[8],4.0f))+0.1f)); E(glm::faceforward(p,q,v3(in.f+9))); E(glm::length2(p)); E(glm::dot(p,q)); E(glm::length(V2(a.x,b.y))); D3 dp(in.d[0],in.d[1],in.d[2]); if(isfinite_b(in.d[0])&&isfinite_b(in.d[1])&&isfinite_b(in.d[2])&&std::fabs(in.d[0])<1e150&&std::fabs(in.d[1])<1e150&&std::fabs(in.d[2])<1e150){ E(glm::dot(dp,dp)); E(glm::length(dp)); } }
// ---- matrices ------------------------------------------------------------------------------------------------------------
OPC(matrix){ float g[16]; for(int k=0;k<16;k++) g[k]=fin(in.f[k],1e6f); g[0]+=3; g[5]+=3; g[10]+=3; g[15]+=3; M4 A=m4(g); M4 B=glm::transpose(A)*0.5f+M4(1.0f); V4 v(fin(in.f[3],1e6f),fin(in.f[7],1e6f),1.0f,fin(in.f[11],1e6f));
	E(A*B); E(A*v); E(v*A); E(A+B); E(A-B); E(A*2.0f); E(glm::transpose(A)); E(glm::determinant(A)); E(glm::inverse(A)); E(glm::matrixCompMult(A,B)); E(glm::outerProduct(v,V4(1.0f,2.0f,3.0f,4.0f))); M3 C=m3(g); E(C*glm::transpose(C)); E(glm::determinant(C)); E(glm::inverse(C+M3(2.0f))); E(glm::inverseTranspose(C+M3(2.0f))); M23 R(V3(g[0],g[1],g[2]),V3(g[3],g[4],g[5])); E(R*V2(g[6],g[7])); E(glm::transpose(R)); E(M4(C)); E(M3(A)); E(glm::mat<2,2,float,glm::defaultp>(A)); E(A==B); E(A[2][1]); M4 Z=A; Z*=B; Z[1]=v; E(Z); E(-A); E(glm::affineInverse(M4(C)));
	const float* vp=glm::value_ptr(A); for(int k=0;k<16;k++) E(vp[k]); E(glm::make_mat4(g)); E(glm::make_vec3(g+1)); DM4 DA(A); E(DA*DA); E(glm::inverse(DA)); }
OPC(transform){ float g[16]; for(int k=0;k<16;k++) g[k]=fin(in.f[k],1e3f); M4 A=m4(g); V3 t(g[0],g[5],g[9]); V3 ax=v3(g+1)+V3(0.1f,0.2f,3.0f); float ang=fin(in.f[4],100.0f);
	E(glm::translate(A,t)); E(glm::rotate(A,ang,ax)); E(glm::scale(A,t)); E(glm::lookAtRH(t,t+V3(1.0f,2.0f,3.0f),V3(0.0f,1.0f,0.2f))); E(glm::lookAtLH(t,t+V3(1.0f,2.0f,3.0f),V3(0.0f,1.0f,0.2f))); float n=0.1f+unit(in.f[6]), fr=n+1.0f+std::fabs(g[7]); E(glm::perspectiveRH_NO(0.3f+unit(in.f[8])*2.0f,0.5f+unit(in.f[9]),n,fr)); E(glm::orthoLH_ZO(-1.0f-unit(g[1]),2.0f,-3.0f,1.0f+unit(g[2]),n,fr)); E(glm::frustumRH_ZO(-1.0f,2.0f+unit(g[3]),-1.5f,1.0f,n,fr)); E(glm::infinitePerspectiveRH_NO(1.0f,1.5f,n));
	E(glm::eulerAngleXYZ(ang,g[1],g[2])); E(glm::yawPitchRoll(g[3],ang,g[5])); }
// ---- quaternions -----------------------------------------------------------------------------------------------------------
OPC(quaternion){ float g[12]; for(int k=0;k<12;k++) g[k]=fin(in.f[k],1e3f); g[0]+=2.0f; g[4]+=2.0f; Qf a=qf(g), b=qf(g+4); V3 v=v3(g+8); Qf ua=glm::normalize(a), ub=glm::normalize(b); float t=unit(in.f[12]);
	E(a*b); E(a+b); E(a-b); E(a*2.5f); E(a/1.5f); E(-a); E(glm::dot(a,b)); E(glm::length(a)); E(ua); E(glm::conjugate(a)); E(glm::inverse(a)); E(ua*v); E(v*ua); E(ua*V4(v,1.0f)); E(glm::mat3_cast(ua)); E(glm::mat4_cast(ub)); E(glm::quat_cast(glm::mat3_cast(ua))); E(glm::angle(ua)); E(glm::axis(ua)); E(glm::angleAxis(g[8],glm::normalize(v+V3(0.0f,0.0f,3.0f)))); E(glm::eulerAngles(ua)); E(Qf(V3(g[9],g[10],g[11]))); E(glm::slerp(ua,ub,t)); E(glm::mix(ua,ub,t)); E(glm::lerp(ua,ub,t)); E(glm::exp(glm::log(ua))); E(glm::pow(ua,1.5f)); E(glm::sqrt(ua)); E(Qf(v,v+V3(1.0f,0.5f,0.25f))); /* equal(q,q) returns its booleans in storage order, which GLM_FORCE_QUAT_DATA_WXYZ documents to change: compared through all() */ E(glm::all(glm::equal(a,b))); E(glm::any(glm::notEqual(a,b))); E(a==b); E((long long)a.length());
	Qd da=Qd::wxyz(in.d[0]==in.d[0]&&std::fabs(in.d[0])<1e100? in.d[0]+2.0:2.0,0.5,0.25,-0.125); E(da*da); E(glm::normalize(da)); E(glm::mat3_cast(glm::normalize(da))); /* memory order is a documented effect of GLM_FORCE_QUAT_DATA_WXYZ: only the value_ptr -> make_quat round trip is configuration independent */ E(glm::make_quat(glm::value_ptr(a))); }
// ---- packing, constructors, swizzle-free accessors, colour ------------------------------------------------------------------------
OPC(packing){ V4 a=v4(in.f), b=glm::clamp(glm::mix(v4(in.f+4),V4(0.5f),glm::isnan(v4(in.f+4))),V4(-2.0f),V4(2.0f)); V4 an=glm::clamp(glm::mix(a,V4(0.25f),glm::isnan(a)),V4(-70000.0f),V4(70000.0f));
	E(glm::packUnorm4x8(b)); E(glm::packSnorm4x8(b)); E(glm::packUnorm2x16(V2(b.x,b.y))); E(glm::packSnorm2x16(V2(b.z,b.w))); E(glm::packHalf2x16(V2(an.x,an.y))); E(glm::unpackHalf2x16(in.u[0])); E(glm::unpackUnorm4x8(in.u[1])); E(glm::unpackSnorm4x8(in.u[2])); E(glm::unpackSnorm2x16(in.u[3])); E(glm::packHalf1x16(an.z)); E(glm::unpackHalf1x16((glm::uint16)in.u[0])); E(glm::packHalf4x16(an)); E(glm::packUnorm3x10_1x2(glm::abs(b)*0.5f)); E(glm::packSnorm3x10_1x2(b*0.5f)); E(glm::packF2x11_1x10(glm::abs(V3(an.x,an.y,an.z)))); E(glm::unpackF2x11_1x10(in.u[1])); E(glm::packF3x9_E1x5(glm::abs(V3(an.x,an.y,an.z)))); E(glm::unpackF3x9_E1x5(in.u[2])); E(glm::packUnorm1x8(unit(b.x))); E(glm::packUnorm4x4(glm::abs(b)*0.5f)); E(glm::packUnorm1x5_1x6_1x5(glm::abs(V3(b.x,b.y,b.z))*0.5f)); E(glm::packInt2x16(glm::vec<2,glm::int16,glm::defaultp>((glm::int16)in.i[0],(glm::int16)in.i[1]))); E(glm::packUint4x8(glm::vec<4,glm::uint8,glm::defaultp>((glm::uint8)in.u[0],(glm::uint8)in.u[1],(glm::uint8)in.u[2],(glm::uint8)in.u[3]))); E(glm::packDouble2x32(glm::vec<2,unsigned,glm::defaultp>(in.u[0],in.u[1]))); E(glm::unpackDouble2x32(in.d[0]));
	E(glm::convertLinearToSRGB(glm::abs(V3(b.x,b.y,b.z))*0.5f)); E(glm::convertSRGBToLinear(glm::abs(b)*0.5f)); }
OPC(constructors){ V4 a=v4(in.f); V3 p(a); V2 q(a); E(V4(p,in.f[4])); E(V4(in.f[5],p)); E(V4(q,q)); E(V4(q,in.f[6],in.f[7])); E(V4(in.f[8],q,in.f[9])); E(V3(q,in.f[10])); E(V3(in.f[11],q)); E(V4(in.f[12])); E(V3(a)); E(V2(p)); glm::vec<1,float,glm::defaultp> one(in.f[13]); E(V4(one,in.f[1],one,in.f[2])); E(V3(one)); E(V2(one,one));
	float cc[4]; for(int k=0;k<4;k++) cc[k]=fin(in.f[k],2e9f); E(I4(V4(cc[0],cc[1],cc[2],cc[3]))); E(V4(I4(in.i[0],in.i[1],in.i[2],in.i[3]))); E(D4(a)); E(V4(D4(in.d[0],in.d[1],in.d[2],in.d[3]))); E(glm::vec<4,bool,glm::defaultp>(I4(in.i[0]&1,in.i[1]&2,0,in.i[3]))); E(glm::vec<4,float,glm::mediump>(a)); E(V4(glm::vec<4,float,glm::lowp>(a))); E(U4(I4(in.i[0],in.i[1],in.i[2],in.i[3]))); E(glm::vec<3,glm::int8,glm::defaultp>(I4(in.i[0],in.i[1],in.i[2],in.i[3])));
	E(M4(in.f[0])); E(M3(in.f[0],in.f[1],in.f[2],in.f[3],in.f[4],in.f[5],in.f[6],in.f[7],in.f[8])); E(M4(V4(p,0.0f),V4(q,1.0f,2.0f),a,V4(3.0f))); E(glm::mat<4,3,float,glm::defaultp>(m4(in.f))); E(M4(glm::mat<2,4,float,glm::defaultp>(v4(in.f),v4(in.f+4)))); E(M4(DM4(m4(in.f)))); E(Qf::wxyz(in.f[0],in.f[1],in.f[2],in.f[3])); E(Qf(in.f[4],V3(in.f[5],in.f[6],in.f[7]))); E(Qd(qf(in.f+8))); E((long long)a.length()); E((long long)m4(in.f).length()); E(a[2]); E(p.z); E(m4(in.f)[3].y);
	// default constructors: GLM_FORCE_CTOR_INIT documents zero vectors, identity matrices and the identity quaternion; without it the
	// objects are indeterminate, so the other builds record the documented values instead of reading them
#ifdef GLM_FORCE_CTOR_INIT
	{ V4 dv; V3 d3; M4 dm; M3 dm3; Qf dq; Qd dqd; E(dv); E(d3); E(dm); E(dm3); E(dq); E(dqd); }
#else
	{ E(V4(0.0f)); E(V3(0.0f)); E(M4(1.0f)); E(M3(1.0f)); E(Qf::wxyz(1.0f,0.0f,0.0f,0.0f)); E(Qd::wxyz(1.0,0.0,0.0,0.0)); }
#endif
}


// ---- quaternion-order sensitive code (GLM_FORCE_QUAT_DATA_WXYZ) and length_t sensitive vector templates (GLM_FORCE_SIZE_T_LENGTH) -----
OPC(decompose){ float g[12]; for(int k=0;k<12;k++) g[k]=fin(in.f[k],1e3f); V3 ax=glm::normalize(v3(g)+V3(K(0.1f),K(0.2f),K(3.0f)));
	// rotations over the whole angle range: all four largest-component branches of decompose (trace > 0 and <= 0)
	float ang=unit(in.f[12])*K(6.2831f)-K(3.14159f); if(in.u[0]&1) ang=K(3.14159f)-unit(in.f[13])*K(0.2f);
	M4 R=glm::rotate(M4(1.0f),ang,ax); V3 sc(K(0.5f)+unit(g[3])*2.0f,K(0.5f)+unit(g[4])*2.0f,K(0.5f)+unit(g[5])*2.0f); M4 M=glm::translate(M4(1.0f),V3(g[6],g[7],g[8]))*R*glm::scale(M4(1.0f),sc);
	V3 scale,trans,skew; V4 persp; Qf orient; bool ok=glm::decompose(M,scale,orient,trans,skew,persp); E(ok); E(scale); E(orient); E(trans); E(skew); E(persp); E(glm::recompose(scale,orient,trans,skew,persp));
	V3 oax; float oang; glm::axisAngle(R,oax,oang); E(oax); E(oang); E(glm::axisAngleMatrix(ax,ang)); E(glm::interpolate(R,M4(1.0f),unit(in.f[14]))); E(glm::extractMatrixRotation(M)); }
OPC(gtx_quaternion){ float g[12]; for(int k=0;k<12;k++) g[k]=fin(in.f[k],1e3f); g[0]+=K(2.0f); g[4]+=K(2.0f); Qf a=glm::normalize(qf(g)), b=glm::normalize(qf(g+4)); V3 v=v3(g+8); float t=unit(in.f[12]);
	E(glm::cross(a,b)); E(glm::cross(a,v)); E(glm::cross(v,a)); E(glm::squad(a,b,glm::intermediate(a,b,a),glm::intermediate(b,a,b),t)); E(glm::intermediate(a,b,glm::normalize(a+b))); E(glm::rotate(a,v)); E(glm::rotate(a,V4(v,K(1.0f)))); E(glm::extractRealComponent(Qf::wxyz(K(0.0f),a.x*K(0.5f),a.y*K(0.5f),a.z*K(0.5f)))); E(glm::toMat3(a)); E(glm::toMat4(b)); E(glm::toQuat(glm::toMat3(a))); E(glm::shortMix(a,b,t)); E(glm::fastMix(a,b,t)); E(glm::rotation(glm::normalize(v+V3(K(0.0f),K(0.0f),K(2.0f))),glm::normalize(v3(g+1)+V3(K(1.0f),K(0.0f),K(0.0f))))); E(glm::length2(a)); E(glm::quat_identity<float,glm::defaultp>()); E(glm::quatLookAtRH(glm::normalize(v+V3(K(0.0f),K(0.0f),K(2.0f))),V3(K(0.0f),K(1.0f),K(0.1f)))); E(glm::pitch(a)); E(glm::yaw(a)); E(glm::roll(a)); E(glm::rotate(a,g[8],glm::normalize(v+V3(K(0.0f),K(1.5f),K(0.0f)))));
	glm::tdualquat<float,glm::defaultp> dq(a,v); glm::tdualquat<float,glm::defaultp> dr(b,v3(g+1)); E(dq.real); E(dq.dual); E((dq*dr).real); E((dq*dr).dual); E(dq*v); E(glm::normalize(dq).dual); E(glm::lerp(dq,dr,t).real); E(glm::inverse(dq).dual); E(glm::mat3x4_cast(dq)); E(glm::dualquat_cast(glm::mat3x4_cast(dq)).real); }
OPC(vector_templates){ I4 x(in.i[0]>>3,in.i[1]>>3,in.i[2]>>3,in.i[3]>>3); I4 m((int)(in.u[0]%1000)+1,(int)(in.u[1]%1000)+1,(int)(in.u[2]%50)+1,(int)(in.u[3]%7)+1); U4 ux(in.u[0]>>2,in.u[1]>>2,in.u[2]>>2,in.u[3]>>2); U4 um(m); V4 fx=glm::clamp(glm::mix(v4(in.f),V4(K(1.0f)),glm::isnan(v4(in.f))),V4(K(-1e6f)),V4(K(1e6f))); V4 fm(K(0.5f)+unit(in.f[4]),K(1.0f)+unit(in.f[5]),K(4.0f),K(0.25f)+unit(in.f[6]));
	E(glm::ceilMultiple(x,m)); E(glm::floorMultiple(x,m)); E(glm::roundMultiple(x,m)); E(glm::ceilMultiple(ux,um)); E(glm::floorMultiple(ux,um)); I4 px=glm::abs(x)|I4(1); E(glm::ceilPowerOfTwo(px>>1)); E(glm::floorPowerOfTwo(px)); E(glm::roundPowerOfTwo(px>>1)); E(glm::isPowerOfTwo(ux|U4(1u))); E(glm::nextPowerOfTwo((ux>>1u)|U4(1u))); E(glm::prevPowerOfTwo(ux|U4(1u))); E(glm::isMultiple(ux,um)); E(glm::isMultiple(ux,7u)); E(glm::nextMultiple(ux>>1u,um)); E(glm::prevMultiple(ux,um)); E(glm::nextMultiple(x,m)); E(glm::prevMultiple(x,m)); E(glm::findNSB(ux,I4(1,2,3,4)));
	E(glm::mask(U4(in.u[0]%33,in.u[1]%33,in.u[2]%33,in.u[3]%33))); E(glm::bitfieldRotateLeft(ux,(int)(in.u[0]%31)+1)); E(glm::bitfieldRotateRight(ux,(int)(in.u[1]%31)+1)); E(glm::bitfieldFillOne(ux,(int)(in.u[2]%16),(int)(in.u[3]%17))); E(glm::bitfieldFillZero(ux,(int)(in.u[3]%16),(int)(in.u[2]%17))); E(glm::bitfieldExtract(x,(int)(in.u[0]%16),(int)(in.u[1]%17))); E(glm::bitfieldInsert(ux,um,(int)(in.u[0]%16),(int)(in.u[1]%17))); E(glm::bitfieldReverse(ux)); E(glm::findLSB(x)); E(glm::log2(px)); E(glm::iround(glm::abs(fx))); E(glm::uround(glm::abs(fx)));
	E(glm::next_float(fx)); E(glm::prev_float(fx)); E(glm::next_float(fx,I4(1,2,3,0))); E(glm::nextFloat(fx,2)); E(glm::prevFloat(fx,I4(0,1,2,3))); E(glm::float_distance(fx,fx+V4(K(1.0f)))); E(glm::epsilonEqual(fx,fx+V4(K(0.001f)),K(0.01f))); E(glm::epsilonNotEqual(fx,fx*K(1.5f),V4(K(0.01f)))); E(glm::equal(fx,fx+V4(K(0.5f)),V4(K(0.6f),K(0.4f),K(0.5f),K(1.0f)))); E(glm::notEqual(fx,fx,I4(1))); E(glm::equal(m4(in.f),m4(in.f+0),V4(K(0.1f)))); E(glm::notEqual(m3(in.f),m3(in.f+1),V3(K(0.5f))));
	E(glm::rotateX(V3(fx.x,fx.y,fx.z),fx.w)); E(glm::rotate(V2(fx.x,fx.y),fx.z)); E(glm::rotate(fx.w,glm::normalize(V3(fx.x,fx.y,fx.z)+V3(K(0.0f),K(0.0f),K(3.0f))))); E(glm::fmin(fx,fm,V4(K(0.5f)))+V4(0.0f)); E(glm::fclamp(fx,V4(K(-1.0f)),fm)+V4(0.0f)); E(glm::mirrorClamp(fx)); E(glm::clamp(fx)); }

// gtx classification helpers with pre-C++11 fallbacks (gtx/compatibility isfinite, gtx/common isdenormal/fmod): every lattice value incl. +-max, +-min, subnormals
OPC(gtx_classify){ for(int k=0;k<8;k++){ E(glm::isfinite(in.f[k])); E(glm::isdenormal(in.f[k])); } for(int k=0;k<4;k++){ E(glm::isfinite(in.d[k])); E(glm::isdenormal(in.d[k])); }
	E(glm::isfinite(v4(in.f+8))); E(glm::isdenormal(v4(in.f+8))); E(glm::isfinite(v3(in.f+12))); E(glm::isfinite(v2(in.f+4))); E(glm::isdenormal(v2(in.f+6))); E(glm::isfinite(D3(in.d[0],in.d[1],in.d[2])));
	{ V4 a=glm::clamp(glm::mix(v4(in.f),V4(K(1.0f)),glm::isnan(v4(in.f))),V4(K(-1e6f)),V4(K(1e6f))); float m=pos(in.f[4]); if(m>1e-3f&&m<1e3f){ E(glm::fmod(a,m)); E(glm::fmod(a.x,m)); } } }
// scalar integer functions on the narrow and wide element types (compiler-specific fast paths are selected per scalar type), and gtx helpers with
// early-out branches for special argument relations (equal / opposite / parallel arguments), where a default-constructed result would depend on CTOR_INIT
OPC(integer_scalar_types){ for(int k=0;k<4;k++){ signed char a=(signed char)in.i[k]; short b=(short)in.i[k]; unsigned char ua=(unsigned char)in.u[k]; unsigned short ub=(unsigned short)in.u[k]; long long w=((long long)in.i[k]<<32)^(long long)in.u[(k+1)&3]; unsigned long long uw=(unsigned long long)w;
	E(glm::bitCount(a)); E(glm::bitCount(b)); E(glm::bitCount(ua)); E(glm::bitCount(ub)); E(glm::bitCount(w)); E(glm::bitCount(uw)); E(glm::findLSB(w)); E(glm::findMSB(w)); E(glm::findLSB(uw)); E(glm::findMSB(uw)); E(glm::bitfieldReverse(uw));
	E(glm::findNSB(in.u[k],1+(int)(in.u[(k+1)&3]%8))); E(glm::abs(a)==a); E(glm::sign((int)b)); E(glm::isPowerOfTwo((int)(ub|1))); } }
OPC(gtx_special_relations){ V3 n=glm::normalize(glm::clamp(glm::mix(v3(in.f),V3(K(1.0f),K(2.0f),K(3.0f)),glm::isnan(v3(in.f))),V3(K(-100.0f)),V3(K(100.0f)))+V3(K(0.0f),K(0.0f),K(1e-3f))); V3 m2=glm::normalize(glm::clamp(glm::mix(v3(in.f+3),V3(K(3.0f),K(1.0f),K(2.0f)),glm::isnan(v3(in.f+3))),V3(K(-100.0f)),V3(K(100.0f)))+V3(K(0.0f),K(1e-3f),K(0.0f)));
	E(glm::orientation(n,n)); E(glm::orientation(n,-n)); E(glm::orientation(n,m2)); E(glm::rotation(n,n)); E(glm::rotation(n,-n)); E(glm::rotation(n,m2)); E(Qf(n,n)); E(Qf(n,-n)); E(glm::slerp(n,n,K(0.25f))); E(glm::slerp(n,m2,K(0.25f)));
	Qf q=glm::normalize(qf(in.f+8)+Qf::wxyz(K(1e-3f),K(0.0f),K(0.0f),K(0.0f))); E(glm::slerp(q,q,K(0.3f))); E(glm::slerp(q,-q,K(0.3f))); E(glm::mix(q,q,K(0.3f))); E(glm::shortMix(q,-q,K(0.3f))); E(glm::fastMix(q,q,K(0.5f))); E(glm::angle(q)); E(glm::axis(Qf::wxyz(K(1.0f),K(0.0f),K(0.0f),K(0.0f)))); E(glm::axis(q));
	E(glm::rotate(n,K(0.5f),m2)); E(glm::rotateX(n,K(0.5f))); E(glm::lookAt(n,n+m2,V3(K(0.0f),K(1.0f),K(0.0f)))); E(glm::quatLookAt(m2,V3(K(0.0f),K(1.0f),K(0.0f)))); }
static std::vector<vf::Op*> table(){ return { &gtx_classify,&integer_scalar_types,&gtx_special_relations,&fn_round,&fn_trunc,&fn_floor_ceil,&fn_fract,&fn_roundEven,&fn_sign_abs,&fn_isnan,&fn_isinf,&fn_log2,&fn_exp2,&fn_exp_log,&fn_pow_sqrt,&fn_asinh,&fn_acosh,&fn_atanh,&fn_trig,&fn_trig_inverse,&fn_reciprocal_trig,&fn_fmin_fmax,&fn_fma,&fn_frexp_ldexp_modf,&fn_mix_step_clamp_mod,&fn_nextFloat_prevFloat,&fn_gtc_next_prev_double,&relational,&integer,&integer_ext,&vec_operators,&vec_common,&vec_geometric,&matrix,&transform,&quaternion,&packing,&constructors,&decompose,&gtx_quaternion,&vector_templates }; }

#else // C15_PART==2: floating-point vector overloads of gtc/round, kept in their own translation unit (a configuration under which
      // they stop compiling must not take the rest of the table with it)
OPC(vector_round_float){ V4 fx=glm::clamp(glm::mix(v4(in.f),V4(K(1.0f)),glm::isnan(v4(in.f))),V4(K(-1e6f)),V4(K(1e6f))); V4 fm(K(0.5f)+unit(in.f[4]),K(1.0f)+unit(in.f[5]),K(4.0f),K(0.25f)+unit(in.f[6]));
	E(glm::ceilMultiple(fx,fm)); E(glm::floorMultiple(fx,fm)); E(glm::roundMultiple(fx,fm)); D4 dx(fx); D4 dm(fm); E(glm::ceilMultiple(dx,dm)); E(glm::floorMultiple(dx,dm)); E(glm::ceilMultiple(V3(fx.x,fx.y,fx.z),V3(fm.x,fm.y,fm.z))); E(glm::floorMultiple(V2(fx.x,fx.y),V2(fm.x,fm.y))); }
static std::vector<vf::Op*> table(){ return { &vector_round_float }; }
#endif

// deterministic input: pure function of (seed, op name, record index); integer arithmetic only
static void make_input(InC& x,u64 seed,const char* opname,u64 rec){
	static const std::vector<float> LF=float_lattice(); static const std::vector<double> LD=double_lattice(); static const std::vector<u32> LU=int_lattice<u32>();
	u64 s=seed*0x9e3779b97f4a7c15ULL ^ vf::hash_str(opname) ^ (rec*0xd1342543de82ef95ULL); vf::Rng r(s);
	for(int k=0;k<16;k++){ u64 m=r.next()%8; float v; if(m<2) v=LF[r.below(LF.size())]; else if(m==2) v=bitsf(r.u32_()); else if(m==3){ u32 e=(u32)(r.next()%40)+107; v=bitsf((r.u32_()&0x807fffffu)|(e<<23)); } /* |v| in 2^-20..2^20 */ else if(m==4) v=(float)((i64)(r.next()%201)-100)*0.5f; else if(m==5){ u32 e=(u32)(r.next()%6)+124; v=bitsf((r.u32_()&0x807fffffu)|(e<<23)); } else v=(float)((i64)(r.next()%2001)-1000)*0.001f; if(isnan_b(v)) v=bitsf(fbits(v)|0x00400000u); x.f[k]=v; }
	for(int k=0;k<4;k++){ u64 m=r.next()%6; double v; if(m<2) v=LD[r.below(LD.size())]; else if(m==2) v=bitsd(r.next()); else if(m==3){ u64 e=(r.next()%80)+983; v=bitsd((r.next()&0x800fffffffffffffULL)|(e<<52)); } else v=(double)((i64)(r.next()%201)-100)*0.5; if(isnan_b(v)) v=bitsd(dbits(v)|0x0008000000000000ULL); x.d[k]=v; }
	for(int k=0;k<4;k++){ u64 m=r.next()%4; u32 u= m==0? LU[r.below(LU.size())]: m==1? r.u32_(): m==2? (u32)(r.next()%100): r.u32_()>>(r.next()%32); x.u[k]=u; u64 n=r.next()%4; x.i[k]= n==0? (i32)LU[r.below(LU.size())]: n==1? (i32)r.u32_(): n==2? (i32)(r.next()%201)-100: (i32)(r.u32_()>>(r.next()%32)); }
}

static const u64 CHUNK=256;
static void workload(){
	auto ops=table(); u64 nrec=vf::N(8192,1048576); nrec=(nrec+CHUNK-1)/CHUNK*CHUNK; u64 nch=nrec/CHUNK;
	auto& X=vf::cfg().extra; u64 seed=vf::cfg().seed;
	if(X.count("dump")){ // --x-dump op:chunk  -> print every record of that chunk
		std::string d=X["dump"]; size_t p=d.find(':'); std::string on=d.substr(0,p); u64 ch=strtoull(d.c_str()+p+1,0,10);
		for(auto* op: ops) if(on==op->name){ vf::Ctx c; for(u64 r=ch*CHUNK;r<(ch+1)*CHUNK;r++){ InC x; make_input(x,seed,op->name,r); std::string out; Rec rc{0x12345,&out}; g_rec=&rc; vf::run(c,*op,x); g_rec=nullptr; printf("REC %llu in=%s out=%s\n",(unsigned long long)r,vf::hex_of(&x,sizeof x).c_str(),out.c_str()); } vf::merge(c); }
		return; }
	std::vector<std::vector<u64>> dig(ops.size(),std::vector<u64>(nch,0));
	for(size_t k=0;k<ops.size();k++){ vf::Op* op=ops[k]; if(!vf::want(*op)) continue;
		vf::sweep(op->name,nch,4,[&](vf::Ctx& c,u64 lo,u64 hi){ c.enum_mode=false; for(u64 ch=lo;ch<hi;ch++){ u64 h=0xcbf29ce484222325ULL; for(u64 r=ch*CHUNK;r<(ch+1)*CHUNK;r++){ InC x; make_input(x,seed,op->name,r); Rec rc{0x12345,nullptr}; g_rec=&rc; vf::run(c,*op,x); g_rec=nullptr; h=(h^rc.h)*0x100000001b3ULL; } dig[k][ch]=h; } }); }
	if(X.count("digest")){ FILE* f=fopen(X["digest"].c_str(),"w"); if(!f){ perror("digest"); exit(2);} for(size_t k=0;k<ops.size();k++) if(vf::want(*ops[k])) for(u64 ch=0;ch<nch;ch++) fprintf(f,"%s %llu %016llx\n",ops[k]->name,(unsigned long long)ch,(unsigned long long)dig[k][ch]); fclose(f); }
	vf::note("records_per_operation",std::to_string(nrec)); vf::note("chunk_records",std::to_string(CHUNK));
}
VF_MAIN("C15_config")
