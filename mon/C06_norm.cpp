// C06 (part 1) — normalised pack/unpack formats of glm/packing.hpp and glm/gtc/packing.hpp:
//   Unorm/Snorm 1x8 2x8 4x8 1x16 2x16 4x16, 3x10_1x2, 2x4, 4x4, 1x5_1x6_1x5, 3x5_1x1, 2x3_1x2 and the generic
//   packUnorm/packSnorm<intType>(vec<L,floatType>) templates.
// Four monitors per format, all judged against a model written from the documented formulas (no glm code in the oracle):
//   *_roundtrip : word p (given as per-field codes, field 0 = least significant bits, joined by OUR layout table)
//                 unpack(p) == code/max (documented formula, 6u relative), pack(unpack(p)) == p for canonical codes,
//                 unpack(pack(unpack(p))) == unpack(p) bitwise for every word
//   *_quantise  : finite x -> pack: code is a nearest code of clamp(x)*max (ties / float-product rounding accepted either way),
//                 out-of-range x clamps to the end code, and unpack(pack(x)) is within step/2 (+7u) of x
//   *_monotone  : a <= b  =>  code(a) <= code(b) in every field
//   *_layout    : packing a vector with one non-zero component sets only bits of that field; fields are independent;
//                 unpacking a word with one non-zero field gives one non-zero component
#include "vf.hpp"
#include "ref.hpp"
#include <glm/glm.hpp>
#include <glm/packing.hpp>
#include <glm/gtc/packing.hpp>
#include <glm/gtc/type_precision.hpp>
using namespace ref;

enum Kind { UNORM=0, SNORM=1 };
static const char* const COMP[4]={"x","y","z","w"};

// ---------------------------------------------------------------- cheap per-thread class counters / ratio maxima
// (vf::Ctx::cls/ratio build a std::string per call: too slow inside 2^32 sweeps; these are flushed into the Ctx per chunk)
enum { CL_BELOW, CL_ABOVE, CL_INRANGE, CL_NEARTIE, CL_ENDCODE, CL_NONCANON, CL_N };
static const char* const CL_NAME[CL_N]={"below-range(clamped)","above-range(clamped)","in-range","near-tie(either code accepted)","end-code","most-negative-code(non-canonical)"};
enum { RT_DECODE, RT_TIE, RT_DEC2, RT_N };
static const char* const RT_NAME[RT_N]={"decode-err/bound(6u)","tie-excess/slack(2u*p)","decoded-excess-over-half-step/slack(7u)"};
enum { MAXOPS=400 };
static thread_local u64 t_cls[MAXOPS][CL_N];
static thread_local double t_rt[MAXOPS][RT_N];
static inline void lcls(int k){ t_cls[vf::g_crumb.op->id][k]++; }
static inline void lratio(int k,double r){ if(!(r==r)) return; double& m=t_rt[vf::g_crumb.op->id][k]; if(r>m) m=r; }
static void flush(vf::Ctx& c){
	for(size_t i=0;i<c.st.size()&&i<(size_t)MAXOPS;i++){
		for(int k=0;k<CL_N;k++) if(t_cls[i][k]){ c.st[i].classes[CL_NAME[k]]+=t_cls[i][k]; t_cls[i][k]=0; }
		for(int k=0;k<RT_N;k++) if(t_rt[i][k]>0){ double& m=c.st[i].ratios[RT_NAME[k]]; if(t_rt[i][k]>m) m=t_rt[i][k]; t_rt[i][k]=0; }
	}
}
// cheap failure path: the witness strings (snprintf) are only built while a class still lacks its 3 witnesses
#define LFAIL(C,CLS,GOT,WANT) do{ if(!vf::cfg().san_only){ std::string cls_=(CLS); vf::OpStat& s_=(C).cur(); auto it_=s_.viol.find(cls_); \
	if(it_!=s_.viol.end() && it_->second.wit.size()>=3) it_->second.count++; else (C).fail(cls_,GOT,WANT); } }while(0)
static void SWEEP(const std::string& label,u64 total,u64 chunk,const std::function<void(vf::Ctx&,u64,u64)>& fn){ vf::sweep(label.c_str(),total,chunk,[&](vf::Ctx& c,u64 lo,u64 hi){ fn(c,lo,hi); flush(c); }); }
static void PAR(const std::string& label,const std::function<void(int,int,vf::Ctx&)>& fn){ vf::parallel(label.c_str(),[&](int t,int T,vf::Ctx& c){ fn(t,T,c); flush(c); }); }
// optional extra stride for the 2^32 sweeps (used by reduced re-runs, e.g. under sanitizers): --x-stride N
static inline u64 xstride(){ auto it=vf::cfg().extra.find("stride"); if(it==vf::cfg().extra.end()) return 1; u64 s=strtoull(it->second.c_str(),0,10); return s<1? 1: s; }
static inline u64 mixseed(const std::string& label,u64 a){ return vf::cfg().seed*0x9e3779b97f4a7c15ULL ^ vf::hash_str(label.c_str()) ^ (a+1)*0xD6E8FEB86659FD93ULL; }

// ---------------------------------------------------------------- wide (exact) arithmetic for x*max
template<class T> struct wide; template<> struct wide<float>{ typedef double type; }; template<> struct wide<double>{ typedef __float128 type; };
template<class W> static inline W wabs(W v){ return v<0? -v: v; }
template<class W> static inline i64 wnearest(W p){ i64 t=(i64)p; i64 best=t; W bd=wabs((W)t-p); for(i64 c=t-1;c<=t+1;c+=2){ W d=wabs((W)c-p); if(d<bd){ bd=d; best=c; } } return best; }
static inline std::string wshow(double v){ return vf::show(v); }
static inline std::string wshow(__float128 v){ return vf::show((long double)v); }
template<class T> static inline T stepulp(T x,int j){ typedef typename fp<T>::I I; I o=ord(x)+(I)j; T r=from_ord<T>(o); return isfinite_b(r)? r: x; }

// ---------------------------------------------------------------- format descriptors (layout table = OUR model: field 0 in the least significant bits)
#define NF(NAME,TT,NN,KK,HASWORD,W0,W1,W2,W3) \
	struct F_##NAME { typedef TT T; enum{ N=NN, WORD=HASWORD }; static constexpr Kind K=KK; \
		static int width(int k){ static const int w[4]={W0,W1,W2,W3}; return w[k]; } \
		static u64 packw(const T* x); static void unpackw(u64 w,T* o); };
#define PK_S(NAME,WT) \
	inline u64 F_##NAME::packw(const T* x){ return (u64)(WT)glm::pack##NAME(x[0]); } \
	inline void F_##NAME::unpackw(u64 w,T* o){ o[0]=glm::unpack##NAME((WT)w); }
#define PK_V(NAME,WT,L) \
	inline u64 F_##NAME::packw(const T* x){ glm::vec<L,float,glm::defaultp> v; for(int i=0;i<L;i++) v[i]=x[i]; return (u64)(WT)glm::pack##NAME(v); } \
	inline void F_##NAME::unpackw(u64 w,T* o){ glm::vec<L,float,glm::defaultp> v=glm::unpack##NAME((WT)w); for(int i=0;i<L;i++) o[i]=v[i]; }

// core (glm/packing.hpp)
NF(Unorm2x16,float,2,UNORM,1,16,16,0,0)  PK_V(Unorm2x16,glm::uint,2)
NF(Snorm2x16,float,2,SNORM,1,16,16,0,0)  PK_V(Snorm2x16,glm::uint,2)
NF(Unorm4x8,float,4,UNORM,1,8,8,8,8)     PK_V(Unorm4x8,glm::uint,4)
NF(Snorm4x8,float,4,SNORM,1,8,8,8,8)     PK_V(Snorm4x8,glm::uint,4)
// gtc/packing.hpp
NF(Unorm1x8,float,1,UNORM,1,8,0,0,0)     PK_S(Unorm1x8,glm::uint8)
NF(Snorm1x8,float,1,SNORM,1,8,0,0,0)     PK_S(Snorm1x8,glm::uint8)
NF(Unorm2x8,float,2,UNORM,1,8,8,0,0)     PK_V(Unorm2x8,glm::uint16,2)
NF(Snorm2x8,float,2,SNORM,1,8,8,0,0)     PK_V(Snorm2x8,glm::uint16,2)
NF(Unorm1x16,float,1,UNORM,1,16,0,0,0)   PK_S(Unorm1x16,glm::uint16)
NF(Snorm1x16,float,1,SNORM,1,16,0,0,0)   PK_S(Snorm1x16,glm::uint16)
NF(Unorm4x16,float,4,UNORM,1,16,16,16,16) PK_V(Unorm4x16,glm::uint64,4)
NF(Snorm4x16,float,4,SNORM,1,16,16,16,16) PK_V(Snorm4x16,glm::uint64,4)
NF(Snorm3x10_1x2,float,4,SNORM,1,10,10,10,2) PK_V(Snorm3x10_1x2,glm::uint32,4)
NF(Unorm3x10_1x2,float,4,UNORM,1,10,10,10,2) PK_V(Unorm3x10_1x2,glm::uint32,4)
NF(Unorm2x4,float,2,UNORM,1,4,4,0,0)     PK_V(Unorm2x4,glm::uint8,2)
NF(Unorm4x4,float,4,UNORM,1,4,4,4,4)     PK_V(Unorm4x4,glm::uint16,4)
NF(Unorm1x5_1x6_1x5,float,3,UNORM,1,5,6,5,0) PK_V(Unorm1x5_1x6_1x5,glm::uint16,3)
NF(Unorm3x5_1x1,float,4,UNORM,1,5,5,5,1) PK_V(Unorm3x5_1x1,glm::uint16,4)
NF(Unorm2x3_1x2,float,3,UNORM,1,3,3,2,0) PK_V(Unorm2x3_1x2,glm::uint8,3)

// generic templates packUnorm<uintType>(vec<L,floatType,Q>) / packSnorm<intType>(...): "word" = components joined by the harness
// (component k at bit k*width), so there is no layout claim for these, only the component mapping.
template<class UI,int L,class FT,Kind KK,glm::qualifier Q> struct F_Gen {
	typedef FT T; enum{ N=L, WORD=0 }; static constexpr Kind K=KK; enum{ BITS=sizeof(UI)*8 };
	typedef typename std::make_unsigned<UI>::type UU; typedef typename std::make_signed<UI>::type SI;
	static int width(int k){ return k<L? (int)BITS: 0; }
	static u64 packw(const T* x){ glm::vec<L,FT,Q> v; for(int i=0;i<L;i++) v[i]=x[i]; u64 w=0;
		if constexpr(KK==UNORM){ glm::vec<L,UU,Q> p=glm::packUnorm<UU>(v); for(int i=0;i<L;i++) w|=(u64)(UU)p[i]<<(i*BITS); }
		else { glm::vec<L,SI,Q> p=glm::packSnorm<SI>(v); for(int i=0;i<L;i++) w|=(u64)(UU)p[i]<<(i*BITS); }
		return w; }
	static void unpackw(u64 w,T* o){
		if constexpr(KK==UNORM){ glm::vec<L,UU,Q> p; for(int i=0;i<L;i++) p[i]=(UU)(w>>(i*BITS)); glm::vec<L,FT,Q> v=glm::unpackUnorm<FT>(p); for(int i=0;i<L;i++) o[i]=v[i]; }
		else { glm::vec<L,SI,Q> p; for(int i=0;i<L;i++) p[i]=(SI)(UU)(w>>(i*BITS)); glm::vec<L,FT,Q> v=glm::unpackSnorm<FT>(p); for(int i=0;i<L;i++) o[i]=v[i]; }
	}
};
typedef F_Gen<u8,4,float,UNORM,glm::highp>    F_GUnorm_u8x4_f;
typedef F_Gen<u8,3,double,UNORM,glm::mediump> F_GUnorm_u8x3_d;
typedef F_Gen<u16,4,float,UNORM,glm::lowp>    F_GUnorm_u16x4_f;
typedef F_Gen<u16,2,double,UNORM,glm::highp>  F_GUnorm_u16x2_d;
typedef F_Gen<u32,1,double,UNORM,glm::highp>  F_GUnorm_u32x1_d;
typedef F_Gen<u32,2,double,UNORM,glm::highp>  F_GUnorm_u32x2_d;
typedef F_Gen<i8,4,float,SNORM,glm::highp>    F_GSnorm_i8x4_f;
typedef F_Gen<i8,1,double,SNORM,glm::highp>   F_GSnorm_i8x1_d;
typedef F_Gen<i16,3,float,SNORM,glm::mediump> F_GSnorm_i16x3_f;
typedef F_Gen<i16,4,double,SNORM,glm::lowp>   F_GSnorm_i16x4_d;
typedef F_Gen<i32,1,double,SNORM,glm::highp>  F_GSnorm_i32x1_d;
typedef F_Gen<i32,2,double,SNORM,glm::highp>  F_GSnorm_i32x2_d;

// ---------------------------------------------------------------- layout helpers
template<class F> static inline int foff(int k){ int o=0; for(int i=0;i<k;i++) o+=F::width(i); return o; }
template<class F> static inline int totalbits(){ return foff<F>(F::N); }
template<class F> static inline u64 fmask(int k){ int w=F::width(k); return w>=64? ~0ULL: ((1ULL<<w)-1); }
template<class F> static inline u64 join(const u32* code){ u64 w=0; for(int k=0;k<F::N;k++) w|=((u64)code[k]&fmask<F>(k))<<foff<F>(k); return w; }
template<class F> static inline void split(u64 w,u32* code){ for(int k=0;k<4;k++) code[k]= k<F::N? (u32)((w>>foff<F>(k))&fmask<F>(k)): 0u; }
template<class F> static inline i64 scode(int k,u32 raw){ int w=F::width(k); i64 v=(i64)((u64)raw&fmask<F>(k)); if(F::K==SNORM && ((v>>(w-1))&1)) v-=(i64)1<<w; return v; }
template<class F> static inline i64 maxcode(int k){ int w=F::width(k); return F::K==UNORM? (i64)(((u64)1<<w)-1): (i64)(((u64)1<<(w-1))-1); }
template<class F> static inline i64 mincode(int k){ return F::K==UNORM? 0: -maxcode<F>(k); }

struct InW { u32 code[4]; };
template<class T> struct InX { T x[4]; };
template<class T> struct InM { T a, b; };

// ---------------------------------------------------------------- checks
template<class F> static void k_roundtrip(const InW& in,vf::Ctx& c){
	typedef typename F::T T; const int N=F::N;
	u32 code[4]={0,0,0,0}; for(int k=0;k<N;k++) code[k]=(u32)((u64)in.code[k]&fmask<F>(k));
	u64 w=join<F>(code);
	T v[4]={0,0,0,0}, v2[4]={0,0,0,0}; F::unpackw(w,v);
	u64 w2=F::packw(v); F::unpackw(w2,v2);
	u32 code2[4]; split<F>(w2,code2);
	const long double u=uround<T>();
	for(int k=0;k<N;k++){
		i64 sc=scode<F>(k,code[k]), M=maxcode<F>(k); bool canon= sc>=mincode<F>(k);
		const char* cc= sc==0? "zero-code": sc==M? "max-code": sc==-M? "min-code": !canon? "most-negative-code": "mid-code";
		if(!canon) lcls(CL_NONCANON); else if(sc==M||sc==-M||sc==0) lcls(CL_ENDCODE);
		long double want=(long double)(canon? sc: -M)/(long double)M;
		long double err=fabsl((long double)v[k]-want), bound=6*u*fabsl(want);
		if(bound>0) lratio(RT_DECODE,(double)(err/bound));
		if(!(err<=bound)) LFAIL(c,std::string(COMP[k])+":decode:"+cc+":differs-from-code/max",vf::show(v[k]),vf::show(want));
		if(canon && code2[k]!=code[k]) LFAIL(c,std::string(COMP[k])+":canonical:"+cc+":repack-changed-code",vf::show(code2[k]),vf::show(code[k]));
		if(!same(v2[k],v[k])) LFAIL(c,std::string(COMP[k])+":"+cc+":unpack-pack-unpack-differs",vf::show(v2[k]),vf::show(v[k]));
	}
}

template<class F> static void k_quantise(const InX<typename F::T>& in,vf::Ctx& c){
	typedef typename F::T T; typedef typename wide<T>::type W; const int N=F::N;
	T x[4]={0,0,0,0}; for(int k=0;k<N;k++) x[k]=in.x[k];
	u64 w=F::packw(x); u32 code[4]; split<F>(w,code); T d[4]={0,0,0,0}; F::unpackw(w,d);
	const long double u=uround<T>();
	for(int k=0;k<N;k++){
		if(!isfinite_b(x[k])) continue;              // outside "any real x": never judged
		i64 got=scode<F>(k,code[k]), M=maxcode<F>(k), mn=mincode<F>(k); T lo= F::K==UNORM? (T)0: (T)-1, hi=(T)1;
		if(x[k]<lo){ lcls(CL_BELOW); if(got!=mn) LFAIL(c,std::string(COMP[k])+":below-range:not-clamped-to-min-code",vf::show((long long)got),vf::show((long long)mn)); continue; }
		if(x[k]>hi){ lcls(CL_ABOVE); if(got!=M) LFAIL(c,std::string(COMP[k])+":above-range:not-clamped-to-max-code",vf::show((long long)got),vf::show((long long)M)); continue; }
		lcls(CL_INRANGE);
		W p=(W)x[k]*(W)M;                            // exact: 24+29 <= 53 bits (float), 53+32 <= 113 bits (double)
		W dist=wabs((W)got-p), slack=(W)(2*u)*wabs(p), half=(W)0.5;
		if(wabs(dist-half)<=slack || wabs(wabs((W)wnearest(p)-p)-half)<=slack) lcls(CL_NEARTIE);
		if(dist>half && slack>0) lratio(RT_TIE,(double)((dist-half)/slack));
		if(!(dist<=half+slack)){
			i64 cn=wnearest(p); i64 dl=got-cn; const char* how= dl==-1? "one-below-nearest": dl==1? "one-above-nearest": (got<mn||got>M)? "outside-code-range": "far-from-nearest";
			LFAIL(c,std::string(COMP[k])+":in-range:code-"+how,vf::show((long long)got),vf::show((long long)cn)+" (x*max="+wshow(p)+")");
			continue;
		}
		// decoded value within half a quantisation step of x (statement), slack 7u*max(|x|,|code|/max) for the 3 roundings of pack+unpack
		long double err=fabsl((long double)d[k]-(long double)x[k]), hs=0.5L/(long double)M;
		long double sl=7*u*std::max(fabsl((long double)x[k]),fabsl((long double)got)/(long double)M);
		if(err>hs && sl>0) lratio(RT_DEC2,(double)((err-hs)/sl));
		if(!(err<=hs+sl)) LFAIL(c,std::string(COMP[k])+":in-range:decoded-value-beyond-half-step",vf::show(d[k]),vf::show(x[k])+" +- "+vf::show(hs));
	}
}

template<class F> static void k_monotone(const InM<typename F::T>& in,vf::Ctx& c){
	typedef typename F::T T; const int N=F::N;
	if(!isfinite_b(in.a)||!isfinite_b(in.b)) return;
	T a=in.a<=in.b? in.a: in.b, b=in.a<=in.b? in.b: in.a; T lo= F::K==UNORM? (T)0: (T)-1;
	bool inr= a>=lo && b<=(T)1;
	for(int k=0;k<N;k++){
		T xa[4]={0,0,0,0}, xb[4]={0,0,0,0}; xa[k]=a; xb[k]=b; u32 ca[4],cb[4]; split<F>(F::packw(xa),ca); split<F>(F::packw(xb),cb);
		i64 sa=scode<F>(k,ca[k]), sb=scode<F>(k,cb[k]);
		if(sa>sb) LFAIL(c,std::string(COMP[k])+(inr?":in-range":":out-of-range-operand")+":order-reversed",vf::show((long long)sb)+" for the larger input",">= "+vf::show((long long)sa));
	}
}

template<class F> static void k_layout(const InX<typename F::T>& in,vf::Ctx& c){
	typedef typename F::T T; const int N=F::N;
	T x[4]={0,0,0,0}; for(int k=0;k<N;k++) x[k]= isfinite_b(in.x[k])? in.x[k]: (T)0.5;
	u64 wall=F::packw(x), acc=0; T dall[4]={0,0,0,0}; F::unpackw(wall,dall);
	for(int k=0;k<N;k++){
		T s[4]={0,0,0,0}; s[k]=x[k]; u64 wk=F::packw(s), mk=fmask<F>(k)<<foff<F>(k); acc|=wk;
		if(wk&~mk) LFAIL(c,std::string(COMP[k])+":single-component:bits-outside-its-field",vf::show((unsigned long long)wk),"only bits of mask "+vf::show((unsigned long long)mk));
		T lo= F::K==UNORM? (T)0: (T)-1; T cl= x[k]<lo? lo: x[k]>(T)1? (T)1: x[k];
		if(std::fabs((double)cl)*(double)maxcode<F>(k)>=0.75 && (wk&mk)==0) LFAIL(c,std::string(COMP[k])+":single-component:its-field-empty",vf::show((unsigned long long)wk),"non-zero bits in mask "+vf::show((unsigned long long)mk));
		// unpack side: a word holding only field k decodes to a vector whose other components are zero, and component k does not depend on the other fields
		u64 fk=wall&mk; T o[4]={0,0,0,0}; F::unpackw(fk,o);
		for(int j=0;j<N;j++) if(j!=k && o[j]!=(T)0) LFAIL(c,std::string("unpack:field-")+COMP[k]+"-only:component-"+COMP[j]+"-nonzero",vf::show(o[j]),"0");
		if(!same(o[k],dall[k])) LFAIL(c,std::string("unpack:component-")+COMP[k]+":depends-on-other-fields",vf::show(o[k]),vf::show(dall[k]));
	}
	if(acc!=wall) LFAIL(c,"pack:word-differs-from-or-of-single-component-words",vf::show((unsigned long long)wall),vf::show((unsigned long long)acc));
}

// ---------------------------------------------------------------- op registration
#define DEF_NORM(NAME,TT,FX,FM) \
	VF_OP(NAME##_roundtrip, InW, "uuuu"){ k_roundtrip<F_##NAME>(in,c); } \
	VF_OP(NAME##_quantise, InX<TT>, FX){ k_quantise<F_##NAME>(in,c); } \
	VF_OP(NAME##_monotone, InM<TT>, FM){ k_monotone<F_##NAME>(in,c); }
#define DEF_LAY(NAME,TT,FX) VF_OP(NAME##_layout, InX<TT>, FX){ k_layout<F_##NAME>(in,c); }
#define DEF_F(NAME) DEF_NORM(NAME,float,"ffff","ff") DEF_LAY(NAME,float,"ffff")
DEF_F(Unorm2x16) DEF_F(Snorm2x16) DEF_F(Unorm4x8) DEF_F(Snorm4x8)
DEF_F(Unorm1x8) DEF_F(Snorm1x8) DEF_F(Unorm2x8) DEF_F(Snorm2x8) DEF_F(Unorm1x16) DEF_F(Snorm1x16) DEF_F(Unorm4x16) DEF_F(Snorm4x16)
DEF_F(Snorm3x10_1x2) DEF_F(Unorm3x10_1x2) DEF_F(Unorm2x4) DEF_F(Unorm4x4) DEF_F(Unorm1x5_1x6_1x5) DEF_F(Unorm3x5_1x1) DEF_F(Unorm2x3_1x2)
DEF_NORM(GUnorm_u8x4_f,float,"ffff","ff")   DEF_NORM(GUnorm_u8x3_d,double,"dddd","dd")
DEF_NORM(GUnorm_u16x4_f,float,"ffff","ff")  DEF_NORM(GUnorm_u16x2_d,double,"dddd","dd")
DEF_NORM(GUnorm_u32x1_d,double,"dddd","dd") DEF_NORM(GUnorm_u32x2_d,double,"dddd","dd")
DEF_NORM(GSnorm_i8x4_f,float,"ffff","ff")   DEF_NORM(GSnorm_i8x1_d,double,"dddd","dd")
DEF_NORM(GSnorm_i16x3_f,float,"ffff","ff")  DEF_NORM(GSnorm_i16x4_d,double,"dddd","dd")
DEF_NORM(GSnorm_i32x1_d,double,"dddd","dd") DEF_NORM(GSnorm_i32x2_d,double,"dddd","dd")

// ---------------------------------------------------------------- workloads
template<class T> static inline T rnd_mag(vf::Rng& r);
template<> inline float rnd_mag<float>(vf::Rng& r){ return (float)r.logmag(-149,127); }
template<> inline double rnd_mag<double>(vf::Rng& r){ return r.logmag(-1074,1023); }
template<class T> static const std::vector<T>& finite_lattice(){ static const std::vector<T> L=[]{ std::vector<T> v; for(T x: lattice_of<T>::get()) if(isfinite_b(x)) v.push_back(x); return v; }(); return L; }

// one value for field k: exact code values, rounding ties, in-range, out-of-range, tiny, huge, lattice — always finite
template<class F> static typename F::T gen_val(vf::Rng& r,int k){
	typedef typename F::T T; long double M=(long double)maxcode<F>(k); i64 mn=mincode<F>(k), mx=maxcode<F>(k);
	auto rcode=[&]()->i64{ if(r.below(4)==0){ static const i64 e[7]={0,1,2,-1,-2,3,-3}; i64 b= r.coin()? mx: (r.coin()? mn: 0); i64 v=b+e[r.below(7)]; return v<mn-1? mn-1: v>mx? mx: v; } return mn-1+(i64)r.below((u64)(mx-mn+2)); };
	T x; switch((int)r.below(10)){
		case 0: case 1: x=stepulp((T)((long double)rcode()/M),r.range(-2,2)); break;
		case 2: case 3: x=stepulp((T)(((long double)rcode()+0.5L)/M),r.range(-3,3)); break;
		case 4: x=(T)r.uniform(F::K==UNORM?0.0:-1.0,1.0); break;
		case 5: x=(T)r.uniform(-3.0,3.0); break;
		case 6: x=rnd_mag<T>(r); break;
		case 7: { const std::vector<T>& L=finite_lattice<T>(); x=L[r.below(L.size())]; } break;
		case 8: x=(T)r.logmag(-40,2); break;
		default: { static const double b[5]={1.0,-1.0,0.0,0.5,-0.5}; x=stepulp((T)b[r.below(5)],r.range(-3,3)); } break;
	}
	return isfinite_b(x)? x: (T)0.5;
}

template<class F> static void drive(const char* nm,vf::Op& RT,vf::Op& Q,vf::Op& MO,vf::Op* LAY){
	typedef typename F::T T; const int N=F::N; const int B=totalbits<F>(); const std::string L=nm; const bool th=vf::thorough();
	const u64 seed=vf::cfg().seed;
	// ---------------- round trip over words
	if(vf::want(RT)){
		if(B<=20 || (th && B<=32 && (F::WORD || N==1))){   // thorough: all 2^32 words of every 32-bit format of the two headers and of the single-field 32-bit instantiations
			const u64 xs= B>20? xstride(): 1, ph= xs>1? (seed*2654435761ULL)%xs: 0;
			SWEEP(L+".rt.all",(1ULL<<B)/xs,1u<<14,[&](vf::Ctx& c,u64 lo,u64 hi){ for(u64 i=lo;i<hi;i++){ InW in{}; split<F>(i*xs+ph,in.code); vf::run(c,RT,in);} });
		} else {
			for(int k=0;k<N;k++){
				const int wd=F::width(k); const std::string lk=L+".rt.f"+std::to_string(k);
				auto ctx_fill=[&](InW& in,int ctx,vf::Rng& r){ for(int j=0;j<N;j++) in.code[j]= ctx==0? 0u: ctx==1? (u32)fmask<F>(j): (u32)(r.u32_()&fmask<F>(j)); };
				if(wd<=16){ const u64 nc=1ULL<<wd;
					SWEEP(lk,nc*3,4096,[&](vf::Ctx& c,u64 lo,u64 hi){ vf::Rng r(mixseed(lk,lo)); for(u64 i=lo;i<hi;i++){ InW in{}; ctx_fill(in,(int)(i/nc),r); in.code[k]=(u32)(i%nc); vf::run(c,RT,in);} });
				} else { // 32-bit field: boundary lattice in three contexts + strided sweep (seed-dependent phase)
					std::vector<u32> LT=int_lattice<u32>();
					SWEEP(lk+".lat",LT.size()*3,64,[&](vf::Ctx& c,u64 lo,u64 hi){ vf::Rng r(mixseed(lk,lo)); for(u64 i=lo;i<hi;i++){ InW in{}; ctx_fill(in,(int)(i/LT.size()),r); in.code[k]=LT[i%LT.size()]; vf::run(c,RT,in);} });
					const u64 stride= th? 15: 4099, phase=(seed*2654435761ULL)%stride, total=(1ULL<<32)/stride;
					SWEEP(lk+".str",total,1u<<14,[&](vf::Ctx& c,u64 lo,u64 hi){ vf::Rng r(mixseed(lk,lo)); for(u64 i=lo;i<hi;i++){ InW in{}; ctx_fill(in,2,r); in.code[k]=(u32)(i*stride+phase); vf::run(c,RT,in);} });
				}
			}
			const u64 n=vf::N(200000,10000000);
			PAR(L+".rt.rnd",[&](int t,int TT,vf::Ctx& c){ for(u64 i=t;i<n;i+=TT){ InW in{}; for(int j=0;j<N;j++){ u32 m=(u32)fmask<F>(j), v=c.rng.u32_()&m; int md=(int)c.rng.below(6); if(md==0) v=m-(u32)c.rng.below(3); else if(md==1) v=(u32)c.rng.below(3); else if(md==2) v=((m>>1)+(u32)c.rng.below(4)-1)&m; in.code[j]=v; } vf::run(c,RT,in);} });
		}
	}
	// ---------------- quantisation
	if(vf::want(Q)){
		for(int k=0;k<N;k++){
			const int wd=F::width(k); const std::string lk=L+".q.f"+std::to_string(k); const long double M=(long double)maxcode<F>(k);
			const u64 nc= wd<=16? (1ULL<<wd): vf::N(20000,1000000);
			SWEEP(lk,nc,512,[&](vf::Ctx& c,u64 lo,u64 hi){ vf::Rng r(mixseed(lk,lo));
				for(u64 i=lo;i<hi;i++){
					u64 raw= wd<=16? i: (u64)r.u32_(); i64 sc= F::K==UNORM? (i64)raw: (i64)raw-((i64)1<<(wd-1));   // SNORM: -max-1 .. max
					for(int j=-1;j<=1;j++){ InX<T> in{}; for(int q=0;q<N;q++) in.x[q]=gen_val<F>(r,q); in.x[k]=stepulp((T)((long double)sc/M),j); vf::run(c,Q,in); }
					for(int j=-2;j<=2;j++){ InX<T> in{}; for(int q=0;q<N;q++) in.x[q]=gen_val<F>(r,q); in.x[k]=stepulp((T)(((long double)sc+0.5L)/M),j); vf::run(c,Q,in); }
				} });
		}
		const std::vector<T>& LT=finite_lattice<T>();
		SWEEP(L+".q.lat",LT.size()*N,64,[&](vf::Ctx& c,u64 lo,u64 hi){ vf::Rng r(mixseed(L+".q.lat",lo)); for(u64 i=lo;i<hi;i++){ int k=(int)(i/LT.size()); InX<T> in{}; for(int q=0;q<N;q++) in.x[q]=gen_val<F>(r,q); in.x[k]=LT[i%LT.size()]; vf::run(c,Q,in);} });
		const u64 n=vf::N(200000,10000000);
		PAR(L+".q.rnd",[&](int t,int TT,vf::Ctx& c){ for(u64 i=t;i<n;i+=TT){ InX<T> in{}; for(int q=0;q<N;q++) in.x[q]=gen_val<F>(c.rng,q); vf::run(c,Q,in);} });
	}
	// ---------------- monotonicity
	if(vf::want(MO)){
		for(int k=0;k<N;k++){
			const int wd=F::width(k); if(k>0 && wd==F::width(k-1)) continue;   // pairs are applied to every field: one pass per distinct width
			const std::string lk=L+".m.f"+std::to_string(k); const long double M=(long double)maxcode<F>(k);
			const u64 nc= wd<=16? (1ULL<<wd): vf::N(20000,1000000);
			SWEEP(lk,nc,512,[&](vf::Ctx& c,u64 lo,u64 hi){ vf::Rng r(mixseed(lk,lo));
				for(u64 i=lo;i<hi;i++){ u64 raw= wd<=16? i: (u64)r.u32_(); i64 sc= F::K==UNORM? (i64)raw: (i64)raw-((i64)1<<(wd-1));
					T t0=(T)(((long double)sc+0.5L)/M); for(int j=-2;j<=1;j++){ InM<T> in{}; in.a=stepulp(t0,j); in.b=stepulp(t0,j+1); vf::run(c,MO,in); }
					T t1=(T)((long double)sc/M); { InM<T> in{}; in.a=stepulp(t1,-1); in.b=stepulp(t1,1); vf::run(c,MO,in); }
				} });
		}
		const u64 n=vf::N(100000,5000000);
		PAR(L+".m.rnd",[&](int t,int TT,vf::Ctx& c){ for(u64 i=t;i<n;i+=TT){ InM<T> in{}; in.a=gen_val<F>(c.rng,(int)c.rng.below(N)); in.b= c.rng.coin()? gen_val<F>(c.rng,(int)c.rng.below(N)): stepulp(in.a,c.rng.range(-4,4)); vf::run(c,MO,in);} });
	}
	// ---------------- layout
	if(LAY && vf::want(*LAY)){
		const u64 n=vf::N(50000,3000000);
		PAR(L+".lay",[&](int t,int TT,vf::Ctx& c){ for(u64 i=t;i<n;i+=TT){ InX<T> in{}; for(int q=0;q<N;q++){ in.x[q]=gen_val<F>(c.rng,q); if(c.rng.below(8)==0) in.x[q]= c.rng.coin()? (T)1: (F::K==SNORM? (T)-1: (T)1); } vf::run(c,*LAY,in);} });
	}
}

// complete float sweeps for the single-field float formats (quantise: every finite float; monotone: every adjacent pair)
template<class F> static void drive_scalar_sweep(const char* nm,vf::Op& Q,vf::Op& MO,bool full_q,bool full_m){
	const std::string L=nm; const u64 seed=vf::cfg().seed;
	auto sw=[&](vf::Op& OP,bool full,bool pair,const char* tag){
		if(!vf::want(OP)) return;
		const u64 stride= (full? 1: 61)*xstride(), phase= stride==1? 0: (seed*2654435761ULL)%stride, total=(1ULL<<32)/stride;
		SWEEP(L+tag,total,1u<<18,[&](vf::Ctx& c,u64 lo,u64 hi){ for(u64 i=lo;i<hi;i++){ u32 b=(u32)(i*stride+phase); float x=bitsf(b); if(!isfinite_b(x)) continue;
			if(!pair){ InX<float> in{}; in.x[0]=x; vf::run(c,OP,in); }
			else { float y=bitsf(b+1); if(!isfinite_b(y)) continue; InM<float> in{}; in.a=x; in.b=y; vf::run(c,OP,in); } } });
	};
	sw(Q,full_q,false,".q.sweep"); sw(MO,full_m,true,".m.sweep");
}

#define DRIVE(NAME) drive<F_##NAME>(#NAME,NAME##_roundtrip,NAME##_quantise,NAME##_monotone,&NAME##_layout);
#define DRIVE_G(NAME) drive<F_##NAME>(#NAME,NAME##_roundtrip,NAME##_quantise,NAME##_monotone,nullptr);
static void workload(){
	if(vf::registry().size()>=(size_t)MAXOPS){ fprintf(stderr,"MAXOPS too small\n"); exit(2); }
	const bool th=vf::thorough();
	DRIVE(Unorm1x8) DRIVE(Snorm1x8) DRIVE(Unorm1x16) DRIVE(Snorm1x16)
	drive_scalar_sweep<F_Unorm1x8>("Unorm1x8",Unorm1x8_quantise,Unorm1x8_monotone,true,th);
	drive_scalar_sweep<F_Unorm1x16>("Unorm1x16",Unorm1x16_quantise,Unorm1x16_monotone,true,th);
	drive_scalar_sweep<F_Snorm1x8>("Snorm1x8",Snorm1x8_quantise,Snorm1x8_monotone,th,th);
	drive_scalar_sweep<F_Snorm1x16>("Snorm1x16",Snorm1x16_quantise,Snorm1x16_monotone,th,th);
	DRIVE(Unorm2x16) DRIVE(Snorm2x16) DRIVE(Unorm4x8) DRIVE(Snorm4x8)
	DRIVE(Unorm2x8) DRIVE(Snorm2x8) DRIVE(Unorm4x16) DRIVE(Snorm4x16)
	DRIVE(Snorm3x10_1x2) DRIVE(Unorm3x10_1x2) DRIVE(Unorm2x4) DRIVE(Unorm4x4) DRIVE(Unorm1x5_1x6_1x5) DRIVE(Unorm3x5_1x1) DRIVE(Unorm2x3_1x2)
	DRIVE_G(GUnorm_u8x4_f) DRIVE_G(GUnorm_u8x3_d) DRIVE_G(GUnorm_u16x4_f) DRIVE_G(GUnorm_u16x2_d) DRIVE_G(GUnorm_u32x1_d) DRIVE_G(GUnorm_u32x2_d)
	DRIVE_G(GSnorm_i8x4_f) DRIVE_G(GSnorm_i8x1_d) DRIVE_G(GSnorm_i16x3_f) DRIVE_G(GSnorm_i16x4_d) DRIVE_G(GSnorm_i32x1_d) DRIVE_G(GSnorm_i32x2_d)
	vf::note("oracle","documented formulas round(clamp(c,lo,1)*max) and code/max evaluated exactly (double for float inputs, __float128 for double inputs); layout table of the monitor: first component in the least significant bits");
	vf::note("not_covered","generic packUnorm/packSnorm with 32-bit integer type and float: a float cannot carry 32 bits, 1.0f*float(2^32-1) = 2^32 overflows the narrowing cast (out of domain); only the double instantiations are monitored for 32-bit codes");
}
VF_MAIN("C06_norm")
