// Constant-argument supplement (C05/C18 integer+bitfield, C11/C01 common functions, C03 aligned types), selected with -DCONST_PROP=n.
//
// The properties state what a function returns for given argument VALUES; whether the caller wrote an argument as a literal or passed a
// variable holding the same value cannot matter.  Compilers let a library see the difference (__builtin_constant_p, constant folding of
// inlined code, constexpr evaluation), so each function with scalar parameters is called twice from the same translation unit at -O2:
// once with the scalar arguments as compile-time constants (template non-type parameters) and once with the same values laundered through
// a volatile read.  Oracle: the two results are bitwise identical.  Nothing is assumed about the value itself.
#include "vf.hpp"
#include "ref.hpp"
#include <glm/glm.hpp>
#include <glm/gtc/bitfield.hpp>
#include <glm/gtc/quaternion.hpp>
#include <glm/gtc/round.hpp>
#include <glm/gtc/integer.hpp>
#include <glm/ext/scalar_common.hpp>
#include <glm/ext/vector_common.hpp>
#include <utility>
using namespace ref;
using vf::u64; using vf::u32;
typedef int i32; typedef long long i64;
#ifndef CONST_PROP
#	define CONST_PROP 5
#endif
template<class T> static inline T hide(T v){ volatile T x=v; return x; }
#if defined(GLM_FORCE_DEFAULT_ALIGNED_GENTYPES) && GLM_CONFIG_ALIGNED_GENTYPES == GLM_ENABLE
static const char* const QN="aligned";
#else
static const char* const QN="packed";
#endif
template<class T> struct In4 { T v[4]; u32 sel; };
template<class A> static bool eqv(const A& a,const A& b){ return same(a,b); }
template<int L,class T,glm::qualifier Q> static bool eqv(const glm::vec<L,T,Q>& a,const glm::vec<L,T,Q>& b){ for(int i=0;i<L;i++) if(!same(a[i],b[i])) return false; return true; }
template<int C,int R,class T,glm::qualifier Q> static bool eqv(const glm::mat<C,R,T,Q>& a,const glm::mat<C,R,T,Q>& b){ for(int i=0;i<C;i++) if(!eqv(a[i],b[i])) return false; return true; }
template<class T,glm::qualifier Q> static bool eqv(const glm::qua<T,Q>& a,const glm::qua<T,Q>& b){ return same(a.x,b.x)&&same(a.y,b.y)&&same(a.z,b.z)&&same(a.w,b.w); }
template<class A> static std::string shw(const A& a){ return vf::show(a); }
template<int L,class T,glm::qualifier Q> static std::string shw(const glm::vec<L,T,Q>& a){ std::string s="("; for(int i=0;i<L;i++){ if(i) s+=","; s+=vf::show(a[i]); } return s+")"; }
template<int C,int R,class T,glm::qualifier Q> static std::string shw(const glm::mat<C,R,T,Q>& a){ std::string s="["; for(int i=0;i<C;i++) s+=shw(a[i]); return s+"]"; }
template<class T,glm::qualifier Q> static std::string shw(const glm::qua<T,Q>& a){ return "(x,y,z,w)("+vf::show(a.x)+","+vf::show(a.y)+","+vf::show(a.z)+","+vf::show(a.w)+")"; }
// each literal-argument call sits in its own small non-inlined function (a lambda), so that the inline glm function is inlined into a caller
// in which its scalar arguments are visibly constant (inside one huge function the inliner may leave it out of line, where nothing is constant)
#define CMP(NAME,CONSTEXPR_CALL,HIDDEN_CALL) do{ auto r1=[&]() __attribute__((noinline)) { return (CONSTEXPR_CALL); }(); auto r2=[&]() __attribute__((noinline)) { return (HIDDEN_CALL); }(); if(!eqv(r1,r2)) c.fail(std::string(QN)+":"+NAME+":literal-argument-result-differs-from-variable-argument-result",shw(r1)+" (literal)",shw(r2)+" (variable)"); }while(0)

// ------------------------------------------------------------------------------------------------ integer / bitfield (C05, C18)
#if CONST_PROP==5
template<class T,int O,int B> static void bf_one(const In4<T>& in,vf::Ctx& c){
	constexpr int W=(int)sizeof(T)*8;
	if constexpr(O+B<=W){
		typedef glm::vec<4,T,glm::defaultp> V; V v(in.v[0],in.v[1],in.v[2],in.v[3]), w(in.v[1],in.v[2],in.v[3],in.v[0]);
		const std::string ob="(offset="+std::to_string(O)+",bits="+std::to_string(B)+")"; (void)ob;
		CMP("bitfieldExtract(x,literal,literal)",glm::bitfieldExtract(in.v[0],O,B),glm::bitfieldExtract(in.v[0],hide(O),hide(B)));
		CMP("bitfieldExtract(vec,literal,literal)",glm::bitfieldExtract(v,O,B),glm::bitfieldExtract(v,hide(O),hide(B)));
		CMP("bitfieldInsert(x,y,literal,literal)",glm::bitfieldInsert(in.v[0],in.v[1],O,B),glm::bitfieldInsert(in.v[0],in.v[1],hide(O),hide(B)));
		CMP("bitfieldInsert(vec,vec,literal,literal)",glm::bitfieldInsert(v,w,O,B),glm::bitfieldInsert(v,w,hide(O),hide(B)));
		if constexpr(O<W){ CMP("bitfieldFillOne(x,literal,literal)",glm::bitfieldFillOne(in.v[0],O,B),glm::bitfieldFillOne(in.v[0],hide(O),hide(B))); CMP("bitfieldFillZero(x,literal,literal)",glm::bitfieldFillZero(in.v[0],O,B),glm::bitfieldFillZero(in.v[0],hide(O),hide(B)));
			CMP("bitfieldFillOne(vec,literal,literal)",glm::bitfieldFillOne(v,O,B),glm::bitfieldFillOne(v,hide(O),hide(B))); }
	}
}
template<class T,int S> static void sh_one(const In4<T>& in,vf::Ctx& c){
	typedef glm::vec<4,T,glm::defaultp> V; typedef typename std::make_unsigned<T>::type U; typedef glm::vec<4,U,glm::defaultp> VU; V v(in.v[0],in.v[1],in.v[2],in.v[3]); VU vu(v); const U u0=(U)in.v[0];
	CMP("vec>>literal",v>>(T)S,v>>hide((T)S)); CMP("uvec<<literal",vu<<(U)S,vu<<hide((U)S)); CMP("vec&literal",v&(T)(S*0x01010101),v&hide((T)(S*0x01010101))); CMP("vec*literal",vu*(U)(S+1),vu*hide((U)(S+1)));
	CMP("vec/literal",v/(T)(S+1),v/hide((T)(S+1))); CMP("vec%literal",v%(T)(S+1),v%hide((T)(S+1)));
	CMP("bitfieldRotateLeft(x,literal)",glm::bitfieldRotateLeft(u0,S),glm::bitfieldRotateLeft(u0,hide(S))); CMP("bitfieldRotateRight(x,literal)",glm::bitfieldRotateRight(u0,S),glm::bitfieldRotateRight(u0,hide(S)));
	CMP("mask(literal)",glm::mask((T)S),glm::mask(hide((T)S))); CMP("findNSB(x,literal)",glm::findNSB(u0,S+1),glm::findNSB(u0,hide(S+1)));
	if constexpr(S>=1){ CMP("ceilMultiple(x,literal)",glm::ceilMultiple((T)(in.v[1]>>2),(T)S),glm::ceilMultiple((T)(in.v[1]>>2),hide((T)S))); CMP("floorMultiple(x,literal)",glm::floorMultiple((T)(in.v[1]>>2),(T)S),glm::floorMultiple((T)(in.v[1]>>2),hide((T)S)));
		CMP("roundMultiple(x,literal)",glm::roundMultiple((T)(in.v[1]>>2),(T)S),glm::roundMultiple((T)(in.v[1]>>2),hide((T)S))); CMP("isMultiple(x,literal)",glm::isMultiple((U)in.v[2],(U)S),glm::isMultiple((U)in.v[2],hide((U)S))); }
}
template<class T,size_t... I> static void bf_all(const In4<T>& in,vf::Ctx& c,std::index_sequence<I...>){ constexpr int W=(int)sizeof(T)*8+1; int expand[]={ (bf_one<T,(int)(I/W),(int)(I%W)>(in,c),0)... }; (void)expand;   /* pack expansion in a braced list: no fold-expression nesting limit */ }
template<class T,size_t... I> static void sh_all(const In4<T>& in,vf::Ctx& c,std::index_sequence<I...>){ int expand[]={ (sh_one<T,(int)I>(in,c),0)... }; (void)expand; }
VF_OP(literal_args_i32, In4<i32>, "iiiiu"){ bf_all<i32>(in,c,std::make_index_sequence<33*33>()); sh_all<i32>(in,c,std::make_index_sequence<32>()); }
VF_OP(literal_args_u32, In4<u32>, "uuuuu"){ bf_all<u32>(in,c,std::make_index_sequence<33*33>()); }
// (8/16-bit bitfieldExtract/Insert do not compile on this tree: not instantiable)
// literal first arguments too (everything constant): a handful of fixed values per function
#define LIT1(NAME,F,...) CMP(NAME,F(__VA_ARGS__),F##_h(__VA_ARGS__))
VF_OP(literal_values_i32, In4<i32>, "iiiiu"){
#define ALLC(X,O,B) CMP("bitfieldExtract(literal,literal,literal)",glm::bitfieldExtract((i32)(X),O,B),glm::bitfieldExtract(hide((i32)(X)),hide(O),hide(B))); CMP("bitfieldInsert(literal,literal,literal,literal)",glm::bitfieldInsert((i32)(X),(i32)~(X),O,B),glm::bitfieldInsert(hide((i32)(X)),hide((i32)~(X)),hide(O),hide(B)));
	ALLC(0x3FD,0,10) ALLC(0x3FD,0,9) ALLC(-1,0,31) ALLC(-1,0,32) ALLC(0x80000000,31,1) ALLC(0x7fffffff,1,30) ALLC(0x12345678,4,8) ALLC(0xF0,4,4) ALLC(0xF0,0,8) ALLC(0xFF,0,8) ALLC(0x80,0,8) ALLC(0x8000,0,16) ALLC(0,0,0) ALLC(-1,32,0)
	CMP("findMSB(literal)",glm::findMSB(-1),glm::findMSB(hide(-1))); CMP("findMSB(literal)",glm::findMSB(0),glm::findMSB(hide(0))); CMP("findMSB(literal)",glm::findMSB((i32)0x80000000),glm::findMSB(hide((i32)0x80000000))); CMP("findLSB(literal)",glm::findLSB(0),glm::findLSB(hide(0)));
	CMP("bitCount(literal)",glm::bitCount((signed char)-128),glm::bitCount(hide((signed char)-128))); CMP("bitCount(literal)",glm::bitCount((short)-1),glm::bitCount(hide((short)-1))); CMP("bitCount(literal)",glm::bitCount(-1),glm::bitCount(hide(-1)));
	CMP("bitfieldReverse(literal)",glm::bitfieldReverse(1u),glm::bitfieldReverse(hide(1u))); CMP("log2(literal)",glm::log2(1024),glm::log2(hide(1024))); CMP("isPowerOfTwo(literal)",glm::isPowerOfTwo(64),glm::isPowerOfTwo(hide(64))); CMP("ceilPowerOfTwo(literal)",glm::ceilPowerOfTwo(65),glm::ceilPowerOfTwo(hide(65)));
	(void)in;
}
#endif

// ------------------------------------------------------------------------------------------------ common functions / operators with literal scalars (C11, C01, C03)
#if CONST_PROP==11
template<class T,int N,int D> static void sc_one(const In4<T>& in,vf::Ctx& c){
	typedef glm::vec<4,T,glm::defaultp> V4; typedef glm::vec<3,T,glm::defaultp> V3; typedef glm::vec<2,T,glm::defaultp> V2; typedef glm::qua<T,glm::defaultp> Qt; typedef glm::mat<4,4,T,glm::defaultp> M4; typedef glm::mat<3,3,T,glm::defaultp> M3;
	constexpr T K=(T)N/(T)D; const T k=hide(K);
	V4 v(in.v[0],in.v[1],in.v[2],in.v[3]); V3 v3(in.v[0],in.v[1],in.v[2]); V2 v2(in.v[2],in.v[3]); Qt q=Qt::wxyz(in.v[0],in.v[1],in.v[2],in.v[3]); M4 m(v,V4(in.v[1],in.v[2],in.v[3],in.v[0]),V4(in.v[2],in.v[3],in.v[0],in.v[1]),V4(in.v[3],in.v[0],in.v[1],in.v[2])); M3 m3(m);
	const T x=in.v[0];
	CMP("mod(x,literal)",glm::mod(x,K),glm::mod(x,k)); CMP("mod(vec4,literal)",glm::mod(v,K),glm::mod(v,k)); CMP("mod(vec3,literal)",glm::mod(v3,K),glm::mod(v3,k)); CMP("mod(literal,literal)",glm::mod((T)(K*3),K),glm::mod(hide((T)(K*3)),k)); CMP("mod(literal,literal)",glm::mod((T)(-K*3),K),glm::mod(hide((T)(-K*3)),k)); CMP("mod(literal,literal)",glm::mod(K,K),glm::mod(k,k));
	CMP("vec4/literal",v/K,v/k); CMP("vec3/literal",v3/K,v3/k); CMP("vec2/literal",v2/K,v2/k); CMP("vec4*literal",v*K,v*k); CMP("literal/vec4",K/v,k/v); CMP("vec4+literal",v+K,v+k); CMP("literal-vec3",K-v3,k-v3);
	{ V4 a=v,b=v; a/=K; b/=k; CMP("vec4/=literal",a,b); } { V3 a=v3,b=v3; a*=K; b*=k; CMP("vec3*=literal",a,b); }
	CMP("quat/literal",q/K,q/k); CMP("quat*literal",q*K,q*k); { Qt a=q,b=q; a/=K; b/=k; CMP("quat/=literal",a,b); } { Qt a=q,b=q; a*=K; b*=k; CMP("quat*=literal",a,b); }
	CMP("mat4/literal",m/K,m/k); CMP("mat4*literal",m*K,m*k); CMP("literal/mat3",K/m3,k/m3); { M4 a=m,b=m; a/=K; b/=k; CMP("mat4/=literal",a,b); } { M3 a=m3,b=m3; a*=K; b*=k; CMP("mat3*=literal",a,b); }
	CMP("min(vec4,literal)",glm::min(v,K),glm::min(v,k)); CMP("max(vec3,literal)",glm::max(v3,K),glm::max(v3,k)); CMP("clamp(vec4,-literal,literal)",glm::clamp(v,-glm::abs(K),glm::abs(K)),glm::clamp(v,-glm::abs(k),glm::abs(k))); CMP("step(literal,vec4)",glm::step(K,v),glm::step(k,v));
	CMP("mix(vec4,vec4,literal)",glm::mix(v,V4(in.v[3],in.v[2],in.v[1],in.v[0]),K),glm::mix(v,V4(in.v[3],in.v[2],in.v[1],in.v[0]),k)); CMP("mix(x,y,literal)",glm::mix(x,in.v[1],K),glm::mix(x,in.v[1],k));
	CMP("smoothstep(0,literal,vec4)",glm::smoothstep((T)0,(K>0?K:-K),v),glm::smoothstep(hide((T)0),hide((T)(K>0?K:-K)),v)); CMP("smoothstep(0,literal,x)",glm::smoothstep((T)0,(K>0?K:-K),x),glm::smoothstep(hide((T)0),hide((T)(K>0?K:-K)),x)); CMP("smoothstep(-literal,literal,vec4)",glm::smoothstep(-glm::abs(K)-(T)1,glm::abs(K),v),glm::smoothstep(-glm::abs(k)-(T)1,glm::abs(k),v)); CMP("fma(vec4,literal,literal)",glm::fma(v,V4(K),V4(K)),glm::fma(v,V4(k),V4(k)));
	// (no libm call with a literal argument: the compiler itself rewrites pow(x,2.0) into x*x and folds exp2/log2 of literals correctly rounded, which libm is not - that difference is not glm's)
	CMP("fmin(vec4,literal)",glm::fmin(v,K),glm::fmin(v,k)); CMP("fclamp(x,-literal,literal)",glm::fclamp(x,-glm::abs(K),glm::abs(K)),glm::fclamp(x,-glm::abs(k),glm::abs(k)));
	if constexpr(D==1 && N>0 && N<200){ typedef glm::vec<4,int,glm::defaultp> I4; CMP("ldexp(x,literal)",glm::ldexp(x,N),glm::ldexp(x,hide(N))); CMP("ldexp(vec4,literal)",glm::ldexp(v,I4(N)),glm::ldexp(v,I4(hide(N)))); CMP("ldexp(x,-literal)",glm::ldexp(x,-N),glm::ldexp(x,hide(-N)));
		CMP("ceilMultiple(x,literal)",glm::ceilMultiple(x,K),glm::ceilMultiple(x,k)); CMP("floorMultiple(vec4,literal)",glm::floorMultiple(v,V4(K)),glm::floorMultiple(v,V4(k))); CMP("roundMultiple(x,literal)",glm::roundMultiple(x,K),glm::roundMultiple(x,k)); }
	// everything literal
	CMP("round(literal)",glm::round(K),glm::round(k)); CMP("roundEven(literal+0.5)",glm::roundEven((T)(K+(T)0.5)),glm::roundEven(hide((T)(K+(T)0.5)))); CMP("fract(literal)",glm::fract(K),glm::fract(k)); CMP("floor(literal)",glm::floor(K),glm::floor(k)); CMP("sign(literal)",glm::sign(K),glm::sign(k));
	CMP("sqrt(|literal|)",glm::sqrt(glm::abs(K)),glm::sqrt(glm::abs(k))); CMP("inversesqrt(|literal|)",glm::inversesqrt(glm::abs(K)),glm::inversesqrt(glm::abs(k)));
	CMP("repeat(literal)",glm::repeat(K),glm::repeat(k)); CMP("mirrorRepeat(literal)",glm::mirrorRepeat(K),glm::mirrorRepeat(k)); CMP("normalize(vec3(literal,1,2))",glm::normalize(V3(K,(T)1,(T)2)),glm::normalize(V3(k,hide((T)1),hide((T)2)))); CMP("length(vec2(literal,literal))",glm::length(V2(K,K)),glm::length(V2(k,k)));
}
template<class T> static void sc_all(const In4<T>& in,vf::Ctx& c){
	sc_one<T,3,1>(in,c); sc_one<T,7,1>(in,c); sc_one<T,10,1>(in,c); sc_one<T,49,1>(in,c); sc_one<T,360,1>(in,c); sc_one<T,1000,1>(in,c); sc_one<T,3,10>(in,c); sc_one<T,1,10>(in,c); sc_one<T,1,3>(in,c); sc_one<T,2,1>(in,c); sc_one<T,1,2>(in,c);
	sc_one<T,-7,1>(in,c); sc_one<T,1,1000>(in,c); sc_one<T,1,1>(in,c); sc_one<T,128,1>(in,c); sc_one<T,130,1>(in,c); sc_one<T,-3,4>(in,c); sc_one<T,5,3>(in,c); sc_one<T,255,1>(in,c); sc_one<T,1,255>(in,c); sc_one<T,22,7>(in,c);
}
VF_OP(literal_scalar_f32, In4<float>, "ffffu"){ sc_all<float>(in,c); }
VF_OP(literal_scalar_f64, In4<double>, "ddddu"){ sc_all<double>(in,c); }
#endif

// ------------------------------------------------------------------------------------------------ workload
static void workload(){
	u64 n=vf::N(3000,300000);
	vf::parallel("constarg",[&](int t,int TT,vf::Ctx& c){ for(u64 i=t;i<n;i+=TT){
#if CONST_PROP==5
		In4<i32> a; In4<u32> b; In4<short> s; for(int k=0;k<4;k++){ int m=(int)(c.rng.next()%4); u32 r= m==0? (u32)c.rng.next(): m==1? 0xffffffffu>>c.rng.below(32): m==2? 0x80000000u>>c.rng.below(32): ~(0x80000000u>>c.rng.below(32)); a.v[k]=(i32)r; b.v[k]=r^(u32)(c.rng.next()); s.v[k]=(short)(r>>(k*4)); } a.sel=b.sel=s.sel=0;
		vf::run(c,literal_args_i32,a); vf::run(c,literal_args_u32,b); if(i<16) vf::run(c,literal_values_i32,a);
#elif CONST_PROP==11
		In4<float> f; In4<double> d; for(int k=0;k<4;k++){ int m=(int)(c.rng.next()%5); double v= m==0? (double)c.rng.range(-2000,2000): m==1? c.rng.uniform(-4,4): m==2? c.rng.logmag(-8,8): m==3? (double)c.rng.range(-40,40)*49.0: (double)c.rng.range(-30,30)*0.3; if(v==0) v=1.25; f.v[k]=(float)v; d.v[k]=v; } f.sel=d.sel=0;
		vf::run(c,literal_scalar_f32,f); vf::run(c,literal_scalar_f64,d);
#endif
	} });
	vf::note("qualifier_class",QN); vf::note("optimisation","the unit must be built with optimisation (constant propagation into the inlined glm code is the point)");
}
VF_MAIN("constarg")
