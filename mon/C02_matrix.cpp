// C02 — matrix operators/functions implement the textbook column-major definitions for all nine shapes.
// oracle = triple-loop / per-element reference on plain arrays (no glm code):
//   integers: exact arithmetic in 128 bits; judged when every product and partial sum fits the element type
//             (u32/u64 additionally modulo 2^n, where C++ defines the wrap-around);
//   float/double whose entries are small integers: the exact value (compared by value, so +0 == -0);
//   general float/double: |got - exact| <= 2K*u*sum|a||b| + (K+1)*min_subnormal (K = number of products of the element);
//   copies (conversions, transpose, access, constructors): bit-identical (any NaN == any NaN).
// Built in parts (-DPART=1..4) and type sets (-DTYPESET=1..3); -DC02_ALIGNED uses the aligned_* qualifiers (SIMD builds).
#include "vf.hpp"
#include "ref.hpp"
#include <glm/glm.hpp>
#include <glm/ext/matrix_integer.hpp>
#include <glm/gtc/matrix_access.hpp>
#include <glm/gtx/matrix_operation.hpp>
#include <glm/gtx/matrix_major_storage.hpp>
#include <glm/gtx/matrix_cross_product.hpp>
#if defined(C02_ALIGNED)
#include <glm/gtc/type_aligned.hpp>
#endif
#include <limits>
#include <utility>
using namespace ref;

#ifndef PART
#define PART 1
#endif
#ifndef TYPESET
#define TYPESET 1
#endif
#ifndef NQ
#define NQ 3
#endif

// ------------------------------------------------------------------ qualifiers under test
#if defined(C02_ALIGNED)
static constexpr glm::qualifier QUALS[3]={glm::aligned_highp,glm::aligned_mediump,glm::aligned_lowp};
static const char* const QN[3]={"aligned_highp","aligned_mediump","aligned_lowp"};
#else
static constexpr glm::qualifier QUALS[3]={glm::packed_highp,glm::packed_mediump,glm::packed_lowp};
static const char* const QN[3]={"highp","mediump","lowp"};
#endif
template<glm::qualifier Q_> struct QT { static constexpr glm::qualifier Q=Q_; };
template<class F> static inline void with_qual(int q,F&& f){
	switch(((q%NQ)+NQ)%NQ){
		case 0: f(QT<QUALS[0]>()); break;
#if NQ>1
		case 1: f(QT<QUALS[1]>()); break;
#endif
#if NQ>2
		case 2: f(QT<QUALS[2]>()); break;
#endif
	}
}
template<int C_,int R_> struct Sh { static constexpr int C=C_, R=R_; };
template<int N_> struct Nn { static constexpr int N=N_; };
static inline int modn(int v,int n){ return ((v%n)+n)%n; }
// shape index i = (C-2)*3 + (R-2)
template<class F> static inline void with_shape(int i,F&& f){
	switch(modn(i,9)){
		case 0: f(Sh<2,2>()); break; case 1: f(Sh<2,3>()); break; case 2: f(Sh<2,4>()); break;
		case 3: f(Sh<3,2>()); break; case 4: f(Sh<3,3>()); break; case 5: f(Sh<3,4>()); break;
		case 6: f(Sh<4,2>()); break; case 7: f(Sh<4,3>()); break; case 8: f(Sh<4,4>()); break;
	}
}
template<class F> static inline void with_n(int i,F&& f){ switch(modn(i,3)){ case 0: f(Nn<2>()); break; case 1: f(Nn<3>()); break; case 2: f(Nn<4>()); break; } }
static inline std::string shname(int C,int R){ return std::string("mat")+char('0'+C)+"x"+char('0'+R); }

// ------------------------------------------------------------------ input record: selector, aux (qualifier | index<<2), operands
template<class T> struct In { i32 sel; i32 aux; T a[16]; T b[16]; T s[4]; };
#define REP4(c) c c c c
#define REP36(c) REP4(c) REP4(c) REP4(c) REP4(c) REP4(c) REP4(c) REP4(c) REP4(c) REP4(c)

template<int C,int R,class T,glm::qualifier Q> static inline glm::mat<C,R,T,Q> ldm(const T* p){ glm::mat<C,R,T,Q> m; for(int c=0;c<C;c++) for(int r=0;r<R;r++) m[c][r]=p[c*R+r]; return m; }
template<int C,int R,class T,glm::qualifier Q> static inline void stm(const glm::mat<C,R,T,Q>& m,T* p){ for(int c=0;c<C;c++) for(int r=0;r<R;r++) p[c*R+r]=m[c][r]; }
template<int L,class T,glm::qualifier Q> static inline glm::vec<L,T,Q> ldv(const T* p){ glm::vec<L,T,Q> v; for(int i=0;i<L;i++) v[i]=p[i]; return v; }
template<int L,class T,glm::qualifier Q> static inline void stv(const glm::vec<L,T,Q>& v,T* p){ for(int i=0;i<L;i++) p[i]=v[i]; }

// ------------------------------------------------------------------ per-element oracle result
static const char* const W_EXACT="exact-domain:element-differs-from-definition";
static const char* const W_ROUND="rounding-domain:error-exceeds-rounding-bound";
static const char* const W_MOD="modular-domain:element-differs-from-definition-mod-2^n";
static const char* const W_COPY="copy:element-not-copied";
static const char* const W_PADDING="identity-padding:element-differs";
static const char* const W_UNTOUCHED="other-element-modified";
enum { D_NONE=-1, D_VALUE=0, D_TOL=1, D_BITS=3 };
template<class T> struct W { int dom=D_NONE; const char* what=W_EXACT; T want=T(); __float128 center=0; long double bound=0; const char* cls="unjudged"; };
template<class T> static constexpr bool is_fp=std::is_floating_point<T>::value;
template<class T> static inline long double minsub(){ if constexpr(is_fp<T>) return (long double)std::numeric_limits<T>::denorm_min(); else return 0; }
template<class T> static inline long double tmax(){ return (long double)std::numeric_limits<T>::max(); }
template<class T> static inline T small_lim(){ if constexpr(std::is_same<T,float>::value) return 1024.0f; else if constexpr(std::is_same<T,double>::value) return 16777216.0; else return T(); }
template<class T> static inline bool small_int(T x){ if constexpr(is_fp<T>) return std::fabs(x)<=small_lim<T>() && x==(T)(long long)x; else return true; }
template<class T> static inline bool all_small(const T* p,int n){ for(int i=0;i<n;i++) if(!small_int(p[i])) return false; return true; }
template<class T> static inline bool all_finite(const T* p,int n){ if constexpr(is_fp<T>){ for(int i=0;i<n;i++) if(!isfinite_b(p[i])) return false; } return true; }
// no <quadmath.h> (clang has none): absolute value and printing of __float128 done by hand
static inline __float128 fabsq(__float128 x){ return x<0? -x: x; }
static inline std::string showq(__float128 x){ long double hi=(long double)x, lo=(long double)(x-(__float128)hi); char b[96]; snprintf(b,sizeof b,"%.21Lg%+.3Lg",hi,lo); return b; }

// sum of products / plain terms of one result element
template<class T,bool FP=is_fp<T>> struct Elem;
template<class T> struct Elem<T,true> {
	__float128 sum=0,S=0; int n=0; bool fin=true;
	void mul(T a,T b){ if(!isfinite_b(a)||!isfinite_b(b)){ fin=false; return; } __float128 p=(__float128)a*(__float128)b; sum+=p; S+=fabsq(p); n++; }
	void add(T a){ if(!isfinite_b(a)){ fin=false; return; } sum+=a; S+=fabsq((__float128)a); n++; }
	void sub(T a){ if(!isfinite_b(a)){ fin=false; return; } sum-=a; S+=fabsq((__float128)a); n++; }
	// small: every operand of the operation is a small integer (the exact result is then representable and every partial sum too)
	W<T> fin_(bool small) const {
		W<T> w; if(!fin) return w;
		if(small){ w.dom=D_VALUE; w.what=W_EXACT; w.want=(T)sum; w.cls="exact"; return w; }
		if((long double)S>=tmax<T>()/4) return w;              // intermediate overflow possible: outside the domain
		w.dom=D_TOL; w.what=W_ROUND; w.center=sum; w.cls="rounding"; w.want=(T)sum;
		w.bound=2.0L*n*uround<T>()*(long double)S+(n+1)*minsub<T>(); return w;
	}
};
template<class T> struct Elem<T,false> {
	typedef typename std::make_unsigned<T>::type U;
	u128 usum=0,S=0; bool sat=false;
	static u128 mag(T a){ if constexpr(std::is_signed<T>::value){ i128 v=a; return (u128)(v<0?-v:v); } else return (u128)a; }
	static u128 wide(T a){ if constexpr(std::is_signed<T>::value) return (u128)(i128)a; else return (u128)a; }
	void accS(u128 p){ if(S+p<S) sat=true; S+=p; }
	void mul(T a,T b){ usum+=wide(a)*wide(b); accS(mag(a)*mag(b)); }
	void add(T a){ usum+=wide(a); accS(mag(a)); }
	void sub(T a){ usum-=wide(a); accS(mag(a)); }
	W<T> fin_(bool) const {
		W<T> w;
		if(!sat && S<=(u128)std::numeric_limits<T>::max()){
			// for unsigned types a negative exact value is not representable
			i128 v=(i128)usum; if(!std::is_signed<T>::value && v<0) { /* fallthrough to modular */ }
			else { w.dom=D_VALUE; w.what=W_EXACT; w.want=(T)v; w.cls="exact"; return w; }
		}
		if(!std::is_signed<T>::value && sizeof(T)>=4){ w.dom=D_VALUE; w.what=W_MOD; w.want=(T)(U)usum; w.cls="modular"; return w; }
		return w;
	}
};
template<class T> static inline W<T> w_bits(T v,const char* what=W_COPY){ W<T> w; w.dom=D_BITS; w.what=what; w.want=v; w.cls="copy"; return w; }
// single IEEE operation on floating point: the definition itself, compared by value
template<class T> static inline W<T> w_value(T v){ W<T> w; w.dom=D_VALUE; w.what=W_EXACT; w.want=v; w.cls="single-operation"; return w; }

template<class T> static inline bool veq(T g,T w){ if constexpr(is_fp<T>){ if(isnan_b(g)||isnan_b(w)) return isnan_b(g)&&isnan_b(w); return g==w; } else return g==w; }

// label of the evaluated overload: printf pattern over up to four integers + qualifier name; R = rows of the result (0: vector result)
struct Lab { const char* fmt; int v0,v1,v2,v3; int q; int R; };
static std::string lab_str(const Lab& l){ char b[160]; snprintf(b,sizeof b,l.fmt,l.v0,l.v1,l.v2,l.v3); return std::string(b)+":"+QN[l.q]; }
static std::string pos_str(const Lab& l,int i){ char b[32]; if(l.R>0) snprintf(b,sizeof b,"[%d][%d]",i/l.R,i%l.R); else snprintf(b,sizeof b,"[%d]",i); return b; }
template<class T> __attribute__((noinline))
static void judge(vf::Ctx& c,int n,const T* got,const W<T>* w,const Lab& lab){
	const char* reported[6]; int nrep=0; const char* cl="unjudged"; double maxr=-1;
	for(int i=0;i<n;i++){
		const W<T>& x=w[i]; bool ok=true;
		switch(x.dom){
			case D_NONE: continue;
			case D_VALUE: ok=veq(got[i],x.want); break;
			case D_BITS: ok=same(got[i],x.want); break;
			case D_TOL: if constexpr(is_fp<T>){
				if(same(got[i],x.want)) { if(maxr<0) maxr=0; break; }
				if(!isfinite_b(got[i])){ ok=false; break; }
				long double err=(long double)fabsq((__float128)got[i]-x.center);
				{ double rr= x.bound>0? (double)(err/x.bound): (err>0?1e300:0.0); if(rr>maxr) maxr=rr; }
				ok= err<=x.bound; } break;
		}
		cl=x.cls;
		if(ok) continue;
		bool dup=false; for(int k=0;k<nrep;k++) if(reported[k]==x.what) dup=true;
		if(dup||nrep>=6) continue;
		reported[nrep++]=x.what;
		std::string ws=vf::show(x.want); if(x.dom==D_TOL) ws="exact "+showq(x.center)+" +- "+vf::show(x.bound);
		c.fail(lab_str(lab)+":"+x.what, pos_str(lab,i)+"="+vf::show(got[i]), pos_str(lab,i)+"="+ws);
	}
	c.cls(cl); if(maxr>=0) c.ratio("err/bound",maxr);
}

// ------------------------------------------------------------------ value generation
enum Fam { F_PROD, F_ADD, F_SUB, F_RSUB, F_NEG, F_DIV, F_RDIV, F_COPY, F_EQ };
static const int PRIMES[36]={2,3,5,7,11,13,17,19,23,29,31,37,41,43,47,53,59,61,67,71,73,79,83,89,97,101,103,107,109,113,127,131,137,139,149,151};
template<class T> static inline T prod_lim(){
	if constexpr(is_fp<T>) return small_lim<T>();
	else { long double m=tmax<T>()/4; T l=(T)std::sqrt(m); while((long double)l*l>m) l--; return l; }
}
template<class T> static inline T rnd_in(vf::Rng& r,T lo,T hi){ // uniform integer in [lo,hi] (as T)
	if constexpr(is_fp<T>) return (T)((long long)lo+(long long)r.below((u64)((long long)hi-(long long)lo+1)));
	else { typedef typename std::make_unsigned<T>::type U; U span=(U)((U)hi-(U)lo); u64 k= span==(U)~U(0)? r.next() : r.below((u64)span+1); return (T)((U)lo+(U)k); }
}
template<class T> static inline T sym(vf::Rng& r,T L){ if constexpr(std::is_signed<T>::value||is_fp<T>) return rnd_in<T>(r,(T)-L,L); else return rnd_in<T>(r,0,L); }
template<class T> static inline T anyfp(vf::Rng& r,const std::vector<T>& L){
	int m=(int)r.below(6);
	if constexpr(std::is_same<T,float>::value) return m<2? L[r.below(L.size())]: m==2? r.fbits(): m==3? (float)r.logmag(-30,30): m==4? (float)r.range(-50,50): (float)r.uniform(-1000,1000);
	else return m<2? L[r.below(L.size())]: m==2? (T)r.dbits(): m==3? (T)r.logmag(-200,200): m==4? (T)r.range(-50,50): (T)r.uniform(-1000,1000);
}
template<class T> static inline T anyint(vf::Rng& r,const std::vector<T>& L){ int m=(int)r.below(5); u64 x=r.next(); return m<2? L[r.below(L.size())]: m==2? (T)x: m==3? (T)(x>>(r.next()%64)): (T)(x%23); }
template<class T> static const std::vector<T>& lattice(){ static const std::vector<T> L=[]{ if constexpr(is_fp<T>) return lattice_of<T>::get(); else return int_lattice<T>(); }(); return L; }
template<class T> static inline T anyval(vf::Rng& r){ if constexpr(is_fp<T>) return anyfp<T>(r,lattice<T>()); else return anyint<T>(r,lattice<T>()); }
template<class T> static inline T finite_fp(vf::Rng& r,int wide){ // rounding-domain magnitudes (no overflow in sums of 4 products)
	if constexpr(std::is_same<T,float>::value){ int m=(int)r.below(4); return m==0? (float)r.uniform(-2,2): m==1? (float)r.logmag(-8,8): wide? (float)r.logmag(-70,55): (float)r.logmag(-20,20); }
	else if constexpr(std::is_same<T,double>::value){ int m=(int)r.below(4); return m==0? r.uniform(-2,2): m==1? r.logmag(-8,8): wide? r.logmag(-520,480): r.logmag(-60,60); }
	else return T();
}

template<class T> static void gen(vf::Rng& r,int fam,int mode,int ea,int eb,In<T>& x){
	const bool sgn=std::is_signed<T>::value||is_fp<T>;
	const T MAXI= is_fp<T>? (T)1000000: std::numeric_limits<T>::max();
	auto each=[&](auto f){ for(int i=0;i<16;i++){ x.a[i]=f(0,i); x.b[i]=f(1,i);} for(int i=0;i<4;i++) x.s[i]=f(2,i); };
	switch(fam){
	case F_PROD: {
		T L=prod_lim<T>();
		auto tags=[&](){ int perm[36]; for(int i=0;i<36;i++) perm[i]=i; for(int i=35;i>0;i--){ int j=(int)r.below(i+1); std::swap(perm[i],perm[j]); }
			each([&](int w,int i){ int k=perm[w*16+i]; T v= ((long double)L>=151)? (T)PRIMES[k]: (T)(1+(k%(int)L)); if(sgn&&r.coin()) v=(T)-v; return v; }); };
		if(mode==0) tags();
		else if(mode==1){ tags(); T one=(T)1; if(sgn&&r.below(4)==0) one=(T)-1;
			if(r.coin()||eb<=0){ for(int i=0;i<16;i++) x.a[i]=0; x.a[r.below(ea>0?ea:1)]=one; } else { for(int i=0;i<16;i++) x.b[i]=0; x.b[r.below(eb)]=one; } }
		else if(mode==2){ static const int RL[5]={1,2,3,10,0}; int k=(int)r.below(5); T Lr= RL[k]&&(long double)RL[k]<=(long double)L? (T)RL[k]: L; each([&](int,int){ return sym<T>(r,Lr); }); }
		else {
			if constexpr(is_fp<T>){ int wide=(int)r.below(3)==0; each([&](int,int){ return finite_fp<T>(r,wide); }); }
			else if constexpr(!std::is_signed<T>::value && sizeof(T)>=4){ each([&](int,int){ return anyint<T>(r,lattice<T>()); }); }
			else { each([&](int,int){ return r.below(3)==0? (T)0: sym<T>(r,L); }); }
		}
	} break;
	case F_ADD: case F_SUB: case F_RSUB: case F_NEG: {
		if constexpr(is_fp<T>){ if(mode==0) each([&](int,int i){ T v=(T)PRIMES[i%36]; return r.coin()? v:(T)-v; }); else if(mode==1) each([&](int,int){ return finite_fp<T>(r,1); }); else each([&](int,int){ return anyval<T>(r); }); }
		else {
			T H=(T)(MAXI/2);
			if(mode==3 && !std::is_signed<T>::value && sizeof(T)>=4){ each([&](int,int){ return anyint<T>(r,lattice<T>()); }); break; }
			T lim= mode==0? (T)(H<100?H:100): H;
			if(std::is_signed<T>::value) each([&](int,int){ return sym<T>(r,lim); });
			else if(fam==F_ADD) each([&](int,int){ return rnd_in<T>(r,0,lim); });
			else if(fam==F_SUB) each([&](int w,int){ return w==0? (T)(MAXI-rnd_in<T>(r,0,lim)): rnd_in<T>(r,0,lim); });     // a >= b, a >= s
			else if(fam==F_RSUB) each([&](int w,int){ return w==2? (T)(MAXI-rnd_in<T>(r,0,lim)): rnd_in<T>(r,0,lim); });   // s >= a
			else each([&](int,int){ return r.coin()? (T)0: rnd_in<T>(r,0,lim); });
		}
	} break;
	case F_DIV: case F_RDIV: {
		if constexpr(is_fp<T>){
			if(mode==0) each([&](int w,int i){ T v=(T)PRIMES[(i+w*16)%36]; return r.coin()? v:(T)-v; });
			else if(mode==1) each([&](int,int){ T v=(T)r.range(-64,64); return v==0? (T)3: v; });
			else each([&](int,int){ T v=finite_fp<T>(r,0); return v==0? (T)1.5: v; });
		} else {
			auto num=[&](){ T v= mode<2? sym<T>(r,(T)(MAXI<1000?MAXI:1000)): anyint<T>(r,lattice<T>()); if(std::is_signed<T>::value && v==std::numeric_limits<T>::min()) v=(T)(v+1); return v; };
			auto den=[&](){ T v= mode==0? sym<T>(r,(T)7): mode==1? sym<T>(r,(T)(MAXI<100?MAXI:100)): (r.coin()? (T)(r.next()>>(r.next()%64)): anyint<T>(r,lattice<T>())); if(v==0) v=(T)(1+r.below(5)); return v; };
			if(fam==F_DIV) each([&](int w,int){ return w==0? num(): den(); }); else each([&](int w,int){ return w==2? num(): den(); });
		}
	} break;
	case F_COPY: case F_EQ: {
		if(mode==0) each([&](int w,int i){ T v=(T)(PRIMES[(w*16+i)%36]%127); if(sgn&&r.coin()) v=(T)-v; return v; });
		else each([&](int,int){ return anyval<T>(r); });
		if(fam==F_EQ){ for(int i=0;i<16;i++) x.b[i]=x.a[i];
			int m=(int)r.below(4);
			if(m==1||m==2){ int i=(int)r.below(ea>0?ea:1); T v=anyval<T>(r); if(m==2){ if constexpr(is_fp<T>) v=(T)(x.a[i]+(T)1); else v=(T)((typename std::make_unsigned<T>::type)x.a[i]+1u); } x.b[i]=v; }
			if(m==3) for(int i=0;i<16;i++) if(r.below(8)==0) x.b[i]=anyval<T>(r); }
	} break;
	}
}

// ------------------------------------------------------------------ jobs
typedef void (*DimFn)(int sel,int& ea,int& eb);
static void d_prod(int sel,int& ea,int& eb){ int K=2+(sel/3)/3,R=2+(sel/3)%3,C=2+sel%3; ea=K*R; eb=C*K; }
static void d_shape(int sel,int& ea,int& eb){ int C=2+sel/3,R=2+sel%3; ea=C*R; eb=C*R; }
static void d_mv(int sel,int& ea,int& eb){ int C=2+sel/3,R=2+sel%3; ea=C*R; eb=C; }
static void d_vm(int sel,int& ea,int& eb){ int C=2+sel/3,R=2+sel%3; ea=C*R; eb=R; }
static void d_sq(int sel,int& ea,int& eb){ int n=2+sel; ea=n*n; eb=n*n; }
static void d_conv(int sel,int& ea,int& eb){ int s=sel/9; int C=2+s/3,R=2+s%3; ea=C*R; eb=0; }
static void d_outer(int sel,int& ea,int& eb){ int C=2+sel/3,R=2+sel%3; ea=R; eb=C; }
static void d_vec3(int,int& ea,int& eb){ ea=3; eb=0; }
template<class T> struct Job { vf::Op* op; int fam; int nsel; DimFn dims; u64 nq,nt; };
template<class T> static std::vector<Job<T>>& jobs(){ static std::vector<Job<T>> j; return j; }
template<class T> struct Reg { Reg(vf::Op* op,int fam,int nsel,DimFn d,u64 nq=1000,u64 nt=100000){ jobs<T>().push_back(Job<T>{op,fam,nsel,d,nq,nt}); } };
template<class T> static void run_jobs(const char* label){
	auto& J=jobs<T>(); if(J.empty()) return;
	vf::parallel(label,[&](int t,int TT,vf::Ctx& c){
		for(auto& j: J){ if(!vf::want(*j.op)) continue; u64 n=vf::N(j.nq,j.nt); u64 cnt=0;
			for(int sel=0;sel<j.nsel;sel++){ int ea,eb; j.dims(sel,ea,eb);
				for(int q=0;q<NQ;q++) for(u64 i=0;i<n;i++,cnt++){ if((int)(cnt%TT)!=t) continue;
					In<T> x; memset(&x,0,sizeof x); x.sel=sel; x.aux=q|((int)c.rng.below(16)<<2);
					gen<T>(c.rng,j.fam,(int)((cnt/TT)%4),ea,eb,x); vf::run(c,*j.op,x); } } }
	});
}

#if TYPESET==1
#define TYPES(X,...) X(float,f32,"f",__VA_ARGS__) X(double,f64,"d",__VA_ARGS__) X(i32,i32,"i",__VA_ARGS__) X(u32,u32,"u",__VA_ARGS__)
#define RUN_ALL() run_jobs<float>("f32"); run_jobs<double>("f64"); run_jobs<i32>("i32"); run_jobs<u32>("u32");
#elif TYPESET==2
#define TYPES(X,...) X(i8,i8,"c",__VA_ARGS__) X(u8,u8,"b",__VA_ARGS__) X(i16,i16,"s",__VA_ARGS__) X(u16,u16,"h",__VA_ARGS__)
#define RUN_ALL() run_jobs<i8>("i8"); run_jobs<u8>("u8"); run_jobs<i16>("i16"); run_jobs<u16>("u16");
#else
#define TYPES(X,...) X(i64,i64,"l",__VA_ARGS__) X(u64,u64,"q",__VA_ARGS__)
#define RUN_ALL() run_jobs<i64>("i64"); run_jobs<u64>("u64");
#endif
#define DEF_OP(T,TN,FC,KIND,FAM,NSEL,DIMS,NQK,NT) \
	VF_OP(KIND##_##TN, In<T>, "ii" REP36(FC)){ chk_##KIND<T>(in,c); } static Reg<T> reg_##KIND##_##TN(&KIND##_##TN,FAM,NSEL,DIMS,NQK,NT);
#define OPS(KIND,FAM,NSEL,DIMS,NQK,NT) TYPES(DEF_OP,KIND,FAM,NSEL,DIMS,NQK,NT)

#define QOF(in) ((in).aux&3)
#define IDX(in) (((in).aux>>2)&3)

#define QI(in) modn(QOF(in),NQ)
// The templated part of every check only builds the glm operands, performs the glm operation and stores the result;
// references are computed with run-time loops on the plain input arrays.

// ================================================================== PART 1: products
#if PART==1
// (A*B)[c][r] = sum_k A[k][r]*B[c][k];  A = mat<K,R> (K columns, R rows), B = mat<C,K>, result mat<C,R>. sel = ((K-2)*3+(R-2))*3+(C-2)
template<class T,bool ASSIGN,bool SELF=false> static inline void prod_mm(const In<T>& in,vf::Ctx& c,int K,int R,int C){
	T got[16]; bool ret_ok=true;
	with_shape((K-2)*3+(R-2),[&](auto sa){ constexpr int K_=decltype(sa)::C, R_=decltype(sa)::R;
		with_n(C-2,[&](auto nc){ constexpr int C_=decltype(nc)::N;
			with_qual(QI(in),[&](auto qq){ constexpr glm::qualifier Q=decltype(qq)::Q;
				if constexpr(ASSIGN && !(K_==R_&&C_==K_)){ return; }
				else { glm::mat<K_,R_,T,Q> A=ldm<K_,R_,T,Q>(in.a); glm::mat<C_,K_,T,Q> B=ldm<C_,K_,T,Q>(in.b);
					if constexpr(ASSIGN && SELF){ auto&& ret=(A*=A); stm(A,got); ret_ok=(&ret==&A); (void)B; } else if constexpr(ASSIGN){ auto&& ret=(A*=B); stm(A,got); ret_ok=(&ret==&A); } else { glm::mat<C_,R_,T,Q> P=A*B; stm(P,got); } }
			}); }); });
	bool small=all_small(in.a,K*R)&&all_small(in.b,C*K); W<T> w[16];
	for(int cc=0;cc<C;cc++) for(int r=0;r<R;r++){ Elem<T> e; for(int k=0;k<K;k++) e.mul(in.a[k*R+r],in.b[cc*K+k]); w[cc*R+r]=e.fin_(small); }
	Lab lab{SELF?"mat%dx%d*=itself(mat%dx%d)":ASSIGN?"mat%dx%d*=mat%dx%d":"mat%dx%d*mat%dx%d",K,R,C,K,QI(in),R};
	if(!ret_ok) c.fail(lab_str(lab)+":compound-assignment-does-not-return-*this","other","*this");
	judge<T>(c,C*R,got,w,lab);
}
template<class T> static void chk_mul_mm(const In<T>& in,vf::Ctx& c){ int sel=modn(in.sel,27); prod_mm<T,false>(in,c,2+sel/9,2+(sel/3)%3,2+sel%3); }
template<class T> static void chk_mulassign_mm(const In<T>& in,vf::Ctx& c){ int n=2+modn(in.sel,3); prod_mm<T,true>(in,c,n,n,n); }
// the right operand aliases the left one: m *= m must still be the product of the OLD m with itself
template<class T> static void chk_mulassign_self(const In<T>& in0,vf::Ctx& c){ In<T> in=in0; for(int i=0;i<16;i++) in.b[i]=in.a[i]; int n=2+modn(in.sel,3); prod_mm<T,true,true>(in,c,n,n,n); }
// (M*v)[r] = sum_c M[c][r]*v[c]
template<class T> static void chk_mul_mv(const In<T>& in,vf::Ctx& c){
	int si=modn(in.sel,9), C=2+si/3, R=2+si%3; T got[4];
	with_shape(si,[&](auto sa){ constexpr int C_=decltype(sa)::C, R_=decltype(sa)::R;
		with_qual(QI(in),[&](auto qq){ constexpr glm::qualifier Q=decltype(qq)::Q;
			glm::mat<C_,R_,T,Q> M=ldm<C_,R_,T,Q>(in.a); glm::vec<C_,T,Q> v=ldv<C_,T,Q>(in.b); glm::vec<R_,T,Q> P=M*v; stv(P,got); }); });
	bool small=all_small(in.a,C*R)&&all_small(in.b,C); W<T> w[4];
	for(int r=0;r<R;r++){ Elem<T> e; for(int k=0;k<C;k++) e.mul(in.a[k*R+r],in.b[k]); w[r]=e.fin_(small); }
	judge<T>(c,R,got,w,Lab{"mat%dx%d*vec%d",C,R,C,0,QI(in),0});
}
// (v*M)[c] = sum_r v[r]*M[c][r]
template<class T> static void chk_mul_vm(const In<T>& in,vf::Ctx& c){
	int si=modn(in.sel,9), C=2+si/3, R=2+si%3; T got[4];
	// vec3*mat3x3 and vec4*mat4x4 are written with glm::dot, which static_asserts on integer element types: not instantiable on this tree (recorded, not judged)
	if(!is_fp<T> && C==R && C>=3){ c.cls("not-instantiable:integer-vec*mat-uses-dot"); return; }
	with_shape(si,[&](auto sa){ constexpr int C_=decltype(sa)::C, R_=decltype(sa)::R;
		with_qual(QI(in),[&](auto qq){ constexpr glm::qualifier Q=decltype(qq)::Q;
			if constexpr(!is_fp<T> && C_==R_ && C_>=3){ return; } else {
			glm::mat<C_,R_,T,Q> M=ldm<C_,R_,T,Q>(in.a); glm::vec<R_,T,Q> v=ldv<R_,T,Q>(in.b); glm::vec<C_,T,Q> P=v*M; stv(P,got); } }); });
	bool small=all_small(in.a,C*R)&&all_small(in.b,R); W<T> w[4];
	for(int cc=0;cc<C;cc++){ Elem<T> e; for(int r=0;r<R;r++) e.mul(in.b[r],in.a[cc*R+r]); w[cc]=e.fin_(small); }
	judge<T>(c,C,got,w,Lab{"vec%d*mat%dx%d",R,C,R,0,QI(in),0});
}
OPS(mul_mm,F_PROD,27,d_prod,1000,100000)
OPS(mulassign_mm,F_PROD,3,d_sq,2000,100000) OPS(mulassign_self,F_PROD,3,d_sq,2000,100000)
OPS(mul_mv,F_PROD,9,d_mv,1000,100000)
OPS(mul_vm,F_PROD,9,d_vm,1000,100000)
#endif

// ================================================================== PART 2: shape conversions, constructors, element access
#if PART==2
// dst(src): overlapping block copied, identity elsewhere. sel = src_shape*9 + dst_shape
template<class T> static void chk_convert(const In<T>& in,vf::Ctx& c){
	int sel=modn(in.sel,81); int C1=2+(sel/9)/3,R1=2+(sel/9)%3,C2=2+(sel%9)/3,R2=2+(sel%9)%3; T got[16];
	with_shape(sel/9,[&](auto ss){ constexpr int C1_=decltype(ss)::C, R1_=decltype(ss)::R;
		with_shape(sel%9,[&](auto sd){ constexpr int C2_=decltype(sd)::C, R2_=decltype(sd)::R;
			with_qual(QI(in),[&](auto qq){ constexpr glm::qualifier Q=decltype(qq)::Q;
				if constexpr(C1_==C2_&&R1_==R2_){
					// same shape: construction from the same shape with another qualifier (mat(mat<C,R,T,P> const&))
					constexpr glm::qualifier P= Q==QUALS[0]? QUALS[NQ>1?1:0]: QUALS[0];
					glm::mat<C1_,R1_,T,P> S2=ldm<C1_,R1_,T,P>(in.a); glm::mat<C2_,R2_,T,Q> D(S2); stm(D,got);
				} else { glm::mat<C1_,R1_,T,Q> S=ldm<C1_,R1_,T,Q>(in.a); glm::mat<C2_,R2_,T,Q> D(S); stm(D,got); }
			}); }); });
	W<T> w[16];
	for(int cc=0;cc<C2;cc++) for(int r=0;r<R2;r++) w[cc*R2+r]= (cc<C1&&r<R1)? w_bits<T>(in.a[cc*R1+r],W_COPY): w_bits<T>(cc==r?(T)1:(T)0,W_PADDING);
	judge<T>(c,C2*R2,got,w,Lab{"mat%dx%d(mat%dx%d)",C2,R2,C1,R1,QI(in),R2});
}
template<int C,int R,class T,glm::qualifier Q> static inline glm::mat<C,R,T,Q> from_elems(const T* p){
	if constexpr(C*R==4) return glm::mat<C,R,T,Q>(p[0],p[1],p[2],p[3]);
	else if constexpr(C*R==6) return glm::mat<C,R,T,Q>(p[0],p[1],p[2],p[3],p[4],p[5]);
	else if constexpr(C*R==8) return glm::mat<C,R,T,Q>(p[0],p[1],p[2],p[3],p[4],p[5],p[6],p[7]);
	else if constexpr(C*R==9) return glm::mat<C,R,T,Q>(p[0],p[1],p[2],p[3],p[4],p[5],p[6],p[7],p[8]);
	else if constexpr(C*R==12) return glm::mat<C,R,T,Q>(p[0],p[1],p[2],p[3],p[4],p[5],p[6],p[7],p[8],p[9],p[10],p[11]);
	else return glm::mat<C,R,T,Q>(p[0],p[1],p[2],p[3],p[4],p[5],p[6],p[7],p[8],p[9],p[10],p[11],p[12],p[13],p[14],p[15]);
}
template<int C,int R,class T,glm::qualifier Q> static inline glm::mat<C,R,T,Q> from_cols(const T* p){
	if constexpr(C==2) return glm::mat<C,R,T,Q>(ldv<R,T,Q>(p),ldv<R,T,Q>(p+R));
	else if constexpr(C==3) return glm::mat<C,R,T,Q>(ldv<R,T,Q>(p),ldv<R,T,Q>(p+R),ldv<R,T,Q>(p+2*R));
	else return glm::mat<C,R,T,Q>(ldv<R,T,Q>(p),ldv<R,T,Q>(p+R),ldv<R,T,Q>(p+2*R),ldv<R,T,Q>(p+3*R));
}
// constructors: mat(s) = s*identity; mat(x0,y0,...) column-major element list; mat(v0,v1,..) columns. sel = shape*3 + variant
template<class T> static void chk_construct(const In<T>& in,vf::Ctx& c){
	int sel=modn(in.sel,27); int var=sel%3, C=2+(sel/3)/3, R=2+(sel/3)%3; T got[16];
	with_shape(sel/3,[&](auto ss){ constexpr int C_=decltype(ss)::C, R_=decltype(ss)::R;
		with_qual(QI(in),[&](auto qq){ constexpr glm::qualifier Q=decltype(qq)::Q;
			if(var==0){ glm::mat<C_,R_,T,Q> M(in.s[0]); stm(M,got); }
			else if(var==1){ glm::mat<C_,R_,T,Q> M=from_elems<C_,R_,T,Q>(in.a); stm(M,got); }
			else { glm::mat<C_,R_,T,Q> M=from_cols<C_,R_,T,Q>(in.a); stm(M,got); }
		}); });
	W<T> w[16];
	if(var==0){ for(int cc=0;cc<C;cc++) for(int r=0;r<R;r++) w[cc*R+r]= cc==r? w_bits<T>(in.s[0],W_COPY): w_bits<T>((T)0,W_PADDING); }
	else for(int i=0;i<C*R;i++) w[i]=w_bits<T>(in.a[i]);
	judge<T>(c,C*R,got,w,Lab{var==0?"mat%dx%d(scalar)":var==1?"mat%dx%d(elements)":"mat%dx%d(columns)",C,R,0,0,QI(in),R});
}
// element access: the matrix is built with the element-list constructor (not with operator[]), then
//  variant 0: const m[c][r] for every (c,r); variant 1: const m[c] (whole column); variant 2: write m[c0][r0]=s, every other element unchanged; variant 3: write m[c0]=column
template<class T> static void chk_access(const In<T>& in,vf::Ctx& c){
	int sel=modn(in.sel,36); int var=sel%4, C=2+(sel/4)/3, R=2+(sel/4)%3; int c0=IDX(in)%C, r0=((in.aux>>4)&3)%R; T got[16]; bool len_ok=true;
	with_shape(sel/4,[&](auto ss){ constexpr int C_=decltype(ss)::C, R_=decltype(ss)::R;
		with_qual(QI(in),[&](auto qq){ constexpr glm::qualifier Q=decltype(qq)::Q;
			glm::mat<C_,R_,T,Q> M=from_elems<C_,R_,T,Q>(in.a); const glm::mat<C_,R_,T,Q>& CM=M;
			if(var==1){ for(int cc=0;cc<C_;cc++){ glm::vec<R_,T,Q> col=CM[cc]; stv(col,got+cc*R_); } return; }
			if(var==2) M[c0][r0]=in.s[0];
			if(var==3) M[c0]=ldv<R_,T,Q>(in.b);
			for(int cc=0;cc<C_;cc++) for(int r=0;r<R_;r++) got[cc*R_+r]=CM[cc][r];
			len_ok= M.length()==C_ && CM[0].length()==R_ && glm::mat<C_,R_,T,Q>::length()==C_;
		}); });
	W<T> w[16]; for(int i=0;i<C*R;i++) w[i]=w_bits<T>(in.a[i], var>=2? W_UNTOUCHED: W_COPY);
	if(var==2) w[c0*R+r0]=w_bits<T>(in.s[0]);
	if(var==3) for(int r=0;r<R;r++) w[c0*R+r]=w_bits<T>(in.b[r]);
	Lab lab{var==0?"mat%dx%d[c][r]const":var==1?"mat%dx%d[c]const":var==2?"mat%dx%d[c][r]write":"mat%dx%d[c]write",C,R,0,0,QI(in),R};
	if(!len_ok) c.fail(lab_str(lab)+":length()-differs-from-shape","other",C);
	judge<T>(c,C*R,got,w,lab);
}
// element-type conversion mat<C,R,T,Q>(mat<C,R,U,P>) and the templated operator=(mat<C,R,U,Q>): every element is T(u); source values are integers in [0,100]
template<class T> struct Partner; template<> struct Partner<float>{ typedef double type; }; template<> struct Partner<double>{ typedef i32 type; }; template<> struct Partner<i32>{ typedef float type; }; template<> struct Partner<u32>{ typedef double type; };
template<> struct Partner<i8>{ typedef i16 type; }; template<> struct Partner<u8>{ typedef u16 type; }; template<> struct Partner<i16>{ typedef i8 type; }; template<> struct Partner<u16>{ typedef u8 type; };
template<> struct Partner<i64>{ typedef u64 type; }; template<> struct Partner<u64>{ typedef i64 type; };
template<class T> static inline int small_of(T x){ if constexpr(is_fp<T>){ if(!isfinite_b(x)) return 7; double m=std::fmod(std::fabs((double)x),101.0); return (int)m; } else { typedef typename std::make_unsigned<T>::type U; return (int)((U)x%101u); } }
template<class T> static void chk_convert_type(const In<T>& in,vf::Ctx& c){
	typedef typename Partner<T>::type U; int si=modn(in.sel,9), C=2+si/3, R=2+si%3; int var=IDX(in)&1; T got[16]; U src[16]; for(int i=0;i<16;i++) src[i]=(U)small_of(in.a[i]);
	with_shape(si,[&](auto ss){ constexpr int C_=decltype(ss)::C, R_=decltype(ss)::R;
		with_qual(QI(in),[&](auto qq){ constexpr glm::qualifier Q=decltype(qq)::Q; constexpr glm::qualifier P= Q==QUALS[0]? QUALS[NQ>1?1:0]: QUALS[0];
			if(var){ glm::mat<C_,R_,U,Q> S=ldm<C_,R_,U,Q>(src); glm::mat<C_,R_,T,Q> D=ldm<C_,R_,T,Q>(in.b); D=S; stm(D,got); }
			else { glm::mat<C_,R_,U,P> S=ldm<C_,R_,U,P>(src); glm::mat<C_,R_,T,Q> D(S); stm(D,got); }
		}); });
	W<T> w[16]; for(int i=0;i<C*R;i++) w[i]=w_bits<T>((T)small_of(in.a[i]));
	judge<T>(c,C*R,got,w,Lab{var?"mat%dx%d=mat%dx%d<other-element-type>":"mat%dx%d(mat%dx%d<other-element-type>)",C,R,C,R,QI(in),R});
}
static void d_ctor(int sel,int& ea,int& eb){ d_shape(sel/3,ea,eb); }
static void d_acc(int sel,int& ea,int& eb){ d_shape(sel/4,ea,eb); }
OPS(convert,F_COPY,81,d_conv,1000,100000)
OPS(convert_type,F_COPY,9,d_shape,500,30000)
OPS(construct,F_COPY,27,d_ctor,500,30000)
OPS(access,F_COPY,36,d_acc,500,30000)
#endif

// ================================================================== PART 3: element-wise operators
#if PART==3
template<class A,class B,class=void> struct has_add: std::false_type{}; template<class A,class B> struct has_add<A,B,std::void_t<decltype(std::declval<A>()+std::declval<B>())>>: std::true_type{};
template<class A,class B,class=void> struct has_sub: std::false_type{}; template<class A,class B> struct has_sub<A,B,std::void_t<decltype(std::declval<A>()-std::declval<B>())>>: std::true_type{};
template<class A,class B,class=void> struct has_mul: std::false_type{}; template<class A,class B> struct has_mul<A,B,std::void_t<decltype(std::declval<A>()*std::declval<B>())>>: std::true_type{};
template<class A,class B,class=void> struct has_div: std::false_type{}; template<class A,class B> struct has_div<A,B,std::void_t<decltype(std::declval<A>()/std::declval<B>())>>: std::true_type{};

// reference for one element-wise operation x OP y
template<class T> __attribute__((noinline)) static W<T> ew(char op,T x,T y){
	if constexpr(is_fp<T>){
		volatile T vx=x, vy=y; T a=vx, b=vy;
		switch(op){
			case '+': return w_value<T>((T)(a+b)); case '-': return w_value<T>((T)(a-b)); case '*': return w_value<T>((T)(a*b));
			default: { W<T> w; if(!isfinite_b(x)||!isfinite_b(y)||y==0) return w; __float128 q=(__float128)x/(__float128)y; long double aq=(long double)fabsq(q);
				if(aq>=tmax<T>()/2) return w; { T qt=(T)q; if((__float128)qt==q && qt!=0){ W<T> e=w_value<T>(qt); e.center=q; e.cls="quotient-exactly-representable"; return e; } } /* statement: exact whenever the exact result is representable (84/7 must be 12) */ w.dom=D_TOL; w.what=W_ROUND; w.center=q; w.want=(T)(a/b); w.cls="rounding"; w.bound=4*uround<T>()*aq+2*minsub<T>(); return w; }
		}
	} else {
		if(op=='/'){ W<T> w; if(y==0) return w; if(std::is_signed<T>::value && x==std::numeric_limits<T>::min() && y==(T)-1) return w; w.dom=D_VALUE; w.what=W_EXACT; w.cls="exact"; w.want=(T)(x/y); return w; }
		Elem<T> e; if(op=='*') e.mul(x,y); else { e.add(x); if(op=='+') e.add(y); else e.sub(y); } return e.fin_(true);
	}
}
// aligned_lowp float division of vec3/vec4 columns uses the hardware reciprocal approximation by design (lowp = "low precision"):
// judged only to 2^-10 relative there, so that index mix-ups stay visible while the documented approximation raises no alarm
template<class T> static inline void relax_lowp(W<T>& w,int q){
#if defined(C02_ALIGNED)
	if constexpr(std::is_same<T,float>::value){ if(q==2 && (w.dom==D_TOL || (w.dom==D_VALUE && std::string(w.cls)=="quotient-exactly-representable"))){ w.dom=D_TOL; w.what=W_ROUND; w.bound=(long double)fabsq(w.center)/1024+2*minsub<T>(); w.cls="aligned_lowp-reciprocal-approximation"; } }
#endif
}
// generic element-wise check over one shape: BODY computes got[] from glm operands A,B,s (sets present=false when the overload does not exist);
// REF fills w[i] from in.a[i], in.b[i], s
#define EW_OP(NAME,BODY,REF) template<class T> static void chk_##NAME(const In<T>& in,vf::Ctx& c){ \
	int si=modn(in.sel,9), C=2+si/3, R=2+si%3, n=C*R; T got[16]; bool present=true, ret_ok=true, old_ok=true; const T s=in.s[0]; const int var=IDX(in)&1; (void)var; (void)s; \
	with_shape(si,[&](auto ss){ constexpr int C_=decltype(ss)::C, R_=decltype(ss)::R; \
		with_qual(QI(in),[&](auto qq){ constexpr glm::qualifier Q=decltype(qq)::Q; typedef glm::mat<C_,R_,T,Q> MT; \
			MT A=ldm<C_,R_,T,Q>(in.a); MT B=ldm<C_,R_,T,Q>(in.b); (void)B; BODY }); }); \
	if(!present){ c.cls("overload-absent"); return; } \
	W<T> w[16]; const char* nm=#NAME; for(int i=0;i<n;i++){ REF } \
	Lab lab{"mat%dx%d:%s",C,R,0,0,QI(in),R}; char fmtb[64]; snprintf(fmtb,sizeof fmtb,"mat%%dx%%d:%s",nm); lab.fmt=fmtb; \
	if(!ret_ok) c.fail(lab_str(lab)+":operator-does-not-return-*this","other","*this"); \
	if(!old_ok) c.fail(lab_str(lab)+":postfix-operator-does-not-return-the-old-value","other","old value"); \
	judge<T>(c,n,got,w,lab); }

EW_OP(add_mm, stm(MT(A+B),got);, w[i]=ew<T>('+',in.a[i],in.b[i]);)
EW_OP(sub_mm, stm(MT(A-B),got);, w[i]=ew<T>('-',in.a[i],in.b[i]);)
EW_OP(add_ms, stm(MT(A+s),got);, w[i]=ew<T>('+',in.a[i],s);)
EW_OP(sub_ms, stm(MT(A-s),got);, w[i]=ew<T>('-',in.a[i],s);)
EW_OP(mul_ms, stm(MT(A*s),got);, w[i]=ew<T>('*',in.a[i],s);)
EW_OP(div_ms, stm(MT(A/s),got);, w[i]=ew<T>('/',in.a[i],s); relax_lowp(w[i],QI(in));)
EW_OP(add_sm, if constexpr(has_add<T,MT>::value){ stm(MT(s+A),got); } else present=false;, w[i]=ew<T>('+',s,in.a[i]);)
EW_OP(sub_sm, if constexpr(has_sub<T,MT>::value){ stm(MT(s-A),got); } else present=false;, w[i]=ew<T>('-',s,in.a[i]);)
EW_OP(mul_sm, if constexpr(has_mul<T,MT>::value){ stm(MT(s*A),got); } else present=false;, w[i]=ew<T>('*',s,in.a[i]);)
EW_OP(div_sm, if constexpr(has_div<T,MT>::value){ stm(MT(s/A),got); } else present=false;, w[i]=ew<T>('/',s,in.a[i]); relax_lowp(w[i],QI(in));)
EW_OP(addassign_mm, auto&& ret=(A+=B); stm(A,got); ret_ok=(&ret==&A);, w[i]=ew<T>('+',in.a[i],in.b[i]);)
EW_OP(subassign_mm, auto&& ret=(A-=B); stm(A,got); ret_ok=(&ret==&A);, w[i]=ew<T>('-',in.a[i],in.b[i]);)
EW_OP(addassign_s, auto&& ret=(A+=s); stm(A,got); ret_ok=(&ret==&A);, w[i]=ew<T>('+',in.a[i],s);)
EW_OP(subassign_s, auto&& ret=(A-=s); stm(A,got); ret_ok=(&ret==&A);, w[i]=ew<T>('-',in.a[i],s);)
EW_OP(mulassign_s, auto&& ret=(A*=s); stm(A,got); ret_ok=(&ret==&A);, w[i]=ew<T>('*',in.a[i],s);)
EW_OP(divassign_s, auto&& ret=(A/=s); stm(A,got); ret_ok=(&ret==&A);, w[i]=ew<T>('/',in.a[i],s); relax_lowp(w[i],QI(in));)
// unary minus / plus (variant by index field): (-m)[c][r] = -m[c][r] as a value; +m = m
EW_OP(negate, if(var) stm(MT(+A),got); else stm(MT(-A),got);,
	nm= var? "unary-plus":"unary-minus"; if(var) w[i]=w_bits<T>(in.a[i]); else { if constexpr(is_fp<T>) w[i]=w_value<T>((T)-in.a[i]); else w[i]=ew<T>('-',(T)0,in.a[i]); })
// ++m / m++ and --m / m-- : every element +-1; the postfix forms return the old value
EW_OP(increment, if(var){ MT old=A++; T o[16]; stm(old,o); stm(A,got); for(int i=0;i<C_*R_;i++) if(!same(o[i],in.a[i])) old_ok=false; } else { auto&& ret=++A; stm(A,got); ret_ok=(&ret==&A); },
	nm= var? "post-increment":"pre-increment"; w[i]=ew<T>('+',in.a[i],(T)1);)
EW_OP(decrement, if(var){ MT old=A--; T o[16]; stm(old,o); stm(A,got); for(int i=0;i<C_*R_;i++) if(!same(o[i],in.a[i])) old_ok=false; } else { auto&& ret=--A; stm(A,got); ret_ok=(&ret==&A); },
	nm= var? "post-decrement":"pre-decrement"; w[i]=ew<T>('-',in.a[i],(T)1);)
// == / != : equal iff every pair of elements compares equal
template<class T> static void chk_equal(const In<T>& in,vf::Ctx& c){
	int si=modn(in.sel,9), C=2+si/3, R=2+si%3; bool ge=false,gn=false;
	with_shape(si,[&](auto ss){ constexpr int C_=decltype(ss)::C, R_=decltype(ss)::R;
		with_qual(QI(in),[&](auto qq){ constexpr glm::qualifier Q=decltype(qq)::Q;
			glm::mat<C_,R_,T,Q> A=ldm<C_,R_,T,Q>(in.a), B=ldm<C_,R_,T,Q>(in.b); ge=(A==B); gn=(A!=B); }); });
	bool want=true; for(int i=0;i<C*R;i++) if(!(in.a[i]==in.b[i])) want=false;
	c.cls(want?"equal":"different");
	if(ge!=want) c.fail(lab_str(Lab{want?"mat%dx%d:operator==:equal-matrices-reported-different":"mat%dx%d:operator==:different-matrices-reported-equal",C,R,0,0,QI(in),R}),ge,want);
	if(gn==want) c.fail(lab_str(Lab{want?"mat%dx%d:operator!=:equal-matrices-reported-different":"mat%dx%d:operator!=:different-matrices-reported-equal",C,R,0,0,QI(in),R}),gn,!want);
}
OPS(add_mm,F_ADD,9,d_shape,500,30000) OPS(sub_mm,F_SUB,9,d_shape,500,30000)
OPS(add_ms,F_ADD,9,d_shape,500,30000) OPS(sub_ms,F_SUB,9,d_shape,500,30000) OPS(mul_ms,F_PROD,9,d_shape,500,30000) OPS(div_ms,F_DIV,9,d_shape,500,30000)
OPS(add_sm,F_ADD,9,d_shape,500,30000) OPS(sub_sm,F_RSUB,9,d_shape,500,30000) OPS(mul_sm,F_PROD,9,d_shape,500,30000) OPS(div_sm,F_RDIV,9,d_shape,500,30000)
OPS(addassign_mm,F_ADD,9,d_shape,500,30000) OPS(subassign_mm,F_SUB,9,d_shape,500,30000)
OPS(addassign_s,F_ADD,9,d_shape,500,30000) OPS(subassign_s,F_SUB,9,d_shape,500,30000) OPS(mulassign_s,F_PROD,9,d_shape,500,30000) OPS(divassign_s,F_DIV,9,d_shape,500,30000)
OPS(negate,F_NEG,9,d_shape,500,30000) OPS(increment,F_ADD,9,d_shape,500,30000) OPS(decrement,F_SUB,9,d_shape,500,30000)
OPS(equal,F_EQ,9,d_shape,500,30000)
#endif

// ================================================================== PART 4: matrix functions (core, gtc/matrix_access, gtx)
#if PART==4
// transpose(m)[r][c] = m[c][r]
template<class T> static void chk_transpose(const In<T>& in,vf::Ctx& c){
	int si=modn(in.sel,9), C=2+si/3, R=2+si%3; T got[16];
	with_shape(si,[&](auto ss){ constexpr int C_=decltype(ss)::C, R_=decltype(ss)::R;
		with_qual(QI(in),[&](auto qq){ constexpr glm::qualifier Q=decltype(qq)::Q;
			glm::mat<C_,R_,T,Q> A=ldm<C_,R_,T,Q>(in.a); glm::mat<R_,C_,T,Q> Tm=glm::transpose(A); stm(Tm,got); }); });
	W<T> w[16]; for(int cc=0;cc<R;cc++) for(int r=0;r<C;r++) w[cc*C+r]=w_bits<T>(in.a[r*R+cc]);      // the result has R columns and C rows
	judge<T>(c,C*R,got,w,Lab{"transpose(mat%dx%d)",C,R,0,0,QI(in),C});
}
// outerProduct(c,r)[j][i] = c[i]*r[j] : c column vector (R components = rows), r row vector (C components = columns)
template<class T> static void chk_outerProduct(const In<T>& in,vf::Ctx& c){
	int si=modn(in.sel,9), C=2+si/3, R=2+si%3; T got[16];
	with_shape(si,[&](auto ss){ constexpr int C_=decltype(ss)::C, R_=decltype(ss)::R;
		with_qual(QI(in),[&](auto qq){ constexpr glm::qualifier Q=decltype(qq)::Q;
			glm::vec<R_,T,Q> cv=ldv<R_,T,Q>(in.a); glm::vec<C_,T,Q> rv=ldv<C_,T,Q>(in.b); glm::mat<C_,R_,T,Q> M=glm::outerProduct(cv,rv); stm(M,got); }); });
	W<T> w[16]; bool small=all_small(in.a,R)&&all_small(in.b,C);
	for(int cc=0;cc<C;cc++) for(int r=0;r<R;r++){ Elem<T> e; e.mul(in.a[r],in.b[cc]); w[cc*R+r]=e.fin_(small); }
	judge<T>(c,C*R,got,w,Lab{"outerProduct(vec%d,vec%d)",R,C,0,0,QI(in),R});
}
template<class T> static void chk_matrixCompMult(const In<T>& in,vf::Ctx& c){
	int si=modn(in.sel,9), C=2+si/3, R=2+si%3; T got[16];
	with_shape(si,[&](auto ss){ constexpr int C_=decltype(ss)::C, R_=decltype(ss)::R;
		with_qual(QI(in),[&](auto qq){ constexpr glm::qualifier Q=decltype(qq)::Q;
			glm::mat<C_,R_,T,Q> A=ldm<C_,R_,T,Q>(in.a), B=ldm<C_,R_,T,Q>(in.b); glm::mat<C_,R_,T,Q> M=glm::matrixCompMult(A,B); stm(M,got); }); });
	W<T> w[16]; bool small=all_small(in.a,C*R)&&all_small(in.b,C*R);
	for(int i=0;i<C*R;i++){ Elem<T> e; e.mul(in.a[i],in.b[i]); w[i]=e.fin_(small); }
	judge<T>(c,C*R,got,w,Lab{"matrixCompMult(mat%dx%d)",C,R,0,0,QI(in),R});
}
// gtc/matrix_access: row(m,i)[c]=m[c][i]; column(m,i)=m[i]; the setters replace exactly that row / column. sel = shape*4 + variant
template<class T> static void chk_rowcol(const In<T>& in,vf::Ctx& c){
	int sel=modn(in.sel,36); int var=sel%4, C=2+(sel/4)/3, R=2+(sel/4)%3; int ri=IDX(in)%R, ci=IDX(in)%C; T got[16];
	with_shape(sel/4,[&](auto ss){ constexpr int C_=decltype(ss)::C, R_=decltype(ss)::R;
		with_qual(QI(in),[&](auto qq){ constexpr glm::qualifier Q=decltype(qq)::Q;
			glm::mat<C_,R_,T,Q> A=ldm<C_,R_,T,Q>(in.a);
			if(var==0){ glm::vec<C_,T,Q> v=glm::row(A,ri); stv(v,got); }
			else if(var==1){ glm::vec<R_,T,Q> v=glm::column(A,ci); stv(v,got); }
			else if(var==2){ glm::mat<C_,R_,T,Q> M=glm::row(A,ri,ldv<C_,T,Q>(in.b)); stm(M,got); }
			else { glm::mat<C_,R_,T,Q> M=glm::column(A,ci,ldv<R_,T,Q>(in.b)); stm(M,got); }
		}); });
	W<T> w[16]; int n=0;
	if(var==0){ n=C; for(int cc=0;cc<C;cc++) w[cc]=w_bits<T>(in.a[cc*R+ri]); }
	else if(var==1){ n=R; for(int r=0;r<R;r++) w[r]=w_bits<T>(in.a[ci*R+r]); }
	else { n=C*R; for(int i=0;i<n;i++) w[i]=w_bits<T>(in.a[i],W_UNTOUCHED); if(var==2) for(int cc=0;cc<C;cc++) w[cc*R+ri]=w_bits<T>(in.b[cc]); else for(int r=0;r<R;r++) w[ci*R+r]=w_bits<T>(in.b[r]); }
	judge<T>(c,n,got,w,Lab{var==0?"row(mat%dx%d,i)":var==1?"column(mat%dx%d,i)":var==2?"row(mat%dx%d,i,v)":"column(mat%dx%d,i,v)",C,R,0,0,QI(in),var<2?0:R});
}
template<int C,int R,class T,glm::qualifier Q> static inline glm::mat<C,R,T,Q> diag_of(const T* p){
	constexpr int D= C<R? C: R; glm::vec<D,T,Q> v=ldv<D,T,Q>(p);
	if constexpr(C==2&&R==2) return glm::diagonal2x2(v); else if constexpr(C==2&&R==3) return glm::diagonal2x3(v); else if constexpr(C==2&&R==4) return glm::diagonal2x4(v);
	else if constexpr(C==3&&R==2) return glm::diagonal3x2(v); else if constexpr(C==3&&R==3) return glm::diagonal3x3(v); else if constexpr(C==3&&R==4) return glm::diagonal3x4(v);
	else if constexpr(C==4&&R==2) return glm::diagonal4x2(v); else if constexpr(C==4&&R==3) return glm::diagonal4x3(v); else return glm::diagonal4x4(v);
}
// gtx/matrix_operation diagonalCxR(v): v on the diagonal, zero elsewhere
template<class T> static void chk_diagonal(const In<T>& in,vf::Ctx& c){
	int si=modn(in.sel,9), C=2+si/3, R=2+si%3; T got[16];
	with_shape(si,[&](auto ss){ constexpr int C_=decltype(ss)::C, R_=decltype(ss)::R;
		with_qual(QI(in),[&](auto qq){ constexpr glm::qualifier Q=decltype(qq)::Q; glm::mat<C_,R_,T,Q> M=diag_of<C_,R_,T,Q>(in.a); stm(M,got); }); });
	W<T> w[16]; for(int cc=0;cc<C;cc++) for(int r=0;r<R;r++) w[cc*R+r]= cc==r? w_bits<T>(in.a[cc]): w_bits<T>((T)0,W_PADDING);
	judge<T>(c,C*R,got,w,Lab{"diagonal%dx%d",C,R,0,0,QI(in),R});
}
// gtx/matrix_major_storage: rowMajorN(v1..vN): vi is row i; rowMajorN(m) = transpose; colMajorN(v1..vN): vi is column i; colMajorN(m) = m. sel = (n-2)*4 + variant
template<class T> static void chk_majorStorage(const In<T>& in,vf::Ctx& c){
	int sel=modn(in.sel,12); int var=sel%4, N=2+sel/4; T got[16];
	with_n(sel/4,[&](auto nn){ constexpr int N_=decltype(nn)::N;
		with_qual(QI(in),[&](auto qq){ constexpr glm::qualifier Q=decltype(qq)::Q; typedef glm::mat<N_,N_,T,Q> MT; typedef glm::vec<N_,T,Q> VT;
			MT A=ldm<N_,N_,T,Q>(in.a); VT v[4]; for(int i=0;i<N_;i++) v[i]=ldv<N_,T,Q>(in.a+i*N_); MT M(A);
			if constexpr(N_==2){ if(var==0) M=glm::rowMajor2(v[0],v[1]); else if(var==1) M=glm::rowMajor2(A); else if(var==2) M=glm::colMajor2(v[0],v[1]); else M=glm::colMajor2(A); }
			else if constexpr(N_==3){ if(var==0) M=glm::rowMajor3(v[0],v[1],v[2]); else if(var==1) M=glm::rowMajor3(A); else if(var==2) M=glm::colMajor3(v[0],v[1],v[2]); else M=glm::colMajor3(A); }
			else { if(var==0) M=glm::rowMajor4(v[0],v[1],v[2],v[3]); else if(var==1) M=glm::rowMajor4(A); else if(var==2) M=glm::colMajor4(v[0],v[1],v[2],v[3]); else M=glm::colMajor4(A); }
			stm(M,got); }); });
	W<T> w[16]; bool tr= var<2;
	for(int cc=0;cc<N;cc++) for(int r=0;r<N;r++) w[cc*N+r]=w_bits<T>(tr? in.a[r*N+cc]: in.a[cc*N+r]);
	judge<T>(c,N*N,got,w,Lab{var==0?"rowMajor%d(vectors)":var==1?"rowMajor%d(matrix)":var==2?"colMajor%d(vectors)":"colMajor%d(matrix)",N,0,0,0,QI(in),N});
}
// gtx/matrix_cross_product: matrixCross3(x)*v = cross(x,v): M[c][r] (column c,row r): M[1][0]=-z M[2][0]=y M[0][1]=z M[2][1]=-x M[0][2]=-y M[1][2]=x, zero diagonal;
// matrixCross4: the same block, zeros in the remaining off-diagonal elements (element [3][3] is not specified by the documentation and is not judged)
template<class T> static void chk_matrixCross(const In<T>& in,vf::Ctx& c){
	int var=modn(in.sel,2); T X=in.a[0],Y=in.a[1],Z=in.a[2]; T got[16]; W<T> w[16]; int N=var?4:3;
	with_qual(QI(in),[&](auto qq){ constexpr glm::qualifier Q=decltype(qq)::Q;
		glm::vec<3,T,Q> x=ldv<3,T,Q>(in.a);
		if(var){ glm::mat<4,4,T,Q> M=glm::matrixCross4(x); stm(M,got); } else { glm::mat<3,3,T,Q> M=glm::matrixCross3(x); stm(M,got); } });
	auto neg=[&](T v){ W<T> r; if constexpr(is_fp<T>) r=w_value<T>((T)-v); else if constexpr(std::is_signed<T>::value){ if(v!=std::numeric_limits<T>::min()) r=w_value<T>((T)-v); } else { if(v==0) r=w_value<T>((T)0); } return r; };
	for(int i=0;i<N*N;i++){ w[i]=w_value<T>((T)0); w[i].what=W_PADDING; }
	auto at=[&](int cc,int r)->W<T>&{ return w[cc*N+r]; };
	at(1,0)=neg(Z); at(2,0)=w_value<T>(Y); at(0,1)=w_value<T>(Z); at(2,1)=neg(X); at(0,2)=neg(Y); at(1,2)=w_value<T>(X);
	if(var) at(3,3)=W<T>();
	judge<T>(c,N*N,got,w,Lab{var?"matrixCross4":"matrixCross3",0,0,0,0,QI(in),N});
}
static void d_rc(int sel,int& ea,int& eb){ d_shape(sel/4,ea,eb); }
static void d_ms(int sel,int& ea,int& eb){ int n=2+sel/4; ea=n*n; eb=0; }
OPS(transpose,F_COPY,9,d_shape,1000,100000)
OPS(outerProduct,F_PROD,9,d_outer,1000,100000)
OPS(matrixCompMult,F_PROD,9,d_shape,1000,100000)
OPS(rowcol,F_COPY,36,d_rc,500,30000)
OPS(diagonal,F_COPY,9,d_shape,500,30000)
OPS(majorStorage,F_COPY,12,d_ms,500,30000)
OPS(matrixCross,F_NEG,2,d_vec3,2000,100000)
#endif

static void workload(){
	RUN_ALL()
	vf::note("qualifiers",std::string(QN[0])+(NQ>1? std::string(",")+QN[1]:"")+(NQ>2? std::string(",")+QN[2]:""));
	vf::note("part",std::to_string(PART)+" typeset "+std::to_string(TYPESET));
}
VF_MAIN("C02_matrix")
