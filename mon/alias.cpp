// Aliasing supplement (C01 vectors, C02/C10 matrices, C04 quaternions, C05 out-parameter integer functions), selected with -DALIAS_PROP=n.
//
// The properties state what an operation returns for given argument VALUES.  A call whose destination (or out-parameter) is the same
// object as one of its operands - v += v, m *= m, m /= m[0][0], q *= q, uaddCarry(a, c, c) - must therefore give what the same call gives
// when the operand is a separate copy holding the same value.  Oracle: run the operation twice from the same initial state, once with a
// copy of the aliased operand and once aliased; the two final states must be bitwise identical (same sequence of roundings; NaN == NaN).
// Nothing is assumed about the value itself (the main monitors judge it).
#include "vf.hpp"
#include "ref.hpp"
#include <glm/glm.hpp>
#include <glm/gtc/quaternion.hpp>
#include <glm/gtc/type_ptr.hpp>
#include <glm/gtc/matrix_inverse.hpp>
#include <glm/ext/matrix_integer.hpp>
using namespace ref;
using vf::u64; using vf::u32;
typedef int i32;
#ifndef ALIAS_PROP
#	define ALIAS_PROP 1
#endif
#if defined(GLM_FORCE_DEFAULT_ALIGNED_GENTYPES) && GLM_CONFIG_ALIGNED_GENTYPES == GLM_ENABLE
static const char* const QN="aligned";
#else
static const char* const QN="packed";
#endif

template<class T> struct In { T v[16]; u32 sel; };

// flatten any glm object into components
template<int L,class T,glm::qualifier Q> static int flat(const glm::vec<L,T,Q>& v,T* o){ for(int i=0;i<L;i++) o[i]=v[i]; return L; }
template<int C,int R,class T,glm::qualifier Q> static int flat(const glm::mat<C,R,T,Q>& m,T* o){ for(int i=0;i<C;i++) for(int j=0;j<R;j++) o[i*R+j]=m[i][j]; return C*R; }
template<class T,glm::qualifier Q> static int flat(const glm::qua<T,Q>& q,T* o){ o[0]=q.x;o[1]=q.y;o[2]=q.z;o[3]=q.w; return 4; }
template<class X,class T> static bool same_obj(const X& a,const X& b,int* where){ T fa[16],fb[16]; int n=flat(a,fa); flat(b,fb); for(int i=0;i<n;i++) if(!same(fa[i],fb[i])){ *where=i; return false; } return true; }
template<class X,class T> static std::string shw(const X& a){ T f[16]; int n=flat(a,f); std::string s="("; for(int i=0;i<n;i++){ if(i) s+=","; s+=vf::show(f[i]); } return s+")"; }

// op(dst, src): dst op= src.  aliased: op(x, x);  reference: copy = x; op(x, copy)
template<class T,class X,class F> static void self_op(vf::Ctx& c,const X& x0,const std::string& name,F op){
	X a=x0; { X cp=x0; op(a,cp); } X b=x0; op(b,b); int w=0;
	if(!same_obj<X,T>(a,b,&w)) c.fail(std::string(QN)+":"+name+":right-hand-side-is-the-destination:differs-from-the-same-call-with-a-copy",shw<X,T>(b)+" (aliased, component "+std::to_string(w)+")",shw<X,T>(a)+" (copy)");
}
// op(dst, scalar): aliased: scalar is a reference to an element of dst
template<class T,class X,class F,class G> static void elem_op(vf::Ctx& c,const X& x0,const std::string& name,F op,G elem){
	X a=x0; { T s=elem(a); op(a,s); } X b=x0; op(b,elem(b)); int w=0;
	if(!same_obj<X,T>(a,b,&w)) c.fail(std::string(QN)+":"+name+":scalar-operand-is-an-element-of-the-destination:differs-from-the-same-call-with-a-copy",shw<X,T>(b)+" (aliased, component "+std::to_string(w)+")",shw<X,T>(a)+" (copy)");
}


// scalar of another arithmetic type (the compound operators are templates over the scalar type U): m op= U(k) must be m op= T(k)
template<class T,class U,class X> static void mixed_scalar(vf::Ctx& c,const X& x0,const std::string& name,const char* un,int kval){
	const U ku=(U)kval; const T kt=(T)kval; int w=0;
	{ X a=x0; a+=ku; X b=x0; b+=kt; if(!same_obj<X,T>(a,b,&w)) c.fail(std::string(QN)+":"+name+"+=("+un+" scalar):differs-from-the-same-value-as-element-type",shw<X,T>(a),shw<X,T>(b)); }
	{ X a=x0; a-=ku; X b=x0; b-=kt; if(!same_obj<X,T>(a,b,&w)) c.fail(std::string(QN)+":"+name+"-=("+un+" scalar):differs-from-the-same-value-as-element-type",shw<X,T>(a),shw<X,T>(b)); }
	{ X a=x0; a*=ku; X b=x0; b*=kt; if(!same_obj<X,T>(a,b,&w)) c.fail(std::string(QN)+":"+name+"*=("+un+" scalar):differs-from-the-same-value-as-element-type",shw<X,T>(a),shw<X,T>(b)); }
	{ X a=x0; a/=ku; X b=x0; b/=kt; if(!same_obj<X,T>(a,b,&w)) c.fail(std::string(QN)+":"+name+"/=("+un+" scalar):differs-from-the-same-value-as-element-type",shw<X,T>(a),shw<X,T>(b)); }
}
template<class T,class X> static void mixed_all(vf::Ctx& c,const X& x0,const std::string& name,u32 sel){
	const int k=2+(int)(sel%7);
	mixed_scalar<T,unsigned,X>(c,x0,name,"unsigned",k); mixed_scalar<T,int,X>(c,x0,name,"int",k); mixed_scalar<T,short,X>(c,x0,name,"short",k); mixed_scalar<T,unsigned char,X>(c,x0,name,"uint8",k);
	mixed_scalar<T,long long,X>(c,x0,name,"int64",k);
	if constexpr(std::is_floating_point<T>::value){ mixed_scalar<T,float,X>(c,x0,name,"float",k); mixed_scalar<T,double,X>(c,x0,name,"double",k); }
}
// compound assignment / pre-increment must return the object itself (chained use: (v *= 2) += w modifies v)
#define RET_SELF(NAME,OBJ,EXPR) do{ auto&& r_=(EXPR); if((const void*)&r_!=(const void*)&(OBJ)) c.fail(std::string(QN)+":"+NAME+":compound-operator-does-not-return-the-object-itself","a temporary / another object","*this"); }while(0)
// ------------------------------------------------------------------------------------------------ vectors (C01)
#if ALIAS_PROP==1
template<class T,int L> static void vec_ops(const In<T>& in,vf::Ctx& c){
	typedef glm::vec<L,T,glm::defaultp> V; V x; for(int i=0;i<L;i++) x[i]=in.v[i];
	const std::string p="vec"+std::to_string(L)+":"; const int e=(int)(in.sel%L);
	self_op<T>(c,x,p+"+=",[](V& d,const V& s){ d+=s; }); self_op<T>(c,x,p+"-=",[](V& d,const V& s){ d-=s; }); self_op<T>(c,x,p+"*=",[](V& d,const V& s){ d*=s; }); self_op<T>(c,x,p+"/=",[](V& d,const V& s){ d/=s; });
	self_op<T>(c,x,p+"=",[](V& d,const V& s){ d=s; });
	self_op<T>(c,x,p+"v=v+v",[](V& d,const V& s){ d=d+s; }); self_op<T>(c,x,p+"v=v*v",[](V& d,const V& s){ d=s*d; }); self_op<T>(c,x,p+"v=-v",[](V& d,const V& s){ d=-s; });
	{ V a=x; const T s=in.v[5]; RET_SELF(p+"+=vec",a,a+=x); RET_SELF(p+"-=vec",a,a-=x); RET_SELF(p+"*=vec",a,a*=x); RET_SELF(p+"/=vec",a,a/=x); RET_SELF(p+"+=scalar",a,a+=s); RET_SELF(p+"-=scalar",a,a-=s); RET_SELF(p+"*=scalar",a,a*=s); RET_SELF(p+"/=scalar",a,a/=s); RET_SELF(p+"=",a,a=x); RET_SELF(p+"++v",a,++a); RET_SELF(p+"--v",a,--a);
	  if constexpr(!std::is_floating_point<T>::value){ V b=x; const T m=(T)3; RET_SELF(p+"%=vec",b,b%=x); RET_SELF(p+"&=vec",b,b&=x); RET_SELF(p+"|=vec",b,b|=x); RET_SELF(p+"^=vec",b,b^=x); RET_SELF(p+"<<=scalar",b,b<<=m); RET_SELF(p+">>=scalar",b,b>>=m); RET_SELF(p+"%=scalar",b,b%=m); RET_SELF(p+"&=scalar",b,b&=m); } }
	// the same object passed for two parameters (the result is a separate object): must equal the call with a copy of it
#define SAME2(NAME,CALL_XX,CALL_XC) do{ V cp=x; auto r1=(CALL_XX); auto r2=(CALL_XC); if(memcmp(&r1,&r2,sizeof r1)!=0){ bool diff=false; for(int i_=0;i_<L;i_++) if(!same(r1[i_],r2[i_])) diff=true; if(diff) c.fail(std::string(QN)+":"+p+NAME+":same-object-for-both-arguments:differs-from-the-call-with-a-copy","(same object)","(copy)"); } }while(0)
	SAME2("equal(v,v)",glm::equal(x,x),glm::equal(x,cp)); SAME2("notEqual(v,v)",glm::notEqual(x,x),glm::notEqual(x,cp)); SAME2("lessThan(v,v)",glm::lessThan(x,x),glm::lessThan(x,cp)); SAME2("lessThanEqual(v,v)",glm::lessThanEqual(x,x),glm::lessThanEqual(x,cp)); SAME2("greaterThanEqual(v,v)",glm::greaterThanEqual(x,x),glm::greaterThanEqual(x,cp));
	SAME2("min(v,v)",glm::min(x,x),glm::min(x,cp)); SAME2("max(v,v)",glm::max(x,x),glm::max(x,cp)); SAME2("v+v",x+x,x+cp); SAME2("v-v",x-x,x-cp); SAME2("v*v",x*x,x*cp); SAME2("v/v",x/x,x/cp);
	{ V cp=x; bool e1=(x==x), e2=(x==cp), n1=(x!=x), n2=(x!=cp); if(e1!=e2||n1!=n2) c.fail(std::string(QN)+":"+p+"operator==/!=(v,v):same-object-for-both-arguments:differs-from-the-call-with-a-copy",e1,e2); }
	if constexpr(std::is_floating_point<T>::value){ V cp=x; T d1=glm::dot(x,x), d2=glm::dot(x,cp); if(!same(d1,d2)) c.fail(std::string(QN)+":"+p+"dot(v,v):same-object-for-both-arguments:differs-from-the-call-with-a-copy",d1,d2); T l1=glm::distance(x,x), l2=glm::distance(x,cp); if(!same(l1,l2)) c.fail(std::string(QN)+":"+p+"distance(v,v):same-object-for-both-arguments:differs-from-the-call-with-a-copy",l1,l2);
		SAME2("mix(v,v,0.25)",glm::mix(x,x,(T)0.25),glm::mix(x,cp,(T)0.25)); SAME2("step(v,v)",glm::step(x,x),glm::step(x,cp)); SAME2("clamp(v,v,v)",glm::clamp(x,x,x),glm::clamp(x,cp,cp)); SAME2("reflect(v,v)",glm::reflect(x,x),glm::reflect(x,cp)); }
	// converting assignment from another element type into a destination that already holds data
	{ typedef typename std::conditional<std::is_same<T,float>::value,double,float>::type U; glm::vec<L,U,glm::defaultp> src; for(int i=0;i<L;i++) src[i]=(U)(i32)(in.v[8+i]); V d=x; d=src; for(int i=0;i<L;i++) if(!same(d[i],(T)src[i])){ c.fail(std::string(QN)+":"+p+"converting-assignment(other element type):component-not-assigned",d[i],(T)src[i]); break; } }
	mixed_all<T>(c,x,p,in.sel);
	auto el=[e](V& v)->T&{ return v[e]; };
	elem_op<T>(c,x,p+"+=scalar",[](V& d,const T& s){ d+=s; },el); elem_op<T>(c,x,p+"-=scalar",[](V& d,const T& s){ d-=s; },el); elem_op<T>(c,x,p+"*=scalar",[](V& d,const T& s){ d*=s; },el); elem_op<T>(c,x,p+"/=scalar",[](V& d,const T& s){ d/=s; },el);
	elem_op<T>(c,x,p+"v=v*scalar",[](V& d,const T& s){ d=d*s; },el); elem_op<T>(c,x,p+"v=scalar/v",[](V& d,const T& s){ d=s/d; },el);
	if constexpr(std::is_floating_point<T>::value){
		self_op<T>(c,x,p+"v=min(v,v)",[](V& d,const V& s){ d=glm::min(d,s); }); self_op<T>(c,x,p+"v=mix(v,v,v)",[](V& d,const V& s){ d=glm::mix(d,s,s); }); self_op<T>(c,x,p+"v=clamp(v,v,v)",[](V& d,const V& s){ d=glm::clamp(d,s,s); });
		self_op<T>(c,x,p+"v=fma(v,v,v)",[](V& d,const V& s){ d=glm::fma(d,s,s); }); self_op<T>(c,x,p+"modf(v,v)",[](V& d,const V& s){ V ip; V fr=glm::modf(s,ip); d=fr+ip; });
		{ V a=x, ipa; V fa=glm::modf(a,ipa); V b=x; V fb=glm::modf(b,b); int w=0; if(!same_obj<V,T>(fa,fb,&w)||!same_obj<V,T>(ipa,b,&w)) c.fail(std::string(QN)+":"+p+"modf(x,x):out-parameter-is-the-argument:differs-from-the-same-call-with-a-separate-out-parameter",shw<V,T>(fb)+" ip "+shw<V,T>(b),shw<V,T>(fa)+" ip "+shw<V,T>(ipa)); }
	} else {
		self_op<T>(c,x,p+"%=",[](V& d,const V& s){ d%=s; }); self_op<T>(c,x,p+"&=",[](V& d,const V& s){ d&=s; }); self_op<T>(c,x,p+"|=",[](V& d,const V& s){ d|=s; }); self_op<T>(c,x,p+"^=",[](V& d,const V& s){ d^=s; });
		V sh; for(int i=0;i<L;i++) sh[i]=(T)((u32)in.v[i]%(u32)(sizeof(T)*8-1));   // shift counts in [0, width-2]: v <<= v stays defined for signed v
		self_op<T>(c,sh,p+"<<=",[](V& d,const V& s){ d<<=s; }); self_op<T>(c,sh,p+">>=",[](V& d,const V& s){ d>>=s; });
		elem_op<T>(c,x,p+"%=scalar",[](V& d,const T& s){ d%=s; },el); elem_op<T>(c,x,p+"&=scalar",[](V& d,const T& s){ d&=s; },el); elem_op<T>(c,x,p+"^=scalar",[](V& d,const T& s){ d^=s; },el);
		elem_op<T>(c,sh,p+"<<=scalar",[](V& d,const T& s){ d<<=s; },el); elem_op<T>(c,sh,p+">>=scalar",[](V& d,const T& s){ d>>=s; },el);
	}
}
template<class T> static void vec_all(const In<T>& in,vf::Ctx& c){ vec_ops<T,1>(in,c); vec_ops<T,2>(in,c); vec_ops<T,3>(in,c); vec_ops<T,4>(in,c); }
VF_OP(alias_vec_f32, In<float>, "ffffffffffffffffu"){ vec_all<float>(in,c); }
VF_OP(alias_vec_f64, In<double>, "ddddddddddddddddu"){ vec_all<double>(in,c); }
VF_OP(alias_vec_i32, In<i32>, "iiiiiiiiiiiiiiiiu"){ vec_all<i32>(in,c); }
VF_OP(alias_vec_u32, In<u32>, "uuuuuuuuuuuuuuuuu"){ vec_all<u32>(in,c); }
#endif

// ------------------------------------------------------------------------------------------------ matrices (C02, C10)
#if ALIAS_PROP==2
template<class T,int C,int R> static void mat_ops(const In<T>& in,vf::Ctx& c){
	typedef glm::mat<C,R,T,glm::defaultp> M; M x; for(int i=0;i<C;i++) for(int j=0;j<R;j++) x[i][j]=in.v[(i*R+j)&15];
	const std::string p="mat"+std::to_string(C)+"x"+std::to_string(R)+":"; const int ei=(int)(in.sel%C), ej=(int)((in.sel/4)%R);
	self_op<T>(c,x,p+"+=",[](M& d,const M& s){ d+=s; }); self_op<T>(c,x,p+"-=",[](M& d,const M& s){ d-=s; }); self_op<T>(c,x,p+"=",[](M& d,const M& s){ d=s; });
	self_op<T>(c,x,p+"m=m+m",[](M& d,const M& s){ d=d+s; }); self_op<T>(c,x,p+"m=-m",[](M& d,const M& s){ d=-s; });
	{ typedef typename std::conditional<std::is_same<T,float>::value,double,typename std::conditional<std::is_same<T,double>::value,float,float>::type>::type U; glm::mat<C,R,U,glm::defaultp> src; for(int i=0;i<C;i++) for(int j=0;j<R;j++) src[i][j]=(U)(i32)(in.v[(i*R+j+5)&15]);
	  M d=x; d=src; bool bad=false; for(int i=0;i<C;i++) for(int j=0;j<R;j++) if(!same(d[i][j],(T)src[i][j])) bad=true; if(bad) c.fail(std::string(QN)+":"+p+"converting-assignment(other element type):element-not-assigned",shw<M,T>(d),"every element = static_cast of the source element");
	  M e1(src); bad=false; for(int i=0;i<C;i++) for(int j=0;j<R;j++) if(!same(e1[i][j],(T)src[i][j])) bad=true; if(bad) c.fail(std::string(QN)+":"+p+"converting-constructor(other element type):element-wrong",shw<M,T>(e1),"every element = static_cast of the source element"); }
	{ M cp=x; bool e1=(x==x), e2=(x==cp), n1=(x!=x), n2=(x!=cp); if(e1!=e2||n1!=n2) c.fail(std::string(QN)+":"+p+"operator==/!=(m,m):same-object-for-both-arguments:differs-from-the-call-with-a-copy",e1,e2); M s1=x+x, s2=x+cp; int w=0; if(!same_obj<M,T>(s1,s2,&w)) c.fail(std::string(QN)+":"+p+"m+m:same-object-for-both-arguments:differs-from-the-call-with-a-copy",shw<M,T>(s1),shw<M,T>(s2)); }
	mixed_all<T>(c,x,p,in.sel);
	auto el=[ei,ej](M& m)->T&{ return m[ei][ej]; };
	elem_op<T>(c,x,p+"+=scalar",[](M& d,const T& s){ d+=s; },el); elem_op<T>(c,x,p+"-=scalar",[](M& d,const T& s){ d-=s; },el); elem_op<T>(c,x,p+"*=scalar",[](M& d,const T& s){ d*=s; },el); elem_op<T>(c,x,p+"/=scalar",[](M& d,const T& s){ d/=s; },el);
	elem_op<T>(c,x,p+"m=m*scalar",[](M& d,const T& s){ d=d*s; },el); elem_op<T>(c,x,p+"m=scalar*m",[](M& d,const T& s){ d=s*d; },el); elem_op<T>(c,x,p+"m=m/scalar",[](M& d,const T& s){ d=d/s; },el);
	if constexpr(std::is_floating_point<T>::value) elem_op<T>(c,x,p+"m=scalar/m",[](M& d,const T& s){ d=s/d; },el);
	if constexpr(C==R){
		self_op<T>(c,x,p+"*=",[](M& d,const M& s){ d*=s; }); self_op<T>(c,x,p+"m=m*m",[](M& d,const M& s){ d=d*s; }); self_op<T>(c,x,p+"m=transpose(m)",[](M& d,const M& s){ d=glm::transpose(s); });
		if constexpr(std::is_floating_point<T>::value){
			self_op<T>(c,x,p+"/=",[](M& d,const M& s){ d/=s; }); self_op<T>(c,x,p+"m=m/m",[](M& d,const M& s){ d=d/s; }); self_op<T>(c,x,p+"m=inverse(m)",[](M& d,const M& s){ d=glm::inverse(s); });
			self_op<T>(c,x,p+"m=inverseTranspose(m)",[](M& d,const M& s){ d=glm::inverseTranspose(s); });
			// column of the matrix as the vector operand: v = m * m[k], m[k] = m * m[k]
			{ M a=x; typename M::col_type cp=a[ei]; a[ei]=a*cp; M b=x; b[ei]=b*b[ei]; int w=0; if(!same_obj<M,T>(a,b,&w)) c.fail(std::string(QN)+":"+p+"m[k]=m*m[k]:vector-operand-is-a-column-of-the-matrix:differs-from-the-same-call-with-a-copy",shw<M,T>(b),shw<M,T>(a)); }
		}
	}
	self_op<T>(c,x,p+"m=matrixCompMult(m,m)",[](M& d,const M& s){ d=glm::matrixCompMult(d,s); });
}
template<class T> static void mat_all(const In<T>& in,vf::Ctx& c){
	mat_ops<T,2,2>(in,c); mat_ops<T,2,3>(in,c); mat_ops<T,2,4>(in,c); mat_ops<T,3,2>(in,c); mat_ops<T,3,3>(in,c); mat_ops<T,3,4>(in,c); mat_ops<T,4,2>(in,c); mat_ops<T,4,3>(in,c); mat_ops<T,4,4>(in,c); }
VF_OP(alias_mat_f32, In<float>, "ffffffffffffffffu"){ mat_all<float>(in,c); }
VF_OP(alias_mat_f64, In<double>, "ddddddddddddddddu"){ mat_all<double>(in,c); }
VF_OP(alias_mat_i32, In<i32>, "iiiiiiiiiiiiiiiiu"){ mat_all<i32>(in,c); }
#endif

// ------------------------------------------------------------------------------------------------ quaternions (C04)
#if ALIAS_PROP==4
template<class T> static void qua_ops(const In<T>& in,vf::Ctx& c){
	typedef glm::qua<T,glm::defaultp> Qt; Qt x=Qt::wxyz(in.v[3],in.v[0],in.v[1],in.v[2]); const int e=(int)(in.sel%4);
	self_op<T>(c,x,"quat:*=",[](Qt& d,const Qt& s){ d*=s; }); self_op<T>(c,x,"quat:+=",[](Qt& d,const Qt& s){ d+=s; }); self_op<T>(c,x,"quat:-=",[](Qt& d,const Qt& s){ d-=s; }); self_op<T>(c,x,"quat:=",[](Qt& d,const Qt& s){ d=s; });
	self_op<T>(c,x,"quat:q=q*q",[](Qt& d,const Qt& s){ d=d*s; }); self_op<T>(c,x,"quat:q=conjugate(q)",[](Qt& d,const Qt& s){ d=glm::conjugate(s); }); self_op<T>(c,x,"quat:q=inverse(q)",[](Qt& d,const Qt& s){ d=glm::inverse(s); });
	self_op<T>(c,x,"quat:q=normalize(q)",[](Qt& d,const Qt& s){ d=glm::normalize(s); }); self_op<T>(c,x,"quat:q=cross(q,q)",[](Qt& d,const Qt& s){ d=glm::cross(d,s); });
	self_op<T>(c,x,"quat:q=mix(q,q,t)",[](Qt& d,const Qt& s){ d=glm::mix(d,s,(T)0.25); }); self_op<T>(c,x,"quat:q=slerp(q,q,t)",[](Qt& d,const Qt& s){ d=glm::slerp(d,s,(T)0.25); });
	{ Qt a=x; const T s=in.v[5]; RET_SELF("quat:*=quat",a,a*=x); RET_SELF("quat:+=quat",a,a+=x); RET_SELF("quat:-=quat",a,a-=x); RET_SELF("quat:*=scalar",a,a*=s); RET_SELF("quat:/=scalar",a,a/=s); RET_SELF("quat:=",a,a=x); }
	auto el=[e](Qt& q)->T&{ return q[e]; };
	elem_op<T>(c,x,"quat:*=scalar",[](Qt& d,const T& s){ d*=s; },el); elem_op<T>(c,x,"quat:/=scalar",[](Qt& d,const T& s){ d/=s; },el); elem_op<T>(c,x,"quat:q=q*scalar",[](Qt& d,const T& s){ d=d*s; },el); elem_op<T>(c,x,"quat:q=q/scalar",[](Qt& d,const T& s){ d=d/s; },el);
	// rotating the quaternion's own vector part / a vector by a quaternion built from it
	{ typedef glm::vec<3,T,glm::defaultp> V3; V3 v(in.v[4],in.v[5],in.v[6]); V3 a=v; { V3 cp=a; a=x*cp; } V3 b=v; b=x*b; int w=0; if(!same_obj<V3,T>(a,b,&w)) c.fail(std::string(QN)+":quat:v=q*v:differs-from-the-same-call-with-a-copy",shw<V3,T>(b),shw<V3,T>(a)); }
}
VF_OP(alias_quat_f32, In<float>, "ffffffffffffffffu"){ qua_ops<float>(in,c); }
VF_OP(alias_quat_f64, In<double>, "ddddddddddddddddu"){ qua_ops<double>(in,c); }
#endif

// ------------------------------------------------------------------------------------------------ out-parameter integer functions (C05)
#if ALIAS_PROP==5 || ALIAS_PROP==1
template<int L> static void carry_ops(const In<u32>& in,vf::Ctx& c){
	typedef glm::vec<L,u32,glm::defaultp> V; V x,y; for(int i=0;i<L;i++){ x[i]=in.v[i]; y[i]=in.v[4+i]; } const std::string p=std::string(QN)+":vec"+std::to_string(L)+":";
	auto rep=[&](const std::string& n,const V& gr,const V& go,const V& wr,const V& wo){ int w=0; if(!same_obj<V,u32>(gr,wr,&w)||!same_obj<V,u32>(go,wo,&w)) c.fail(p+n+":out-parameter-is-an-operand:differs-from-the-same-call-with-a-separate-out-parameter","result "+shw<V,u32>(gr)+" out "+shw<V,u32>(go),"result "+shw<V,u32>(wr)+" out "+shw<V,u32>(wo)); };
	// out-parameters that hold stale data before the call (carry chains reuse the variable): the call must overwrite them completely
	{ V z(0u), po(0xDEADBEEFu), r1,r2; r1=glm::uaddCarry(x,y,z); r2=glm::uaddCarry(x,y,po); rep("uaddCarry(out-parameter holding stale data)",r2,po,r1,z); V z2(0u), po2(0xDEADBEEFu); r1=glm::usubBorrow(x,y,z2); r2=glm::usubBorrow(x,y,po2); rep("usubBorrow(out-parameter holding stale data)",r2,po2,r1,z2);
	  V h1(0u),l1(0u),h2(0xDEADBEEFu),l2(0xFEEDFACEu); glm::umulExtended(x,y,h1,l1); glm::umulExtended(x,y,h2,l2); rep("umulExtended(out-parameters holding stale data)",h2,l2,h1,l1); }
	{ V o; V r=glm::uaddCarry(x,y,o); { V a=x; V g=glm::uaddCarry(a,y,a); rep("uaddCarry(x,y,x)",g,a,r,o); } { V b=y; V g=glm::uaddCarry(x,b,b); rep("uaddCarry(x,y,y)",g,b,r,o); } }
	{ V o; V r=glm::usubBorrow(x,y,o); { V a=x; V g=glm::usubBorrow(a,y,a); rep("usubBorrow(x,y,x)",g,a,r,o); } { V b=y; V g=glm::usubBorrow(x,b,b); rep("usubBorrow(x,y,y)",g,b,r,o); } }
	{ V hi,lo; glm::umulExtended(x,y,hi,lo); { V a=x,b=y; glm::umulExtended(a,b,a,b); rep("umulExtended(x,y,x,y)",a,b,hi,lo); } { V a=x,b=y; glm::umulExtended(a,b,b,a); rep("umulExtended(x,y,y,x)",b,a,hi,lo); } }
	{ typedef glm::vec<L,i32,glm::defaultp> W; W sx,sy; for(int i=0;i<L;i++){ sx[i]=(i32)in.v[i]; sy[i]=(i32)in.v[4+i]; } W hi,lo; glm::imulExtended(sx,sy,hi,lo); W a=sx,b=sy; glm::imulExtended(a,b,a,b); int w=0;
		if(!same_obj<W,i32>(a,hi,&w)||!same_obj<W,i32>(b,lo,&w)) c.fail(p+"imulExtended(x,y,x,y):out-parameter-is-an-operand:differs-from-the-same-call-with-a-separate-out-parameter","msb "+shw<W,i32>(a)+" lsb "+shw<W,i32>(b),"msb "+shw<W,i32>(hi)+" lsb "+shw<W,i32>(lo)); }
}
VF_OP(alias_carry_u32, In<u32>, "uuuuuuuuuuuuuuuuu"){
	carry_ops<1>(in,c); carry_ops<2>(in,c); carry_ops<3>(in,c); carry_ops<4>(in,c);
	// scalar overloads
	u32 x=in.v[0], y=in.v[4]; const std::string p=std::string(QN)+":scalar:";
	{ u32 o; u32 r=glm::uaddCarry(x,y,o); { u32 a=x; u32 g=glm::uaddCarry(a,y,a); if(g!=r||a!=o) c.fail(p+"uaddCarry(x,y,x):out-parameter-is-an-operand:differs-from-the-same-call-with-a-separate-out-parameter",g,r); } { u32 b=y; u32 g=glm::uaddCarry(x,b,b); if(g!=r||b!=o) c.fail(p+"uaddCarry(x,y,y):out-parameter-is-an-operand:differs-from-the-same-call-with-a-separate-out-parameter",g,r); } }
	{ u32 o; u32 r=glm::usubBorrow(x,y,o); { u32 a=x; u32 g=glm::usubBorrow(a,y,a); if(g!=r||a!=o) c.fail(p+"usubBorrow(x,y,x):out-parameter-is-an-operand:differs-from-the-same-call-with-a-separate-out-parameter",g,r); } { u32 b=y; u32 g=glm::usubBorrow(x,b,b); if(g!=r||b!=o) c.fail(p+"usubBorrow(x,y,y):out-parameter-is-an-operand:differs-from-the-same-call-with-a-separate-out-parameter",g,r); } }
	{ u32 hi,lo; glm::umulExtended(x,y,hi,lo); u32 a=x,b=y; glm::umulExtended(a,b,a,b); if(a!=hi||b!=lo) c.fail(p+"umulExtended(x,y,x,y):out-parameter-is-an-operand:differs-from-the-same-call-with-a-separate-out-parameter",a,hi); }
	{ i32 sx=(i32)x, sy=(i32)y, hi,lo; glm::imulExtended(sx,sy,hi,lo); i32 a=sx,b=sy; glm::imulExtended(a,b,a,b); if(a!=hi||b!=lo) c.fail(p+"imulExtended(x,y,x,y):out-parameter-is-an-operand:differs-from-the-same-call-with-a-separate-out-parameter",a,hi); }
	// bitfieldInsert / frexp style in-place use: x = f(x, x, ...)
	{ int off=(int)(in.sel%32), bits=(int)((in.sel>>5)%(33-off)); u32 a=x; { u32 cp=a; a=glm::bitfieldInsert(a,cp,off,bits); } u32 b=x; b=glm::bitfieldInsert(b,b,off,bits); if(a!=b) c.fail(p+"x=bitfieldInsert(x,x,o,b):differs-from-the-same-call-with-a-copy",b,a); }
}
#endif

// ------------------------------------------------------------------------------------------------ workload
template<class T> static T pick(vf::Rng& r,bool small_int){
	if constexpr(std::is_floating_point<T>::value){ int m=(int)(r.next()%4); T v= m==0? (T)r.range(-9,9): m==1? (T)r.uniform(-4,4): m==2? (T)r.logmag(-6,6): (T)(r.range(-64,64)*0.125); if(v==0) v=(T)1.5; if(r.below(40)==0) v= r.coin()? std::numeric_limits<T>::quiet_NaN(): std::numeric_limits<T>::infinity(); return v; }
	else { if(small_int){ i32 v=(i32)r.range(1,40); if(std::is_signed<T>::value && r.coin()) v=-v; return (T)v; } return (T)r.next(); }
}
static void workload(){
	u64 n=vf::N(60000,3000000);
	vf::parallel("alias",[&](int t,int TT,vf::Ctx& c){ for(u64 i=t;i<n;i+=TT){
#if ALIAS_PROP==1
		In<float> f; In<double> d; In<i32> a; In<u32> b; for(int k=0;k<16;k++){ f.v[k]=pick<float>(c.rng,0); d.v[k]=pick<double>(c.rng,0); a.v[k]=pick<i32>(c.rng,1); b.v[k]=pick<u32>(c.rng,1); } f.sel=d.sel=a.sel=b.sel=(u32)c.rng.next();
		vf::run(c,alias_vec_f32,f); vf::run(c,alias_vec_f64,d); vf::run(c,alias_vec_i32,a); vf::run(c,alias_vec_u32,b);
		{ In<u32> cb; for(int k=0;k<16;k++){ int m=(int)(c.rng.next()%4); cb.v[k]= m==0? (u32)c.rng.next(): m==1? 0xffffffffu-(u32)c.rng.below(4): m==2? (u32)c.rng.below(4): (u32)1<<c.rng.below(32); } cb.sel=(u32)c.rng.next(); vf::run(c,alias_carry_u32,cb); }
#elif ALIAS_PROP==2
		In<float> f; In<double> d; In<i32> a; for(int k=0;k<16;k++){ f.v[k]=pick<float>(c.rng,0); d.v[k]=pick<double>(c.rng,0); a.v[k]=pick<i32>(c.rng,1); }
		if(i%3){ for(int k=0;k<4;k++){ f.v[k*5&15]+=(f.v[k*5&15]<0?-40.f:40.f); d.v[k*5&15]+=(d.v[k*5&15]<0?-40.0:40.0); } }   // mostly diagonally dominant (invertible) square blocks
		f.sel=d.sel=a.sel=(u32)c.rng.next(); vf::run(c,alias_mat_f32,f); vf::run(c,alias_mat_f64,d); vf::run(c,alias_mat_i32,a);
#elif ALIAS_PROP==4
		In<float> f; In<double> d; for(int k=0;k<16;k++){ f.v[k]=pick<float>(c.rng,0); d.v[k]=pick<double>(c.rng,0); }
		if(i&1){ long double nf=0,nd=0; for(int k=0;k<4;k++){ nf+=(long double)f.v[k]*f.v[k]; nd+=(long double)d.v[k]*d.v[k]; } for(int k=0;k<4;k++){ f.v[k]=(float)(f.v[k]/sqrtl(nf)); d.v[k]=(double)(d.v[k]/sqrtl(nd)); } }
		f.sel=d.sel=(u32)c.rng.next(); vf::run(c,alias_quat_f32,f); vf::run(c,alias_quat_f64,d);
#elif ALIAS_PROP==5
		In<u32> b; for(int k=0;k<16;k++){ int m=(int)(c.rng.next()%4); b.v[k]= m==0? (u32)c.rng.next(): m==1? 0xffffffffu-(u32)c.rng.below(4): m==2? (u32)c.rng.below(4): (u32)1<<c.rng.below(32); } b.sel=(u32)c.rng.next(); vf::run(c,alias_carry_u32,b);
#endif
	} });
	vf::note("qualifier_class",QN);
}
VF_MAIN("alias")
