// C17 (constructor half) — every vec / mat / qua constructor fills components in argument order, left to right, converting each
// argument component with static_cast semantics (truncating a longer vector, broadcasting a single scalar / vec1, diagonal for a
// single-scalar matrix).
//
// The constructor space is enumerated by mon/gen_C17.py into <prefix>_p<k>.inc (one `case ID:` block per constructor call) and
// <prefix>_desc.inc (a human-readable signature per case).  Every block builds its arguments from the run-time tag array
// (argument k takes the next len(k) tags), calls the glm constructor, and passes the result together with the expected component
// list to C17_CHECK*.  ORACLE: the expected list is written by the generator from the ARGUMENT LIST alone
// (C17_X(T,U,i) = static_cast<T>(value of type U made from tag i)); results are read back bytewise (vec, mat columns) or by
// member name (qua), never through glm accessors.
//
// build-time configuration (fw/props/C17.py):  -DC17_INC="file" -DC17_DESC_INC="file" -DC17_OPNAME=ctor_vec|ctor_mat|ctor_qua
#include "vf.hpp"
#include "ref.hpp"
#include <glm/glm.hpp>
#include <glm/gtc/quaternion.hpp>
#include <array>
#include <limits>
#if defined(GLM_FORCE_INTRINSICS)
#	include <glm/gtc/type_aligned.hpp>
#endif
#include C17_DESC_INC

using vf::u32; using vf::u64;

struct In { double t[16]; u32 id; u32 pad; };
#define IN_FMT "dddddddddddddddduu"

// harness: value of source element type U made from a tag, staying inside the domain of static_cast<T>(U):
// no negative value into an unsigned source type, no negative floating value into an unsigned destination type
// in.pad==1 ("wide" tag sets): the tag is a fraction in (-1,1) that is scaled to the whole range of the source type U that static_cast<T>(U)
// is defined on (all of U for integer sources; |value| below the range of T for floating sources converted to an integer T; up to 1e30 with
// a full double mantissa for floating -> floating), so that sign handling, values >= 2^31, truncation and rounding of the conversion are exercised
static thread_local u32 g_wide=0;
template<class T,class U> static U mk2w(double f){
	const double a=std::fabs(f);
	if constexpr(std::is_same<U,bool>::value) return a>=0.5;
	else if constexpr(std::is_integral<U>::value){
		if constexpr(std::is_unsigned<U>::value) return (U)(a*((double)std::numeric_limits<U>::max()+1.0)*0.99999999);   // half of the values >= 2^(bits-1)
		else return (U)(f*(double)std::numeric_limits<U>::max());
	}
	else if constexpr(std::is_same<T,bool>::value) return a<0.25? (U)0 : (U)(f*3.0);
	else if constexpr(std::is_integral<T>::value){
		const double lim=(double)std::numeric_limits<T>::max()*0.999;    // truncation stays inside the range of T
		return std::is_unsigned<T>::value? (U)(a*lim) : (U)(f*lim);
	}
	else { const int k=(int)(a*64.0)%3; return (U)(f*(k==0? 1.0 : k==1? 1e30 : 1e-30)); }
}
template<class T,class U> static U mk2(double tag){
	if(g_wide) return mk2w<T,U>(tag);
	if constexpr(std::is_same<U,bool>::value) return (((long long)std::fabs(tag))&1)!=0;
	else if constexpr(std::is_unsigned<U>::value) return (U)std::fabs(tag);
	else if constexpr(std::is_floating_point<U>::value && std::is_unsigned<T>::value && !std::is_same<T,bool>::value) return (U)std::fabs(tag);
	else return (U)tag;
}
template<class T> static std::string showv(const T* p,int n){ std::string s="("; for(int i=0;i<n;i++){ if(i) s+=","; if constexpr(std::is_same<T,bool>::value) s+= p[i]?"1":"0"; else if constexpr(std::is_floating_point<T>::value){ char b[40]; snprintf(b,40,"%.9g",(double)p[i]); s+=b; } else s+=std::to_string((long long)p[i]); } return s+")"; }

#define C17_S(T,U,OFF) mk2<T,U >(in.t[OFF])
#define C17_X(T,U,OFF) static_cast<T >(mk2<T,U >(in.t[OFF]))
#define C17_ZERO(T) static_cast<T >(0)
// four-scalar quaternion constructor: tag index of the argument that names component i (0=x,1=y,2=z,3=w)
#ifdef GLM_FORCE_QUAT_DATA_XYZW
#	define C17_QARG(i) (i)
#else
#	define C17_QARG(i) (((i)+1)&3)
#endif
template<class T,class U,class V> static void fillv(V& a,int L,const double* t){ U tmp[4]; for(int j=0;j<L;j++) tmp[j]=mk2<T,U>(t[j]); memset((void*)&a,0,sizeof a); memcpy((void*)&a,tmp,(size_t)L*sizeof(U)); }
#define C17_V(A,L,T,U,OFF) fillv<T,U >(A,L,in.t+OFF)
template<class T,class U,class M> static void fillm(M& a,int C,int R,const double* t){
	typedef typename M::col_type col; memset((void*)&a,0,sizeof a);
	for(int i=0;i<C;i++){ U tmp[4]; for(int j=0;j<R;j++) tmp[j]=mk2<T,U>(t[i*R+j]); memcpy((char*)&a+(size_t)i*sizeof(col),tmp,(size_t)R*sizeof(U)); }
}
#define C17_M(A,C,R,T,U,OFF) fillm<T,U >(A,C,R,in.t+OFF)
#define C17_Q(A,T,U,OFF) { A.x=mk2<T,U >(in.t[OFF]); A.y=mk2<T,U >(in.t[OFF+1]); A.z=mk2<T,U >(in.t[OFF+2]); A.w=mk2<T,U >(in.t[OFF+3]); }

static std::string desc_of(u32 id){ return c17_case_desc[id]; }
template<class V,class T> static void checkv(vf::Ctx& c,const In& in,const V& got,int L,const T* want,const char* cls){
	T g[4]; memcpy(g,(const void*)&got,(size_t)L*sizeof(T));
	if(memcmp(g,want,(size_t)L*sizeof(T))!=0) c.fail(std::string(cls)+":wrong-component",desc_of(in.id)+" = "+showv(g,L),showv(want,L));
}
template<class M,class T> static void checkm(vf::Ctx& c,const In& in,const M& got,int C,int R,const T* want,const char* cls){
	typedef typename M::col_type col; T g[16];
	for(int i=0;i<C;i++) memcpy(g+i*R,(const char*)&got+(size_t)i*sizeof(col),(size_t)R*sizeof(T));
	if(memcmp(g,want,(size_t)C*R*sizeof(T))!=0) c.fail(std::string(cls)+":wrong-element",desc_of(in.id)+" = "+showv(g,C*R),showv(want,C*R));
}
template<class Q,class T> static void checkq(vf::Ctx& c,const In& in,const Q& got,const T* want,const char* cls){
	T g[4]={got.x,got.y,got.z,got.w};
	if(memcmp(g,want,4*sizeof(T))!=0) c.fail(std::string(cls)+":wrong-component",desc_of(in.id)+" = (x,y,z,w)"+showv(g,4),showv(want,4));
}
#define C17_CHECK(GOT,L,WANT,CLS) checkv(c,in,GOT,L,WANT,CLS)
#define C17_CHECKM(GOT,C,R,WANT,CLS) checkm(c,in,GOT,C,R,WANT,CLS)
#define C17_CHECKQ(GOT,WANT,CLS) checkq(c,in,GOT,WANT,CLS)
// a shape for which the compile probe of the generator found no usable constructor (see probe_vec_shapes in gen_C17.py)
#define C17_UNAVAILABLE(CLS,ERR) c.fail(std::string(CLS)+":no-such-constructor(does-not-compile)",std::string("compiler: ")+ERR,"constructor call compiles")

#ifndef C17_OPNAME
#	define C17_OPNAME ctor_vec
#endif
#ifndef C17_PART
#	define C17_PART 0
#endif
#define VF_OP2(N,I,F) VF_OP(N,I,F)
#define C17_STR2(x) #x
#define C17_STR(x) C17_STR2(x)

#include C17_INC

VF_OP2(C17_OPNAME, In, IN_FMT){
	if(in.id>=C17_NCASES || (int)(in.id%C17_NPARTS)!=C17_PART){ c.fail("harness:case-not-in-this-unit","",""); return; }
	g_wide= in.pad==1; if(g_wide) for(int i=0;i<16;i++) if(!(std::fabs(in.t[i])<1.0)){ c.cls("ignored:wide-tag-not-a-fraction"); g_wide=0; return; }
	c.cls(g_wide? "wide-range-tags":"small-tags");
	c17_dispatch(in,c); g_wide=0;
}

// tag assignments: 0 primes; 1 alternating sign + fractional part; 2 distinct values drawn from the seed; 3 zero/one pattern from the seed
struct TagSet { std::array<double,16> t; u32 wide; };
static std::vector<TagSet> tagsets(){
	std::vector<TagSet> v; std::array<double,16> a;
	static const double pr[16]={2,3,5,7,11,13,17,19,23,29,31,37,41,43,47,53};
	for(int i=0;i<16;i++) a[i]=pr[i]; v.push_back({a,0});
	for(int i=0;i<16;i++){ double x=(double)(i+1)+0.25*(double)(1+i%3); a[i]=(i&1)? x:-x; } v.push_back({a,0});
	vf::Rng g(vf::cfg().seed*0x9e3779b97f4a7c15ULL^0xC17C);
	int used[128]={0}; for(int i=0;i<16;i++){ int m; do{ m=1+(int)g.below(60);}while(used[m]); used[m]=1; double x=(double)m+0.25*(double)g.below(4); a[i]=g.coin()? -x:x; } v.push_back({a,0});
	for(int i=0;i<16;i++) a[i]=(double)g.below(2); a[g.below(16)]=1.0; v.push_back({a,0});
	// wide-range sets: fractions in (-1,1), scaled per source type by mk2w; the second one has every magnitude >= 0.5 (unsigned sources >= 2^31)
	for(int i=0;i<16;i++){ double x=(double)(g.next()>>11)*(1.0/9007199254740992.0); a[i]=g.coin()? -x:x; } v.push_back({a,1});
	for(int i=0;i<16;i++){ double x=0.5+0.5*(double)(g.next()>>11)*(1.0/9007199254740992.0); if(x>=1.0) x=0.75; a[i]=g.coin()? -x:x; } v.push_back({a,1});
	return v;
}

static void workload(){
	if(!vf::want(C17_OPNAME)) return;
	std::vector<u32> ids; for(u32 i=0;i<C17_NCASES;i++) if((int)(i%C17_NPARTS)==C17_PART) ids.push_back(i);
	auto ts=tagsets();
	vf::note("cases_total",std::to_string(C17_NCASES)); vf::note("cases_in_unit",std::to_string(ids.size())); vf::note("generated_from",C17_STR(C17_INC));
	u64 total=(u64)ids.size()*ts.size();
	vf::sweep("ctor",total,32,[&](vf::Ctx& c,u64 lo,u64 hi){ for(u64 i=lo;i<hi;i++){ In in; memcpy(in.t,ts[i%ts.size()].t.data(),sizeof in.t); in.id=ids[i/ts.size()]; in.pad=ts[i%ts.size()].wide; vf::run(c,C17_OPNAME,in); } });
}
VF_MAIN("C17_ctor")
