// C17 (constructor half) — every vec / mat / qua constructor fills components in argument order, left to right, converting each
// argument component with static_cast semantics (truncating a longer vector, broadcasting a single scalar / vec1, diagonal for a
// single-scalar matrix).
//
// The constructor space is enumerated by mon/gen_C17.py into <prefix>_p<k>.inc (one `case ID:` block per constructor call) and
// <prefix>_desc.inc (a human-readable signature per case).  Every block builds its arguments from the run-time tag array
// (argument k takes the next len(k) tags), calls the glm constructor, and passes the result together with the expected component
// list to C17_CHECK*.  ORACLE: the expected list is written by the generator from the ARGUMENT LIST alone
// (C17_X(T,U,i) = static_cast<T>(value of type U made from tag i)); results are read back bytewise (vec, mat columns) or by
// member name (qua), never through glm accessors.
//
// build-time configuration (fw/props/C17.py):  -DC17_INC="file" -DC17_DESC_INC="file" -DC17_OPNAME=ctor_vec|ctor_mat|ctor_qua
#include "vf.hpp"
#include "ref.hpp"
#include <glm/glm.hpp>
#include <glm/gtc/quaternion.hpp>
#include <array>
#if defined(GLM_FORCE_INTRINSICS)
#	include <glm/gtc/type_aligned.hpp>
#endif
#include C17_DESC_INC

using vf::u32; using vf::u64;

struct In { double t[16]; u32 id; u32 pad; };
#define IN_FMT "dddddddddddddddduu"

// harness: value of source element type U made from a tag, staying inside the domain of static_cast<T>(U):
// no negative value into an unsigned source type, no negative floating value into an unsigned destination type
template<class T,class U> static U mk2(double tag){
	if constexpr(std::is_same<U,bool>::value) return (((long long)std::fabs(tag))&1)!=0;
	else if constexpr(std::is_unsigned<U>::value) return (U)std::fabs(tag);
	else if constexpr(std::is_floating_point<U>::value && std::is_unsigned<T>::value && !std::is_same<T,bool>::value) return (U)std::fabs(tag);
	else return (U)tag;
}
template<class T> static std::string showv(const T* p,int n){ std::string s="("; for(int i=0;i<n;i++){ if(i) s+=","; if constexpr(std::is_same<T,bool>::value) s+= p[i]?"1":"0"; else if constexpr(std::is_floating_point<T>::value){ char b[40]; snprintf(b,40,"%.9g",(double)p[i]); s+=b; } else s+=std::to_string((long long)p[i]); } return s+")"; }

#define C17_S(T,U,OFF) mk2<T,U >(in.t[OFF])
#define C17_X(T,U,OFF) static_cast<T >(mk2<T,U >(in.t[OFF]))
#define C17_ZERO(T) static_cast<T >(0)
template<class T,class U,class V> static void fillv(V& a,int L,const double* t){ U tmp[4]; for(int j=0;j<L;j++) tmp[j]=mk2<T,U>(t[j]); memset((void*)&a,0,sizeof a); memcpy((void*)&a,tmp,(size_t)L*sizeof(U)); }
#define C17_V(A,L,T,U,OFF) fillv<T,U >(A,L,in.t+OFF)
template<class T,class U,class M> static void fillm(M& a,int C,int R,const double* t){
	typedef typename M::col_type col; memset((void*)&a,0,sizeof a);
	for(int i=0;i<C;i++){ U tmp[4]; for(int j=0;j<R;j++) tmp[j]=mk2<T,U>(t[i*R+j]); memcpy((char*)&a+(size_t)i*sizeof(col),tmp,(size_t)R*sizeof(U)); }
}
#define C17_M(A,C,R,T,U,OFF) fillm<T,U >(A,C,R,in.t+OFF)
#define C17_Q(A,T,U,OFF) { A.x=mk2<T,U >(in.t[OFF]); A.y=mk2<T,U >(in.t[OFF+1]); A.z=mk2<T,U >(in.t[OFF+2]); A.w=mk2<T,U >(in.t[OFF+3]); }

static std::string desc_of(u32 id){ return c17_case_desc[id]; }
template<class V,class T> static void checkv(vf::Ctx& c,const In& in,const V& got,int L,const T* want,const char* cls){
	T g[4]; memcpy(g,(const void*)&got,(size_t)L*sizeof(T));
	if(memcmp(g,want,(size_t)L*sizeof(T))!=0) c.fail(std::string(cls)+":wrong-component",desc_of(in.id)+" = "+showv(g,L),showv(want,L));
}
template<class M,class T> static void checkm(vf::Ctx& c,const In& in,const M& got,int C,int R,const T* want,const char* cls){
	typedef typename M::col_type col; T g[16];
	for(int i=0;i<C;i++) memcpy(g+i*R,(const char*)&got+(size_t)i*sizeof(col),(size_t)R*sizeof(T));
	if(memcmp(g,want,(size_t)C*R*sizeof(T))!=0) c.fail(std::string(cls)+":wrong-element",desc_of(in.id)+" = "+showv(g,C*R),showv(want,C*R));
}
template<class Q,class T> static void checkq(vf::Ctx& c,const In& in,const Q& got,const T* want,const char* cls){
	T g[4]={got.x,got.y,got.z,got.w};
	if(memcmp(g,want,4*sizeof(T))!=0) c.fail(std::string(cls)+":wrong-component",desc_of(in.id)+" = (x,y,z,w)"+showv(g,4),showv(want,4));
}
#define C17_CHECK(GOT,L,WANT,CLS) checkv(c,in,GOT,L,WANT,CLS)
#define C17_CHECKM(GOT,C,R,WANT,CLS) checkm(c,in,GOT,C,R,WANT,CLS)
#define C17_CHECKQ(GOT,WANT,CLS) checkq(c,in,GOT,WANT,CLS)
// a shape for which the compile probe of the generator found no usable constructor (see probe_vec_shapes in gen_C17.py)
#define C17_UNAVAILABLE(CLS,ERR) c.fail(std::string(CLS)+":no-such-constructor(does-not-compile)",std::string("compiler: ")+ERR,"constructor call compiles")

#ifndef C17_OPNAME
#	define C17_OPNAME ctor_vec
#endif
#ifndef C17_PART
#	define C17_PART 0
#endif
#define VF_OP2(N,I,F) VF_OP(N,I,F)
#define C17_STR2(x) #x
#define C17_STR(x) C17_STR2(x)

#include C17_INC

VF_OP2(C17_OPNAME, In, IN_FMT){
	if(in.id>=C17_NCASES || (int)(in.id%C17_NPARTS)!=C17_PART){ c.fail("harness:case-not-in-this-unit","",""); return; }
	c17_dispatch(in,c);
}

// tag assignments: 0 primes; 1 alternating sign + fractional part; 2 distinct values drawn from the seed; 3 zero/one pattern from the seed
static std::vector<std::array<double,16> > tagsets(){
	std::vector<std::array<double,16> > v; std::array<double,16> a;
	static const double pr[16]={2,3,5,7,11,13,17,19,23,29,31,37,41,43,47,53};
	for(int i=0;i<16;i++) a[i]=pr[i]; v.push_back(a);
	for(int i=0;i<16;i++){ double x=(double)(i+1)+0.25*(double)(1+i%3); a[i]=(i&1)? x:-x; } v.push_back(a);
	vf::Rng g(vf::cfg().seed*0x9e3779b97f4a7c15ULL^0xC17C);
	int used[128]={0}; for(int i=0;i<16;i++){ int m; do{ m=1+(int)g.below(60);}while(used[m]); used[m]=1; double x=(double)m+0.25*(double)g.below(4); a[i]=g.coin()? -x:x; } v.push_back(a);
	for(int i=0;i<16;i++) a[i]=(double)g.below(2); a[g.below(16)]=1.0; v.push_back(a);
	return v;
}

static void workload(){
	if(!vf::want(C17_OPNAME)) return;
	std::vector<u32> ids; for(u32 i=0;i<C17_NCASES;i++) if((int)(i%C17_NPARTS)==C17_PART) ids.push_back(i);
	auto ts=tagsets();
	vf::note("cases_total",std::to_string(C17_NCASES)); vf::note("cases_in_unit",std::to_string(ids.size())); vf::note("generated_from",C17_STR(C17_INC));
	u64 total=(u64)ids.size()*ts.size();
	vf::sweep("ctor",total,32,[&](vf::Ctx& c,u64 lo,u64 hi){ for(u64 i=lo;i<hi;i++){ In in; memcpy(in.t,ts[i%ts.size()].data(),sizeof in.t); in.id=ids[i/ts.size()]; in.pad=0; vf::run(c,C17_OPNAME,in); } });
}
VF_MAIN("C17_ctor")
