// c01_engine.hpp — generic "vector overload == scalar overload per component" checker (property C01)
#pragma once
#include "vf.hpp"
#include "ref.hpp"
#include <glm/glm.hpp>
#include <glm/ext/scalar_common.hpp>
#include <glm/ext/vector_common.hpp>
#include <glm/ext/scalar_integer.hpp>
#include <glm/ext/vector_integer.hpp>
#include <glm/ext/scalar_relational.hpp>
#include <glm/ext/vector_relational.hpp>
#include <glm/ext/scalar_reciprocal.hpp>
#include <glm/ext/vector_reciprocal.hpp>
#include <glm/ext/matrix_common.hpp>
#include <glm/ext/matrix_relational.hpp>
#include <tuple>
#include <utility>
using namespace ref;

template<class T> struct In3 { T a[4]; T b[4]; T c[4]; };
template<class T> struct In4x { T a[4]; T b[4]; T c[4]; T d[4]; };

template<int L_, glm::qualifier Q_> struct LQ { enum { L = L_ }; static constexpr glm::qualifier Q = Q_; };
static inline const char* qname(glm::qualifier q){ return q==glm::packed_highp?"highp": q==glm::packed_mediump?"mediump": q==glm::packed_lowp?"lowp":"aligned"; }
// qualifier sets
struct QS_all { template<class F> static void each(F&& f){ f(LQ<1,glm::highp>()); f(LQ<2,glm::highp>()); f(LQ<3,glm::highp>()); f(LQ<4,glm::highp>()); f(LQ<1,glm::mediump>()); f(LQ<2,glm::mediump>()); f(LQ<3,glm::mediump>()); f(LQ<4,glm::mediump>()); f(LQ<1,glm::lowp>()); f(LQ<2,glm::lowp>()); f(LQ<3,glm::lowp>()); f(LQ<4,glm::lowp>()); } };
struct QS_hl { template<class F> static void each(F&& f){ f(LQ<1,glm::highp>()); f(LQ<2,glm::highp>()); f(LQ<3,glm::highp>()); f(LQ<4,glm::highp>()); f(LQ<2,glm::lowp>()); f(LQ<3,glm::mediump>()); f(LQ<4,glm::lowp>()); } };
struct QS_h { template<class F> static void each(F&& f){ f(LQ<1,glm::highp>()); f(LQ<2,glm::highp>()); f(LQ<3,glm::highp>()); f(LQ<4,glm::highp>()); } };
template<class T> struct QSet { typedef QS_h type; };
template<> struct QSet<float> { typedef QS_all type; };
template<> struct QSet<double> { typedef QS_hl type; };
template<> struct QSet<int> { typedef QS_hl type; };
template<> struct QSet<unsigned> { typedef QS_hl type; };
template<> struct QSet<bool> { typedef QS_hl type; };

template<class T,int L,glm::qualifier Q> static inline glm::vec<L,T,Q> mkv(const T* p){ glm::vec<L,T,Q> v; for(int i=0;i<L;i++) v[i]=p[i]; return v; }
template<char K,class T,int L,glm::qualifier Q> static inline auto varg(const T* p){ if constexpr(K=='V') return mkv<T,L,Q>(p); else if constexpr(K=='1') return glm::vec<1,T,Q>(p[0]); else return p[0]; }
template<char K,class T,int L,glm::qualifier Q> static inline glm::vec<L,T,Q> vfull(const T* p){ if constexpr(K=='V') return mkv<T,L,Q>(p); else return glm::vec<L,T,Q>(p[0]); }
template<char K,class T> static inline T sarg(const T* p,int i){ return K=='V'? p[i]: p[0]; }

template<class A,class B> static inline bool same_any(A a,B b){
	if constexpr(std::is_floating_point<A>::value && std::is_floating_point<B>::value) return same((A)a,(A)b) && sizeof(A)==sizeof(B);
	else return a==b; }
static inline std::string vcls(int L,glm::qualifier q,const char* what){ return std::string("vec")+std::to_string(L)+":"+qname(q)+":"+what; }

// selection among equal-valued candidates: IEEE/C leave open which zero fmin/fmax return for (+0,-0)
struct ExactZ { template<class G,class W,class I> bool operator()(G g,W w,const I&,int) const { if constexpr(std::is_floating_point<G>::value){ if(g==0 && w==0) return true; } return same_any(g,w); } };
struct Exact { template<class G,class W,class I> bool operator()(G g,W w,const I&,int) const { return same_any(g,w); } };

// generic checker: NA = number of arguments (1..4), KA..KD in {'V','S','1'}; fv = generic callable on glm types, fs = scalar oracle
template<class T,class QS,char KA,char KB,char KC,char KD,int NA,class IN,class FV,class FS,class CMP>
static inline void chk(const IN& in,vf::Ctx& c,FV fv,FS fs,CMP cmp,bool check_broadcast=true){
	QS::each([&](auto lq){ constexpr int L=decltype(lq)::L; constexpr glm::qualifier Q=decltype(lq)::Q;
		auto call=[&](auto&&... args){ return fv(args...); };
		const T* P[4]={in.a,in.b,in.c, nullptr}; if constexpr(NA==4) P[3]=in.d;
		auto do_it=[&](auto r,auto rb){
			for(int i=0;i<L;i++){
				auto w=[&]{ if constexpr(NA==1) return fs(sarg<KA>(P[0],i)); else if constexpr(NA==2) return fs(sarg<KA>(P[0],i),sarg<KB>(P[1],i)); else if constexpr(NA==3) return fs(sarg<KA>(P[0],i),sarg<KB>(P[1],i),sarg<KC>(P[2],i)); else return fs(sarg<KA>(P[0],i),sarg<KB>(P[1],i),sarg<KC>(P[2],i),sarg<KD>(P[3],i)); }();
				if(!cmp(r[i],w,in,i)) c.fail(vcls(L,Q,"component-differs-from-scalar-overload"),vf::show(r[i])+" (component "+std::to_string(i)+")",vf::show(w));
				if(check_broadcast && !(std::is_same<CMP,ExactZ>::value? ExactZ()(r[i],rb[i],in,i): same_any(r[i],rb[i]))) c.fail(vcls(L,Q,"scalar-argument-not-equal-to-broadcast-vector"),vf::show(r[i])+" (component "+std::to_string(i)+")",vf::show(rb[i]));
			} };
		if constexpr(NA==1){ auto r=call(varg<KA,T,L,Q>(P[0])); do_it(r,r); }
		else if constexpr(NA==2){ auto r=call(varg<KA,T,L,Q>(P[0]),varg<KB,T,L,Q>(P[1]));
			if constexpr((KA=='S'||KB=='S'||KA=='1'||KB=='1')) { if(check_broadcast){ auto rb=call(vfull<KA,T,L,Q>(P[0]),vfull<KB,T,L,Q>(P[1])); do_it(r,rb);} else do_it(r,r); } else do_it(r,r); }
		else if constexpr(NA==3){ auto r=call(varg<KA,T,L,Q>(P[0]),varg<KB,T,L,Q>(P[1]),varg<KC,T,L,Q>(P[2]));
			if constexpr((KA=='S'||KB=='S'||KC=='S')) { if(check_broadcast){ auto rb=call(vfull<KA,T,L,Q>(P[0]),vfull<KB,T,L,Q>(P[1]),vfull<KC,T,L,Q>(P[2])); do_it(r,rb);} else do_it(r,r); } else do_it(r,r); }
		else { auto r=call(varg<KA,T,L,Q>(P[0]),varg<KB,T,L,Q>(P[1]),varg<KC,T,L,Q>(P[2]),varg<KD,T,L,Q>(P[3])); do_it(r,r); }
	});
}

#define GF(name) [](auto const&... a_) -> decltype(glm::name(a_...)) { return glm::name(a_...); }

// ---- value generation -------------------------------------------------------
template<class T> struct Gen;
template<> struct Gen<float> { static float any(vf::Rng& r,const std::vector<float>& L){ int m=(int)(r.next()%8); return m<2? L[r.below(L.size())]: m==2? r.fbits(): m==3? (float)r.logmag(-40,40): m==4? (float)r.uniform(-4,4): m==5? (float)(r.range(-20,20)*0.5): (float)r.uniform(-1000,1000); } };
template<> struct Gen<double> { static double any(vf::Rng& r,const std::vector<double>& L){ int m=(int)(r.next()%8); return m<2? L[r.below(L.size())]: m==2? r.dbits(): m==3? r.logmag(-300,300): m==4? r.uniform(-4,4): m==5? r.range(-20,20)*0.5: r.uniform(-1000,1000); } };
template<class T> struct GenI { static T any(vf::Rng& r,const std::vector<T>& L){ int m=(int)(r.next()%6); u64 x=r.next(); return m<2? L[r.below(L.size())]: m==2? (T)x: m==3? (T)(x%17)-(std::is_signed<T>::value?8:0): m==4? (T)(x>>(r.next()%64)) : (T)(x&r.next()); } };
template<> struct Gen<i8>:GenI<i8>{}; template<> struct Gen<u8>:GenI<u8>{}; template<> struct Gen<i16>:GenI<i16>{}; template<> struct Gen<u16>:GenI<u16>{};
template<> struct Gen<i32>:GenI<i32>{}; template<> struct Gen<u32>:GenI<u32>{}; template<> struct Gen<i64>:GenI<i64>{}; template<> struct Gen<u64>:GenI<u64>{};
template<> struct Gen<bool> { static bool any(vf::Rng& r,const std::vector<bool>&){ return r.coin(); } };
template<class T> static std::vector<T> lat(){ if constexpr(std::is_floating_point<T>::value) return lattice_of<T>::get(); else if constexpr(std::is_same<T,bool>::value) return std::vector<bool>{false,true}; else return int_lattice<T>(); }

// signalling NaNs are outside the domain (GLSL has none; libm's fmin/fmax treat them specially): every generated NaN is made quiet
template<class T> static inline void quiet_all(In4x<T>& x){ if constexpr(std::is_floating_point<T>::value){ typedef typename fp<T>::U U; T* p=x.a; for(int i=0;i<16;i++) if(isnan_b(p[i])) p[i]=fp<T>::make(fp<T>::raw(p[i])|(U(1)<<(fp<T>::MANT-1))); } }
// a job = op + preparation (domain restriction applied to the generated input before it is recorded)
template<class T> struct Job { vf::Op* op; std::function<void(In4x<T>&)> prep; int nargs4; };
template<class T> static std::vector<Job<T>>& jobs(){ static std::vector<Job<T>> j; return j; }

template<class T> static void run_jobs(const char* label,u64 nquick,u64 nthorough){
	std::vector<T> L=lat<T>(); u64 n=vf::N(nquick,nthorough); auto& J=jobs<T>(); if(J.empty()) return;
	vf::parallel(label,[&](int t,int TT,vf::Ctx& c){
		auto feed=[&](In4x<T> x){ quiet_all(x); for(auto& j: J){ if(!vf::want(*j.op)) continue; In4x<T> y=x; if(j.prep) j.prep(y); if(j.nargs4) vf::run(c,*j.op,y); else { In3<T> z; memcpy(&z,&y,sizeof z); vf::run(c,*j.op,z);} } };
		// lattice: each lattice value in each slot against rotating partners
		for(size_t i=t;i<L.size();i+=TT) for(size_t k=0;k<L.size();k+= (L.size()>40? 3:1)){ In4x<T> x; for(int q=0;q<4;q++){ x.a[q]=L[(i+q)%L.size()]; x.b[q]=L[(k+q*5)%L.size()]; x.c[q]=L[(i+k+q*3)%L.size()]; x.d[q]=L[(i*7+k+q)%L.size()]; } feed(x); }
		for(u64 i=t;i<n;i+=TT){ In4x<T> x; for(int q=0;q<4;q++){ x.a[q]=Gen<T>::any(c.rng,L); x.b[q]=Gen<T>::any(c.rng,L); x.c[q]=Gen<T>::any(c.rng,L); x.d[q]=Gen<T>::any(c.rng,L); }
			if(c.rng.next()%4==0) for(int q=0;q<4;q++){ int m=(int)(c.rng.next()%4); if(m==0) x.b[q]=x.a[q]; else if(m==1) x.c[q]=x.a[q]; else if(m==2) x.c[q]=x.b[q]; }
			feed(x); }
	});
}
template<class T> struct Reg { Reg(vf::Op* op,std::function<void(In4x<T>&)> prep=nullptr,int n4=0){ jobs<T>().push_back(Job<T>{op,prep,n4}); } };

// domain helpers
template<class T> static inline bool bad_fp(T x){ if constexpr(std::is_floating_point<T>::value) return isnan_b(x); else return false; }
template<class T> static inline void no_nan(T* p){ if constexpr(std::is_floating_point<T>::value) for(int i=0;i<4;i++) if(isnan_b(p[i])) p[i]=(T)(i+0.25); }
template<class T> static inline void finite_only(T* p){ if constexpr(std::is_floating_point<T>::value) for(int i=0;i<4;i++) if(!isfinite_b(p[i])) p[i]=(T)(i-1.5); }
template<class T> static inline void nonzero(T* p){ for(int i=0;i<4;i++) if(p[i]==(T)0) p[i]=(T)(i+1); }
