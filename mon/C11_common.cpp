// C11 — common functions obey their documented per-value definitions (scalar float and double).
// Oracles: bit-level models of the IEEE formats written for this monitor (rounding family, classification, frexp),
// defining case analyses (sign/step/min/max/clamp/fmin/fmax/fclamp), the documented formula evaluated in long double
// with a derived forward error bound (smoothstep/mix/mod), single IEEE operations on bit-level references (fract, modf).
// No glm code is used inside any oracle.  NaN arguments are judged only for isnan/isinf/isfinite/isdenormal, the bit
// casts, mix(bool) and fmin/fmax/fclamp; +0 and -0 are the same value (the statement speaks of values).
#include "vf.hpp"
#include "ref.hpp"
#include <glm/glm.hpp>
#include <glm/ext/scalar_common.hpp>
#include <glm/gtx/common.hpp>
#include <glm/gtx/compatibility.hpp>
#include <glm/gtx/wrap.hpp>
using namespace ref;
typedef long double LD;

// ---------------------------------------------------------------- bit-level reference models
template<class T> struct Bt {
	typedef typename fp<T>::U U;
	enum { M = fp<T>::MANT, BIAS = fp<T>::BIAS, EB = fp<T>::EXPB };
	static U sign_mask(){ return U(1) << (sizeof(U)*8-1); }
	static U mant_mask(){ return (U(1) << M) - 1; }
	static int bexp(T x){ return (int)((fp<T>::raw(x) >> M) & ((U(1) << EB) - 1)); }
	static int uexp(T x){ return bexp(x) - BIAS; }               // unbiased exponent (meaningless for zero/subnormal: < -BIAS+1)
};
template<class T> static inline T r_abs(T x){ return fp<T>::make(fp<T>::raw(x) & ~Bt<T>::sign_mask()); }
template<class T> static inline T r_trunc(T x){
	typedef typename fp<T>::U U; U b = fp<T>::raw(x); int e = Bt<T>::uexp(x);
	if(e < 0) return fp<T>::make(b & Bt<T>::sign_mask());
	if(e >= Bt<T>::M) return x;
	U mask = (U(1) << (Bt<T>::M - e)) - 1; return fp<T>::make(b & ~mask);
}
// position of |x| between the two neighbouring integers
enum FracCmp { FC_INT = 0, FC_BELOW = 1, FC_TIE = 2, FC_ABOVE = 3 };
template<class T> static inline FracCmp r_fraccmp(T x, bool& odd){ // odd = parity of trunc(|x|); x finite
	typedef typename fp<T>::U U; U b = fp<T>::raw(x) & ~Bt<T>::sign_mask(); int e = Bt<T>::uexp(x); odd = false;
	if(b == 0) return FC_INT;
	if(e < -1) return FC_BELOW;
	if(e == -1) return (b & Bt<T>::mant_mask()) ? FC_ABOVE : FC_TIE;
	U sig = (b & Bt<T>::mant_mask()) | (U(1) << Bt<T>::M);
	if(e >= Bt<T>::M){ odd = (e == Bt<T>::M) ? (sig & 1) : false; return FC_INT; }
	int fb = Bt<T>::M - e; U frac = sig & ((U(1) << fb) - 1), half = U(1) << (fb - 1); odd = (sig >> fb) & 1;
	if(frac == 0) return FC_INT; if(frac < half) return FC_BELOW; if(frac == half) return FC_TIE; return FC_ABOVE;
}
template<class T> static inline T r_floor(T x){ T t = r_trunc(x); if(signbit_b(x) && t != x) return t - T(1); return t; }
template<class T> static inline T r_ceil(T x){ T t = r_trunc(x); if(!signbit_b(x) && t != x) return t + T(1); return t; }
template<class T> static inline T r_away(T x){ T t = r_trunc(x); return signbit_b(x) ? t - T(1) : t + T(1); } // next integer away from zero (|t| < 2^MANT)
template<class T> static inline T r_roundEven(T x){ bool odd; FracCmp f = r_fraccmp(x, odd); if(f == FC_ABOVE || (f == FC_TIE && odd)) return r_away(x); return r_trunc(x); }
template<class T> static inline bool veq(T a, T b){ return !isnan_b(a) && !isnan_b(b) && a == b; } // same value (+0 == -0)

template<class T> struct Names;
template<> struct Names<float>{ static const char* lo(){ return "|x|<2^23"; } static const char* mid(){ return "2^23<=|x|<2^31"; } static const char* hi(){ return "|x|>=2^31"; } };
template<> struct Names<double>{ static const char* lo(){ return "|x|<2^31"; } static const char* mid(){ return "2^31<=|x|<2^52"; } static const char* hi(){ return "|x|>=2^52"; } };
template<class T> static inline const char* band(T x){ int e = Bt<T>::uexp(x); int a = Bt<T>::M < 31 ? Bt<T>::M : 31, b = Bt<T>::M < 31 ? 31 : Bt<T>::M; return e < a ? Names<T>::lo() : e < b ? Names<T>::mid() : Names<T>::hi(); }
// input class of a non-NaN argument of a rounding function
template<class T> static std::string in_class(T x){
	std::string s = signbit_b(x) ? "neg:" : "pos:";
	if(isinf_b(x)) return s + "inf";
	bool odd; FracCmp f = r_fraccmp(x, odd);
	if(r_abs(x) == T(0)) return s + "zero";
	if(r_abs(x) < T(1)) return s + (f == FC_BELOW ? "0<|x|<0.5" : f == FC_TIE ? "|x|=0.5" : "0.5<|x|<1");
	s += f == FC_INT ? (odd ? "odd-integer" : "even-integer") : f == FC_BELOW ? "frac<0.5" : f == FC_TIE ? (odd ? "tie-above-odd" : "tie-above-even") : "frac>0.5";
	return s + ":" + band(x);
}
// observed wrong behaviour
template<class T> static std::string obs_class(T got, T want, T x){
	if(isnan_b(got)) return "returns-nan";
	if(isinf_b(got)) return "returns-inf";
	if(got == T(-2147483648.0)) return "returns-(-2^31)";
	if(r_trunc(got) != got) return "returns-non-integer";
	if(got == want + T(1)) return "returns-want+1";
	if(got == want - T(1)) return "returns-want-1";
	if(got == -want) return "returns-sign-flipped";
	if(got == x) return "returns-x";
	return "returns-other-integer";
}
static inline int fc_slot(FracCmp f, bool odd){ return (int)f * 2 + (odd ? 1 : 0); }
static inline const char* fc_name(FracCmp f, bool odd){ return f == FC_INT ? (odd ? "odd-int" : "even-int") : f == FC_BELOW ? "frac<.5" : f == FC_TIE ? (odd ? "tie-odd" : "tie-even") : "frac>.5"; }

template<class T> struct In1 { T x; };
template<class T> struct In2 { T a, b; };
template<class T> struct In3 { T a, b, c; };
template<class T> struct In4 { T a, b, c, d; };
struct InI { i32 i; };
struct InU { u32 u; };
struct InLf { float x; i32 e; };
struct InLd { double x; i64 e; };

// ---------------------------------------------------------------- fast input-class counters for the 2^32 sweeps
// (vf::Ctx::cls costs a std::map<std::string> lookup per call; here: thread-local slot counters flushed into the Ctx per chunk)
enum { FC_OPS = 256, FC_SLOTS = 12 };
struct FastCls { u64 n[FC_OPS][FC_SLOTS]; const char* nm[FC_OPS][FC_SLOTS]; };
static thread_local FastCls tl_fc;
static inline void fcls(int slot, const char* name){ int id = vf::g_crumb.op->id; tl_fc.n[id][slot]++; tl_fc.nm[id][slot] = name; }
static void fc_flush(vf::Ctx& c){ for(size_t id = 0; id < c.st.size() && id < FC_OPS; id++) for(int k = 0; k < FC_SLOTS; k++) if(tl_fc.n[id][k]){ c.st[id].classes[tl_fc.nm[id][k]] += tl_fc.n[id][k]; tl_fc.n[id][k] = 0; } }
static inline bool is_snan(float x){ return isnan_b(x) && !(fbits(x) & 0x00400000u); }
static inline bool is_snan(double x){ return isnan_b(x) && !(dbits(x) & 0x0008000000000000ULL); }

// ---------------------------------------------------------------- unary checks
#define NOT_JUDGED(name) do{ c.cls(name); return; }while(0)
#define NOT_JUDGED_F(slot, name) do{ fcls(slot, name); return; }while(0)
enum { K_FLOOR, K_CEIL, K_TRUNC, K_ROUND, K_ROUNDEVEN };
template<class T, int K> static void k_rounding(const In1<T>& in, vf::Ctx& c){
	T x = in.x;
	T got = K == K_FLOOR ? glm::floor(x) : K == K_CEIL ? glm::ceil(x) : K == K_TRUNC ? glm::trunc(x) : K == K_ROUND ? glm::round(x) : glm::roundEven(x);
	if(isnan_b(x)) NOT_JUDGED_F(8, "nan:not-judged");
	if(isinf_b(x)){ fcls(9, "inf"); if(!veq(got, x)) c.fail(in_class(x) + ":" + obs_class(got, x, x), got, x); return; }
	bool odd; FracCmp f = r_fraccmp(x, odd); fcls(fc_slot(f, odd), fc_name(f, odd));
	T want = K == K_FLOOR ? r_floor(x) : K == K_CEIL ? r_ceil(x) : K == K_TRUNC ? r_trunc(x) : K == K_ROUNDEVEN ? r_roundEven(x) : ((f == FC_ABOVE || f == FC_TIE) ? r_away(x) : r_trunc(x));
	bool ok = veq(got, want);
	if(!ok && K == K_ROUND && f == FC_TIE) ok = veq(got, r_trunc(x));   // GLSL: the direction of ties is implementation-chosen
	if(!ok) c.fail(in_class(x) + ":" + obs_class(got, want, x), got, want);
	else if(fp<T>::raw(got) != fp<T>::raw(want) && !(K == K_ROUND && f == FC_TIE)) fcls(10, "zero-sign-differs(not-judged)");
}
template<class T> static void k_fract(const In1<T>& in, vf::Ctx& c){
	T x = in.x; T got = glm::fract(x);
	if(!isfinite_b(x)) NOT_JUDGED_F(0, "non-finite:not-judged");
	T want = x - r_floor(x);                                             // one IEEE subtraction on the bit-level floor
	bool neg = signbit_b(x) && x != T(0); if(neg){ if(want == T(1)) fcls(1, "neg:rounds-to-1"); else fcls(2, "neg"); } else fcls(3, "nonneg");
	if(isnan_b(got) || got < T(0) || got > T(1)) c.fail(std::string(neg ? "neg:" : "nonneg:") + (isnan_b(got) ? "returns-nan" : "outside-[0,1]"), got, want);
	else if(!veq(got, want)) c.fail(std::string(neg ? "neg:" : "nonneg:") + (veq(got, x - r_trunc(x) ) ? "returns-x-trunc(x)" : veq(got, T(1) - want) ? "returns-1-fract" : "not-x-minus-floor(x)"), got, want);
}
template<class T> static void k_abs(const In1<T>& in, vf::Ctx& c){
	T x = in.x; T got = glm::abs(x); if(isnan_b(x)) NOT_JUDGED_F(0, "nan:not-judged");
	T want = r_abs(x); if(signbit_b(x)) fcls(1, "neg"); else fcls(2, "pos");
	if(!veq(got, want)) c.fail(std::string(signbit_b(x) ? "neg:" : "pos:") + (isinf_b(x) ? "inf:" : "") + (veq(got, -want) ? "returns-negative" : "wrong-value"), got, want);
}
template<class T> static void k_sign(const In1<T>& in, vf::Ctx& c){
	T x = in.x; T got = glm::sign(x); if(isnan_b(x)) NOT_JUDGED_F(0, "nan:not-judged");
	bool zero = r_abs(x) == T(0); T want = zero ? T(0) : signbit_b(x) ? T(-1) : T(1);
	int sl = zero ? 1 : isinf_b(x) ? (signbit_b(x) ? 2 : 3) : issubnormal_b(x) ? (signbit_b(x) ? 4 : 5) : signbit_b(x) ? 6 : 7;
	static const char* const sn[8] = { "", "zero", "-inf", "+inf", "neg-subnormal", "pos-subnormal", "neg", "pos" }; const char* k = sn[sl]; fcls(sl, k);
	if(!veq(got, want)) c.fail(std::string(k) + ":" + (isnan_b(got) ? "returns-nan" : got == T(0) ? "returns0" : got == T(1) ? "returns+1" : got == T(-1) ? "returns-1" : "returns-other"), got, want);
}
template<class T> static void k_classify(const In1<T>& in, vf::Ctx& c){
	T x = in.x; bool n = isnan_b(x), i = isinf_b(x), s = issubnormal_b(x);
	int sl = n ? 0 : i ? 1 : s ? 2 : r_abs(x) == T(0) ? 3 : 4; static const char* const sn[5] = { "nan", "inf", "subnormal", "zero", "normal" }; const char* k = sn[sl]; fcls(sl, k);
	bool gn = glm::isnan(x), gi = glm::isinf(x), gf = glm::isfinite(x), gd = glm::isdenormal(x);
	if(gn != n) c.fail(std::string(k) + ":isnan-wrong", gn, n);
	if(gi != i) c.fail(std::string(k) + ":isinf-wrong", gi, i);
	if(gf != (!n && !i)) c.fail(std::string(k) + ":isfinite-wrong", gf, !n && !i);
	if(gd != s) c.fail(std::string(k) + ":isdenormal-wrong", gd, s);
}
template<class T> static void k_modf(const In1<T>& in, vf::Ctx& c){
	T x = in.x; T ip = T(123); T fr = glm::modf(x, ip); if(!isfinite_b(x)) NOT_JUDGED_F(0, "non-finite:not-judged");
	T wi = r_trunc(x), wf = x - wi; if(wf == T(0)) fcls(1, "integer"); else if(wi == T(0)) fcls(2, "|x|<1"); else fcls(3, "mixed");
	if(!veq(ip, wi)) c.fail(std::string(signbit_b(x) ? "neg:" : "pos:") + "integer-part-wrong", ip, wi);
	if(!veq(fr, wf)) c.fail(std::string(signbit_b(x) ? "neg:" : "pos:") + (veq(fr, x - r_floor(x)) ? "fraction-is-x-floor(x)" : "fraction-wrong"), fr, wf);
}
template<class T> static void r_frexp(T x, T& m, int& e){ // x finite non-zero
	typedef typename fp<T>::U U; U b = fp<T>::raw(x); U sgn = b & Bt<T>::sign_mask(); U mant = b & Bt<T>::mant_mask(); int be = Bt<T>::bexp(x);
	if(be == 0){ int p = 63 - __builtin_clzll((unsigned long long)mant); e = p + 2 - Bt<T>::BIAS - Bt<T>::M; mant = (mant << (Bt<T>::M - p)) & Bt<T>::mant_mask(); }
	else e = be - (Bt<T>::BIAS - 1);
	m = fp<T>::make(sgn | (U(Bt<T>::BIAS - 1) << Bt<T>::M) | mant);
}
template<class T> static void k_frexp(const In1<T>& in, vf::Ctx& c){
	T x = in.x; int e = 12345; T m = glm::frexp(x, e); if(!isfinite_b(x)) NOT_JUDGED_F(0, "non-finite:not-judged");
	if(x == T(0)){ fcls(1, "zero"); if(!veq(m, T(0)) || e != 0) c.fail("zero:significand-or-exponent-not-0", vf::show(m) + " exp " + vf::show(e), "0 exp 0"); return; }
	T wm; int we; r_frexp(x, wm, we); const char* k = issubnormal_b(x) ? "subnormal" : "normal"; fcls(issubnormal_b(x) ? 2 : 3, k);
	if(!veq(m, wm)) c.fail(std::string(k) + ":significand-wrong", m, wm);
	if(e != we) c.fail(std::string(k) + ":exponent-wrong", e, we);
	T back = glm::ldexp(m, e); if(!veq(back, x)) c.fail(std::string(k) + ":ldexp(frexp(x))!=x", back, x);
}
template<class T, class IN> static void k_ldexp(const IN& in, vf::Ctx& c){
	T x = in.x; int e = (int)in.e; T got = glm::ldexp(x, e); if(!isfinite_b(x)) NOT_JUDGED("non-finite:not-judged");
	int ec = e < -2200 ? -2200 : e > 2200 ? 2200 : e; LD r = (LD)x * std::ldexp((LD)1, ec); T want = (T)r;   // exact product, one rounding
	if(isinf_b(want)) NOT_JUDGED("overflow:undefined:not-judged");
	const char* k = x == T(0) ? "zero" : want == T(0) ? "underflow-to-zero" : issubnormal_b(want) ? "subnormal-result" : "normal-result"; c.cls(k);
	if(!veq(got, want)) c.fail(std::string(k) + ":wrong-value", got, want);
}
// iround / uround: x >= 0 (documented precondition, asserted by glm), nearest integer representable
template<class T, bool UNS> static void k_iround(const In1<T>& in, vf::Ctx& c){
	T x = in.x; const T lim = UNS ? T(4294967295.0) : T(2147483647.0);
	if(!(x >= T(0)) || !isfinite_b(x) || !(x < lim + T(0.5)) || (sizeof(T) == 4 && !(x <= (UNS ? T(4294967040.0) : T(2147483520.0))))) NOT_JUDGED_F(8, "outside-domain:not-called");
	long long got = UNS ? (long long)glm::uround(x) : (long long)glm::iround(x);
	bool odd; FracCmp f = r_fraccmp(x, odd); long long t = (long long)r_trunc(x); fcls(fc_slot(f, odd), fc_name(f, odd));
	long long w1 = (f == FC_ABOVE || f == FC_TIE) ? t + 1 : t, w2 = f == FC_TIE ? t : w1;
	if(got != w1 && got != w2){
		std::string k = x < T(0.5) ? "0<x<0.5" : x < T(1) ? "0.5<x<1" : std::string(f == FC_INT ? (odd ? "odd-integer" : "even-integer") : f == FC_BELOW ? "frac<0.5" : "frac>0.5") + ":" + band(x);
		c.fail(k + (got == w1 + 1 ? ":returns-nearest+1" : got == w1 - 1 ? ":returns-nearest-1" : ":returns-other"), got, w1);
	}
}
// bit casts: lossless on every pattern
static void k_f2i(const In1<float>& in, vf::Ctx& c){
	u32 b = fbits(in.x); const char* k = isnan_b(in.x) ? "nan" : "number"; fcls(isnan_b(in.x) ? 0 : 1, k);
	int gi = glm::floatBitsToInt(in.x); glm::uint gu = glm::floatBitsToUint(in.x);
	if((u32)gi != b) c.fail(std::string(k) + ":floatBitsToInt:bits-changed", vf::show((unsigned)gi), vf::show((unsigned)b));
	if((u32)gu != b) c.fail(std::string(k) + ":floatBitsToUint:bits-changed", vf::show((unsigned)gu), vf::show((unsigned)b));
}
static void k_i2f(const InU& in, vf::Ctx& c){
	u32 b = in.u; float w = bitsf(b); const char* k = isnan_b(w) ? "nan" : "number"; fcls(isnan_b(w) ? 0 : 1, k);
	float gi = glm::intBitsToFloat((int)b), gu = glm::uintBitsToFloat((glm::uint)b);
	if(fbits(gi) != b) c.fail(std::string(k) + ":intBitsToFloat:bits-changed", gi, w);
	if(fbits(gu) != b) c.fail(std::string(k) + ":uintBitsToFloat:bits-changed", gu, w);
	if((u32)glm::floatBitsToInt(gi) != b) c.fail(std::string(k) + ":floatBitsToInt(intBitsToFloat(i))!=i", vf::show((unsigned)glm::floatBitsToInt(gi)), vf::show((unsigned)b));
}
// texture-coordinate helpers: finite input, result in [0,1]; clamp/repeat/mirrorRepeat additionally against their wrap-mode definition
enum { W_CLAMP, W_REPEAT, W_MIRRORCLAMP, W_MIRRORREPEAT };
template<class T, int K> static void k_wrap(const In1<T>& in, vf::Ctx& c){
	T x = in.x; T got = K == W_CLAMP ? glm::clamp(x) : K == W_REPEAT ? glm::repeat(x) : K == W_MIRRORCLAMP ? glm::mirrorClamp(x) : glm::mirrorRepeat(x);
	if(!isfinite_b(x)) NOT_JUDGED_F(0, "non-finite:not-judged");
	if(signbit_b(x)) fcls(1, "neg"); else fcls(2, "pos");
	if(isnan_b(got) || got < T(0) || got > T(1)){ c.fail(std::string(signbit_b(x) ? "neg" : "pos") + (isnan_b(got) ? ":returns-nan" : ":outside-[0,1]"), vf::show(got), "a value in [0,1]"); return; }
	if(K == W_MIRRORCLAMP) return;
	T a = r_abs(x), want;
	bool odd = false; if(K == W_CLAMP) want = x < T(0) ? T(0) : x > T(1) ? T(1) : x;
	else if(K == W_REPEAT) want = x - r_floor(x);
	else { r_fraccmp(x, odd); T rest = a - r_trunc(a); want = odd ? T(1) - rest : rest; }
	if(!veq(got, want)) c.fail(std::string(signbit_b(x) ? "neg" : "pos") + (K == W_MIRRORREPEAT ? (odd ? ":odd-period" : ":even-period") : "") + ":not-the-wrap-mode-value", got, want);
}

// ---------------------------------------------------------------- n-ary checks
template<class T> static inline bool fin(T x){ return isfinite_b(x); }
template<class T> static inline LD maxT(){ return (LD)std::numeric_limits<T>::max(); }
template<class T> static inline LD denorm(){ return (LD)std::numeric_limits<T>::denorm_min(); }
template<class T> static inline LD uT(){ return uround<T>(); }
template<class T> static inline T r_min2(T x, T y){ return y < x ? y : x; }
template<class T> static inline T r_max2(T x, T y){ return x < y ? y : x; }

template<class T, int N, bool MAX> static void k_minmax(const In4<T>& in, vf::Ctx& c){
	T v[4] = { in.a, in.b, in.c, in.d };
	T got = N == 2 ? (MAX ? glm::max(v[0], v[1]) : glm::min(v[0], v[1])) : N == 3 ? (MAX ? glm::max(v[0], v[1], v[2]) : glm::min(v[0], v[1], v[2])) : (MAX ? glm::max(v[0], v[1], v[2], v[3]) : glm::min(v[0], v[1], v[2], v[3]));
	for(int i = 0; i < N; i++) if(isnan_b(v[i])) NOT_JUDGED("nan-operand:not-judged");
	T want = v[0]; int arg = 0; for(int i = 1; i < N; i++){ T w = MAX ? r_max2(want, v[i]) : r_min2(want, v[i]); if(!(w == want)) arg = i; want = w; }
	static const char* an[4] = { "extremum=a", "extremum=b", "extremum=c", "extremum=d" }; c.cls(an[arg]);
	if(!veq(got, want)){ std::string k = an[arg]; bool oper = false; for(int i = 0; i < N; i++) if(veq(got, v[i])) oper = true;
		T other = v[0]; for(int i = 1; i < N; i++) other = MAX ? r_min2(other, v[i]) : r_max2(other, v[i]);
		c.fail(k + (isnan_b(got) ? ":returns-nan" : veq(got, other) ? ":returns-opposite-extremum" : oper ? ":returns-other-operand" : ":returns-non-operand"), got, want); }
}
template<class T> static void k_clamp(const In3<T>& in, vf::Ctx& c){
	T x = in.a, lo = in.b, hi = in.c; T got = glm::clamp(x, lo, hi), sat = glm::saturate(x);
	if(isnan_b(x) || isnan_b(lo) || isnan_b(hi)) NOT_JUDGED("nan-operand:not-judged");
	if(!isnan_b(x)){ T ws = x < T(0) ? T(0) : x > T(1) ? T(1) : x; if(!veq(sat, ws)) c.fail("saturate:not-clamp(x,0,1)", sat, ws); }
	if(lo > hi) NOT_JUDGED("minVal>maxVal:undefined:not-judged");
	const char* k = x < lo ? "x<minVal" : x > hi ? "x>maxVal" : "inside"; c.cls(k); T want = x < lo ? lo : x > hi ? hi : x;
	if(!veq(got, want)) c.fail(std::string(k) + (veq(got, x) ? ":returns-x" : veq(got, lo) ? ":returns-minVal" : veq(got, hi) ? ":returns-maxVal" : ":returns-other"), got, want);
}
template<class T> static void k_step(const In2<T>& in, vf::Ctx& c){
	T edge = in.a, x = in.b; T got = glm::step(edge, x); if(isnan_b(edge) || isnan_b(x)) NOT_JUDGED("nan-operand:not-judged");
	const char* k = x < edge ? "x<edge" : x == edge ? "x=edge" : "x>edge"; c.cls(k); T want = x < edge ? T(0) : T(1);
	if(!veq(got, want)) c.fail(std::string(k) + (got == T(0) ? ":returns0" : got == T(1) ? ":returns1" : ":returns-other"), got, want);
}
template<class T> static void k_mixbool(const In3<T>& in, vf::Ctx& c){
	bool sel = !(in.c == T(0)); T got = glm::mix(in.a, in.b, sel); T want = sel ? in.b : in.a; c.cls(sel ? "a=true" : "a=false");
	if(!same(got, want)) c.fail(std::string(sel ? "a=true" : "a=false") + (same(got, sel ? in.a : in.b) ? ":returns-unselected" : ":returns-other"), got, want);
}
template<class T> static void judge_tol(vf::Ctx& c, const char* k, T got, LD ref, LD bound){
	LD err = isnan_b(got) ? HUGE_VALL : std::fabs((LD)got - ref); c.ratio("err/bound", (double)std::min(err / bound, (LD)1e30));
	if(!(err <= bound)) c.fail(std::string(k) + (isnan_b(got) ? ":returns-nan" : isinf_b(got) ? ":returns-inf" : ":error>bound"), vf::show(got), vf::show(ref) + " +- " + vf::show(bound));
}
template<class T> static void k_mix(const In3<T>& in, vf::Ctx& c){
	T x = in.a, y = in.b, a = in.c; T got = glm::mix(x, y, a), gl = glm::lerp(x, y, a);
	if(!same(got, gl)) c.fail("lerp!=mix", gl, got);
	if(!fin(x) || !fin(y) || !fin(a)) NOT_JUDGED("non-finite:not-judged");
	LD t1 = (LD)x * ((LD)1 - (LD)a), t2 = (LD)y * (LD)a, r = t1 + t2, S = std::fabs(t1) + std::fabs(t2);
	if(S > maxT<T>() / 4) NOT_JUDGED("overflow:not-judged");
	const char* k = a == T(0) ? "a=0" : a == T(1) ? "a=1" : (a > T(0) && a < T(1)) ? "0<a<1" : "a-outside-[0,1]"; c.cls(k);
	judge_tol<T>(c, k, got, r, 8 * uT<T>() * S + 4 * denorm<T>());     // S=|x(1-a)|+|ya|; 4 roundings (1-a, two products, sum: error <= 3uS) + safety 4
}
template<class T> static void k_smoothstep(const In3<T>& in, vf::Ctx& c){
	T e0 = in.a, e1 = in.b, x = in.c; T got = glm::smoothstep(e0, e1, x);
	if(!fin(e0) || !fin(e1) || !fin(x)) NOT_JUDGED("non-finite:not-judged");
	if(!(e0 < e1)) NOT_JUDGED("edge0>=edge1:undefined:not-judged");
	LD num = (LD)x - (LD)e0, den = (LD)e1 - (LD)e0; if(std::fabs(num) > maxT<T>() / 2 || den > maxT<T>() / 2) NOT_JUDGED("overflow:not-judged");
	LD q = num / den; if(q != 0 && std::fabs(q) < 4 * (LD)std::numeric_limits<T>::min()) NOT_JUDGED("quotient-underflows:not-judged");
	LD t = q < 0 ? 0 : q > 1 ? 1 : q, r = t * t * (3 - 2 * t);
	const char* k = x <= e0 ? "x<=edge0" : x >= e1 ? "x>=edge1" : "edge0<x<edge1"; c.cls(k);
	// t carries 3 roundings (two differences, quotient) and enters squared and in (3-2t)>=1: relative 4*3u; plus 3 roundings of the polynomial; safety x2
	judge_tol<T>(c, k, got, r, 32 * uT<T>() * r + 4 * denorm<T>());
}
template<class T> static void k_mod(const In2<T>& in, vf::Ctx& c){
	T x = in.a, y = in.b; if(!fin(x) || !fin(y)) NOT_JUDGED("non-finite:not-judged"); if(y == T(0)) NOT_JUDGED("y=0:undefined:not-judged");
	T got = glm::mod(x, y);
	LD q = (LD)x / (LD)y; if(std::fabs(q) > maxT<T>() / 4) NOT_JUDGED("quotient-overflows:not-judged");
	LD eq = 1.001L * uT<T>() * std::fabs(q) + denorm<T>();                 // rounding error of fl(x/y)
	LD nlo = std::floor(q - eq), nhi = std::floor(q + eq);                // floor() sees the rounded quotient: every n in [nlo,nhi] is a legitimate branch
	LD rlo = (LD)x - (LD)y * nlo, rhi = (LD)x - (LD)y * nhi; if(rlo > rhi) std::swap(rlo, rhi);
	LD S = std::max(std::fabs((LD)x), std::max(std::fabs((LD)y * nlo), std::fabs((LD)y * nhi))); if(S > maxT<T>() / 4) NOT_JUDGED("overflow:not-judged");
	LD bound = 6 * uT<T>() * S + 2 * denorm<T>();                          // y*n and the final difference: 2 roundings + safety 4
	const char* k = nlo != nhi ? "quotient-near-integer" : (signbit_b(x) != signbit_b(y) ? "x/y<0" : "x/y>=0"); c.cls(k);
	LD g = (LD)got, err = isnan_b(got) ? HUGE_VALL : g < rlo ? rlo - g : g > rhi ? g - rhi : 0; c.ratio("err/bound", (double)std::min(err / bound, (LD)1e30));
	if(!(err <= bound)){ LD tr = (LD)x - (LD)y * std::trunc(q);
		c.fail(std::string(k) + (isnan_b(got) ? ":returns-nan" : std::fabs(g - tr) <= bound ? ":returns-x-y*trunc(x/y)" : ":error>bound"), vf::show(got), vf::show(rlo) + " .. " + vf::show(rhi) + " +- " + vf::show(bound)); }
}
template<class T> static void k_fmod(const In2<T>& in, vf::Ctx& c){ // gtx/common: x - y*trunc(x/y) (exact, C fmod)
	T x = in.a, y = in.b; if(!fin(x) || !fin(y)) NOT_JUDGED("non-finite:not-judged"); if(y == T(0)) NOT_JUDGED("y=0:undefined:not-judged");
	T got = glm::fmod(x, y); T want = (T)fmodl((LD)x, (LD)y); const char* k = signbit_b(x) ? "x<0" : "x>=0"; c.cls(k);
	if(!veq(got, want)) c.fail(std::string(k) + (veq(got, -want) ? ":sign-flipped" : ":wrong-value"), got, want);
}
// fmin/fmax/fclamp: NaN only if every operand is NaN, otherwise the extremum of the non-NaN operands
template<class T, int N, bool MAX> static void k_fminmax(const In4<T>& in, vf::Ctx& c){
	T v[4] = { in.a, in.b, in.c, in.d };
	T got = N == 2 ? (MAX ? glm::fmax(v[0], v[1]) : glm::fmin(v[0], v[1])) : N == 3 ? (MAX ? glm::fmax(v[0], v[1], v[2]) : glm::fmin(v[0], v[1], v[2])) : (MAX ? glm::fmax(v[0], v[1], v[2], v[3]) : glm::fmin(v[0], v[1], v[2], v[3]));
	for(int i = 0; i < N; i++) if(is_snan(v[i])) NOT_JUDGED("signaling-nan-operand:not-judged");
	std::string mask = "nan@"; bool any = false; T want = T(0); for(int i = 0; i < N; i++){ if(isnan_b(v[i])){ mask += (char)('a' + i); continue; } want = !any ? v[i] : MAX ? r_max2(want, v[i]) : r_min2(want, v[i]); any = true; }
	if(mask.size() == 4) mask = "no-nan"; c.cls(mask.c_str());
	if(!any){ if(!isnan_b(got)) c.fail("all-nan:returns-number", vf::show(got), "NaN"); return; }
	if(isnan_b(got)) c.fail(mask + ":returns-nan", got, want);
	else if(!veq(got, want)){ bool oper = false; for(int i = 0; i < N; i++) if(veq(got, v[i])) oper = true; c.fail(mask + (oper ? ":returns-other-operand" : ":returns-non-operand"), got, want); }
}
template<class T> static void k_fclamp(const In3<T>& in, vf::Ctx& c){
	T x = in.a, lo = in.b, hi = in.c; T got = glm::fclamp(x, lo, hi);
	if(is_snan(x) || is_snan(lo) || is_snan(hi)) NOT_JUDGED("signaling-nan-operand:not-judged");
	std::string mask = "nan@"; if(isnan_b(x)) mask += 'x'; if(isnan_b(lo)) mask += 'l'; if(isnan_b(hi)) mask += 'h'; if(mask.size() == 4) mask = "no-nan"; c.cls(mask.c_str());
	if(mask == "nan@xlh"){ if(!isnan_b(got)) c.fail("all-nan:returns-number", vf::show(got), "NaN"); return; }
	if(isnan_b(got)){ c.fail(mask + ":returns-nan", vf::show(got), "a number"); return; }
	if(!isnan_b(lo) && !isnan_b(hi) && lo > hi) NOT_JUDGED("minVal>maxVal:value-undefined:only-nan-rule-judged");
	// value: fmin(fmax(x,minVal),maxVal) with NaN operands ignored
	T m = isnan_b(x) ? lo : isnan_b(lo) ? x : r_max2(x, lo); T want = isnan_b(m) ? hi : isnan_b(hi) ? m : r_min2(m, hi);
	if(!veq(got, want)) c.fail(mask + ":wrong-value", got, want);
}

// ---------------------------------------------------------------- registration
#define OPS1(NAME, FN) VF_OP(NAME##_f, In1<float>, "f"){ FN<float>(in, c); } VF_OP(NAME##_d, In1<double>, "d"){ FN<double>(in, c); }
#define OPS1K(NAME, FN, K) VF_OP(NAME##_f, In1<float>, "f"){ FN<float, K>(in, c); } VF_OP(NAME##_d, In1<double>, "d"){ FN<double, K>(in, c); }
#define OPS2(NAME, FN) VF_OP(NAME##_f, In2<float>, "ff"){ FN<float>(in, c); } VF_OP(NAME##_d, In2<double>, "dd"){ FN<double>(in, c); }
#define OPS3(NAME, FN) VF_OP(NAME##_f, In3<float>, "fff"){ FN<float>(in, c); } VF_OP(NAME##_d, In3<double>, "ddd"){ FN<double>(in, c); }
#define OPS4NM(NAME, FN, N, MX) VF_OP(NAME##_f, In4<float>, "ffff"){ FN<float, N, MX>(in, c); } VF_OP(NAME##_d, In4<double>, "dddd"){ FN<double, N, MX>(in, c); }
// hand-rolled (full 2^32 sweep in both tiers)
OPS1K(roundEven, k_rounding, K_ROUNDEVEN) OPS1(fract, k_fract) OPS1(sign, k_sign) OPS1K(iround, k_iround, false) OPS1K(uround, k_iround, true) OPS1K(mirrorRepeat, k_wrap, W_MIRRORREPEAT)
// library-backed: std:: functions behind a using-declaration or a one-line wrapper (quick: strided sweep + lattice, thorough: full)
OPS1K(round, k_rounding, K_ROUND) OPS1K(trunc, k_rounding, K_TRUNC) OPS1K(floor, k_rounding, K_FLOOR) OPS1K(ceil, k_rounding, K_CEIL) OPS1(abs, k_abs) OPS1(classify, k_classify) OPS1(modf, k_modf) OPS1(frexp, k_frexp)
OPS1K(texclamp, k_wrap, W_CLAMP) OPS1K(repeat, k_wrap, W_REPEAT) OPS1K(mirrorClamp, k_wrap, W_MIRRORCLAMP)
VF_OP(floatBitsTo_f, In1<float>, "f"){ k_f2i(in, c); }
VF_OP(bitsToFloat_f, InU, "u"){ k_i2f(in, c); }
VF_OP(ldexp_f, InLf, "fi"){ k_ldexp<float>(in, c); }
VF_OP(ldexp_d, InLd, "dl"){ k_ldexp<double>(in, c); }
OPS2(step, k_step) OPS2(mod, k_mod) OPS2(fmod, k_fmod)
OPS3(clamp, k_clamp) OPS3(mix, k_mix) OPS3(mix_bool, k_mixbool) OPS3(smoothstep, k_smoothstep) OPS3(fclamp, k_fclamp)
OPS4NM(min2, k_minmax, 2, false) OPS4NM(min3, k_minmax, 3, false) OPS4NM(min4, k_minmax, 4, false)
OPS4NM(max2, k_minmax, 2, true) OPS4NM(max3, k_minmax, 3, true) OPS4NM(max4, k_minmax, 4, true)
OPS4NM(fmin2, k_fminmax, 2, false) OPS4NM(fmin3, k_fminmax, 3, false) OPS4NM(fmin4, k_fminmax, 4, false)
OPS4NM(fmax2, k_fminmax, 2, true) OPS4NM(fmax3, k_fminmax, 3, true) OPS4NM(fmax4, k_fminmax, 4, true)

// ---------------------------------------------------------------- workload
#define RUN(OP, IN) do{ if(w_##OP) vf::run(c, OP, IN); }while(0)
#define WANT(OP) static bool w_##OP = false;
#define WANT2(N) WANT(N##_f) WANT(N##_d)
WANT2(roundEven) WANT2(round) WANT2(trunc) WANT2(fract) WANT2(sign) WANT2(iround) WANT2(uround) WANT2(mirrorRepeat)
WANT2(floor) WANT2(ceil) WANT2(abs) WANT2(classify) WANT2(modf) WANT2(frexp) WANT2(texclamp) WANT2(repeat) WANT2(mirrorClamp)
WANT(floatBitsTo_f) WANT(bitsToFloat_f) WANT2(ldexp) WANT2(step) WANT2(mod) WANT2(fmod) WANT2(clamp) WANT2(mix) WANT2(mix_bool) WANT2(smoothstep) WANT2(fclamp)
WANT2(min2) WANT2(min3) WANT2(min4) WANT2(max2) WANT2(max3) WANT2(max4) WANT2(fmin2) WANT2(fmin3) WANT2(fmin4) WANT2(fmax2) WANT2(fmax3) WANT2(fmax4)
#define SETW(OP) w_##OP = vf::want(OP);
#define SETW2(N) SETW(N##_f) SETW(N##_d)

#define UN_HEAVY(T, S, x) do{ In1<T> i1{ x }; RUN(roundEven_##S, i1); RUN(fract_##S, i1); RUN(sign_##S, i1); RUN(mirrorRepeat_##S, i1); \
	if(x >= T(0) && x < T(4294967296.0)){ RUN(uround_##S, i1); if(x < T(2147483648.0)) RUN(iround_##S, i1); } }while(0)
#define UN_LIGHT(T, S, x) do{ In1<T> i1{ x }; RUN(round_##S, i1); RUN(trunc_##S, i1); RUN(floor_##S, i1); RUN(ceil_##S, i1); RUN(abs_##S, i1); RUN(classify_##S, i1); RUN(modf_##S, i1); RUN(frexp_##S, i1); RUN(texclamp_##S, i1); RUN(repeat_##S, i1); RUN(mirrorClamp_##S, i1); }while(0)

// small lattices for the 4-operand functions
template<class T> static std::vector<T> small_lattice(bool thorough){
	typedef std::numeric_limits<T> L; std::vector<T> v; auto both = [&](T x){ v.push_back(x); v.push_back(-x); };
	both(T(0)); both(L::denorm_min()); both(L::min()); both(T(0.5)); both(T(1)); both(T(2.5)); both(L::max()); both(L::infinity());
	v.push_back(L::quiet_NaN()); v.push_back(-L::quiet_NaN()); v.push_back(fp<T>::make(fp<T>::raw(L::infinity()) | 1));
	if(thorough){ both(T(1.5)); both(T(3)); both(T(8388608)); both(T(16777216)); both(T(2147483648.0)); both(T(1e-3)); both(T(1e10)); both(T(0.75)); both(fp<T>::make(fp<T>::raw(T(1)) + 1)); both(fp<T>::make(fp<T>::raw(T(1)) - 1)); both(T(255)); both(T(100)); }
	return v;
}
// random operand: all bit patterns, log-uniform magnitudes, small numbers with simple fractions, lattice values
template<class T> static T rnd_operand(vf::Rng& r, const std::vector<T>& L){
	switch(r.below(6)){
		case 0: return sizeof(T) == 4 ? (T)r.fbits() : (T)r.dbits();
		case 1: return (T)r.logmag(sizeof(T) == 4 ? -140 : -1060, sizeof(T) == 4 ? 126 : 1020);
		case 2: return (T)r.logmag(-12, 12);
		case 3: return (T)((double)r.range(-64, 64) + (double)r.range(0, 8) / 8.0);
		case 4: return L[r.below(L.size())];
		default: return (T)r.uniform(-4, 4);
	}
}
template<class T> static T nudge(vf::Rng& r, T x){ if(!isfinite_b(x)) return x; typename fp<T>::I o = ord(x) + (typename fp<T>::I)r.range(-2, 2); T y = from_ord<T>(o); return isfinite_b(y) ? y : x; }

template<class T> static void nary_one(vf::Ctx& c, T a, T b, T d, T e, int arity);
#define NARY_IMPL(T, S) \
template<> void nary_one<T>(vf::Ctx& c, T a, T b, T d, T e, int arity){ \
	if(arity == 2){ In2<T> i2{ a, b }; RUN(step_##S, i2); RUN(mod_##S, i2); RUN(fmod_##S, i2); In4<T> i4{ a, b, T(0), T(0) }; RUN(min2_##S, i4); RUN(max2_##S, i4); RUN(fmin2_##S, i4); RUN(fmax2_##S, i4); } \
	else if(arity == 3){ In3<T> i3{ a, b, d }; RUN(clamp_##S, i3); RUN(mix_##S, i3); RUN(smoothstep_##S, i3); RUN(fclamp_##S, i3); In3<T> ib{ a, b, (d > T(0)) ? T(1) : T(0) }; RUN(mix_bool_##S, ib); \
		In4<T> i4{ a, b, d, T(0) }; RUN(min3_##S, i4); RUN(max3_##S, i4); RUN(fmin3_##S, i4); RUN(fmax3_##S, i4); } \
	else { In4<T> i4{ a, b, d, e }; RUN(min4_##S, i4); RUN(max4_##S, i4); RUN(fmin4_##S, i4); RUN(fmax4_##S, i4); } }
NARY_IMPL(float, f) NARY_IMPL(double, d)

template<class T> static void ldexp_one(vf::Ctx& c, T x, int e);
template<> void ldexp_one<float>(vf::Ctx& c, float x, int e){ InLf i{ x, e }; RUN(ldexp_f, i); }
template<> void ldexp_one<double>(vf::Ctx& c, double x, int e){ InLd i{ x, e }; RUN(ldexp_d, i); }

template<class T> static void nary_workload(const char* tag){
	const std::vector<T> L = lattice_of<T>::get(); const u64 n = L.size(); std::string t = tag;
	const std::vector<T> S4 = small_lattice<T>(vf::thorough()); const u64 m = S4.size();
	vf::sweep((t + "lat2").c_str(), n * n, 256, [&](vf::Ctx& c, u64 lo, u64 hi){ for(u64 i = lo; i < hi; i++) nary_one<T>(c, L[i / n], L[i % n], T(0), T(0), 2); });
	vf::sweep((t + "lat3").c_str(), n * n * n, 4096, [&](vf::Ctx& c, u64 lo, u64 hi){ for(u64 i = lo; i < hi; i++) nary_one<T>(c, L[i / (n * n)], L[(i / n) % n], L[i % n], T(0), 3); });
	vf::sweep((t + "lat4").c_str(), m * m * m * m, 4096, [&](vf::Ctx& c, u64 lo, u64 hi){ for(u64 i = lo; i < hi; i++) nary_one<T>(c, S4[i / (m * m * m)], S4[(i / (m * m)) % m], S4[(i / m) % m], S4[i % m], 4); });
	// ldexp: lattice x exponent list
	std::vector<int> E; for(int e = -300; e <= 300; e += 7) E.push_back(e); for(int e = -5; e <= 5; e++) E.push_back(e);
	int ex[] = { -2147483647 - 1, -100000, -2200, -2199, -1200, -1075, -1074, -1073, -1022, -1023, -150, -149, -148, -127, -126, -125, -24, -23, 23, 24, 126, 127, 128, 149, 150, 277, 1023, 1024, 1100, 2100, 2199, 2200, 2201, 100000, 2147483647 };
	for(int e : ex) E.push_back(e);
	vf::sweep((t + "ldexp-lat").c_str(), n * E.size(), 256, [&](vf::Ctx& c, u64 lo, u64 hi){ for(u64 i = lo; i < hi; i++) ldexp_one<T>(c, L[i / E.size()], E[i % E.size()]); });
	const u64 N = vf::N(1000000, 30000000);
	vf::parallel((t + "rnd").c_str(), [&](int tid, int T_, vf::Ctx& c){
		for(u64 i = tid; i < N; i += T_){
			T a = rnd_operand<T>(c.rng, L), b = rnd_operand<T>(c.rng, L), d = rnd_operand<T>(c.rng, L), e = rnd_operand<T>(c.rng, L);
			switch(c.rng.below(8)){ case 0: b = a; break; case 1: b = nudge(c.rng, a); break; case 2: d = nudge(c.rng, a); break; case 3: d = nudge(c.rng, b); break; case 4: e = nudge(c.rng, d); b = nudge(c.rng, a); break; default: break; }
			nary_one<T>(c, a, b, d, e, 2); nary_one<T>(c, a, b, d, e, 4);
			// three-operand functions: also ordered edges / bounds so that the documented domains (edge0<edge1, minVal<=maxVal) are hit
			if(c.rng.coin() && !isnan_b(a) && !isnan_b(b) && b < a) std::swap(a, b);
			nary_one<T>(c, a, b, d, e, 3); nary_one<T>(c, d, a, b, e, 3);
			// mod near integer quotients: x = k*y (+- ulps)
			if((i & 3) == 0 && isfinite_b(b) && b != T(0)){ T k = (T)c.rng.range(-40, 40); T x = nudge(c.rng, (T)(k * b)); if(isfinite_b(x)) nary_one<T>(c, x, b, d, e, 2); }
			int ee = c.rng.coin() ? c.rng.range(-40, 40) : c.rng.range(sizeof(T) == 4 ? -320 : -2250, sizeof(T) == 4 ? 320 : 2250); ldexp_one<T>(c, a, ee);
		}
	});
}

static void workload(){
	SETW2(roundEven) SETW2(round) SETW2(trunc) SETW2(fract) SETW2(sign) SETW2(iround) SETW2(uround) SETW2(mirrorRepeat)
	SETW2(floor) SETW2(ceil) SETW2(abs) SETW2(classify) SETW2(modf) SETW2(frexp) SETW2(texclamp) SETW2(repeat) SETW2(mirrorClamp)
	SETW(floatBitsTo_f) SETW(bitsToFloat_f) SETW2(ldexp) SETW2(step) SETW2(mod) SETW2(fmod) SETW2(clamp) SETW2(mix) SETW2(mix_bool) SETW2(smoothstep) SETW2(fclamp)
	SETW2(min2) SETW2(min3) SETW2(min4) SETW2(max2) SETW2(max3) SETW2(max4) SETW2(fmin2) SETW2(fmin3) SETW2(fmin4) SETW2(fmax2) SETW2(fmax3) SETW2(fmax4)
	// ---- float: complete enumeration of all 2^32 patterns.  --x-stride N (sanitizer re-runs) thins the whole sweep;
	// in the quick tier the library-backed functions see every 16th pattern (phase from the seed) plus the lattice.
	u64 stride = 1; { auto it = vf::cfg().extra.find("stride"); if(it != vf::cfg().extra.end()) stride = strtoull(it->second.c_str(), 0, 10) | 1; }
	const u64 phase = stride > 1 ? (vf::cfg().seed * 2654435761ULL) % stride : 0;
	const u64 lstride = vf::thorough() ? 1 : 16, lphase = (vf::cfg().seed * 40503ULL) % lstride;
	vf::note("float_sweep", "hand-rolled ops: every " + std::to_string(stride) + "th of the 2^32 patterns; library-backed ops: every " + std::to_string(stride * lstride) + "th");
	const bool anyHeavy = w_roundEven_f || w_fract_f || w_sign_f || w_mirrorRepeat_f || w_iround_f || w_uround_f;
	const bool anyLight = w_round_f || w_trunc_f || w_floor_f || w_ceil_f || w_abs_f || w_classify_f || w_modf_f || w_frexp_f || w_texclamp_f || w_repeat_f || w_mirrorClamp_f || w_floatBitsTo_f || w_bitsToFloat_f;
	if(anyHeavy || anyLight) vf::sweep("f32", (1ULL << 32) / stride, 1u << 16, [&](vf::Ctx& c, u64 lo, u64 hi){
		for(u64 i = lo; i < hi; i++){ u32 b = (u32)(i * stride + phase); float x = bitsf(b);
			if(anyHeavy) UN_HEAVY(float, f, x);
			if(anyLight && (i % lstride) == lphase){ UN_LIGHT(float, f, x); RUN(floatBitsTo_f, In1<float>{ x }); RUN(bitsToFloat_f, InU{ b }); }
		} fc_flush(c); });
	{ std::vector<float> L = float_lattice(); vf::sweep("f32lat", L.size(), 8, [&](vf::Ctx& c, u64 lo, u64 hi){ for(u64 i = lo; i < hi; i++){ float x = L[i]; UN_HEAVY(float, f, x); UN_LIGHT(float, f, x); RUN(floatBitsTo_f, In1<float>{ x }); RUN(bitsToFloat_f, InU{ fbits(x) }); } fc_flush(c); }); }
	// ---- double: lattice (with +-1,2 ulp neighbours) + structured random
	{ std::vector<double> L = double_lattice(); std::vector<double> LL; for(double x : L){ LL.push_back(x); if(isfinite_b(x)) for(int d = -2; d <= 2; d++) if(d){ double y = from_ord<double>(ord(x) + d); if(isfinite_b(y)) LL.push_back(y); } }
		for(int k = 0; k < 64; k++){ double p = std::ldexp(1.0, k - 2); for(double y : { p, p + 0.5, p - 0.5, p + 1, p - 1, p + 1.5 }){ LL.push_back(y); LL.push_back(-y); } }
		vf::sweep("f64lat", LL.size(), 8, [&](vf::Ctx& c, u64 lo, u64 hi){ for(u64 i = lo; i < hi; i++){ double x = LL[i]; UN_HEAVY(double, d, x); UN_LIGHT(double, d, x); } fc_flush(c); });
		const u64 N = vf::N(1000000, 100000000);
		vf::parallel("f64rnd", [&](int tid, int T_, vf::Ctx& c){ for(u64 i = tid; i < N; i += T_){ double x;
			switch(c.rng.below(6)){
				case 0: x = c.rng.dbits(); break;
				case 1: x = c.rng.logmag(-1070, 1023); break;
				case 2: x = c.rng.logmag(-4, 54); break;
				case 3: { double k = std::floor(std::fabs(c.rng.logmag(0, 53))); x = k + 0.5; x = from_ord<double>(ord(x) + c.rng.range(-1, 1)); if(c.rng.coin()) x = -x; } break;   // ties and their neighbours
				case 4: { double k = std::floor(std::fabs(c.rng.logmag(0, 62))); x = from_ord<double>(ord(k) + c.rng.range(-1, 1)); if(c.rng.coin()) x = -x; } break;               // integers and their neighbours
				default: x = c.rng.uniform(-3, 3); break;
			}
			UN_HEAVY(double, d, x); UN_LIGHT(double, d, x); } fc_flush(c); });
	}
	nary_workload<float>("f32-");
	nary_workload<double>("f64-");
}
VF_MAIN("C11_common")
