// C04 — quaternion, matrix, axis-angle and Euler forms of a rotation agree.
//
// Every glm result is compared with a wide-precision evaluation (W = long double for float, __float128 for double) of the
// defining polynomial / trigonometric formula computed from the same stored inputs, or with the identity the property states.
// Tolerances are  SF(=2) x (first-order rounding-error count) x u x (magnitude sum)  (+ the effect of |q|^2-1 = delta of the
// stored "unit" quaternion, + a condition factor where the documented formula is ill-conditioned: axis() near the identity,
// eulerAngles() near gimbal lock, two-vector constructors near antiparallel input).  Derivations are at each check.
// libm sin/cos/asin/acos/atan2 are assumed accurate to 1 ulp (relative 2u).
//
// The same source is built twice: default layout and -DGLM_FORCE_QUAT_DATA_WXYZ.  Quaternion records are always (w,x,y,z).
#include "vf.hpp"
#include "ref.hpp"
extern "C" { __float128 sqrtq(__float128); __float128 sinq(__float128); __float128 cosq(__float128); __float128 atan2q(__float128,__float128); __float128 atanq(__float128); }   // libquadmath (no header: clang has none)
#include <cstring>
#include <glm/glm.hpp>
#include <glm/gtc/quaternion.hpp>
#include <glm/gtc/type_ptr.hpp>
#include <glm/gtx/quaternion.hpp>
#include <glm/gtx/euler_angles.hpp>
#include <glm/gtx/rotate_vector.hpp>
#include <glm/gtx/dual_quaternion.hpp>
using namespace ref;
typedef vf::u64 u64;

#ifdef GLM_FORCE_QUAT_DATA_WXYZ
static const bool WXYZ = true;
#else
static const bool WXYZ = false;
#endif

// ---------------------------------------------------------------- wide arithmetic
static inline long double w_sqrt(long double x){ return sqrtl(x); }   static inline __float128 w_sqrt(__float128 x){ return sqrtq(x); }
static inline long double w_sin(long double x){ return sinl(x); }     static inline __float128 w_sin(__float128 x){ return sinq(x); }
static inline long double w_cos(long double x){ return cosl(x); }     static inline __float128 w_cos(__float128 x){ return cosq(x); }
static inline long double w_atan2(long double y,long double x){ return atan2l(y,x); } static inline __float128 w_atan2(__float128 y,__float128 x){ return atan2q(y,x); }
template<class W> static inline W w_abs(W x){ return x<0? -x: x; }
template<class W> static inline W w_max(W a,W b){ return a>b? a: b; }
template<class W> static inline W w_min(W a,W b){ return a<b? a: b; }

template<class T> struct Tr;
template<> struct Tr<float>{ typedef long double W; enum{ VE=30 };
	static W u(){ return ldexpl(1.0L,-24); } static W tiny(){ return ldexpl(1.0L,-149); } static W p2(int e){ return ldexpl(1.0L,e); } static W pi(){ return 3.14159265358979323846264338327950288L; } };
template<> struct Tr<double>{ typedef __float128 W; enum{ VE=200 };
	static W u(){ return (W)ldexpl(1.0L,-53); } static W tiny(){ return (W)ldexpl(1.0L,-1074); } static W p2(int e){ return (W)ldexpl(1.0L,e); } static W pi(){ return 4*atanq((W)1); } };
#define TRT typedef typename Tr<T>::W W; const W u=Tr<T>::u(); const W tiny=Tr<T>::tiny(); (void)u; (void)tiny;
static const double SF = 2.0;   // safety factor applied to every first-order error count

static inline void rat(vf::Ctx& c,const char* n,double r){ if(!(r==r)) return; if(r>1e30) r=1e30; c.ratio(n,r); }
#define SKIP(why) do{ c.cls("skipped:" why); return; }while(0)

template<class T> static std::string sv(const T* p,int n){ std::string s="("; for(int i=0;i<n;i++){ if(i) s+=", "; s+=vf::show(p[i]); } return s+")"; }
template<class T,class W> static std::string sw(const W* p,int n){ T t[16]; for(int i=0;i<n;i++) t[i]=(T)p[i]; return sv<T>(t,n); }
template<class T> static bool fin(const T* p,int n){ for(int i=0;i<n;i++) if(!isfinite_b(p[i])) return false; return true; }

// ---------------------------------------------------------------- output digest (order-independent sum over all evaluations of
// hash(operation, input bytes, glm output bits)); written as a note so that the default-layout and the WXYZ build, which see the
// same inputs for the same seed/scale/threads, can be compared bitwise offline
struct alignas(64) DigSlot { std::atomic<u64> v; char pad[56]; };
static DigSlot g_dig[64];
template<class T> static void dig(vf::Ctx& c,const T* out,int n){ const vf::Op* op=vf::g_crumb.op; if(!op) return; u64 h=vf::hash_bytes(vf::g_crumb.in,op->in_size)^vf::hash_str(op->name); h=h*0x9e3779b97f4a7c15ULL+vf::hash_bytes(out,sizeof(T)*(size_t)n);
	g_dig[c.tid&63].v.fetch_add(vf::splitmix64(h),std::memory_order_relaxed); }
template<class T> static void digq(vf::Ctx& c,const glm::qua<T>& g){ T o[4]={g.w,g.x,g.y,g.z}; dig(c,o,4); }
template<class T,int C,int R> static void digm(vf::Ctx& c,const glm::mat<C,R,T>& m){ T o[16]; int k=0; for(int i=0;i<C;i++) for(int j=0;j<R;j++) o[k++]=m[i][j]; dig(c,o,k); }

// ---------------------------------------------------------------- wide reference algebra (column-major 3x3: m[col][row], like glm)
template<class W> struct M3 { W m[3][3]; };
template<class W> static M3<W> mmul(const M3<W>& A,const M3<W>& B){ M3<W> R; for(int c=0;c<3;c++) for(int r=0;r<3;r++){ W s=0; for(int k=0;k<3;k++) s+=A.m[k][r]*B.m[c][k]; R.m[c][r]=s; } return R; }
template<class W> static M3<W> mabs(const M3<W>& A){ M3<W> R; for(int c=0;c<3;c++) for(int r=0;r<3;r++) R.m[c][r]=w_abs(A.m[c][r]); return R; }
template<class W> static M3<W> mident(){ M3<W> R; for(int c=0;c<3;c++) for(int r=0;r<3;r++) R.m[c][r]= c==r? W(1): W(0); return R; }
// right-handed rotation by angle a about coordinate axis ax (0=X,1=Y,2=Z)
template<class W> static M3<W> axrot(int ax,W a){ M3<W> R=mident<W>(); W c=w_cos(a), s=w_sin(a); int j=(ax+1)%3,k=(ax+2)%3; R.m[j][j]=c; R.m[j][k]=s; R.m[k][j]=-s; R.m[k][k]=c; return R; }
// quaternion (w,x,y,z) -> matrix, the polynomial 1-2(yy+zz) ... (valid identity with q*v formula for any |q|)
template<class W> static M3<W> qmat(const W* q){ W w=q[0],x=q[1],y=q[2],z=q[3]; M3<W> R;
	R.m[0][0]=1-2*(y*y+z*z); R.m[0][1]=2*(x*y+w*z); R.m[0][2]=2*(x*z-w*y);
	R.m[1][0]=2*(x*y-w*z); R.m[1][1]=1-2*(x*x+z*z); R.m[1][2]=2*(y*z+w*x);
	R.m[2][0]=2*(x*z+w*y); R.m[2][1]=2*(y*z-w*x); R.m[2][2]=1-2*(x*x+y*y); return R; }
// magnitude sums of the parenthesised terms of qmat (S_e of the error model)
template<class W> static M3<W> qmatS(const W* q){ W w=q[0],x=q[1],y=q[2],z=q[3]; M3<W> R;
	R.m[0][0]=y*y+z*z; R.m[1][1]=x*x+z*z; R.m[2][2]=x*x+y*y;
	R.m[0][1]=R.m[1][0]=w_abs(x*y)+w_abs(w*z); R.m[0][2]=R.m[2][0]=w_abs(x*z)+w_abs(w*y); R.m[1][2]=R.m[2][1]=w_abs(y*z)+w_abs(w*x); return R; }
template<class W> static void mvec(const M3<W>& A,const W* v,W* o){ for(int r=0;r<3;r++) o[r]=A.m[0][r]*v[0]+A.m[1][r]*v[1]+A.m[2][r]*v[2]; }
template<class W> static void mtvec(const M3<W>& A,const W* v,W* o){ for(int c=0;c<3;c++) o[c]=A.m[c][0]*v[0]+A.m[c][1]*v[1]+A.m[c][2]*v[2]; }
// Hamilton product (w,x,y,z) and the magnitude sum of each component
template<class W> static void hamilton(const W* p,const W* q,W* r,W* S=nullptr){
	r[0]=p[0]*q[0]-p[1]*q[1]-p[2]*q[2]-p[3]*q[3]; r[1]=p[0]*q[1]+p[1]*q[0]+p[2]*q[3]-p[3]*q[2];
	r[2]=p[0]*q[2]+p[2]*q[0]+p[3]*q[1]-p[1]*q[3]; r[3]=p[0]*q[3]+p[3]*q[0]+p[1]*q[2]-p[2]*q[1];
	if(S){ S[0]=w_abs(p[0]*q[0])+w_abs(p[1]*q[1])+w_abs(p[2]*q[2])+w_abs(p[3]*q[3]); S[1]=w_abs(p[0]*q[1])+w_abs(p[1]*q[0])+w_abs(p[2]*q[3])+w_abs(p[3]*q[2]);
		S[2]=w_abs(p[0]*q[2])+w_abs(p[2]*q[0])+w_abs(p[3]*q[1])+w_abs(p[1]*q[3]); S[3]=w_abs(p[0]*q[3])+w_abs(p[3]*q[0])+w_abs(p[1]*q[2])+w_abs(p[2]*q[1]); } }
template<class T,class W> static void widen(const T* a,W* o,int n){ for(int i=0;i<n;i++) o[i]=(W)a[i]; }
template<class W> static W n2w(const W* a,int n){ W s=0; for(int i=0;i<n;i++) s+=a[i]*a[i]; return s; }

// ---------------------------------------------------------------- input records, glm operand construction
template<class T> struct InQ { T q[4]; T p[4]; T v[4]; int mode; int aux; };   // q,p = (w,x,y,z)
template<class T> struct InE { T a[4]; int which; int mode; };
#define FMQ(F) F F F F F F F F F F F F "ii"
#define FME(F) F F F F "ii"

// the stored quaternion is "unit": all finite and | |q|^2 - 1 | <= 4u ; delta = |q|^2 - 1
template<class T> static bool unitq(const T* q,typename Tr<T>::W* qw,typename Tr<T>::W& delta){ if(!fin(q,4)) return false; widen(q,qw,4); delta=n2w(qw,4)-1; return w_abs(delta)<=4*Tr<T>::u(); }
template<class T> static bool unitv(const T* v,typename Tr<T>::W* vw){ if(!fin(v,3)) return false; widen(v,vw,3); return w_abs(n2w(vw,3)-1)<=4*Tr<T>::u(); }
// four public ways of building a quaternion from components (mode&3)
// the four-scalar constructor takes (w,x,y,z), or (x,y,z,w) when GLM_FORCE_QUAT_DATA_XYZW is defined
#ifdef GLM_FORCE_QUAT_DATA_XYZW
#	define C04_Q4(Q,w,x,y,z) Q(x,y,z,w)
#else
#	define C04_Q4(Q,w,x,y,z) Q(w,x,y,z)
#endif
template<class T> static glm::qua<T> mkq(const T* q,int mode){ typedef glm::qua<T> Q;
	switch(mode&3){ case 0: return Q::wxyz(q[0],q[1],q[2],q[3]); case 1: return Q(q[0],glm::vec<3,T>(q[1],q[2],q[3])); case 2: return C04_Q4(Q,q[0],q[1],q[2],q[3]);
	default: { Q r=Q::wxyz(T(1),T(0),T(0),T(0)); r.w=q[0]; r.x=q[1]; r.y=q[2]; r.z=q[3]; return r; } } }
template<class T> static void getq(const glm::qua<T>& g,T* o){ o[0]=g.w; o[1]=g.x; o[2]=g.y; o[3]=g.z; }
template<class T> static void getm3(const glm::mat<3,3,T>& m,T o[3][3]){ for(int c=0;c<3;c++) for(int r=0;r<3;r++) o[c][r]=m[c][r]; }
template<class T> static void getm4(const glm::mat<4,4,T>& m,T o[4][4]){ for(int c=0;c<4;c++) for(int r=0;r<4;r++) o[c][r]=m[c][r]; }
template<class T> static std::string sm3(const T m[3][3]){ return sv<T>(&m[0][0],9); }
// largest-magnitude component of a unit quaternion as seen by the oracle ("tie" when the two largest squares are within 64u)
template<class W> static const char* largest(const W* q,W u){ int b=0; for(int i=1;i<4;i++) if(w_abs(q[i])>w_abs(q[b])) b=i; for(int i=0;i<4;i++) if(i!=b && q[b]*q[b]-q[i]*q[i]<=64*u) return "tie";
	static const char* N[4]={"w","x","y","z"}; return N[b]; }
// max-norm distance of got to +-want
template<class T,class W> static W dist_pm(const T* got,const W* want,int n){ W ep=0,em=0; for(int i=0;i<n;i++){ ep=w_max(ep,w_abs((W)got[i]-want[i])); em=w_max(em,w_abs((W)got[i]+want[i])); } return w_min(ep,em); }

// ================================================================ q*v  ==  mat3_cast(q)*v  ==  mat4_cast(q)*v4  == rotation formula
// reference: r = v + 2w(a x v) + 2 a x (a x v), a=(x,y,z)  (the same polynomial as qmat(q) v, for any |q|).
// q*v path (V=|v|_2, a=|(x,y,z)|): cross: 2u aV per component; second cross: (2 sqrt3+2)u a^2 V; (uv*w + uuv)*2 and v+...:
//   per component <= (8|w|a + 13a^2 + 1) u V <= 18 u V.
// matrix path: entries within 5u (see matcast), product 3u V + 5 sqrt3 u V <= 12 u V.           => K = 18 for both
// v*q = inverse(q)*v: inverse = conjugate/dot(q,q) perturbs q by 5u relative -> d(q v q*) <= 20 u V                => K = 38
template<class T> static void k_rotate(const InQ<T>& in,vf::Ctx& c){ TRT
	W q[4],d; if(!unitq(in.q,q,d)) SKIP("not-unit"); if(!fin(in.v,4)) SKIP("non-finite-vector");
	W v[3]; widen(in.v,v,3); W V=w_sqrt(n2w(v,3)); if(V!=0 && !(V>=Tr<T>::p2(-Tr<T>::VE)&&V<=Tr<T>::p2(Tr<T>::VE))) SKIP("vector-magnitude-out-of-domain");
	M3<W> R=qmat(q); W r[3],rt[3]; mvec(R,v,r);
	{ W n2=1+d, qi[4]={q[0]/n2,-q[1]/n2,-q[2]/n2,-q[3]/n2}; M3<W> Ri=qmat(qi); mvec(Ri,v,rt); }
	W B=W(SF*18)*u*V+32*tiny, Bi=W(SF*38)*u*V+32*tiny;
	glm::qua<T> gq=mkq(in.q,in.mode); glm::vec<3,T> gv(in.v[0],in.v[1],in.v[2]); glm::vec<4,T> gv4(in.v[0],in.v[1],in.v[2],in.v[3]);
	c.cls(V==0?"zero-vector":"regular");
	auto chk3=[&](const char* name,const glm::vec<3,T>& g,const W* want,W bound,const char* what){ T o[3]={g.x,g.y,g.z};
		if(!fin(o,3)){ c.fail(std::string(name)+":non-finite-for-finite-input",sv<T>(o,3),sw<T>(want,3)); return; }
		W e=0; for(int i=0;i<3;i++) e=w_max(e,w_abs((W)o[i]-want[i])); rat(c,(std::string(name)+":err/bound").c_str(),(double)(e/bound));
		if(!(e<=bound)) c.fail(std::string(name)+":"+what,sv<T>(o,3),sw<T>(want,3)); };
	auto chk4=[&](const char* name,const glm::vec<4,T>& g,const W* want,W bound,const char* what){ chk3(name,glm::vec<3,T>(g.x,g.y,g.z),want,bound,what);
		if(!(w_abs((W)g.w-(W)in.v[3])<=4*u*w_abs((W)in.v[3])+4*tiny)) c.fail(std::string(name)+":w-component-not-preserved",vf::show(g.w),vf::show(in.v[3])); };
	{ glm::vec<3,T> g=gq*gv; T o[3]={g.x,g.y,g.z}; dig(c,o,3); g=gv*gq; T o2[3]={g.x,g.y,g.z}; dig(c,o2,3); }
	chk3("q*v",gq*gv,r,B,"differs-from-rotation-formula");
	chk3("v*q",gv*gq,rt,Bi,"differs-from-inverse-rotation");
	chk3("mat3_cast(q)*v",glm::mat3_cast(gq)*gv,r,B,"differs-from-rotation-formula");
	chk4("mat4_cast(q)*v4",glm::mat4_cast(gq)*gv4,r,B,"differs-from-rotation-formula");
	chk4("q*v4",gq*gv4,r,B,"differs-from-rotation-formula");
	chk4("v4*q",gv4*gq,rt,Bi,"differs-from-inverse-rotation");
	chk3("gtx-rotate(q,v)",glm::rotate(gq,gv),r,B,"differs-from-rotation-formula");
	chk4("gtx-rotate(q,v4)",glm::rotate(gq,gv4),r,B,"differs-from-rotation-formula");
	chk3("gtx-cross(q,v)",glm::cross(gq,gv),r,B,"differs-from-rotation-formula");
	chk3("gtx-cross(v,q)",glm::cross(gv,gq),rt,Bi,"differs-from-inverse-rotation");
}

// ================================================================ mat3_cast / mat4_cast / toMat3 / toMat4 / explicit conversion: entries
// diagonal 1-2(a+b): products u each, sum u, final subtraction u|e| : 4u(a+b)+u|e| ; off-diagonal 2(p+-q): 4u(|p|+|q|).
template<class T> static void k_matcast(const InQ<T>& in,vf::Ctx& c){ TRT
	W q[4],d; if(!unitq(in.q,q,d)) SKIP("not-unit"); M3<W> R=qmat(q),S=qmatS(q); glm::qua<T> gq=mkq(in.q,in.mode);
	c.cls(largest(q,u)); digm(c,glm::mat3_cast(gq)); digm(c,glm::mat4_cast(gq));
	for(int var=0;var<6;var++){ static const char* N[6]={"mat3_cast","toMat3","mat3(q)","mat4_cast","toMat4","mat4(q)"}; T g[3][3]; bool homog=true;
		if(var<3){ glm::mat<3,3,T> m= var==0? glm::mat3_cast(gq): var==1? glm::toMat3(gq): static_cast<glm::mat<3,3,T> >(gq); getm3(m,g); }
		else { glm::mat<4,4,T> m= var==3? glm::mat4_cast(gq): var==4? glm::toMat4(gq): static_cast<glm::mat<4,4,T> >(gq); for(int cc=0;cc<3;cc++) for(int r=0;r<3;r++) g[cc][r]=m[cc][r];
			for(int i=0;i<3;i++) if(!(m[3][i]==0&&m[i][3]==0)) homog=false; if(!(m[3][3]==1)) homog=false; }
		if(!homog) c.fail(std::string(N[var])+":homogeneous-row-or-column-not-(0,0,0,1)",sm3(g),"(0,0,0,1)");
		bool badd=false,bado=false,nonf=false;
		for(int cc=0;cc<3;cc++) for(int r=0;r<3;r++){ if(!isfinite_b(g[cc][r])){ nonf=true; continue; }
			W bound=W(SF)*(4*u*S.m[cc][r]+(cc==r? u*w_abs(R.m[cc][r]): W(0)))+8*tiny, e=w_abs((W)g[cc][r]-R.m[cc][r]); rat(c,"matcast:err/bound",(double)(e/bound));
			if(!(e<=bound)){ if(cc==r) badd=true; else bado=true; } }
		W rw[9]; for(int i=0;i<9;i++) rw[i]=R.m[i/3][i%3];
		if(nonf) c.fail(std::string(N[var])+":non-finite-entry",sm3(g),sw<T>(rw,9));
		if(badd) c.fail(std::string(N[var])+":diagonal-entry-differs-from-1-2(a^2+b^2)",sm3(g),sw<T>(rw,9));
		if(bado) c.fail(std::string(N[var])+":off-diagonal-entry-differs-from-2(ab+-wc)",sm3(g),sw<T>(rw,9));
	}
}

// ================================================================ quat_cast(mat3_cast(q)) = +-q   (all entry points, both matrix sources)
// input matrix entries within E=5u of qmat(q).  4b^2 = 1 + (+-m00+-m11+-m22): error A = 3E+6u+4u+4|delta| = 25u+4|delta|;
// glm picks the largest computed value, so b >= 1/2 - A/2.  b: A/(8b)+2u <= A/4+2u =: eb ; mult=0.25/b: relative 2eb+u;
// other components (ma+-mb)*mult: (2E+2u)/2 + |c|(2eb+2u) <= 6u + 12.5u+2|delta|+6u  => 25u + 2.5|delta| (b itself: 8.3u+|delta|)
template<class T> static void k_quatcast(const InQ<T>& in,vf::Ctx& c){ TRT
	W q[4],d; if(!unitq(in.q,q,d)) SKIP("not-unit"); glm::qua<T> gq=mkq(in.q,in.mode); const char* br=largest(q,u); c.cls((std::string("largest=")+br).c_str());
	glm::mat<3,3,T> m3; bool refsrc=(in.mode&4)!=0;
	if(refsrc){ M3<W> R=qmat(q); for(int cc=0;cc<3;cc++) for(int r=0;r<3;r++) m3[cc][r]=(T)R.m[cc][r]; } else m3=glm::mat3_cast(gq);
	glm::mat<4,4,T> m4(m3); digq(c,glm::quat_cast(m3));
	W bound=W(SF)*(26*u+3*w_abs(d));
	for(int var=0;var<6;var++){ static const char* N[6]={"quat_cast(mat3)","quat_cast(mat4)","toQuat(mat3)","toQuat(mat4)","qua(mat3)","qua(mat4)"};
		glm::qua<T> g= var==0? glm::quat_cast(m3): var==1? glm::quat_cast(m4): var==2? glm::toQuat(m3): var==3? glm::toQuat(m4): var==4? glm::qua<T>(m3): glm::qua<T>(m4);
		T o[4]; getq(g,o); std::string pre=std::string(N[var])+(refsrc?":of-rounded-reference-matrix":":of-mat3_cast(q)")+":largest="+br;
		if(!fin(o,4)){ c.fail(pre+":non-finite-result",sv<T>(o,4),sw<T>(q,4)); continue; }
		W e=dist_pm(o,q,4); rat(c,"quat_cast:err/bound",(double)(e/bound));
		if(!(e<=bound)) c.fail(pre+":differs-from-both-q-and-minus-q",sv<T>(o,4),sw<T>(q,4)); }
}

// ================================================================ q1*q2: Hamilton product, and mat(q1*q2) = mat(q1)*mat(q2)
// component = 4 products, 3 additions: 4u S_c.  Homomorphism (entrywise, everything computed by glm):
//   |d(q1q2)|_2 <= 8u -> entry change <= 32u ; mat3_cast rounding 5u ; right side: factor errors 2*5u*sqrt3 + product 3u ;
//   stored factors are not exactly unit: entries of R(q1)R(q2)-R(q1q2) <= 2(|d1|+|d2|)         => 58u + 2(|d1|+|d2|)
template<class T> static void k_mul(const InQ<T>& in,vf::Ctx& c){ TRT
	W q[4],p[4],d1,d2; if(!unitq(in.q,q,d1)||!unitq(in.p,p,d2)) SKIP("not-unit");
	W r[4],S[4]; hamilton(q,p,r,S); glm::qua<T> gq=mkq(in.q,in.mode), gp=mkq(in.p,in.mode>>2);
	glm::qua<T> prod=gq*gp; digq(c,prod);
	for(int var=0;var<3;var++){ static const char* N[3]={"q1*q2","q1*=q2","cross(q1,q2)"}; glm::qua<T> g; if(var==0) g=prod; else if(var==1){ g=gq; g*=gp; } else g=glm::cross(gq,gp);
		T o[4]; getq(g,o); if(!fin(o,4)){ c.fail(std::string(N[var])+":non-finite-result",sv<T>(o,4),sw<T>(r,4)); continue; }
		bool bw=false,bv=false; for(int i=0;i<4;i++){ W bound=W(SF*4)*u*S[i]+8*tiny, e=w_abs((W)o[i]-r[i]); rat(c,"hamilton:err/bound",(double)(e/bound)); if(!(e<=bound)){ if(i==0) bw=true; else bv=true; } }
		if(bw) c.fail(std::string(N[var])+":real-part-differs-from-hamilton-product",sv<T>(o,4),sw<T>(r,4));
		if(bv) c.fail(std::string(N[var])+":vector-part-differs-from-hamilton-product",sv<T>(o,4),sw<T>(r,4)); }
	W bound=W(SF)*(58*u+2*(w_abs(d1)+w_abs(d2)));
	{ T L[3][3],Rr[3][3]; getm3(glm::mat3_cast(prod),L); getm3(glm::mat3_cast(gq)*glm::mat3_cast(gp),Rr); W e=0; bool nf=false;
		for(int i=0;i<9;i++){ T a=(&L[0][0])[i],b=(&Rr[0][0])[i]; if(!isfinite_b(a)||!isfinite_b(b)) nf=true; else e=w_max(e,w_abs((W)a-(W)b)); } rat(c,"homomorphism:err/bound",(double)(e/bound));
		if(nf||!(e<=bound)) c.fail("mat3_cast(q1*q2):differs-from-mat3_cast(q1)*mat3_cast(q2)",sm3(L),sm3(Rr)); }
	{ T L[4][4],Rr[4][4]; getm4(glm::mat4_cast(prod),L); getm4(glm::mat4_cast(gq)*glm::mat4_cast(gp),Rr); W e=0; bool nf=false;
		for(int i=0;i<16;i++){ T a=(&L[0][0])[i],b=(&Rr[0][0])[i]; if(!isfinite_b(a)||!isfinite_b(b)) nf=true; else e=w_max(e,w_abs((W)a-(W)b)); }
		if(nf||!(e<=bound)) c.fail("mat4_cast(q1*q2):differs-from-mat4_cast(q1)*mat4_cast(q2)",sv<T>(&L[0][0],16),sv<T>(&Rr[0][0],16)); }
}

// ================================================================ angle(q), axis(q), angleAxis(angle(q),axis(q)) = +-q
// s=|(x,y,z)|, theta = 2 atan2(s,w) in [0,2pi].
// angle: acos branch (|w|<=cos(1/2)): 2*(2u*2.65) = 10.6u ; asin branch with w<0: 2pi_T (2.9u) + a (4.8u) + rounding (6.3u) = 14u ;
//        acos(w)/asin(s) assume |q|=1: deviation from atan2(s,w) <= 2|delta|                                   => 16u + 4|delta|
// axis:  tmp1 = 1-w*w = s^2(1+eta), |eta| <= e1/s^2, e1 = 3u+|delta| (cancellation).  Well-conditioned (s^2 > 16 e1):
//        relative error 0.6|eta| + 3u.  Otherwise the direction is not determined (glm returns (0,0,1) when tmp1<=0).
// round trip: xyz_out = xyz * sin(angle/2)/sqrt(tmp1): |err| <= 0.83 e1/s (s^2>=2e1), <= s max(1,s/sqrt(u)) <= 6 sqrt(e1) (else,
//        tmp1 >= u when positive; |delta|<=4u) ; regular part (angle 16u/2, cos/sin 2u, products) <= 16u   => 16u + 6 e1/max(s,sqrt(e1))
template<class T> static void k_angleaxis(const InQ<T>& in,vf::Ctx& c){ TRT
	W q[4],d; if(!unitq(in.q,q,d)) SKIP("not-unit"); glm::qua<T> gq=mkq(in.q,in.mode);
	W s=w_sqrt(n2w(q+1,3)), th=2*w_atan2(s,q[0]), e1=3*u+w_abs(d); bool well= s*s>16*e1;
	c.cls(!well? "near-identity(axis-ill-conditioned)": (w_abs(q[0])<W(1e-3)? "w~0": (q[0]<0? "w<0":"w>0")));
	T ga=glm::angle(gq); glm::vec<3,T> gx=glm::axis(gq); T ax[3]={gx.x,gx.y,gx.z}; dig(c,&ga,1); dig(c,ax,3); digq(c,glm::angleAxis(ga,gx));
	{ W bound=W(SF)*(16*u+4*w_abs(d)), e=w_abs((W)ga-th); rat(c,"angle:err/bound",(double)(e/bound));
		if(!isfinite_b(ga)) c.fail("angle(q):non-finite-result",vf::show(ga),vf::show((T)th));
		else if(!(e<=bound)) c.fail(std::string("angle(q):")+(w_abs(q[0])>W(0.8775825618903728L)? (q[0]<0?"asin-branch-w<0":"asin-branch-w>0"):"acos-branch")+":differs-from-2atan2(|xyz|,w)",vf::show(ga),vf::show((T)th)); }
	if(!fin(ax,3)) c.fail("axis(q):non-finite-result",sv<T>(ax,3),"finite");
	else if(well){ W want[3]; bool bad=false; for(int i=0;i<3;i++){ want[i]=q[i+1]/s; W bound=W(SF)*(W(0.6)*e1/(s*s)+3*u)*w_abs(want[i])+4*tiny, e=w_abs((W)ax[i]-want[i]); rat(c,"axis:err/bound",(double)(e/bound)); if(!(e<=bound)) bad=true; }
		if(bad) c.fail("axis(q):differs-from-xyz/|xyz|",sv<T>(ax,3),sw<T>(want,3)); }
	T o[4]; getq(glm::angleAxis(ga,gx),o);
	W bound=W(SF)*(16*u+6*e1/w_max(s,w_sqrt(e1)));
	if(!fin(o,4)){ c.fail("angleAxis(angle(q),axis(q)):non-finite-result",sv<T>(o,4),sw<T>(q,4)); return; }
	W e=dist_pm(o,q,4); rat(c,"angleAxis-roundtrip:err/bound",(double)(e/bound));
	if(!(e<=bound)) c.fail(std::string("angleAxis(angle(q),axis(q)):")+(well?"":"near-identity:")+"differs-from-both-q-and-minus-q",sv<T>(o,4),sw<T>(q,4));
}
// angleAxis(a, n) for a unit axis n: (cos(a/2), n sin(a/2)): a/2 exact, sin/cos 2u, product u: 3u relative per component
template<class T> static void k_angleaxis_direct(const InQ<T>& in,vf::Ctx& c){ TRT
	W n[3]; if(!unitv(in.v,n)) SKIP("axis-not-unit"); T a=in.p[0]; if(!isfinite_b(a)||!(std::fabs(a)<=T(1024))) SKIP("angle-out-of-domain");
	W h=(W)a/2, want[4]={w_cos(h),n[0]*w_sin(h),n[1]*w_sin(h),n[2]*w_sin(h)}; T o[4]; getq(glm::angleAxis(a,glm::vec<3,T>(in.v[0],in.v[1],in.v[2])),o);
	if(!fin(o,4)){ c.fail("angleAxis(a,n):non-finite-result",sv<T>(o,4),sw<T>(want,4)); return; }
	bool bw=false,bv=false; for(int i=0;i<4;i++){ W bound=W(SF*3)*u*w_abs(want[i])+4*tiny, e=w_abs((W)o[i]-want[i]); rat(c,"angleAxis:err/bound",(double)(e/bound)); if(!(e<=bound)){ if(i==0) bw=true; else bv=true; } }
	if(bw) c.fail("angleAxis(a,n):real-part-differs-from-cos(a/2)",sv<T>(o,4),sw<T>(want,4));
	if(bv) c.fail("angleAxis(a,n):vector-part-differs-from-n*sin(a/2)",sv<T>(o,4),sw<T>(want,4));
}

// rotate(q, a, axis) (ext/quaternion_transform): q * angleAxis(a, axis/|axis|).  glm normalises the axis unless its length is within 1e-3
// of 1 ("axis of rotation must be normalised"): inside that band the axis is used as given, so only axes that are unit to rounding or
// clearly not unit (|len-1| > 2e-3) are judged.
template<class T> static void k_quat_rotate_axis(const InQ<T>& in,vf::Ctx& c){ TRT
	W q[4],d; if(!unitq(in.q,q,d)) SKIP("not-unit"); W n[3]; if(!unitv(in.v,n)) SKIP("axis-not-unit"); T a=in.p[0]; if(!isfinite_b(a)||!(std::fabs(a)<=T(1024))) SKIP("angle-out-of-domain");
	static const double SC[12]={1.0,0.25,0.5,0.9,0.99,1.01,1.1,2.0,8.0,1e-3,1e3,0.75}; const T sc=(T)SC[((unsigned)in.aux)%12];
	glm::vec<3,T> ax((T)(in.v[0]*sc),(T)(in.v[1]*sc),(T)(in.v[2]*sc)); W aw[3]={(W)ax[0],(W)ax[1],(W)ax[2]}; W len=w_sqrt(n2w(aw,3));
	if(sc!=(T)1 && w_abs(len-1)<=W(0.002)) SKIP("axis-length-inside-glm's-unit-band");
	c.cls(sc==(T)1? "unit-axis": len<1? "axis-shorter-than-unit":"axis-longer-than-unit");
	W h=(W)a/2, r2[4]={w_cos(h),aw[0]/len*w_sin(h),aw[1]/len*w_sin(h),aw[2]/len*w_sin(h)}, want[4],S[4]; hamilton(q,r2,want,S);
	T o[4]; getq(glm::rotate(mkq(in.q,in.mode),a,ax),o);
	if(!fin(o,4)){ c.fail("rotate(q,angle,axis):non-finite-result",sv<T>(o,4),sw<T>(want,4)); return; }
	bool bad=false; for(int i=0;i<4;i++){ W bound=W(SF)*(12*u)*S[i]+W(SF)*4*u+4*tiny, e=w_abs((W)o[i]-want[i]); rat(c,"rotate(q,angle,axis):err/bound",(double)(e/bound)); if(!(e<=bound)) bad=true; }
	if(bad) c.fail(std::string("rotate(q,angle,axis):")+(sc==(T)1? "unit-axis":"non-unit-axis")+":differs-from-q*angleAxis(angle,normalize(axis))",sv<T>(o,4),sw<T>(want,4));
}

// ================================================================ quat(eulerAngles(q)) = +-q
// pitch = atan2(2(yz+wx), ww-xx-yy+zz), roll = atan2(2(xy+wz), ww+xx-yy-zz): arguments have absolute error 3u and Euclidean
// length cos(yaw): angle error 3u/cos(yaw) + 7u ; yaw = asin(-2(xz-wy)): (3u+|delta|)/cos(yaw) + 3u.  quat(euler) halves them
// and adds 9u:   (5u+|delta|)/cos(yaw) + 20u.  pitch and roll errors are independent, so nothing compensates near gimbal lock:
// the check is vacuous (counted as "unchecked") once that bound exceeds 1/8.  Exactly representable gimbal-lock quaternions
// (x=z=0,|w|=|y| / w=y=0,|x|=|z| / all |.|=1/2) make the guarded quantities exactly 0 in any evaluation order: glm's
// singularity guard is taken, roll=0, pitch=2atan2(x,w), yaw=asin(+-(1+delta)) : error <= sqrt(2(3u+|delta|)) + 20u.
template<class T> static void k_euler_roundtrip(const InQ<T>& in,vf::Ctx& c){ TRT
	W q[4],d; if(!unitq(in.q,q,d)) SKIP("not-unit"); glm::qua<T> gq=mkq(in.q,in.mode);
	W n2=1+d, xr=q[0]*q[0]+q[1]*q[1]-q[2]*q[2]-q[3]*q[3], yr=2*(q[1]*q[2]+q[0]*q[3]), cy=w_sqrt(xr*xr+yr*yr)/n2;
	const T* t=in.q; auto aeq=[](T a,T b){ return std::fabs(a)==std::fabs(b); };
	bool exact= (t[1]==0&&t[3]==0&&aeq(t[0],t[2])) || (t[0]==0&&t[2]==0&&aeq(t[1],t[3])) || (std::fabs(t[0])==T(0.5)&&std::fabs(t[1])==T(0.5)&&std::fabs(t[2])==T(0.5)&&std::fabs(t[3])==T(0.5));
	bool lock= exact && cy<=64*u;
	W bound= lock? W(SF)*(w_sqrt(2*(3*u+w_abs(d)))+20*u): W(SF)*((5*u+w_abs(d))/w_max(cy,tiny)+20*u);
	glm::vec<3,T> e=glm::eulerAngles(gq); T ea[3]={e.x,e.y,e.z}; T pyr[3]={glm::pitch(gq),glm::yaw(gq),glm::roll(gq)};
	dig(c,ea,3); digq(c,glm::qua<T>(e));
	if(!fin(ea,3)||!fin(pyr,3)){ c.fail("eulerAngles(q):non-finite-result",sv<T>(ea,3),"finite"); return; }
	// documented: eulerAngles = (pitch, yaw, roll) "The result is expressed in radians": the three accessors are the same functions
	for(int i=0;i<3;i++) if(!(w_abs((W)ea[i]-(W)pyr[i])<=8*u*(1+w_abs((W)pyr[i])))){ c.fail("eulerAngles(q):components-differ-from-(pitch,yaw,roll)",sv<T>(ea,3),sv<T>(pyr,3)); break; }
	T o[4]; getq(glm::qua<T>(e),o);
	if(!lock && !(bound<W(0.125))){ c.cls("gimbal-neighbourhood:unchecked(ill-conditioned)"); if(!fin(o,4)) c.fail("quat(eulerAngles(q)):non-finite-result",sv<T>(o,4),sw<T>(q,4)); return; }
	c.cls(lock? "gimbal-lock-exact(guard)": (cy<W(1e-2)? "gimbal-neighbourhood:checked":"regular"));
	if(!fin(o,4)){ c.fail("quat(eulerAngles(q)):non-finite-result",sv<T>(o,4),sw<T>(q,4)); return; }
	W er=dist_pm(o,q,4); rat(c,lock?"euler-roundtrip(lock):err/bound":"euler-roundtrip:err/bound",(double)(er/bound));
	if(!(er<=bound)) c.fail(std::string("quat(eulerAngles(q)):")+(lock?"gimbal-lock-exact:":"")+"differs-from-both-q-and-minus-q",sv<T>(o,4),sw<T>(q,4));
}
// qua(vec3(pitch,yaw,roll)) = qz(roll) qy(yaw) qx(pitch): half angles exact, sin/cos 2u, two products 2u, sum u: 9u S
template<class T> static void k_euler_ctor(const InQ<T>& in,vf::Ctx& c){ TRT
	const T* a=in.v; if(!fin(a,3)) SKIP("non-finite"); for(int i=0;i<3;i++) if(!(std::fabs(a[i])<=T(1024))) SKIP("angle-out-of-domain");
	W cx=w_cos((W)a[0]/2),sx=w_sin((W)a[0]/2),cyy=w_cos((W)a[1]/2),sy=w_sin((W)a[1]/2),cz=w_cos((W)a[2]/2),sz=w_sin((W)a[2]/2);
	W qx[4]={cx,sx,0,0},qy[4]={cyy,0,sy,0},qz[4]={cz,0,0,sz},t[4],want[4]; hamilton(qy,qx,t); hamilton(qz,t,want);
	W S[4]={w_abs(cx*cyy*cz)+w_abs(sx*sy*sz),w_abs(sx*cyy*cz)+w_abs(cx*sy*sz),w_abs(cx*sy*cz)+w_abs(sx*cyy*sz),w_abs(cx*cyy*sz)+w_abs(sx*sy*cz)};
	T o[4]; getq(glm::qua<T>(glm::vec<3,T>(a[0],a[1],a[2])),o); dig(c,o,4);
	if(!fin(o,4)){ c.fail("qua(euler):non-finite-result",sv<T>(o,4),sw<T>(want,4)); return; }
	for(int i=0;i<4;i++){ W bound=W(SF*9)*u*S[i]+8*tiny, e=w_abs((W)o[i]-want[i]); rat(c,"qua(euler):err/bound",(double)(e/bound));
		if(!(e<=bound)){ c.fail("qua(euler):differs-from-qz(roll)*qy(yaw)*qx(pitch)",sv<T>(o,4),sw<T>(want,4)); break; } }
}

// ================================================================ qua(u,v) and gtx rotation(u,v): unit u,v ; the result rotates u onto v about u x v
// ch = cos(theta/2) = |u+v|/2, sh = |u-v|/2.  The got quaternion is applied to u in wide arithmetic (no q*v rounding).
// qua(u,v) = normalize(|u||v| + u.v, u x v): real part error 5u, cross 2u per component, norm 2ch: |dq| <= 3u/ch, normalize 5u:
//     |R(q)u - v| <= 6u/ch + 12u ;  fallback when 1+cos < 1e-6 (half turn about an axis orthogonal to u): |(-u) - v| = 2ch.
// rotation(u,v) = (s/2, (u x v)/s), s = sqrt(2(1+cos)): ds = 3u/s => |dq| <= 2u/ch^2 : |R(q)u - v| <= 4u/ch^2 + 12u ;
//     identity when cos >= 1-eps (|u-v| = 2sh) ; half turn when cos < -1+eps (|(-u)-v| = 2ch).  Near a threshold either is accepted.
template<class T> static void k_twovec(const InQ<T>& in,vf::Ctx& c){ TRT
	W a[3],b[3]; if(!unitv(in.v,a)||!unitv(in.p,b)) SKIP("not-unit-vectors");
	W sp[3]={a[0]+b[0],a[1]+b[1],a[2]+b[2]}, dm[3]={a[0]-b[0],a[1]-b[1],a[2]-b[2]}; W ch=w_sqrt(n2w(sp,3))/2, sh=w_sqrt(n2w(dm,3))/2;
	W eps=2*u; glm::vec<3,T> gu(in.v[0],in.v[1],in.v[2]), gv(in.p[0],in.p[1],in.p[2]);
	bool anti= in.p[0]==-in.v[0]&&in.p[1]==-in.v[1]&&in.p[2]==-in.v[2];
	c.cls(anti? "exactly-antiparallel": ch<W(1e-3)? "nearly-antiparallel": (sh<W(1e-3)? "nearly-parallel":"regular"));
	// third variant: qua(2^k1*u, 2^k2*v). The constructor divides by |u||v| itself (norm_u_norm_v), power-of-two scaling is exact, so the
	// same bounds apply; k1,k2 in [-12,12] taken from the input bits (|u||v| from 2^-24 to 2^24).
	unsigned hb=0; { T t0=in.v[0]+in.p[1]; unsigned char bb[sizeof(T)]; std::memcpy(bb,&t0,sizeof(T)); for(unsigned i=0;i<sizeof(T);i++) hb=hb*131u+bb[i]; }
	int k1=int(hb%25u)-12, k2=int((hb/25u)%25u)-12; T s1=std::ldexp(T(1),k1), s2=std::ldexp(T(1),k2);
	for(int vv=0;vv<3;vv++){ const int var= vv==1; const char* nm= vv==1? "rotation(u,v)": vv? "qua(2^k1*u,2^k2*v)":"qua(u,v)"; T o[4]; getq(vv==1? glm::rotation(gu,gv): vv? glm::qua<T>(gu*s1,gv*s2): glm::qua<T>(gu,gv),o);
		dig(c,o,4);
		if(!fin(o,4)){ c.fail(std::string(nm)+":non-finite-result",sv<T>(o,4),"finite"); continue; }
		W g[4]; widen(o,g,4); W gn=w_sqrt(n2w(g,4));
		W bmap,bunit,baxis; bool fb,zone=false; std::string pz= anti? ":exactly-antiparallel":"";
		if(!var){ W thr=W(1e-6L); bool nrm= 2*ch*ch>thr*(1-W(1e-3))-16*u; fb= 2*ch*ch<thr*(1+W(1e-3))+16*u; zone=fb;
			bmap= (nrm? W(SF)*(6*u/w_max(ch,tiny)+12*u): W(0)); if(fb) bmap=w_max(bmap,2*ch+W(SF*12)*u); bunit=W(SF*5)*u; baxis=W(SF)*(3*u/w_max(ch,tiny)+6*u); if(fb) baxis=w_max(baxis,2*ch+W(SF*6)*u); }
		else if(anti){ fb=true; zone=true; bmap=W(SF*12)*u; bunit=W(SF*8)*u; baxis=W(SF*6)*u; }   // v == -u bitwise: the cross product is exactly 0, only the half-turn special case can be right
		else { bool idz= 2*sh*sh<=eps+4*u; fb= 2*ch*ch<eps+4*u; zone=idz||fb;
			bmap=W(SF)*(4*u/w_max(ch*ch,tiny)+12*u); if(idz) bmap=w_max(bmap,2*sh+W(SF*12)*u); if(fb) bmap=w_max(bmap,2*ch+W(SF*12)*u);
			bunit=W(SF)*(4*u/w_max(ch*ch,tiny)+6*u); baxis=W(SF)*(2*u/w_max(ch*ch,tiny)+6*u); if(fb) baxis=w_max(baxis,2*ch+W(SF*6)*u); }
		if(!(bmap<W(0.125))){ c.cls("antiparallel-neighbourhood:unchecked(ill-conditioned)"); continue; }
		if(!(w_abs(gn-1)<=bunit)){ c.fail(std::string(nm)+pz+":result-not-unit-length",vf::show((T)gn),"1"); continue; }
		M3<W> R=qmat(g); W ru[3]; mvec(R,a,ru); W e=0; for(int i=0;i<3;i++) e=w_max(e,w_abs(ru[i]-b[i])); if(!zone) rat(c,var?"rotation(u,v):map-err/bound":"qua(u,v):map-err/bound",(double)(e/bmap));
		if(!(e<=bmap)){ c.fail(std::string(nm)+pz+":does-not-rotate-u-onto-v",sw<T>(ru,3),sw<T>(b,3)); continue; }
		W du=g[1]*a[0]+g[2]*a[1]+g[3]*a[2], dv=g[1]*b[0]+g[2]*b[1]+g[3]*b[2]; if(!zone) rat(c,"twovec:axis-orthogonality/bound",(double)(w_max(w_abs(du),w_abs(dv))/baxis));
		if(!(w_abs(du)<=baxis&&w_abs(dv)<=baxis)) c.fail(std::string(nm)+pz+":axis-not-orthogonal-to-u-and-v",sv<T>(o,4),"axis parallel to u x v");
	}
}

// ================================================================ q*inverse(q) = identity ; conjugate(q) = inverse(q) for unit q
// inverse = conjugate/dot(q,q): dot of positive terms 4u relative, division u: 5u per component ; Hamilton product 4u S: 9u.
template<class T> static void k_inverse(const InQ<T>& in,vf::Ctx& c){ TRT
	W q[4],d; if(!unitq(in.q,q,d)) SKIP("not-unit"); glm::qua<T> gq=mkq(in.q,in.mode), gi=glm::inverse(gq), gc=glm::conjugate(gq);
	T oi[4],oc[4],op[4],op2[4]; getq(gi,oi); getq(gc,oc); getq(gq*gi,op); getq(gi*gq,op2); dig(c,oi,4); dig(c,op,4);
	W wc[4]={q[0],-q[1],-q[2],-q[3]};
	for(int i=0;i<4;i++) if(!((W)oc[i]==wc[i])){ c.fail("conjugate(q):differs-from-(w,-x,-y,-z)",sv<T>(oc,4),sw<T>(wc,4)); break; }
	if(!fin(oi,4)){ c.fail("inverse(q):non-finite-result",sv<T>(oi,4),sw<T>(wc,4)); return; }
	for(int i=0;i<4;i++){ W bound=(W(SF*5)*u+w_abs(d))*w_abs(wc[i])+4*tiny, e=w_abs((W)oi[i]-wc[i]); rat(c,"inverse-vs-conjugate:err/bound",(double)(e/bound));
		if(!(e<=bound)){ c.fail("inverse(q):unit-q:differs-from-conjugate(q)",sv<T>(oi,4),sv<T>(oc,4)); break; } }
	W id[4]={1,0,0,0}, bound=W(SF*9)*u+w_abs(d);
	W e1=0,e2=0; for(int i=0;i<4;i++){ e1=w_max(e1,w_abs((W)op[i]-id[i])); e2=w_max(e2,w_abs((W)op2[i]-id[i])); } rat(c,"q*inverse(q):err/bound",(double)(w_max(e1,e2)/bound));
	if(!(e1<=bound)) c.fail("q*inverse(q):differs-from-identity",sv<T>(op,4),"(1, 0, 0, 0)");
	if(!(e2<=bound)) c.fail("inverse(q)*q:differs-from-identity",sv<T>(op2,4),"(1, 0, 0, 0)");
}

// ================================================================ constructors / accessors / memory order (EXACT: selection, no arithmetic)
template<class T> static void k_layout(const InQ<T>& in,vf::Ctx& c){
	const T* t=in.q; if(!fin(t,4)) { c.cls("skipped:non-finite"); return; } typedef glm::qua<T> Q; typedef typename std::conditional<std::is_same<T,float>::value,double,float>::type O;
	auto comps=[&](const char* nm,const Q& g){ T o[4]; getq(g,o); for(int i=0;i<4;i++) if(!same(o[i],t[i])){ c.fail(std::string(nm)+":members-(w,x,y,z)-differ-from-arguments",sv<T>(o,4),sv<T>(t,4)); return false; } return true; };
	Q a=Q::wxyz(t[0],t[1],t[2],t[3]); comps("qua::wxyz(w,x,y,z)",a); comps("qua(w,vec3)",Q(t[0],glm::vec<3,T>(t[1],t[2],t[3]))); comps("qua(four scalars)",C04_Q4(Q,t[0],t[1],t[2],t[3])); comps("qua(qua)",Q(a));
	{ Q b=Q::wxyz(T(1),T(0),T(0),T(0)); b=a; comps("operator=",b); }
	T mem[4]; static_assert(sizeof(Q)==4*sizeof(T),"qua size"); memcpy(mem,&a,sizeof mem);
	T want[4]; if(WXYZ){ want[0]=t[0]; want[1]=t[1]; want[2]=t[2]; want[3]=t[3]; } else { want[0]=t[1]; want[1]=t[2]; want[2]=t[3]; want[3]=t[0]; }
	for(int i=0;i<4;i++) if(!same(mem[i],want[i])){ c.fail(WXYZ?"memory-order:WXYZ-build:not-(w,x,y,z)":"memory-order:default-build:not-(x,y,z,w)",sv<T>(mem,4),sv<T>(want,4)); break; }
	for(int i=0;i<4;i++) if(!same(a[i],mem[i])){ T o[4]={a[0],a[1],a[2],a[3]}; c.fail("operator[]:differs-from-memory-order",sv<T>(o,4),sv<T>(mem,4)); break; }
	{ const T* p=glm::value_ptr(a); for(int i=0;i<4;i++) if(!same(p[i],mem[i])){ c.fail("value_ptr(q):differs-from-memory-order",sv<T>(p,4),sv<T>(mem,4)); break; } comps("make_quat(value_ptr(q))",glm::make_quat(mem)); }
	{ glm::qua<O> o(a); O oo[4]={o.w,o.x,o.y,o.z}, ow[4]={(O)t[0],(O)t[1],(O)t[2],(O)t[3]}; for(int i=0;i<4;i++) if(!same(oo[i],ow[i])){ c.fail("qua<U>(qua<T>):component-conversion-mismatch",sv<O>(oo,4),sv<O>(ow,4)); break; } }
	{ Q m=-a; T o[4]; getq(m,o); for(int i=0;i<4;i++) if(!same(o[i],(T)-t[i])){ c.fail("unary-minus:differs-from-componentwise-negation",sv<T>(o,4),sv<T>(t,4)); break; } }
	{ Q id=glm::quat_identity<T,glm::defaultp>(); if(!(id.w==1&&id.x==0&&id.y==0&&id.z==0)){ T o[4]; getq(id,o); c.fail("quat_identity:not-(1,0,0,0)",sv<T>(o,4),"(1, 0, 0, 0)"); } }
	if(!(a==a) || (a!=a)) c.fail("operator==:q-not-equal-to-itself","false","true");
}

// ================================================================ gtx/euler_angles builders = product of single-axis factors
struct EB { const char* name; int n; int ax[3]; int arg[3]; };
static const EB EBT[]={
	{"eulerAngleX",1,{0,0,0},{0,0,0}},{"eulerAngleY",1,{1,0,0},{0,0,0}},{"eulerAngleZ",1,{2,0,0},{0,0,0}},
	{"eulerAngleXY",2,{0,1,0},{0,1,0}},{"eulerAngleYX",2,{1,0,0},{0,1,0}},{"eulerAngleXZ",2,{0,2,0},{0,1,0}},{"eulerAngleZX",2,{2,0,0},{0,1,0}},{"eulerAngleYZ",2,{1,2,0},{0,1,0}},{"eulerAngleZY",2,{2,1,0},{0,1,0}},
	{"eulerAngleXYZ",3,{0,1,2},{0,1,2}},{"eulerAngleYXZ",3,{1,0,2},{0,1,2}},{"eulerAngleXZX",3,{0,2,0},{0,1,2}},{"eulerAngleXYX",3,{0,1,0},{0,1,2}},
	{"eulerAngleYXY",3,{1,0,1},{0,1,2}},{"eulerAngleYZY",3,{1,2,1},{0,1,2}},{"eulerAngleZYZ",3,{2,1,2},{0,1,2}},{"eulerAngleZXZ",3,{2,0,2},{0,1,2}},
	{"eulerAngleXZY",3,{0,2,1},{0,1,2}},{"eulerAngleYZX",3,{1,2,0},{0,1,2}},{"eulerAngleZYX",3,{2,1,0},{0,1,2}},{"eulerAngleZXY",3,{2,0,1},{0,1,2}},
	{"yawPitchRoll",3,{1,0,2},{0,1,2}},{"orientate3(vec3)",3,{1,0,2},{2,0,1}},{"orientate4(vec3)",3,{1,0,2},{2,0,1}},{"orientate3(angle)",1,{2,0,0},{0,0,0}} };
enum { NEB=25, EB_TRIPLE0=9, NEX=12 };
template<class T> static glm::mat<4,4,T> call_build(int k,T a,T b,T c){ typedef glm::mat<4,4,T> M4; typedef glm::vec<3,T> V3;
	switch(k){ case 0: return glm::eulerAngleX(a); case 1: return glm::eulerAngleY(a); case 2: return glm::eulerAngleZ(a);
	case 3: return glm::eulerAngleXY(a,b); case 4: return glm::eulerAngleYX(a,b); case 5: return glm::eulerAngleXZ(a,b); case 6: return glm::eulerAngleZX(a,b); case 7: return glm::eulerAngleYZ(a,b); case 8: return glm::eulerAngleZY(a,b);
	case 9: return glm::eulerAngleXYZ(a,b,c); case 10: return glm::eulerAngleYXZ(a,b,c); case 11: return glm::eulerAngleXZX(a,b,c); case 12: return glm::eulerAngleXYX(a,b,c);
	case 13: return glm::eulerAngleYXY(a,b,c); case 14: return glm::eulerAngleYZY(a,b,c); case 15: return glm::eulerAngleZYZ(a,b,c); case 16: return glm::eulerAngleZXZ(a,b,c);
	case 17: return glm::eulerAngleXZY(a,b,c); case 18: return glm::eulerAngleYZX(a,b,c); case 19: return glm::eulerAngleZYX(a,b,c); case 20: return glm::eulerAngleZXY(a,b,c);
	case 21: return glm::yawPitchRoll(a,b,c); case 22: return M4(glm::orientate3(V3(a,b,c))); case 23: return glm::orientate4(V3(a,b,c)); default: return M4(glm::orientate3(a)); } }
template<class T> static void call_extract(int k,const glm::mat<4,4,T>& M,T& a,T& b,T& c){
	switch(k){ case 0: glm::extractEulerAngleXYZ(M,a,b,c); break; case 1: glm::extractEulerAngleYXZ(M,a,b,c); break; case 2: glm::extractEulerAngleXZX(M,a,b,c); break; case 3: glm::extractEulerAngleXYX(M,a,b,c); break;
	case 4: glm::extractEulerAngleYXY(M,a,b,c); break; case 5: glm::extractEulerAngleYZY(M,a,b,c); break; case 6: glm::extractEulerAngleZYZ(M,a,b,c); break; case 7: glm::extractEulerAngleZXZ(M,a,b,c); break;
	case 8: glm::extractEulerAngleXZY(M,a,b,c); break; case 9: glm::extractEulerAngleYZX(M,a,b,c); break; case 10: glm::extractEulerAngleZYX(M,a,b,c); break; default: glm::extractEulerAngleZXY(M,a,b,c); break; } }
template<class T> static bool angles_ok(const T* a){ for(int i=0;i<3;i++) if(!isfinite_b(a[i])||!(std::fabs(a[i])<=T(1024))) return false; return true; }
// each entry is a sum of products of <= 3 sines/cosines (2u each), 2 product roundings, <= 3 additions (matrix-product forms): 9u S,
// S = entry of |A||B||C|.  Structural zeros have S = 0 and must be 0.  The homogeneous row/column must be exactly (0,0,0,1).
template<class T> static void k_euler_build(const InE<T>& in,vf::Ctx& c){ TRT
	int k=in.which; if(k<0||k>=NEB) SKIP("bad-selector"); if(!angles_ok(in.a)) SKIP("angle-out-of-domain"); const EB& e=EBT[k]; c.cls(e.name);
	M3<W> R=mident<W>(),S=mident<W>(); for(int i=0;i<e.n;i++){ M3<W> F=axrot<W>(e.ax[i],(W)in.a[e.arg[i]]); R=mmul(R,F); S=mmul(S,mabs(F)); }
	T g[4][4]; getm4(call_build<T>(k,in.a[0],in.a[1],in.a[2]),g); W rw[9]; for(int i=0;i<9;i++) rw[i]=R.m[i/3][i%3]; T g3[3][3]; for(int cc=0;cc<3;cc++) for(int r=0;r<3;r++) g3[cc][r]=g[cc][r];
	bool hom= g[3][3]==1; for(int i=0;i<3;i++) if(!(g[3][i]==0&&g[i][3]==0)) hom=false;
	if(!hom) c.fail(std::string(e.name)+":homogeneous-row-or-column-not-(0,0,0,1)",sv<T>(&g[0][0],16),"(0,0,0,1)");
	for(int cc=0;cc<3;cc++) for(int r=0;r<3;r++){ if(!isfinite_b(g[cc][r])){ c.fail(std::string(e.name)+":non-finite-entry",sm3(g3),sw<T>(rw,9)); return; }
		W bound=W(SF*9)*u*S.m[cc][r]+4*tiny, er=w_abs((W)g[cc][r]-R.m[cc][r]); rat(c,"euler-build:err/bound",(double)(er/bound));
		if(!(er<=bound)){ c.fail(std::string(e.name)+":entry-differs-from-product-of-single-axis-rotations",sm3(g3),sw<T>(rw,9)); return; } }
}
// extractEulerAngleABC(M) for M = eulerAngleABC(t) (or any other rotation matrix) must rebuild M.  M = R + F, |F| <= 9u S.
// T1 = atan2 of two entries of length |c2| (|s2| for the proper-Euler orders): error D <= 13u/|c2| ; the third angle is extracted
// from M rotated back by T1, so it absorbs s2*D and the rebuild error of (T1,T3) is D|c2| + O(D^2 c2^2) <= 15u regardless of
// conditioning ; T2 22u ; T3's own error 34u ; rebuild rounding 18u ; F 18u                         => 110u, entrywise
template<class T> static void k_euler_extract(const InE<T>& in,vf::Ctx& c){ TRT
	int k=in.which; if(k<0||k>=NEX) SKIP("bad-selector"); if(!angles_ok(in.a)) SKIP("angle-out-of-domain"); const EB& e=EBT[EB_TRIPLE0+k];
	int src= (in.mode&1)? (k+1+((in.mode>>1)%11))%12: k;   // matrix built by the matching builder, or by one of the other eleven
	glm::mat<4,4,T> M=call_build<T>(EB_TRIPLE0+src,in.a[0],in.a[1],in.a[2]); T t[3]={0,0,0}; call_extract<T>(k,M,t[0],t[1],t[2]);
	std::string nm=std::string("extractEulerAngle")+ (e.name+10) + (src==k? "":":of-other-order-matrix");
	W c2= (e.ax[0]==e.ax[2])? w_abs(w_sin((W)in.a[1])): w_abs(w_cos((W)in.a[1])); c.cls(src!=k? "other-order-matrix": (c2<W(1e-3)? "gimbal-neighbourhood":"regular"));
	if(!fin(t,3)){ c.fail(nm+":non-finite-angles",sv<T>(t,3),"finite"); return; }
	T g[4][4],m[4][4]; getm4(call_build<T>(EB_TRIPLE0+k,t[0],t[1],t[2]),g); getm4(M,m); W bound=W(SF*110)*u, er=0;
	for(int cc=0;cc<3;cc++) for(int r=0;r<3;r++) er=w_max(er,w_abs((W)g[cc][r]-(W)m[cc][r])); rat(c,"euler-extract:rebuild-err/bound",(double)(er/bound));
	T g3[3][3],m3[3][3]; for(int cc=0;cc<3;cc++) for(int r=0;r<3;r++){ g3[cc][r]=g[cc][r]; m3[cc][r]=m[cc][r]; }
	if(!(er<=bound)) c.fail(nm+":angles-do-not-rebuild-the-matrix",sm3(g3)+" from angles "+sv<T>(t,3),sm3(m3));
}

// ================================================================ gtx/rotate_vector: axis-angle forms agree with the Rodrigues formula
// rotateX/Y/Z: a*Cos -+ b*Sin: (2u+u) per product + u: 4u(|a c|+|b s|), untouched components are copied.
// rotate(v,angle,n) = mat3(glm::rotate(angle,n))*v: entries c+(1-c)n_i n_j +- s n_k within 36.5u, product 3u: 66 u |v|.
template<class T> static void k_rotvec(const InQ<T>& in,vf::Ctx& c){ TRT
	W n[3]; if(!unitv(in.q,n)) SKIP("axis-not-unit"); T a=in.p[0]; if(!isfinite_b(a)||!(std::fabs(a)<=T(1024))) SKIP("angle-out-of-domain"); if(!fin(in.v,4)) SKIP("non-finite-vector");
	W v[3]; widen(in.v,v,3); W V=w_sqrt(n2w(v,3)); if(V!=0 && !(V>=Tr<T>::p2(-Tr<T>::VE)&&V<=Tr<T>::p2(Tr<T>::VE))) SKIP("vector-magnitude-out-of-domain");
	W cs=w_cos((W)a), sn=w_sin((W)a); glm::vec<3,T> gv(in.v[0],in.v[1],in.v[2]); glm::vec<4,T> gv4(in.v[0],in.v[1],in.v[2],in.v[3]); glm::vec<3,T> gn(in.q[0],in.q[1],in.q[2]);
	for(int ax=0;ax<3;ax++){ static const char* N[3]={"rotateX","rotateY","rotateZ"}; int j=(ax+1)%3,k=(ax+2)%3; W want[3],S[3]; want[ax]=v[ax]; S[ax]=0;
		want[j]=v[j]*cs-v[k]*sn; S[j]=w_abs(v[j]*cs)+w_abs(v[k]*sn); want[k]=v[j]*sn+v[k]*cs; S[k]=w_abs(v[j]*sn)+w_abs(v[k]*cs);
		for(int four=0;four<2;four++){ T o[4]; if(!four){ glm::vec<3,T> g= ax==0? glm::rotateX(gv,a): ax==1? glm::rotateY(gv,a): glm::rotateZ(gv,a); o[0]=g.x;o[1]=g.y;o[2]=g.z;o[3]=in.v[3]; }
			else { glm::vec<4,T> g= ax==0? glm::rotateX(gv4,a): ax==1? glm::rotateY(gv4,a): glm::rotateZ(gv4,a); o[0]=g.x;o[1]=g.y;o[2]=g.z;o[3]=g.w; }
			std::string nm=std::string(N[ax])+(four?"(vec4)":"(vec3)");
			if(!(o[ax]==in.v[ax]) || !(o[3]==in.v[3])){ c.fail(nm+":component-along-axis-or-w-changed",sv<T>(o,4),sv<T>(in.v,4)); continue; }
			for(int i=0;i<3;i++){ if(i==ax) continue; W bound=W(SF*4)*u*S[i]+4*tiny, e=w_abs((W)o[i]-want[i]); rat(c,"rotateXYZ:err/bound",(double)(e/bound)); if(!(e<=bound)){ c.fail(nm+":differs-from-plane-rotation",sv<T>(o,3),sw<T>(want,3)); break; } } } }
	{ T o[2]; glm::vec<2,T> g=glm::rotate(glm::vec<2,T>(in.v[0],in.v[1]),a); o[0]=g.x; o[1]=g.y; W want[2]={v[0]*cs-v[1]*sn,v[0]*sn+v[1]*cs}, S[2]={w_abs(v[0]*cs)+w_abs(v[1]*sn),w_abs(v[0]*sn)+w_abs(v[1]*cs)};
		for(int i=0;i<2;i++){ W bound=W(SF*4)*u*S[i]+4*tiny; if(!(w_abs((W)o[i]-want[i])<=bound)){ c.fail("rotate(vec2,angle):differs-from-plane-rotation",sv<T>(o,2),sw<T>(want,2)); break; } } }
	// Rodrigues about the exact direction of the stored axis
	W nn=w_sqrt(n2w(n,3)), m[3]={n[0]/nn,n[1]/nn,n[2]/nn}, dt=m[0]*v[0]+m[1]*v[1]+m[2]*v[2], cr[3]={m[1]*v[2]-m[2]*v[1],m[2]*v[0]-m[0]*v[2],m[0]*v[1]-m[1]*v[0]}, want[3];
	for(int i=0;i<3;i++) want[i]=v[i]*cs+cr[i]*sn+m[i]*dt*(1-cs);
	W B=W(SF*66)*u*V+32*tiny;
	{ glm::vec<3,T> g=glm::rotate(gv,a,gn); T o[3]={g.x,g.y,g.z}; W e=0; for(int i=0;i<3;i++) e=w_max(e,w_abs((W)o[i]-want[i])); rat(c,"rotate(v,angle,axis):err/bound",(double)(e/B));
		if(!fin(o,3)||!(e<=B)) c.fail("rotate(vec3,angle,axis):differs-from-rodrigues-formula",sv<T>(o,3),sw<T>(want,3)); }
	{ glm::vec<4,T> g=glm::rotate(gv4,a,gn); T o[4]={g.x,g.y,g.z,g.w}; W e=0; for(int i=0;i<3;i++) e=w_max(e,w_abs((W)o[i]-want[i]));
		if(!fin(o,4)||!(e<=B)) c.fail("rotate(vec4,angle,axis):differs-from-rodrigues-formula",sv<T>(o,4),sw<T>(want,3));
		else if(!(w_abs((W)o[3]-(W)in.v[3])<=4*u*w_abs((W)in.v[3])+4*tiny)) c.fail("rotate(vec4,angle,axis):w-component-not-preserved",vf::show(o[3]),vf::show(in.v[3])); }
	// the quaternion form of the same axis-angle: angleAxis(a,n)*v  (3u relative on q -> 12uV, q*v 18uV)
	{ glm::vec<3,T> g=glm::angleAxis(a,gn)*gv; T o[3]={g.x,g.y,g.z}; W Bq=W(SF*32)*u*V+32*tiny, e=0; for(int i=0;i<3;i++) e=w_max(e,w_abs((W)o[i]-want[i])); rat(c,"angleAxis(a,n)*v:err/bound",(double)(e/Bq));
		if(!fin(o,3)||!(e<=Bq)) c.fail("angleAxis(a,n)*v:differs-from-rodrigues-formula",sv<T>(o,3),sw<T>(want,3)); }
}

// ================================================================ gtx/dual_quaternion: dualquat(q,t)*v = q*v + t
// dual part = (t (x) q)/2: 3u|t|/2 per component ; transform 2(r x (r x v + w v + d) + w d - dw r) + v: rotation part 20uV,
// translation part: four terms of size <= |t|, each carrying the 3u of d plus <= 4 roundings: 32 u |t|.     => 24u|v| + 32u|t|
template<class T> static void k_dualquat(const InQ<T>& in,vf::Ctx& c){ TRT
	W q[4],d; if(!unitq(in.q,q,d)) SKIP("not-unit"); if(!fin(in.v,3)||!fin(in.p,3)) SKIP("non-finite");
	W v[3],t[3]; widen(in.v,v,3); widen(in.p,t,3); W V=w_sqrt(n2w(v,3)), Tn=w_sqrt(n2w(t,3)); W lo=Tr<T>::p2(-Tr<T>::VE), hi=Tr<T>::p2(Tr<T>::VE);
	if((V!=0&&!(V>=lo&&V<=hi))||(Tn!=0&&!(Tn>=lo&&Tn<=hi))) SKIP("magnitude-out-of-domain");
	M3<W> R=qmat(q); W want[3]; mvec(R,v,want); for(int i=0;i<3;i++) want[i]+=t[i]*(1+d);   // 2(r x d + w d - dw r) = |q|^2 t
	glm::qua<T> gq=mkq(in.q,in.mode); glm::vec<3,T> gt(in.p[0],in.p[1],in.p[2]), gv(in.v[0],in.v[1],in.v[2]); glm::tdualquat<T> dq(gq,gt); digq(c,dq.dual); digm(c,glm::mat3x4_cast(dq));
	W B=W(SF)*(24*u*V+(32*u+2*w_abs(d))*Tn)+64*tiny;
	{ glm::vec<3,T> g=dq*gv; T o[3]={g.x,g.y,g.z}; W e=0; for(int i=0;i<3;i++) e=w_max(e,w_abs((W)o[i]-want[i])); rat(c,"dualquat*v:err/bound",(double)(e/B));
		if(!fin(o,3)||!(e<=B)) c.fail("dualquat(q,t)*v:differs-from-q*v+t",sv<T>(o,3),sw<T>(want,3)); }
	{ glm::vec<4,T> g=dq*glm::vec<4,T>(gv,in.v[3]); T o[4]={g.x,g.y,g.z,g.w}; W e=0; for(int i=0;i<3;i++) e=w_max(e,w_abs((W)o[i]-want[i]));
		if(!fin(o,3)||!(e<=B)||!(o[3]==in.v[3])) c.fail("dualquat(q,t)*v4:differs-from-(q*v+t,w)",sv<T>(o,4),sw<T>(want,3)); }
	// real part is q itself, inverse(dq)*(dq*v) = v  (two transforms and an inverse: 3x the bound, translation counted at |t|+|v|)
	{ T o[4]; getq(dq.real,o); for(int i=0;i<4;i++) if(!same(o[i],in.q[i])){ c.fail("dualquat(q,t):real-part-differs-from-q",sv<T>(o,4),sv<T>(in.q,4)); break; } }
	{ glm::vec<3,T> g=glm::inverse(dq)*(dq*gv); T o[3]={g.x,g.y,g.z}; W Bi=W(SF*3)*(32*u+2*w_abs(d))*(V+2*Tn)+64*tiny, e=0; for(int i=0;i<3;i++) e=w_max(e,w_abs((W)o[i]-v[i])); rat(c,"inverse(dq)*(dq*v):err/bound",(double)(e/Bi));
		if(!fin(o,3)||!(e<=Bi)) c.fail("inverse(dualquat)*(dualquat*v):differs-from-v",sv<T>(o,3),sv<T>(in.v,3)); }
	// mat3x4_cast(dq) (rows of the 3x4 rigid transform) applied to (v,1)
	{ glm::mat<3,4,T> m=glm::mat3x4_cast(dq); W o[3]; bool nf=false; for(int r=0;r<3;r++){ W s=0; for(int k=0;k<4;k++){ if(!isfinite_b(m[r][k])) nf=true; s+=(W)m[r][k]*(k<3? v[k]: W(1)); } o[r]=s; }
		W Bm=W(SF)*((24*u+2*w_abs(d))*V+(32*u+4*w_abs(d))*Tn)+64*tiny, e=0; for(int i=0;i<3;i++) e=w_max(e,w_abs(o[i]-want[i])); rat(c,"mat3x4_cast(dq):err/bound",(double)(e/Bm));
		if(nf||!(e<=Bm)) c.fail("mat3x4_cast(dualquat)*(v,1):differs-from-q*v+t",sw<T>(o,3),sw<T>(want,3)); }
}

// ---------------------------------------------------------------- operations
typedef InQ<float> InQ_f; typedef InQ<double> InQ_d; typedef InE<float> InE_f; typedef InE<double> InE_d;
#define DEF_TYPE(T_,TN,F) \
	VF_OP(rotate_vector_by_quat_##TN, InQ_##TN, FMQ(F)){ k_rotate<T_>(in,c); } \
	VF_OP(mat_cast_##TN, InQ_##TN, FMQ(F)){ k_matcast<T_>(in,c); } \
	VF_OP(quat_cast_roundtrip_##TN, InQ_##TN, FMQ(F)){ k_quatcast<T_>(in,c); } \
	VF_OP(quat_product_##TN, InQ_##TN, FMQ(F)){ k_mul<T_>(in,c); } \
	VF_OP(angle_axis_roundtrip_##TN, InQ_##TN, FMQ(F)){ k_angleaxis<T_>(in,c); } \
	VF_OP(angleAxis_##TN, InQ_##TN, FMQ(F)){ k_angleaxis_direct<T_>(in,c); } \
	VF_OP(quat_rotate_axis_##TN, InQ_##TN, FMQ(F)){ k_quat_rotate_axis<T_>(in,c); } \
	VF_OP(euler_roundtrip_##TN, InQ_##TN, FMQ(F)){ k_euler_roundtrip<T_>(in,c); } \
	VF_OP(quat_from_euler_##TN, InQ_##TN, FMQ(F)){ k_euler_ctor<T_>(in,c); } \
	VF_OP(quat_from_two_vectors_##TN, InQ_##TN, FMQ(F)){ k_twovec<T_>(in,c); } \
	VF_OP(inverse_conjugate_##TN, InQ_##TN, FMQ(F)){ k_inverse<T_>(in,c); } \
	VF_OP(quat_layout_##TN, InQ_##TN, FMQ(F)){ k_layout<T_>(in,c); } \
	VF_OP(euler_build_##TN, InE_##TN, FME(F)){ k_euler_build<T_>(in,c); } \
	VF_OP(euler_extract_##TN, InE_##TN, FME(F)){ k_euler_extract<T_>(in,c); } \
	VF_OP(rotate_vector_axis_angle_##TN, InQ_##TN, FMQ(F)){ k_rotvec<T_>(in,c); } \
	VF_OP(dual_quat_transform_##TN, InQ_##TN, FMQ(F)){ k_dualquat<T_>(in,c); }
DEF_TYPE(float,f,"f")
DEF_TYPE(double,d,"d")
struct Ops { vf::Op *rot,*mat,*qc,*mul,*aa,*aad,*er,*ec,*tv,*inv,*lay,*eb,*ex,*rv,*dq,*qra; };
#define OPS(TN) Ops{&rotate_vector_by_quat_##TN,&mat_cast_##TN,&quat_cast_roundtrip_##TN,&quat_product_##TN,&angle_axis_roundtrip_##TN,&angleAxis_##TN,&euler_roundtrip_##TN,&quat_from_euler_##TN,&quat_from_two_vectors_##TN,&inverse_conjugate_##TN,&quat_layout_##TN,&euler_build_##TN,&euler_extract_##TN,&rotate_vector_axis_angle_##TN,&dual_quat_transform_##TN,&quat_rotate_axis_##TN}

// ---------------------------------------------------------------- generators
template<class T> struct Gen {
	vf::Rng& r; explicit Gen(vf::Rng& r_):r(r_){}
	typedef long double L;
	// normalise in long double, round each component once: | |q|^2-1 | <= 2u+
	static void norm(const L* a,T* o,int n){ L s=0; for(int i=0;i<n;i++) s+=a[i]*a[i]; s=sqrtl(s); for(int i=0;i<n;i++) o[i]=(T)(a[i]/s); }
	L small(){ int k=(int)r.below(4); if(k==0) return 0; L m=powl(10.0L,-(L)r.uniform(2,std::is_same<T,float>::value? 12: 18)); if(k==1) m=powl(10.0L,-(L)r.range(3,std::is_same<T,float>::value? 10: 16)); return r.coin()? m: -m; }
	L sgn(){ return r.coin()? 1.0L: -1.0L; }
	static L pi(){ return 3.14159265358979323846264338327950288L; }
	// an angle from the special lattice or random
	L angle(){ int m=(int)r.below(10); static const L K[]={0,0.25L,0.5L,0.75L,1,1.25L,1.5L,1.75L,2,1.0L/3,2.0L/3,1.0L/6};
		if(m<4) return (L)r.uniform(-3.141592653589793,3.141592653589793); if(m<6) return sgn()*K[r.below(12)]*pi(); if(m<8) return sgn()*K[r.below(12)]*pi()+small(); if(m==8) return small(); return (L)r.uniform(-20,20); }
	void unit3(T* o){ L a[3]; int m=(int)r.below(8); if(m<4){ for(int i=0;i<3;i++) a[i]=(L)r.gauss(); } else if(m<6){ int k=(int)r.below(3); for(int i=0;i<3;i++) a[i]= i==k? sgn(): small(); } else if(m==6){ for(int i=0;i<3;i++) a[i]=sgn(); a[r.below(3)]*= r.coin()? 1: 0; }
		else { for(int i=0;i<3;i++) a[i]=(L)r.range(-3,3); } if(a[0]==0&&a[1]==0&&a[2]==0) a[r.below(3)]=1; norm(a,o,3); o[3]=0; }
	// unit quaternion (w,x,y,z); returns the generator class
	void quat(T* o){ L a[4]; int m=(int)r.below(16);
		switch(m){ default: for(int i=0;i<4;i++) a[i]=(L)r.gauss(); break;                                                    // uniform on S^3
		case 5: case 6: { int k=(int)r.below(4); for(int i=0;i<4;i++) a[i]= i==k? sgn(): small(); } break;                        // within 1e-2..1e-18 of +-1, +-i, +-j, +-k
		case 7: { int k=(int)r.below(4),l=(int)r.below(3); if(l>=k) l++; for(int i=0;i<4;i++) a[i]= (i==k||i==l)? sgn(): small(); if(r.coin()) a[k]*=1+(L)r.range(-4,4)*ldexpl(1,std::is_same<T,float>::value?-23:-52); } break; // two-way tie
		case 8: { for(int i=0;i<4;i++) a[i]=sgn()*(1+(L)r.range(-3,3)*ldexpl(1,std::is_same<T,float>::value?-23:-52)); if(r.below(3)==0) a[r.below(4)]=small(); } break;       // four-/three-way tie
		case 9: { a[0]=small(); for(int i=1;i<4;i++) a[i]=(L)r.gauss(); } break;                                                   // w ~ 0
		case 10: { T n[4]; unit3(n); L h=angle()/2; a[0]=cosl(h); for(int i=0;i<3;i++) a[i+1]=sinl(h)*n[i]; } break;                 // axis-angle, special angles/axes
		case 11: case 12: { L p=angle()/2, y=(sgn()*pi()/2+ (m==11? small(): (L)r.uniform(-0.05,0.05)))/2, ro=angle()/2;                 // gimbal-lock neighbourhoods: qz(r) qy(+-pi/2+-eps) qx(p)
			L cx=cosl(p),sx=sinl(p),cy=cosl(y),sy=sinl(y),cz=cosl(ro),sz=sinl(ro); a[0]=cx*cy*cz+sx*sy*sz; a[1]=sx*cy*cz-cx*sy*sz; a[2]=cx*sy*cz+sx*cy*sz; a[3]=cx*cy*sz-sx*sy*cz; } break;
		case 13: { static const L E[][4]={{1,0,0,0},{0.5L,0.5L,0.5L,0.5L},{0.6L,0.8L,0,0},{1,2,2,0},{1,1,0,0},{2,3,6,0},{1,2,4,2},{1,0,1,0},{0,1,0,1},{1,1,1,0}}; int k=(int)r.below(10),rot=(int)r.below(4); for(int i=0;i<4;i++) a[(i+rot)%4]=E[k][i]*sgn(); } break; // exact / small-integer ratios
		case 14: { L h=small()/2+ (r.coin()? pi(): 0); T n[4]; unit3(n); a[0]=cosl(h); for(int i=0;i<3;i++) a[i+1]=sinl(h)*n[i]; } break;      // w ~ +-1 / rotation by ~2pi
		}
		if(a[0]==0&&a[1]==0&&a[2]==0&&a[3]==0) a[0]=1; norm(a,o,4); }
	void vec(T* o){ L a[3]; int m=(int)r.below(10); if(m<5){ for(int i=0;i<3;i++) a[i]=(L)r.uniform(-1,1); } else if(m<7){ for(int i=0;i<3;i++) a[i]=0; a[r.below(3)]=sgn(); } else if(m==7){ for(int i=0;i<3;i++) a[i]=(L)r.range(-5,5); } else if(m==8){ for(int i=0;i<3;i++) a[i]=r.coin()? 0: (L)r.gauss(); } else { for(int i=0;i<3;i++) a[i]=(L)r.logmag(-12,0); }
		int e= r.below(3)? 0: r.range(-(int)Tr<T>::VE+2,(int)Tr<T>::VE-2); for(int i=0;i<3;i++) o[i]=(T)ldexpl(a[i],e); o[3]= r.coin()? (T)1: (T)r.uniform(-4,4); }
};
template<class T> static InQ<T> mkq_in(const T* q,const T* p,const T* v,int mode,int aux=0){ InQ<T> in; memset(&in,0,sizeof in); for(int i=0;i<4;i++){ if(q) in.q[i]=q[i]; if(p) in.p[i]=p[i]; if(v) in.v[i]=v[i]; } in.mode=mode; in.aux=aux; return in; }

template<class T> static void run_quat(const char* label,Ops o,u64 n){
	vf::parallel(label,[&](int t,int TT,vf::Ctx& c){ Gen<T> g(c.rng); vf::Rng& r=c.rng; typedef long double L;
#define RUN(OP,IN) do{ if(vf::want(*o.OP)) vf::run(c,*o.OP,IN); }while(0)
		for(u64 it=t;it<n;it+=TT){ T q[4],p[4],v[4],z[4]={0,0,0,0}; g.quat(q); g.vec(v); int mode=(int)r.below(16);
			int m=(int)r.below(8); if(m<5) g.quat(p); else if(m==5){ for(int i=0;i<4;i++) p[i]=q[i]; } else if(m==6){ p[0]=q[0]; for(int i=1;i<4;i++) p[i]=-q[i]; } else { for(int i=0;i<4;i++) p[i]=-q[i]; }
			if(r.below(8)==0){ // vector along / orthogonal to the rotation axis
				L s=sqrtl((L)q[1]*q[1]+(L)q[2]*q[2]+(L)q[3]*q[3]); if(s>0){ if(r.coin()){ for(int i=0;i<3;i++) v[i]=(T)(q[i+1]/s); } else { v[0]=(T)(-q[2]/s); v[1]=(T)(q[1]/s); v[2]=0; } } }
			InQ<T> a=mkq_in<T>(q,p,v,mode);
			RUN(rot,a); RUN(mat,a); RUN(mul,a); RUN(aa,a); RUN(er,a); RUN(inv,a);
			{ InQ<T> b=a; b.mode=(mode&3)|((int)r.below(2)<<2); RUN(qc,b); }
			{ T n3[4],e[4]; g.unit3(n3); T ang[4]={(T)g.angle(),0,0,0}; if(r.below(6)==0) ang[0]=(T)r.uniform(-1000,1000); InQ<T> b=mkq_in<T>(z,ang,n3,mode); RUN(aad,b); { InQ<T> b2=mkq_in<T>(q,ang,n3,mode,(int)r.below(12)); RUN(qra,b2); }
				for(int i=0;i<3;i++) e[i]=(T)g.angle(); e[3]=0; InQ<T> d=mkq_in<T>(z,z,e,mode); RUN(ec,d);
				InQ<T> f=mkq_in<T>(n3,ang,v,mode); RUN(rv,f); }
			{ // two unit vectors: independent, (nearly) parallel, (nearly) antiparallel with gaps 1e-1 .. 1e-18
				T a3[4],b3[4]; g.unit3(a3); int k=(int)r.below(8);
				if(k<3) g.unit3(b3); else { L sg= (k<6)? -1: 1; L d[3]; T o3[4]; g.unit3(o3); L ep= (k==3||k==6)? 0: powl(10.0L,-(L)r.uniform(1,std::is_same<T,float>::value? 9: 17));
					for(int i=0;i<3;i++) d[i]=sg*(L)a3[i]+ep*(L)o3[i]; if(ep==0){ for(int i=0;i<3;i++) b3[i]=(T)d[i]; } else Gen<T>::norm(d,b3,3); b3[3]=0; }
				InQ<T> b=mkq_in<T>(z,b3,a3,mode); RUN(tv,b); }
			{ T tg[4]; int k=(int)r.below(4); for(int i=0;i<4;i++) tg[i]= k==0? (T)(i+1+4*(int)r.below(8)): k==1? (T)r.gauss(): k==2? (T)r.logmag(-60,60): (r.coin()? (T)0: (T)-0.0); InQ<T> b=mkq_in<T>(tg,z,z,mode); RUN(lay,b); }
			{ T tr[4]; g.vec(tr); if(r.below(4)==0) for(int i=0;i<3;i++) tr[i]=0; InQ<T> b=mkq_in<T>(q,tr,v,mode); RUN(dq,b); }
		}
#undef RUN
	});
}
// Euler workload: lattice grid of multiples of pi/steps in [-pi,pi]^3 for every builder, random triples, gimbal-lock
// neighbourhoods (second angle = +-pi/2 +- 10^-k for Tait-Bryan orders, {0,+-pi} +- 10^-k for proper Euler orders)
template<class T> static void run_euler(const char* label,Ops o,int steps,u64 nrand){ typedef long double L;
	u64 side=2*(u64)steps+1, grid=side*side*side;
	vf::parallel(label,[&](int t,int TT,vf::Ctx& c){ Gen<T> g(c.rng); vf::Rng& r=c.rng;
		for(u64 it=t;it<grid+nrand;it+=TT){ InE<T> in; memset(&in,0,sizeof in);
			if(it<grid){ u64 k=it; for(int i=0;i<3;i++){ in.a[i]=(T)(((L)(k%side)-(L)steps)*Gen<T>::pi()/steps); k/=side; } }
			else { for(int i=0;i<3;i++) in.a[i]=(T)g.angle(); int m=(int)r.below(4);
				if(m==0) in.a[1]=(T)(g.sgn()*Gen<T>::pi()/2+g.small()); else if(m==1){ static const L B[]={0,1,-1}; in.a[1]=(T)(B[r.below(3)]*Gen<T>::pi()+g.small()); } }
			if(it<grid){ for(int k=0;k<NEB;k++){ in.which=k; if(vf::want(*o.eb)) vf::run(c,*o.eb,in); } for(int k=0;k<NEX;k++){ in.which=k; in.mode=0; if(vf::want(*o.ex)) vf::run(c,*o.ex,in); } }
			else { in.which=(int)r.below(NEB); if(vf::want(*o.eb)) vf::run(c,*o.eb,in); in.which=(int)r.below(NEX); in.mode=(int)r.below(64); if(r.coin()) in.mode&=~1; if(vf::want(*o.ex)) vf::run(c,*o.ex,in);
				// the gimbal angle belongs in slot 1 also for the orientate forms whose middle factor takes a[0]
				}
		}
	});
}

static void workload(){
	vf::note("quaternion-layout", WXYZ? "GLM_FORCE_QUAT_DATA_WXYZ (memory order w,x,y,z)":"default (memory order x,y,z,w)");
	run_quat<float>("quat-float",OPS(f),vf::N(300000,6000000));
	run_quat<double>("quat-double",OPS(d),vf::N(100000,1500000));
	run_euler<float>("euler-float",OPS(f),vf::thorough()?12:6,vf::N(200000,4000000));
	run_euler<double>("euler-double",OPS(d),vf::thorough()?12:6,vf::N(80000,1000000));
	{ u64 s=0; for(int i=0;i<64;i++) s+=g_dig[i].v.load(); char b[32]; snprintf(b,32,"%016llx",(unsigned long long)s);
		vf::note("output-digest(layout-independent; equal across the xyzw/wxyz units of the same compiler, seed, scale and --only)",b); }
}
VF_MAIN("C04_rotation")

