// C17 (supplement) — operator-form swizzle proxies used as OPERANDS and as CONSTRUCTOR ARGUMENTS (GLM_FORCE_SWIZZLE + language extensions):
// `s op v.zx`, `v.zx op s`, `v.zx op u.xy`, `v.zx op vec2`, `vec2 op v.zx`, and vecN(scalars / proxies in every documented position).
// Oracle: the same expression with every proxy first converted explicitly to the vector it names (glm::vec<N,T,Q>(proxy)): the proxy
// stands for exactly the named components in the named order, so both must give bitwise identical results.
#define GLM_FORCE_SWIZZLE
#include "vf.hpp"
#include "ref.hpp"
#include <glm/glm.hpp>
using namespace ref;
using vf::u64; using vf::u32;
typedef int i32;
#if GLM_CONFIG_SWIZZLE != GLM_SWIZZLE_OPERATOR
#	error "this unit needs operator-form swizzles (GLM_FORCE_SWIZZLE with language extensions, e.g. GLM_FORCE_INTRINSICS)"
#endif
#if defined(GLM_FORCE_DEFAULT_ALIGNED_GENTYPES) && GLM_CONFIG_ALIGNED_GENTYPES == GLM_ENABLE
static const char* const QN="aligned";
#else
static const char* const QN="packed";
#endif
template<class T> struct In { T v[4]; T u[4]; T s[2]; };
template<int N,class T,glm::qualifier Q> static bool eq(const glm::vec<N,T,Q>& a,const glm::vec<N,T,Q>& b){ for(int i=0;i<N;i++) if(!same(a[i],b[i])) return false; return true; }
template<int N,class T,glm::qualifier Q> static std::string sh(const glm::vec<N,T,Q>& a){ std::string s="("; for(int i=0;i<N;i++){ if(i) s+=","; s+=vf::show(a[i]); } return s+")"; }
#define CHK(NAME,EXPR_PROXY,EXPR_VEC) do{ auto g_=(EXPR_PROXY); auto w_=(EXPR_VEC); if(!eq(g_,w_)) c.fail(std::string(QN)+":"+NAME+":differs-from-the-expression-on-explicitly-converted-vectors",sh(g_),sh(w_)); }while(0)

template<class T> static void k(const In<T>& in,vf::Ctx& c){
	typedef glm::vec<4,T,glm::defaultp> V4; typedef glm::vec<3,T,glm::defaultp> V3; typedef glm::vec<2,T,glm::defaultp> V2;
	V4 v(in.v[0],in.v[1],in.v[2],in.v[3]), u(in.u[0],in.u[1],in.u[2],in.u[3]); V3 v3(in.v[1],in.v[2],in.v[3]); V2 v2(in.u[2],in.u[0]); const T s=in.s[0], t=in.s[1];
	// ---- proxies as operands of the arithmetic operators
#define OPS2(W,N) { typedef glm::vec<N,T,glm::defaultp> VN; const VN pv(v.W), pu(u.W); \
		/* glm defines only - and * between a proxy and a scalar */ CHK("scalar-" #W,s-v.W,s-pv); CHK("scalar*" #W,s*v.W,s*pv); \
		CHK(#W "-scalar",v.W-s,pv-s); CHK(#W "*scalar",v.W*s,pv*s); \
		CHK(#W "+" #W "(other vector)",v.W+u.W,pv+pu); CHK(#W "-" #W "(other vector)",v.W-u.W,pv-pu); CHK(#W "*" #W "(other vector)",v.W*u.W,pv*pu); CHK(#W "/" #W "(other vector)",v.W/u.W,pv/pu); \
		CHK(#W "-vec",v.W-pu,pv-pu); CHK("vec-" #W,pu-v.W,pu-pv); CHK(#W "/vec",v.W/pu,pv/pu); CHK("vec/" #W,pu/v.W,pu/pv); CHK("conversion " #W,VN(v.W),pv); }
	OPS2(xy,2) OPS2(zx,2) OPS2(yx,2) OPS2(wz,2) OPS2(xx,2) OPS2(xyz,3) OPS2(zyx,3) OPS2(wxz,3) OPS2(yyw,3) OPS2(xyzw,4) OPS2(wzyx,4) OPS2(yxwz,4) OPS2(zzxx,4)
	OPS2(rg,2) OPS2(bgr,3) OPS2(abgr,4) OPS2(ts,2) OPS2(qps,3)
	// two different words of equal length
	CHK("xy-zw",v.xy-v.zw,V2(v.xy)-V2(v.zw)); CHK("zw/xy(other vector)",v.zw/u.xy,V2(v.zw)/V2(u.xy)); CHK("xyz-wzy(other vector)",v.xyz-u.wzy,V3(v.xyz)-V3(u.wzy)); CHK("vec3.zy-vec2",v3.zy-v2,V2(v3.zy)-v2);
	// ---- proxies as constructor arguments: components fill left to right
	CHK("vec3(scalar,zx)",V3(s,v.zx),V3(s,V2(v.zx))); CHK("vec3(zx,scalar)",V3(v.zx,s),V3(V2(v.zx),s)); CHK("vec3(scalar,wy)",V3(t,u.wy),V3(t,V2(u.wy))); CHK("vec3(zyx)",V3(v.zyx),V3(V3(v.zyx)));
	CHK("vec4(zx,wy)",V4(v.zx,u.wy),V4(V2(v.zx),V2(u.wy))); CHK("vec4(scalar,zyx)",V4(s,v.zyx),V4(s,V3(v.zyx))); CHK("vec4(zyx,scalar)",V4(v.zyx,s),V4(V3(v.zyx),s)); CHK("vec4(zx,scalar,scalar)",V4(v.zx,s,t),V4(V2(v.zx),s,t));
	CHK("vec4(scalar,zx,scalar)",V4(s,v.zx,t),V4(s,V2(v.zx),t)); CHK("vec4(scalar,scalar,zx)",V4(s,t,v.zx),V4(s,t,V2(v.zx))); CHK("vec4(wzyx)",V4(v.wzyx),V4(V4(v.wzyx))); CHK("vec2(zx)",V2(v.zx),V2(V2(v.zx))); CHK("vec2(vec3.zy)",V2(v3.zy),V2(V2(v3.zy)));
	/* (vec2, proxy) / (proxy, vec2) constructor pairs are not declared by glm */ CHK("vec3(vec3.zy,scalar)",V3(v3.zy,s),V3(V2(v3.zy),s)); CHK("vec3(scalar,vec3.zy)",V3(s,v3.zy),V3(s,V2(v3.zy)));
	// ---- proxies as function arguments (implicit conversion)
	if constexpr(std::is_floating_point<T>::value){ T d1=glm::dot(V3(v.zyx),V3(u.xyz)), d2=glm::dot(V3(V3(v.zyx)),V3(V3(u.xyz))); if(!same(d1,d2)) c.fail(std::string(QN)+":dot(vec3(zyx),vec3(xyz)):differs",d1,d2); }
}
VF_OP(swizzle_operands_f32, In<float>, "ffffffffff"){ k<float>(in,c); }
VF_OP(swizzle_operands_f64, In<double>, "dddddddddd"){ k<double>(in,c); }
VF_OP(swizzle_operands_i32, In<i32>, "iiiiiiiiii"){ k<i32>(in,c); }

static void workload(){
	u64 n=vf::N(20000,2000000);
	vf::parallel("swzops",[&](int t,int TT,vf::Ctx& c){ for(u64 i=t;i<n;i+=TT){ In<float> f; In<double> d; In<i32> a;
		for(int k=0;k<4;k++){ double x=(double)c.rng.range(-50,50)+0.25*(double)c.rng.below(4), y=(double)c.rng.range(1,60)+0.5*(double)c.rng.below(2); if(x==0) x=3.5; f.v[k]=(float)x; d.v[k]=x; f.u[k]=(float)y; d.u[k]=y; i32 p=(i32)c.rng.range(1,99); if(c.rng.coin()) p=-p; a.v[k]=p+k*101; a.u[k]=(i32)c.rng.range(1,40)+k; }
		for(int k=0;k<2;k++){ double x=(double)c.rng.range(2,9)+0.5*k; f.s[k]=(float)x; d.s[k]=x; a.s[k]=(i32)c.rng.range(2,9); }
		vf::run(c,swizzle_operands_f32,f); vf::run(c,swizzle_operands_f64,d); vf::run(c,swizzle_operands_i32,a); } });
	vf::note("qualifier_class",QN);
}
VF_MAIN("C17_swzops")
