// C08 — projection builders map the view volume onto the clip volume (ext/matrix_clip_space, ext/matrix_projection).
//
// The same monitor is built four times: no macro, -DGLM_FORCE_LEFT_HANDED, -DGLM_FORCE_DEPTH_ZERO_TO_ONE, both.
//
// Oracles
//  (1) view volume -> clip cube.  The corners of the view volume described by the *arguments* (left/right/bottom/top at the
//      near plane, the same rays at the far plane or at infinity, looking down -z for RH and +z for LH) are pushed through the
//      returned matrix in wide arithmetic W (long double for float, __float128 for double), divided by w and compared with the
//      clip-cube corner named by the property statement (x,y = -1/+1, near -> -1 (NO) / 0 (ZO), far or infinity -> +1).
//      Tolerance: every entry of the documented closed forms is computed with at most E roundings (E counted per family below,
//      libm tan/sin/cos taken as 1 ulp = 2u), so  |ndc_i - want_i| <= E u (S_i + |want_i| S_w) / w  with S_i = sum_j |M_ij v_j|
//      (this contains the condition numbers (r+l)/(r-l), (t+b)/(t-b), (f+n)/(f-n) of the statement automatically);
//      the monitor uses the safety factor SF = 2 on top.
//  (2) perspective == symmetric frustum, perspectiveFov == perspective(aspect = width/height): relation between two glm functions
//      stated by the property; entry-wise relative tolerance SF * (sum of both rounding counts) * u, zero entries must be zero.
//  (3) unsuffixed / half-suffixed builders, project, unProject: EXACTLY (bitwise, all 16 entries) the variant selected by the
//      user macros GLM_FORCE_LEFT_HANDED / GLM_FORCE_DEPTH_ZERO_TO_ONE (read here directly, not through glm's setup.hpp).
//  (4) project against the exact map  win = viewport(ndc(P M obj))  and unProject against its exact inverse (cofactor inverse in
//      W), tolerances derived from a first-order model of the documented algorithms (two mat*vec products, perspective divide,
//      cofactor inverse with permanent-based magnitude sums); unProject(project(p)) is compared with p using the same model
//      with the forward error fed in.  Ill-conditioned inputs (w or det within 16x of its own error bound) are skipped.
//  (5) clip cube -> viewport rectangle x [0,1] with identity matrices under the matching depth convention; pickMatrix maps the
//      pick rectangle onto the whole clip square.
#include "vf.hpp"
#include "ref.hpp"
#include <glm/glm.hpp>
#include <glm/ext/matrix_clip_space.hpp>
#include <glm/ext/matrix_projection.hpp>
#include <glm/gtc/matrix_transform.hpp>
using namespace ref;

#ifdef GLM_FORCE_LEFT_HANDED
static const bool CFG_LH = true;
#else
static const bool CFG_LH = false;
#endif
#ifdef GLM_FORCE_DEPTH_ZERO_TO_ONE
static const bool CFG_ZO = true;
#else
static const bool CFG_ZO = false;
#endif

// ---------------------------------------------------------------- wide arithmetic
extern "C" { __float128 tanq(__float128); __float128 fabsq(__float128); }
static inline long double w_tan(long double x){ return tanl(x); }
static inline __float128 w_tan(__float128 x){ return tanq(x); }
template<class W> static inline W w_abs(W x){ return x<0? -x: x; }
template<class W> static inline W w_max(W a,W b){ return a>b? a: b; }

template<class T> struct Tr;
template<> struct Tr<float>{ typedef long double W; enum{ EM=24, EP=18 };
	static W u(){ return ldexpl(1.0L,-24); } static W tiny(){ return ldexpl(1.0L,-149); } static W p2(int e){ return ldexpl(1.0L,e); } static double maxratio(){ return 4; } };
template<> struct Tr<double>{ typedef __float128 W; enum{ EM=200, EP=100 };
	static W u(){ return (W)ldexpl(1.0L,-53); } static W tiny(){ return (W)ldexpl(1.0L,-1074); } static W p2(int e){ return (W)ldexpl(1.0L,e); } static double maxratio(){ return 8; } };
#define TRT typedef typename Tr<T>::W W; const W u=Tr<T>::u(); const W tiny=Tr<T>::tiny(); (void)u; (void)tiny;
static const double SF = 2.0;            // safety factor on every first-order rounding-error count
static const long double PI_L = 3.14159265358979323846264338327950288L;

template<class T> using M4 = glm::mat<4,4,T,glm::defaultp>;
static inline void rat(vf::Ctx& c,const char* n,double r){ if(!(r==r)) return; if(r>1e30) r=1e30; c.ratio(n,r); }
#define SKIP(why) do{ c.cls("skipped:" why); return; }while(0)

// magnitude guard: finite, and zero or inside [2^-E, 2^E]  (keeps every product of up to four factors away from under/overflow)
template<class T> static inline bool mag_ok(T x,int E){ if(!isfinite_b(x)) return false; if(x==0) return true; T a=std::fabs(x); return a>=std::ldexp((T)1,-E) && a<=std::ldexp((T)1,E); }
template<class T> static inline bool mag_ok_nz(T x,int E){ return x!=0 && mag_ok(x,E); }
template<class T> static bool mat_finite(const M4<T>& m){ for(int c=0;c<4;c++) for(int r=0;r<4;r++) if(!isfinite_b(m[c][r])) return false; return true; }
template<class T> static std::string smat(const M4<T>& m){ std::string s="["; for(int c=0;c<4;c++){ s+=(c?" | ":""); for(int r=0;r<4;r++){ char b[40]; snprintf(b,40,"%s%.9g",r?",":"",(double)m[c][r]); s+=b; } } return s+"] (columns)"; }

// ---------------------------------------------------------------- the four suffixed variants
template<bool LH,bool ZO> struct V;
#define DEFV(LHv,ZOv,SFX) template<> struct V<LHv,ZOv>{ static const char* sfx(){ return #SFX; } \
	template<class T> static M4<T> ortho(T l,T r,T b,T t,T n,T f){ return glm::ortho##SFX(l,r,b,t,n,f); } \
	template<class T> static M4<T> frustum(T l,T r,T b,T t,T n,T f){ return glm::frustum##SFX(l,r,b,t,n,f); } \
	template<class T> static M4<T> perspective(T y,T a,T n,T f){ return glm::perspective##SFX(y,a,n,f); } \
	template<class T> static M4<T> perspectiveFov(T y,T w,T h,T n,T f){ return glm::perspectiveFov##SFX(y,w,h,n,f); } \
	template<class T> static M4<T> infinitePerspective(T y,T a,T n){ return glm::infinitePerspective##SFX(y,a,n); } };
DEFV(false,false,RH_NO) DEFV(false,true,RH_ZO) DEFV(true,false,LH_NO) DEFV(true,true,LH_ZO)

// ---------------------------------------------------------------- (1) corner mapping
// One view-volume point v (homogeneous, v[3] = 1 or 0 for a point at infinity) and the clip-cube coordinates it must reach.
// xs/ys: -1 = left/bottom, +1 = right/top, 0 = not judged.  zlabel names the plane and the wanted value, e.g. "near!=-1".
template<class T> struct Corner { typename Tr<T>::W v[4]; int xs, ys; typename Tr<T>::W zwant; const char* zlabel; };

template<class T> struct Once { unsigned mask=0; bool first(int bit){ if(mask>>bit&1) return false; mask|=1u<<bit; return true; } };

template<class T> static void check_corner(vf::Ctx& c,const M4<T>& M,const Corner<T>& k,double E,Once<T>& once,bool judge_z=true){ TRT
	W clip[4],S[4]; for(int i=0;i<4;i++){ clip[i]=0; S[i]=0; for(int j=0;j<4;j++){ W p=(W)M[j][i]*k.v[j]; clip[i]+=p; S[i]+=w_abs(p); } }
	W w=clip[3];
	if(!(w>0)){ if(once.first(0)) c.fail("view-volume-corner:clip-w-not-positive(behind-the-eye-or-degenerate)",vf::show((T)w),std::string("> 0")); return; }
	for(int i=0;i<3;i++){
		W want; std::string lab; int bit;
		if(i==0){ if(!k.xs) continue; want=k.xs; lab= k.xs<0? "x:left!=-1":"x:right!=+1"; bit= k.xs<0?1:2; }
		else if(i==1){ if(!k.ys) continue; want=k.ys; lab= k.ys<0? "y:bottom!=-1":"y:top!=+1"; bit= k.ys<0?3:4; }
		else { if(!judge_z) continue; want=k.zwant; lab=std::string("z:")+k.zlabel; bit= (k.zlabel[0]=='n')?5:6; }
		W ndc=clip[i]/w, bound=W(SF*E)*u*(S[i]+w_abs(want)*S[3])/w+4*tiny, err=w_abs(ndc-want);
		rat(c,"ndc:err/bound",(double)(err/bound));
		if(!(err<=bound)){ if(!once.first(bit)) continue;
			const char* how= !(ndc==ndc)||!(w_abs(ndc)<Tr<T>::p2(1000))? ":non-finite": "";
			c.fail(lab+how,vf::show((T)ndc),vf::show((T)want)); }
	}
}

// entry-wise comparison of two glm matrices that the statement declares equal up to rounding (k = sum of the rounding counts)
template<class T> static void check_entrywise(vf::Ctx& c,const M4<T>& A,const M4<T>& B,double k,const char* what,const char* rname){ TRT
	for(int col=0;col<4;col++) for(int row=0;row<4;row++){ W a=A[col][row], b=B[col][row];
		char idx[16]; snprintf(idx,16,":m[%d][%d]",col,row);
		if(b==0||a==0){ if(a!=b) { c.fail(std::string(what)+idx+":zero-pattern-differs",vf::show((T)a),vf::show((T)b)); return; } continue; }
		W bound=W(SF*k)*u*w_abs(b)+4*tiny, err=w_abs(a-b); rat(c,rname,(double)(err/bound));
		if(!(err<=bound)){ c.fail(std::string(what)+idx+":differs",vf::show((T)a),vf::show((T)b)); return; } }
}

// ---------------------------------------------------------------- inputs
template<class T> struct InVol { T l,r,b,t,n,f; };
template<class T> struct InPersp { T fovy,aspect,n,f; };
template<class T> struct InFov { T fov,w,h,n,f; };
template<class T> struct InInf { T fovy,aspect,n,ep; };

template<class T> static bool dom_lr(T l,T r){ const int E=Tr<T>::EM; return mag_ok(l,E)&&mag_ok(r,E)&&l<r; }
template<class T> static bool dom_nf(T n,T f){ const int E=Tr<T>::EM; return mag_ok_nz(n,E)&&mag_ok_nz(f,E)&&n>0&&n<f; }
template<class T> static bool dom_fov(T y){ return isfinite_b(y) && (long double)y>=0x1p-7L && (long double)y<=PI_L-0x1p-7L; }
template<class T> static bool dom_aspect(T a){ return isfinite_b(a) && a>=(T)0x1p-8 && a<=(T)0x1p8; }

template<class T> static void cls_vol(vf::Ctx& c,const InVol<T>& in){ c.cls((in.l==-in.r&&in.b==-in.t)?"axis-symmetric":"off-centre"); long double q=(long double)in.f/(long double)in.n; c.cls(q<2?"far/near<2":(q<1000?"far/near<1e3":"far/near>=1e3")); }

// ---- ortho (3D): 8 corners; E = 3 (worst entry -(a+b)/(a-b): two roundings + division)
template<class T,bool LH,bool ZO> static void k_ortho(const InVol<T>& in,vf::Ctx& c){ TRT
	if(!dom_lr(in.l,in.r)||!dom_lr(in.b,in.t)||!dom_nf(in.n,in.f)) SKIP("out-of-domain");
	cls_vol(c,in);
	M4<T> M=V<LH,ZO>::ortho(in.l,in.r,in.b,in.t,in.n,in.f);
	if(!mat_finite(M)){ c.fail("matrix:non-finite-entry",smat(M),std::string("finite entries")); return; }
	Once<T> once; const W sg= LH? 1: -1;
	for(int m=0;m<8;m++){ Corner<T> k; k.v[0]= m&1? in.r: in.l; k.v[1]= m&2? in.t: in.b; k.v[2]= sg*(W)(m&4? in.f: in.n); k.v[3]=1; k.xs= m&1?1:-1; k.ys= m&2?1:-1;
		if(m&4){ k.zwant=1; k.zlabel="far!=+1"; } else { k.zwant= ZO?0:-1; k.zlabel= ZO?"near!=0":"near!=-1"; }
		check_corner<T>(c,M,k,3,once); }
}
// ---- ortho (2D, gluOrtho2D): x,y extents only (the statement says nothing about its depth mapping); w must stay 1
template<class T> static void k_ortho2d(const InVol<T>& in,vf::Ctx& c){ TRT
	if(!dom_lr(in.l,in.r)||!dom_lr(in.b,in.t)) SKIP("out-of-domain");
	M4<T> M=glm::ortho(in.l,in.r,in.b,in.t);
	if(!mat_finite(M)){ c.fail("matrix:non-finite-entry",smat(M),std::string("finite entries")); return; }
	Once<T> once; static const double Z[3]={-1,0,1};
	for(int m=0;m<12;m++){ Corner<T> k; k.v[0]= m&1? in.r: in.l; k.v[1]= m&2? in.t: in.b; k.v[2]=Z[m>>2]; k.v[3]=1; k.xs= m&1?1:-1; k.ys= m&2?1:-1; k.zwant=0; k.zlabel="unjudged";
		check_corner<T>(c,M,k,3,once,false); }
}
// ---- frustum: near corners (x,y,-+n), far corners on the same rays (x f/n, y f/n, -+f); E = 3
template<class T,bool LH,bool ZO> static void k_frustum(const InVol<T>& in,vf::Ctx& c){ TRT
	if(!dom_lr(in.l,in.r)||!dom_lr(in.b,in.t)||!dom_nf(in.n,in.f)) SKIP("out-of-domain");
	cls_vol(c,in);
	M4<T> M=V<LH,ZO>::frustum(in.l,in.r,in.b,in.t,in.n,in.f);
	if(!mat_finite(M)){ c.fail("matrix:non-finite-entry",smat(M),std::string("finite entries")); return; }
	Once<T> once; const W sg= LH? 1: -1, q=(W)in.f/(W)in.n;
	for(int m=0;m<8;m++){ Corner<T> k; W s= m&4? q: W(1); k.v[0]=s*(W)(m&1? in.r: in.l); k.v[1]=s*(W)(m&2? in.t: in.b); k.v[2]=sg*(W)(m&4? in.f: in.n); k.v[3]=1; k.xs= m&1?1:-1; k.ys= m&2?1:-1;
		if(m&4){ k.zwant=1; k.zlabel="far!=+1"; } else { k.zwant= ZO?0:-1; k.zlabel= ZO?"near!=0":"near!=-1"; }
		check_corner<T>(c,M,k,3,once); }
}
// corners of a symmetric perspective volume: half extents hx = aspect*tan(fovy/2), hy = tan(fovy/2) per unit depth
template<class T> static void persp_corners(vf::Ctx& c,const M4<T>& M,typename Tr<T>::W hx,typename Tr<T>::W hy,T n,T f,bool LH,bool ZO,bool infinite,double E,typename Tr<T>::W far_want,const char* far_label){ TRT
	Once<T> once; const W sg= LH? 1: -1;
	for(int m=0;m<8;m++){ Corner<T> k; bool fr=(m&4)!=0; W d= fr? (infinite? W(1): (W)f): (W)n;
		k.v[0]=(m&1?1:-1)*hx*d; k.v[1]=(m&2?1:-1)*hy*d; k.v[2]=sg*d; k.v[3]= (fr&&infinite)? 0: 1; k.xs= m&1?1:-1; k.ys= m&2?1:-1;
		if(fr){ k.zwant=far_want; k.zlabel=far_label; } else { k.zwant= ZO?0:-1; k.zlabel= ZO?"near!=0":"near!=-1"; }
		check_corner<T>(c,M,k,E,once); }
}
// ---- perspective: E = 4+1 (tan 2u, aspect*tan u, 1/x u); == frustum(-xr,xr,-yr,yr,n,f) with xr,yr rounded once (k = 4+2+1)
template<class T,bool LH,bool ZO> static void k_perspective(const InPersp<T>& in,vf::Ctx& c){ TRT
	if(!dom_fov(in.fovy)||!dom_aspect(in.aspect)||!dom_nf(in.n,in.f)) SKIP("out-of-domain");
	c.cls((long double)in.fovy<0.2L?"fovy<0.2":((long double)in.fovy>2.9L?"fovy>2.9":"fovy-regular"));
	M4<T> M=V<LH,ZO>::perspective(in.fovy,in.aspect,in.n,in.f);
	if(!mat_finite(M)){ c.fail("matrix:non-finite-entry",smat(M),std::string("finite entries")); return; }
	W hy=w_tan((W)in.fovy/2), hx=hy*(W)in.aspect;
	persp_corners<T>(c,M,hx,hy,in.n,in.f,LH,ZO,false,5,W(1),"far!=+1");
	T xr=(T)(hx*(W)in.n), yr=(T)(hy*(W)in.n);
	if(mag_ok_nz(xr,Tr<T>::EM)&&mag_ok_nz(yr,Tr<T>::EM)){ M4<T> F=V<LH,ZO>::frustum(-xr,xr,-yr,yr,in.n,in.f); check_entrywise<T>(c,M,F,7,"perspective!=symmetric-frustum","vs-frustum:err/bound"); }
}
// ---- perspectiveFov: E = 7+1 (cos 2u, sin 2u, / u, *height u, /width u); == perspective(fov, width/height, n, f) (k = 7+4+1+1)
template<class T,bool LH,bool ZO> static void k_perspectiveFov(const InFov<T>& in,vf::Ctx& c){ TRT
	const int EM=Tr<T>::EM;
	if(!dom_fov(in.fov)||!mag_ok_nz(in.w,EM)||!mag_ok_nz(in.h,EM)||!(in.w>0)||!(in.h>0)||!dom_nf(in.n,in.f)) SKIP("out-of-domain");
	W aspW=(W)in.w/(W)in.h; T asp=(T)aspW; if(!dom_aspect(asp)) SKIP("aspect-out-of-domain");
	M4<T> M=V<LH,ZO>::perspectiveFov(in.fov,in.w,in.h,in.n,in.f);
	if(!mat_finite(M)){ c.fail("matrix:non-finite-entry",smat(M),std::string("finite entries")); return; }
	W hy=w_tan((W)in.fov/2), hx=hy*aspW;
	persp_corners<T>(c,M,hx,hy,in.n,in.f,LH,ZO,false,8,W(1),"far!=+1");
	M4<T> P=V<LH,ZO>::perspective(in.fov,asp,in.n,in.f); check_entrywise<T>(c,M,P,13,"perspectiveFov!=perspective(aspect=width/height)","vs-perspective:err/bound");
}
// ---- infinitePerspective: E = 6+1 (tan 2u, *zNear u, *aspect u, right-left u, 2n/x u); far corners are points at infinity
template<class T,bool LH,bool ZO> static void k_infinite(const InInf<T>& in,vf::Ctx& c){ TRT
	if(!dom_fov(in.fovy)||!dom_aspect(in.aspect)||!mag_ok_nz(in.n,Tr<T>::EM)||!(in.n>0)) SKIP("out-of-domain");
	M4<T> M=V<LH,ZO>::infinitePerspective(in.fovy,in.aspect,in.n);
	if(!mat_finite(M)){ c.fail("matrix:non-finite-entry",smat(M),std::string("finite entries")); return; }
	W hy=w_tan((W)in.fovy/2), hx=hy*(W)in.aspect;
	persp_corners<T>(c,M,hx,hy,in.n,in.n,LH,ZO,true,7,W(1),"far(infinity)!=+1");
}
// ---- tweakedInfinitePerspective (right-handed, -1..1): near -> -1, infinity -> 1-ep (Lengyel); both overloads
template<class T> static void k_tweaked(const InInf<T>& in,vf::Ctx& c){ TRT
	if(!dom_fov(in.fovy)||!dom_aspect(in.aspect)||!mag_ok_nz(in.n,Tr<T>::EM)||!(in.n>0)||!isfinite_b(in.ep)||!(in.ep>=0)||!(in.ep<=(T)0.0625)) SKIP("out-of-domain");
	W hy=w_tan((W)in.fovy/2), hx=hy*(W)in.aspect;
	{ M4<T> M=glm::tweakedInfinitePerspective(in.fovy,in.aspect,in.n,in.ep);
	  if(!mat_finite(M)){ c.fail("ep-overload:matrix:non-finite-entry",smat(M),std::string("finite entries")); return; }
	  persp_corners<T>(c,M,hx,hy,in.n,in.n,false,false,true,7,W(1)-(W)in.ep,"far(infinity)!=1-ep"); }
	{ M4<T> M=glm::tweakedInfinitePerspective(in.fovy,in.aspect,in.n);
	  if(!mat_finite(M)){ c.fail("default-ep-overload:matrix:non-finite-entry",smat(M),std::string("finite entries")); return; }
	  persp_corners<T>(c,M,hx,hy,in.n,in.n,false,false,true,7,W(1)-(W)std::numeric_limits<T>::epsilon(),"far(infinity)!=1-epsilon"); }
}

// ---------------------------------------------------------------- (3) macro dispatch, EXACT
template<class T> static bool same_mat(const M4<T>& a,const M4<T>& b){ for(int c=0;c<4;c++) for(int r=0;r<4;r++) if(!same(a[c][r],b[c][r])) return false; return true; }
// `got` must be bitwise the matrix of variant (lh,zo); the class names the function, the variant it had to be and the variant it is
template<class T> static void dispatch_one(vf::Ctx& c,const char* fam,const char* fn,const M4<T>& got,const M4<T> var[2][2],bool lh,bool zo){
	static const char* SFX[2][2]={{"RH_NO","RH_ZO"},{"LH_NO","LH_ZO"}};
	if(same_mat(got,var[lh][zo])) return;
	std::string is="none-of-the-four-variants"; for(int a=0;a<2;a++) for(int b=0;b<2;b++) if(same_mat(got,var[a][b])) is=std::string(fam)+SFX[a][b];
	c.fail(std::string(fn)+":must-equal-"+fam+SFX[lh][zo]+":equals-"+is,smat(got),smat(var[lh][zo]));
}
#define VARS(CALL) M4<T> var[2][2]; var[0][0]=V<false,false>::CALL; var[0][1]=V<false,true>::CALL; var[1][0]=V<true,false>::CALL; var[1][1]=V<true,true>::CALL;
#define DISPATCH5(FAM,ARGS) \
	dispatch_one<T>(c,#FAM,#FAM,glm::FAM ARGS,var,CFG_LH,CFG_ZO); \
	dispatch_one<T>(c,#FAM,#FAM "LH",glm::FAM##LH ARGS,var,true,CFG_ZO); dispatch_one<T>(c,#FAM,#FAM "RH",glm::FAM##RH ARGS,var,false,CFG_ZO); \
	dispatch_one<T>(c,#FAM,#FAM "ZO",glm::FAM##ZO ARGS,var,CFG_LH,true); dispatch_one<T>(c,#FAM,#FAM "NO",glm::FAM##NO ARGS,var,CFG_LH,false);
template<class T> static void k_ortho_dispatch(const InVol<T>& in,vf::Ctx& c){
	if(!dom_lr(in.l,in.r)||!dom_lr(in.b,in.t)||!dom_nf(in.n,in.f)) SKIP("out-of-domain");
	VARS(ortho(in.l,in.r,in.b,in.t,in.n,in.f)) DISPATCH5(ortho,(in.l,in.r,in.b,in.t,in.n,in.f))
}
template<class T> static void k_frustum_dispatch(const InVol<T>& in,vf::Ctx& c){
	if(!dom_lr(in.l,in.r)||!dom_lr(in.b,in.t)||!dom_nf(in.n,in.f)) SKIP("out-of-domain");
	VARS(frustum(in.l,in.r,in.b,in.t,in.n,in.f)) DISPATCH5(frustum,(in.l,in.r,in.b,in.t,in.n,in.f))
}
template<class T> static void k_perspective_dispatch(const InPersp<T>& in,vf::Ctx& c){
	if(!dom_fov(in.fovy)||!dom_aspect(in.aspect)||!dom_nf(in.n,in.f)) SKIP("out-of-domain");
	VARS(perspective(in.fovy,in.aspect,in.n,in.f)) DISPATCH5(perspective,(in.fovy,in.aspect,in.n,in.f))
}
template<class T> static void k_perspectiveFov_dispatch(const InFov<T>& in,vf::Ctx& c){
	const int EM=Tr<T>::EM;
	if(!dom_fov(in.fov)||!mag_ok_nz(in.w,EM)||!mag_ok_nz(in.h,EM)||!(in.w>0)||!(in.h>0)||!dom_nf(in.n,in.f)) SKIP("out-of-domain");
	VARS(perspectiveFov(in.fov,in.w,in.h,in.n,in.f)) DISPATCH5(perspectiveFov,(in.fov,in.w,in.h,in.n,in.f))
}
template<class T> static void k_infinite_dispatch(const InInf<T>& in,vf::Ctx& c){
	if(!dom_fov(in.fovy)||!dom_aspect(in.aspect)||!mag_ok_nz(in.n,Tr<T>::EM)||!(in.n>0)) SKIP("out-of-domain");
	VARS(infinitePerspective(in.fovy,in.aspect,in.n))
	dispatch_one<T>(c,"infinitePerspective","infinitePerspective",glm::infinitePerspective(in.fovy,in.aspect,in.n),var,CFG_LH,CFG_ZO);
#if defined(C08_INFLHRH) && C08_INFLHRH
	// the header declares infinitePerspectiveLH / infinitePerspectiveRH; they are only called when the spec's link probe found definitions
	dispatch_one<T>(c,"infinitePerspective","infinitePerspectiveLH",glm::infinitePerspectiveLH(in.fovy,in.aspect,in.n),var,true,CFG_ZO);
	dispatch_one<T>(c,"infinitePerspective","infinitePerspectiveRH",glm::infinitePerspectiveRH(in.fovy,in.aspect,in.n),var,false,CFG_ZO);
#endif
}

// ---------------------------------------------------------------- (4) project / unProject
// input: obj, viewport (x,y,w,h), model and projection (column major), flag != 0 -> the viewport is passed as ivec4
template<class T> struct InPU { T obj[3]; T vp[4]; T M[16]; T P[16]; T flag; };
template<class T> static M4<T> mk_mat(const T* p){ M4<T> m; for(int c=0;c<4;c++) for(int r=0;r<4;r++) m[c][r]=p[c*4+r]; return m; }
template<class T> static bool vp_is_int(const T* vp){ for(int i=0;i<4;i++) if(!(vp[i]==std::floor(vp[i]) && std::fabs(vp[i])<=(T)1000000)) return false; return true; }
template<class T> static bool dom_pu(const InPU<T>& in){ const int E=Tr<T>::EP;
	for(int i=0;i<3;i++) if(!mag_ok(in.obj[i],E)) return false; for(int i=0;i<16;i++) if(!mag_ok(in.M[i],E)||!mag_ok(in.P[i],E)) return false;
	for(int i=0;i<4;i++) if(!mag_ok(in.vp[i],E)) return false; if(!(in.vp[2]>0)||!(in.vp[3]>0)) return false;
	if(in.flag!=0 && !vp_is_int(in.vp)) return false; return true; }
enum { D_NO=0, D_ZO=1, D_CFG=2 };
template<class T> static glm::vec<3,T,glm::defaultp> call_project(int d,const InPU<T>& in,const T* p){
	glm::vec<3,T,glm::defaultp> o(p[0],p[1],p[2]); M4<T> M=mk_mat(in.M), P=mk_mat(in.P);
	if(in.flag!=0){ glm::vec<4,int,glm::defaultp> v((int)in.vp[0],(int)in.vp[1],(int)in.vp[2],(int)in.vp[3]); return d==D_NO? glm::projectNO(o,M,P,v): d==D_ZO? glm::projectZO(o,M,P,v): glm::project(o,M,P,v); }
	glm::vec<4,T,glm::defaultp> v(in.vp[0],in.vp[1],in.vp[2],in.vp[3]); return d==D_NO? glm::projectNO(o,M,P,v): d==D_ZO? glm::projectZO(o,M,P,v): glm::project(o,M,P,v);
}
template<class T> static glm::vec<3,T,glm::defaultp> call_unproject(int d,const InPU<T>& in,const T* p){
	glm::vec<3,T,glm::defaultp> o(p[0],p[1],p[2]); M4<T> M=mk_mat(in.M), P=mk_mat(in.P);
	if(in.flag!=0){ glm::vec<4,int,glm::defaultp> v((int)in.vp[0],(int)in.vp[1],(int)in.vp[2],(int)in.vp[3]); return d==D_NO? glm::unProjectNO(o,M,P,v): d==D_ZO? glm::unProjectZO(o,M,P,v): glm::unProject(o,M,P,v); }
	glm::vec<4,T,glm::defaultp> v(in.vp[0],in.vp[1],in.vp[2],in.vp[3]); return d==D_NO? glm::unProjectNO(o,M,P,v): d==D_ZO? glm::unProjectZO(o,M,P,v): glm::unProject(o,M,P,v);
}
template<class T> static std::string s3(const glm::vec<3,T,glm::defaultp>& v){ return "("+vf::show(v[0])+", "+vf::show(v[1])+", "+vf::show(v[2])+")"; }
template<class T,class W> static std::string s3w(const W* v){ return "("+vf::show((T)v[0])+", "+vf::show((T)v[1])+", "+vf::show((T)v[2])+")"; }

// exact forward map and first-order error bound of the documented algorithm:
//   t = M v (gamma_4 A), c = P t (2 gamma_4 B), ndc = c/c_w (2u: division or reciprocal-multiply), h = ndc/2 + 1/2 (u), win = h*vp_wh + vp_xy (2u)
template<class T> struct Fwd { typename Tr<T>::W win[3], dwin[3]; bool ok; };
template<class T> static Fwd<T> forward(const InPU<T>& in,const T* obj,bool zo){ TRT Fwd<T> r; r.ok=false;
	W v[4]={(W)obj[0],(W)obj[1],(W)obj[2],1}, t[4],A[4],cl[4],B[4];
	for(int i=0;i<4;i++){ t[i]=0; A[i]=0; for(int j=0;j<4;j++){ W p=(W)in.M[j*4+i]*v[j]; t[i]+=p; A[i]+=w_abs(p); } }
	for(int i=0;i<4;i++){ cl[i]=0; B[i]=0; for(int j=0;j<4;j++){ cl[i]+=(W)in.P[j*4+i]*t[j]; B[i]+=w_abs((W)in.P[j*4+i])*A[j]; } }
	W dc[4]; for(int i=0;i<4;i++) dc[i]=8*u*B[i]+4*tiny;
	if(!(w_abs(cl[3])>=16*dc[3])) return r;                          // w indistinguishable from 0: projective division ill-conditioned
	for(int i=0;i<3;i++){ W ndc=cl[i]/cl[3], dn=(dc[i]+w_abs(ndc)*dc[3])/(w_abs(cl[3])-dc[3])+2*u*w_abs(ndc)+tiny;
		if(i==2&&zo){ r.win[2]=ndc; r.dwin[2]=dn; continue; }
		W h=ndc/2+W(0.5), dh=dn/2+u*w_abs(h)+tiny;
		if(i==2){ r.win[2]=h; r.dwin[2]=dh; continue; }
		W sc=(W)in.vp[2+i], of=(W)in.vp[i]; r.win[i]=h*sc+of; r.dwin[i]=w_abs(sc)*dh+u*w_abs(h*sc)+u*w_abs(r.win[i])+tiny; }
	r.ok=true; return r;
}
// exact inverse map with the error model of unProject (see header comment): A^ = fl(P M), cofactor inverse, tmp from the window
// coordinates, o = Inv tmp, q = o/o_w.   dwin_in: additional uncertainty of the window coordinates (0 when they are exact inputs)
template<class T> struct Bwd { typename Tr<T>::W q[3], dq[3]; bool ok; const char* why; };
template<class W> static inline W det3(const W m[3][3]){ return m[0][0]*(m[1][1]*m[2][2]-m[1][2]*m[2][1])-m[0][1]*(m[1][0]*m[2][2]-m[1][2]*m[2][0])+m[0][2]*(m[1][0]*m[2][1]-m[1][1]*m[2][0]); }
template<class W> static inline W perm3(const W m[3][3]){ W a[3][3]; for(int i=0;i<3;i++) for(int j=0;j<3;j++) a[i][j]=w_abs(m[i][j]);
	return a[0][0]*(a[1][1]*a[2][2]+a[1][2]*a[2][1])+a[0][1]*(a[1][0]*a[2][2]+a[1][2]*a[2][0])+a[0][2]*(a[1][0]*a[2][1]+a[1][1]*a[2][0]); }
template<class T> static Bwd<T> backward(const InPU<T>& in,const T* win,bool zo,const typename Tr<T>::W* dwin_in){ TRT Bwd<T> r; r.ok=false; r.why="";
	W A[4][4],E[4][4]; // [row][col]
	for(int i=0;i<4;i++) for(int j=0;j<4;j++){ W s=0,g=0; int nz=0; bool unit=false; for(int k=0;k<4;k++){ W p=(W)in.P[k*4+i]*(W)in.M[j*4+k]; s+=p; g+=w_abs(p); if(p!=0){ nz++; unit= std::fabs(in.M[j*4+k])==1 || std::fabs(in.P[k*4+i])==1; } }
		A[i][j]=s; E[i][j]= (nz<=1&&(nz==0||unit))? W(0): W(nz)*u*g; }
	W C[4][4],Pm[4][4],det=0,per=0;
	for(int i=0;i<4;i++) for(int j=0;j<4;j++){ W m[3][3]; int a=0; for(int ii=0;ii<4;ii++){ if(ii==i) continue; int b=0; for(int jj=0;jj<4;jj++){ if(jj==j) continue; m[a][b]=A[ii][jj]; b++; } a++; }
		C[i][j]=(((i+j)&1)?-1:1)*det3(m); Pm[i][j]=perm3(m); }
	for(int j=0;j<4;j++){ det+=A[0][j]*C[0][j]; per+=w_abs(A[0][j])*Pm[0][j]; }
	if(!(w_abs(det)>=16*8*u*per) || !(per>0)){ r.why="det~0"; return r; }
	W Inv[4][4],dI[4][4],ad=w_abs(det);
	for(int i=0;i<4;i++) for(int j=0;j<4;j++){ Inv[i][j]=C[j][i]/det; dI[i][j]=(5*u*Pm[j][i]+w_abs(C[j][i])*8*u*per/ad)/ad+2*u*w_abs(Inv[i][j]); }
	// perturbation A^ - A: |Inv| |E| |Inv| (first order; demanded small)
	W IE[4][4]; W mx=0; for(int i=0;i<4;i++){ W rs=0; for(int j=0;j<4;j++){ W s=0; for(int k=0;k<4;k++) s+=w_abs(Inv[i][k])*E[k][j]; IE[i][j]=s; rs+=s; } mx=w_max(mx,rs); }
	for(int j=0;j<4;j++){ W cs=0; for(int i=0;i<4;i++) cs+=IE[i][j]; mx=w_max(mx,cs); }
	if(!(mx<=W(1)/16)){ r.why="product-perturbation-not-small"; return r; }
	for(int i=0;i<4;i++) for(int j=0;j<4;j++){ W s=0; for(int k=0;k<4;k++) s+=IE[i][k]*w_abs(Inv[k][j]); dI[i][j]+=s; }
	// window -> ndc
	W tmp[4],dt[4];
	for(int i=0;i<2;i++){ W s=((W)win[i]-(W)in.vp[i])/(W)in.vp[2+i]; tmp[i]=2*s-1; dt[i]=4*u*w_abs(s)+u*w_abs(tmp[i])+tiny+(dwin_in? 2*dwin_in[i]/w_abs((W)in.vp[2+i]): W(0)); }
	if(zo){ tmp[2]=win[2]; dt[2]= dwin_in? dwin_in[2]: W(0); } else { tmp[2]=2*(W)win[2]-1; dt[2]=u*w_abs(tmp[2])+tiny+(dwin_in? 2*dwin_in[2]: W(0)); }
	tmp[3]=1; dt[3]=0;
	W o[4],dO[4]; for(int i=0;i<4;i++){ o[i]=0; dO[i]=0; W S=0; for(int j=0;j<4;j++){ o[i]+=Inv[i][j]*tmp[j]; S+=w_abs(Inv[i][j]*tmp[j]); dO[i]+=dI[i][j]*w_abs(tmp[j])+w_abs(Inv[i][j])*dt[j]; } dO[i]+=4*u*S+4*tiny; }
	if(!(w_abs(o[3])>=16*dO[3])){ r.why="w~0"; return r; }
	for(int i=0;i<3;i++){ r.q[i]=o[i]/o[3]; r.dq[i]=(dO[i]+w_abs(r.q[i])*dO[3])/(w_abs(o[3])-dO[3])+2*u*w_abs(r.q[i])+tiny; }
	r.ok=true; return r;
}

template<class T> static void k_project(const InPU<T>& in,vf::Ctx& c){ TRT
	if(!dom_pu(in)) SKIP("out-of-domain");
	c.cls(in.flag!=0?"viewport:ivec4":"viewport:vec4");
	for(int zo=0;zo<2;zo++){ Fwd<T> f=forward(in,in.obj,zo!=0); if(!f.ok){ c.cls("skipped:w~0"); continue; }
		auto g=call_project(zo?D_ZO:D_NO,in,in.obj); const char* fn= zo?"projectZO":"projectNO";
		bool bad=false,nonfin=false; for(int i=0;i<3;i++){ if(!isfinite_b(g[i])){ nonfin=true; continue; } W err=w_abs((W)g[i]-f.win[i]), bound=W(SF)*f.dwin[i]; rat(c,"project:err/bound",(double)(err/bound));
			if(!(err<=bound)){ if(!bad) c.fail(std::string(fn)+(i==2?":window-z":":window-xy")+":differs-from-viewport(ndc(P*M*obj))",s3(g),s3w<T>(f.win)); bad=true; } }
		if(nonfin) c.fail(std::string(fn)+":non-finite-for-regular-input",s3(g),s3w<T>(f.win)); }
	// macro dispatch, exact
	auto d=call_project(D_CFG,in,in.obj), n=call_project(D_NO,in,in.obj), z=call_project(D_ZO,in,in.obj); auto& want= CFG_ZO? z: n;
	bool eq=true,eqo=true; for(int i=0;i<3;i++){ if(!same(d[i],want[i])) eq=false; if(!same(d[i],(CFG_ZO?n:z)[i])) eqo=false; }
	if(!eq) c.fail(std::string("project:must-equal-")+(CFG_ZO?"projectZO":"projectNO")+(eqo?(CFG_ZO?":equals-projectNO":":equals-projectZO"):":equals-neither"),s3(d),s3(want));
}
template<class T> static void k_unproject(const InPU<T>& in,vf::Ctx& c){ TRT
	if(!dom_pu(in)) SKIP("out-of-domain");
	c.cls(in.flag!=0?"viewport:ivec4":"viewport:vec4");
	T lastwin[3]={0,0,0}; bool have=false;
	for(int zo=0;zo<2;zo++){ const char* fn= zo?"unProjectZO":"unProjectNO";
		Fwd<T> f=forward(in,in.obj,zo!=0); if(!f.ok){ c.cls("skipped:w~0"); continue; }
		auto wv=call_project(zo?D_ZO:D_NO,in,in.obj); T win[3]={wv[0],wv[1],wv[2]};
		bool fin=true; for(int i=0;i<3;i++) if(!mag_ok(win[i],Tr<T>::EP+4)) fin=false; if(!fin){ c.cls("skipped:window-coordinates-out-of-range"); continue; }
		// project must itself be inside its bound for the round trip to be judged (its own op reports it otherwise)
		bool pin=true; for(int i=0;i<3;i++) if(!(w_abs((W)win[i]-f.win[i])<=W(SF)*f.dwin[i])) pin=false;
		Bwd<T> b=backward(in,win,zo!=0,(const W*)nullptr); if(!b.ok){ c.cls(b.why[0]=='d'?"skipped:det~0":(b.why[0]=='w'?"skipped:inverse-w~0":"skipped:product-perturbation")); continue; }
		auto q=call_unproject(zo?D_ZO:D_NO,in,win); for(int i=0;i<3;i++) lastwin[i]=win[i]; have=true;
		bool nonfin=false,bad=false; for(int i=0;i<3;i++){ if(!isfinite_b(q[i])){ nonfin=true; continue; } W err=w_abs((W)q[i]-b.q[i]), bound=W(SF)*b.dq[i]; rat(c,"unProject:err/bound",(double)(err/bound)); if(!(err<=bound)) bad=true; }
		if(nonfin){ c.fail(std::string(fn)+":non-finite-for-regular-input",s3(q),s3w<T>(b.q)); continue; }
		if(bad) c.fail(std::string(fn)+":differs-from-exact-inverse-of-viewport(ndc(P*M*obj))",s3(q),s3w<T>(b.q));
		// round trip: the window coordinates carry project's error (at most SF*dwin when project is inside its bound)
		if(pin){ W dw[3]; for(int i=0;i<3;i++) dw[i]=W(SF)*f.dwin[i]; Bwd<T> rt=backward(in,win,zo!=0,dw); if(!rt.ok){ c.cls("skipped:round-trip-ill-conditioned"); continue; }
			W p[3]={(W)in.obj[0],(W)in.obj[1],(W)in.obj[2]}; bool rb=false; for(int i=0;i<3;i++){ W err=w_abs((W)q[i]-p[i]), bound=W(SF)*rt.dq[i]; rat(c,"roundtrip:err/bound",(double)(err/bound)); if(!(err<=bound)) rb=true; }
			if(rb) c.fail(std::string(fn)+"("+(zo?"projectZO":"projectNO")+"(p))!=p",s3(q),s3w<T>(p)); }
	}
	if(have){ auto d=call_unproject(D_CFG,in,lastwin), n=call_unproject(D_NO,in,lastwin), z=call_unproject(D_ZO,in,lastwin); auto& want= CFG_ZO? z: n;
		bool eq=true,eqo=true; for(int i=0;i<3;i++){ if(!same(d[i],want[i])) eq=false; if(!same(d[i],(CFG_ZO?n:z)[i])) eqo=false; }
		if(!eq) c.fail(std::string("unProject:must-equal-")+(CFG_ZO?"unProjectZO":"unProjectNO")+(eqo?(CFG_ZO?":equals-unProjectNO":":equals-unProjectZO"):":equals-neither"),s3(d),s3(want)); }
}

// ---------------------------------------------------------------- (5) clip cube <-> viewport box, identity matrices
// corner bits: 1 = right, 2 = top, 4 = far.  project: x = vp.x (+ vp.z), one rounding; z = 0 / 1 computed without rounding error.
// unProject from the (rounded) viewport corner: |x -+ 1| <= u (2 |vp.x+vp.z|/vp.z + 5)  (rounding of the corner, of the subtraction,
// of the division and of 2s-1), z exact.
template<class T> struct InCube { T vp[4]; T corner; T flag; };
template<class T> static void k_clipcube(const InCube<T>& in,vf::Ctx& c){ TRT
	InPU<T> pu; memset(&pu,0,sizeof pu); for(int i=0;i<4;i++){ pu.vp[i]=in.vp[i]; pu.M[i*5]=1; pu.P[i*5]=1; } pu.flag=in.flag;
	if(!dom_pu(pu)||!(in.corner>=0&&in.corner<=7&&in.corner==std::floor(in.corner))) SKIP("out-of-domain");
	int m=(int)in.corner; c.cls(in.flag!=0?"viewport:ivec4":"viewport:vec4");
	W wx= m&1? (W)in.vp[0]+(W)in.vp[2]: (W)in.vp[0], wy= m&2? (W)in.vp[1]+(W)in.vp[3]: (W)in.vp[1], wz= m&4? 1: 0;
	for(int d=0;d<3;d++){ bool zo= d==D_ZO || (d==D_CFG&&CFG_ZO); const char* pn= d==D_NO?"projectNO":d==D_ZO?"projectZO":"project"; const char* un= d==D_NO?"unProjectNO":d==D_ZO?"unProjectZO":"unProject";
		T cube[3]={ (T)(m&1?1:-1), (T)(m&2?1:-1), (T)(m&4? 1: (zo?0:-1)) };
		auto g=call_project(d,pu,cube); W want[3]={wx,wy,wz};
		W bx=W(SF)*u*w_abs(wx)+tiny, by=W(SF)*u*w_abs(wy)+tiny, bz=W(SF)*u;
		if(!(w_abs((W)g[0]-wx)<=bx)) c.fail(std::string(pn)+(m&1?":clip-x=+1!=viewport-right-edge":":clip-x=-1!=viewport-left-edge"),s3(g),s3w<T>(want));
		if(!(w_abs((W)g[1]-wy)<=by)) c.fail(std::string(pn)+(m&2?":clip-y=+1!=viewport-top-edge":":clip-y=-1!=viewport-bottom-edge"),s3(g),s3w<T>(want));
		if(!(w_abs((W)g[2]-wz)<=bz)) c.fail(std::string(pn)+(m&4?":clip-far!=depth-1":(zo?":clip-near(0)!=depth-0":":clip-near(-1)!=depth-0")),s3(g),s3w<T>(want));
		T win[3]={(T)wx,(T)wy,(T)wz}; auto q=call_unproject(d,pu,win); W cw[3]={(W)cube[0],(W)cube[1],(W)cube[2]};
		W ux=W(SF)*u*(2*w_abs(wx)/(W)in.vp[2]+5), uy=W(SF)*u*(2*w_abs(wy)/(W)in.vp[3]+5), uz=W(SF)*u;
		rat(c,"clipcube:unProject-x-err/bound",(double)(w_abs((W)q[0]-cw[0])/ux));
		if(!(w_abs((W)q[0]-cw[0])<=ux)) c.fail(std::string(un)+(m&1?":viewport-right-edge!=clip-x=+1":":viewport-left-edge!=clip-x=-1"),s3(q),s3w<T>(cw));
		if(!(w_abs((W)q[1]-cw[1])<=uy)) c.fail(std::string(un)+(m&2?":viewport-top-edge!=clip-y=+1":":viewport-bottom-edge!=clip-y=-1"),s3(q),s3w<T>(cw));
		if(!(w_abs((W)q[2]-cw[2])<=uz)) c.fail(std::string(un)+(m&4?":depth-1!=clip-far":(zo?":depth-0!=clip-near(0)":":depth-0!=clip-near(-1)")),s3(q),s3w<T>(cw));
	}
}

// ---------------------------------------------------------------- pickMatrix (gluPickMatrix)
// The pick rectangle center +- delta/2 (window coordinates) has ndc x = 2 (win - vp.x)/vp.z - 1; the matrix must send it to -+1.
// entries: s = vp.z/delta (u), t = (vp.z - 2 (center - vp.x))/delta: 3 roundings relative to the magnitude sum (vp.z + 2|center-vp.x|)/delta
template<class T> struct InPick { T cx,cy,dx,dy; T vp[4]; T flag; };
template<class T> static void k_pick(const InPick<T>& in,vf::Ctx& c){ TRT const int E=Tr<T>::EP;
	if(!mag_ok(in.cx,E)||!mag_ok(in.cy,E)||!mag_ok_nz(in.dx,E)||!mag_ok_nz(in.dy,E)||!(in.dx>0)||!(in.dy>0)) SKIP("out-of-domain");
	for(int i=0;i<4;i++) if(!mag_ok(in.vp[i],E)) SKIP("out-of-domain"); if(!(in.vp[2]>0)||!(in.vp[3]>0)) SKIP("out-of-domain"); if(in.flag!=0&&!vp_is_int(in.vp)) SKIP("out-of-domain");
	c.cls(in.flag!=0?"viewport:ivec4":"viewport:vec4");
	glm::vec<2,T,glm::defaultp> ce(in.cx,in.cy), de(in.dx,in.dy); M4<T> M;
	if(in.flag!=0) M=glm::pickMatrix(ce,de,glm::vec<4,int,glm::defaultp>((int)in.vp[0],(int)in.vp[1],(int)in.vp[2],(int)in.vp[3]));
	else M=glm::pickMatrix(ce,de,glm::vec<4,T,glm::defaultp>(in.vp[0],in.vp[1],in.vp[2],in.vp[3]));
	if(!mat_finite(M)){ c.fail("matrix:non-finite-entry",smat(M),std::string("finite entries")); return; }
	const T cen[2]={in.cx,in.cy}, del[2]={in.dx,in.dy}; bool failed[2]={false,false};
	for(int m=0;m<4;m++) for(int a=0;a<2;a++){ int sg= (m>>a&1)? 1: -1; W vo=in.vp[a], vs=in.vp[2+a], d=del[a], ce_=cen[a];
		W x=2*(ce_+sg*d/2-vo)/vs-1;                       // ndc coordinate of the edge of the pick region
		W v[4]={0,0,0,1}; v[a]=x; W got=0,S=0,w=0; for(int j=0;j<4;j++){ got+=(W)M[j][a]*v[j]; w+=(W)M[j][3]*v[j]; }
		S=w_abs((W)M[a][a]*x)*2+3*(vs+2*w_abs(ce_-vo))/d;
		W bound=W(SF)*u*S+4*tiny, err=w_abs(got-sg); rat(c,"pickMatrix:err/bound",(double)(err/bound));
		if(w!=1){ if(!failed[a]) c.fail("pick-region-edge:w!=1",vf::show((T)w),std::string("1")); failed[a]=true; continue; }
		if(!(err<=bound)&&!failed[a]){ failed[a]=true; c.fail(std::string(a?"y":"x")+":pick-region-edge-not-mapped-to-clip-edge(-+1)",vf::show((T)got),vf::show((T)sg)); } }
	// z is untouched
	for(int col=0;col<4;col++){ T want= col==2? (T)1: (T)0; if(M[col][2]!=want){ c.fail("z-row-not-identity",vf::show(M[col][2]),vf::show(want)); break; } }
}

// ---------------------------------------------------------------- declared-but-undefined probe (link-time fact supplied by the spec)
struct InNone { int one; };
#if defined(C08_INFLHRH) && !C08_INFLHRH
VF_OP(infinitePerspectiveLH_RH_link, InNone, "i"){
	c.fail("declared-in-ext/matrix_clip_space.hpp:no-definition(undefined-reference-at-link-time)","glm::infinitePerspectiveLH<float/double> and glm::infinitePerspectiveRH<float/double> do not link",
		"definitions selecting the _ZO/_NO variant from GLM_FORCE_DEPTH_ZERO_TO_ONE, like every other half-suffixed builder");
}
#elif defined(C08_INFLHRH)
VF_OP(infinitePerspectiveLH_RH_link, InNone, "i"){ c.cls("definitions-present(checked-in-infinitePerspective_dispatch)"); }
#endif

// ---------------------------------------------------------------- op registration
#define FV(F) F F F F F F
#define FP(F) F F F F
#define FF(F) F F F F F
#define FPU(F) F F F F F F F F F F F F F F F F F F F F F F F F F F F F F F F F F F F F F F F F
#define FCU(F) F F F F F F
#define FPK(F) F F F F F F F F F
#define DEF4(NAME,TN,INT,FMT,KERN) \
	VF_OP(NAME##RH_NO_##TN, INT, FMT){ KERN<decltype(in.n),false,false>(in,c); } VF_OP(NAME##RH_ZO_##TN, INT, FMT){ KERN<decltype(in.n),false,true>(in,c); } \
	VF_OP(NAME##LH_NO_##TN, INT, FMT){ KERN<decltype(in.n),true,false>(in,c); }  VF_OP(NAME##LH_ZO_##TN, INT, FMT){ KERN<decltype(in.n),true,true>(in,c); }
#define DEF_TYPE(T_,TN,F) \
	typedef InVol<T_> InVol_##TN; typedef InPersp<T_> InPersp_##TN; typedef InFov<T_> InFov_##TN; typedef InInf<T_> InInf_##TN; typedef InPU<T_> InPU_##TN; typedef InCube<T_> InCube_##TN; typedef InPick<T_> InPick_##TN; \
	DEF4(ortho,TN,InVol_##TN,FV(F),k_ortho) DEF4(frustum,TN,InVol_##TN,FV(F),k_frustum) DEF4(perspective,TN,InPersp_##TN,FP(F),k_perspective) \
	DEF4(perspectiveFov,TN,InFov_##TN,FF(F),k_perspectiveFov) DEF4(infinitePerspective,TN,InInf_##TN,FP(F),k_infinite) \
	VF_OP(ortho2D_##TN, InVol_##TN, FV(F)){ k_ortho2d<T_>(in,c); } \
	VF_OP(tweakedInfinitePerspective_##TN, InInf_##TN, FP(F)){ k_tweaked<T_>(in,c); } \
	VF_OP(ortho_dispatch_##TN, InVol_##TN, FV(F)){ k_ortho_dispatch<T_>(in,c); } \
	VF_OP(frustum_dispatch_##TN, InVol_##TN, FV(F)){ k_frustum_dispatch<T_>(in,c); } \
	VF_OP(perspective_dispatch_##TN, InPersp_##TN, FP(F)){ k_perspective_dispatch<T_>(in,c); } \
	VF_OP(perspectiveFov_dispatch_##TN, InFov_##TN, FF(F)){ k_perspectiveFov_dispatch<T_>(in,c); } \
	VF_OP(infinitePerspective_dispatch_##TN, InInf_##TN, FP(F)){ k_infinite_dispatch<T_>(in,c); } \
	VF_OP(project_##TN, InPU_##TN, FPU(F)){ k_project<T_>(in,c); } \
	VF_OP(unProject_##TN, InPU_##TN, FPU(F)){ k_unproject<T_>(in,c); } \
	VF_OP(clipcube_viewport_##TN, InCube_##TN, FCU(F)){ k_clipcube<T_>(in,c); } \
	VF_OP(pickMatrix_##TN, InPick_##TN, FPK(F)){ k_pick<T_>(in,c); }
DEF_TYPE(float,f,"f")
DEF_TYPE(double,d,"d")

// ---------------------------------------------------------------- workload
struct Ops { vf::Op *ortho[4],*frustum[4],*persp[4],*fov[4],*inf[4],*ortho2d,*tweaked,*d_ortho,*d_frustum,*d_persp,*d_fov,*d_inf,*project,*unproject,*cube,*pick; };
#define FOUR(NAME,TN) {&NAME##RH_NO_##TN,&NAME##RH_ZO_##TN,&NAME##LH_NO_##TN,&NAME##LH_ZO_##TN}
#define OPS(TN) Ops{FOUR(ortho,TN),FOUR(frustum,TN),FOUR(perspective,TN),FOUR(perspectiveFov,TN),FOUR(infinitePerspective,TN),&ortho2D_##TN,&tweakedInfinitePerspective_##TN, \
	&ortho_dispatch_##TN,&frustum_dispatch_##TN,&perspective_dispatch_##TN,&perspectiveFov_dispatch_##TN,&infinitePerspective_dispatch_##TN,&project_##TN,&unProject_##TN,&clipcube_viewport_##TN,&pickMatrix_##TN}

template<class T> struct Gen {
	vf::Rng& r; explicit Gen(vf::Rng& r_):r(r_){}
	static int EG(){ return std::is_same<T,float>::value? 12: 60; }
	double scale(){ return r.below(3)==0? 1.0: std::ldexp(1.0,r.range(-EG(),EG())); }
	// [lo,hi] around/next to 0 at magnitude s: symmetric, containing 0, off-centre (width >= 1e-3 |centre|), screen-like integers
	void interval(T& lo,T& hi,double s){ for(;;){ int m=(int)r.below(8);
		if(m<3){ T h=(T)(s*std::exp2(r.uniform(-3,3))); lo=-h; hi=h; }
		else if(m<5){ lo=(T)(-s*std::exp2(r.uniform(-3,3))); hi=(T)(s*std::exp2(r.uniform(-3,3))); }
		else if(m<7){ double cc=s*std::exp2(r.uniform(-3,3))*(r.coin()?1:-1), h=std::fabs(cc)*std::pow(10.0,r.uniform(-3,1)); lo=(T)(cc-h); hi=(T)(cc+h); }
		else { lo= r.coin()? (T)0: (T)r.range(-2000,2000); hi=lo+(T)r.range(1,4096); }
		if(lo<hi && std::isfinite((double)lo) && std::isfinite((double)hi)) return; } }
	void nearfar(T& n,T& f,double s,double maxlog){ for(;;){ double nn=s*std::exp2(r.uniform(-3,3)); int m=(int)r.below(6); double q= m==0? 1+std::pow(10.0,r.uniform(-3,0)): (m==1? (double)r.range(2,1000): 1+std::pow(10.0,r.uniform(-1,maxlog)));
		n=(T)nn; f=(T)(nn*q); if(n>0&&n<f&&std::isfinite((double)f)) return; } }
	T fovy(){ static const double C[]={0.78539816339744831,1.0471975511965976,1.5707963267948966,1.0,2.0,0.5,2.5,0.1,3.0}; int m=(int)r.below(8); if(m==0) return (T)C[r.below(9)]; if(m==1) return (T)r.uniform(0.01,0.2); if(m==2) return (T)r.uniform(2.9,3.13); return (T)r.uniform(0.01,3.13); }
	T aspect(){ static const double C[]={1.0,16.0/9,4.0/3,0.5625,2.0,1.25}; int m=(int)r.below(4); if(m==0) return (T)C[r.below(6)]; return (T)std::exp2(r.uniform(-4,4)); }
	InVol<T> vol(){ InVol<T> v; memset(&v,0,sizeof v); double s=scale(); interval(v.l,v.r,s); if(r.below(4)==0){ v.b=v.l; v.t=v.r; } else interval(v.b,v.t,r.below(4)==0? scale(): s); nearfar(v.n,v.f,r.below(4)==0? scale(): s,Tr<T>::maxratio()); return v; }
	InPersp<T> persp(){ InPersp<T> p; memset(&p,0,sizeof p); p.fovy=fovy(); p.aspect=aspect(); nearfar(p.n,p.f,scale(),Tr<T>::maxratio()); return p; }
	InFov<T> fov(){ InFov<T> p; memset(&p,0,sizeof p); p.fov=fovy(); if(r.coin()){ p.w=(T)r.range(1,4096); p.h=(T)r.range(1,4096); if(p.w/p.h>200||p.h/p.w>200) p.h=p.w; } else { double s=scale(); p.h=(T)(s*std::exp2(r.uniform(-2,2))); p.w=(T)((double)p.h*std::exp2(r.uniform(-4,4))); } nearfar(p.n,p.f,scale(),Tr<T>::maxratio()); return p; }
	InInf<T> inf(){ InInf<T> p; memset(&p,0,sizeof p); p.fovy=fovy(); p.aspect=aspect(); T f; nearfar(p.n,f,scale(),1); int m=(int)r.below(4); p.ep= m==0? (T)0: (m==1? std::numeric_limits<T>::epsilon(): (T)std::exp2(r.uniform(-30,-4))); return p; }
	void viewport(T* vp,bool& isint){ isint=r.below(3)!=0; if(isint){ vp[0]=(T)(r.coin()? 0: r.range(-2000,2000)); vp[1]=(T)(r.coin()? 0: r.range(-2000,2000)); vp[2]=(T)r.range(1,4096); vp[3]=(T)r.range(1,4096); }
		else { vp[0]=(T)r.uniform(-2000,2000); vp[1]=(T)r.uniform(-2000,2000); vp[2]=(T)std::exp2(r.uniform(-2,12)); vp[3]=(T)std::exp2(r.uniform(-2,12)); } }
	// projection from a random builder with moderate parameters; returns an eye-space point inside (or slightly outside) the view volume
	void proj_and_eye(T* P,double* eye){
		int fam=(int)r.below(6), var=(int)r.below(4); bool lh=var>=2; M4<T> m((T)1); double d,hx,hy,cx=0,cy=0; double n=std::exp2(r.uniform(-4,4)), f=n*(1.1+std::exp2(r.uniform(-2,6.5)));
		T fo=(T)r.uniform(0.3,2.5), as=(T)std::exp2(r.uniform(-1,1)); double th=std::tan((double)fo/2);
		T l=(T)(-n*std::exp2(r.uniform(-2,1))), rr=(T)(n*std::exp2(r.uniform(-2,1))), b=(T)(-n*std::exp2(r.uniform(-2,1))), t=(T)(n*std::exp2(r.uniform(-2,1)));
#define BYVAR(CALL) (var==0? V<false,false>::CALL: var==1? V<false,true>::CALL: var==2? V<true,false>::CALL: V<true,true>::CALL)
		switch(fam){
		case 0: m=BYVAR(ortho(l,rr,b,t,(T)n,(T)f)); d=r.uniform(n,f); cx=((double)l+(double)rr)/2; cy=((double)b+(double)t)/2; hx=((double)rr-(double)l)/2; hy=((double)t-(double)b)/2; eye[0]=cx+hx*r.uniform(-1.2,1.2); eye[1]=cy+hy*r.uniform(-1.2,1.2); break;
		case 1: m=BYVAR(frustum(l,rr,b,t,(T)n,(T)f)); d=n*std::pow(f/n,r.unit()); cx=((double)l+(double)rr)/2; cy=((double)b+(double)t)/2; hx=((double)rr-(double)l)/2; hy=((double)t-(double)b)/2; eye[0]=(cx+hx*r.uniform(-1.2,1.2))*d/n; eye[1]=(cy+hy*r.uniform(-1.2,1.2))*d/n; break;
		case 2: m=BYVAR(perspective(fo,as,(T)n,(T)f)); d=n*std::pow(f/n,r.unit()); eye[0]=th*(double)as*d*r.uniform(-1.2,1.2); eye[1]=th*d*r.uniform(-1.2,1.2); break;
		case 3: { T hh=(T)r.range(16,2048), ww=(T)std::floor((double)hh*(double)as)+1; m=BYVAR(perspectiveFov(fo,ww,hh,(T)n,(T)f)); d=n*std::pow(f/n,r.unit()); eye[0]=th*(double)ww/(double)hh*d*r.uniform(-1.2,1.2); eye[1]=th*d*r.uniform(-1.2,1.2); } break;
		case 4: m=BYVAR(infinitePerspective(fo,as,(T)n)); d=n*std::exp2(r.uniform(0,8)); eye[0]=th*(double)as*d*r.uniform(-1.2,1.2); eye[1]=th*d*r.uniform(-1.2,1.2); break;
		default: m=M4<T>((T)1); lh=true; d=r.uniform(-1,1); eye[0]=r.uniform(-1,1); eye[1]=r.uniform(-1,1); break; }
#undef BYVAR
		eye[2]= lh? d: -d; for(int c=0;c<4;c++) for(int rw=0;rw<4;rw++) P[c*4+rw]=m[c][rw];
	}
	// model: identity, translation, rigid, rigid with uniform scale; obj = model^-1 eye (rounded)
	void model_and_obj(T* M,T* obj,const double* eye){ int m=(int)r.below(10); double R[3][3]={{1,0,0},{0,1,0},{0,0,1}}, t[3]={0,0,0}, s=1;
		if(m>=3){ double sc=std::exp2(r.uniform(-2,5)); for(int i=0;i<3;i++) t[i]=sc*r.uniform(-1,1); }
		if(m>=5){ double ax[3]; double nn; do{ for(int i=0;i<3;i++) ax[i]=r.gauss(); nn=std::sqrt(ax[0]*ax[0]+ax[1]*ax[1]+ax[2]*ax[2]); }while(nn<1e-3); for(int i=0;i<3;i++) ax[i]/=nn; double a=r.uniform(-3.14,3.14), cs=std::cos(a), sn=std::sin(a);
			double K[3][3]={{0,-ax[2],ax[1]},{ax[2],0,-ax[0]},{-ax[1],ax[0],0}}; for(int i=0;i<3;i++) for(int j=0;j<3;j++) R[i][j]=(i==j?cs:0)+(1-cs)*ax[i]*ax[j]+sn*K[i][j]; }
		if(m==9) s=std::exp2(r.uniform(-3,3));
		for(int i=0;i<16;i++) M[i]=0; for(int cc=0;cc<3;cc++) for(int rw=0;rw<3;rw++) M[cc*4+rw]=(T)(s*R[rw][cc]); for(int i=0;i<3;i++) M[12+i]=(T)t[i]; M[15]=1;
		for(int i=0;i<3;i++){ double a=0; for(int j=0;j<3;j++) a+=R[j][i]*(eye[j]-t[j]); obj[i]=(T)(a/s); } }
	InPU<T> pu(){ InPU<T> in; memset(&in,0,sizeof in); double eye[3]; proj_and_eye(in.P,eye); model_and_obj(in.M,in.obj,eye); bool isint; viewport(in.vp,isint); in.flag= (isint&&r.coin())? (T)1: (T)0; return in; }
};

template<class T> static void run_type(const char* label,Ops o,vf::u64 n){
	vf::parallel(label,[&](int t,int TT,vf::Ctx& c){ Gen<T> g(c.rng); vf::Rng& r=c.rng;
#define RUN(OP,IN) do{ if(vf::want(*(OP))) vf::run(c,*(OP),IN); }while(0)
		for(vf::u64 it=t;it<n;it+=TT){
			{ InVol<T> v=g.vol(); for(int k=0;k<4;k++){ RUN(o.ortho[k],v); RUN(o.frustum[k],v); } RUN(o.d_ortho,v); RUN(o.d_frustum,v); RUN(o.ortho2d,v); }
			{ InPersp<T> p=g.persp(); for(int k=0;k<4;k++) RUN(o.persp[k],p); RUN(o.d_persp,p); }
			{ InFov<T> p=g.fov(); for(int k=0;k<4;k++) RUN(o.fov[k],p); RUN(o.d_fov,p); }
			{ InInf<T> p=g.inf(); for(int k=0;k<4;k++) RUN(o.inf[k],p); RUN(o.d_inf,p); RUN(o.tweaked,p); }
			{ InPU<T> p=g.pu(); RUN(o.project,p); RUN(o.unproject,p); }
			if(it%4==0){ InCube<T> q; memset(&q,0,sizeof q); bool isint; g.viewport(q.vp,isint); q.flag=(isint&&r.coin())?(T)1:(T)0; q.corner=(T)r.below(8); RUN(o.cube,q); }
			if(it%2==0){ InPick<T> q; memset(&q,0,sizeof q); bool isint; g.viewport(q.vp,isint); q.flag=(isint&&r.coin())?(T)1:(T)0;
				q.cx=(T)((double)q.vp[0]+(double)q.vp[2]*r.uniform(-0.2,1.2)); q.cy=(T)((double)q.vp[1]+(double)q.vp[3]*r.uniform(-0.2,1.2));
				if(r.coin()){ q.dx=(T)r.range(1,64); q.dy=(T)r.range(1,64); q.cx=std::floor(q.cx); q.cy=std::floor(q.cy); } else { q.dx=(T)((double)q.vp[2]*std::exp2(r.uniform(-10,0))); q.dy=(T)((double)q.vp[3]*std::exp2(r.uniform(-10,0))); }
				RUN(o.pick,q); }
		}
#undef RUN
	});
}

static void workload(){
	vf::note("clip-control", std::string("build macros select ")+(CFG_LH?"LH":"RH")+"_"+(CFG_ZO?"ZO":"NO")+" (GLM_FORCE_LEFT_HANDED "+(CFG_LH?"defined":"not defined")+", GLM_FORCE_DEPTH_ZERO_TO_ONE "+(CFG_ZO?"defined":"not defined")+")");
#if defined(C08_INFLHRH)
	if(vf::want(infinitePerspectiveLH_RH_link)){ vf::Ctx c; InNone one; one.one=1; vf::run(c,infinitePerspectiveLH_RH_link,one); vf::merge(c); }
	vf::note("infinitePerspectiveLH/RH", C08_INFLHRH? "link probe: defined, compared exactly in infinitePerspective_dispatch":"link probe: declared in the header but not defined anywhere");
#endif
	run_type<float>("float",OPS(f),vf::N(200000,10000000));
	run_type<double>("double",OPS(d),vf::N(60000,1500000));
}
VF_MAIN("C08_projection")
