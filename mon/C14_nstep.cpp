// C14 (supplement) — "the n-step overloads equal n single steps", checked literally: glm's n-step result is compared with n applications
// of glm's own one-step function, for every x including the last few values before +-max and around zero (where the main monitor
// mon/C14_ulp.cpp does not judge n-step calls whose exact result lies beyond +-max).
#include "vf.hpp"
#include "ref.hpp"
#include <glm/glm.hpp>
#include <glm/ext/scalar_ulp.hpp>
#include <glm/ext/vector_ulp.hpp>
#include <glm/gtc/ulp.hpp>
using namespace ref;
template<class T> struct InS { T x[4]; int n[4]; };
template<class T> static const char* zone(T x){ long double ax=fabsl((long double)x); if(ax==0) return "x=0"; if(!isfinite_b(x)) return "x=inf"; if(ax>=(long double)std::numeric_limits<T>::max()/2) return "near-max"; if(ax<(long double)std::numeric_limits<T>::min()*4) return "near-zero"; return "normal"; }
template<class T> static void k(const InS<T>& in,vf::Ctx& c){
	for(int i=0;i<4;i++){ T x=in.x[i]; int n=in.n[i]; c.cls(zone(x));
		T a=x; for(int s=0;s<n;s++) a=glm::nextFloat(a); T b=x; for(int s=0;s<n;s++) b=glm::prevFloat(b);
		T ga=glm::nextFloat(x,n), gb=glm::prevFloat(x,n);
		if(!same(ga,a) && !(ga==0&&a==0)) c.fail(std::string(zone(x))+":nextFloat(x,n):differs-from-n-single-steps",ga,a);
		if(!same(gb,b) && !(gb==0&&b==0)) c.fail(std::string(zone(x))+":prevFloat(x,n):differs-from-n-single-steps",gb,b);
		T a2=x; for(int s=0;s<n;s++) a2=glm::next_float(a2); T b2=x; for(int s=0;s<n;s++) b2=glm::prev_float(b2);
		T ha=glm::next_float(x,n), hb=glm::prev_float(x,n);
		if(!same(ha,a2) && !(ha==0&&a2==0)) c.fail(std::string(zone(x))+":gtc:next_float(x,n):differs-from-n-single-steps",ha,a2);
		if(!same(hb,b2) && !(hb==0&&b2==0)) c.fail(std::string(zone(x))+":gtc:prev_float(x,n):differs-from-n-single-steps",hb,b2);
	}
	// vector overloads (int n and ivec n) against the scalar n-step of each component
	glm::vec<4,T,glm::defaultp> v(in.x[0],in.x[1],in.x[2],in.x[3]); glm::vec<4,int,glm::defaultp> nv(in.n[0],in.n[1],in.n[2],in.n[3]);
	auto r1=glm::nextFloat(v,in.n[0]); auto r2=glm::nextFloat(v,nv); auto r3=glm::prevFloat(v,in.n[1]); auto r4=glm::prevFloat(v,nv);
	for(int i=0;i<4;i++){ T w1=glm::nextFloat(in.x[i],in.n[0]), w2=glm::nextFloat(in.x[i],in.n[i]), w3=glm::prevFloat(in.x[i],in.n[1]), w4=glm::prevFloat(in.x[i],in.n[i]);
		if(!same(r1[i],w1)&&!(r1[i]==0&&w1==0)) c.fail("vec:nextFloat(v,int):differs-from-scalar-n-step",r1[i],w1); if(!same(r2[i],w2)&&!(r2[i]==0&&w2==0)) c.fail("vec:nextFloat(v,ivec):differs-from-scalar-n-step",r2[i],w2);
		if(!same(r3[i],w3)&&!(r3[i]==0&&w3==0)) c.fail("vec:prevFloat(v,int):differs-from-scalar-n-step",r3[i],w3); if(!same(r4[i],w4)&&!(r4[i]==0&&w4==0)) c.fail("vec:prevFloat(v,ivec):differs-from-scalar-n-step",r4[i],w4); }
}
VF_OP(nstep_vs_single_steps_f32, InS<float>, "ffffiiii"){ k<float>(in,c); }
VF_OP(nstep_vs_single_steps_f64, InS<double>, "ddddiiii"){ k<double>(in,c); }
template<class T> static T pick(vf::Rng& r){ typedef typename fp<T>::I I; I M=ord(std::numeric_limits<T>::max()); int m=(int)(r.next()%6); I o;
	if(m==0) o=M-(I)r.below(8); else if(m==1) o=-M+(I)r.below(8); else if(m==2) o=(I)r.range(-8,8); else if(m==3){ I mn=ord(std::numeric_limits<T>::min()); o=(r.coin()?mn:-mn)+(I)r.range(-6,6); }
	else { T v; if(sizeof(T)==4) v=(T)r.fbits(); else v=(T)r.dbits(); if(!isfinite_b(v)) v=(T)1.5; return v; } return from_ord<T>(o); }
static void workload(){ u64 n=vf::N(300000,30000000);
	vf::parallel("nstep",[&](int t,int TT,vf::Ctx& c){ for(u64 i=t;i<n;i+=TT){ InS<float> a; InS<double> b; for(int k=0;k<4;k++){ a.x[k]=pick<float>(c.rng); b.x[k]=pick<double>(c.rng); a.n[k]=(int)c.rng.below(7); b.n[k]=(int)c.rng.below(7); }
		vf::run(c,nstep_vs_single_steps_f32,a); vf::run(c,nstep_vs_single_steps_f64,b); } }); }
VF_MAIN("C14_nstep")
