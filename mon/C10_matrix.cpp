// C10 — determinant / inverse / inverseTranspose / affineInverse / operator/ (mat,vec) and the gtx companions (adjugate,
// diagonal builders, qr/rq_decompose, matrix_query predicates) against an MPFR reference.
//
// Reference (no glm code): the input entries are exact dyadic numbers; the determinant is the Leibniz permutation sum, every
// cofactor is the Leibniz sum of its minor, the inverse is adjugate/determinant, all evaluated in MPFR at 512 bits (products of
// up to four doubles are exact at 212 bits, the sums are accurate to ~2^-500 of their largest term).  A second path (Laplace
// expansion through the cofactors, and inverse*M = I) is compared with the first on a sample; disagreement aborts the monitor.
//
// Verdict bounds (FORMULA/COND classes of DESIGN.md section 3), u = unit roundoff, S_det = sum |permutation products|,
// S_C = sum |terms| of the cofactor C:
//   determinant          |got - det|     <= Kdet(n) u S_det                        Kdet = 2 x roundings on a term's path (2,5,9) + 2
//   inverse-like entry   |got - C/det|   <= 16 u (S_C/|det| + |C| S_det/det^2)/(1-rho)   rho = 16 u S_det/|det| <= 1/8 required
//        (documented cofactor scheme: cofactor <=5 roundings, reciprocal + product 2, determinant <=9 roundings; 16 covers them)
//   products with the inverse (inverse*M, M*inverse, operator/, affineInverse translation): the entry bounds propagated through
//        the product plus 2 n u sum|terms| for the product's own roundings
//   small-integer unimodular matrices: every result must be numerically equal (==) to the exact integer result; only judged
//        when every magnitude sum of the formulas stays below 2^24 (float) / 2^53 (double), so any evaluation order is exact.
// Domain: finite entries, non-zero magnitudes within [2^-14,2^14] (float) / [2^-100,2^100] (double) (no product can underflow
// or overflow), Frobenius condition number kappaF = |M|_F |M^-1|_F <= 1e4 (float) / 1e8 (double) (kappaF >= kappa_2, so the
// matrix is inside the quantifier of the statement); everything else is counted as skipped and never judged.
#include "vf.hpp"
#include "ref.hpp"
#include <mpfr.h>
#include <glm/glm.hpp>
#include <glm/gtc/matrix_inverse.hpp>
#include <glm/gtx/matrix_operation.hpp>
#include <glm/gtx/matrix_query.hpp>
#include <glm/gtx/matrix_factorisation.hpp>
using namespace ref;
typedef long double LD;

#ifndef C10_Q
#define C10_Q glm::defaultp
#endif
static const glm::qualifier Q = C10_Q;
#if (GLM_CONFIG_SIMD == GLM_ENABLE)
static const bool SIMD_ALIGNED = glm::detail::is_aligned<C10_Q>::value;
#else
static const bool SIMD_ALIGNED = false;
#endif

// ---------------------------------------------------------------- MPFR value
static const mpfr_prec_t PREC = 512;
#define RN MPFR_RNDN
struct Mp {
	mpfr_t v;
	Mp(){ mpfr_init2(v,PREC); mpfr_set_ui(v,0,RN); }
	Mp(const Mp& o){ mpfr_init2(v,PREC); mpfr_set(v,o.v,RN); }
	Mp& operator=(const Mp& o){ if(this!=&o) mpfr_set(v,o.v,RN); return *this; }
	~Mp(){ mpfr_clear(v); }
	void set(double d){ mpfr_set_d(v,d,RN); }
	void setld(LD d){ mpfr_set_ld(v,d,RN); }
	LD ld() const { return mpfr_get_ld(v,RN); }
	bool zero() const { return mpfr_zero_p(v)!=0; }
};

struct Perm { int p[4]; int sign; };
static std::vector<Perm> PERMS[5];
static bool init_perms(){
	for(int k=1;k<=4;k++){ int p[4]={0,1,2,3}; do{ Perm P; int inv=0; for(int i=0;i<k;i++){ P.p[i]=p[i]; for(int j=i+1;j<k;j++) if(p[i]>p[j]) inv++; } for(int i=k;i<4;i++) P.p[i]=i; P.sign=(inv&1)?-1:1; PERMS[k].push_back(P); }while(std::next_permutation(p,p+k)); }
	return true;
}
static const bool g_perms_ready = init_perms();

// Leibniz sum of the k x k matrix given by entry pointers e[i*k+j]; S = sum of the absolute values of the products
static void leib(const Mp* const* e,int k,Mp& det,LD& S){
	static thread_local Mp t,sa; mpfr_set_ui(det.v,0,RN); mpfr_set_ui(sa.v,0,RN);
	for(const Perm& P: PERMS[k]){
		mpfr_set(t.v,e[0*k+P.p[0]]->v,RN); for(int i=1;i<k;i++) mpfr_mul(t.v,t.v,e[i*k+P.p[i]]->v,RN);
		if(mpfr_zero_p(t.v)) continue;
		if(P.sign>0) mpfr_add(det.v,det.v,t.v,RN); else mpfr_sub(det.v,det.v,t.v,RN);
		mpfr_abs(t.v,t.v,RN); mpfr_add(sa.v,sa.v,t.v,RN);
	}
	S=mpfr_get_ld(sa.v,RN);
}

// reference record of one n x n matrix; X(i,j) = row i, column j, stored at [i*4+j]
struct RefM {
	int n=0; Mp a[16], det, C[16], inv[16];
	LD aL[16], detL=0, Sdet=0, CL[16], SC[16], invL[16], normF=0, invNormF=0, kappaF=0, amax=0; bool singular=true;
};
static void self_check_fail(const char* what){ fprintf(stderr,"C10 reference self-check failed: %s\n",what); fflush(stderr); _exit(3); }
static void compute(RefM& R){
	const int n=R.n; const Mp* e[16]={nullptr};
	for(int i=0;i<n;i++) for(int j=0;j<n;j++) e[i*n+j]=&R.a[i*4+j];
	leib(e,n,R.det,R.Sdet);
	for(int i=0;i<n;i++) for(int j=0;j<n;j++){ const Mp* s[9]; int k=n-1, q=0; for(int r=0;r<n;r++){ if(r==i) continue; for(int cc=0;cc<n;cc++){ if(cc==j) continue; s[q++]=&R.a[r*4+cc]; } }
		leib(s,k,R.C[i*4+j],R.SC[i*4+j]); if((i+j)&1) mpfr_neg(R.C[i*4+j].v,R.C[i*4+j].v,RN); }
	R.singular=R.det.zero(); R.detL=R.det.ld(); R.normF=0; R.invNormF=0; R.amax=0;
	for(int i=0;i<n;i++) for(int j=0;j<n;j++){ int x=i*4+j; R.aL[x]=R.a[x].ld(); R.CL[x]=R.C[x].ld(); R.normF+=R.aL[x]*R.aL[x]; R.amax=std::max(R.amax,fabsl(R.aL[x])); }
	R.normF=sqrtl(R.normF);
	if(!R.singular){ for(int i=0;i<n;i++) for(int j=0;j<n;j++){ mpfr_div(R.inv[i*4+j].v,R.C[j*4+i].v,R.det.v,RN); R.invL[i*4+j]=R.inv[i*4+j].ld(); R.invNormF+=R.invL[i*4+j]*R.invL[i*4+j]; }
		R.invNormF=sqrtl(R.invNormF); R.kappaF=R.normF*R.invNormF; }
	else { R.kappaF=INFINITY; }
	// second reference path on a sample: Laplace expansion along row 0 through the cofactors, and inverse * M = I
	static thread_local unsigned tick=0; if((tick++&63)==0){ static thread_local Mp s,t;
		mpfr_set_ui(s.v,0,RN); for(int j=0;j<n;j++){ mpfr_mul(t.v,R.a[j].v,R.C[j].v,RN); mpfr_add(s.v,s.v,t.v,RN); } mpfr_sub(s.v,s.v,R.det.v,RN);
		if(fabsl(mpfr_get_ld(s.v,RN))>ldexpl(R.Sdet,-400)) self_check_fail("Laplace expansion != Leibniz sum");
		if(!R.singular) for(int i=0;i<n;i++) for(int j=0;j<n;j++){ mpfr_set_ui(s.v,0,RN); LD m=0; for(int k=0;k<n;k++){ mpfr_mul(t.v,R.inv[i*4+k].v,R.a[k*4+j].v,RN); mpfr_add(s.v,s.v,t.v,RN); m+=fabsl(R.invL[i*4+k]*R.aL[k*4+j]); }
			if(i==j) mpfr_sub_ui(s.v,s.v,1,RN);
			if(fabsl(mpfr_get_ld(s.v,RN))>ldexpl(1+m,-400)) self_check_fail("inverse * M != I"); } }
}
static RefM& WS(int k){ static thread_local RefM w[4]; return w[k]; }
static LD errOf(double got,const Mp& want){ static thread_local Mp t; mpfr_set_d(t.v,got,RN); mpfr_sub(t.v,t.v,want.v,RN); return fabsl(mpfr_get_ld(t.v,RN)); }

// ---------------------------------------------------------------- type traits, input record, glm operands
template<class T> struct Tr;
template<> struct Tr<float>{ enum{ E=14, ES=4 }; static LD u(){ return ldexpl(1.0L,-24); } static LD tiny(){ return ldexpl(1.0L,-149); } static LD klim(){ return 1e4L; } static LD exact(){ return ldexpl(1.0L,24); } };
template<> struct Tr<double>{ enum{ E=100, ES=30 }; static LD u(){ return ldexpl(1.0L,-53); } static LD tiny(){ return ldexpl(1.0L,-1074); } static LD klim(){ return 1e8L; } static LD exact(){ return ldexpl(1.0L,53); } };
#define TRT const LD u=Tr<T>::u(), tiny=Tr<T>::tiny(); (void)u; (void)tiny;

// a, b: glm layout [column*4+row]; b is a second matrix, or a vector in b[0..n-1] (query ops: b[0] = epsilon); fam = generator family (histogram only)
template<class T> struct In { T a[16]; T b[16]; int n; int fam; };

template<class T,int N> using Mat = glm::mat<N,N,T,Q>;
template<class T,int N> using Vec = glm::vec<N,T,Q>;
template<class T,int N> static Mat<T,N> mkm(const T* a){ Mat<T,N> m; for(int c=0;c<N;c++) for(int r=0;r<N;r++) m[c][r]=a[c*4+r]; return m; }
template<class T,int N> static Vec<T,N> mkv(const T* b){ Vec<T,N> v; for(int i=0;i<N;i++) v[i]=b[i]; return v; }
template<class T,int N> static void outm(const Mat<T,N>& g,T* o){ for(int i=0;i<16;i++) o[i]=0; for(int c=0;c<N;c++) for(int r=0;r<N;r++) o[r*4+c]=g[c][r]; } // row-major
template<class T> static std::string showm(const T* o,int n){ std::string s="rows["; for(int i=0;i<n;i++){ s+=i?" | ":""; for(int j=0;j<n;j++){ if(j) s+=", "; s+=vf::show(o[i*4+j]); } } return s+"]"; }
template<class T> static std::string showr(const LD* o,int n){ T t[16]; for(int i=0;i<16;i++) t[i]=(T)o[i]; return showm<T>(t,n); }
template<class T> static std::string showv(const T* o,int n){ std::string s="("; for(int i=0;i<n;i++){ if(i) s+=", "; s+=vf::show(o[i]); } return s+")"; }
// the simd-aligned: prefix is used only where the aligned build runs different code (mat3/mat4), so a mat2 defect has one key in every build
static std::string pfx(int n){ return std::string((SIMD_ALIGNED&&n>=3)?"simd-aligned:":"")+"mat"+std::to_string(n)+":"; }
// err/bound ratios document the slack of evaluations that HELD (a ratio > 1 is reported as a violation with its witness instead);
// info ratios are measurements and are recorded as they are
static inline void rat(vf::Ctx& c,const std::string& n,LD r){ if(!(r==r)) return; if(r>1 && n.compare(0,4,"info")!=0) return; if(r>1e30L) r=1e30L; c.ratio(n.c_str(),(double)r); }
static const char* FAMN[]={"fam:svd-one-small-sigma","fam:svd-geometric-spectrum","fam:svd-one-large-sigma","fam:uniform-entries","fam:signed-permutation-like","fam:triangular","fam:nearly-dependent-columns","fam:small-integers","fam:special(diagonal/rotation/symmetric)","fam:affine","fam:unimodular-integer","fam:other"};
static const char* fam_name(int f){ return FAMN[(f>=0&&f<11)?f:11]; }
static const char* kbucket(LD k){ return k<10?"kappaF<1e1":k<1e2L?"kappaF<1e2":k<1e3L?"kappaF<1e3":k<1e4L?"kappaF<1e4":k<1e5L?"kappaF<1e5":k<1e6L?"kappaF<1e6":k<1e7L?"kappaF<1e7":"kappaF<=1e8"; }

// ---------------------------------------------------------------- domain gate + reference
template<class T> static bool entries_in_domain(const T* x,int cols,int rows){ const LD lo=ldexpl(1.0L,-(int)Tr<T>::E), hi=ldexpl(1.0L,(int)Tr<T>::E);
	for(int c=0;c<cols;c++) for(int r=0;r<rows;r++){ T v=x[c*4+r]; if(!isfinite_b(v)) return false; if(v!=0){ LD m=fabsl((LD)v); if(m<lo||m>hi) return false; } }
	return true; }
template<class T> static void fill(RefM& R,const T* a,int n){ R.n=n; for(int i=0;i<n;i++) for(int j=0;j<n;j++) R.a[i*4+j].set((double)a[j*4+i]); }
template<class T> static bool load(RefM& R,const T* a,int n,vf::Ctx& c,int fam=-1){
	if(!entries_in_domain<T>(a,n,n)){ c.cls("skipped:entry-outside-magnitude-domain"); return false; }
	fill<T>(R,a,n); compute(R);
	if(R.singular){ c.cls("skipped:singular"); return false; }
	if(!(R.kappaF<=Tr<T>::klim())){ c.cls("skipped:ill-conditioned(kappaF>limit)"); return false; }
	if(fam>=0){ c.cls(fam_name(fam)); c.cls(kbucket(R.kappaF)); }
	return true;
}
static const LD KINV = 16;
static const LD KDET[5] = {0,0,6,12,20}; // 2 x (roundings on the path of one term: 2, 5, 9) + 2
static const LD SFP = 2; // safety factor on the rounding count of products n u sum|terms|
template<class T> static bool rho_ok(const RefM& R,LD& rho,vf::Ctx& c){ rho=KINV*Tr<T>::u()*R.Sdet/fabsl(R.detL); if(!(rho<=0.125L)){ c.cls("no-verdict:formula-bound-vacuous(16*u*S_det/|det|>1/8)"); return false; } return true; }
// B[i*4+j]: bound of the computed inverse entry (row i, column j) = C(j,i)/det
template<class T> static void inv_bounds(const RefM& R,LD rho,LD* B){ const LD u=Tr<T>::u(), ad=fabsl(R.detL);
	for(int i=0;i<R.n;i++) for(int j=0;j<R.n;j++){ int x=j*4+i; B[i*4+j]=KINV*u*(R.SC[x]/ad+fabsl(R.CL[x])*R.Sdet/(ad*ad))/(1-rho)+4*Tr<T>::tiny(); } }

// compare a result matrix G (row-major) with the expected E(i,j) = tr? inv(j,i) : inv(i,j) under the entry bounds; returns "" when it holds,
// otherwise a named description of the wrong behaviour
template<class T> static std::string judge_inverse(const T* G,const RefM& R,const LD* B,bool tr,vf::Ctx& c,const std::string& rname,LD* maxratio=nullptr){
	const int n=R.n; bool bad=false, nonfin=false; LD mr=0;
	for(int i=0;i<n;i++) for(int j=0;j<n;j++){ if(!isfinite_b(G[i*4+j])){ nonfin=true; continue; } int x= tr? j*4+i: i*4+j; LD e=errOf((double)G[i*4+j],R.inv[x]), r=e/B[x]; mr=std::max(mr,r); if(!(e<=B[x])) bad=true; }
	if(nonfin) return "non-finite-entry-for-well-conditioned-input";
	rat(c,rname,mr); if(maxratio) *maxratio=mr;
	if(!bad) return "";
	bool isT=true,isNeg=true; for(int i=0;i<n;i++) for(int j=0;j<n;j++){ int x= tr? j*4+i: i*4+j, y= tr? i*4+j: j*4+i; // y: transpose of the expected
		if(!(errOf((double)G[i*4+j],R.inv[y])<=B[y])) isT=false;
		if(!(errOf(-(double)G[i*4+j],R.inv[x])<=B[x])) isNeg=false; }
	if(isT) return tr? "returns-inverse-without-transpose":"returns-transpose-of-inverse";
	if(isNeg) return "negated";
	return "entries-differ-from-adjugate/determinant";
}
template<class T> static std::string want_inv(const RefM& R,bool tr){ LD w[16]; for(int i=0;i<4;i++) for(int j=0;j<4;j++) w[i*4+j]= (i<R.n&&j<R.n)? R.invL[tr? j*4+i: i*4+j]: 0; return showr<T>(w,R.n); }

#define SKIP(why) do{ c.cls("skipped:" why); return; }while(0)

// ================================================================ determinant
template<class T,int N> static void k_det(const In<T>& in,vf::Ctx& c){ TRT
	RefM& R=WS(0); if(!load<T>(R,in.a,N,c,in.fam)) return;
	T got=glm::determinant(mkm<T,N>(in.a));
	LD bound=KDET[N]*u*R.Sdet+2*tiny;
	if(!isfinite_b(got)){ c.fail(pfx(N)+"determinant:non-finite-for-well-conditioned-input",vf::show(got),vf::show((T)R.detL)); return; }
	LD err=errOf((double)got,R.det); rat(c,pfx(N)+"determinant:err/bound",err/bound);
	c.cls(fabsl(R.detL)<1e-3L*R.Sdet? "det:cancelling(|det|<1e-3*S_det)":"det:regular");
	if(!(err<=bound)){ Mp neg(R.det); mpfr_neg(neg.v,neg.v,RN); bool flipped= errOf((double)got,neg)<=bound;
		c.fail(pfx(N)+(flipped?"determinant:sign-flipped":"determinant:differs-from-leibniz-expansion"),vf::show(got),vf::show((T)R.detL)); }
}
// determinant(transpose(M)) vs determinant(M): both within the bound of the same exact value
template<class T,int N> static void k_det_tr(const In<T>& in,vf::Ctx& c){ TRT
	RefM& R=WS(0); if(!load<T>(R,in.a,N,c,in.fam)) return;
	Mat<T,N> m=mkm<T,N>(in.a); T d0=glm::determinant(m), d1=glm::determinant(glm::transpose(m));
	LD bound=KDET[N]*u*R.Sdet+2*tiny;
	if(!isfinite_b(d1)){ c.fail(pfx(N)+"determinant(transpose):non-finite",vf::show(d1),vf::show((T)R.detL)); return; }
	LD e1=errOf((double)d1,R.det); rat(c,pfx(N)+"determinant(transpose):err/bound",e1/bound);
	if(!(e1<=bound)){ c.fail(pfx(N)+"determinant(transpose):differs-from-leibniz-expansion",vf::show(d1),vf::show((T)R.detL)); return; }
	if(!(fabsl((LD)d1-(LD)d0)<=2*bound)) c.fail(pfx(N)+"determinant:changed-by-transpose",vf::show(d1),vf::show(d0));
}
// determinant(A*B) vs determinant(A)*determinant(B).  P^ = fl(A*B) = AB + E, |E_ij| <= n u sum_k|A_ik B_kj|;
// det(P^) - det(AB) = sum_ij E_ij C_ij(AB) + O(E^2) (first-order term doubled; judged only when it is < |det(AB)|/64)
template<class T,int N> static void k_det_mul(const In<T>& in,vf::Ctx& c){ TRT
	RefM &A=WS(0),&B=WS(1),&P=WS(2),&X=WS(3);
	if(!load<T>(A,in.a,N,c,in.fam)) return;
	if(!load<T>(B,in.b,N,c)) return;
	Mat<T,N> ga=mkm<T,N>(in.a), gb=mkm<T,N>(in.b), gp=ga*gb; T p[16]; for(int cc=0;cc<N;cc++) for(int r=0;r<N;r++) p[cc*4+r]=gp[cc][r];
	if(!entries_in_domain<T>(p,N,N)) SKIP("product-entry-outside-magnitude-domain");
	fill<T>(P,p,N); compute(P);
	// exact product AB and its cofactors
	X.n=N; LD e[16]; { static thread_local Mp t; for(int i=0;i<N;i++) for(int j=0;j<N;j++){ Mp& s=X.a[i*4+j]; mpfr_set_ui(s.v,0,RN); LD m=0; for(int k=0;k<N;k++){ mpfr_mul(t.v,A.a[i*4+k].v,B.a[k*4+j].v,RN); mpfr_add(s.v,s.v,t.v,RN); m+=fabsl(A.aL[i*4+k]*B.aL[k*4+j]); } e[i*4+j]=1.01L*N*u*m; } }
	compute(X); if(X.singular) SKIP("singular");
	LD pert=0; for(int i=0;i<N;i++) for(int j=0;j<N;j++) pert+=e[i*4+j]*fabsl(X.CL[i*4+j]);
	if(!(pert<=fabsl(X.detL)/64)) SKIP("product-rounding-comparable-to-det(AB)");
	T dA=glm::determinant(ga), dB=glm::determinant(gb), dP=glm::determinant(gp), prod=dA*dB;
	LD bA=KDET[N]*u*A.Sdet, bB=KDET[N]*u*B.Sdet, bP=KDET[N]*u*P.Sdet;
	LD bound=bP+2*pert+fabsl(A.detL)*bB+fabsl(B.detL)*bA+bA*bB+2*u*fabsl(X.detL)+4*tiny;
	if(!isfinite_b(dP)||!isfinite_b(prod)){ c.fail(pfx(N)+"determinant(A*B):non-finite",vf::show(dP),vf::show(prod)); return; }
	LD err=fabsl((LD)dP-(LD)prod); rat(c,pfx(N)+"determinant(A*B):err/bound",err/bound);
	if(!(err<=bound)) c.fail(pfx(N)+"determinant:not-multiplicative",vf::show(dP),vf::show(prod));
}

// ================================================================ inverse
template<class T,int N> static void k_inverse(const In<T>& in,vf::Ctx& c){ TRT
	RefM& R=WS(0); if(!load<T>(R,in.a,N,c,in.fam)) return; LD rho;
	Mat<T,N> m=mkm<T,N>(in.a), g=glm::inverse(m); T G[16]; outm<T,N>(g,G);
	if(!rho_ok<T>(R,rho,c)){ // in the statement's domain but outside the formula bound's: measured only (DESIGN C10), never judged
		T L[16]; outm<T,N>(g*m,L); LD res=0; for(int i=0;i<N;i++) for(int j=0;j<N;j++){ LD e=fabsl((LD)L[i*4+j]-(i==j?1:0)); if(e==e) res=std::max(res,e); }
		rat(c,std::string("info(not-a-bound):")+pfx(N)+"max-residual/(u*kappaF):no-verdict-region(16*u*S_det/|det|>1/8)",res/(u*R.kappaF)); return; }
	LD B[16]; inv_bounds<T>(R,rho,B);
	std::string bad=judge_inverse<T>(G,R,B,false,c,pfx(N)+"inverse:entry-err/bound");
	if(!bad.empty()){ c.fail(pfx(N)+"inverse:"+bad,showm<T>(G,N),want_inv<T>(R,false)); return; }
	// residuals through glm's operator*: entry bounds propagated through the product + the product's own roundings
	Mat<T,N> l=g*m, r=m*g; T L[16],Rr[16]; outm<T,N>(l,L); outm<T,N>(r,Rr);
	LD ml=0,mr=0,resl=0,resr=0; bool badl=false,badr=false,nf=false;
	for(int i=0;i<N;i++) for(int j=0;j<N;j++){ LD bl=0,br=0; for(int k=0;k<N;k++){ LD gi=fabsl(R.invL[i*4+k])+B[i*4+k], ak=fabsl(R.aL[k*4+j]); bl+=B[i*4+k]*ak+SFP*N*u*gi*ak; LD ai=fabsl(R.aL[i*4+k]), gk=fabsl(R.invL[k*4+j])+B[k*4+j]; br+=ai*B[k*4+j]+SFP*N*u*ai*gk; }
		bl+=N*tiny; br+=N*tiny; if(!isfinite_b(L[i*4+j])||!isfinite_b(Rr[i*4+j])){ nf=true; continue; }
		LD el=fabsl((LD)L[i*4+j]-(i==j?1:0)), er=fabsl((LD)Rr[i*4+j]-(i==j?1:0)); ml=std::max(ml,el/bl); mr=std::max(mr,er/br); resl=std::max(resl,el); resr=std::max(resr,er); if(!(el<=bl)) badl=true; if(!(er<=br)) badr=true; }
	if(nf){ c.fail(pfx(N)+"inverse(M)*M:non-finite",showm<T>(L,N),"identity"); return; }
	rat(c,pfx(N)+"inverse(M)*M-I:err/bound",ml); rat(c,pfx(N)+"M*inverse(M)-I:err/bound",mr);
	rat(c,std::string("info(not-a-bound):")+pfx(N)+"max-residual/(u*kappaF):"+(fam_name(in.fam)+4),std::max(resl,resr)/(u*R.kappaF));
	{ LD q=std::max(resl,resr)/(u*R.kappaF); c.cls(q<=10?"info:residual<=10*u*kappaF":q<=1000?"info:residual<=1e3*u*kappaF":"info:residual>1e3*u*kappaF(entries-within-formula-bound)"); }
	if(badl) c.fail(pfx(N)+"inverse(M)*M:not-identity-within-bound",showm<T>(L,N),"identity");
	if(badr) c.fail(pfx(N)+"M*inverse(M):not-identity-within-bound",showm<T>(Rr,N),"identity");
}
// inverseTranspose(M) vs the reference transpose(inverse) and vs glm's transpose(inverse(M))
template<class T,int N> static void k_invT(const In<T>& in,vf::Ctx& c){ TRT
	RefM& R=WS(0); if(!load<T>(R,in.a,N,c,in.fam)) return; LD rho; if(!rho_ok<T>(R,rho,c)) return;
	LD B[16]; inv_bounds<T>(R,rho,B);
	Mat<T,N> m=mkm<T,N>(in.a), g=glm::inverseTranspose(m), h=glm::transpose(glm::inverse(m)); T G[16],H[16]; outm<T,N>(g,G); outm<T,N>(h,H);
	std::string bad=judge_inverse<T>(G,R,B,true,c,pfx(N)+"inverseTranspose:entry-err/bound");
	if(!bad.empty()){ c.fail(pfx(N)+"inverseTranspose:"+bad,showm<T>(G,N),want_inv<T>(R,true)); return; }
	for(int i=0;i<N;i++) for(int j=0;j<N;j++) if(!(fabsl((LD)G[i*4+j]-(LD)H[i*4+j])<=2*B[j*4+i])){ c.fail(pfx(N)+"inverseTranspose:differs-from-transpose(inverse(M))",showm<T>(G,N),showm<T>(H,N)); return; }
}
// affineInverse on affine input (last row 0..0 1): block = inverse of the linear part, translation = -block*t, last row exact
template<class T,int N> static void k_affine(const In<T>& in,vf::Ctx& c){ TRT
	if(N<3){ c.cls("skipped:no-overload-for-mat2"); return; }
	for(int j=0;j<N;j++) if(!(in.a[j*4+(N-1)]==(j==N-1?(T)1:(T)0))) SKIP("not-affine");
	RefM& R=WS(0); if(!load<T>(R,in.a,N,c,in.fam)) return; LD rho; if(!rho_ok<T>(R,rho,c)) return;
	LD B[16],BA[16]; inv_bounds<T>(R,rho,B);
	constexpr int NN= N<3?3:N; Mat<T,NN> m=mkm<T,NN>(in.a), g=glm::affineInverse(m), h=glm::inverse(m); T G[16],H[16]; outm<T,NN>(g,G); outm<T,NN>(h,H);
	for(int i=0;i<N;i++) for(int j=0;j<N;j++){ int x=i*4+j;
		if(i==N-1) BA[x]=0;
		else if(j<N-1) BA[x]=B[x];
		else { LD b=0; for(int k=0;k<N-1;k++){ LD t=fabsl(R.aL[k*4+(N-1)]); b+=B[i*4+k]*t+SFP*N*u*(fabsl(R.invL[i*4+k])+B[i*4+k])*t; } BA[x]=b+N*tiny; } }
	bool nf=false; for(int i=0;i<N;i++) for(int j=0;j<N;j++) if(!isfinite_b(G[i*4+j])) nf=true;
	if(nf){ c.fail(pfx(N)+"affineInverse:non-finite-entry-for-well-conditioned-input",showm<T>(G,N),want_inv<T>(R,false)); return; }
	for(int j=0;j<N;j++) if(!(G[(N-1)*4+j]==(j==N-1?(T)1:(T)0))){ c.fail(pfx(N)+"affineInverse:last-row-not-(0..0,1)",showm<T>(G,N),want_inv<T>(R,false)); return; }
	LD mb=0,mt=0; bool badb=false,badt=false;
	for(int i=0;i<N-1;i++) for(int j=0;j<N;j++){ int x=i*4+j; LD e=errOf((double)G[x],R.inv[x]); if(j<N-1){ mb=std::max(mb,e/BA[x]); if(!(e<=BA[x])) badb=true; } else { mt=std::max(mt,e/BA[x]); if(!(e<=BA[x])) badt=true; } }
	rat(c,pfx(N)+"affineInverse:linear-block-err/bound",mb); rat(c,pfx(N)+"affineInverse:translation-err/bound",mt);
	if(badb){ c.fail(pfx(N)+"affineInverse:linear-block-differs-from-inverse",showm<T>(G,N),want_inv<T>(R,false)); return; }
	if(badt){ bool neg=true; for(int i=0;i<N-1;i++){ int x=i*4+(N-1); if(!(errOf(-(double)G[x],R.inv[x])<=BA[x])) neg=false; }
		c.fail(pfx(N)+(neg?"affineInverse:translation-negated":"affineInverse:translation-differs-from-(-inverse(A)*t)"),showm<T>(G,N),want_inv<T>(R,false)); return; }
	// relation with inverse(M) on the same affine matrix: both within their bounds of the exact inverse
	for(int i=0;i<N;i++) for(int j=0;j<N;j++){ int x=i*4+j; if(!isfinite_b(H[x])||!(fabsl((LD)G[x]-(LD)H[x])<=BA[x]+B[x])){ c.fail(pfx(N)+"affineInverse:differs-from-inverse(M)-on-affine-input",showm<T>(G,N),showm<T>(H,N)); return; } }
}

// ================================================================ operator/  (multiplication by the inverse)
template<class T> static bool vec_in_domain(const T* v,int n){ const LD lo=ldexpl(1.0L,-(int)Tr<T>::E), hi=ldexpl(1.0L,(int)Tr<T>::E); for(int i=0;i<n;i++){ if(!isfinite_b(v[i])) return false; if(v[i]!=0){ LD m=fabsl((LD)v[i]); if(m<lo||m>hi) return false; } } return true; }
// which: 0 = m / v (= inverse(m)*v), 1 = v / m (= v*inverse(m))
template<class T,int N> static void k_div_vec(const In<T>& in,vf::Ctx& c,int which){ TRT
	if(!vec_in_domain<T>(in.b,N)) SKIP("vector-outside-magnitude-domain");
	RefM& R=WS(0); if(!load<T>(R,in.a,N,c,in.fam)) return; LD rho; if(!rho_ok<T>(R,rho,c)) return;
	LD B[16]; inv_bounds<T>(R,rho,B);
	Mat<T,N> m=mkm<T,N>(in.a); Vec<T,N> v=mkv<T,N>(in.b), g= which==0? (m/v): (v/m); T G[4]; for(int i=0;i<N;i++) G[i]=g[i];
	static thread_local Mp s,t,vv; LD want[4],bd[4]; bool bad=false,nf=false; LD mr=0; const char* nm= which==0? "M/v":"v/M";
	for(int i=0;i<N;i++){ mpfr_set_ui(s.v,0,RN); LD b=0; for(int k=0;k<N;k++){ int x= which==0? i*4+k: k*4+i; vv.set((double)in.b[k]); mpfr_mul(t.v,R.inv[x].v,vv.v,RN); mpfr_add(s.v,s.v,t.v,RN); LD av=fabsl((LD)in.b[k]); b+=B[x]*av+SFP*N*u*(fabsl(R.invL[x])+B[x])*av; }
		bd[i]=b+N*tiny; want[i]=s.ld(); if(!isfinite_b(G[i])){ nf=true; continue; } LD e=errOf((double)G[i],s); mr=std::max(mr,e/bd[i]); if(!(e<=bd[i])) bad=true; }
	T w[4]; for(int i=0;i<N;i++) w[i]=(T)want[i];
	if(nf){ c.fail(pfx(N)+nm+":non-finite-for-well-conditioned-input",showv<T>(G,N),showv<T>(w,N)); return; }
	rat(c,pfx(N)+nm+":err/bound",mr);
	if(bad) c.fail(pfx(N)+nm+":differs-from-product-with-inverse",showv<T>(G,N),showv<T>(w,N));
}
// m1 / m2 = m1 * inverse(m2)  (a = m2, b = m1); the compound form m1 /= m2 must give the same within the same bound
template<class T,int N> static void k_div_mat(const In<T>& in,vf::Ctx& c){ TRT
	if(!entries_in_domain<T>(in.b,N,N)) SKIP("numerator-outside-magnitude-domain");
	RefM& R=WS(0); if(!load<T>(R,in.a,N,c,in.fam)) return; LD rho; if(!rho_ok<T>(R,rho,c)) return;
	LD B[16]; inv_bounds<T>(R,rho,B);
	Mat<T,N> m2=mkm<T,N>(in.a), m1=mkm<T,N>(in.b), g=m1/m2, g2=m1; g2/=m2; T G[16],G2[16]; outm<T,N>(g,G); outm<T,N>(g2,G2);
	static thread_local Mp s,t,vv; LD want[16]={0},bd[16]; bool bad=false,bad2=false,nf=false; LD mr=0;
	for(int i=0;i<N;i++) for(int j=0;j<N;j++){ mpfr_set_ui(s.v,0,RN); LD b=0; for(int k=0;k<N;k++){ T mik=in.b[k*4+i]; vv.set((double)mik); mpfr_mul(t.v,vv.v,R.inv[k*4+j].v,RN); mpfr_add(s.v,s.v,t.v,RN); LD am=fabsl((LD)mik); b+=am*B[k*4+j]+SFP*N*u*am*(fabsl(R.invL[k*4+j])+B[k*4+j]); }
		int x=i*4+j; bd[x]=b+N*tiny; want[x]=s.ld(); if(!isfinite_b(G[x])||!isfinite_b(G2[x])){ nf=true; continue; } LD e=errOf((double)G[x],s), e2=errOf((double)G2[x],s); mr=std::max(mr,std::max(e,e2)/bd[x]); if(!(e<=bd[x])) bad=true; if(!(e2<=bd[x])) bad2=true; }
	if(nf){ c.fail(pfx(N)+"M1/M2:non-finite-for-well-conditioned-input",showm<T>(G,N),showr<T>(want,N)); return; }
	rat(c,pfx(N)+"M1/M2:err/bound",mr);
	if(bad){ c.fail(pfx(N)+"M1/M2:differs-from-M1*inverse(M2)",showm<T>(G,N),showr<T>(want,N)); return; }
	if(bad2) c.fail(pfx(N)+"M1/=M2:differs-from-M1*inverse(M2)",showm<T>(G2,N),showr<T>(want,N));
}

// ================================================================ gtx adjugate:  adj(M)(i,j) = C(j,i), <= 5 roundings per term: bound (2*5+2) u S_C
template<class T,int N> static void k_adjugate(const In<T>& in,vf::Ctx& c){ TRT
	RefM& R=WS(0); if(!load<T>(R,in.a,N,c,in.fam)) return;
	Mat<T,N> g=glm::adjugate(mkm<T,N>(in.a)); T G[16]; outm<T,N>(g,G); LD want[16]={0}; bool bad=false,nf=false,isT=true; LD mr=0;
	for(int i=0;i<N;i++) for(int j=0;j<N;j++){ int x=i*4+j, y=j*4+i; want[x]=R.CL[y]; if(!isfinite_b(G[x])){ nf=true; continue; } LD bd=12*u*R.SC[y]+2*tiny, e=errOf((double)G[x],R.C[y]); if(bd>0) mr=std::max(mr,e/bd); if(!(e<=bd)) bad=true; if(!(errOf((double)G[x],R.C[x])<=12*u*R.SC[x]+2*tiny)) isT=false; }
	if(nf){ c.fail(pfx(N)+"adjugate:non-finite",showm<T>(G,N),showr<T>(want,N)); return; }
	rat(c,pfx(N)+"adjugate:err/bound",mr);
	if(bad) c.fail(pfx(N)+(isT?"adjugate:returns-cofactor-matrix(not-transposed)":"adjugate:entries-differ-from-transposed-cofactors"),showm<T>(G,N),showr<T>(want,N));
}

// ================================================================ gtx diagonal builders: v on the diagonal, 0 elsewhere, exact
template<class T,int C,int R_> static void chk_diag(const glm::mat<C,R_,T,Q>& g,const T* v,int nv,const char* name,vf::Ctx& c){
	for(int cc=0;cc<C;cc++) for(int r=0;r<R_;r++){ T got=g[cc][r]; if(cc==r){ T w= cc<nv? v[cc]: (T)1; if(!same(got,w)){ c.fail(std::string(name)+":diagonal-entry-differs-from-vector-component",vf::show(got),vf::show(w)); return; } } else if(!(got==0)){ c.fail(std::string(name)+":off-diagonal-entry-nonzero",vf::show(got),"0"); return; } }
}
template<class T> static void k_diagonal(const In<T>& in,vf::Ctx& c){
	for(int i=0;i<4;i++) if(isnan_b(in.b[i])) SKIP("nan");
	glm::vec<2,T,Q> v2(in.b[0],in.b[1]); glm::vec<3,T,Q> v3(in.b[0],in.b[1],in.b[2]); glm::vec<4,T,Q> v4(in.b[0],in.b[1],in.b[2],in.b[3]);
	chk_diag<T,2,2>(glm::diagonal2x2(v2),in.b,2,"diagonal2x2",c); chk_diag<T,2,3>(glm::diagonal2x3(v2),in.b,2,"diagonal2x3",c); chk_diag<T,2,4>(glm::diagonal2x4(v2),in.b,2,"diagonal2x4",c);
	chk_diag<T,3,2>(glm::diagonal3x2(v2),in.b,2,"diagonal3x2",c); chk_diag<T,3,3>(glm::diagonal3x3(v3),in.b,3,"diagonal3x3",c); chk_diag<T,3,4>(glm::diagonal3x4(v3),in.b,3,"diagonal3x4",c);
	chk_diag<T,4,2>(glm::diagonal4x2(v2),in.b,2,"diagonal4x2",c); chk_diag<T,4,3>(glm::diagonal4x3(v3),in.b,3,"diagonal4x3",c); chk_diag<T,4,4>(glm::diagonal4x4(v4),in.b,4,"diagonal4x4",c);
}

// ================================================================ small-integer unimodular matrices: everything exact
template<class T> static bool small_ints(const T* x,int cols,int rows,T lim){ for(int c=0;c<cols;c++) for(int r=0;r<rows;r++){ T v=x[c*4+r]; if(!isfinite_b(v)||!(std::fabs(v)<=lim)||v!=std::floor(v)) return false; } return true; }
template<class T,int N> static void k_unimod(const In<T>& in,vf::Ctx& c){
	const LD lim=Tr<T>::exact();
	if(!small_ints<T>(in.a,N,N,(T)64)||!small_ints<T>(in.b,N,N,(T)64)) SKIP("not-small-integers");
	RefM &R=WS(0),&Bm=WS(1),&P=WS(2); fill<T>(R,in.a,N); compute(R);
	if(R.singular||fabsl(R.detL)!=1) SKIP("not-unimodular");
	// exactness domain: every magnitude sum of every formula below 2^24 / 2^53 (then all partial sums are exactly representable integers)
	LD mx=R.Sdet; for(int i=0;i<N;i++) for(int j=0;j<N;j++){ mx=std::max(mx,R.SC[i*4+j]); LD s1=0,s2=0,s3=0; for(int k=0;k<N;k++){ s1+=fabsl(R.invL[i*4+k]*R.aL[k*4+j]); s2+=fabsl(R.aL[i*4+k]*R.invL[k*4+j]); s3+=fabsl((LD)in.b[k*4+i]*R.invL[k*4+j]); } mx=std::max(mx,std::max(s1,std::max(s2,s3))); }
	for(int i=0;i<N;i++){ LD s1=0,s2=0; for(int k=0;k<N;k++){ s1+=fabsl(R.invL[i*4+k]*(LD)in.b[k]); s2+=fabsl((LD)in.b[k]*R.invL[k*4+i]); } mx=std::max(mx,std::max(s1,s2)); }
	if(!(mx<=lim)) SKIP("intermediate-sums-exceed-exact-integer-range");
	c.cls(fam_name(in.fam));
	bool affine= N>=3; for(int j=0;j<N;j++) if(!(in.a[j*4+(N-1)]==(j==N-1?(T)1:(T)0))) affine=false; if(affine) c.cls("unimodular:affine");
	Mat<T,N> m=mkm<T,N>(in.a), m1=mkm<T,N>(in.b); Vec<T,N> v=mkv<T,N>(in.b); const std::string p=pfx(N)+"unimodular:";
	T G[16]; LD W[16],WT[16],ADJ[16],ID[16]; for(int i=0;i<4;i++) for(int j=0;j<4;j++){ W[i*4+j]=R.invL[i*4+j]; WT[i*4+j]=R.invL[j*4+i]; ADJ[i*4+j]=R.CL[j*4+i]; ID[i*4+j]= i==j?1:0; }
	auto eqm=[&](const T* g,const LD* w){ for(int i=0;i<N;i++) for(int j=0;j<N;j++) if(!((LD)g[i*4+j]==w[i*4+j])) return false; return true; };
	{ T d=glm::determinant(m); if(!((LD)d==R.detL)) c.fail(p+"determinant:not-exact",vf::show(d),vf::show((T)R.detL)); }
	{ T d=glm::determinant(glm::transpose(m)); if(!((LD)d==R.detL)) c.fail(p+"determinant(transpose):not-exact",vf::show(d),vf::show((T)R.detL)); }
	Mat<T,N> gi=glm::inverse(m); outm<T,N>(gi,G); if(!eqm(G,W)){ c.fail(p+"inverse:not-exact",showm<T>(G,N),showr<T>(W,N)); }
	else { outm<T,N>(gi*m,G); if(!eqm(G,ID)) c.fail(p+"inverse(M)*M:not-exactly-identity",showm<T>(G,N),showr<T>(ID,N)); outm<T,N>(m*gi,G); if(!eqm(G,ID)) c.fail(p+"M*inverse(M):not-exactly-identity",showm<T>(G,N),showr<T>(ID,N)); }
	outm<T,N>(glm::inverseTranspose(m),G); if(!eqm(G,WT)) c.fail(p+"inverseTranspose:not-exact",showm<T>(G,N),showr<T>(WT,N));
	outm<T,N>(glm::adjugate(m),G); if(!eqm(G,ADJ)) c.fail(p+"adjugate:not-exact",showm<T>(G,N),showr<T>(ADJ,N));
	if constexpr(N>=3){ if(affine){ outm<T,N>(glm::affineInverse(m),G); if(!eqm(G,W)) c.fail(p+"affineInverse:not-exact",showm<T>(G,N),showr<T>(W,N)); } }
	{ Vec<T,N> g=m/v; LD w[4]; bool ok=true; for(int i=0;i<N;i++){ w[i]=0; for(int k=0;k<N;k++) w[i]+=R.invL[i*4+k]*(LD)in.b[k]; if(!((LD)g[i]==w[i])) ok=false; } if(!ok){ T gg[4],ww[4]; for(int i=0;i<N;i++){ gg[i]=g[i]; ww[i]=(T)w[i]; } c.fail(p+"M/v:not-exact",showv<T>(gg,N),showv<T>(ww,N)); } }
	{ Vec<T,N> g=v/m; LD w[4]; bool ok=true; for(int i=0;i<N;i++){ w[i]=0; for(int k=0;k<N;k++) w[i]+=(LD)in.b[k]*R.invL[k*4+i]; if(!((LD)g[i]==w[i])) ok=false; } if(!ok){ T gg[4],ww[4]; for(int i=0;i<N;i++){ gg[i]=g[i]; ww[i]=(T)w[i]; } c.fail(p+"v/M:not-exact",showv<T>(gg,N),showv<T>(ww,N)); } }
	{ LD w[16]={0}; for(int i=0;i<N;i++) for(int j=0;j<N;j++) for(int k=0;k<N;k++) w[i*4+j]+=(LD)in.b[k*4+i]*R.invL[k*4+j]; outm<T,N>(m1/m,G); if(!eqm(G,w)) c.fail(p+"M1/M:not-exact",showm<T>(G,N),showr<T>(w,N)); }
	// multiplicativity with an arbitrary small-integer second factor, when product and determinants stay in the exact range
	{ fill<T>(Bm,in.b,N); compute(Bm); LD sp=0; T pr[16]; for(int i=0;i<16;i++) pr[i]=0; bool okp=true; for(int i=0;i<N;i++) for(int j=0;j<N;j++){ LD s=0,sa=0; for(int k=0;k<N;k++){ s+=R.aL[i*4+k]*Bm.aL[k*4+j]; sa+=fabsl(R.aL[i*4+k]*Bm.aL[k*4+j]); } sp=std::max(sp,sa); pr[j*4+i]=(T)s; }
		if(sp<=lim && Bm.Sdet<=lim){ fill<T>(P,pr,N); compute(P); if(P.Sdet<=lim){ Mat<T,N> gp=m*m1; T gpa[16]; outm<T,N>(gp,gpa); for(int i=0;i<N;i++) for(int j=0;j<N;j++) if(!(gpa[i*4+j]==pr[j*4+i])) okp=false;
			if(okp){ c.cls("unimodular:multiplicativity-judged"); T dP=glm::determinant(gp), dd=glm::determinant(m)*glm::determinant(m1); if(!((LD)dP==R.detL*Bm.detL)||!(dP==dd)) c.fail(p+"determinant:not-exactly-multiplicative",vf::show(dP),vf::show((T)(R.detL*Bm.detL))); } } } }
}

// ================================================================ gtx qr_decompose / rq_decompose (square)
// modified Gram-Schmidt: loss of orthogonality and reconstruction error are O(u kappa) (Bjorck 1967; R is taken from dot(in_j,q_i),
// so the reconstruction inherits the orthogonality loss).  Bound: 64 u kappaF per entry (times |M|_F for the reconstruction).
static const LD KQR = 64;
template<class T,int N> static void k_qr(const In<T>& in,vf::Ctx& c,bool rq){ TRT
	RefM& R=WS(0); if(!load<T>(R,in.a,N,c,in.fam)) return;
	LD eps=KQR*u*R.kappaF; if(!(eps<=0.125L)) SKIP("bound-vacuous");
	Mat<T,N> m=mkm<T,N>(in.a), q, r; for(int cc=0;cc<N;cc++) for(int rr=0;rr<N;rr++){ q[cc][rr]=std::numeric_limits<T>::quiet_NaN(); r[cc][rr]=std::numeric_limits<T>::quiet_NaN(); }
	if(rq) glm::rq_decompose(m,r,q); else glm::qr_decompose(m,q,r);
	T Qm[16],Rm[16]; outm<T,N>(q,Qm); outm<T,N>(r,Rm); const std::string p=pfx(N)+(rq?"rq_decompose:":"qr_decompose:");
	for(int i=0;i<N;i++) for(int j=0;j<N;j++) if(!isfinite_b(Qm[i*4+j])||!isfinite_b(Rm[i*4+j])){ c.fail(p+"non-finite-or-unwritten-output-entry",showm<T>(Qm,N)+" "+showm<T>(Rm,N),"finite q, r"); return; }
	for(int i=0;i<N;i++) for(int j=0;j<i;j++) if(!(Rm[i*4+j]==0)){ c.fail(p+"r-not-upper-triangular",showm<T>(Rm,N),"zeros below the diagonal"); return; }
	LD mo=0,mrx=0; bool bado=false,badr=false;
	for(int a=0;a<N;a++) for(int b=0;b<N;b++){ LD s=0; for(int k=0;k<N;k++) s+= rq? (LD)Qm[a*4+k]*(LD)Qm[b*4+k]: (LD)Qm[k*4+a]*(LD)Qm[k*4+b]; LD e=fabsl(s-(a==b?1:0)); mo=std::max(mo,e/eps); if(!(e<=eps)) bado=true; }
	for(int i=0;i<N;i++) for(int j=0;j<N;j++){ LD s=0; for(int k=0;k<N;k++) s+= rq? (LD)Rm[i*4+k]*(LD)Qm[k*4+j]: (LD)Qm[i*4+k]*(LD)Rm[k*4+j]; LD e=fabsl(s-R.aL[i*4+j]), bd=eps*R.normF+4*tiny; mrx=std::max(mrx,e/bd); if(!(e<=bd)) badr=true; }
	rat(c,p+"orthonormality-err/bound",mo); rat(c,p+"reconstruction-err/bound",mrx);
	if(bado) c.fail(p+(rq?"rows-of-q-not-orthonormal":"columns-of-q-not-orthonormal"),showm<T>(Qm,N),"orthonormal");
	if(badr) c.fail(p+(rq?"r*q-differs-from-input":"q*r-differs-from-input"),showm<T>(Qm,N)+" "+showm<T>(Rm,N),showr<T>(R.aL,N));
}

// ================================================================ gtx matrix_query predicates (b[0] = epsilon)
// A decision is demanded only when the deciding quantity is farther from its threshold than 8 u relative (lengths: sqrt and dot
// roundings); inside that band either answer is accepted.
template<class T,int N> static void k_query(const In<T>& in,vf::Ctx& c){ TRT
	const T eps=in.b[0]; if(!isfinite_b(eps)||!(eps>0)||!((LD)eps<=1)||!((LD)eps>=ldexpl(1.0L,-(int)Tr<T>::E))) SKIP("epsilon-outside-domain");
	for(int cc=0;cc<N;cc++) for(int r=0;r<N;r++){ T v=in.a[cc*4+r]; if(!isfinite_b(v)||!(fabsl((LD)v)<=ldexpl(1.0L,(int)Tr<T>::E))) SKIP("entry-outside-magnitude-domain"); }
	Mat<T,N> m=mkm<T,N>(in.a); LD A[16]; for(int i=0;i<N;i++) for(int j=0;j<N;j++) A[i*4+j]=(LD)in.a[j*4+i];
	const LD band=8*u; const std::string p=pfx(N);
	// tri-state comparison  x <= t : +1 surely true, -1 surely false, 0 within rounding.  scale = magnitude that carries the relative rounding error of x
	auto le=[&](LD x,LD t,LD scale){ LD s=band*scale+4*tiny; if(x<=t-s) return 1; if(x>t+s) return -1; return 0; };
	auto all_of=[&](const std::vector<int>& v){ bool anyf=false,any0=false; for(int x: v){ if(x<0) anyf=true; if(x==0) any0=true; } return anyf? -1: (any0? 0: 1); };
	auto judge=[&](const char* name,bool got,int want){ c.cls(want>0?"query:expected-true":want<0?"query:expected-false":"query:either(within-rounding-of-threshold)"); if(want>0&&!got) c.fail(p+name+":returns-false-where-clearly-true",vf::show(got),"true"); if(want<0&&got) c.fail(p+name+":returns-true-where-clearly-false",vf::show(got),"false"); };
	LD cl[4],rl[4]; for(int k=0;k<N;k++){ LD s=0,t=0; for(int i=0;i<N;i++){ s+=A[i*4+k]*A[i*4+k]; t+=A[k*4+i]*A[k*4+i]; } cl[k]=sqrtl(s); rl[k]=sqrtl(t); }
	{ std::vector<int> v; for(int k=0;k<N;k++) v.push_back(le(cl[k],(LD)eps,cl[k])); judge("isNull",glm::isNull(m,eps),all_of(v)); }
	{ std::vector<int> v; for(int i=0;i<N;i++) for(int j=0;j<N;j++){ LD d=fabsl(A[i*4+j]-(i==j?1:0)); v.push_back(le(d,(LD)eps,d)); } judge("isIdentity",glm::isIdentity(m,eps),all_of(v)); }
	{ std::vector<int> v; for(int k=0;k<N;k++){ v.push_back(le(fabsl(cl[k]-1),2*(LD)eps,cl[k]+1)); v.push_back(le(fabsl(rl[k]-1),2*(LD)eps,rl[k]+1)); } judge("isNormalized",glm::isNormalized(m,eps),all_of(v)); }
	{ std::vector<int> v; for(int k=0;k<N;k++){ v.push_back(le(fabsl(cl[k]-1),2*(LD)eps,cl[k]+1)); v.push_back(le(fabsl(rl[k]-1),2*(LD)eps,rl[k]+1)); }
		for(int a=0;a<N;a++) for(int b=a+1;b<N;b++){ LD s=0,sa=0,t=0,ta=0; for(int i=0;i<N;i++){ s+=A[i*4+a]*A[i*4+b]; sa+=fabsl(A[i*4+a]*A[i*4+b]); t+=A[a*4+i]*A[b*4+i]; ta+=fabsl(A[a*4+i]*A[b*4+i]); } v.push_back(le(fabsl(s),(LD)eps,sa)); v.push_back(le(fabsl(t),(LD)eps,ta)); }
		judge("isOrthogonal",glm::isOrthogonal(m,eps),all_of(v)); }
}

// ---------------------------------------------------------------- operation table
#define DISPN(FN,...) switch(in.n){ case 2: FN<T,2>(__VA_ARGS__); break; case 3: FN<T,3>(__VA_ARGS__); break; case 4: FN<T,4>(__VA_ARGS__); break; default: c.cls("skipped:bad-n"); }
#define R32(F) F F F F F F F F F F F F F F F F F F F F F F F F F F F F F F F F "ii"
#define DEF_TYPE(T_,TN,F) \
	typedef In<T_> In_##TN; \
	VF_OP(determinant_##TN, In_##TN, R32(F)){ typedef T_ T; DISPN(k_det,in,c) } \
	VF_OP(determinant_transpose_##TN, In_##TN, R32(F)){ typedef T_ T; DISPN(k_det_tr,in,c) } \
	VF_OP(determinant_multiplicative_##TN, In_##TN, R32(F)){ typedef T_ T; DISPN(k_det_mul,in,c) } \
	VF_OP(inverse_##TN, In_##TN, R32(F)){ typedef T_ T; DISPN(k_inverse,in,c) } \
	VF_OP(inverseTranspose_##TN, In_##TN, R32(F)){ typedef T_ T; DISPN(k_invT,in,c) } \
	VF_OP(affineInverse_##TN, In_##TN, R32(F)){ typedef T_ T; DISPN(k_affine,in,c) } \
	VF_OP(div_mat_vec_##TN, In_##TN, R32(F)){ typedef T_ T; DISPN(k_div_vec,in,c,0) } \
	VF_OP(div_vec_mat_##TN, In_##TN, R32(F)){ typedef T_ T; DISPN(k_div_vec,in,c,1) } \
	VF_OP(div_mat_mat_##TN, In_##TN, R32(F)){ typedef T_ T; DISPN(k_div_mat,in,c) } \
	VF_OP(unimodular_exact_##TN, In_##TN, R32(F)){ typedef T_ T; DISPN(k_unimod,in,c) } \
	VF_OP(adjugate_##TN, In_##TN, R32(F)){ typedef T_ T; DISPN(k_adjugate,in,c) } \
	VF_OP(diagonal_builders_##TN, In_##TN, R32(F)){ k_diagonal<T_>(in,c); } \
	VF_OP(qr_decompose_##TN, In_##TN, R32(F)){ typedef T_ T; DISPN(k_qr,in,c,false) } \
	VF_OP(rq_decompose_##TN, In_##TN, R32(F)){ typedef T_ T; DISPN(k_qr,in,c,true) } \
	VF_OP(matrix_query_##TN, In_##TN, R32(F)){ typedef T_ T; DISPN(k_query,in,c) }
DEF_TYPE(float,f,"f")
DEF_TYPE(double,d,"d")

struct Ops { vf::Op *det,*dettr,*detmul,*inv,*invT,*aff,*dmv,*dvm,*dmm,*uni,*adj,*diag,*qr,*rq,*query; };
#define OPS(TN) Ops{&determinant_##TN,&determinant_transpose_##TN,&determinant_multiplicative_##TN,&inverse_##TN,&inverseTranspose_##TN,&affineInverse_##TN,&div_mat_vec_##TN,&div_vec_mat_##TN,&div_mat_mat_##TN,&unimodular_exact_##TN,&adjugate_##TN,&diagonal_builders_##TN,&qr_decompose_##TN,&rq_decompose_##TN,&matrix_query_##TN}

// ---------------------------------------------------------------- generators (double arithmetic; whatever comes out is judged by the oracle on its own merits)
template<class T> struct Gen {
	vf::Rng& r; explicit Gen(vf::Rng& r_):r(r_){}
	// random orthogonal n x n, q[i*4+j]
	void orth(double* q,int n){ for(;;){ double g[16]; for(int i=0;i<16;i++) g[i]=r.gauss(); bool ok=true;
		for(int j=0;j<n&&ok;j++){ for(int k=0;k<j;k++){ double d=0; for(int i=0;i<n;i++) d+=g[i*4+j]*q[i*4+k]; for(int i=0;i<n;i++) g[i*4+j]-=d*q[i*4+k]; }
			double nn=0; for(int i=0;i<n;i++) nn+=g[i*4+j]*g[i*4+j]; nn=std::sqrt(nn); if(nn<1e-2) ok=false; for(int i=0;i<n;i++) q[i*4+j]=g[i*4+j]/nn; }
		if(ok) return; } }
	double ktarget(){ double lim=(double)Tr<T>::klim()/2, x= r.below(4)==0? 0.8+0.2*r.unit(): r.unit(); return std::pow(lim,x); }
	void svd(double* m,int n,int shape){ double U[16],V[16],s[4]; orth(U,n); orth(V,n); double k=ktarget();
		for(int i=0;i<n;i++) s[i]= shape==0? (i==n-1? 1/k: r.uniform(0.5,1)): shape==1? std::pow(k,-(double)i/(n-1)): (i==0? 1: r.uniform(1,2)/k);
		for(int i=0;i<n;i++) for(int j=0;j<n;j++){ double x=0; for(int l=0;l<n;l++) x+=U[i*4+l]*s[l]*V[j*4+l]; m[i*4+j]=x; } }
	void uniform(double* m,int n){ for(int i=0;i<n;i++) for(int j=0;j<n;j++) m[i*4+j]=r.uniform(-1,1); }
	// fills row-major double m; returns family
	int raw(double* m,int n){ for(int i=0;i<16;i++) m[i]=0; int f=(int)r.below(18);
		if(f<3){ svd(m,n,0); return 0; } if(f<6){ svd(m,n,1); return 1; } if(f<8){ svd(m,n,2); return 2; }
		if(f<10){ uniform(m,n); return 3; }
		if(f<12){ int p[4]={0,1,2,3}; for(int i=n-1;i>0;i--) std::swap(p[i],p[r.below(i+1)]); for(int i=0;i<n;i++) m[i*4+p[i]]=(r.coin()?1:-1)*(r.coin()?1.0:r.uniform(0.25,4)); if(r.coin()){ double e=std::exp2(-(double)r.range(2,12)); for(int i=0;i<n;i++) for(int j=0;j<n;j++) m[i*4+j]+=e*r.uniform(-1,1); } return 4; }
		if(f<14){ bool up=r.coin(), unit=r.below(4)==0; for(int i=0;i<n;i++) for(int j=0;j<n;j++){ if(i==j) m[i*4+j]= unit?1.0:(r.coin()?1:-1)*r.uniform(0.25,2); else if((j>i)==up) m[i*4+j]= r.below(4)==0? 0.0: r.uniform(-1,1); } return 5; }
		if(f<15){ uniform(m,n); int a=(int)r.below(n), b=(int)r.below(n-1); if(b>=a) b++; double s=r.uniform(-2,2), e=std::pow((double)Tr<T>::klim(),-r.uniform(0.2,1.0)); for(int i=0;i<n;i++) m[i*4+b]=s*m[i*4+a]+e*r.uniform(-1,1); return 6; }
		if(f<16){ for(int i=0;i<n;i++) for(int j=0;j<n;j++) m[i*4+j]=(double)r.range(-8,8); return 7; }
		{ int k=(int)r.below(4);
			if(k==0){ for(int i=0;i<n;i++) m[i*4+i]=(r.coin()?1:-1)*std::exp2(r.uniform(-3,3)); }
			else if(k==1){ double s=r.logmag(-3,3); for(int i=0;i<n;i++) m[i*4+i]=s; }
			else if(k==2){ orth(m,n); if(r.coin()){ double s=std::exp2((double)r.range(-3,3)); for(int i=0;i<16;i++) m[i]*=s; } }
			else { double g[16]; uniform(g,n); for(int i=0;i<n;i++) for(int j=0;j<n;j++){ m[i*4+j]=g[i*4+j]+g[j*4+i]; } for(int i=0;i<n;i++) m[i*4+i]+= r.coin()? 2.0*n: 0.0; }
			return 8; }
	}
	// scale by 2^e, round to T, flush entries below the magnitude domain to zero, store in glm layout
	void store(const double* m,int n,T* a,int e){ const double lo=std::ldexp(1.0,-(int)Tr<T>::E+1); for(int i=0;i<16;i++) a[i]=0;
		for(int i=0;i<n;i++) for(int j=0;j<n;j++){ T v=(T)std::ldexp(m[i*4+j],e); if(std::fabs((double)v)<lo) v=0; a[j*4+i]=v; } }
	int pickE(){ return r.coin()? 0: r.range(-(int)Tr<T>::ES,(int)Tr<T>::ES); }
	int make(T* a,int n){ double m[16]; int f=raw(m,n); store(m,n,a,pickE()); return f; }
	// affine n x n: linear part from any family of size n-1, translation, last row 0..0 1
	int make_affine(T* a,int n){ double m[16],b[16]; for(int i=0;i<16;i++) m[i]=0; raw(b,n-1); int e=pickE(); for(int i=0;i<n-1;i++) for(int j=0;j<n-1;j++) m[i*4+j]=std::ldexp(b[i*4+j],e);
		int tm=(int)r.below(4); for(int i=0;i<n-1;i++) m[i*4+(n-1)]= tm==0? 0.0: tm==1? (double)r.range(-8,8): std::ldexp(r.uniform(-1,1),e+r.range(-3,6)); m[(n-1)*4+(n-1)]=1; store(m,n,a,0); return 9; }
	// integer unimodular: signed permutation times <= 6 elementary integer row/column operations, entries kept <= 64 in magnitude
	int make_unimod(T* a,int n,bool affine){ int k= affine? n-1: n; long M[4][4]; for(int i=0;i<4;i++) for(int j=0;j<4;j++) M[i][j]=0;
		{ int p[4]={0,1,2,3}; if(r.coin()) for(int i=k-1;i>0;i--) std::swap(p[i],p[r.below(i+1)]); for(int i=0;i<k;i++) M[i][p[i]]= r.below(4)==0? -1: 1; }
		int ops=r.range(0,6); for(int o=0;o<ops&&k>1;o++){ long S[4][4]; memcpy(S,M,sizeof S); int i=(int)r.below(k), j=(int)r.below(k-1); if(j>=i) j++; long cf=r.range(1,3)*(r.coin()?1:-1); int ty=(int)r.below(6);
			if(ty<2) for(int l=0;l<k;l++) M[i][l]+=cf*M[j][l]; else if(ty<4) for(int l=0;l<k;l++) M[l][i]+=cf*M[l][j]; else if(ty==4) for(int l=0;l<k;l++) std::swap(M[i][l],M[j][l]); else for(int l=0;l<k;l++) M[i][l]=-M[i][l];
			long mx=0; for(int x=0;x<k;x++) for(int y=0;y<k;y++) mx=std::max(mx,std::labs(M[x][y])); if(mx>64){ memcpy(M,S,sizeof S); break; } }
		if(affine){ for(int i=0;i<k;i++) M[i][k]=r.range(-8,8); M[k][k]=1; }
		for(int i=0;i<16;i++) a[i]=0;
		for(int i=0;i<n;i++) for(int j=0;j<n;j++) a[j*4+i]=(T)M[i][j];
		return 10; }
	void vec(T* v,int n){ for(int i=0;i<16;i++) v[i]=0; int m=(int)r.below(6), e=pickE(); const double lo=std::ldexp(1.0,-(int)Tr<T>::E+1);
		for(int i=0;i<n;i++){ double x= m<2? r.uniform(-1,1): m==2? r.gauss(): m==3? (double)r.range(-8,8): m==4? (r.coin()? 0.0: r.uniform(-1,1)): 0.0; T t=(T)std::ldexp(x,e); if(std::fabs((double)t)<lo) t=0; v[i]=t; }
		if(m==5) v[r.below(n)]= r.coin()? (T)1: (T)-1; }
	void ivec(T* v,int n,bool mat){ for(int i=0;i<16;i++) v[i]=0; if(mat){ for(int c=0;c<n;c++) for(int rr=0;rr<n;rr++) v[c*4+rr]=(T)r.range(-8,8); } else for(int i=0;i<n;i++) v[i]=(T)r.range(-64,64); }
};
template<class T> static In<T> mkin(const T* a,const T* b,int n,int fam){ In<T> in; memset(&in,0,sizeof in); for(int i=0;i<16;i++){ in.a[i]=a[i]; in.b[i]= b? b[i]: (T)0; } in.n=n; in.fam=fam; return in; }

template<class T> static void run_type(const char* label,Ops o,u64 n){
	vf::parallel(label,[&](int t,int TT,vf::Ctx& c){ Gen<T> g(c.rng); vf::Rng& r=c.rng;
#define RUN(OP,IN) do{ if(vf::want(*o.OP)) vf::run(c,*o.OP,IN); }while(0)
		for(u64 it=t;it<n;it+=TT){ const int N=2+(int)((it/TT)%3); T a[16],b[16],v[16];
			int fa=g.make(a,N); g.make(b,N); g.vec(v,N);
			In<T> i1=mkin<T>(a,b,N,fa), iv=mkin<T>(a,v,N,fa);
			RUN(det,i1); RUN(inv,i1); RUN(invT,i1); RUN(adj,i1); RUN(dettr,i1); RUN(dmv,iv); RUN(dvm,iv); RUN(dmm,i1);
			if((it/TT)%2==0) RUN(detmul,i1);
			{ int Na= N<3? 3+(int)r.below(2): N; T f[16]; int ff=g.make_affine(f,Na); In<T> ia=mkin<T>(f,nullptr,Na,ff); RUN(aff,ia); if(r.below(4)==0){ RUN(inv,ia); RUN(invT,ia); } }
			{ T m[16],w[16]; bool affine= N>=3 && r.below(3)==0; int fu=g.make_unimod(m,N,affine); bool asmat=r.coin(); g.ivec(w,N,asmat); if(asmat&&r.below(3)==0){ T m2[16]; g.make_unimod(m2,N,false); for(int i=0;i<16;i++) w[i]=m2[i]; }
				In<T> iu=mkin<T>(m,w,N,fu); RUN(uni,iu); if(r.below(4)==0){ RUN(inv,iu); RUN(det,iu); } }
			if((it/TT)%4==0){ RUN(qr,i1); RUN(rq,i1); In<T> idg=mkin<T>(a,v,N,fa); if(r.below(4)==0){ const std::vector<T> lat=lattice_of<T>::get(); for(int k=0;k<4;k++){ T x=lat[r.below(lat.size())]; if(!isnan_b(x)) idg.b[k]=x; } } RUN(diag,idg);
				// query: identity / orthogonal / null-like matrices with perturbations around epsilon, and arbitrary ones
				T q[16]; double m[16]; for(int i=0;i<16;i++) m[i]=0; int k=(int)r.below(6); double eps=std::exp2(-(double)r.range(3,(int)(sizeof(T)==4?12:40)));
				double pert= r.below(3)==0? 0.0: eps*std::exp2((double)r.range(-4,3))*(r.coin()?1.0:r.uniform(0.5,1.5));
				if(k==0) for(int i=0;i<N;i++) m[i*4+i]=1; else if(k==1||k==2) g.orth(m,N); else if(k==3){} else g.uniform(m,N);
				if(k<=3){ int cnt= r.coin()? 1: N*N; for(int z=0;z<cnt;z++){ int i=(int)r.below(N), j=(int)r.below(N); m[i*4+j]+=pert*(r.coin()?1:-1); } }
				for(int i=0;i<16;i++) q[i]=0;
				for(int i=0;i<N;i++) for(int j=0;j<N;j++) q[j*4+i]=(T)m[i*4+j];
				T e[16]; for(int i=0;i<16;i++) e[i]=0; e[0]=(T)eps; In<T> iq=mkin<T>(q,e,N,11); RUN(query,iq); }
		}
#undef RUN
	});
}

static void workload(){
	if(!mpfr_buildopt_tls_p()){ fprintf(stderr,"C10: MPFR was built without thread-local storage\n"); exit(3); }
	vf::note("qualifier", SIMD_ALIGNED? "aligned_highp with GLM_CONFIG_SIMD enabled (SSE specialisations of float mat4 inverse/determinant and aligned mat3 inverse are exercised; classes carry the prefix simd-aligned:)":"packed (default) qualifier, pure C++ code paths");
	vf::note("reference","MPFR 512-bit Leibniz determinant / cofactors / adjugate-over-determinant inverse from the exact input entries; second path (Laplace expansion, inverse*M=I) compared on every 64th matrix to 2^-400");
	vf::note("info-ratios","ratio keys starting with info(not-a-bound) are measurements requested by DESIGN C10 (max residual of inverse(M)*M-I and M*inverse(M)-I divided by u*kappaF, per generator family, over the matrices that passed the domain and rho gates); they are not tolerances and may exceed 1");
	run_type<float>("float",OPS(f),vf::N(120000,1500000));
	run_type<double>("double",OPS(d),vf::N(120000,1500000));
}
VF_MAIN("C10_matrix")
