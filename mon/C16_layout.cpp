// C16 — storage layout contract of vec<L,T,Q>, mat<C,R,T,Q>, qua<T,Q> in the configuration this file is built with.
//
// One source, many builds (see fw/props/C16.py): every build instantiates every vec/mat/qua over
// L in 1..4, C,R in 2..4, T in {bool, int8..uint64, float, double}, Q in {packed,aligned(when available)} x {highp,mediump,lowp}
// and *executes* the layout facts (sizeof, alignof, element addresses, member offsets, tag round trips through operator[],
// named members, value_ptr, raw bytes, make_* builders, length()).
//
// Oracle = the documented contract only (property statement C16):
//   packed : exactly L (C*R) contiguous T, column-major, alignment of T
//   aligned: same element order starting at offset 0, sizeof >= L*sizeof(T), alignof a power of two >= alignof(T);
//            the numeric facts the statement gives (float vec3/vec4 16/16, vec2 8/8); matrix = C consecutive aligned columns
//   quaternion member order x,y,z,w, or w,x,y,z with GLM_FORCE_QUAT_DATA_WXYZ
//   value_ptr / make_* round trip every object unchanged; length() == component count, type == configured length type
// No glm code is used to decide what is expected (is_aligned etc. are re-derived here).
#include "vf.hpp"
#include "ref.hpp"
#include <glm/glm.hpp>
#include <glm/gtc/quaternion.hpp>
#include <glm/gtc/vec1.hpp>
#include <glm/gtc/type_ptr.hpp>
#include <glm/gtc/type_precision.hpp>
#if GLM_CONFIG_ALIGNED_GENTYPES == GLM_ENABLE
#	include <glm/gtc/type_aligned.hpp>
#	define C16_ALIGNED 1
#else
#	define C16_ALIGNED 0
#endif
#include <new>
#include <cstddef>
// qua::operator[] is `(&x)[i]` (glm/detail/type_quat.inl): gcc diagnoses the vectorised 4-element store through it as
// "writing 16 bytes into a region of size 4"; that is glm's idiom under test here, not a harness problem.
#if defined(__GNUC__) && !defined(__clang__)
#	pragma GCC diagnostic ignored "-Wstringop-overflow"
#	pragma GCC diagnostic ignored "-Warray-bounds"
#endif

using vf::u8; using vf::u32; using vf::u64;

// ---------------------------------------------------------------- configuration facts the oracle needs
#if defined(GLM_FORCE_SIZE_T_LENGTH)
typedef std::size_t want_length_t;
static const char* const LENGTH_NAME="size_t";
#else
typedef int want_length_t;
static const char* const LENGTH_NAME="int";
#endif
#if defined(GLM_FORCE_QUAT_DATA_WXYZ)
enum { QW=0, QX=1, QY=2, QZ=3 };
#else
enum { QX=0, QY=1, QZ=2, QW=3 };
#endif
#if defined(GLM_FORCE_XYZW_ONLY)
#	define C16_XYZW_ONLY 1
#else
#	define C16_XYZW_ONLY 0
#endif

// -DC16_LEAN: instantiate the highp qualifiers only (secondary configurations; halves/thirds the build time)
#if !defined(C16_LEAN)
#	define C16_LEAN 0
#endif
// qualifier index used in the input records: 0..2 packed highp/mediump/lowp, 3..5 aligned highp/mediump/lowp
enum { NQ = C16_ALIGNED ? 6 : 3 };
static const char* const QNAMES[6]={"packed_highp","packed_mediump","packed_lowp","aligned_highp","aligned_mediump","aligned_lowp"};
template<int QI> struct QOf;
template<> struct QOf<0>{ static const glm::qualifier q=glm::packed_highp; };
template<> struct QOf<1>{ static const glm::qualifier q=glm::packed_mediump; };
template<> struct QOf<2>{ static const glm::qualifier q=glm::packed_lowp; };
#if C16_ALIGNED
template<> struct QOf<3>{ static const glm::qualifier q=glm::aligned_highp; };
template<> struct QOf<4>{ static const glm::qualifier q=glm::aligned_mediump; };
template<> struct QOf<5>{ static const glm::qualifier q=glm::aligned_lowp; };
#endif
// index of the default qualifier (what glm::vec3, glm::mat4, make_vec3(ptr) ... use)
#if C16_ALIGNED && defined(GLM_FORCE_DEFAULT_ALIGNED_GENTYPES)
enum { DEFAULT_QI = 3 };
#else
enum { DEFAULT_QI = 0 };
#endif

// ---------------------------------------------------------------- helpers
template<class P> static inline P* hide(P* p){ asm volatile("" : "+r"(p) : : "memory"); return p; }
static inline void fence(){ asm volatile("" ::: "memory"); }

template<class T> struct Tag { static T of(u64 r){ return (T)r; } };
template<> struct Tag<bool>{ static bool of(u64 r){ return (r&1)!=0; } };
template<> struct Tag<float>{ static float of(u64 r){ u32 b=(u32)r; if((b&0x7f800000u)==0x7f800000u) b&=~0x40000000u; float f; memcpy(&f,&b,4); return f; } };   // finite, any other bit pattern
template<> struct Tag<double>{ static double of(u64 r){ u64 b=r; if((b&0x7ff0000000000000ull)==0x7ff0000000000000ull) b&=~0x4000000000000000ull; double f; memcpy(&f,&b,8); return f; } };
template<class T> static inline bool eq(const T& a,const T& b){ return memcmp(&a,&b,sizeof(T))==0; }
template<> inline bool eq<bool>(const bool& a,const bool& b){ return a==b; }
template<class T> static std::string shw(const T& v){ return vf::show(v); }
static std::string shw(long long v){ return std::to_string(v); }
static std::string shw(unsigned long long v){ return std::to_string(v); }
template<class T> static std::string shw_arr(const T* p,int n){ std::string s="["; for(int i=0;i<n;i++){ if(i) s+=","; s+=vf::show(p[i]); } return s+"]"; }
static inline bool pow2(size_t x){ return x && !(x&(x-1)); }

// class-string prefix: "vec3:aligned_highp:", "mat3x4:packed_lowp:", "quat:packed_highp:"
struct Pre {
	const char* kind; int a,b; int qi;
	std::string head() const { std::string s=kind; if(a) s+=std::to_string(a); if(b){ s+="x"; s+=std::to_string(b);} s+=":"; s+=QNAMES[qi]; return s; }
	std::string operator()(const char* what) const { return head()+":"+what; }
};
// Everything that does not depend on the instantiated type lives in non-template, non-inlined helpers (the templates below are
// instantiated ~900 times per build).
#define C16_NOINL __attribute__((noinline))
static C16_NOINL void reached(vf::Ctx& c,const Pre& P){ c.cls(P.head().c_str()); }
static C16_NOINL void F_num(vf::Ctx& c,const Pre& P,const char* what,long long got,long long want){ c.fail(P(what),std::to_string(got),std::to_string(want)); }
static C16_NOINL void F_txt(vf::Ctx& c,const Pre& P,const char* what,const char* got,const char* want){ c.fail(P(what),std::string(got),std::string(want)); }
static inline long long boff(const void* p,const void* base){ return (long long)((const char*)p-(const char*)base); }
// expect p == base + want bytes
static C16_NOINL void at(vf::Ctx& c,const Pre& P,const char* what,const void* p,const void* base,long long want,bool& ok){ long long o=boff(p,base); if(o!=want){ ok=false; F_num(c,P,what,o,want); } }
static C16_NOINL void eqn(vf::Ctx& c,const Pre& P,const char* what,long long got,long long want){ if(got!=want) F_num(c,P,what,got,want); }
static C16_NOINL void gen_size(vf::Ctx& c,const Pre& P,bool aligned,size_t sz,size_t aln,size_t n,size_t st,size_t at_,const char* s_eq,const char* s_lt){
	if(!aligned){ if(sz!=n*st) F_num(c,P,s_eq,(long long)sz,(long long)(n*st)); if(aln!=at_) F_num(c,P,"alignof-not-alignof(T)",(long long)aln,(long long)at_); }
	else { if(sz<n*st) F_num(c,P,s_lt,(long long)sz,(long long)(n*st)); if(!pow2(aln)||aln<at_) F_num(c,P,"alignof-not-power-of-two>=alignof(T)",(long long)aln,(long long)at_);
	       if(sz%aln) F_num(c,P,"sizeof-not-multiple-of-alignof",(long long)sz,(long long)aln); } }
template<class X> struct TName { static const char* n(){ return "another type"; } };
template<> struct TName<int>{ static const char* n(){ return "int"; } };
template<> struct TName<unsigned>{ static const char* n(){ return "unsigned int"; } };
template<> struct TName<long>{ static const char* n(){ return "long"; } };
template<> struct TName<unsigned long>{ static const char* n(){ return "size_t"; } };
static C16_NOINL void len_type(vf::Ctx& c,const Pre& P,bool ok,const char* ret,const char* lt,const char* glt){ if(!ok) F_txt(c,P,"length()-type-not-configured-length-type",(std::string("length() returns ")+ret+", length_type="+lt+", glm::length_t="+glt).c_str(),LENGTH_NAME); }
// first mismatch between what was read back and the tags
template<class T> static C16_NOINL void cmp(vf::Ctx& c,const Pre& P,const char* what,const T* got,const T* want,int n){
	for(int i=0;i<n;i++) if(!eq(got[i],want[i])){ c.fail(P(what),shw_arr(got,n),shw_arr(want,n)); return; } }
template<class T> static C16_NOINL void tags(T (*tg)[16],int phases,const u64* raw,int nraw,int step){
	for(int ph=0;ph<phases;ph++) for(int i=0;i<nraw;i++) tg[ph][i]=Tag<T>::of(raw[(i+step*ph)%nraw] + (u64)ph*0x0101010101010101ull*(u64)(ph+i)); }

// an object placed in the middle of a poisoned, over-aligned box: wrong addresses returned by a (mutated) library stay inside
// memory this monitor owns, and writes outside the object are visible.
enum { BOXPAD=128 };
static C16_NOINL void box_poison(unsigned char* mem,size_t total,size_t objsz,unsigned char b){ memset(mem,0xA5,total); memset(mem+BOXPAD,b,objsz); fence(); }
static C16_NOINL void box_guards(vf::Ctx& c,const Pre& P,const char* what,const unsigned char* mem,size_t total,size_t objsz){
	bool ok=true; for(size_t i=0;i<BOXPAD;i++) if(mem[i]!=0xA5) ok=false; for(size_t i=BOXPAD+objsz;i<total;i++) if(mem[i]!=0xA5) ok=false;
	if(!ok) F_txt(c,P,what,"changed","untouched"); }
template<class V> struct Box {
	enum { OBJ=(sizeof(V)+63)/64*64 };
	alignas(64) unsigned char mem[BOXPAD+OBJ+BOXPAD];
	unsigned char* obj(){ return mem+BOXPAD; }
	void poison(unsigned char b){ box_poison(mem,sizeof mem,sizeof(V),b); }
	void guards(vf::Ctx& c,const Pre& P,const char* what) const { box_guards(c,P,what,mem,sizeof mem,sizeof(V)); }
};
static const char* const MEMBER_AT[4]={"member-offset:x-not-at-0*sizeof(T)","member-offset:y-not-at-1*sizeof(T)","member-offset:z-not-at-2*sizeof(T)","member-offset:w-not-at-3*sizeof(T)"};
// ---------------------------------------------------------------- named-member access (compile-time selected)
template<int L> struct Mem;
template<> struct Mem<1>{ template<class V,class T> static void ptrs(V& v,T** p){ p[0]=&v.x; }
#if !C16_XYZW_ONLY
	template<class V,class T> static void alias(V& v,T** c,T** s){ c[0]=&v.r; s[0]=&v.s; }
#endif
};
template<> struct Mem<2>{ template<class V,class T> static void ptrs(V& v,T** p){ p[0]=&v.x; p[1]=&v.y; }
#if !C16_XYZW_ONLY
	template<class V,class T> static void alias(V& v,T** c,T** s){ c[0]=&v.r; c[1]=&v.g; s[0]=&v.s; s[1]=&v.t; }
#endif
};
template<> struct Mem<3>{ template<class V,class T> static void ptrs(V& v,T** p){ p[0]=&v.x; p[1]=&v.y; p[2]=&v.z; }
#if !C16_XYZW_ONLY
	template<class V,class T> static void alias(V& v,T** c,T** s){ c[0]=&v.r; c[1]=&v.g; c[2]=&v.b; s[0]=&v.s; s[1]=&v.t; s[2]=&v.p; }
#endif
};
template<> struct Mem<4>{ template<class V,class T> static void ptrs(V& v,T** p){ p[0]=&v.x; p[1]=&v.y; p[2]=&v.z; p[3]=&v.w; }
#if !C16_XYZW_ONLY
	template<class V,class T> static void alias(V& v,T** c,T** s){ c[0]=&v.r; c[1]=&v.g; c[2]=&v.b; c[3]=&v.a; s[0]=&v.s; s[1]=&v.t; s[2]=&v.p; s[3]=&v.q; }
#endif
};
static const char* const XYZW[4]={"x","y","z","w"};

// make_* dispatch (the pointer builders exist for the default qualifier only)
// the pointer builders take a T const*: the source is only promised the alignment of a T, so the arrays handed to them start at an
// address that is NOT 16-byte aligned (an implementation that loads whole SIMD registers from the pointer must use unaligned loads)
template<class T> static inline T* t_aligned_only(T* a){ return (((uintptr_t)a & 15)==0)? a+1 : a; }

template<int L> struct MkV;
template<> struct MkV<2>{ template<class T> static glm::vec<2,T,glm::defaultp> ptr(const T* p){ return glm::make_vec2(p); } };
template<> struct MkV<3>{ template<class T> static glm::vec<3,T,glm::defaultp> ptr(const T* p){ return glm::make_vec3(p); } };
template<> struct MkV<4>{ template<class T> static glm::vec<4,T,glm::defaultp> ptr(const T* p){ return glm::make_vec4(p); } };
template<int L> struct MkS;
template<> struct MkS<1>{ template<class V> static V same(const V& v){ return glm::make_vec1(v); } };
template<> struct MkS<2>{ template<class V> static V same(const V& v){ return glm::make_vec2(v); } };
template<> struct MkS<3>{ template<class V> static V same(const V& v){ return glm::make_vec3(v); } };
template<> struct MkS<4>{ template<class V> static V same(const V& v){ return glm::make_vec4(v); } };
template<int C,int R> struct MkM;
#define C16_MKM(C,R) template<> struct MkM<C,R>{ template<class T> static glm::mat<C,R,T,glm::defaultp> ptr(const T* p){ return glm::make_mat##C##x##R(p); } };
C16_MKM(2,2) C16_MKM(2,3) C16_MKM(2,4) C16_MKM(3,2) C16_MKM(3,3) C16_MKM(3,4) C16_MKM(4,2) C16_MKM(4,3) C16_MKM(4,4)
template<int C> struct MkSq;
template<> struct MkSq<2>{ template<class T> static glm::mat<2,2,T,glm::defaultp> ptr(const T* p){ return glm::make_mat2(p); } };
template<> struct MkSq<3>{ template<class T> static glm::mat<3,3,T,glm::defaultp> ptr(const T* p){ return glm::make_mat3(p); } };
template<> struct MkSq<4>{ template<class T> static glm::mat<4,4,T,glm::defaultp> ptr(const T* p){ return glm::make_mat4(p); } };

// ================================================================ vec<L,T,Q>
template<int L,class T,int QI> static void vec_facts(const u64* raw,vf::Ctx& c){
	static const glm::qualifier Q=QOf<QI>::q; typedef glm::vec<L,T,Q> V; typedef typename V::length_type LT; const bool AL= QI>=3; const Pre P{"vec",L,0,QI};
	reached(c,P);
	T tg[4][16]; tags<T>(tg,4,raw,4,1);   // tags of the four write phases
	// ---- size / alignment
	gen_size(c,P,AL,sizeof(V),alignof(V),L,sizeof(T),alignof(T),"sizeof-not-L*sizeof(T)","sizeof-less-than-L*sizeof(T)");
	if(AL && std::is_same<T,float>::value && L>=2){   // the numeric facts of the statement
		eqn(c,P,L==2? "float:sizeof-not-8":"float:sizeof-not-16",sizeof(V),L==2? 8:16);
		eqn(c,P,L==2? "float:alignof-not-8":"float:alignof-not-16",alignof(V),L==2? 8:16);
	}
	// ---- length()
	len_type(c,P,std::is_same<decltype(V::length()),want_length_t>::value && std::is_same<LT,want_length_t>::value && std::is_same<glm::length_t,want_length_t>::value,TName<decltype(V::length())>::n(),TName<LT>::n(),TName<glm::length_t>::n());
	Box<V> box; box.poison(0x5A); V* v=hide(new (box.obj()) V); const V* cv=v;
	{ long long n=(long long)hide(v)->length(); eqn(c,P,"length()-not-component-count",n,L); if(n!=L) return; }   // glm asserts i < length(): never index beyond what it reports
	// ---- addresses
	bool addr_ok=true, vp_ok=true;
	T* mp[4]={0,0,0,0}; Mem<L>::template ptrs<V,T>(*v,mp);
	for(int i=0;i<L;i++) at(c,P,MEMBER_AT[i],mp[i],v,(long long)(i*sizeof(T)),addr_ok);
#if !C16_XYZW_ONLY
	{ T* cp[4]; T* sp[4]; bool dummy; Mem<L>::template alias<V,T>(*v,cp,sp);
	  for(int i=0;i<L;i++){ at(c,P,"member-offset:rgba-not-aliasing-xyzw",cp[i],mp[i],0,dummy); at(c,P,"member-offset:stpq-not-aliasing-xyzw",sp[i],mp[i],0,dummy); } }
#endif
	for(int i=0;i<L;i++){
		at(c,P,"index-address:&v[i]-not-&v[0]+i",&(*v)[(LT)i],&(*v)[0],(long long)(i*sizeof(T)),addr_ok);
		at(c,P,"index-address:&v[i]-not-&v.x+i",&(*v)[(LT)i],mp[0],(long long)(i*sizeof(T)),addr_ok);
		at(c,P,"index-address:const:&v[i]-not-&v.x+i",&(*cv)[(LT)i],mp[0],(long long)(i*sizeof(T)),addr_ok);
	}
	at(c,P,"value_ptr-not-&v.x",glm::value_ptr(*v),mp[0],0,vp_ok);
	at(c,P,"value_ptr:const-not-&v.x",glm::value_ptr(*cv),mp[0],0,vp_ok);
	if(!addr_ok) return;   // never write through addresses that are not where the contract puts them
	T got[16];
	// ---- phase 0: write operator[] -> read members, value_ptr, bytes
	box.poison(0x5A); v=hide(v);
	for(int i=0;i<L;i++) (*v)[(LT)i]=tg[0][i];
	v=hide(v); cv=v;
	Mem<L>::template ptrs<V,T>(*v,mp); for(int i=0;i<L;i++) got[i]=*mp[i];
	cmp(c,P,"write[]:read-member:mismatch",got,tg[0],L);
	if(vp_ok){ const T* p=glm::value_ptr(*cv); for(int i=0;i<L;i++) got[i]=p[i]; cmp(c,P,"write[]:read-value_ptr:mismatch",got,tg[0],L); }
	memcpy((void*)got,box.obj(),L*sizeof(T)); cmp(c,P,"write[]:byte-image-not-tags-in-order",got,tg[0],L);
	box.guards(c,P,"write[]:bytes-outside-object-changed");
	// ---- phase 1: write members -> read operator[] (const), bytes
	box.poison(0x3C); v=hide(v); Mem<L>::template ptrs<V,T>(*v,mp);
	for(int i=0;i<L;i++) *mp[i]=tg[1][i];
	v=hide(v); cv=v;
	for(int i=0;i<L;i++) got[i]=(*cv)[(LT)i];
	cmp(c,P,"write-member:read[]:mismatch",got,tg[1],L);
	memcpy((void*)got,box.obj(),L*sizeof(T)); cmp(c,P,"write-member:byte-image-not-tags-in-order",got,tg[1],L);
	// ---- phase 2: write through value_ptr -> read operator[]
	if(vp_ok){
		box.poison(0xC3); v=hide(v); T* p=glm::value_ptr(*v);
		for(int i=0;i<L;i++) p[i]=tg[2][i];
		v=hide(v); cv=v;
		for(int i=0;i<L;i++) got[i]=(*cv)[(LT)i];
		cmp(c,P,"write-value_ptr:read[]:mismatch",got,tg[2],L);
		box.guards(c,P,"write-value_ptr:bytes-outside-object-changed");
	}
	// ---- phase 3: raw bytes -> read operator[] and members; builders
	box.poison(0x99); memcpy(box.obj(),(const void*)tg[3],L*sizeof(T)); v=hide(v); cv=v;
	for(int i=0;i<L;i++) got[i]=(*cv)[(LT)i];
	cmp(c,P,"write-bytes:read[]:mismatch",got,tg[3],L);
	Mem<L>::template ptrs<V,T>(*v,mp); for(int i=0;i<L;i++) got[i]=*mp[i];
	cmp(c,P,"write-bytes:read-member:mismatch",got,tg[3],L);
	{ V r=MkS<L>::same(*cv); memcpy((void*)got,(const void*)&r,L*sizeof(T)); cmp(c,P,"make_vecL(vecL):changed",got,tg[3],L); }
	if constexpr(QI==DEFAULT_QI && L>=2){ if(vp_ok){
		// object -> raw array (as many T as the object occupies, so the builder's memcpy stays inside it) -> object
		enum { NA=sizeof(V)/sizeof(T) + 4 }; T arr[NA+1]; memset((void*)arr,0,sizeof arr); T* base=t_aligned_only(arr); memcpy((void*)base,(const void*)glm::value_ptr(*cv),sizeof(V)); const T* ap=hide((const T*)base);
		glm::vec<L,T,glm::defaultp> r=MkV<L>::ptr(ap); const T* rp=glm::value_ptr(r); for(int i=0;i<L;i++) got[i]=rp[i];
		cmp(c,P,"make_vecL(ptr):round-trip-changed",got,tg[3],L);
	} }
}

// ================================================================ mat<C,R,T,Q>
template<int C,int R,class T,int QI> static void mat_facts(const u64* raw,vf::Ctx& c){
	static const glm::qualifier Q=QOf<QI>::q; typedef glm::mat<C,R,T,Q> M; typedef glm::vec<R,T,Q> Col; const bool AL= QI>=3; const Pre P{"mat",C,R,QI};
	reached(c,P);
	typedef typename M::length_type LT;
	const int N=C*R; T tg[3][16]; tags<T>(tg,3,raw,16,5);
	if(!std::is_same<typename M::col_type,glm::vec<R,T,Q> >::value) F_txt(c,P,"col_type-not-vec<R,T,Q>","other type","vec<R,T,Q>");
	if(!std::is_same<typename M::row_type,glm::vec<C,T,Q> >::value) F_txt(c,P,"row_type-not-vec<C,T,Q>","other type","vec<C,T,Q>");
	// ---- size / alignment; S = distance between columns in units of T according to the contract
	const size_t colbytes= AL? sizeof(Col) : R*sizeof(T);
	if(!AL) gen_size(c,P,false,sizeof(M),alignof(M),N,sizeof(T),alignof(T),"sizeof-not-C*R*sizeof(T)","");
	else { eqn(c,P,"sizeof-not-C*sizeof(aligned-column)",sizeof(M),C*sizeof(Col)); if(!pow2(alignof(M)) || alignof(M)<alignof(Col)) F_num(c,P,"alignof-less-than-alignof(aligned-column)",alignof(M),alignof(Col)); }
	const size_t S=colbytes/sizeof(T);
	len_type(c,P,std::is_same<decltype(M::length()),want_length_t>::value && std::is_same<LT,want_length_t>::value,TName<decltype(M::length())>::n(),TName<LT>::n(),TName<glm::length_t>::n());
	Box<M> box; box.poison(0x5A); M* m=hide(new (box.obj()) M); const M* cm=m;
	{ long long n=(long long)hide(m)->length(), k=(long long)(*hide(m))[0].length(); eqn(c,P,"length()-not-column-count",n,C); eqn(c,P,"column-length()-not-row-count",k,R); if(n!=C||k!=R) return; }   // glm asserts i < length()
	// ---- addresses
	bool addr_ok=true, vp_ok=true;
	for(int cc=0;cc<C;cc++){
		at(c,P,"column-address:&m[c]-not-base+c*column-size",&(*m)[(LT)cc],m,(long long)(cc*colbytes),addr_ok);
		at(c,P,"column-address:const:&m[c]-not-base+c*column-size",&(*cm)[(LT)cc],m,(long long)(cc*colbytes),addr_ok);
		for(int r=0;r<R;r++){
			at(c,P,AL? "element-address:&m[c][r]-not-base+c*stride+r":"element-address:&m[c][r]-not-base+(c*R+r)",&(*m)[(LT)cc][(LT)r],m,(long long)((cc*S+r)*sizeof(T)),addr_ok);
			at(c,P,AL? "element-address:const:&m[c][r]-not-base+c*stride+r":"element-address:const:&m[c][r]-not-base+(c*R+r)",&(*cm)[(LT)cc][(LT)r],m,(long long)((cc*S+r)*sizeof(T)),addr_ok);
		}
	}
	at(c,P,"value_ptr-not-&m[0][0]",glm::value_ptr(*m),m,0,vp_ok);
	at(c,P,"value_ptr:const-not-&m[0][0]",glm::value_ptr(*cm),m,0,vp_ok);
	if(!addr_ok) return;
	T got[16];
	// ---- phase 0: write m[c][r] -> read value_ptr(m)[c*S+r], bytes
	box.poison(0x5A); m=hide(m);
	for(int cc=0;cc<C;cc++) for(int r=0;r<R;r++) (*m)[(LT)cc][(LT)r]=tg[0][cc*R+r];
	m=hide(m); cm=m;
	if(vp_ok){ const T* p=glm::value_ptr(*cm); for(int cc=0;cc<C;cc++) for(int r=0;r<R;r++) got[cc*R+r]=p[cc*S+r];
	  cmp(c,P,AL? "write-m[c][r]:value_ptr[c*stride+r]-mismatch":"write-m[c][r]:value_ptr[c*R+r]-mismatch",got,tg[0],N); }
	for(int cc=0;cc<C;cc++) memcpy((void*)&got[cc*R],box.obj()+cc*colbytes,R*sizeof(T));
	cmp(c,P,"write-m[c][r]:byte-image-not-column-major",got,tg[0],N);
	box.guards(c,P,"write-m[c][r]:bytes-outside-object-changed");
	// ---- phase 1: write through value_ptr -> read m[c][r] (const)
	if(vp_ok){
		box.poison(0xC3); m=hide(m); T* p=glm::value_ptr(*m);
		for(int cc=0;cc<C;cc++) for(int r=0;r<R;r++) p[cc*S+r]=tg[1][cc*R+r];
		m=hide(m); cm=m;
		for(int cc=0;cc<C;cc++) for(int r=0;r<R;r++) got[cc*R+r]=(*cm)[(LT)cc][(LT)r];
		cmp(c,P,AL? "write-value_ptr[c*stride+r]:m[c][r]-mismatch":"write-value_ptr[c*R+r]:m[c][r]-mismatch",got,tg[1],N);
		box.guards(c,P,"write-value_ptr:bytes-outside-object-changed");
	}
	// ---- phase 2: raw bytes (column-major) -> read m[c][r]; builders
	box.poison(0x99); for(int cc=0;cc<C;cc++) memcpy(box.obj()+cc*colbytes,(const void*)&tg[2][cc*R],R*sizeof(T)); m=hide(m); cm=m;
	for(int cc=0;cc<C;cc++) for(int r=0;r<R;r++) got[cc*R+r]=(*cm)[(LT)cc][(LT)r];
	cmp(c,P,"write-bytes:m[c][r]-mismatch",got,tg[2],N);
	if constexpr(QI==DEFAULT_QI){ if(vp_ok){
		enum { NA=sizeof(M)/sizeof(T) + 8 }; T arr[NA+1]; memset((void*)arr,0,sizeof arr); T* base=t_aligned_only(arr); memcpy((void*)base,(const void*)glm::value_ptr(*cm),sizeof(M)); const T* ap=hide((const T*)base);
		{ glm::mat<C,R,T,glm::defaultp> r=MkM<C,R>::ptr(ap); for(int cc=0;cc<C;cc++) for(int rr=0;rr<R;rr++) got[cc*R+rr]=r[(LT)cc][(LT)rr];
		  cmp(c,P,"make_matCxR(ptr):round-trip-changed",got,tg[2],N); }
		if constexpr(C==R){ glm::mat<C,R,T,glm::defaultp> r=MkSq<C>::ptr(ap); for(int cc=0;cc<C;cc++) for(int rr=0;rr<R;rr++) got[cc*R+rr]=r[(LT)cc][(LT)rr];
		  cmp(c,P,"make_matC(ptr):round-trip-changed",got,tg[2],N); }
	} }
}

// ================================================================ qua<T,Q>
template<class T,int QI> static void qua_facts(const u64* raw,vf::Ctx& c){
	static const glm::qualifier Q=QOf<QI>::q; typedef glm::qua<T,Q> QT; const bool AL= QI>=3; const Pre P{"quat",0,0,QI};
	reached(c,P);
	typedef typename QT::length_type LT;
	T tg[4][16]; tags<T>(tg,4,raw,4,1);
	gen_size(c,P,AL,sizeof(QT),alignof(QT),4,sizeof(T),alignof(T),"sizeof-not-4*sizeof(T)","sizeof-less-than-4*sizeof(T)");
	len_type(c,P,std::is_same<decltype(QT::length()),want_length_t>::value && std::is_same<LT,want_length_t>::value,TName<decltype(QT::length())>::n(),TName<LT>::n(),TName<glm::length_t>::n());
	Box<QT> box; box.poison(0x5A); QT* q=hide(new (box.obj()) QT); const QT* cq=q;
	{ long long n=(long long)hide(q)->length(); eqn(c,P,"length()-not-4",n,4); if(n!=4) return; }
	// ---- member order
	bool addr_ok=true, vp_ok=true;
	at(c,P,"member-order:x-not-at-configured-position",&q->x,q,(long long)(QX*sizeof(T)),addr_ok);
	at(c,P,"member-order:y-not-at-configured-position",&q->y,q,(long long)(QY*sizeof(T)),addr_ok);
	at(c,P,"member-order:z-not-at-configured-position",&q->z,q,(long long)(QZ*sizeof(T)),addr_ok);
	at(c,P,"member-order:w-not-at-configured-position",&q->w,q,(long long)(QW*sizeof(T)),addr_ok);
	for(int i=0;i<4;i++){
		at(c,P,"index-address:&q[i]-not-base+i",&(*q)[(LT)i],q,(long long)(i*sizeof(T)),addr_ok);
		at(c,P,"index-address:const:&q[i]-not-base+i",&(*cq)[(LT)i],q,(long long)(i*sizeof(T)),addr_ok); }
	at(c,P,"value_ptr-not-&q[0]",glm::value_ptr(*q),q,0,vp_ok);
	at(c,P,"value_ptr:const-not-&q[0]",glm::value_ptr(*cq),q,0,vp_ok);
	if(!addr_ok) return;
	T got[16];
	// ---- phase 0: write q[i] -> read members in the configured order, value_ptr, bytes
	box.poison(0x5A); q=hide(q); for(int i=0;i<4;i++) (*q)[(LT)i]=tg[0][i]; q=hide(q); cq=q;
	got[QX]=q->x; got[QY]=q->y; got[QZ]=q->z; got[QW]=q->w;
	cmp(c,P,"write[]:read-member:not-configured-order",got,tg[0],4);
	if(vp_ok){ const T* p=glm::value_ptr(*cq); for(int i=0;i<4;i++) got[i]=p[i]; cmp(c,P,"write[]:read-value_ptr:mismatch",got,tg[0],4); }
	memcpy((void*)got,box.obj(),4*sizeof(T)); cmp(c,P,"write[]:byte-image-not-tags-in-order",got,tg[0],4);
	box.guards(c,P,"write[]:bytes-outside-object-changed");
	// ---- phase 1: write members -> read q[i] const, bytes
	box.poison(0x3C); q=hide(q); q->x=tg[1][QX]; q->y=tg[1][QY]; q->z=tg[1][QZ]; q->w=tg[1][QW]; q=hide(q); cq=q;
	for(int i=0;i<4;i++) got[i]=(*cq)[(LT)i];
	cmp(c,P,"write-member:read[]:not-configured-order",got,tg[1],4);
	memcpy((void*)got,box.obj(),4*sizeof(T)); cmp(c,P,"write-member:byte-image-not-configured-order",got,tg[1],4);
	// ---- phase 2: write value_ptr -> read q[i]
	if(vp_ok){ box.poison(0xC3); q=hide(q); T* p=glm::value_ptr(*q); for(int i=0;i<4;i++) p[i]=tg[2][i]; q=hide(q); cq=q;
	  for(int i=0;i<4;i++) got[i]=(*cq)[(LT)i];
	  cmp(c,P,"write-value_ptr:read[]:mismatch",got,tg[2],4);
	  box.guards(c,P,"write-value_ptr:bytes-outside-object-changed"); }
	// ---- phase 3: bytes -> members; make_quat
	box.poison(0x99); memcpy(box.obj(),(const void*)tg[3],4*sizeof(T)); q=hide(q); cq=q;
	got[QX]=cq->x; got[QY]=cq->y; got[QZ]=cq->z; got[QW]=cq->w;
	cmp(c,P,"write-bytes:read-member:not-configured-order",got,tg[3],4);
	if constexpr(QI==DEFAULT_QI){ if(vp_ok){
		enum { NA=sizeof(QT)/sizeof(T) + 4 }; T arr[NA+1]; memset((void*)arr,0,sizeof arr); T* base=t_aligned_only(arr); memcpy((void*)base,(const void*)glm::value_ptr(*cq),sizeof(QT)); const T* ap=hide((const T*)base);
		glm::qua<T,glm::defaultp> r=glm::make_quat(ap); got[QX]=r.x; got[QY]=r.y; got[QZ]=r.z; got[QW]=r.w;
		cmp(c,P,"make_quat(ptr):round-trip-changed",got,tg[3],4);
	} }
}

// ---------------------------------------------------------------- input records and dispatch
struct InV { u64 raw[4];  u8 L, qi, pat, pad[5]; };
struct InM { u64 raw[16]; u8 C, R, qi, pat, pad[4]; };
struct InQ { u64 raw[4];  u8 qi, pat, pad[6]; };
#define FMT_V "qqqqbbbbbbbb"
#define FMT_M "qqqqqqqqqqqqqqqqbbbbbbbb"
#define FMT_Q "qqqqbbbbbbbb"

template<class T,int QI> static void vec_q(const InV& in,vf::Ctx& c){
	switch(in.L){ case 1: vec_facts<1,T,QI>(in.raw,c); break; case 2: vec_facts<2,T,QI>(in.raw,c); break; case 3: vec_facts<3,T,QI>(in.raw,c); break; case 4: vec_facts<4,T,QI>(in.raw,c); break; default: c.cls("ignored:bad-selector"); } }
template<class T,int QI> static void mat_q(const InM& in,vf::Ctx& c){
	switch(in.C*10+in.R){
		case 22: mat_facts<2,2,T,QI>(in.raw,c); break; case 23: mat_facts<2,3,T,QI>(in.raw,c); break; case 24: mat_facts<2,4,T,QI>(in.raw,c); break;
		case 32: mat_facts<3,2,T,QI>(in.raw,c); break; case 33: mat_facts<3,3,T,QI>(in.raw,c); break; case 34: mat_facts<3,4,T,QI>(in.raw,c); break;
		case 42: mat_facts<4,2,T,QI>(in.raw,c); break; case 43: mat_facts<4,3,T,QI>(in.raw,c); break; case 44: mat_facts<4,4,T,QI>(in.raw,c); break;
		default: c.cls("ignored:bad-selector"); } }
template<class T> static void vec_d(const InV& in,vf::Ctx& c){
	switch(in.qi){ case 0: vec_q<T,0>(in,c); break;
#if !C16_LEAN
		case 1: vec_q<T,1>(in,c); break; case 2: vec_q<T,2>(in,c); break;
#endif
#if C16_ALIGNED
		case 3: vec_q<T,3>(in,c); break;
#if !C16_LEAN
		case 4: vec_q<T,4>(in,c); break; case 5: vec_q<T,5>(in,c); break;
#endif
#endif
		default: c.cls("ignored:qualifier-not-available-in-this-configuration"); } }
template<class T> static void mat_d(const InM& in,vf::Ctx& c){
	switch(in.qi){ case 0: mat_q<T,0>(in,c); break;
#if !C16_LEAN
		case 1: mat_q<T,1>(in,c); break; case 2: mat_q<T,2>(in,c); break;
#endif
#if C16_ALIGNED
		case 3: mat_q<T,3>(in,c); break;
#if !C16_LEAN
		case 4: mat_q<T,4>(in,c); break; case 5: mat_q<T,5>(in,c); break;
#endif
#endif
		default: c.cls("ignored:qualifier-not-available-in-this-configuration"); } }
template<class T> static void qua_d(const InQ& in,vf::Ctx& c){
	switch(in.qi){ case 0: qua_facts<T,0>(in.raw,c); break;
#if !C16_LEAN
		case 1: qua_facts<T,1>(in.raw,c); break; case 2: qua_facts<T,2>(in.raw,c); break;
#endif
#if C16_ALIGNED
		case 3: qua_facts<T,3>(in.raw,c); break;
#if !C16_LEAN
		case 4: qua_facts<T,4>(in.raw,c); break; case 5: qua_facts<T,5>(in.raw,c); break;
#endif
#endif
		default: c.cls("ignored:qualifier-not-available-in-this-configuration"); } }

#define C16_TYPE(N,T) \
	VF_OP(vec_##N,InV,FMT_V){ vec_d<T>(in,c); } \
	VF_OP(mat_##N,InM,FMT_M){ mat_d<T>(in,c); } \
	VF_OP(qua_##N,InQ,FMT_Q){ qua_d<T>(in,c); }
C16_TYPE(bool,bool)
C16_TYPE(i8,glm::int8)   C16_TYPE(u8,glm::uint8)
C16_TYPE(i16,glm::int16) C16_TYPE(u16,glm::uint16)
C16_TYPE(i32,glm::int32) C16_TYPE(u32,glm::uint32)
C16_TYPE(i64,glm::int64) C16_TYPE(u64,glm::uint64)
C16_TYPE(f32,float)      C16_TYPE(f64,double)

// ================================================================ named types (typedef names of the documentation) and the manual's struct
struct Named { const char* name; size_t size, align, want_size, want_align; bool same; };   // want_align 0 = not constrained
template<class A,class B> static Named named(const char* n,size_t ws,size_t wa){ Named r={n,sizeof(A),alignof(A),ws,wa,std::is_same<A,B>::value}; return r; }
#define NM_P(NAME,L,T,Q)   named<glm::NAME,glm::vec<L,T,glm::Q> >(#NAME,L*sizeof(T),alignof(T))
#define NM_PM(NAME,C,R,T,Q) named<glm::NAME,glm::mat<C,R,T,glm::Q> >(#NAME,C*R*sizeof(T),alignof(T))
#define NM_PQ(NAME,T,Q)    named<glm::NAME,glm::qua<T,glm::Q> >(#NAME,4*sizeof(T),alignof(T))
#define NM_A(NAME,L,T,Q,WS,WA) named<glm::NAME,glm::vec<L,T,glm::Q> >(#NAME,WS,WA)
#define NM_AM(NAME,C,R,T,Q) named<glm::NAME,glm::mat<C,R,T,glm::Q> >(#NAME,C*sizeof(glm::vec<R,T,glm::Q>),0)
// every documented vec/mat/qua typedef name (864: core/ext, gtc/type_precision.hpp, gtc/type_aligned.hpp), generated from the naming convention
// names with the default qualifier: packed, or aligned_highp when GLM_FORCE_DEFAULT_ALIGNED_GENTYPES is effective
#if C16_ALIGNED && defined(GLM_FORCE_DEFAULT_ALIGNED_GENTYPES)
template<int L,class T> struct DocA { enum { S= (std::is_same<T,float>::value&&L==2)? 8: (std::is_same<T,float>::value&&L>=3)? 16: 0 }; };
#define ND_V(NAME,L,T) t.push_back(named<glm::NAME,glm::vec<L,T,glm::aligned_highp> >(#NAME,DocA<L,T>::S,DocA<L,T>::S));
#define ND_M(NAME,C,R,T) t.push_back(NM_AM(NAME,C,R,T,aligned_highp));
#define ND_Q(NAME,T) t.push_back((named<glm::NAME,glm::qua<T,glm::aligned_highp> >(#NAME,0,0)));
#else
#define ND_V(NAME,L,T) t.push_back(NM_P(NAME,L,T,packed_highp));
#define ND_M(NAME,C,R,T) t.push_back(NM_PM(NAME,C,R,T,packed_highp));
#define ND_Q(NAME,T) t.push_back(NM_PQ(NAME,T,packed_highp));
#endif
static std::vector<Named> named_table(){
	std::vector<Named> t;
#include "C16_names.inc"
	return t;
}
static const std::vector<Named>& NT(){ static const std::vector<Named> t=named_table(); return t; }
struct InN { u32 idx; u32 salt; };
VF_OP(named_types,InN,"uu"){
	const std::vector<Named>& t=NT(); if(in.idx>=t.size()){ c.cls("ignored:bad-selector"); return; }
	const Named& n=t[in.idx]; std::string P=std::string("typedef:")+n.name+":";
	if(!n.same) c.fail(P+"not-the-documented-vec/mat/qua-instantiation",std::string("other type"),std::string("documented instantiation"));
	if(n.want_size && n.size!=n.want_size) c.fail(P+"sizeof-not-documented",shw((unsigned long long)n.size),shw((unsigned long long)n.want_size));
	if(n.want_align && n.align!=n.want_align) c.fail(P+"alignof-not-documented",shw((unsigned long long)n.align),shw((unsigned long long)n.want_align));
}
// manual section 2.10
struct ManualStruct { glm::vec4 a; float b; glm::vec3 c; };
struct InS { float t[8]; };
VF_OP(manual_struct,InS,"ffffffff"){
	const size_t want= (C16_ALIGNED && DEFAULT_QI==3)? 48 : 32;
	if(sizeof(ManualStruct)!=want) c.fail(DEFAULT_QI==3? "default-aligned:struct{vec4;float;vec3}:sizeof-not-48":"packed:struct{vec4;float;vec3}:sizeof-not-32",shw((unsigned long long)sizeof(ManualStruct)),shw((unsigned long long)want));
	Box<ManualStruct> box; box.poison(0x5A); ManualStruct* s=hide(new (box.obj()) ManualStruct);
	for(int i=0;i<4;i++) s->a[i]=in.t[i]; s->b=in.t[4]; for(int i=0;i<3;i++) s->c[i]=in.t[5+i]; s=hide(s);
	float got[8]; memcpy(got,glm::value_ptr(s->a),16); got[4]=s->b; memcpy(got+5,glm::value_ptr(s->c),12);
	for(int i=0;i<8;i++) if(!eq(got[i],in.t[i])){ c.fail("struct{vec4;float;vec3}:members-overlap-or-reordered",shw_arr(got,8),shw_arr(in.t,8)); break; }
	{ const Pre P{"manual-struct",0,0,DEFAULT_QI}; box.guards(c,P,"struct{vec4;float;vec3}:bytes-outside-object-changed"); }
}

// ---------------------------------------------------------------- workload
// tag patterns: 0 random words, 1 ramp base+i*odd (all elements distinct even for 8-bit types), 2 one-hot (one element all-ones, others 0: bool order),
// 3 one element 0 others all-ones, 4 byte ramp
static void fill_tags(vf::Rng& r,u64* raw,int n,int pat){
	switch(pat){
		default: case 0: for(int i=0;i<n;i++) raw[i]=r.next(); break;
		case 1: { u64 b=r.next(), odd=(r.next()&14)|1; for(int i=0;i<n;i++) raw[i]=b+odd*(u64)i*0x0101010101010101ull; } break;
		case 2: { int k=(int)r.below(n); for(int i=0;i<n;i++) raw[i]= i==k? ~0ull: 0; } break;
		case 3: { int k=(int)r.below(n); for(int i=0;i<n;i++) raw[i]= i==k? 0: ~0ull; } break;
		case 4: { u64 b=r.next()&0xff; for(int i=0;i<n;i++){ u64 w=0; for(int k=0;k<8;k++) w|=((b+(u64)(i*8+k))&0xff)<<(8*k); raw[i]=w; } } break;
	}
}
struct TypeOps { vf::Op *v,*m,*q; };
static void workload(){
	TypeOps ops[]={ {&vec_bool,&mat_bool,&qua_bool},{&vec_i8,&mat_i8,&qua_i8},{&vec_u8,&mat_u8,&qua_u8},{&vec_i16,&mat_i16,&qua_i16},{&vec_u16,&mat_u16,&qua_u16},
		{&vec_i32,&mat_i32,&qua_i32},{&vec_u32,&mat_u32,&qua_u32},{&vec_i64,&mat_i64,&qua_i64},{&vec_u64,&mat_u64,&qua_u64},{&vec_f32,&mat_f32,&qua_f32},{&vec_f64,&mat_f64,&qua_f64} };
	const u64 n=vf::N(96,1536);   // tag sets per instantiation
	vf::parallel("C16_layout",[&](int t,int TT,vf::Ctx& c){
		for(u64 k=t;k<n;k+=TT){
			for(auto& o: ops){
				for(int qi=0;qi<NQ;qi++){ if(C16_LEAN && qi%3) continue;
					if(vf::want(*o.v)) for(int L=1;L<=4;L++){ InV in{}; in.L=(u8)L; in.qi=(u8)qi; in.pat=(u8)(k<5? k : c.rng.below(5)); fill_tags(c.rng,in.raw,4,in.pat); vf::run(c,*o.v,in); }
					if(vf::want(*o.m)) for(int C=2;C<=4;C++) for(int R=2;R<=4;R++){ InM in{}; in.C=(u8)C; in.R=(u8)R; in.qi=(u8)qi; in.pat=(u8)(k<5? k : c.rng.below(5)); fill_tags(c.rng,in.raw,16,in.pat); vf::run(c,*o.m,in); }
					if(vf::want(*o.q)){ InQ in{}; in.qi=(u8)qi; in.pat=(u8)(k<5? k : c.rng.below(5)); fill_tags(c.rng,in.raw,4,in.pat); vf::run(c,*o.q,in); }
				}
			}
			if(vf::want(named_types)) for(u32 i=0;i<NT().size();i++){ InN in{i,(u32)c.rng.next()}; vf::run(c,named_types,in); }
			if(vf::want(manual_struct)){ InS in; for(int i=0;i<8;i++) in.t[i]=Tag<float>::of(c.rng.next()); vf::run(c,manual_struct,in); }
		}
	});
	// what this configuration is (evidence)
	char b[512];
	snprintf(b,sizeof b,"qualifiers=%s aligned_types=%d default_qualifier=%s anonymous_struct=%d swizzle=%d xyzw_only=%d simd=%d arch=0x%x length_t=%s quat_order=%s ctor_init=%d lang=0x%x",
		C16_LEAN? "highp-only":"highp,mediump,lowp",(int)C16_ALIGNED,QNAMES[DEFAULT_QI],(int)(GLM_CONFIG_ANONYMOUS_STRUCT==GLM_ENABLE),(int)GLM_CONFIG_SWIZZLE,(int)C16_XYZW_ONLY,(int)(GLM_CONFIG_SIMD==GLM_ENABLE),(unsigned)GLM_ARCH,LENGTH_NAME,
		QW==0? "wxyz":"xyzw",(int)GLM_CONFIG_CTOR_INIT,(unsigned)GLM_LANG);
	vf::note("configuration",b);
#if C16_ALIGNED
	{ std::string s; char t[96];
#define C16_SZ(N,T) snprintf(t,sizeof t,"%s:%zu/%zu,%zu/%zu,%zu/%zu,%zu/%zu ",N,sizeof(glm::vec<1,T,glm::aligned_highp>),alignof(glm::vec<1,T,glm::aligned_highp>),sizeof(glm::vec<2,T,glm::aligned_highp>),alignof(glm::vec<2,T,glm::aligned_highp>),sizeof(glm::vec<3,T,glm::aligned_highp>),alignof(glm::vec<3,T,glm::aligned_highp>),sizeof(glm::vec<4,T,glm::aligned_highp>),alignof(glm::vec<4,T,glm::aligned_highp>)); s+=t;
	  C16_SZ("bool",bool) C16_SZ("i8",glm::int8) C16_SZ("i16",glm::int16) C16_SZ("i32",glm::int32) C16_SZ("u32",glm::uint32) C16_SZ("i64",glm::int64) C16_SZ("u64",glm::uint64) C16_SZ("f32",float) C16_SZ("f64",double)
	  vf::note("aligned_highp vec1..4 sizeof/alignof (observed, informational)",s); }
#endif
}
VF_MAIN("C16_layout")
