// C14 (part 1) — ULP stepping: nextFloat / prevFloat (1-step and n-step, scalar and vector, ext and gtc spellings)
// and floatDistance(x, nextFloat(x, n)) = n.
// oracle: integer arithmetic on the monotone index of the IEEE order (ref::ord: sign-magnitude -> signed integer,
// ord(+0)=ord(-0)=0, consecutive representable values differ by 1).  No glm code in the oracle.
//
// Reading of the statement at the ends of the finite range (documented, deliberately lenient):
//   nextFloat(+max) / prevFloat(-max): there is no finite value beyond; +-inf or x itself are both accepted.
//   n-step calls whose exact result would lie beyond +-max are not generated / not judged.
//   Results that are zero are accepted with either sign (+0 and -0 are the same value).
#include "vf.hpp"
#include "ref.hpp"
#include <glm/glm.hpp>
#include <glm/ext/scalar_ulp.hpp>
#include <glm/ext/vector_ulp.hpp>
#include <glm/gtc/ulp.hpp>
#include <limits>
using namespace ref;
typedef __int128 i128;

// ---------------------------------------------------------------- oracle helpers
template<class T> struct K;
template<> struct K<float>{ typedef i32 I; typedef i64 Wd; };
template<> struct K<double>{ typedef i64 I; typedef i128 Wd; };
template<class T> static inline typename K<T>::Wd word(T x){ return (typename K<T>::Wd)ord(x); }
template<class T> static inline typename K<T>::Wd OMAX(){ return word(std::numeric_limits<T>::max()); }
template<class T> static inline typename K<T>::Wd OMINN(){ return word(std::numeric_limits<T>::min()); }
// value with index o (|o| <= OMAX+1; OMAX+1 is infinity); index 0 gives +0
template<class T> static inline T unord(typename K<T>::Wd o){ typename K<T>::Wd M=OMAX<T>()+1; if(o>M) o=M; if(o<-M) o=-M; return from_ord<T>((typename fp<T>::I)o); }
template<class T> static const char* fine_class(T x){ typename K<T>::Wd o=word(x), M=OMAX<T>(); typedef typename fp<T>::U U;
	if(o==M) return "x=+max"; if(o==-M) return "x=-max"; if(o==0) return signbit_b(x)?"x=-0":"x=+0"; if(o==1) return "x=+denorm_min"; if(o==-1) return "x=-denorm_min";
	U mant=fp<T>::raw(x)&((U(1)<<fp<T>::MANT)-1); bool sub=issubnormal_b(x);
	if(o>0) return sub?"+subnormal":(mant==0?"+binade-boundary":"+normal"); return sub?"-subnormal":(mant==0?"-binade-boundary":"-normal"); }

// judge the result `got` of stepping x by n (n>=0) representable values in direction dir (+1 up, -1 down)
// judged=false when the call is outside the judged domain (exact result beyond +-max for an n-step call)
static const char* const RN[]={"neg-normal","neg-subnormal","zero","pos-subnormal","pos-normal"};   // normal: |x| >= min-normal
static const char* const ON[]={"returns-nan","x=max:neither-inf-nor-x","returns-x","moves-down","moves-up","too-few-steps","returns-inf","too-many-steps"};
template<class T> static inline int regime_i(typename K<T>::Wd o){ typename K<T>::Wd m=OMINN<T>(); return o>=m?4: o>0?3: o==0?2: o>-m?1: 0; }
struct Verdict { bool judged, ok; int ri, oi; };
template<class T> static inline Verdict assess(T x,int dir,i64 n,T got,bool single,typename K<T>::Wd& w){
	typedef typename K<T>::Wd Wd; Wd o=word(x), M=OMAX<T>(); w=o+(Wd)dir*(Wd)n; Verdict v{true,true,0,0};
	bool beyond=(w>M||w<-M);            // only x=+-max with a single step gets here (there is no finite value beyond): inf or x accepted
	if(beyond && !single){ v.judged=false; return v; }
	v.ri=regime_i<T>(o);
	if(isnan_b(got)){ v.ok=false; v.oi=0; return v; }
	Wd g=word(got);
	if(g==w || (beyond && g==o)) return v;
	v.ok=false; Wd moved=(g-o)*(Wd)dir;
	v.oi= moved==0? 2 : moved<0? (dir>0?3:4) : beyond? 1 : moved<(Wd)n? 5 : isinf_b(got)? 6 : 7;
	return v;
}
static inline std::string vclass(const Verdict& v){ return std::string(RN[v.ri])+":"+ON[v.oi]; }
template<class T> static bool judge_step(vf::Ctx& c,T x,int dir,i64 n,T got){
	typename K<T>::Wd w; Verdict v=assess<T>(x,dir,n,got,false,w); if(!v.judged) return false; if(!v.ok) c.fail(vclass(v),got,unord<T>(w)); return true;
}
// vector overloads: class = overload tag + observed behaviour (length and component index go into the witness text, not the key)
template<class T> static void judge_vec(vf::Ctx& c,const char* tag,int L,int comp,T x,int dir,i64 n,T got,bool single){
	typename K<T>::Wd w; Verdict v=assess<T>(x,dir,n,got,single,w); if(!v.judged||v.ok) return;
	c.fail(std::string("vec:")+tag+":"+ON[v.oi],"vec"+std::to_string(L)+"["+std::to_string(comp)+"]="+vf::show(got)+" for x="+vf::show(x)+" n="+std::to_string(n),vf::show(unord<T>(w)));
}
// Cheap path for the single-step operations (on the unchanged tree half of all floats violate prevFloat: building a class
// string for each would dominate the sweep).  The first three failures of each class per thread go through c.fail (witnesses);
// the rest are only counted and added to the same violation record by ff_flush().
struct FF { u64 total[40], flushed[40]; };
static thread_local FF g_ff[64];
static inline void ff_flush(vf::Ctx& c){ for(size_t id=0;id<c.st.size()&&id<64;id++) for(int code=0;code<40;code++){ FF& f=g_ff[id]; u64 extra= f.total[code]>3? f.total[code]-3-f.flushed[code] : 0;
	if(extra){ Verdict v{true,false,code/8,code%8}; c.st[id].viol[vclass(v)].count+=extra; f.flushed[code]+=extra; } } }
template<class T> static inline void judge_step1_fast(vf::Ctx& c,T x,int dir,T got){
	typename K<T>::Wd w; Verdict v=assess<T>(x,dir,1,got,true,w); if(v.ok) return;
	int id=vf::g_crumb.op->id; if(id<64){ u64& t=g_ff[id].total[v.ri*8+v.oi]; if(t++>=3) return; }
	c.fail(vclass(v),got,unord<T>(w));
}

// ---------------------------------------------------------------- the two spellings of the API
struct Ext {
	template<class A> static A next(const A& a){ return glm::nextFloat(a); }
	template<class A> static A prev(const A& a){ return glm::prevFloat(a); }
	template<class A,class N> static A next(const A& a,const N& n){ return glm::nextFloat(a,n); }
	template<class A,class N> static A prev(const A& a,const N& n){ return glm::prevFloat(a,n); }
	template<class A> static auto dist(const A& a,const A& b)->decltype(glm::floatDistance(a,b)){ return glm::floatDistance(a,b); }
};
struct Gtc {
	template<class A> static A next(const A& a){ return glm::next_float(a); }
	template<class A> static A prev(const A& a){ return glm::prev_float(a); }
	template<class A,class N> static A next(const A& a,const N& n){ return glm::next_float(a,n); }
	template<class A,class N> static A prev(const A& a,const N& n){ return glm::prev_float(a,n); }
	template<class A> static auto dist(const A& a,const A& b)->decltype(glm::float_distance(a,b)){ return glm::float_distance(a,b); }
};

template<class T> struct In1 { T x; };
template<class T> struct InN { T x; typename K<T>::I n; };
template<class T> struct InV { T x[4]; typename K<T>::I n[4]; };

// ---------------------------------------------------------------- scalar checks
template<class T,class Api,int dir> static void k_step1(const In1<T>& in,vf::Ctx& c){
	T got= dir>0? Api::next(in.x) : Api::prev(in.x);
	if(!c.enum_mode) c.cls(fine_class(in.x));
	judge_step1_fast<T>(c,in.x,dir,got);
}
template<class T,class Api,int dir> static void k_stepn(const InN<T>& in,vf::Ctx& c){
	typedef typename K<T>::Wd Wd; int n=(int)in.n; if(n<0) return; Wd o=word(in.x), w=o+(Wd)dir*n, M=OMAX<T>(); if(w>M||w<-M) return; // outside the judged domain
	T got= dir>0? Api::next(in.x,n) : Api::prev(in.x,n);
	c.cls(n==0?"n=0":(n==1?"n=1":(n<=64?"n=2..64":"n>64"))); if((o<0&&w>0)||(o>0&&w<0)) c.cls("crosses-zero"); if(o!=0&&w==0) c.cls("lands-on-zero"); if(o==0&&n>0) c.cls(signbit_b(in.x)?"starts-at--0":"starts-at-+0");
	judge_step<T>(c,in.x,dir,n,got);
	// "the n-step overloads equal n single steps" (relation between two glm functions stated by the property): same value
	// (same index in the IEEE order; +0 and -0 are the same value; NaN only matches NaN)
	T s=in.x; for(int i=0;i<n;i++) s= dir>0? Api::next(s) : Api::prev(s);
	bool eq= (isnan_b(got)||isnan_b(s))? (isnan_b(got)&&isnan_b(s)) : word(got)==word(s);
	if(!eq) c.fail(std::string(RN[regime_i<T>(o)])+":differs-from-n-single-steps",got,s);
}
// floatDistance(x, nextFloat(x, n)) = n
template<class T> static std::string dist_class(T x,T y){ if(signbit_b(x)==signbit_b(y)) return "same-signbit"; typename K<T>::Wd o=word(x), w=word(y);
	return std::string(o==0? (signbit_b(x)?"x=-0":"x=+0") : (o<0?"x<0":"x>0"))+","+(w==0? (signbit_b(y)?"y=-0":"y=+0") : (w<0?"y<0":"y>0")); }
template<class T,class Api> static void k_dist(const InN<T>& in,vf::Ctx& c){
	typedef typename K<T>::Wd Wd; int n=(int)in.n; if(n<0) return; Wd o=word(in.x), w=o+n, M=OMAX<T>(); if(w>M) return;
	T y=Api::next(in.x,n); if(isnan_b(y)||word(y)!=w){ y=unord<T>(w); c.cls("y-from-oracle(nextFloat-wrong)"); } // a wrong nextFloat is reported by its own operation
	auto got=Api::dist(in.x,y); std::string k=dist_class(in.x,y); c.cls(k.c_str());
	if((i64)got!=(i64)n) c.fail(k+":wrong-distance",(long long)got,(long long)n);
}

// ---------------------------------------------------------------- vector checks (every length 1..4; component k takes input k)
template<class T,class Api,int L,int dir> static void kv_step(const InV<T>& in,vf::Ctx& c){
	typedef glm::vec<L,T,glm::defaultp> V; typedef glm::vec<L,int,glm::defaultp> IV; typedef typename K<T>::Wd Wd;
	V v; IV nv; Wd M=OMAX<T>(); bool dom0=in.n[0]>=0, domv=true;
	for(int i=0;i<L;i++){ v[i]=in.x[i]; nv[i]=(int)in.n[i]; if(in.n[i]<0) domv=false; }
	V g1= dir>0? Api::next(v) : Api::prev(v);
	for(int i=0;i<L;i++) judge_vec<T>(c,"1-step",L,i,in.x[i],dir,1,g1[i],true);
	if(dom0){ int n0=(int)in.n[0]; V g2= dir>0? Api::next(v,n0) : Api::prev(v,n0); for(int i=0;i<L;i++) judge_vec<T>(c,"n-int",L,i,in.x[i],dir,n0,g2[i],false); }
	if(domv){ V g3= dir>0? Api::next(v,nv) : Api::prev(v,nv); for(int i=0;i<L;i++) judge_vec<T>(c,"n-ivec",L,i,in.x[i],dir,in.n[i],g3[i],false); }
	(void)M;
}
template<class T,class Api,int dir> static void kv_step_all(const InV<T>& in,vf::Ctx& c){ kv_step<T,Api,1,dir>(in,c); kv_step<T,Api,2,dir>(in,c); kv_step<T,Api,3,dir>(in,c); kv_step<T,Api,4,dir>(in,c); }
template<class T,class Api,int L> static void kv_dist(const InV<T>& in,vf::Ctx& c){
	typedef glm::vec<L,T,glm::defaultp> V; typedef typename K<T>::Wd Wd; V x,y; Wd M=OMAX<T>(); bool ok[4];
	for(int i=0;i<L;i++){ x[i]=in.x[i]; Wd w=word(in.x[i])+(Wd)in.n[i]; ok[i]= in.n[i]>=0 && w<=M; y[i]= ok[i]? unord<T>(w) : in.x[i];
		if(ok[i]&&in.n[i]>0){ T s=Api::next(in.x[i],(int)in.n[i]); if(!isnan_b(s)&&word(s)==w) y[i]=s; } else if(ok[i]) y[i]=in.x[i]; }
	auto g=Api::dist(x,y);
	for(int i=0;i<L;i++){ if(!ok[i]) continue; if((i64)g[i]!=(i64)in.n[i]) c.fail("vec:"+dist_class<T>(x[i],y[i])+":wrong-distance","vec"+std::to_string(L)+"["+std::to_string(i)+"]="+std::to_string((long long)g[i])+" for x="+vf::show(x[i])+" y="+vf::show(y[i]),std::to_string((long long)in.n[i])); }
}
template<class T,class Api> static void kv_dist_all(const InV<T>& in,vf::Ctx& c){ kv_dist<T,Api,1>(in,c); kv_dist<T,Api,2>(in,c); kv_dist<T,Api,3>(in,c); kv_dist<T,Api,4>(in,c); }

// ---------------------------------------------------------------- operations
#define OPS_FOR(T,SFX,F1,FN,FV) \
	VF_OP(nextFloat_##SFX, In1<T>, F1){ k_step1<T,Ext,+1>(in,c); } \
	VF_OP(prevFloat_##SFX, In1<T>, F1){ k_step1<T,Ext,-1>(in,c); } \
	VF_OP(next_float_gtc_##SFX, In1<T>, F1){ k_step1<T,Gtc,+1>(in,c); } \
	VF_OP(prev_float_gtc_##SFX, In1<T>, F1){ k_step1<T,Gtc,-1>(in,c); } \
	VF_OP(nextFloat_n_##SFX, InN<T>, FN){ k_stepn<T,Ext,+1>(in,c); } \
	VF_OP(prevFloat_n_##SFX, InN<T>, FN){ k_stepn<T,Ext,-1>(in,c); } \
	VF_OP(next_float_gtc_n_##SFX, InN<T>, FN){ k_stepn<T,Gtc,+1>(in,c); } \
	VF_OP(prev_float_gtc_n_##SFX, InN<T>, FN){ k_stepn<T,Gtc,-1>(in,c); } \
	VF_OP(floatDistance_of_nextFloat_##SFX, InN<T>, FN){ k_dist<T,Ext>(in,c); } \
	VF_OP(float_distance_gtc_of_next_float_##SFX, InN<T>, FN){ k_dist<T,Gtc>(in,c); } \
	VF_OP(nextFloat_vec_##SFX, InV<T>, FV){ kv_step_all<T,Ext,+1>(in,c); } \
	VF_OP(prevFloat_vec_##SFX, InV<T>, FV){ kv_step_all<T,Ext,-1>(in,c); } \
	VF_OP(next_float_gtc_vec_##SFX, InV<T>, FV){ kv_step_all<T,Gtc,+1>(in,c); } \
	VF_OP(prev_float_gtc_vec_##SFX, InV<T>, FV){ kv_step_all<T,Gtc,-1>(in,c); } \
	VF_OP(floatDistance_vec_##SFX, InV<T>, FV){ kv_dist_all<T,Ext>(in,c); } \
	VF_OP(float_distance_gtc_vec_##SFX, InV<T>, FV){ kv_dist_all<T,Gtc>(in,c); }
OPS_FOR(float, f32, "f", "fi", "ffffiiii")
OPS_FOR(double, f64, "d", "dl", "ddddllll")

template<class T> struct Ops;
#define OPS_STRUCT(T,SFX) template<> struct Ops<T>{ \
	static vf::Op& next1(){ return nextFloat_##SFX; } static vf::Op& prev1(){ return prevFloat_##SFX; } static vf::Op& gnext1(){ return next_float_gtc_##SFX; } static vf::Op& gprev1(){ return prev_float_gtc_##SFX; } \
	static vf::Op& nextn(){ return nextFloat_n_##SFX; } static vf::Op& prevn(){ return prevFloat_n_##SFX; } static vf::Op& gnextn(){ return next_float_gtc_n_##SFX; } static vf::Op& gprevn(){ return prev_float_gtc_n_##SFX; } \
	static vf::Op& dist(){ return floatDistance_of_nextFloat_##SFX; } static vf::Op& gdist(){ return float_distance_gtc_of_next_float_##SFX; } \
	static vf::Op& vnext(){ return nextFloat_vec_##SFX; } static vf::Op& vprev(){ return prevFloat_vec_##SFX; } static vf::Op& gvnext(){ return next_float_gtc_vec_##SFX; } static vf::Op& gvprev(){ return prev_float_gtc_vec_##SFX; } \
	static vf::Op& vdist(){ return floatDistance_vec_##SFX; } static vf::Op& gvdist(){ return float_distance_gtc_vec_##SFX; } };
OPS_STRUCT(float,f32)
OPS_STRUCT(double,f64)

// ---------------------------------------------------------------- workload
// special points: every binade boundary +-3 steps (both signs), subnormal powers of two +-1, +-0 .. +-70 denorm_min,
// +-max and 3 steps inside, the shared special-value lattice (finite entries), one mid-binade value per exponent
template<class T> static std::vector<T> points(){
	typedef typename fp<T>::U U; typedef typename K<T>::Wd Wd; std::vector<T> v; const int MANT=fp<T>::MANT; const Wd EMAX=((Wd(1)<<fp<T>::EXPB)-1); Wd M=OMAX<T>();
	auto addo=[&](Wd o){ if(o>M||o<-M) return; v.push_back(unord<T>(o)); if(o==0) v.push_back(fp<T>::make(U(1)<<(sizeof(U)*8-1))); };
	for(Wd e=0;e<EMAX;e++){ Wd b=e<<MANT; for(int k=-3;k<=3;k++){ addo(b+k); addo(-(b+k)); } Wd mid=b+(Wd(1)<<(MANT-1))+(e*2654435761u&0xffff); addo(mid); addo(-mid); }
	for(int j=0;j<MANT;j++){ Wd p=Wd(1)<<j; for(int k=-1;k<=1;k++){ addo(p+k); addo(-(p+k)); } }
	for(int k=0;k<=70;k++){ addo(k); addo(-k); }
	for(int k=0;k<=3;k++){ addo(M-k); addo(-(M-k)); }
	for(T x: lattice_of<T>::get()) if(isfinite_b(x)) v.push_back(x);
	return v;
}
template<class T> static T random_finite(vf::Rng& r){ for(;;){ typename fp<T>::U b=(typename fp<T>::U)r.next(); T x=fp<T>::make(b); if(isfinite_b(x)) return x; } }
template<class T> static T random_x(vf::Rng& r,const std::vector<T>& P){ typedef typename K<T>::Wd Wd;
	switch(r.below(6)){ case 0: return P[r.below(P.size())];
		case 1: { Wd o=word(P[r.below(P.size())])+(Wd)r.range(-80,80); return unord<T>(std::max(-OMAX<T>(),std::min(OMAX<T>(),o))); } // near a special point
		case 2: return unord<T>((Wd)r.range(-150,150));                                                            // around zero
		case 3: return (T)r.logmag(-40,40);
		default: return random_finite<T>(r); } }
static int random_n(vf::Rng& r){ switch(r.below(8)){ case 0: return 0; case 1: return 1; case 2: return 64; case 3: return r.range(65,300); default: return r.range(0,64); } }

template<class T> static void run_type(const char* tag){
	typedef typename K<T>::I I; typedef typename K<T>::Wd Wd; typedef Ops<T> O;
	std::vector<T> P=points<T>();
	const int NS[]={0,1,2,3,4,5,7,8,16,63,64,65,100};
	std::string lab=std::string("lattice-")+tag;
	bool w_next1=vf::want(O::next1()), w_prev1=vf::want(O::prev1()), w_gnext1=vf::want(O::gnext1()), w_gprev1=vf::want(O::gprev1());
	auto steps1=[&](vf::Ctx& c,T x){ In1<T> in{x}; if(w_next1) vf::run(c,O::next1(),in); if(w_prev1) vf::run(c,O::prev1(),in); if(w_gnext1) vf::run(c,O::gnext1(),in); if(w_gprev1) vf::run(c,O::gprev1(),in); };
	auto stepsn=[&](vf::Ctx& c,T x,int n){ InN<T> in; memset(&in,0,sizeof in); in.x=x; in.n=(I)n;
		Wd o=word(x), M=OMAX<T>(); bool up=o+n<=M, dn=o-n>=-M;
		if(up){ if(vf::want(O::nextn())) vf::run(c,O::nextn(),in); if(vf::want(O::gnextn())) vf::run(c,O::gnextn(),in); if(vf::want(O::dist())) vf::run(c,O::dist(),in); if(vf::want(O::gdist())) vf::run(c,O::gdist(),in); }
		if(dn){ if(vf::want(O::prevn())) vf::run(c,O::prevn(),in); if(vf::want(O::gprevn())) vf::run(c,O::gprevn(),in); } };
	auto vecs=[&](vf::Ctx& c,const InV<T>& in){ if(vf::want(O::vnext())) vf::run(c,O::vnext(),in); if(vf::want(O::vprev())) vf::run(c,O::vprev(),in); if(vf::want(O::gvnext())) vf::run(c,O::gvnext(),in); if(vf::want(O::gvprev())) vf::run(c,O::gvprev(),in);
		if(vf::want(O::vdist())) vf::run(c,O::vdist(),in); if(vf::want(O::gvdist())) vf::run(c,O::gvdist(),in); };
	// n for the vector operations must keep every component inside +-max in both directions: clamp per component
	auto fit=[&](T x,int n)->I{ Wd o=word(x), M=OMAX<T>(); Wd room=std::min(M-o,o+M); if((Wd)n>room) n=(int)room; return (I)n; };
	// ---- deterministic part
	vf::parallel(lab.c_str(),[&](int t,int TT,vf::Ctx& c){
		for(size_t i=t;i<P.size();i+=TT){ T x=P[i]; steps1(c,x); for(int n: NS) stepsn(c,x,n);
			InV<T> iv; memset(&iv,0,sizeof iv); for(int k=0;k<4;k++){ iv.x[k]=P[(i+k*131)%P.size()]; iv.n[k]=fit(iv.x[k],NS[(i+k)%13]); } vecs(c,iv);
			for(int k=0;k<4;k++){ InV<T> s; memset(&s,0,sizeof s); for(int j=0;j<4;j++){ s.x[j]=(T)1; s.n[j]=1; } s.x[k]=x; s.n[k]=fit(x,NS[(i+k)%13]); vecs(c,s); } }
		ff_flush(c);
		// values straddling zero: every x in [-70,70] denorm_min with every n in 0..141
		for(int k=-70+t;k<=70;k+=TT){ T xs[2]; int nx=0; xs[nx++]=unord<T>((Wd)k); if(k==0) xs[nx++]=fp<T>::make((typename fp<T>::U)1<<(sizeof(T)*8-1));
			for(int q=0;q<nx;q++){ T x=xs[q]; for(int n=0;n<=141;n++) stepsn(c,x,n);
				InV<T> iv; memset(&iv,0,sizeof iv); for(int n=0;n<=140;n+=4){ for(int j=0;j<4;j++){ iv.x[j]= j==0? x : unord<T>((Wd)(k+j*17-20)); iv.n[j]=(I)(n+j); } vecs(c,iv); } } }
	});
	// ---- random part
	u64 n1=vf::N(std::is_same<T,float>::value? 200000: 10000000, std::is_same<T,float>::value? 2000000: 100000000);
	u64 nn=vf::N(1000000,20000000), nv=vf::N(300000,5000000);
	lab=std::string("random-")+tag;
	vf::parallel(lab.c_str(),[&](int t,int TT,vf::Ctx& c){
		for(u64 i=t;i<n1;i+=TT) steps1(c,random_x<T>(c.rng,P));
		ff_flush(c);
		for(u64 i=t;i<nn;i+=TT) stepsn(c,random_x<T>(c.rng,P),random_n(c.rng));
		for(u64 i=t;i<nv;i+=TT){ InV<T> iv; memset(&iv,0,sizeof iv); for(int k=0;k<4;k++){ iv.x[k]=random_x<T>(c.rng,P); iv.n[k]=fit(iv.x[k],random_n(c.rng)); } vecs(c,iv); }
	});
}

static void workload(){
	// stride for slow builds (-O0 / sanitizer): every stride-th float pattern, seed-dependent phase
	u64 stride=1; { auto it=vf::cfg().extra.find("stride"); if(it!=vf::cfg().extra.end()) stride=strtoull(it->second.c_str(),0,10)|1; }
	bool th=vf::thorough();
	// nextFloat/prevFloat (the functions named by the property): every float, both tiers.  The gtc spellings next_float/prev_float
	// (textually separate copies in gtc/ulp.inl) and the distance sweep: every float in the thorough tier, every 15th / 5th in the quick tier.
	struct S { vf::Op* op; const char* lab; u64 stride; } sweeps[]={{&nextFloat_f32,"f32-next",stride},{&prevFloat_f32,"f32-prev",stride},{&next_float_gtc_f32,"f32-gnext",th?stride:stride*15},{&prev_float_gtc_f32,"f32-gprev",th?stride:stride*15}};
	vf::note("float_sweep", stride==1? "nextFloat_f32/prevFloat_f32: all 2^32 float bit patterns enumerated, the 2^32-2^25 finite ones evaluated (NaN/Inf are outside 'every finite x'); gtc spellings and floatDistance sweep: all patterns in the thorough tier, every 15th/5th pattern (seed-dependent phase) in the quick tier" : "strided float sweep (slow build)");
	for(auto& s: sweeps) if(vf::want(*s.op)){ u64 st=s.stride, phase= st>1? (vf::cfg().seed*2654435761ULL)%st : 0, total=((1ULL<<32)-phase+st-1)/st;
		vf::sweep(s.lab,total,1u<<18,[&](vf::Ctx& c,u64 lo,u64 hi){ for(u64 i=lo;i<hi;i++){ In1<float> in{bitsf((u32)(i*st+phase))}; if(!isfinite_b(in.x)) continue; vf::run(c,*s.op,in);} ff_flush(c); }); }
	// floatDistance(x, nextFloat(x, n)) over the finite floats, n = 0..3 chosen by a hash of the pattern (n=1 for half of them)
	if(vf::want(floatDistance_of_nextFloat_f32)){ u64 st= th? stride : stride*5, phase= st>1? (vf::cfg().seed*2654435761ULL)%st : 0, total=((1ULL<<32)-phase+st-1)/st;
		vf::sweep("f32-dist",total,1u<<18,[&](vf::Ctx& c,u64 lo,u64 hi){ for(u64 i=lo;i<hi;i++){ u32 b=(u32)(i*st+phase); InN<float> in; in.x=bitsf(b); if(!isfinite_b(in.x)) continue;
			u32 h=(b*2654435761u)>>29; in.n= h<4? 1 : (i32)(h-4); if(word(in.x)+in.n>OMAX<float>()) continue; vf::run(c,floatDistance_of_nextFloat_f32,in);} }); }
	run_type<float>("f32");
	run_type<double>("f64");
}
VF_MAIN("C14_ulp")
