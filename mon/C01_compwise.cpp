// C01 (supplement) — gtx/component_wise.hpp, anchored by C01 but not reachable through the generic vector-vs-scalar engine:
//  * compNormalize / compScale are component-wise conversions: component i of the vector result must be what the vec1 call returns for
//    component i alone, for every length and qualifier; the documented meaning ("normalized float" <-> integer) bounds the values:
//    unsigned -> [0,1] with 0 -> 0 and max -> 1, signed -> [-1,1] with min -> -1 and max -> 1, monotone; float -> float passes through.
//  * compAdd / compMul / compMin / compMax / fcompMin / fcompMax are reductions over the components: they are compared with the fold of the
//    scalar operation over the components (sum and product within the rounding error of a left-to-right or pairwise evaluation; min/max
//    exactly; fcompMin/fcompMax ignore NaN components like the scalar fmin/fmax do).
#include "vf.hpp"
#include "ref.hpp"
#include <glm/glm.hpp>
#include <glm/gtx/component_wise.hpp>
#include <glm/ext/scalar_common.hpp>
using namespace ref;
using vf::u64; using vf::u32;
typedef signed char i8; typedef unsigned char u8; typedef short i16; typedef unsigned short u16; typedef int i32;

template<class T> struct In4 { T v[4]; u32 mode; };
static const char* qn(glm::qualifier Q){ return Q==glm::packed_highp?"highp":Q==glm::packed_mediump?"mediump":"lowp"; }
template<int L> static std::string tag(glm::qualifier Q,const char* s){ return std::string("vec")+std::to_string(L)+":"+qn(Q)+":"+s; }

// ---- reductions over float/double/int
template<class T,int L,glm::qualifier Q> static void red(const In4<T>& in,vf::Ctx& c){
	glm::vec<L,T,Q> v; for(int i=0;i<L;i++) v[i]=in.v[i];
	bool anynan=false; if constexpr(std::is_floating_point<T>::value) for(int i=0;i<L;i++) anynan=anynan||isnan_b(in.v[i]);
	if constexpr(std::is_floating_point<T>::value){
		bool fin=true; for(int i=0;i<L;i++) fin=fin&&isfinite_b(in.v[i]);
		if(fin){
			long double s=0,sa=0,p=1; for(int i=0;i<L;i++){ s+=(long double)in.v[i]; sa+=fabsl((long double)in.v[i]); p*=(long double)in.v[i]; }
			const long double u=ldexpl(1.0L,-(int)fp<T>::MANT-1), mx=(long double)std::numeric_limits<T>::max(), tiny=(long double)std::numeric_limits<T>::denorm_min();
			if(sa<mx/2){ T g=glm::compAdd(v); if(fabsl((long double)g-s)>(L)*u*sa+tiny) c.fail(tag<L>(Q,"compAdd:differs-from-the-sum-of-the-components"),g,(T)s); }
			// product: no overflow/underflow of any partial product
			bool ok=true; { long double q=1; for(int i=0;i<L;i++){ q*=(long double)in.v[i]; if(fabsl(q)>mx/4||(q!=0&&fabsl(q)<(long double)std::numeric_limits<T>::min()*4)) ok=false; } }
			if(ok){ T g=glm::compMul(v); if(fabsl((long double)g-p)>(L+1)*u*fabsl(p)+tiny) c.fail(tag<L>(Q,"compMul:differs-from-the-product-of-the-components"),g,(T)p); }
		}
		if(!anynan){ T mn=in.v[0],mxv=in.v[0]; for(int i=1;i<L;i++){ if(in.v[i]<mn) mn=in.v[i]; if(in.v[i]>mxv) mxv=in.v[i]; }
			T g1=glm::compMin(v), g2=glm::compMax(v); if(!(g1==mn)) c.fail(tag<L>(Q,"compMin:not-the-smallest-component"),g1,mn); if(!(g2==mxv)) c.fail(tag<L>(Q,"compMax:not-the-largest-component"),g2,mxv); }
		// fcompMin/fcompMax: the smallest/largest non-NaN component; NaN only if every component is NaN
		{ bool all=true; T mn=0,mxv=0; bool have=false; for(int i=0;i<L;i++) if(!isnan_b(in.v[i])){ all=false; if(!have){ mn=mxv=in.v[i]; have=true; } else { if(in.v[i]<mn) mn=in.v[i]; if(in.v[i]>mxv) mxv=in.v[i]; } }
			T g1=glm::fcompMin(v), g2=glm::fcompMax(v); c.cls(all?"all-NaN":anynan?"some-NaN":"no-NaN");
			if(all){ if(!isnan_b(g1)||!isnan_b(g2)) c.fail(tag<L>(Q,"fcompMin/fcompMax:all-components-NaN:result-not-NaN"),g1,g2); }
			else { if(!(g1==mn)) c.fail(tag<L>(Q,anynan?"fcompMin:NaN-component-not-ignored":"fcompMin:not-the-smallest-component"),g1,mn); if(!(g2==mxv)) c.fail(tag<L>(Q,anynan?"fcompMax:NaN-component-not-ignored":"fcompMax:not-the-largest-component"),g2,mxv); } }
	} else {
		typedef typename std::make_unsigned<T>::type U; U s=0,p=1; T mn=in.v[0],mxv=in.v[0]; bool ovf=false; long long ws=0; long double wp=1;
		for(int i=0;i<L;i++){ s=(U)(s+(U)in.v[i]); p=(U)(p*(U)in.v[i]); ws+=in.v[i]; wp*=in.v[i]; if(in.v[i]<mn) mn=in.v[i]; if(in.v[i]>mxv) mxv=in.v[i];
			if(std::is_signed<T>::value && (ws>std::numeric_limits<T>::max()||ws<std::numeric_limits<T>::min()||fabsl(wp)>(long double)std::numeric_limits<T>::max())) ovf=true; }
		if(!ovf){ T g=glm::compAdd(v); if(g!=(T)s) c.fail(tag<L>(Q,"compAdd:differs-from-the-sum-of-the-components"),g,(T)s); T gp=glm::compMul(v); if(gp!=(T)p) c.fail(tag<L>(Q,"compMul:differs-from-the-product-of-the-components"),gp,(T)p); }
		else c.cls("skipped:signed-overflow");
		T g1=glm::compMin(v), g2=glm::compMax(v); if(g1!=mn) c.fail(tag<L>(Q,"compMin:not-the-smallest-component"),g1,mn); if(g2!=mxv) c.fail(tag<L>(Q,"compMax:not-the-largest-component"),g2,mxv);
	}
}
template<class T> static void red_all(const In4<T>& in,vf::Ctx& c){
	red<T,1,glm::packed_highp>(in,c); red<T,2,glm::packed_highp>(in,c); red<T,3,glm::packed_highp>(in,c); red<T,4,glm::packed_highp>(in,c);
	red<T,2,glm::packed_mediump>(in,c); red<T,3,glm::packed_lowp>(in,c); red<T,4,glm::packed_lowp>(in,c);
}
VF_OP(reduce_f32, In4<float>, "ffffu"){ red_all<float>(in,c); }
VF_OP(reduce_f64, In4<double>, "ddddu"){ red_all<double>(in,c); }
VF_OP(reduce_i32, In4<i32>, "iiiiu"){ red_all<i32>(in,c); }
VF_OP(reduce_u32, In4<u32>, "uuuuu"){ red_all<u32>(in,c); }

// ---- compNormalize / compScale
template<class I,class F,int L,glm::qualifier Q> static void norm(const In4<I>& in,vf::Ctx& c){
	glm::vec<L,I,Q> v; for(int i=0;i<L;i++) v[i]=in.v[i];
	glm::vec<L,F,Q> n=glm::compNormalize<F>(v);
	const long double lo=(long double)std::numeric_limits<I>::min(), hi=(long double)std::numeric_limits<I>::max(), u=ldexpl(1.0L,-(int)fp<F>::MANT-1);
	for(int i=0;i<L;i++){
		glm::vec<1,I,Q> one(in.v[i]); F w=glm::compNormalize<F>(one)[0];
		if(!same(n[i],w)) c.fail(tag<L>(Q,"compNormalize:component-differs-from-the-vec1-call"),n[i],w);
		long double want= std::is_signed<I>::value? ((long double)in.v[i]-lo)/(hi-lo)*2-1 : (long double)in.v[i]/hi;
		if(fabsl((long double)n[i]-want)>8*u*(1+fabsl(want))*( std::is_signed<I>::value? (1+fabsl(lo)/(hi-lo)*2):1 )) c.fail(tag<L>(Q,"compNormalize:not-the-normalized-value"),n[i],(F)want);
		if((long double)n[i]<(std::is_signed<I>::value?-1.0L:0.0L)-8*u || (long double)n[i]>1+8*u) c.fail(tag<L>(Q,"compNormalize:outside-the-normalized-range"),n[i],(F)want);
	}
	// round trip through compScale for element types whose every value is exact in F (8/16-bit in float, up to 32-bit in double)
	if(sizeof(I)*8 < (size_t)fp<F>::MANT){ glm::vec<L,I,Q> b=glm::compScale<I>(n); for(int i=0;i<L;i++){ long long d=(long long)b[i]-(long long)in.v[i]; if(d<-1||d>1) c.fail(tag<L>(Q,"compScale(compNormalize(v)):more-than-one-step-from-v"),b[i],in.v[i]);
			glm::vec<1,F,Q> one(n[i]); I w=glm::compScale<I>(one)[0]; if(b[i]!=w) c.fail(tag<L>(Q,"compScale:component-differs-from-the-vec1-call"),b[i],w); } }
}
template<class I,class F> static void norm_all(const In4<I>& in,vf::Ctx& c){
	norm<I,F,1,glm::packed_highp>(in,c); norm<I,F,2,glm::packed_highp>(in,c); norm<I,F,3,glm::packed_highp>(in,c); norm<I,F,4,glm::packed_highp>(in,c);
	norm<I,F,3,glm::packed_mediump>(in,c); norm<I,F,4,glm::packed_lowp>(in,c);
}
VF_OP(normalize_u8_f32, In4<u8>, "bbbbu"){ norm_all<u8,float>(in,c); }
VF_OP(normalize_i8_f32, In4<i8>, "ccccu"){ norm_all<i8,float>(in,c); }
VF_OP(normalize_u16_f32, In4<u16>, "hhhhu"){ norm_all<u16,float>(in,c); }
VF_OP(normalize_i16_f32, In4<i16>, "ssssu"){ norm_all<i16,float>(in,c); }
VF_OP(normalize_u32_f64, In4<u32>, "uuuuu"){ norm_all<u32,double>(in,c); }
VF_OP(normalize_i32_f64, In4<i32>, "iiiiu"){ norm_all<i32,double>(in,c); }
// float -> float passes through
VF_OP(normalize_f32_passthrough, In4<float>, "ffffu"){
	glm::vec4 v(in.v[0],in.v[1],in.v[2],in.v[3]); glm::vec4 n=glm::compNormalize<float>(v); glm::vec4 s=glm::compScale<float>(v);
	for(int i=0;i<4;i++){ if(!same(n[i],in.v[i])) c.fail("vec4:compNormalize<float>(float vector):not-passed-through",n[i],in.v[i]); if(!same(s[i],in.v[i])) c.fail("vec4:compScale<float>(float vector):not-passed-through",s[i],in.v[i]); }
}

template<class T> static T pickf(vf::Rng& r,const std::vector<T>& L){ int m=(int)(r.next()%5); return m==0? L[r.below(L.size())]: m==1? (sizeof(T)==4? (T)r.fbits():(T)r.dbits()): m==2? (T)r.range(-100,100): m==3? (T)r.uniform(-4,4): (T)r.logmag(-30,30); }
static void workload(){
	// 8-bit: every value in lane 0 crossed with ramps; 16-bit: every value
	vf::sweep("n8",256,16,[&](vf::Ctx& c,u64 lo,u64 hi){ for(u64 x=lo;x<hi;x++){ In4<u8> a{{(u8)x,(u8)(x*7+1),(u8)~x,(u8)(x>>1)},0}; In4<i8> b{{(i8)x,(i8)(x*7+1),(i8)~x,(i8)(x+128)},0}; vf::run(c,normalize_u8_f32,a); vf::run(c,normalize_i8_f32,b); } });
	vf::sweep("n16",65536,256,[&](vf::Ctx& c,u64 lo,u64 hi){ for(u64 x=lo;x<hi;x++){ In4<u16> a{{(u16)x,(u16)(x*7+1),(u16)~x,(u16)(x>>1)},0}; In4<i16> b{{(i16)x,(i16)(x*7+1),(i16)~x,(i16)(x+32768)},0}; vf::run(c,normalize_u16_f32,a); vf::run(c,normalize_i16_f32,b); } });
	std::vector<float> LF=float_lattice(); std::vector<double> LD=double_lattice(); std::vector<i32> LI=int_lattice<i32>(); std::vector<u32> LU=int_lattice<u32>();
	u64 n=vf::N(200000,20000000);
	vf::parallel("compwise",[&](int t,int TT,vf::Ctx& c){ for(u64 i=t;i<n;i+=TT){
		In4<float> f; In4<double> d; In4<i32> a; In4<u32> b; f.mode=d.mode=a.mode=b.mode=0;
		for(int k=0;k<4;k++){ f.v[k]=pickf<float>(c.rng,LF); d.v[k]=pickf<double>(c.rng,LD); int m=(int)(c.rng.next()%3); a.v[k]= m==0? LI[c.rng.below(LI.size())]: m==1? (i32)c.rng.next(): (i32)c.rng.range(-50,50); b.v[k]= m==0? LU[c.rng.below(LU.size())]: m==1? (u32)c.rng.next(): (u32)c.rng.range(0,50); }
		/* signalling NaNs are outside fmin/fmax's NaN-ignoring contract (IEEE minNum/maxNum return NaN for them): quieten */ for(int k=0;k<4;k++){ if(isnan_b(f.v[k])) f.v[k]=bitsf(fbits(f.v[k])|0x00400000u); if(isnan_b(d.v[k])) d.v[k]=bitsd(dbits(d.v[k])|0x0008000000000000ULL); }
		vf::run(c,reduce_f32,f); vf::run(c,reduce_f64,d); vf::run(c,reduce_i32,a); vf::run(c,reduce_u32,b); vf::run(c,normalize_u32_f64,b); vf::run(c,normalize_i32_f64,a); vf::run(c,normalize_f32_passthrough,f);
	} });
}
VF_MAIN("C01_compwise")
