// C12 — geometric functions (core geometric.hpp + gtx norm/projection/perpendicular/orthonormalize/vector_angle/
// closest_point/normal/exterior_product/mixed_product) against wide-precision evaluations of the defining formulas and the
// Euclidean identities of the property statement.
//
// Oracle arithmetic: W = long double for float inputs (products of two floats are exact), W = __float128 for double inputs
// (products of two doubles are exact).  Every tolerance is  1.5 * (rigorous first-order rounding-error count) * u * S  plus a
// few denormal quanta (underflow slack), with S the magnitude sum of the documented formula; see the comment at each check.
// Decisions (faceforward sign, refract k<0, closestPointOnLine clamping, orientedAngle sign) are demanded exactly only when the
// deciding quantity is farther from the threshold than its own rounding-error bound; otherwise either branch is accepted.
//
// Input record: up to three raw vectors (4 slots each, slots >= L are ignored), one scalar s (eta / Depth), the length L and a
// mode word: bit0 = build aligned SIMD vec3 operands through component-wise arithmetic (hidden 4th lane becomes NaN; only has
// an effect in the SIMD build), bit1 = op specific (refract: use the raw vectors instead of normalising them).
#include "vf.hpp"
#include "ref.hpp"
#include <glm/glm.hpp>
#include <glm/gtx/norm.hpp>
#include <glm/gtx/projection.hpp>
#include <glm/gtx/perpendicular.hpp>
#include <glm/gtx/orthonormalize.hpp>
#include <glm/gtx/vector_angle.hpp>
#include <glm/gtx/closest_point.hpp>
#include <glm/gtx/normal.hpp>
#include <glm/gtx/exterior_product.hpp>
#include <glm/gtx/mixed_product.hpp>
using namespace ref;

#ifndef C12_Q
#define C12_Q glm::defaultp
#endif
static const glm::qualifier Q = C12_Q;
#if (GLM_CONFIG_SIMD == GLM_ENABLE)
static const bool SIMD_ALIGNED = glm::detail::is_aligned<C12_Q>::value;
#else
static const bool SIMD_ALIGNED = false;
#endif

// ---------------------------------------------------------------- wide arithmetic
extern "C" { __float128 sqrtq(__float128); __float128 acosq(__float128); __float128 powq(__float128,__float128); __float128 logq(__float128); }
static inline long double w_sqrt(long double x){ return sqrtl(x); }
static inline __float128 w_sqrt(__float128 x){ return sqrtq(x); }
static inline long double w_acos(long double x){ return acosl(x); }
static inline __float128 w_acos(__float128 x){ return acosq(x); }
static inline long double w_pow(long double x,long double y){ return powl(x,y); }
static inline __float128 w_pow(__float128 x,__float128 y){ return powq(x,y); }
static inline long double w_log(long double x){ return logl(x); }
static inline __float128 w_log(__float128 x){ return logq(x); }
template<class W> static inline W w_abs(W x){ return x<0? -x: x; }
template<class W> static inline W w_max(W a,W b){ return a>b? a: b; }
template<class W> static inline W w_min(W a,W b){ return a<b? a: b; }

template<class T> struct Tr;
template<> struct Tr<float>{ typedef long double W; enum{ E2=80, EG=20, EPSLO=8, EPSHI=22 };
	static W u(){ return ldexpl(1.0L,-24); } static W tiny(){ return ldexpl(1.0L,-149); } static W p2(int e){ return ldexpl(1.0L,e); } };
template<> struct Tr<double>{ typedef __float128 W; enum{ E2=600, EG=100, EPSLO=8, EPSHI=50 };
	static W u(){ return (W)ldexpl(1.0L,-53); } static W tiny(){ return (W)ldexpl(1.0L,-1074); } static W p2(int e){ return (W)ldexpl(1.0L,e); } };
#define TRT typedef typename Tr<T>::W W; const W u=Tr<T>::u(); const W tiny=Tr<T>::tiny(); (void)u; (void)tiny;
static const double SF = 2.0; // safety factor applied to every rigorous first-order error count

template<class T> static inline bool okn2(typename Tr<T>::W n2){ return n2>=Tr<T>::p2(-Tr<T>::E2) && n2<=Tr<T>::p2(Tr<T>::E2); }
template<class T,int L> static inline bool fin(const T* p){ for(int i=0;i<L;i++) if(!isfinite_b(p[i])) return false; return true; }
template<class T,int L> static inline typename Tr<T>::W n2of(const T* p){ typename Tr<T>::W s=0; for(int i=0;i<L;i++) s+=(typename Tr<T>::W)p[i]*(typename Tr<T>::W)p[i]; return s; }
// finite and squared norm inside the domain
template<class T,int L> static inline bool dom(const T* p){ return fin<T,L>(p) && okn2<T>(n2of<T,L>(p)); }
// normalise in wide arithmetic, round each component once (|.| = 1 within u)
template<class T,int L> static inline void unitize(const T* raw,T* out){ typedef typename Tr<T>::W W; W n=w_sqrt(n2of<T,L>(raw)); for(int i=0;i<L;i++) out[i]=(T)((W)raw[i]/n); for(int i=L;i<4;i++) out[i]=0; }

// ---------------------------------------------------------------- input records and glm operand construction
template<class T,int NV> struct In { T v[NV][4]; T s; int L; int mode; };

template<class T,int L> struct VA { // vector overloads
	typedef glm::vec<L,T,Q> type;
	static type mk(const T* p,int mode){ type r; for(int i=0;i<L;i++) r[i]=p[i]; return r; }
	static T get(const type& v,int i){ return v[i]; }
	static std::string pfx(){ bool simd= SIMD_ALIGNED && std::is_same<T,float>::value && (L==3||L==4); return std::string(simd?"simd-aligned:":"")+"vec"+std::to_string(L)+":"; }
};
// aligned SIMD vec3<float>: mode bit0 routes the operand through ordinary component-wise arithmetic on finite vectors
// (vec3(vec4(x,y,z,0)) / vec3(vec4(1,1,1,0))): x,y,z are unchanged, the hidden 4th lane becomes 0/0
template<> glm::vec<3,float,Q> VA<float,3>::mk(const float* p,int mode){
	if(SIMD_ALIGNED && (mode&1)){ glm::vec<4,float,Q> a4(p[0],p[1],p[2],0.0f), o4(1.0f,1.0f,1.0f,0.0f); glm::vec<3,float,Q> a3(a4), o3(o4); return a3/o3; }
	return glm::vec<3,float,Q>(p[0],p[1],p[2]);
}
template<class T> struct SA { // scalar (genType) overloads
	typedef T type; enum{ L=1 };
	static T mk(const T* p,int){ return p[0]; }
	static T get(T v,int){ return v; }
	static std::string pfx(){ return "scalar:"; }
};
template<class T,int L> static std::string sv(const T* p){ std::string s="("; for(int i=0;i<L;i++){ if(i) s+=", "; s+=vf::show(p[i]); } return s+")"; }
template<class T,int L,class W> static std::string sw(const W* p){ T t[4]; for(int i=0;i<L;i++) t[i]=(T)p[i]; return sv<T,L>(t); }
template<class A,class T,int L> static void out(const typename A::type& g,T* o){ for(int i=0;i<L;i++) o[i]=A::get(g,i); for(int i=L;i<4;i++) o[i]=0; }

// ratios are clamped: an infinite ratio (bound 0 cannot happen, but a wildly wrong result can overflow) must not break the JSON
static inline void rat(vf::Ctx& c,const char* n,double r){ if(!(r==r)) return; if(r>1e30) r=1e30; c.ratio(n,r); }
#define SKIP(why) do{ c.cls("skipped:" why); return; }while(0)

// ================================================================ core: dot / length / distance
// dot = sum of products.  L multiplications and L-1 additions in any order: |err| <= L u S, S = sum |a_i b_i|.
template<class T,int L,class A> static void k_dot(const In<T,2>& in,vf::Ctx& c){ TRT
	const T *a=in.v[0],*b=in.v[1]; if(!dom<T,L>(a)||!dom<T,L>(b)) SKIP("out-of-domain");
	W d=0,S=0; for(int i=0;i<L;i++){ W p=(W)a[i]*(W)b[i]; d+=p; S+=w_abs(p); }
	T got=glm::dot(A::mk(a,in.mode),A::mk(b,in.mode));
	W bound=W(SF*L)*u*S+W(L)*tiny, err=w_abs((W)got-d);
	c.cls(d==0?"dot==0":(w_abs(d)<W(1e-3)*S?"cancelling":"regular")); rat(c,"dot:err/bound",(double)(err/bound));
	if(!(err<=bound)) c.fail(A::pfx()+(isnan_b(got)?"dot:nan-for-finite-input":"dot:differs-from-sum-of-products"),vf::show(got),vf::show((T)d));
}
// length = sqrt(dot(v,v)): dot relative error L u (positive terms), sqrt halves it and rounds once: (L/2+1) u.
template<class T,int L,class A> static void k_length(const In<T,1>& in,vf::Ctx& c){ TRT
	const T* a=in.v[0]; if(!dom<T,L>(a)) SKIP("out-of-domain");
	W r=w_sqrt(n2of<T,L>(a)); T got=glm::length(A::mk(a,in.mode));
	W bound=W(SF*(0.5*L+1))*u*r+W(L)*tiny/r, err=w_abs((W)got-r); rat(c,"length:err/bound",(double)(err/bound));
	if(!(err<=bound)) c.fail(A::pfx()+(isnan_b(got)?"length:nan-for-finite-input":"length:differs-from-sqrt(dot(v,v))"),vf::show(got),vf::show((T)r));
}
// distance(a,b) = length(a-b): each difference is rounded once (relative u, exact when subnormal), then length: (L/2+2) u.
template<class T,int L,class A> static void k_distance(const In<T,2>& in,vf::Ctx& c){ TRT
	const T *a=in.v[0],*b=in.v[1]; if(!dom<T,L>(a)||!dom<T,L>(b)) SKIP("out-of-domain");
	W n2=0; for(int i=0;i<L;i++){ W d=(W)a[i]-(W)b[i]; n2+=d*d; }
	if(n2==0){ T got=glm::distance(A::mk(a,in.mode),A::mk(b,in.mode)); c.cls("identical-points"); if(!(got==0)) c.fail(A::pfx()+"distance:identical-points:nonzero",vf::show(got),"0"); return; }
	if(!okn2<T>(n2)) SKIP("a-b-out-of-domain");
	W r=w_sqrt(n2); T got=glm::distance(A::mk(a,in.mode),A::mk(b,in.mode));
	W bound=W(SF*(0.5*L+2))*u*r+W(L)*tiny/r, err=w_abs((W)got-r); rat(c,"distance:err/bound",(double)(err/bound));
	if(!(err<=bound)) c.fail(A::pfx()+(isnan_b(got)?"distance:nan-for-finite-input":"distance:differs-from-length(a-b)"),vf::show(got),vf::show((T)r));
}
// gtx length2 = dot(v,v) (L u), distance2 = length2(a-b) ((L+2) u: each squared difference carries 2u from the subtraction)
template<class T,int L,class A> static void k_length2(const In<T,1>& in,vf::Ctx& c){ TRT
	const T* a=in.v[0]; if(!dom<T,L>(a)) SKIP("out-of-domain");
	W r=n2of<T,L>(a); T got=glm::length2(A::mk(a,in.mode));
	W bound=W(SF*L)*u*r+W(L)*tiny, err=w_abs((W)got-r); rat(c,"length2:err/bound",(double)(err/bound));
	if(!(err<=bound)) c.fail(A::pfx()+(isnan_b(got)?"length2:nan-for-finite-input":"length2:differs-from-dot(v,v)"),vf::show(got),vf::show((T)r));
}
template<class T,int L,class A> static void k_distance2(const In<T,2>& in,vf::Ctx& c){ TRT
	const T *a=in.v[0],*b=in.v[1]; if(!dom<T,L>(a)||!dom<T,L>(b)) SKIP("out-of-domain");
	W n2=0; for(int i=0;i<L;i++){ W d=(W)a[i]-(W)b[i]; n2+=d*d; } if(!okn2<T>(n2)) SKIP("a-b-out-of-domain");
	T got=glm::distance2(A::mk(a,in.mode),A::mk(b,in.mode));
	W bound=W(SF*(L+2))*u*n2+W(L)*tiny, err=w_abs((W)got-n2); rat(c,"distance2:err/bound",(double)(err/bound));
	if(!(err<=bound)) c.fail(A::pfx()+(isnan_b(got)?"distance2:nan-for-finite-input":"distance2:differs-from-length2(a-b)"),vf::show(got),vf::show((T)n2));
}

// ================================================================ cross (vec3)
// component = p - q with p,q products: |err| <= 2u(|p|+|q|); orthogonality: c_got . a = e . a, |e.a| <= 2u sum |a_i|(|p_i|+|q_i|);
// anti-commutativity: cross(a,b) + cross(b,a) = 0 within twice the component bound.
template<class T> static void k_cross(const In<T,2>& in,vf::Ctx& c){ TRT typedef VA<T,3> A;
	const T *a=in.v[0],*b=in.v[1]; if(!dom<T,3>(a)||!dom<T,3>(b)) SKIP("out-of-domain");
	auto ga=A::mk(a,in.mode), gb=A::mk(b,in.mode); T g[4],h[4]; out<A,T,3>(glm::cross(ga,gb),g); out<A,T,3>(glm::cross(gb,ga),h);
	W r[3],M[3]; static const int J[3]={1,2,0},K[3]={2,0,1};
	for(int i=0;i<3;i++){ W p=(W)a[J[i]]*(W)b[K[i]], q=(W)b[J[i]]*(W)a[K[i]]; r[i]=p-q; M[i]=w_abs(p)+w_abs(q); }
	bool nan=false; for(int i=0;i<3;i++) nan|=!isfinite_b(g[i]);
	W n2=r[0]*r[0]+r[1]*r[1]+r[2]*r[2], Mm=M[0]+M[1]+M[2]; c.cls(n2==0?"parallel-exact":(n2<W(1e-6)*Mm*Mm?"nearly-parallel":"regular"));
	if(nan){ c.fail(A::pfx()+"cross:non-finite-for-finite-input",sv<T,3>(g),sw<T,3>(r)); return; }
	for(int i=0;i<3;i++){ W bound=W(SF*2)*u*M[i]+2*tiny, err=w_abs((W)g[i]-r[i]); rat(c,"cross:err/bound",(double)(err/bound));
		if(!(err<=bound)){ c.fail(A::pfx()+"cross:differs-from-determinant-formula",sv<T,3>(g),sw<T,3>(r)); break; } }
	W da=0,db=0,Sa=0,Sb=0; for(int i=0;i<3;i++){ da+=(W)g[i]*(W)a[i]; db+=(W)g[i]*(W)b[i]; Sa+=w_abs((W)a[i])*M[i]; Sb+=w_abs((W)b[i])*M[i]; }
	W ba=W(SF*2)*u*Sa+6*tiny*(w_abs((W)a[0])+w_abs((W)a[1])+w_abs((W)a[2])+1), bb=W(SF*2)*u*Sb+6*tiny*(w_abs((W)b[0])+w_abs((W)b[1])+w_abs((W)b[2])+1);
	rat(c,"cross:orthogonality/bound",(double)w_max(w_abs(da)/ba,w_abs(db)/bb));
	if(!(w_abs(da)<=ba)) c.fail(A::pfx()+"cross:not-orthogonal-to-first-argument",vf::show((T)da),"0");
	if(!(w_abs(db)<=bb)) c.fail(A::pfx()+"cross:not-orthogonal-to-second-argument",vf::show((T)db),"0");
	// anti-commutativity: both orders are within their bound of +-(p-q); (bit-exact in IEEE arithmetic without contraction, but the statement does not promise that)
	for(int i=0;i<3;i++) if(!(w_abs((W)g[i]+(W)h[i])<=2*(W(SF*2)*u*M[i]+2*tiny))){ c.fail(A::pfx()+"cross:not-anti-commutative",sv<T,3>(g),sv<T,3>(h)); break; }
}
// gtx exterior product cross(vec2): a.x b.y - b.x a.y, same bound, anti-commutative
template<class T> static void k_cross2(const In<T,2>& in,vf::Ctx& c){ TRT typedef VA<T,2> A;
	const T *a=in.v[0],*b=in.v[1]; if(!dom<T,2>(a)||!dom<T,2>(b)) SKIP("out-of-domain");
	auto ga=A::mk(a,in.mode), gb=A::mk(b,in.mode); T got=glm::cross(ga,gb), rev=glm::cross(gb,ga);
	W p=(W)a[0]*(W)b[1], q=(W)b[0]*(W)a[1], r=p-q, bound=W(SF*2)*u*(w_abs(p)+w_abs(q))+2*tiny, err=w_abs((W)got-r); rat(c,"cross2:err/bound",(double)(err/bound));
	if(!(err<=bound)) c.fail(A::pfx()+"cross2:differs-from-determinant-formula",vf::show(got),vf::show((T)r));
	if(!(w_abs((W)got+(W)rev)<=2*bound)) c.fail(A::pfx()+"cross2:not-anti-commutative",vf::show(got),vf::show(rev));
}
// gtx mixedProduct = dot(cross(v1,v2),v3): cross component error 2u M_i, dot of three terms 3u: (2+3) u sum |v3_i| M_i
template<class T> static void k_mixed(const In<T,3>& in,vf::Ctx& c){ TRT typedef VA<T,3> A;
	const T *a=in.v[0],*b=in.v[1],*d=in.v[2]; if(!dom<T,3>(a)||!dom<T,3>(b)||!dom<T,3>(d)) SKIP("out-of-domain");
	static const int J[3]={1,2,0},K[3]={2,0,1}; W r=0,S=0; for(int i=0;i<3;i++){ W p=(W)a[J[i]]*(W)b[K[i]], q=(W)b[J[i]]*(W)a[K[i]]; r+=(p-q)*(W)d[i]; S+=(w_abs(p)+w_abs(q))*w_abs((W)d[i]); }
	if(S>Tr<T>::p2(Tr<T>::E2)||S<Tr<T>::p2(-Tr<T>::E2)) SKIP("triple-product-out-of-domain");
	T got=glm::mixedProduct(A::mk(a,in.mode),A::mk(b,in.mode),A::mk(d,in.mode));
	W bound=W(SF*5)*u*S+8*tiny*(1+w_abs((W)d[0])+w_abs((W)d[1])+w_abs((W)d[2])), err=w_abs((W)got-r); rat(c,"mixedProduct:err/bound",(double)(err/bound));
	if(!(err<=bound)) c.fail(A::pfx()+"mixedProduct:differs-from-dot(cross(v1,v2),v3)",vf::show(got),vf::show((T)r));
}

// ================================================================ normalize
// v * (1/sqrt(dot(v,v))): dot L u -> sqrt L/2 u + u -> reciprocal u -> product u: each component relative (L/2+3) u,
// hence |  |r| - 1 | <= (L/2+3) u and r is a positive multiple of v (same signs, common factor within the bound).
template<class T,int L> static void k_normalize(const In<T,1>& in,vf::Ctx& c){ TRT typedef VA<T,L> A;
	const T* a=in.v[0]; if(!dom<T,L>(a)) SKIP("out-of-domain");
	T g[4]; out<A,T,L>(glm::normalize(A::mk(a,in.mode)),g);
	W n=w_sqrt(n2of<T,L>(a)), r[4], k=W(SF*(0.5*L+3))*u;
	for(int i=0;i<L;i++){ r[i]=(W)a[i]/n; if(!isfinite_b(g[i])){ c.fail(A::pfx()+"normalize:non-finite-for-finite-input",sv<T,L>(g),sw<T,L>(r)); return; } }
	W gl=w_sqrt(n2of<T,L>(g)), le=w_abs(gl-1); rat(c,"normalize:unit-length-err/bound",(double)(le/(k+W(L)*tiny)));
	bool bad=false; for(int i=0;i<L;i++){ W bound=k*w_abs(r[i])+2*tiny, err=w_abs((W)g[i]-r[i]); rat(c,"normalize:err/bound",(double)(err/bound)); if(!(err<=bound)) bad=true; }
	if(!bad) return; // every component within the bound implies | |r|-1 | within the bound
	// name the wrong behaviour: g = s*r + residual (r = v/|v| exactly): s<=0 flipped, residual small -> only the length is wrong, else the direction
	W sc=0,rho2=0; for(int i=0;i<L;i++) sc+=(W)g[i]*r[i]; for(int i=0;i<L;i++){ W x=(W)g[i]-sc*r[i]; rho2+=x*x; }
	const char* what= !(sc>0)? "normalize:not-a-positive-multiple-of-v": (w_sqrt(rho2)<=4*k*sc+W(L)*tiny*Tr<T>::p2(40)? "normalize:not-unit-length": "normalize:wrong-direction");
	c.fail(A::pfx()+what,sv<T,L>(g)+" length "+vf::show((T)gl),sw<T,L>(r)+" length 1");
}

// ================================================================ faceforward
// N if dot(Nref,I) < 0 else -N.  The decision is demanded exactly when the exact dot is farther from 0 than L u S, or when
// every product Nref_i*I_i is exactly zero / all operands are small integers (then the floating-point dot is exact, any order).
template<class T,int L,class A> static void k_faceforward(const In<T,3>& in,vf::Ctx& c){ TRT
	const T *N=in.v[0],*I=in.v[1],*R=in.v[2]; if(!dom<T,L>(N)||!dom<T,L>(I)||!dom<T,L>(R)) SKIP("out-of-domain");
	W d=0,S=0; bool allz=true, smallint=true;
	for(int i=0;i<L;i++){ W p=(W)R[i]*(W)I[i]; d+=p; S+=w_abs(p); if(p!=0) allz=false; if(!(std::fabs(R[i])<=1024 && std::fabs(I[i])<=1024 && R[i]==std::floor(R[i]) && I[i]==std::floor(I[i]))) smallint=false; }
	T g[4]; out<A,T,L>(glm::faceforward(A::mk(N,in.mode),A::mk(I,in.mode),A::mk(R,in.mode)),g);
	bool isN=true,isM=true; for(int i=0;i<L;i++){ if(!(g[i]==N[i])) isN=false; if(!(g[i]==-N[i])) isM=false; }
	W bound=W(SF*L)*u*S+W(L)*tiny; const char* zone; int want; // want: +1 N, -1 -N, 0 either
	if(allz||smallint||w_abs(d)>bound){ want= d<0? +1: -1; zone= d<0? "dot<0": (d>0? "dot>0":"dot==0"); } else { want=0; zone="dot~0(sign-within-rounding)"; }
	c.cls(zone);
	T nN[4]; for(int i=0;i<L;i++) nN[i]=-N[i];
	std::string w= want>0? sv<T,L>(N): want<0? sv<T,L>(nN): ("either "+sv<T,L>(N)+" or its negation");
	if(!isN&&!isM){ bool z=true,nn=false; for(int i=0;i<L;i++){ if(g[i]!=0) z=false; if(isnan_b(g[i])) nn=true; }
		c.fail(A::pfx()+"faceforward:"+zone+(nn?":returns-nan":z?":returns-zero-vector":":returns-neither-N-nor-minus-N"),sv<T,L>(g),w); return; }
	if(want>0&&!isN) c.fail(A::pfx()+"faceforward:"+zone+":returns-minus-N",sv<T,L>(g),w);
	if(want<0&&!isM) c.fail(A::pfx()+"faceforward:"+zone+":returns-N",sv<T,L>(g),w);
}

// ================================================================ reflect
// I - N*dot(N,I)*2 : |err_i| <= u ( |I_i| + 2 (L+2) |N_i| S_d ),  S_d = sum |N_j I_j|   (doubling is exact)
template<class T,int L,class A> static bool reflect_formula(const T* I,const T* N,const T* g,vf::Ctx& c,const char* what){ TRT
	W d=0,S=0; for(int i=0;i<L;i++){ W p=(W)N[i]*(W)I[i]; d+=p; S+=w_abs(p); }
	W r[4]; for(int i=0;i<L;i++) r[i]=(W)I[i]-2*d*(W)N[i];
	for(int i=0;i<L;i++){ if(!isfinite_b(g[i])){ c.fail(A::pfx()+"reflect:"+what+":non-finite-for-finite-input",sv<T,L>(g),sw<T,L>(r)); return false; }
		W bound=W(SF)*u*(w_abs((W)I[i])+W(2*(L+2))*w_abs((W)N[i])*S)+4*tiny*(1+w_abs((W)N[i])), err=w_abs((W)g[i]-r[i]); rat(c,"reflect:err/bound",(double)(err/bound));
		if(!(err<=bound)){ c.fail(A::pfx()+"reflect:"+what+":differs-from-I-2dot(N,I)N",sv<T,L>(g),sw<T,L>(r)); return false; } }
	return true;
}
template<class T,int L,class A> static void k_reflect(const In<T,2>& in,vf::Ctx& c){ TRT
	const T *I=in.v[0],*Nr=in.v[1]; if(!dom<T,L>(I)||!dom<T,L>(Nr)) SKIP("out-of-domain");
	// (1) defining formula for an arbitrary (not normalised) N; magnitudes of N limited so that N*dot*2 stays in range
	W nn=n2of<T,L>(Nr), ni2=n2of<T,L>(I); T g[4];
	if(nn*nn*ni2<=Tr<T>::p2(Tr<T>::E2) ){ out<A,T,L>(glm::reflect(A::mk(I,in.mode),A::mk(Nr,in.mode)),g); reflect_formula<T,L,A>(I,Nr,g,c,"any-N"); }
	// (2) unit N: formula, length preservation, involution
	T N[4]; unitize<T,L>(Nr,N); auto gN=A::mk(N,in.mode);
	out<A,T,L>(glm::reflect(A::mk(I,in.mode),gN),g); if(!reflect_formula<T,L,A>(I,N,g,c,"unit-N")) return;
	// | |r|^2 - |I|^2 | = 4 (N.I)^2 | |N|^2-1 | <= 8u|I|^2 -> 4u|I| ; rounding of r: 3(L+2)u|I|  => (3L+10) u |I|
	W ni=w_sqrt(ni2), gl=w_sqrt(n2of<T,L>(g)), lb=W(SF*(3*L+10))*u*ni+W(L)*tiny*Tr<T>::p2(40), le=w_abs(gl-ni); rat(c,"reflect:length-err/bound",(double)(le/lb));
	if(!(le<=lb)) c.fail(A::pfx()+"reflect:unit-N:length-not-preserved",vf::show((T)gl),vf::show((T)ni));
	// R(R(I)) = I - 4 (N.I)(1-|N|^2) N (<= 8u|I|), rounding 3(L+2)u|I| per application => (6L+20) u |I| (Euclidean norm)
	T h[4]; out<A,T,L>(glm::reflect(A::mk(g,in.mode),gN),h); W e2=0; for(int i=0;i<L;i++){ W e=(W)h[i]-(W)I[i]; e2+=e*e; }
	W ib=W(SF*(6*L+20))*u*ni+W(L)*tiny*Tr<T>::p2(40), ie=w_sqrt(e2); rat(c,"reflect:involution-err/bound",(double)(ie/ib));
	if(!(ie<=ib)) c.fail(A::pfx()+"reflect:unit-N:not-an-involution",sv<T,L>(h),sv<T,L>(I));
}

// ================================================================ refract
// d=dot(N,I); k = 1 - eta*eta*(1 - d*d); k<0 -> 0 vector, else eta*I - (eta*d + sqrt(k))*N.
// Error of the computed k (first order, every operation rounded once):
//   e_d = L u S_d ; A = 1-d^2 : E_A = 2|d|e_d + e_d^2 + u d^2 + u|A| ; E_k = eta^2 (E_A + 2u(|A|+E_A)) (1+u) + u|k|
// |k| <= 2 E_k : either branch accepted.  sqrt error: min(E_k/sqrt(k), sqrt(E_k)) + 2u sqrt(k).
// component error <= 2u eta|I_i| + |N_i| ( eta e_d + sq_err + u (eta|d| + 3P) ),  P = eta|d| + sqrt(k)
template<class T,int L,class A> static void k_refract(const In<T,2>& in,vf::Ctx& c){ TRT
	const T *Ir=in.v[0],*Nr=in.v[1]; T eta=in.s; bool raw=(in.mode&2)!=0;
	if(!dom<T,L>(Ir)||!dom<T,L>(Nr)||!isfinite_b(eta)||!(eta>0)||!((W)eta<=16)||!((W)eta>=Tr<T>::p2(-20))) SKIP("out-of-domain");
	T I[4],N[4];
	if(raw){ W a=n2of<T,L>(Ir), b=n2of<T,L>(Nr); if(a<Tr<T>::p2(-10)||a>Tr<T>::p2(10)||b<Tr<T>::p2(-10)||b>Tr<T>::p2(10)) SKIP("raw-magnitude-out-of-range"); for(int i=0;i<4;i++){ I[i]=i<L?Ir[i]:0; N[i]=i<L?Nr[i]:0; } }
	else { unitize<T,L>(Ir,I); unitize<T,L>(Nr,N); }
	W d=0,S=0; bool allz=true; for(int i=0;i<L;i++){ W p=(W)N[i]*(W)I[i]; d+=p; S+=w_abs(p); if(p!=0) allz=false; }
	W e=eta, ed=W(L)*u*S, Aq=1-d*d, EA=2*w_abs(d)*ed+ed*ed+u*d*d+u*w_abs(Aq), k=1-e*e*Aq, Ek=(e*e*(EA+2*u*(w_abs(Aq)+EA))*(1+u)+u*w_abs(k))*W(SF)+tiny;
	T g[4]; out<A,T,L>(glm::refract(A::mk(I,in.mode),A::mk(N,in.mode),eta),g);
	bool zero=true,nan=false; for(int i=0;i<L;i++){ if(g[i]!=0) zero=false; if(!isfinite_b(g[i])) nan=true; }
	std::string m= (raw&&L==1)? "not-normalised-input:":""; // with L=1 total internal reflection is only reachable when |N.I| < 1
	if(allz && eta==(T)1){ // every product N_i*I_i is exactly 0 and eta = 1: the floating-point k is exactly 0 in any evaluation order,
		// k < 0 is false, and the formula gives 1*I - (1*0 + sqrt(0))*N = I exactly
		c.cls("grazing-incidence(k==0-exactly)"); for(int i=0;i<L;i++) if(!(g[i]==I[i])){ c.fail(A::pfx()+"refract:"+m+"k==0-exactly:"+(nan?"returns-nan":zero?"returns-zero-vector":"differs-from-I"),sv<T,L>(g),sv<T,L>(I)); break; } return; }
	if(k<-2*Ek){ c.cls("total-internal-reflection"); T z[4]={0,0,0,0};
		if(!zero) c.fail(A::pfx()+"refract:"+m+"total-internal-reflection:"+(nan?"returns-nan":"returns-nonzero-vector"),sv<T,L>(g),sv<T,L>(z)); return; }
	bool straddle= k<=2*Ek; c.cls(straddle?"k~0(branch-within-rounding)":"refraction");
	W kp=w_max(k,W(0)), sq=w_sqrt(kp), sqe= (k>0? w_min(Ek/sq,w_sqrt(Ek)): w_sqrt(Ek)) + 2*u*sq + (straddle? w_sqrt(2*Ek):W(0)), P=e*w_abs(d)+sq;
	W r[4],bd[4],bn2=0; for(int i=0;i<L;i++){ r[i]=e*(W)I[i]-(e*d+sq)*(W)N[i]; bd[i]=W(SF)*(2*u*e*w_abs((W)I[i])+w_abs((W)N[i])*(e*ed+sqe+u*(e*w_abs(d)+3*P)))+4*tiny*(1+w_abs((W)N[i])); bn2+=bd[i]*bd[i]; }
	if(zero&&straddle) return;
	if(nan){ c.fail(A::pfx()+"refract:"+m+(straddle?"k~0":"k>0")+":returns-non-finite",sv<T,L>(g),sw<T,L>(r)); return; }
	if(zero && !straddle){ bool rz=true; for(int i=0;i<L;i++) if(w_abs(r[i])>bd[i]) rz=false; if(!rz){ c.fail(A::pfx()+"refract:"+m+"k>0:returns-zero-vector",sv<T,L>(g),sw<T,L>(r)); return; } }
	for(int i=0;i<L;i++){ W err=w_abs((W)g[i]-r[i]); if(!straddle) rat(c,"refract:err/bound",(double)(err/bd[i]));
		if(!(err<=bd[i])){ c.fail(A::pfx()+"refract:"+m+(straddle?"k~0":"k>0")+":differs-from-formula",sv<T,L>(g),sw<T,L>(r)); return; } }
	if(raw||straddle) return;
	// Snell: |T - (T.N)N| = eta |I - (I.N)N| for unit N (deviation from |N|!=1: 2.5u P), and |T| = 1 (deviation 1.5u(eta^2+P^2))
	W tn=0; for(int i=0;i<L;i++) tn+=(W)g[i]*(W)N[i]; W tt=0,it=0,gl=0; for(int i=0;i<L;i++){ W x=(W)g[i]-tn*(W)N[i], y=(W)I[i]-d*(W)N[i]; tt+=x*x; it+=y*y; gl+=(W)g[i]*(W)g[i]; }
	W bn=w_sqrt(bn2), sb=bn+W(SF*2.5)*u*P+W(SF*4)*u*e, se=w_abs(w_sqrt(tt)-e*w_sqrt(it)); rat(c,"refract:snell-err/bound",(double)(se/sb));
	if(!(se<=sb)) c.fail(A::pfx()+"refract:snell:sin(t)!=eta*sin(i)",vf::show((T)w_sqrt(tt)),vf::show((T)(e*w_sqrt(it))));
	W lb=bn+W(SF*1.5)*u*(e*e+P*P), le=w_abs(w_sqrt(gl)-1); rat(c,"refract:unit-length-err/bound",(double)(le/lb));
	if(!(le<=lb)) c.fail(A::pfx()+"refract:unit-inputs:result-not-unit-length",vf::show((T)w_sqrt(gl)),"1");
}

// ================================================================ gtx norms (vec3)
template<class T> static void k_norms(const In<T,2>& in,vf::Ctx& c){ TRT typedef VA<T,3> A;
	const T *a=in.v[0],*b=in.v[1]; if(!dom<T,3>(a)||!dom<T,3>(b)) SKIP("out-of-domain");
	W dd[3],n2=0; for(int i=0;i<3;i++){ dd[i]=(W)b[i]-(W)a[i]; n2+=dd[i]*dd[i]; } if(!okn2<T>(n2)) SKIP("a-b-out-of-domain");
	auto ga=A::mk(a,in.mode), gb=A::mk(b,in.mode); std::string p=A::pfx();
	auto chk=[&](const char* name,const char* ident,T got,W want,double k){ W bound=W(SF*k)*u*w_abs(want)+3*tiny, err=w_abs((W)got-want); rat(c,(std::string(name)+":err/bound").c_str(),(double)(err/bound));
		if(!(err<=bound)) c.fail(p+name+":differs-from-"+ident,vf::show(got),vf::show((T)want)); };
	W l1=w_abs((W)a[0])+w_abs((W)a[1])+w_abs((W)a[2]), l1d=w_abs(dd[0])+w_abs(dd[1])+w_abs(dd[2]);
	chk("l1Norm(v)","sum-of-abs",glm::l1Norm(ga),l1,2); chk("l1Norm(a,b)","sum-of-abs(b-a)",glm::l1Norm(ga,gb),l1d,3);
	chk("l2Norm(v)","length(v)",glm::l2Norm(ga),w_sqrt(n2of<T,3>(a)),2.5); chk("l2Norm(a,b)","length(b-a)",glm::l2Norm(ga,gb),w_sqrt(n2),3.5);
	W mx=w_max(w_abs((W)a[0]),w_max(w_abs((W)a[1]),w_abs((W)a[2]))), mxd=w_max(w_abs(dd[0]),w_max(w_abs(dd[1]),w_abs(dd[2])));
	T gm=glm::lMaxNorm(ga); if(!((W)gm==mx)) c.fail(p+"lMaxNorm(v):differs-from-max-abs-component",vf::show(gm),vf::show((T)mx));
	chk("lMaxNorm(a,b)","max-abs(b-a)",glm::lMaxNorm(ga,gb),mxd,1);
}
// lxNorm(v,D) = (sum |v_i|^D)^(1/D): libm pow assumed within 2 ulp (4u): inner 4u + two additions 2u, outer pow propagates /D,
// rounding of 1/D contributes |ln s|/D u, outer pow 4u:  (6/D + 4 + |ln s|/D) u
template<class T> static void k_lxnorm(const In<T,2>& in,vf::Ctx& c){ TRT typedef VA<T,3> A;
	const T *a=in.v[0],*b=in.v[1]; if(!dom<T,3>(a)||!dom<T,3>(b)) SKIP("out-of-domain");
	if(!(in.s>=1&&in.s<=8&&in.s==std::floor(in.s))) SKIP("depth-out-of-range"); unsigned D=(unsigned)in.s;
	auto ga=A::mk(a,in.mode), gb=A::mk(b,in.mode); std::string p=A::pfx();
	for(int two=0;two<2;two++){ W s=0,mx=0; for(int i=0;i<3;i++){ W x= two? w_abs((W)b[i]-(W)a[i]): w_abs((W)a[i]); mx=w_max(mx,x); s+= x==0? W(0): w_pow(x,(W)D); }
		if(mx==0||!okn2<T>(w_pow(mx,(W)D))||!okn2<T>(mx*mx)) { c.cls("skipped:power-out-of-domain"); continue; }
		W want=w_pow(s,1/(W)D), k=W(SF)*(W(6.0)/D+4+(two?1:0)+w_abs(w_log(s))/D), bound=k*u*want+Tr<T>::p2(-60)*want, got= two? (W)glm::lxNorm(ga,gb,D): (W)glm::lxNorm(ga,D), err=w_abs(got-want);
		rat(c,"lxNorm:err/bound",(double)(err/bound)); if(!(err<=bound)) c.fail(p+(two?"lxNorm(a,b)":"lxNorm(v)")+":differs-from-(sum|x|^D)^(1/D)",vf::show((T)got),vf::show((T)want)); }
}

// ================================================================ gtx proj / perp
// proj = dot(x,N)/dot(N,N)*N: numerator L u S_d, denominator relative L u, division u, product u:
//   |err_i| <= (2L+2) u |N_i| S_d / |N|^2 ;  perp = x - proj: + u(|x_i| + |proj_i|)
template<class T,int L> static void k_projperp(const In<T,2>& in,vf::Ctx& c,bool perp){ TRT typedef VA<T,L> A;
	// proj/perp are judged on the whole domain of the statement (squared norms and the dot product neither overflow nor underflow),
	// which is wider than the +-2^(E2/2) magnitudes used for the other checks: |v|^2 and sum|x_i N_i| within 2^+-EW
	const T *x=in.v[0],*N=in.v[1]; const int EW= sizeof(T)==4? 120: 1000;
	{ W nx=n2of<T,L>(x), nN=n2of<T,L>(N); if(!fin<T,L>(x)||!fin<T,L>(N)||!(nx>=Tr<T>::p2(-EW)&&nx<=Tr<T>::p2(EW)&&nN>=Tr<T>::p2(-EW)&&nN<=Tr<T>::p2(EW))) SKIP("out-of-domain"); }
	W d=0,S=0,nn=n2of<T,L>(N); for(int i=0;i<L;i++){ W p=(W)x[i]*(W)N[i]; d+=p; S+=w_abs(p); }
	if(S>Tr<T>::p2(EW) || (S!=0 && S<Tr<T>::p2(-EW))) SKIP("dot-product-out-of-range"); c.cls(nn>Tr<T>::p2(Tr<T>::E2)||nn<Tr<T>::p2(-Tr<T>::E2)? "extreme-magnitude-Normal":"moderate-magnitude-Normal");
	T g[4]; auto gx=A::mk(x,in.mode), gN=A::mk(N,in.mode); if(perp) out<A,T,L>(glm::perp(gx,gN),g); else out<A,T,L>(glm::proj(gx,gN),g);
	W r[4],bd[4]; const char* nm= perp? "perp":"proj";
	for(int i=0;i<L;i++){ W pr=d/nn*(W)N[i], pb=W(SF*(2*L+2))*u*w_abs((W)N[i])*S/nn+4*tiny*(1+w_abs((W)N[i])+w_abs((W)N[i])/nn); r[i]= perp? (W)x[i]-pr: pr; bd[i]= perp? pb+W(SF)*u*(w_abs((W)x[i])+w_abs(pr)): pb; }
	for(int i=0;i<L;i++){ if(!isfinite_b(g[i])){ c.fail(A::pfx()+nm+":non-finite-for-finite-input",sv<T,L>(g),sw<T,L>(r)); return; }
		W err=w_abs((W)g[i]-r[i]); rat(c,perp?"perp:err/bound":"proj:err/bound",(double)(err/bd[i]));
		if(!(err<=bd[i])){ c.fail(A::pfx()+nm+(perp?":differs-from-x-proj(x,N)":":differs-from-dot(x,N)/dot(N,N)*N"),sv<T,L>(g),sw<T,L>(r)); return; } }
	if(perp){ W o=0,ob=0; for(int i=0;i<L;i++){ o+=(W)g[i]*(W)N[i]; ob+=bd[i]*w_abs((W)N[i]); } rat(c,"perp:orthogonality/bound",(double)(w_abs(o)/ob)); if(!(w_abs(o)<=ob)) c.fail(A::pfx()+"perp:not-orthogonal-to-Normal",vf::show((T)o),"0"); }
	else if(L>=2){ // parallel to N: g x N = 0, i.e. g_i N_j - g_j N_i = 0 within bd_i|N_j| + bd_j|N_i|
		for(int i=0;i<L;i++) for(int j=i+1;j<L;j++){ W w=(W)g[i]*(W)N[j]-(W)g[j]*(W)N[i], wb=bd[i]*w_abs((W)N[j])+bd[j]*w_abs((W)N[i]); if(!(w_abs(w)<=wb)){ c.fail(A::pfx()+"proj:not-parallel-to-Normal",sv<T,L>(g),sw<T,L>(r)); return; } } }
}

// ================================================================ gtx orthonormalize
// forward error propagation of the documented Gram-Schmidt formulas (Euclidean norms), n_u = (L/2+3)u for one normalize:
//   normalize of a vector with absolute error E and norm |w| : 2E/|w| + n_u
template<class T> static void k_orthovec(const In<T,2>& in,vf::Ctx& c){ TRT typedef VA<T,3> A;
	const T *x=in.v[0],*yr=in.v[1]; if(!dom<T,3>(x)||!dom<T,3>(yr)) SKIP("out-of-domain");
	T y[4]; unitize<T,3>(yr,y); W d=0,S=0; for(int i=0;i<3;i++){ W p=(W)y[i]*(W)x[i]; d+=p; S+=w_abs(p); }
	W w[3],w2=0,E2=0,nx=w_sqrt(n2of<T,3>(x)); for(int i=0;i<3;i++){ w[i]=(W)x[i]-(W)y[i]*d; w2+=w[i]*w[i]; W ei=u*(w_abs((W)x[i])+W(3+2)*w_abs((W)y[i])*S); E2+=ei*ei; }
	W wn=w_sqrt(w2); if(!(wn>=Tr<T>::p2(-10)*nx)) SKIP("x-nearly-parallel-to-y");
	T g[4]; out<A,T,3>(glm::orthonormalize(A::mk(x,in.mode),A::mk(y,in.mode)),g);
	W nu=W(4.5)*u, eps=W(SF)*(2*w_sqrt(E2)/wn+nu)+tiny*Tr<T>::p2(60), r[3]; for(int i=0;i<3;i++) r[i]=w[i]/wn;
	for(int i=0;i<3;i++) if(!isfinite_b(g[i])){ c.fail(A::pfx()+"orthonormalize(x,y):non-finite-for-finite-input",sv<T,3>(g),sw<T,3>(r)); return; }
	W e2=0,gl=w_sqrt(n2of<T,3>(g)),oy=0; for(int i=0;i<3;i++){ W e=(W)g[i]-r[i]; e2+=e*e; oy+=(W)g[i]*(W)y[i]; }
	rat(c,"orthonormalize(x,y):err/bound",(double)(w_sqrt(e2)/eps));
	if(!(w_abs(gl-1)<=W(SF)*nu+tiny*Tr<T>::p2(60))){ c.fail(A::pfx()+"orthonormalize(x,y):not-unit-length",vf::show((T)gl),"1"); return; }
	if(!(w_sqrt(e2)<=eps)){ c.fail(A::pfx()+"orthonormalize(x,y):differs-from-normalize(x-y*dot(y,x))",sv<T,3>(g),sw<T,3>(r)); return; }
	W ob=eps*W(1.01)+W(SF*2.5)*u*w_abs(d)/wn; if(!(w_abs(oy)<=ob)) c.fail(A::pfx()+"orthonormalize(x,y):not-orthogonal-to-y",vf::show((T)oy),"0");
}
template<class T> static void k_orthomat(const In<T,3>& in,vf::Ctx& c){ TRT typedef VA<T,3> A;
	for(int k=0;k<3;k++) if(!dom<T,3>(in.v[k])) SKIP("out-of-domain");
	W m[3][3]; for(int k=0;k<3;k++) for(int i=0;i<3;i++) m[k][i]=in.v[k][i];
	auto nrm=[&](const W* v){ return w_sqrt(v[0]*v[0]+v[1]*v[1]+v[2]*v[2]); }; auto dt=[&](const W* a,const W* b){ return a[0]*b[0]+a[1]*b[1]+a[2]*b[2]; };
	W r[3][3],nu=W(4.5)*u,eps[3]; W n0=nrm(m[0]),n1=nrm(m[1]),n2=nrm(m[2]);
	for(int i=0;i<3;i++) r[0][i]=m[0][i]/n0; eps[0]=nu;
	W d0=dt(r[0],m[1]), w1[3]; for(int i=0;i<3;i++) w1[i]=m[1][i]-r[0][i]*d0; W w1n=nrm(w1); if(!(w1n>=Tr<T>::p2(-8)*n1)) SKIP("columns-nearly-dependent");
	W dd0=(3*u+eps[0])*n1, E1=dd0+eps[0]*w_abs(d0)+u*w_abs(d0)+u*(n1+w_abs(d0)); eps[1]=2*E1/w1n+nu; for(int i=0;i<3;i++) r[1][i]=w1[i]/w1n;
	W d1=dt(r[1],m[2]), e0=dt(r[0],m[2]), w2[3]; for(int i=0;i<3;i++) w2[i]=m[2][i]-(r[0][i]*e0+r[1][i]*d1); W w2n=nrm(w2); if(!(w2n>=Tr<T>::p2(-8)*n2)) SKIP("columns-nearly-dependent");
	W dd1=(3*u+eps[1])*n2, de0=(3*u+eps[0])*n2, E2=de0+dd1+eps[0]*w_abs(e0)+eps[1]*w_abs(d1)+2*u*(w_abs(e0)+w_abs(d1))+u*(n2+w_abs(e0)+w_abs(d1)); eps[2]=2*E2/w2n+nu; for(int i=0;i<3;i++) r[2][i]=w2[i]/w2n;
	glm::mat<3,3,T,Q> M; for(int k=0;k<3;k++) M[k]=A::mk(in.v[k],in.mode); glm::mat<3,3,T,Q> G=glm::orthonormalize(M);
	T g[3][4]; for(int k=0;k<3;k++){ out<A,T,3>(G[k],g[k]); for(int i=0;i<3;i++) if(!isfinite_b(g[k][i])){ c.fail(A::pfx()+"orthonormalize(mat3):non-finite-for-finite-input",sv<T,3>(g[k]),sw<T,3>(r[k])); return; } }
	W sl=tiny*Tr<T>::p2(60);
	for(int k=0;k<3;k++){ W e2=0; for(int i=0;i<3;i++){ W e=(W)g[k][i]-r[k][i]; e2+=e*e; } W gl=w_sqrt(n2of<T,3>(g[k]));
		rat(c,"orthonormalize(mat3):err/bound",(double)(w_sqrt(e2)/(W(SF)*eps[k])));
		if(!(w_abs(gl-1)<=W(SF)*nu+sl)){ c.fail(A::pfx()+"orthonormalize(mat3):column-not-unit-length",vf::show((T)gl),"1"); return; }
		if(!(w_sqrt(e2)<=W(SF)*eps[k]+sl)){ c.fail(A::pfx()+"orthonormalize(mat3):column-differs-from-gram-schmidt",sv<T,3>(g[k]),sw<T,3>(r[k])); return; } }
	for(int j=0;j<3;j++) for(int k=j+1;k<3;k++){ W o=0; for(int i=0;i<3;i++) o+=(W)g[j][i]*(W)g[k][i]; W ob=W(SF)*(eps[j]+eps[k])*W(1.01)+sl;
		if(!(w_abs(o)<=ob)){ c.fail(A::pfx()+"orthonormalize(mat3):columns-not-orthogonal",vf::show((T)o),"0"); return; } }
}

// ================================================================ gtx vector_angle
// angle = acos(clamp(dot,-1,1)) for unit vectors: acos is monotone, so the result lies in acos of the interval d +- L u S,
// widened by 2 ulp (4u relative) of libm acos.
template<class T,int L> static bool angle_interval(const T* x,const T* y,typename Tr<T>::W& lo,typename Tr<T>::W& hi,typename Tr<T>::W& mid){ TRT
	W d=0,S=0; for(int i=0;i<L;i++){ W p=(W)x[i]*(W)y[i]; d+=p; S+=w_abs(p); } W e=W(SF*L)*u*S+tiny;
	auto cl=[&](W v){ return v<-1? W(-1): (v>1? W(1): v); };
	lo=w_acos(cl(d+e)); hi=w_acos(cl(d-e)); mid=w_acos(cl(d)); lo=lo*(1-4*u)-tiny; hi=hi*(1+4*u)+tiny; return d+e<1 && d-e>-1; }
template<class T,int L,class A> static void k_angle(const In<T,2>& in,vf::Ctx& c){ TRT
	const T *xr=in.v[0],*yr=in.v[1]; if(!dom<T,L>(xr)||!dom<T,L>(yr)) SKIP("out-of-domain");
	T x[4],y[4]; unitize<T,L>(xr,x); unitize<T,L>(yr,y); W lo,hi,mid; bool open=angle_interval<T,L>(x,y,lo,hi,mid);
	T got=glm::angle(A::mk(x,in.mode),A::mk(y,in.mode));
	c.cls(mid==0?"parallel(dot>=1)":(mid>W(3.14159)?"antiparallel":"regular")); W hw=w_max(hi-mid,mid-lo); if(open) rat(c,"angle:err/halfwidth",(double)(w_abs((W)got-mid)/hw));
	if(!((W)got>=lo&&(W)got<=hi)) c.fail(A::pfx()+(isnan_b(got)?"angle:nan-for-unit-vectors":"angle:differs-from-acos(dot(x,y))"),vf::show(got),vf::show((T)mid));
}
template<class T,int L> static void oriented_judge(T got,const T* x,const T* y,typename Tr<T>::W det,typename Tr<T>::W detb,vf::Ctx& c,const char* nm){ TRT typedef VA<T,L> A;
	W lo,hi,mid; angle_interval<T,L>(x,y,lo,hi,mid); W mag=w_abs((W)got); int want= det>detb? +1: (det<-detb? -1: 0);
	c.cls(want>0?"positive":(want<0?"negative":"sign-within-rounding"));
	if(!(mag>=lo&&mag<=hi)){ c.fail(A::pfx()+nm+(isnan_b(got)?":nan-for-unit-vectors":":magnitude-differs-from-acos(dot(x,y))"),vf::show(got),vf::show((T)mid)); return; }
	if(want>0&&!(got>=0)) c.fail(A::pfx()+nm+":counter-clockwise:returns-negative-angle",vf::show(got),vf::show((T)mid));
	if(want<0&&!(got<=0)) c.fail(A::pfx()+nm+":clockwise:returns-positive-angle",vf::show(got),vf::show((T)-mid));
}
template<class T> static void k_oriented2(const In<T,2>& in,vf::Ctx& c){ TRT typedef VA<T,2> A;
	const T *xr=in.v[0],*yr=in.v[1]; if(!dom<T,2>(xr)||!dom<T,2>(yr)) SKIP("out-of-domain");
	T x[4],y[4]; unitize<T,2>(xr,x); unitize<T,2>(yr,y); W p=(W)x[0]*(W)y[1], q=(W)y[0]*(W)x[1];
	T got=glm::orientedAngle(A::mk(x,in.mode),A::mk(y,in.mode)); oriented_judge<T,2>(got,x,y,p-q,W(SF*2)*u*(w_abs(p)+w_abs(q))+2*tiny,c,"orientedAngle(vec2)");
}
template<class T> static void k_oriented3(const In<T,3>& in,vf::Ctx& c){ TRT typedef VA<T,3> A;
	const T *xr=in.v[0],*yr=in.v[1],*rf=in.v[2]; if(!dom<T,3>(xr)||!dom<T,3>(yr)||!dom<T,3>(rf)) SKIP("out-of-domain");
	T x[4],y[4],r[4]; unitize<T,3>(xr,x); unitize<T,3>(yr,y); unitize<T,3>(rf,r);
	static const int J[3]={1,2,0},K[3]={2,0,1}; W det=0,S=0; for(int i=0;i<3;i++){ W p=(W)x[J[i]]*(W)y[K[i]], q=(W)y[J[i]]*(W)x[K[i]]; det+=(p-q)*(W)r[i]; S+=(w_abs(p)+w_abs(q))*w_abs((W)r[i]); }
	T got=glm::orientedAngle(A::mk(x,in.mode),A::mk(y,in.mode),A::mk(r,in.mode)); oriented_judge<T,3>(got,x,y,det,W(SF*5)*u*S+8*tiny,c,"orientedAngle(vec3)");
}

// ================================================================ gtx closestPointOnLine (segment a-b), vec2 / vec3
// t = dot(p-a, (b-a)/len): len (L/2+2)u, direction (L/2+4)u, p-a u, dot L u  => E_t = (1.5L+5) u sum|pa_i dir_i|
// t <= 0 -> a, t >= len -> b (demanded exactly outside the error band), else a + dir*t
template<class T,int L> static void k_closest(const In<T,3>& in,vf::Ctx& c){ TRT typedef VA<T,L> A;
	const T *p=in.v[0],*a=in.v[1],*b=in.v[2]; if(!fin<T,L>(p)||!fin<T,L>(a)||!fin<T,L>(b)) SKIP("out-of-domain");
	W ab[4],pa[4],l2=0,p2=0,t=0,St=0,mag=0; for(int i=0;i<L;i++){ ab[i]=(W)b[i]-(W)a[i]; pa[i]=(W)p[i]-(W)a[i]; l2+=ab[i]*ab[i]; p2+=pa[i]*pa[i]; mag=w_max(mag,w_max(w_abs((W)a[i]),w_max(w_abs((W)b[i]),w_abs((W)p[i])))); }
	if(!okn2<T>(l2)||p2>Tr<T>::p2(Tr<T>::E2)||mag*mag>Tr<T>::p2(Tr<T>::E2)) SKIP("out-of-domain");
	W len=w_sqrt(l2); for(int i=0;i<L;i++){ t+=pa[i]*ab[i]/len; St+=w_abs(pa[i]*ab[i])/len; }
	W Et=W(SF*(1.5*L+5))*u*St+W(L)*tiny*(1+mag/len), El=W(SF*(0.5*L+2))*u*len;
	T g[4]; out<A,T,L>(glm::closestPointOnLine(A::mk(p,in.mode),A::mk(a,in.mode),A::mk(b,in.mode)),g);
	W tc= t<0? W(0): (t>len? len: t), r[4]; for(int i=0;i<L;i++) r[i]= t<=0? (W)a[i]: (t>=len? (W)b[i]: (W)a[i]+ab[i]/len*tc);
	bool isA=true,isB=true,nan=false; for(int i=0;i<L;i++){ if(!(g[i]==a[i])) isA=false; if(!(g[i]==b[i])) isB=false; if(!isfinite_b(g[i])) nan=true; }
	const char* zone= t<-Et? "before-a": (t>len+Et+El? "beyond-b": ((t>Et&&t<len-Et-El)? "interior":"near-endpoint(clamp-within-rounding)")); c.cls(zone);
	if(nan){ c.fail(A::pfx()+"closestPointOnLine:non-finite-for-finite-input",sv<T,L>(g),sw<T,L>(r)); return; }
	if(t<-Et){ if(!isA) c.fail(A::pfx()+"closestPointOnLine:before-a:does-not-return-a",sv<T,L>(g),sv<T,L>(a)); return; }
	if(t>len+Et+El){ if(!isB) c.fail(A::pfx()+"closestPointOnLine:beyond-b:does-not-return-b",sv<T,L>(g),sv<T,L>(b)); return; }
	for(int i=0;i<L;i++){ W dir=w_abs(ab[i])/len, bound=W(SF)*u*(w_abs((W)a[i])+dir*tc)+dir*(Et+El)+W(SF*(0.5*L+5))*u*dir*tc+4*tiny, err=w_abs((W)g[i]-r[i]); rat(c,"closestPointOnLine:err/bound",(double)(err/bound));
		if(!(err<=bound)){ c.fail(A::pfx()+"closestPointOnLine:"+zone+":differs-from-a+dir*t",sv<T,L>(g),sw<T,L>(r)); return; } }
}

// ================================================================ gtx triangleNormal = normalize(cross(p1-p2, p1-p3))
// edge components relative u each, cross 2u(|p|+|q|) + 2u(|p|+|q|) from the perturbed factors; normalize 2E/|c| + 4.5u
template<class T> static void k_trinormal(const In<T,3>& in,vf::Ctx& c){ TRT typedef VA<T,3> A;
	const T *p1=in.v[0],*p2=in.v[1],*p3=in.v[2]; if(!fin<T,3>(p1)||!fin<T,3>(p2)||!fin<T,3>(p3)) SKIP("out-of-domain");
	W e1[3],e2[3],mag=0; for(int i=0;i<3;i++){ e1[i]=(W)p1[i]-(W)p2[i]; e2[i]=(W)p1[i]-(W)p3[i]; mag=w_max(mag,w_max(w_abs((W)p1[i]),w_max(w_abs((W)p2[i]),w_abs((W)p3[i])))); }
	static const int J[3]={1,2,0},K[3]={2,0,1}; W cr[3],c2=0,E2=0; for(int i=0;i<3;i++){ W p=e1[J[i]]*e2[K[i]], q=e2[J[i]]*e1[K[i]]; cr[i]=p-q; c2+=cr[i]*cr[i]; W ei=4*u*(w_abs(p)+w_abs(q)); E2+=ei*ei; }
	W n1=e1[0]*e1[0]+e1[1]*e1[1]+e1[2]*e1[2], n2=e2[0]*e2[0]+e2[1]*e2[1]+e2[2]*e2[2];
	if(!okn2<T>(n1)||!okn2<T>(n2)||!okn2<T>(c2)||mag*mag>Tr<T>::p2(Tr<T>::E2)) SKIP("out-of-domain");
	W cn=w_sqrt(c2); if(!(cn*cn>=Tr<T>::p2(-20)*n1*n2)) SKIP("degenerate-triangle");
	T g[4]; out<A,T,3>(glm::triangleNormal(A::mk(p1,in.mode),A::mk(p2,in.mode),A::mk(p3,in.mode)),g);
	W r[3],nu=W(4.5)*u,eps=W(SF)*(2*w_sqrt(E2)/cn+nu)+tiny*Tr<T>::p2(60); for(int i=0;i<3;i++) r[i]=cr[i]/cn;
	for(int i=0;i<3;i++) if(!isfinite_b(g[i])){ c.fail(A::pfx()+"triangleNormal:non-finite-for-finite-input",sv<T,3>(g),sw<T,3>(r)); return; }
	W e=0,gl=w_sqrt(n2of<T,3>(g)); for(int i=0;i<3;i++){ W x=(W)g[i]-r[i]; e+=x*x; } rat(c,"triangleNormal:err/bound",(double)(w_sqrt(e)/eps));
	if(!(w_abs(gl-1)<=W(SF)*nu+tiny*Tr<T>::p2(60))){ c.fail(A::pfx()+"triangleNormal:not-unit-length",vf::show((T)gl),"1"); return; }
	if(!(w_sqrt(e)<=eps)) c.fail(A::pfx()+"triangleNormal:differs-from-normalize(cross(p1-p2,p1-p3))",sv<T,3>(g),sw<T,3>(r));
}

// ---------------------------------------------------------------- op registration
#define DISP(K,...) switch(in.L){ case 1: K<T,1,VA<T,1>>(__VA_ARGS__); K<T,1,SA<T>>(__VA_ARGS__); break; case 2: K<T,2,VA<T,2>>(__VA_ARGS__); break; case 3: K<T,3,VA<T,3>>(__VA_ARGS__); break; case 4: K<T,4,VA<T,4>>(__VA_ARGS__); break; default: c.cls("skipped:bad-L"); }
#define DISPV(K,...) switch(in.L){ case 1: K<T,1>(__VA_ARGS__); break; case 2: K<T,2>(__VA_ARGS__); break; case 3: K<T,3>(__VA_ARGS__); break; case 4: K<T,4>(__VA_ARGS__); break; default: c.cls("skipped:bad-L"); }
#define FM1(F) F F F F F "ii"
#define FM2(F) F F F F F F F F F "ii"
#define FM3(F) F F F F F F F F F F F F F "ii"
typedef In<float,1> In1_f; typedef In<float,2> In2_f; typedef In<float,3> In3_f; typedef In<double,1> In1_d; typedef In<double,2> In2_d; typedef In<double,3> In3_d;
#define DEF_TYPE(T_,TN,F) \
	VF_OP(dot_##TN, In2_##TN, FM2(F)){ typedef T_ T; DISP(k_dot,in,c) } \
	VF_OP(length_##TN, In1_##TN, FM1(F)){ typedef T_ T; DISP(k_length,in,c) } \
	VF_OP(distance_##TN, In2_##TN, FM2(F)){ typedef T_ T; DISP(k_distance,in,c) } \
	VF_OP(cross_##TN, In2_##TN, FM2(F)){ k_cross<T_>(in,c); } \
	VF_OP(normalize_##TN, In1_##TN, FM1(F)){ typedef T_ T; DISPV(k_normalize,in,c) } \
	VF_OP(faceforward_##TN, In3_##TN, FM3(F)){ typedef T_ T; DISP(k_faceforward,in,c) } \
	VF_OP(reflect_##TN, In2_##TN, FM2(F)){ typedef T_ T; DISP(k_reflect,in,c) } \
	VF_OP(refract_##TN, In2_##TN, FM2(F)){ typedef T_ T; DISP(k_refract,in,c) } \
	VF_OP(length2_##TN, In1_##TN, FM1(F)){ typedef T_ T; DISP(k_length2,in,c) } \
	VF_OP(distance2_##TN, In2_##TN, FM2(F)){ typedef T_ T; DISP(k_distance2,in,c) } \
	VF_OP(norms_l1_l2_lMax_##TN, In2_##TN, FM2(F)){ k_norms<T_>(in,c); } \
	VF_OP(lxNorm_##TN, In2_##TN, FM2(F)){ k_lxnorm<T_>(in,c); } \
	VF_OP(proj_##TN, In2_##TN, FM2(F)){ typedef T_ T; DISPV(k_projperp,in,c,false) } \
	VF_OP(perp_##TN, In2_##TN, FM2(F)){ typedef T_ T; DISPV(k_projperp,in,c,true) } \
	VF_OP(orthonormalize_vec_##TN, In2_##TN, FM2(F)){ k_orthovec<T_>(in,c); } \
	VF_OP(orthonormalize_mat_##TN, In3_##TN, FM3(F)){ k_orthomat<T_>(in,c); } \
	VF_OP(angle_##TN, In2_##TN, FM2(F)){ typedef T_ T; DISP(k_angle,in,c) } \
	VF_OP(orientedAngle2_##TN, In2_##TN, FM2(F)){ k_oriented2<T_>(in,c); } \
	VF_OP(orientedAngle3_##TN, In3_##TN, FM3(F)){ k_oriented3<T_>(in,c); } \
	VF_OP(closestPointOnLine_##TN, In3_##TN, FM3(F)){ if(in.L==2) k_closest<T_,2>(in,c); else if(in.L==3) k_closest<T_,3>(in,c); else c.cls("skipped:bad-L"); } \
	VF_OP(triangleNormal_##TN, In3_##TN, FM3(F)){ k_trinormal<T_>(in,c); } \
	VF_OP(cross_vec2_##TN, In2_##TN, FM2(F)){ k_cross2<T_>(in,c); } \
	VF_OP(mixedProduct_##TN, In3_##TN, FM3(F)){ k_mixed<T_>(in,c); }
DEF_TYPE(float,f,"f")
DEF_TYPE(double,d,"d")

// ---------------------------------------------------------------- workload
struct Ops { vf::Op *dot,*length,*distance,*cross,*normalize,*faceforward,*reflect,*refract,*length2,*distance2,*norms,*lxnorm,*proj,*perp,*orthovec,*orthomat,*angle,*or2,*or3,*closest,*tri,*cross2,*mixed; };
#define OPS(TN) Ops{&dot_##TN,&length_##TN,&distance_##TN,&cross_##TN,&normalize_##TN,&faceforward_##TN,&reflect_##TN,&refract_##TN,&length2_##TN,&distance2_##TN,&norms_l1_l2_lMax_##TN,&lxNorm_##TN,&proj_##TN,&perp_##TN,&orthonormalize_vec_##TN,&orthonormalize_mat_##TN,&angle_##TN,&orientedAngle2_##TN,&orientedAngle3_##TN,&closestPointOnLine_##TN,&triangleNormal_##TN,&cross_vec2_##TN,&mixedProduct_##TN}

template<class T> struct Gen {
	vf::Rng& r; explicit Gen(vf::Rng& r_):r(r_){}
	T comp(int m){ switch(m){ case 0: case 1: case 2: return (T)r.uniform(-1,1); case 3: return (T)r.gauss(); case 4: return r.coin()? (T)0: (T)r.uniform(-1,1); case 5: return (T)r.logmag(-12,0); case 6: return (T)r.range(-8,8);
		default: { static const double S[]={0,1,-1,0.5,-0.5,2,-2,0.75,-0.25,3,-3,1.5,0.1,-0.1,1.0/3}; return (T)S[r.below(15)]; } } }
	void dir(T* v,int L){ for(;;){ int m=(int)r.below(9); bool nz=false; for(int i=0;i<4;i++) v[i]=0;
		if(m==8){ v[r.below(L)]= r.coin()? (T)1: (T)-1; nz=true; } else for(int i=0;i<L;i++){ v[i]=comp(m); if(v[i]!=0) nz=true; }
		if(nz) return; } }
	int pickE(){ return r.below(4)<2? 0: r.range(-(int)Tr<T>::EG,(int)Tr<T>::EG); }
	void scale(T* v,int e){ for(int i=0;i<4;i++) v[i]=std::ldexp(v[i],e); }
	void vec(T* v,int L){ dir(v,L); scale(v,pickE()); }
	void vec_e(T* v,int L,int e){ dir(v,L); scale(v,e); }
	T eps(){ return (T)std::ldexp(r.coin()?1.0:-1.0,-r.range((int)Tr<T>::EPSLO,(int)Tr<T>::EPSHI)); }
	T amax(const T* a,int L){ T m=0; for(int i=0;i<L;i++) m=std::max(m,(T)std::fabs(a[i])); return m; }
	bool orth(const T* a,T* b,int L){ for(int i=0;i<4;i++) b[i]=0; if(L<2) return false; int i=(int)r.below(L), j=(int)r.below(L-1); if(j>=i) j++; if(a[i]==0&&a[j]==0) return false; b[i]=-a[j]; b[j]=a[i]; return true; }
	// second vector in a chosen geometric relation to a
	void rel(const T* a,T* b,int L){ int m=(int)r.below(14); for(int i=0;i<4;i++) b[i]=0;
		switch(m){ default: vec(b,L); return;
		case 6: for(int i=0;i<L;i++) b[i]=a[i]; return;                                        // parallel (identical)
		case 7: for(int i=0;i<L;i++) b[i]=-a[i]; return;                                       // antiparallel
		case 8: { T s=(T)r.logmag(-6,6); for(int i=0;i<L;i++) b[i]=a[i]*s; return; }             // (anti)parallel, other length
		case 9: if(!orth(a,b,L)) vec(b,L); return;                                             // exactly orthogonal
		case 10: { T sg=r.coin()?(T)1:(T)-1, mx=amax(a,L), e=eps(); for(int i=0;i<L;i++) b[i]=sg*(a[i]+mx*e*(T)r.uniform(-1,1)); return; } // nearly (anti)parallel
		case 11: { T o[4]; if(!orth(a,o,L)){ vec(b,L); return; } T e=eps(); for(int i=0;i<L;i++) b[i]=o[i]+e*a[i]; return; }              // nearly orthogonal
		case 12: { for(int i=0;i<L;i++) b[i]=a[i]; int i=(int)r.below(L); b[i]=std::nextafter(b[i],r.coin()?(T)INFINITY:(T)-INFINITY); return; } // 1-ulp neighbour
		} }
};
template<class T,int NV> static In<T,NV> mkin(int L,int mode,T s,const T* v0,const T* v1=nullptr,const T* v2=nullptr){ In<T,NV> in; memset(&in,0,sizeof in); const T* vv[3]={v0,v1,v2};
	for(int k=0;k<NV;k++) for(int i=0;i<L;i++) in.v[k][i]=vv[k][i]; in.s=s; in.L=L; in.mode=mode; return in; }

template<class T> static void run_type(const char* label,Ops o,u64 n){
	vf::parallel(label,[&](int t,int TT,vf::Ctx& c){ Gen<T> g(c.rng); vf::Rng& r=c.rng;
#define RUN(OP,IN) do{ if(vf::want(*o.OP)) vf::run(c,*o.OP,IN); }while(0)
		for(u64 it=t;it<n;it+=TT){ int L=1+(int)(it%4), pm=(int)(r.next()&1); T a[4],b[4],d[4];
			g.vec(a,L); g.rel(a,b,L); g.rel(r.coin()?a:b,d,L);
			In<T,1> i1=mkin<T,1>(L,pm,0,a); In<T,2> i2=mkin<T,2>(L,pm,0,a,b);
			RUN(dot,i2); RUN(length,i1); RUN(distance,i2); RUN(normalize,i1); RUN(reflect,i2); RUN(length2,i1); RUN(distance2,i2); RUN(proj,i2); RUN(perp,i2); { /* extreme magnitudes for proj/perp only */ T ex[4],eN[4]; int hi= sizeof(T)==4? 58: 480, lo= sizeof(T)==4? 42: 320; int e1=r.range(lo,hi)*(r.coin()?1:-1), e2=r.range(-hi,hi); if(e1+e2>2*hi-20) e2=2*hi-20-e1; if(e1+e2<-(2*hi-20)) e2=-(2*hi-20)-e1; g.vec_e(eN,L,e1); if(r.below(3)==0){ g.rel(eN,ex,L); } else g.vec_e(ex,L,e2); In<T,2> ie=mkin<T,2>(L,pm,0,ex,eN); RUN(proj,ie); RUN(perp,ie); } RUN(angle,i2);
			{ // faceforward: N=a, I, Nref with dot(Nref,I) in {clearly +-, exactly 0, +-tiny}
				T I[4],R[4]; int m=(int)r.below(8); for(int k=0;k<4;k++){ I[k]=b[k]; R[k]=0; }
				if(m<3) g.rel(I,R,L);
				else if(m==3){ if(!g.orth(I,R,L)) g.vec(R,L); }
				else if(m==4){ T o[4]; if(g.orth(I,o,L)){ T e=g.eps(); for(int k=0;k<L;k++) R[k]=o[k]+e*I[k]; } else g.vec(R,L); }
				else if(m==5){ // small integers: the floating-point dot is exact in any order; Nref exactly orthogonal (2 or 3 non-zero products)
					for(;;){ bool nz=false; for(int k=0;k<L;k++){ I[k]=g.comp(6); if(I[k]!=0) nz=true; } if(nz) break; }
					T o1[4],o2[4]; bool h1=g.orth(I,o1,L), h2=g.orth(I,o2,L); if(h1){ for(int k=0;k<L;k++) R[k]=o1[k]+((h2&&r.coin())? o2[k]: (T)0); bool nz=false; for(int k=0;k<L;k++) if(R[k]!=0) nz=true; if(!nz) for(int k=0;k<L;k++) R[k]=o1[k]; }
					else for(int k=0;k<L;k++) R[k]= I[k]*(T)(r.coin()?1:-1); }
				else if(m==6 && L>=2){ // every product exactly zero: disjoint supports
					unsigned mask=1u+(unsigned)r.below((1u<<L)-2); for(int k=0;k<L;k++){ T v=(T)r.uniform(0.1,1)*(T)(r.coin()?1:-1); I[k]= (mask>>k&1)? v: (T)0; R[k]= (mask>>k&1)? (T)0: v; } int e=g.pickE(); g.scale(I,e); g.scale(R,e); }
				else { for(int k=0;k<L;k++) R[k]= r.coin()? I[k]: -I[k]; }
				In<T,3> f=mkin<T,3>(L,pm,0,a,I,R); RUN(faceforward,f); }
			{ // refract: eta in (0,4], log-spread, 1, and values that put k within a few ulps of 0
				bool raw=r.below(10)<3; T I[4],N[4]; if(raw){ g.vec_e(I,L,r.range(-2,2)); g.rel(I,N,L); if(r.coin()){ g.vec_e(N,L,r.range(-2,2)); } } else { for(int k=0;k<4;k++){ I[k]=a[k]; N[k]=b[k]; } }
				int m=(int)r.below(8); double eta;
				if(m<3) eta=r.uniform(0.01,4); else if(m==3) eta=std::exp2(r.uniform(-6,2)); else if(m==4) eta=1;
				else { T ui[4],un[4]; if(raw){ for(int k=0;k<4;k++){ ui[k]=I[k]; un[k]=N[k]; } } else if(dom<T,4>(I)&&dom<T,4>(N)){ unitize<T,4>(I,ui); unitize<T,4>(N,un); } else { for(int k=0;k<4;k++){ ui[k]=I[k]; un[k]=N[k]; } }
					long double dd=0; for(int k=0;k<L;k++) dd+=(long double)ui[k]*(long double)un[k]; long double A=1-dd*dd;
					if(A>1e-12L){ long double ec=1/sqrtl(A); int q=(int)r.below(4); eta=(double)(q==0? ec: q==1? ec*(1+(long double)g.eps()): q==2? ec*(1+4*(long double)Tr<T>::u()*(long double)r.range(-8,8)): ec*(1+(long double)r.uniform(-1e-3,1e-3))); }
					else eta=r.uniform(0.01,4); }
				if(m==4 && L>=2 && r.coin()){ unsigned mask=1u+(unsigned)r.below((1u<<L)-2); for(int k=0;k<L;k++){ T v=(T)r.uniform(0.1,1)*(T)(r.coin()?1:-1); I[k]= (mask>>k&1)? v: (T)0; N[k]= (mask>>k&1)? (T)0: v; } } // grazing incidence, k == 0 exactly
				if(!(eta>0)) eta=1; if(eta>16) eta=16;
				In<T,2> f=mkin<T,2>(L,pm|(raw?2:0),(T)eta,I,N); RUN(refract,f); }
			{ // vec3-only functions
				T x[4],y[4],z[4]; g.vec(x,3); g.rel(x,y,3); g.rel(r.coin()?x:y,z,3); int p3=(int)(r.next()&1);
				In<T,2> j2=mkin<T,2>(3,p3,0,x,y); In<T,3> j3=mkin<T,3>(3,p3,0,x,y,z);
				RUN(cross,j2); RUN(norms,j2); RUN(orthovec,j2); RUN(mixed,j3);
				In<T,2> jx=mkin<T,2>(3,p3,(T)r.range(1,8),x,y); RUN(lxnorm,jx);
				{ T m0[4],m1[4],m2[4]; int e=g.pickE(); g.vec_e(m0,3,e); if(r.below(4)==0) g.rel(m0,m1,3); else g.vec_e(m1,3,e+r.range(-3,3)); if(r.below(4)==0) g.rel(m1,m2,3); else g.vec_e(m2,3,e+r.range(-3,3)); In<T,3> jm=mkin<T,3>(3,p3,0,m0,m1,m2); RUN(orthomat,jm); }
				{ // orientedAngle(vec3): ref = +-cross(x,y)-like, random, or in the plane of x,y (sign within rounding)
					T rf[4]={0,0,0,0}; int m=(int)r.below(5); if(m<2) g.vec(rf,3); else if(m==2||m==3){ rf[0]=x[1]*y[2]-y[1]*x[2]; rf[1]=x[2]*y[0]-y[2]*x[0]; rf[2]=x[0]*y[1]-y[0]*x[1]; if(m==3) for(int k=0;k<3;k++) rf[k]=-rf[k]; if(!dom<T,3>(rf)) g.vec(rf,3); } else { T s1=(T)r.uniform(-1,1), s2=(T)r.uniform(-1,1); for(int k=0;k<3;k++) rf[k]=s1*x[k]+s2*y[k]; if(!dom<T,3>(rf)) g.vec(rf,3); }
					In<T,3> jo=mkin<T,3>(3,p3,0,x,y,rf); RUN(or3,jo); }
				{ // triangle: independent vertices, or edges much shorter than the distance from the origin
					T p1[4],p2[4]={0,0,0,0},q3[4]={0,0,0,0}; g.vec(p1,3); if(r.coin()){ g.vec(p2,3); g.vec(q3,3); } else { T e1[4],e2[4]; int e=(int)std::ilogb((double)g.amax(p1,3))-r.range(0,(int)Tr<T>::EPSLO+6); g.vec_e(e1,3,e); g.rel(e1,e2,3); for(int k=0;k<3;k++){ p2[k]=p1[k]+e1[k]; q3[k]=p1[k]+e2[k]; } }
					In<T,3> jt=mkin<T,3>(3,p3,0,p1,p2,q3); RUN(tri,jt); }
			}
			{ // vec2-only functions
				T x[4],y[4]; g.vec(x,2); g.rel(x,y,2); In<T,2> j2=mkin<T,2>(2,0,0,x,y); RUN(cross2,j2); RUN(or2,j2); }
			{ // closestPointOnLine, vec2 and vec3: point = a + t (b-a) + offset, t around the clamping thresholds
				int Lc=2+(int)((it/4)%2); T A[4],B[4],P[4]={0,0,0,0}; g.vec(A,Lc); g.rel(A,B,Lc); bool same=true; for(int k=0;k<Lc;k++) if(A[k]!=B[k]) same=false; if(same) g.vec(B,Lc);
				int m=(int)r.below(10); if(m==0) g.vec(P,Lc); else if(m==1) for(int k=0;k<Lc;k++) P[k]=A[k]; else if(m==2) for(int k=0;k<Lc;k++) P[k]=B[k];
				else { static const double TS[]={-0.5,0,0.3,0.5,0.9,1,1.7,-3,2}; double tt; int q=(int)r.below(12); if(q<9) tt=TS[q]; else if(q==9) tt=(double)g.eps(); else if(q==10) tt=1+(double)g.eps(); else tt=r.uniform(-1,2);
					T off[4]={0,0,0,0}; if(r.coin()){ T mx=0; for(int k=0;k<Lc;k++) mx=std::max(mx,(T)std::fabs(B[k]-A[k])); if(mx>0&&std::isfinite((double)mx)) g.vec_e(off,Lc,(int)std::ilogb((double)mx)-r.range(0,12)); }
					for(int k=0;k<Lc;k++) P[k]=(T)((double)A[k]+tt*((double)B[k]-(double)A[k]))+off[k]; }
				In<T,3> jc=mkin<T,3>(Lc,(int)(r.next()&1),0,P,A,B); RUN(closest,jc); }
		}
#undef RUN
	});
}

static void workload(){
	vf::note("qualifier", SIMD_ALIGNED? "aligned_highp with GLM_CONFIG_SIMD enabled (SSE/AVX specialisations of float vec3/vec4 are exercised; violation classes of those types carry the prefix simd-aligned:)":"packed (default) qualifier, pure C++ code paths");
	run_type<float>("float",OPS(f),vf::N(400000,16000000));
	run_type<double>("double",OPS(d),vf::N(200000,3000000));
}
VF_MAIN("C12_geometric")
