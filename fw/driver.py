"""Check driver: build monitors against $VERIF_REPO, run them, judge, write evidence."""
import os, sys, json, time, subprocess, shutil, re, hashlib, argparse
from concurrent.futures import ThreadPoolExecutor

VERIF = os.path.dirname(os.path.dirname(os.path.abspath(__file__)))
REPO = os.environ.get('VERIF_REPO', '/repo')
JOBS = int(os.environ.get('VERIF_JOBS', '16'))
# VERIF_TAG: scratch runs (seeded-defect matrix, mutant self-tests) use their own build directory and do not touch evidence/ or replay/
TAG = os.environ.get('VERIF_TAG', '')

COMMON = ['-std=c++17', '-ffp-contract=off', '-fno-fast-math', '-pthread', '-DGLM_ENABLE_EXPERIMENTAL',
          '-Wall', '-Wextra', '-Wno-unused-parameter', '-Wno-unused-function', '-Wno-unused-variable',
          '-I' + os.path.join(VERIF, 'fw'), '-I' + os.path.join(VERIF, 'mon')]
SAN_G = ['-O1', '-g', '-fno-omit-frame-pointer', '-fsanitize=address,undefined,float-cast-overflow',
         '-fno-sanitize=shift-base', '-DVF_SAN']
SAN_C = ['-O1', '-g', '-fno-omit-frame-pointer', '-fsanitize=address,undefined,float-cast-overflow',
         '-fno-sanitize=shift-base,object-size', '-DVF_SAN']
FLAGSETS = {
    'plain':   ('g++', ['-O2']),
    'plainO0': ('g++', ['-O0']),
    'plainO1': ('g++', ['-O1']),
    'plainO3': ('g++', ['-O3']),
    'plainOs': ('g++', ['-Os']),
    # what a release build of an application typically uses: FMA contraction allowed (only for monitors whose oracle is integer-based)
    'plainO2fma': ('g++', ['-O2', '-mavx2', '-mfma', '-ffp-contract=fast']),
    'clang':   ('clang++-14', ['-O2']),
    'clangOs': ('clang++-14', ['-Os']),
    'clangO0': ('clang++-14', ['-O0']),
    'gsan':    ('g++', SAN_G),
    'csan':    ('clang++-14', SAN_C),
    'usan':    ('g++', ['-O1', '-g', '-fsanitize=undefined,float-cast-overflow', '-fno-sanitize=shift-base', '-DVF_SAN']),
}
LIBS = ['-lmpfr', '-lgmp', '-lquadmath']


def log(*a):
    print(*a, flush=True)


class Unit:
    """One monitor build + run."""
    def __init__(self, name, src, flagset='plain', defs=(), args=(), role='main', scale=1.0, libs=(), timeout=None, min_evals=1, allow_zero=()):
        self.name = name; self.src = src; self.flagset = flagset; self.defs = list(defs); self.args = list(args)
        self.role = role; self.scale = scale; self.libs = list(libs); self.timeout = timeout; self.min_evals = min_evals
        self.allow_zero = set(allow_zero)
        self.exe = None; self.result = None; self.sanlines = []; self.rc = None; self.wall = 0.0; self.compile_s = 0.0

    def describe(self):
        cxx, fl = FLAGSETS[self.flagset]
        return {'unit': self.name, 'src': self.src, 'compiler': cxx, 'flags': fl + self.defs, 'args': self.args, 'scale': self.scale}


def compile_unit(u, bdir):
    cxx, fl = FLAGSETS[u.flagset]
    exe = os.path.join(bdir, u.name)
    cmd = [cxx] + COMMON + fl + u.defs + ['-isystem', REPO, os.path.join(VERIF, u.src), '-o', exe] + u.libs
    t = time.time()
    p = subprocess.run(cmd, stdout=subprocess.PIPE, stderr=subprocess.STDOUT, text=True)
    u.compile_s = time.time() - t
    u.exe = exe
    return u, p.returncode, p.stdout, cmd


def run_unit(u, bdir, tier, seed, extra_args=(), threads=None):
    out = os.path.join(bdir, u.name + '.result.json')
    sanlog = os.path.join(bdir, u.name + '.san.log')
    for f in (out, sanlog):
        if os.path.exists(f): os.remove(f)
    env = dict(os.environ)
    env['UBSAN_OPTIONS'] = 'print_stacktrace=1:halt_on_error=0:report_error_type=1'
    env['ASAN_OPTIONS'] = 'detect_leaks=0:abort_on_error=0:halt_on_error=1:detect_stack_use_after_return=0:allocator_may_return_null=1'
    cmd = [u.exe, '--out', out, '--tier', tier, '--seed', str(seed), '--scale', str(u.scale), '--sanlog', sanlog,
           '--threads', str(threads or JOBS)] + u.args + list(extra_args)
    if u.role == 'san': cmd.append('--san-only')
    t = time.time()
    stderr_path = os.path.join(bdir, u.name + '.stderr')
    to = u.timeout or (5400 if tier == 'thorough' else 1500)
    with open(stderr_path, 'w') as ef:
        try:
            p = subprocess.run(cmd, stdout=subprocess.PIPE, stderr=ef, text=True, env=env, timeout=to)
            u.rc = p.returncode; u.stdout = p.stdout
        except subprocess.TimeoutExpired:
            u.rc = 'timeout'; u.stdout = ''
    u.wall = time.time() - t
    u.result = None
    if os.path.exists(out):
        try: u.result = json.load(open(out))
        except Exception as e: u.result = None; u.parse_error = str(e)
    u.sanlines = []
    if os.path.exists(sanlog):
        u.sanlines = [l.rstrip('\n') for l in open(sanlog, errors='replace') if l.strip()]
    u.stderr_path = stderr_path
    return u


# ---------------------------------------------------------------- known findings
def load_known():
    known = {}
    fixed = []
    path = os.path.join(VERIF, 'KNOWN_FINDINGS.txt')
    if not os.path.exists(path): return known, fixed
    for line in open(path):
        line = line.strip()
        if not line or line.startswith('#'): continue
        if line.startswith('known:'):
            head, _, desc = line[6:].partition(' -- ')
            kv = dict(t.split('=', 1) for t in head.split() if '=' in t)
            known[(kv.get('property'), kv.get('op'), kv.get('class'))] = desc.strip()
        elif line.startswith('fixed:'):
            fixed.append(line)
    return known, fixed


def norm_path(p):
    try: return os.path.realpath(p)
    except Exception: return p


SAN_RE = re.compile(r'^(UBSAN|ASAN|CRASH) (.*?) op=(\S+) in=([0-9a-f]*)$')


def parse_sanline(line):
    m = SAN_RE.match(line)
    if not m: return None
    tag, detail, op, inhex = m.groups()
    d = {'tag': tag, 'op': op, 'in_hex': inhex, 'detail': detail}
    for k in ('kind', 'file', 'line', 'sig'):
        mm = re.search(r'\b' + k + r'=(\S+)', detail)
        if mm: d[k] = mm.group(1)
    mm = re.search(r'msg="(.*)"', detail)
    if mm: d['msg'] = mm.group(1)
    return d


def safe(s):
    return re.sub(r'[^A-Za-z0-9_.+-]+', '_', s)[:120]


# ---------------------------------------------------------------- main check
def do_check(prop, tier, seed, specmod):
    t0 = time.time()
    spec = specmod.spec(prop, tier, seed)
    bdir = os.path.join(VERIF, 'build', prop + ('.' + TAG if TAG else ''))
    shutil.rmtree(bdir, ignore_errors=True); os.makedirs(bdir)
    units = spec['units']
    harness_fail = []
    # -- build
    if 'pre' in spec:
        spec['pre'](bdir, REPO, units)
    with ThreadPoolExecutor(max_workers=JOBS) as ex:
        res = list(ex.map(lambda u: compile_unit(u, bdir), units))
    for u, rc, out, cmd in res:
        if rc != 0:
            open(os.path.join(bdir, u.name + '.compile.log'), 'w').write(' '.join(cmd) + '\n' + out)
            if getattr(u, 'optional', False):
                u.skipped = 'does not compile in this configuration'; continue
            log('COMPILE-FAIL unit=%s (see build/%s/%s.compile.log)' % (u.name, prop, u.name)); log(out[-3000:])
            harness_fail.append('compile:' + u.name)
    if harness_fail:
        return finish(prop, tier, seed, spec, units, [], [], harness_fail, t0)
    # -- run (groups of units may run concurrently if spec says so)
    par = spec.get('parallel_units', 1)
    runnable = [u for u in units if not getattr(u, 'skipped', None)]
    thr = max(1, JOBS // par)
    with ThreadPoolExecutor(max_workers=par) as ex:
        list(ex.map(lambda u: run_unit(u, bdir, tier, seed, threads=thr), runnable))
    # one retry for timeouts (inconclusive, never a violation)
    for u in runnable:
        if u.rc == 'timeout':
            log('watchdog fired for unit %s, re-running once' % u.name)
            run_unit(u, bdir, tier, seed, threads=JOBS)
            if u.rc == 'timeout': harness_fail.append('timeout:' + u.name)
    # -- judge
    viols = []   # dicts: op, class, count, witnesses, unit
    for u in runnable:
        crashed = False
        for l in u.sanlines:
            d = parse_sanline(l)
            if not d:
                continue
            if d['tag'] == 'CRASH':
                crashed = True
                viols.append({'op': d['op'], 'class': 'crash:sig=' + d.get('sig', '?'), 'count': 1, 'unit': u,
                              'witnesses': [{'in_hex': d['in_hex'], 'in': '', 'got': 'process crashed (signal %s; glm assert/abort/trap)' % d.get('sig'), 'want': 'normal return'}]})
            elif d['tag'] in ('UBSAN', 'ASAN'):
                if not spec.get('sanitizer'):
                    continue
                f = norm_path(d.get('file', '?'))
                glmroot = norm_path(os.path.join(REPO, 'glm')) + os.sep
                # the compiler's SIMD intrinsic wrappers (emmintrin.h, avxintrin.h, ...) are always-inline functions: a report located in one
                # of them is a load/store glm issued through an intrinsic (the monitors call no pointer-taking intrinsic themselves)
                intrin = d['tag'] == 'UBSAN' and re.search(r'/include/[a-z0-9_]*intrin\.h$', f) is not None
                if d['tag'] == 'UBSAN' and not f.startswith(glmroot) and not intrin:
                    if f.startswith(norm_path(VERIF) + os.sep):
                        harness_fail.append('sanitizer report in harness code: ' + l[:300])
                    continue  # libstdc++ etc: not glm
                rel = ('simd-intrinsic:' + os.path.basename(f)) if intrin else f[len(glmroot):] if f.startswith(glmroot) else 'asan'
                cls = ('ubsan:%s:%s' % (d.get('kind', '?'), rel)) if d['tag'] == 'UBSAN' else 'asan:memory-error'
                viols.append({'op': d['op'], 'class': cls, 'count': 1, 'unit': u,
                              'witnesses': [{'in_hex': d['in_hex'], 'in': '', 'got': '%s at glm/%s:%s %s' % (d.get('kind'), rel, d.get('line'), d.get('msg', '')), 'want': 'no sanitizer report'}]})
        if u.rc == 'timeout':
            continue
        if u.rc != 0 and not crashed:
            tail = ''
            try: tail = open(u.stderr_path, errors='replace').read()[-1500:]
            except Exception: pass
            if spec.get('sanitizer') and 'AddressSanitizer' in tail:
                pass  # already recorded via ASAN line
            else:
                harness_fail.append('unit %s exited rc=%s: %s' % (u.name, u.rc, tail[-400:]))
        if u.result is None:
            if not crashed: harness_fail.append('no result file from unit ' + u.name)
            continue
        for op in u.result['ops']:
            if op['evals'] < u.min_evals and op['op'] not in u.allow_zero and not u.result.get('partial'):
                harness_fail.append('unit %s observed %d (< %d) evaluations of op %s' % (u.name, op['evals'], u.min_evals, op['op']))
            if u.role == 'san':
                continue
            for v in op['violations']:
                viols.append({'op': op['op'], 'class': v['class'], 'count': v['count'], 'witnesses': v['witnesses'], 'unit': u})
    extra_viols = []
    if 'post' in spec:
        extra_viols, pf = spec['post'](bdir, units, tier, seed)
        harness_fail += pf
        viols += extra_viols
    return finish(prop, tier, seed, spec, units, viols, runnable, harness_fail, t0)


def finish(prop, tier, seed, spec, units, viols, ran, harness_fail, t0):
    known, fixed = load_known()
    # aggregate by key
    agg = {}
    for v in viols:
        k = (prop, v['op'], v['class'])
        a = agg.setdefault(k, {'count': 0, 'witnesses': [], 'units': []})
        a['count'] += v['count']
        un = v['unit'].name if v.get('unit') is not None else '-'
        if un not in a['units']: a['units'].append(un)
        for w in v['witnesses']:
            if len(a['witnesses']) < 3:
                w = dict(w); w['unit'] = un; a['witnesses'].append(w)
    rdir = os.path.join(VERIF, 'replay', prop) if not TAG else os.path.join(VERIF, 'build', prop + '.' + TAG, 'replay')
    new, kn = [], []
    unitmap = {u.name: u for u in units}
    for k, a in sorted(agg.items()):
        if k in known:
            kn.append((k, a)); log('KNOWN-FINDING: property=%s op=%s class=%s count=%d -- %s' % (prop, k[1], k[2], a['count'], known[k]))
        else:
            new.append((k, a))
    if new:
        os.makedirs(rdir, exist_ok=True)
    for k, a in new:
        w = a['witnesses'][0] if a['witnesses'] else {}
        un = w.get('unit', a['units'][0] if a['units'] else None)
        u = unitmap.get(un)
        fn = os.path.join(rdir, safe(k[1] + '__' + k[2]) + '.' + hashlib.sha1((k[1] + '|' + k[2]).encode()).hexdigest()[:6] + '.json')
        rec = {'property': prop, 'op': k[1], 'class': k[2], 'count': a['count'], 'seed': seed, 'tier': tier,
               'unit': u.describe() if u else None, 'witnesses': a['witnesses'],
               'replay_cmd': './check %s --replay %s' % (prop, os.path.relpath(fn, VERIF))}
        if w.get('replay'):
            rec['replay_kind'] = 'custom'
        json.dump(rec, open(fn, 'w'), indent=1)
        log('VIOLATION property=%s replay=%s' % (prop, fn))
        log('   op=%s class=%s count=%d units=%s' % (k[1], k[2], a['count'], ','.join(a['units'])))
        if w: log('   witness: in=(%s) got=%s want=%s' % (w.get('in', ''), w.get('got', ''), w.get('want', '')))
    # ---- evidence
    evals = 0; distinct = {}; per_op = {}; samples = []; ratios = {}; classes = {}; enum_all = True
    for u in ran:
        if not u.result: continue
        for op in u.result['ops']:
            evals += op['evals']
            key = (u.src, op['op'])
            distinct[key] = max(distinct.get(key, 0), op['distinct_nontrivial'])
            po = per_op.setdefault(op['op'], {'evaluations': 0, 'distinct_nontrivial': 0, 'exhaustive_evaluations': 0, 'units': []})
            po['evaluations'] += op['evals']; po['exhaustive_evaluations'] += op['enum_evals']
            po['distinct_nontrivial'] = max(po['distinct_nontrivial'], op['distinct_nontrivial'])
            po['units'].append(u.name)
            if op['evals'] != op['enum_evals']: enum_all = False
            for kx, vx in op['ratios'].items():
                r = ratios.setdefault(op['op'], {}); r[kx] = max(r.get(kx, 0), vx)
            for kx, vx in op['classes'].items():
                c = classes.setdefault(op['op'], {}); c[kx] = c.get(kx, 0) + vx
            if u.role != 'san' and len(samples) < 60 and op['samples']:
                samples.append({'op': op['op'], 'unit': u.name, 'input': op['samples'][len(op['samples']) // 2]})
    cov = {
        'evaluations': evals,
        'distinct_nontrivial': sum(distinct.values()),
        'rule': spec.get('rule', '') + ' | counting: an evaluation = one call of a glm operation judged by the oracle; inputs from complete enumerations are counted exactly, inputs from random/lattice streams are counted with a mergeable HyperLogLog sketch (2^12 registers, estimate x0.97, capped by the number of evaluations); an input is non-trivial unless all its bytes are zero; the same input fed to the same operation in several builds is counted once.',
        'samples': samples[:60] or [{'note': 'no samples'}],
        'exhaustive': bool(enum_all and evals > 0 and spec.get('exhaustive', False)),
        'operations': len(per_op),
        'per_operation': per_op,
        'input_classes': classes,
        'max_error_over_bound': ratios,
        'builds': [dict(u.describe(), wall_s=round(u.wall, 2), compile_s=round(u.compile_s, 2), rc=u.rc, skipped=getattr(u, 'skipped', None)) for u in units],
        'known_findings_matched': [{'op': k[1], 'class': k[2], 'count': a['count'], 'witness': (a['witnesses'] or [None])[0]} for k, a in kn],
        'new_violations': [{'op': k[1], 'class': k[2], 'count': a['count'], 'witness': (a['witnesses'] or [None])[0]} for k, a in new],
        'harness_failures': harness_fail,
        'unit_notes': {u.name: u.result.get('notes', {}) for u in ran if u.result},
        'verdict': 'violated' if new else ('inconclusive' if harness_fail else 'held on what was observed'),
    }
    cov.update(spec.get('coverage_extra', {}))
    ev = {'property_id': prop, 'tier': tier, 'seed': seed, 'level': 'exploration', 'coverage': cov,
          'assumptions': spec.get('assumptions', []) + [
              'x86-64, SSE2 scalar arithmetic, round-to-nearest, -ffp-contract=off, no -ffast-math; inputs read from run-time buffers',
              'glm headers compiled from ' + REPO + ' at check time; g++ 12.2 / clang++ 14; glibc libm',
              'held on the evaluations listed here; nothing is claimed about inputs that were not generated'],
          'wall_s': round(time.time() - t0, 2), 'violations': len(new)}
    os.makedirs(os.path.join(VERIF, 'evidence'), exist_ok=True)
    if evals < 1 or cov['distinct_nontrivial'] < 2:
        harness_fail.append('monitors observed no events')
        cov['evaluations'] = max(evals, 1); cov['distinct_nontrivial'] = max(cov['distinct_nontrivial'], 2)
        cov['harness_failures'] = harness_fail; cov['verdict'] = 'inconclusive'
    json.dump(ev, open(os.path.join(VERIF, 'evidence', prop + '.json') if not TAG else os.path.join(VERIF, 'build', prop + '.' + TAG, 'evidence.json'), 'w'), indent=1)
    log('%s tier=%s seed=%d: %d evaluations, %d operations, %d known findings, %d new violations, %.1fs' % (prop, tier, seed, evals, len(per_op), len(kn), len(new), time.time() - t0))
    if new: return 1
    if harness_fail:
        for h in harness_fail: log('HARNESS-FAILURE: ' + h)
        return 2
    return 0


def do_replay(prop, path, specmod):
    rec = json.load(open(path))
    prop = rec['property']
    if rec.get('replay_kind') == 'custom':
        return specmod.custom_replay(rec, REPO)
    ud = rec['unit']
    bdir = os.path.join(VERIF, 'build', prop + '.replay'); shutil.rmtree(bdir, ignore_errors=True); os.makedirs(bdir)
    fs = None
    for k, (cxx, fl) in FLAGSETS.items():
        if cxx == ud['compiler'] and ud['flags'][:len(fl)] == fl: fs = k
    u = Unit(ud['unit'], ud['src'], fs or 'plain', defs=ud['flags'][len(FLAGSETS[fs or 'plain'][1]):], libs=LIBS)
    spec = specmod.spec(prop, rec.get('tier', 'quick'), rec.get('seed', 1))
    for su in spec['units']:
        if su.name == u.name: u.libs = su.libs
    if 'pre' in spec: spec['pre'](bdir, REPO, [u])
    _, rc, out, cmd = compile_unit(u, bdir)
    if rc: log(out); return 2
    worst = 0
    env = dict(os.environ); env['UBSAN_OPTIONS'] = 'print_stacktrace=1:halt_on_error=0'; env['ASAN_OPTIONS'] = 'detect_leaks=0'
    for w in rec['witnesses'][:1]:
        sanlog = os.path.join(bdir, 'replay.san.log')
        p = subprocess.run([u.exe, '--replay-op', rec['op'], '--replay-hex', w['in_hex'], '--sanlog', sanlog], env=env, stdout=subprocess.PIPE, stderr=subprocess.STDOUT, text=True)
        log(p.stdout)
        r = p.returncode
        if os.path.exists(sanlog) and open(sanlog).read().strip():
            log(open(sanlog).read()); r = 1
        worst = max(worst, 1 if r not in (0, 2) else r)
    shutil.rmtree(bdir, ignore_errors=True)
    return worst


def main(argv):
    ap = argparse.ArgumentParser()
    ap.add_argument('prop')
    ap.add_argument('--tier', default=os.environ.get('VERIF_TIER', 'quick'), choices=['quick', 'thorough'])
    ap.add_argument('--replay')
    a = ap.parse_args(argv)
    seed = int(os.environ.get('VERIF_SEED', '1') or 1)
    import specs
    if a.replay:
        return do_replay(a.prop, a.replay, specs)
    try:
        return do_check(a.prop, a.tier, seed, specs)
    except Exception:
        import traceback; traceback.print_exc()
        return 2
