// ref.hpp — reference arithmetic helpers shared by the monitors (no glm code used here).
#pragma once
#include <cstdint>
#include <cstring>
#include <cmath>
#include <vector>
#include <limits>
#include <type_traits>
#include <string>

namespace ref {
typedef uint8_t u8; typedef uint16_t u16; typedef uint32_t u32; typedef uint64_t u64;
typedef int8_t i8; typedef int16_t i16; typedef int32_t i32; typedef int64_t i64;
typedef unsigned __int128 u128; typedef __int128 i128;

static inline u32 fbits(float f){ u32 b; memcpy(&b,&f,4); return b; }
static inline float bitsf(u32 b){ float f; memcpy(&f,&b,4); return f; }
static inline u64 dbits(double f){ u64 b; memcpy(&b,&f,8); return b; }
static inline double bitsd(u64 b){ double f; memcpy(&f,&b,8); return f; }
static inline u32 bits(float f){ return fbits(f);} static inline u64 bits(double f){ return dbits(f);}
template<class T> struct fp;
template<> struct fp<float>{ typedef u32 U; typedef i32 I; enum{ MANT=23, EXPB=8, BIAS=127 }; static float make(U b){ return bitsf(b);} static U raw(float f){ return fbits(f);} };
template<> struct fp<double>{ typedef u64 U; typedef i64 I; enum{ MANT=52, EXPB=11, BIAS=1023 }; static double make(U b){ return bitsd(b);} static U raw(double f){ return dbits(f);} };

template<class T> static inline bool isnan_b(T x){ typedef typename fp<T>::U U; U b=fp<T>::raw(x); U em=((U(1)<<fp<T>::EXPB)-1)<<fp<T>::MANT; U mm=(U(1)<<fp<T>::MANT)-1; return (b&em)==em && (b&mm)!=0; }
template<class T> static inline bool isinf_b(T x){ typedef typename fp<T>::U U; U b=fp<T>::raw(x); U em=((U(1)<<fp<T>::EXPB)-1)<<fp<T>::MANT; U mm=(U(1)<<fp<T>::MANT)-1; return (b&em)==em && (b&mm)==0; }
template<class T> static inline bool isfinite_b(T x){ typedef typename fp<T>::U U; U b=fp<T>::raw(x); U em=((U(1)<<fp<T>::EXPB)-1)<<fp<T>::MANT; return (b&em)!=em; }
template<class T> static inline bool signbit_b(T x){ typedef typename fp<T>::U U; return (fp<T>::raw(x)>>(sizeof(U)*8-1))&1; }
template<class T> static inline bool issubnormal_b(T x){ typedef typename fp<T>::U U; U b=fp<T>::raw(x); U em=((U(1)<<fp<T>::EXPB)-1)<<fp<T>::MANT; U mm=(U(1)<<fp<T>::MANT)-1; return (b&em)==0 && (b&mm)!=0; }

// bitwise identity, any NaN equals any NaN (EXACT class); +0 != -0
template<class T> static inline typename std::enable_if<std::is_floating_point<T>::value,bool>::type same(T a,T b){ if(isnan_b(a)||isnan_b(b)) return isnan_b(a)&&isnan_b(b); return fp<T>::raw(a)==fp<T>::raw(b); }
template<class T> static inline typename std::enable_if<!std::is_floating_point<T>::value,bool>::type same(T a,T b){ return a==b; }

// monotone integer index of the IEEE order: ord(-x) = -ord(x), ord(+0)=ord(-0)=0, consecutive floats differ by 1
template<class T> static inline typename fp<T>::I ord(T x){ typedef typename fp<T>::U U; typedef typename fp<T>::I I; U b=fp<T>::raw(x); U mag=b&~(U(1)<<(sizeof(U)*8-1)); return signbit_b(x)? -(I)mag : (I)mag; }
template<class T> static inline T from_ord(typename fp<T>::I o){ typedef typename fp<T>::U U; if(o<0) return fp<T>::make((U)(-o)|(U(1)<<(sizeof(U)*8-1))); return fp<T>::make((U)o); }
// unit in the last place of x (spacing to the next larger magnitude), for finite x
template<class T> static inline long double ulp(T x){ int e; if(x==0||issubnormal_b(x)) return std::ldexp(1.0L,1-(int)fp<T>::BIAS-(int)fp<T>::MANT); std::frexp((long double)x,&e); return std::ldexp(1.0L,e-1-(int)fp<T>::MANT); }
template<class T> static inline long double uround(){ return std::ldexp(1.0L,-(int)fp<T>::MANT-1); } // unit roundoff

// special-value lattices
static inline std::vector<float> float_lattice(){
	std::vector<float> v; auto both=[&](float x){ v.push_back(x); v.push_back(-x); };
	both(0.0f); both(bitsf(1)); both(bitsf(2)); both(bitsf(0x007fffff)); both(bitsf(0x00800000)); both(bitsf(0x00800001));
	both(bitsf(0x3effffff)); both(0.5f); both(bitsf(0x3f000001)); both(bitsf(0x3f7fffff)); both(1.0f); both(bitsf(0x3f800001)); both(1.5f); both(2.0f); both(2.5f); both(3.0f); both(3.5f); both(0.25f); both(0.75f);
	both(4.5f); both(5.5f); both(1e-3f); both(1e-10f); both(1e10f); both(255.0f); both(256.5f); both(65504.0f); both(65520.0f); both(65536.0f);
	both(8388607.0f); both(8388607.5f); both(8388608.0f); both(8388609.0f); both(4194303.5f); both(4194304.5f); both(16777215.0f); both(16777216.0f); both(16777218.0f);
	both(2147483520.0f); both(2147483648.0f); both(2147483904.0f); both(4294967040.0f); both(4294967296.0f); both(9.223372e18f); both(1.8446744e19f);
	both(bitsf(0x7f7fffff)); both(bitsf(0x7f800000)); v.push_back(bitsf(0x7fc00000)); v.push_back(bitsf(0xffc00000)); v.push_back(bitsf(0x7f800001));
	both(3.14159274f); both(1.57079637f); both(0.1f); both(1.0f/3.0f); both(100.0f); both(1e30f); both(1e-30f); both(1e38f);
	return v;
}
static inline std::vector<double> double_lattice(){
	std::vector<double> v; auto both=[&](double x){ v.push_back(x); v.push_back(-x); };
	both(0.0); both(bitsd(1)); both(bitsd(2)); both(bitsd(0x000fffffffffffffULL)); both(bitsd(0x0010000000000000ULL)); both(bitsd(0x0010000000000001ULL));
	both(bitsd(0x3fdfffffffffffffULL)); both(0.5); both(bitsd(0x3fe0000000000001ULL)); both(bitsd(0x3fefffffffffffffULL)); both(1.0); both(bitsd(0x3ff0000000000001ULL)); both(1.5); both(2.0); both(2.5); both(3.0); both(3.5); both(0.25); both(0.75);
	both(4.5); both(5.5); both(1e-3); both(1e-10); both(1e10); both(255.0); both(256.5); both(65504.0); both(65520.0);
	both(8388607.5); both(8388608.0); both(16777216.0); both(16777217.0); both(2147483647.0); both(2147483647.5); both(2147483648.0); both(2147483648.5); both(4294967295.0); both(4294967295.5); both(4294967296.0);
	both(4503599627370495.5); both(4503599627370496.0); both(4503599627370497.0); both(2251799813685247.5); both(2251799813685248.5); both(9007199254740992.0); both(9007199254740994.0); both(9223372036854775808.0); both(18446744073709551616.0);
	both(bitsd(0x7fefffffffffffffULL)); both(bitsd(0x7ff0000000000000ULL)); v.push_back(bitsd(0x7ff8000000000000ULL)); v.push_back(bitsd(0xfff8000000000000ULL)); v.push_back(bitsd(0x7ff0000000000001ULL));
	both(3.141592653589793); both(1.5707963267948966); both(0.1); both(1.0/3.0); both(100.0); both(1e300); both(1e-300); both(1e38); both(3.4028234663852886e38); both(1.1754943508222875e-38);
	return v;
}
template<class T> struct lattice_of;
template<> struct lattice_of<float>{ static std::vector<float> get(){ return float_lattice(); } };
template<> struct lattice_of<double>{ static std::vector<double> get(){ return double_lattice(); } };

template<class T> static inline std::vector<T> int_lattice(){
	typedef typename std::make_unsigned<T>::type U; const int W=sizeof(T)*8; std::vector<T> v;
	auto add=[&](U x){ v.push_back((T)x); };
	add(0); add(1); add(2); add(3); add((U)~U(0)); add((U)~U(1)); add((U)~U(2));
	for(int k=0;k<W;k++){ U p=U(1)<<k; add(p); add((U)(p-1)); add((U)(p+1)); add((U)~p); add((U)(0-p)); }
	U alt=0; for(int k=0;k<W;k+=2) alt|=U(1)<<k; add(alt); add((U)~alt);
	U alt2=0; for(int k=0;k<W;k+=4) alt2|=U(3)<<k; add(alt2); add((U)~alt2);
	U mn=U(1)<<(W-1); add(mn); add((U)(mn+1)); add((U)(mn-1)); add((U)(mn-2));
	add(10); add(100); add(7); add(12345%((1ull<<(W-1))-1)); add(255&(U)~U(0));
	return v;
}
} // namespace ref
